#!/bin/sh
# Builds the framework offline from files on disk: harness (debug+release, hooks on), tables read
# from the running implementation, full Coq build, extraction, OCaml driver.
set -e
cd /verif
mkdir -p .cache evidence replays
cp /repo/Cargo.lock harness/Cargo.lock
python3 - <<'PY'
import sys
sys.argv = ['check']
sys.path.insert(0, '/verif')
import importlib.machinery, importlib.util
loader = importlib.machinery.SourceFileLoader('check', '/verif/check')
spec = importlib.util.spec_from_loader('check', loader)
m = importlib.util.module_from_spec(spec); loader.exec_module(m)
b = m.build_all()
print('setup build ok' if b['ok'] else 'setup build FAILED at %s\n%s' % (b['stage'], b['detail']))
sys.exit(0 if b['ok'] else 1)
PY
