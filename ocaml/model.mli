
val xorb : bool -> bool -> bool

val negb : bool -> bool

type nat =
| O
| S of nat

val option_map : ('a1 -> 'a2) -> 'a1 option -> 'a2 option

type ('a, 'b) sum =
| Inl of 'a
| Inr of 'b

val fst : ('a1 * 'a2) -> 'a1

val snd : ('a1 * 'a2) -> 'a2

val length : 'a1 list -> nat

val app : 'a1 list -> 'a1 list -> 'a1 list

type comparison =
| Eq
| Lt
| Gt

val add : nat -> nat -> nat

val mul : nat -> nat -> nat

val pow : nat -> nat -> nat

val removelast : 'a1 list -> 'a1 list

val rev : 'a1 list -> 'a1 list

val map : ('a1 -> 'a2) -> 'a1 list -> 'a2 list

val flat_map : ('a1 -> 'a2 list) -> 'a1 list -> 'a2 list

val fold_left : ('a1 -> 'a2 -> 'a1) -> 'a2 list -> 'a1 -> 'a1

val existsb : ('a1 -> bool) -> 'a1 list -> bool

val forallb : ('a1 -> bool) -> 'a1 list -> bool

val filter : ('a1 -> bool) -> 'a1 list -> 'a1 list

val find : ('a1 -> bool) -> 'a1 list -> 'a1 option

val combine : 'a1 list -> 'a2 list -> ('a1 * 'a2) list

val firstn : nat -> 'a1 list -> 'a1 list

val skipn : nat -> 'a1 list -> 'a1 list

type positive =
| XI of positive
| XO of positive
| XH

type n =
| N0
| Npos of positive

module Pos :
 sig
  type mask =
  | IsNul
  | IsPos of positive
  | IsNeg
 end

module Coq_Pos :
 sig
  val succ : positive -> positive

  val add : positive -> positive -> positive

  val add_carry : positive -> positive -> positive

  val pred_double : positive -> positive

  val pred_N : positive -> n

  type mask = Pos.mask =
  | IsNul
  | IsPos of positive
  | IsNeg

  val succ_double_mask : mask -> mask

  val double_mask : mask -> mask

  val double_pred_mask : positive -> mask

  val sub_mask : positive -> positive -> mask

  val sub_mask_carry : positive -> positive -> mask

  val mul : positive -> positive -> positive

  val iter : ('a1 -> 'a1) -> 'a1 -> positive -> 'a1

  val compare_cont : comparison -> positive -> positive -> comparison

  val compare : positive -> positive -> comparison

  val eqb : positive -> positive -> bool

  val coq_Nsucc_double : n -> n

  val coq_Ndouble : n -> n

  val coq_lor : positive -> positive -> positive

  val coq_land : positive -> positive -> n

  val ldiff : positive -> positive -> n

  val shiftl : positive -> n -> positive

  val testbit : positive -> n -> bool

  val iter_op : ('a1 -> 'a1 -> 'a1) -> positive -> 'a1 -> 'a1

  val to_nat : positive -> nat

  val of_succ_nat : nat -> positive
 end

module N :
 sig
  val succ_double : n -> n

  val double : n -> n

  val succ : n -> n

  val pred : n -> n

  val add : n -> n -> n

  val sub : n -> n -> n

  val mul : n -> n -> n

  val compare : n -> n -> comparison

  val eqb : n -> n -> bool

  val leb : n -> n -> bool

  val ltb : n -> n -> bool

  val max : n -> n -> n

  val even : n -> bool

  val pos_div_eucl : positive -> n -> n * n

  val div_eucl : n -> n -> n * n

  val div : n -> n -> n

  val modulo : n -> n -> n

  val coq_lor : n -> n -> n

  val coq_land : n -> n -> n

  val ldiff : n -> n -> n

  val shiftl : n -> n -> n

  val testbit : n -> n -> bool

  val to_nat : n -> nat

  val of_nat : nat -> n

  val setbit : n -> n -> n

  val clearbit : n -> n -> n
 end

val u32MAX : n

val tWO32 : n

type key = n * n

val key_eqb : key -> key -> bool

val kEY_NULL : key

val nlen : 'a1 list -> n

val nget : 'a1 list -> n -> 'a1 option

val nset : 'a1 list -> n -> 'a1 -> 'a1 list

val ninsert : 'a1 list -> n -> 'a1 -> 'a1 list

val nremove : 'a1 list -> n -> 'a1 list

val swap_remove : 'a1 list -> n -> 'a1 list

val nposition : ('a1 -> bool) -> 'a1 list -> n option

val nrepeat_to : 'a1 list -> nat -> 'a1 -> 'a1 list

val alookup : n -> (n * 'a1) list -> 'a1 option

val ainsert : n -> 'a1 -> (n * 'a1) list -> (n * 'a1) list

val aremove : n -> (n * 'a1) list -> (n * 'a1) list

val sinsert : n -> n list -> n list

val smem : n -> n list -> bool

val list_eqb : ('a1 -> 'a1 -> bool) -> 'a1 list -> 'a1 list -> bool

type cacc =
| With
| Read
| ReadWrite
| Not
| Conflict

type access =
| AcNone
| AcRead
| AcReadWrite

val merge_acc : cacc -> cacc -> cacc option

val neg_acc : cacc -> cacc

val clear_acc : cacc -> cacc

val pos_acc : cacc -> bool

val var_acc : access -> cacc

val join_acc : access -> access -> access option

val conflict_acc : cacc -> bool

type case = (n * cacc) list

type ca = case list

val merge_case : case -> case -> case option

val ca_true : ca

val ca_false : ca

val ca_var : n -> access -> ca

val ca_and : ca -> ca -> ca

val ca_or : ca -> ca -> ca

val ca_not : ca -> ca

val ca_clear : ca -> ca

val lit_holds : (n -> bool) -> (n * cacc) -> bool

val case_matches : (n -> bool) -> case -> bool

val ca_matches : (n -> bool) -> ca -> bool

val dedupN : n list -> n list -> n list

val ca_conflicts : ca -> n list

type query =
| QRef of n
| QMut of n
| QTuple of query list
| QOpt of query
| QOr of query * query
| QXor of query * query
| QNot of query
| QWith of query
| QHas of query
| QEid

val access_of : query -> ca

val leaves : query -> n list

type astate =
| ACol of n * bool
| ATuple of astate list
| ASome of astate
| ANone
| ALeft of astate
| ARight of astate
| ABoth of astate * astate
| AXLeft of astate
| AXRight of astate
| ANot
| AWith
| AHas of bool
| AEid

val seq_opt : 'a1 option list -> 'a1 list option

val arch_state : (n -> bool) -> query -> astate option

val qmatch : (n -> bool) -> query -> bool

val arefs : astate -> (n * bool) list

val qrefs : (n -> bool) -> query -> (n * bool) list

type cval = n * n

type item =
| IVal of n * bool * cval
| ITuple of item list
| ISome of item
| INone
| ILeft of item
| IRight of item
| IBoth of item * item
| IXLeft of item
| IXRight of item
| INot
| IWith
| IHas of bool
| IEid of key
| IBad

val aitem : (n -> cval option) -> key -> astate -> item

val amuts : astate -> n list

val wrap_succ : n -> n

type 'v slot = { gen : n; link : n; val0 : 'v option }

type 'v smap = { slots : 'v slot list; next_free : n; sm_len : n }

val sget : 'a1 slot list -> n -> 'a1 slot option

val supd : 'a1 slot list -> n -> 'a1 slot -> 'a1 slot list

val sm_empty : 'a1 smap

val insert_with : (key -> 'a1) -> 'a1 smap -> (key * 'a1 smap) option

val sm_remove : key -> 'a1 smap -> ('a1 * 'a1 smap) option

val sm_get : key -> 'a1 smap -> 'a1 option

val next_key_iter : 'a1 smap -> n

val nki_next : n -> 'a1 smap -> (key option * n) option

type prio =
| High
| Medium
| Low

type 'h hlist = { hl_before : n; hl_after : n; hl_entries : 'h list }

val hl_new : 'a1 hlist

val hl_insert : 'a1 hlist -> 'a1 -> prio -> 'a1 hlist

val hl_remove : ('a1 -> 'a1 -> bool) -> 'a1 hlist -> 'a1 -> 'a1 hlist

type 'v spm = { sp_sparse : n list; sp_dense : 'v list; sp_indices : n list }

val sp_empty : 'a1 spm

type 'a out =
| Val of 'a
| Panic
| UB of n

val sp_get : 'a1 spm -> n -> 'a1 option out

val sp_insert : 'a1 spm -> n -> 'a1 -> ('a1 option * 'a1 spm) out

val sp_remove : 'a1 spm -> n -> ('a1 option * 'a1 spm) out

val sp_keys : 'a1 spm -> n list

val sp_values : 'a1 spm -> 'a1 list

val strip_max : n list -> n list

val sp_shrink : 'a1 spm -> 'a1 spm

val bITS : n

type bs = n list

val bs_mem : bs -> n -> bool

val bs_insert : bs -> n -> bool * bs

val bs_remove : bs -> n -> bool * bs

val bs_contains : bs -> n -> bool

val bs_or : bs -> bs -> bs

val bs_disjoint : bs -> bs -> bool

val bs_is_empty : bs -> bool

val strip0 : n list -> n list

val bs_shrink : bs -> bs

type outcome =
| Finished
| Aborted

val step :
  ('a2 -> 'a1 -> ('a2 list * 'a1) * bool) -> 'a2 list -> 'a1 -> ((('a2 * 'a2
  list) * 'a1) * bool) option

val flush :
  ('a2 -> 'a1 -> ('a2 list * 'a1) * bool) -> ('a2 list -> 'a1 -> 'a1) -> nat
  -> 'a2 list -> 'a1 -> 'a2 list -> (('a2 list * 'a1) * outcome) option

val ctag_has_drop : n -> bool

val ctag_zst : n -> bool

val g_SPAWN : n

val g_ADDC : n

val g_RMC : n

val g_ADDH : n

val g_RMH : n

val g_ADDGE : n

val g_ADDTE : n

val g_RMGE : n

val g_RMTE : n

val t_DESPAWN : n

val t_INSERT : n -> n

val t_REMOVE : n -> n

type ekind =
| KNormal
| KInsert of n
| KRemove of n
| KSpawn
| KDespawn

val gtag_has_drop : n -> bool

val ttag_has_drop : n -> bool

type fail =
| FPanic of n
| FUB of n

type eloc = n * n

type centry = (n * n) * n

type fkind =
| FkFetcher
| FkSingle
| FkTrySingle

type tgt =
| TTarget
| TKnown of n
| TFresh of n

type act =
| ASend of n
| ASendTo of tgt * n
| ASpawn
| AInsert of tgt * n
| ARemove of tgt * n
| ADespawn of tgt

type script = { s_take : bool; s_evdelta : n; s_wdelta : n;
                s_actions : act list }

type param =
| PRecvG of n * bool
| PRecvT of n * bool * query
| PFetch of fkind * query
| PSender of (bool * n) list

type rparam =
| RRecvG of bool
| RRecvT of bool * query * centry list
| RFetch of fkind * query * centry list
| RSender of (n * n) list * (n * n) list

type recvid =
| RvGlobal of key
| RvTargeted of key

type hinfo = { h_key : key; h_order : n; h_tid : n option; h_recv : recvid;
               h_recv_mut : bool; h_filter : ca; h_sent_g : n list;
               h_sent_t : n list; h_archfilter : ca; h_refcomps : n list;
               h_prio : prio; h_params : rparam list; h_script : script }

type cinfo = { c_tag : n; c_member_of : n list; c_ins : key list;
               c_rem : key list }

type einfo = { e_tag : n; e_kind : ekind }

type arch = { a_uid : n; a_comps : n list; a_rows : (key * cval list) list;
              a_cap : n; a_epoch : n; a_ins : (n * n) list;
              a_rem : (n * n) list; a_refresh : key list;
              a_listeners : (n * key hlist) list }

type sentry =
| SOcc of arch
| SVac of n

type slab = { sl_entries : sentry list; sl_next : n }

type evv = { ev_ser : n; ev_val : n; ev_id : key }

type qitem = { qi_targeted : bool; qi_idx : n; qi_target : key; qi_ev : evv }

type logent = { lg_handler : key; lg_targeted : bool; lg_tag : n;
                lg_ev : evv; lg_target : key; lg_resets : n;
                lg_recv_item : item list; lg_views : (n * item list) list }

type hst = { k_ids : key list; k_fuel : n; k_serial : n; k_inv : n;
             k_panic_at : n; k_log : logent list }

type world = { w_ents : eloc smap; w_rcur : n; w_rcnt : n;
               w_comps : cinfo smap; w_cby : (n * key) list;
               w_gev : einfo smap; w_gby : (n * key) list;
               w_tev : einfo smap; w_tby : (n * key) list; w_hs : hinfo smap;
               w_glists : key hlist list; w_hby : (n * key) list; w_hctr : 
               n; w_horder : (n * key) list; w_archs : slab;
               w_aby : (n list * n) list; w_auid : n; w_drops : (n * n) list;
               w_resets : n; w_notes : (n * key) list; w_h : hst }

val set_ents : world -> eloc smap -> world

val set_res : world -> n -> n -> world

val set_comps : world -> cinfo smap -> (n * key) list -> world

val set_gev : world -> einfo smap -> (n * key) list -> world

val set_tev : world -> einfo smap -> (n * key) list -> world

val set_hs : world -> hinfo smap -> world

val set_hreg :
  world -> hinfo smap -> key hlist list -> (n * key) list -> n -> (n * key)
  list -> world

val set_glists : world -> key hlist list -> world

val set_archs : world -> slab -> world

val set_aidx : world -> (n list * n) list -> n -> world

val set_drops : world -> (n * n) list -> world

val set_resets : world -> n -> world

val set_notes : world -> (n * key) list -> world

val set_h : world -> hst -> world

type 'a res =
| ROk of 'a * world
| RFail of fail * world

val rbind : 'a1 res -> ('a1 -> world -> 'a2 res) -> 'a2 res

val slab_get : slab -> n -> arch option

val slab_set : slab -> n -> arch -> slab

val slab_vacant_key : slab -> n

val slab_insert : slab -> arch -> slab

val slab_remove : slab -> n -> slab

val slab_iter_from : sentry list -> n -> (n * arch) list

val slab_iter : slab -> (n * arch) list

val arch_has : arch -> n -> bool

val col_index : n list -> n -> n option

val row_col : arch -> cval list -> n -> cval option

val set_rows : arch -> (key * cval list) list -> arch

val set_cap : arch -> n -> n -> arch

val set_edges : arch -> (n * n) list -> (n * n) list -> arch

val set_tables : arch -> key list -> (n * key hlist) list -> arch

val key_ltb : key -> key -> bool

val kset_insert : key -> key list -> key list

val kset_remove : key -> key list -> key list

val grow : n -> n

val log_drop : world -> n -> n -> world

val drop_cval : world -> n -> cval -> world

val comp_tag : world -> n -> n

val get_by_index : 'a1 smap -> n -> (key * 'a1) option

val upd_by_index : 'a1 smap -> n -> ('a1 -> 'a1) -> 'a1 smap

val upd_by_key : 'a1 smap -> key -> ('a1 -> 'a1) -> 'a1 smap

val ce_idx : centry -> n

val cache_insert : centry list -> centry -> centry list

val cache_remove : centry list -> n -> centry list

val param_refresh : n -> arch -> rparam -> rparam

val param_remove : n -> rparam -> rparam

val set_params : hinfo -> rparam list -> hinfo

val h_refresh : n -> arch -> hinfo -> hinfo

val h_remove_arch : n -> hinfo -> hinfo

val notify_refresh : world -> n -> world

val notify_remove_with : world -> n -> arch -> world

val notify_remove : world -> n -> world

val listeners_insert :
  (n * key hlist) list -> n -> key -> prio -> (n * key hlist) list

val register_handler : n -> arch -> hinfo -> arch * hinfo

val archs_register_handler : world -> key -> world

val archs_remove_handler : world -> hinfo -> world

val sorted_insert : n -> n list -> n list

val aby_lookup : world -> n list -> n option

val create_arch : world -> n list -> (n * n) list -> (n * n) list -> n * world

val upd_arch : world -> n -> (arch -> arch) -> world

val traverse_insert : world -> n -> n -> n res

val traverse_remove : world -> n -> n -> n res

val reserve_one : arch -> arch * bool

val set_loc : world -> key -> eloc -> unit res

val arch_spawn : world -> key -> eloc * world

val merge_row :
  nat -> n list -> cval list -> n list -> (n * cval) option -> (cval
  list * (n * cval) list) option

val move_entity : world -> eloc -> n -> (n * cval) option -> unit res

val remove_entity : world -> eloc -> unit res

val reserve : world -> key res

val spawn_all_n : nat -> world -> unit res

val refresh_cursor : world -> world

val spawn_all : world -> unit res

val has_of : arch -> n -> bool

val cache_entry_items :
  world -> query -> bool -> centry -> (fail option, (key * item) list) sum

val cache_items :
  world -> query -> bool -> centry list -> (fail, (key * item) list) sum

val recv_item : world -> query -> centry list -> eloc -> (fail, item) sum

val bump_vals : (n -> bool) -> n list -> n list -> n -> cval list -> cval list

val write_arch : world -> query -> n -> n -> n option -> world

val set_hst_fields : hst -> key list -> n -> n -> n -> logent list -> hst

val ev_drop : world -> bool -> n -> evv -> world

val sender_lookup : rparam list -> bool -> n -> n option option

val resolve_tgt : world -> tgt -> key -> key list -> key

val fresh_serial : world -> n * world

val new_cval : world -> n -> cval * world

val use_fuel : world -> bool * world

val push_known : world -> key -> world

val run_actions :
  act list -> rparam list -> key -> key list -> qitem list -> world -> (qitem
  list * world) * fail option

val fetch_get :
  world -> query -> centry list -> key -> (fail, n * item list) sum

val has_dup : key list -> bool

val fetch_get_all :
  world -> query -> centry list -> key list -> (fail, n * item list) sum

val fetch_get_many :
  world -> query -> centry list -> key list -> (fail, n * item list) sum

val probe_lists : key list -> (bool * key list) list

val run_probes :
  world -> query -> centry list -> (bool * key list) list -> (fail, (n * item
  list) list) sum

val ev_has_payload : bool -> n -> bool

val param_views :
  world -> rparam list -> eloc -> (fail, item list * (n * item list) list) sum

val apply_writes : world -> rparam list -> eloc -> n -> world

type hres = { hr_taken : bool; hr_ev : evv; hr_sent : qitem list;
              hr_fail : fail option }

val run_handler :
  (hinfo -> logent -> n -> script) -> world -> hinfo -> qitem -> n -> eloc ->
  hres * world

val run_handlers :
  (hinfo -> logent -> n -> script) -> key list -> world -> qitem -> n -> eloc
  -> qitem list -> (((world * evv) * qitem list) * bool) * fail option

val fail_of : 'a1 res -> world * fail option

val builtin_effect : ekind -> evv -> eloc -> world -> unit res

val deliver_one :
  (hinfo -> logent -> n -> script) -> qitem -> world -> (qitem
  list * world) * fail option

val unwind_queue : qitem list -> world -> world

type wst = world * fail option

val run_w :
  (hinfo -> logent -> n -> script) -> qitem -> wst -> (qitem
  list * wst) * bool

val unwind_w : qitem list -> wst -> wst

val flush_loop :
  (hinfo -> logent -> n -> script) -> nat -> qitem list -> world ->
  world * fail option

val fUEL : nat

val flush0 :
  (hinfo -> logent -> n -> script) -> qitem list -> world -> unit res

val gkind : n -> ekind

val note : world -> n -> key -> world

val add_global_event :
  (hinfo -> logent -> n -> script) -> nat -> n -> world -> key res

val send_global :
  (hinfo -> logent -> n -> script) -> nat -> n -> evv -> world -> unit res

val rFUEL : nat

val add_component : (hinfo -> logent -> n -> script) -> n -> world -> key res

val add_targeted_event :
  (hinfo -> logent -> n -> script) -> n -> world -> key res

val send_to :
  (hinfo -> logent -> n -> script) -> n -> key -> evv -> world -> unit res

type rcvd =
| RcNone
| RcOk of recvid
| RcInvalid

val recvid_eqb : recvid -> recvid -> bool

type hconfig = { cf_recv : rcvd; cf_access : access option; cf_filter : 
                 ca; cf_sg : n list; cf_st : n list; cf_cas : ca list;
                 cf_refs : n list; cf_params : rparam list }

val cfg0 : hconfig

val cfg_set_recv : hconfig -> recvid -> rcvd

val cfg_set_access : hconfig -> access -> access option

val resolve_query :
  (hinfo -> logent -> n -> script) -> query -> world -> query res

val register_set :
  (hinfo -> logent -> n -> script) -> (bool * n) list -> world ->
  ((bool * n) * n) list res

val init_param :
  (hinfo -> logent -> n -> script) -> param -> hconfig -> world -> hconfig res

val init_params :
  (hinfo -> logent -> n -> script) -> param list -> hconfig -> world ->
  hconfig res

val pair_conflicts : ca list -> n list

val handler_conflicts : ca list -> n list

type hshape = { sh_params : param list; sh_prio : prio; sh_tid : n option;
                sh_script : script }

val add_handler :
  (hinfo -> logent -> n -> script) -> hshape -> world -> key res

val handlers_remove : world -> key -> (hinfo * world) option

val remove_handler :
  (hinfo -> logent -> n -> script) -> key -> world -> bool res

val remove_handlers :
  (hinfo -> logent -> n -> script) -> key list -> world -> unit res

val handlers_in_order : world -> hinfo list

val remove_targeted_event :
  (hinfo -> logent -> n -> script) -> key -> world -> bool res

val remove_global_event :
  (hinfo -> logent -> n -> script) -> key -> world -> bool res

val remove_tevents :
  (hinfo -> logent -> n -> script) -> key list -> world -> unit res

val swap_remove_val : n -> n list -> n list

val archs_remove_component : world -> n -> n -> n list -> world

val remove_component :
  (hinfo -> logent -> n -> script) -> key -> world -> bool res

val op_spawn : (hinfo -> logent -> n -> script) -> world -> key res

val op_insert :
  (hinfo -> logent -> n -> script) -> key -> n -> world -> unit res

val op_remove :
  (hinfo -> logent -> n -> script) -> key -> n -> world -> unit res

val op_despawn : (hinfo -> logent -> n -> script) -> key -> world -> unit res

val op_send : (hinfo -> logent -> n -> script) -> n -> world -> unit res

val op_send_to :
  (hinfo -> logent -> n -> script) -> key -> n -> world -> unit res

val op_get : key -> n -> world -> (fail, cval option) sum

val op_drop : world -> world

val empty_arch : arch

val hst0 : n -> n -> hst

val world0 : n -> n -> world

val script_beh : hinfo -> logent -> n -> script
