
(** val xorb : bool -> bool -> bool **)

let xorb b1 b2 =
  if b1 then if b2 then false else true else b2

(** val negb : bool -> bool **)

let negb = function
| true -> false
| false -> true

type nat =
| O
| S of nat

(** val option_map : ('a1 -> 'a2) -> 'a1 option -> 'a2 option **)

let option_map f = function
| Some a -> Some (f a)
| None -> None

type ('a, 'b) sum =
| Inl of 'a
| Inr of 'b

(** val fst : ('a1 * 'a2) -> 'a1 **)

let fst = function
| (x, _) -> x

(** val snd : ('a1 * 'a2) -> 'a2 **)

let snd = function
| (_, y) -> y

(** val length : 'a1 list -> nat **)

let rec length = function
| [] -> O
| _ :: l' -> S (length l')

(** val app : 'a1 list -> 'a1 list -> 'a1 list **)

let rec app l m =
  match l with
  | [] -> m
  | a :: l1 -> a :: (app l1 m)

type comparison =
| Eq
| Lt
| Gt

module Coq__1 = struct
 (** val add : nat -> nat -> nat **)
 let rec add n0 m =
   match n0 with
   | O -> m
   | S p -> S (add p m)
end
include Coq__1

(** val mul : nat -> nat -> nat **)

let rec mul n0 m =
  match n0 with
  | O -> O
  | S p -> add m (mul p m)

(** val pow : nat -> nat -> nat **)

let rec pow n0 = function
| O -> S O
| S m0 -> mul n0 (pow n0 m0)

(** val removelast : 'a1 list -> 'a1 list **)

let rec removelast = function
| [] -> []
| a :: l0 -> (match l0 with
              | [] -> []
              | _ :: _ -> a :: (removelast l0))

(** val rev : 'a1 list -> 'a1 list **)

let rec rev = function
| [] -> []
| x :: l' -> app (rev l') (x :: [])

(** val map : ('a1 -> 'a2) -> 'a1 list -> 'a2 list **)

let rec map f = function
| [] -> []
| a :: t -> (f a) :: (map f t)

(** val flat_map : ('a1 -> 'a2 list) -> 'a1 list -> 'a2 list **)

let rec flat_map f = function
| [] -> []
| x :: t -> app (f x) (flat_map f t)

(** val fold_left : ('a1 -> 'a2 -> 'a1) -> 'a2 list -> 'a1 -> 'a1 **)

let rec fold_left f l a0 =
  match l with
  | [] -> a0
  | b :: t -> fold_left f t (f a0 b)

(** val existsb : ('a1 -> bool) -> 'a1 list -> bool **)

let rec existsb f = function
| [] -> false
| a :: l0 -> (||) (f a) (existsb f l0)

(** val forallb : ('a1 -> bool) -> 'a1 list -> bool **)

let rec forallb f = function
| [] -> true
| a :: l0 -> (&&) (f a) (forallb f l0)

(** val filter : ('a1 -> bool) -> 'a1 list -> 'a1 list **)

let rec filter f = function
| [] -> []
| x :: l0 -> if f x then x :: (filter f l0) else filter f l0

(** val find : ('a1 -> bool) -> 'a1 list -> 'a1 option **)

let rec find f = function
| [] -> None
| x :: tl -> if f x then Some x else find f tl

(** val combine : 'a1 list -> 'a2 list -> ('a1 * 'a2) list **)

let rec combine l l' =
  match l with
  | [] -> []
  | x :: tl ->
    (match l' with
     | [] -> []
     | y :: tl' -> (x, y) :: (combine tl tl'))

(** val firstn : nat -> 'a1 list -> 'a1 list **)

let rec firstn n0 l =
  match n0 with
  | O -> []
  | S n1 -> (match l with
             | [] -> []
             | a :: l0 -> a :: (firstn n1 l0))

(** val skipn : nat -> 'a1 list -> 'a1 list **)

let rec skipn n0 l =
  match n0 with
  | O -> l
  | S n1 -> (match l with
             | [] -> []
             | _ :: l0 -> skipn n1 l0)

type positive =
| XI of positive
| XO of positive
| XH

type n =
| N0
| Npos of positive

module Pos =
 struct
  type mask =
  | IsNul
  | IsPos of positive
  | IsNeg
 end

module Coq_Pos =
 struct
  (** val succ : positive -> positive **)

  let rec succ = function
  | XI p -> XO (succ p)
  | XO p -> XI p
  | XH -> XO XH

  (** val add : positive -> positive -> positive **)

  let rec add x y =
    match x with
    | XI p ->
      (match y with
       | XI q -> XO (add_carry p q)
       | XO q -> XI (add p q)
       | XH -> XO (succ p))
    | XO p ->
      (match y with
       | XI q -> XI (add p q)
       | XO q -> XO (add p q)
       | XH -> XI p)
    | XH -> (match y with
             | XI q -> XO (succ q)
             | XO q -> XI q
             | XH -> XO XH)

  (** val add_carry : positive -> positive -> positive **)

  and add_carry x y =
    match x with
    | XI p ->
      (match y with
       | XI q -> XI (add_carry p q)
       | XO q -> XO (add_carry p q)
       | XH -> XI (succ p))
    | XO p ->
      (match y with
       | XI q -> XO (add_carry p q)
       | XO q -> XI (add p q)
       | XH -> XO (succ p))
    | XH ->
      (match y with
       | XI q -> XI (succ q)
       | XO q -> XO (succ q)
       | XH -> XI XH)

  (** val pred_double : positive -> positive **)

  let rec pred_double = function
  | XI p -> XI (XO p)
  | XO p -> XI (pred_double p)
  | XH -> XH

  (** val pred_N : positive -> n **)

  let pred_N = function
  | XI p -> Npos (XO p)
  | XO p -> Npos (pred_double p)
  | XH -> N0

  type mask = Pos.mask =
  | IsNul
  | IsPos of positive
  | IsNeg

  (** val succ_double_mask : mask -> mask **)

  let succ_double_mask = function
  | IsNul -> IsPos XH
  | IsPos p -> IsPos (XI p)
  | IsNeg -> IsNeg

  (** val double_mask : mask -> mask **)

  let double_mask = function
  | IsPos p -> IsPos (XO p)
  | x0 -> x0

  (** val double_pred_mask : positive -> mask **)

  let double_pred_mask = function
  | XI p -> IsPos (XO (XO p))
  | XO p -> IsPos (XO (pred_double p))
  | XH -> IsNul

  (** val sub_mask : positive -> positive -> mask **)

  let rec sub_mask x y =
    match x with
    | XI p ->
      (match y with
       | XI q -> double_mask (sub_mask p q)
       | XO q -> succ_double_mask (sub_mask p q)
       | XH -> IsPos (XO p))
    | XO p ->
      (match y with
       | XI q -> succ_double_mask (sub_mask_carry p q)
       | XO q -> double_mask (sub_mask p q)
       | XH -> IsPos (pred_double p))
    | XH -> (match y with
             | XH -> IsNul
             | _ -> IsNeg)

  (** val sub_mask_carry : positive -> positive -> mask **)

  and sub_mask_carry x y =
    match x with
    | XI p ->
      (match y with
       | XI q -> succ_double_mask (sub_mask_carry p q)
       | XO q -> double_mask (sub_mask p q)
       | XH -> IsPos (pred_double p))
    | XO p ->
      (match y with
       | XI q -> double_mask (sub_mask_carry p q)
       | XO q -> succ_double_mask (sub_mask_carry p q)
       | XH -> double_pred_mask p)
    | XH -> IsNeg

  (** val mul : positive -> positive -> positive **)

  let rec mul x y =
    match x with
    | XI p -> add y (XO (mul p y))
    | XO p -> XO (mul p y)
    | XH -> y

  (** val iter : ('a1 -> 'a1) -> 'a1 -> positive -> 'a1 **)

  let rec iter f x = function
  | XI n' -> f (iter f (iter f x n') n')
  | XO n' -> iter f (iter f x n') n'
  | XH -> f x

  (** val compare_cont : comparison -> positive -> positive -> comparison **)

  let rec compare_cont r x y =
    match x with
    | XI p ->
      (match y with
       | XI q -> compare_cont r p q
       | XO q -> compare_cont Gt p q
       | XH -> Gt)
    | XO p ->
      (match y with
       | XI q -> compare_cont Lt p q
       | XO q -> compare_cont r p q
       | XH -> Gt)
    | XH -> (match y with
             | XH -> r
             | _ -> Lt)

  (** val compare : positive -> positive -> comparison **)

  let compare =
    compare_cont Eq

  (** val eqb : positive -> positive -> bool **)

  let rec eqb p q =
    match p with
    | XI p0 -> (match q with
                | XI q0 -> eqb p0 q0
                | _ -> false)
    | XO p0 -> (match q with
                | XO q0 -> eqb p0 q0
                | _ -> false)
    | XH -> (match q with
             | XH -> true
             | _ -> false)

  (** val coq_Nsucc_double : n -> n **)

  let coq_Nsucc_double = function
  | N0 -> Npos XH
  | Npos p -> Npos (XI p)

  (** val coq_Ndouble : n -> n **)

  let coq_Ndouble = function
  | N0 -> N0
  | Npos p -> Npos (XO p)

  (** val coq_lor : positive -> positive -> positive **)

  let rec coq_lor p q =
    match p with
    | XI p0 ->
      (match q with
       | XI q0 -> XI (coq_lor p0 q0)
       | XO q0 -> XI (coq_lor p0 q0)
       | XH -> p)
    | XO p0 ->
      (match q with
       | XI q0 -> XI (coq_lor p0 q0)
       | XO q0 -> XO (coq_lor p0 q0)
       | XH -> XI p0)
    | XH -> (match q with
             | XO q0 -> XI q0
             | _ -> q)

  (** val coq_land : positive -> positive -> n **)

  let rec coq_land p q =
    match p with
    | XI p0 ->
      (match q with
       | XI q0 -> coq_Nsucc_double (coq_land p0 q0)
       | XO q0 -> coq_Ndouble (coq_land p0 q0)
       | XH -> Npos XH)
    | XO p0 ->
      (match q with
       | XI q0 -> coq_Ndouble (coq_land p0 q0)
       | XO q0 -> coq_Ndouble (coq_land p0 q0)
       | XH -> N0)
    | XH -> (match q with
             | XO _ -> N0
             | _ -> Npos XH)

  (** val ldiff : positive -> positive -> n **)

  let rec ldiff p q =
    match p with
    | XI p0 ->
      (match q with
       | XI q0 -> coq_Ndouble (ldiff p0 q0)
       | XO q0 -> coq_Nsucc_double (ldiff p0 q0)
       | XH -> Npos (XO p0))
    | XO p0 ->
      (match q with
       | XI q0 -> coq_Ndouble (ldiff p0 q0)
       | XO q0 -> coq_Ndouble (ldiff p0 q0)
       | XH -> Npos p)
    | XH -> (match q with
             | XO _ -> Npos XH
             | _ -> N0)

  (** val shiftl : positive -> n -> positive **)

  let shiftl p = function
  | N0 -> p
  | Npos n1 -> iter (fun x -> XO x) p n1

  (** val testbit : positive -> n -> bool **)

  let rec testbit p n0 =
    match p with
    | XI p0 -> (match n0 with
                | N0 -> true
                | Npos n1 -> testbit p0 (pred_N n1))
    | XO p0 -> (match n0 with
                | N0 -> false
                | Npos n1 -> testbit p0 (pred_N n1))
    | XH -> (match n0 with
             | N0 -> true
             | Npos _ -> false)

  (** val iter_op : ('a1 -> 'a1 -> 'a1) -> positive -> 'a1 -> 'a1 **)

  let rec iter_op op p a =
    match p with
    | XI p0 -> op a (iter_op op p0 (op a a))
    | XO p0 -> iter_op op p0 (op a a)
    | XH -> a

  (** val to_nat : positive -> nat **)

  let to_nat x =
    iter_op Coq__1.add x (S O)

  (** val of_succ_nat : nat -> positive **)

  let rec of_succ_nat = function
  | O -> XH
  | S x -> succ (of_succ_nat x)
 end

module N =
 struct
  (** val succ_double : n -> n **)

  let succ_double = function
  | N0 -> Npos XH
  | Npos p -> Npos (XI p)

  (** val double : n -> n **)

  let double = function
  | N0 -> N0
  | Npos p -> Npos (XO p)

  (** val succ : n -> n **)

  let succ = function
  | N0 -> Npos XH
  | Npos p -> Npos (Coq_Pos.succ p)

  (** val pred : n -> n **)

  let pred = function
  | N0 -> N0
  | Npos p -> Coq_Pos.pred_N p

  (** val add : n -> n -> n **)

  let add n0 m =
    match n0 with
    | N0 -> m
    | Npos p -> (match m with
                 | N0 -> n0
                 | Npos q -> Npos (Coq_Pos.add p q))

  (** val sub : n -> n -> n **)

  let sub n0 m =
    match n0 with
    | N0 -> N0
    | Npos n' ->
      (match m with
       | N0 -> n0
       | Npos m' ->
         (match Coq_Pos.sub_mask n' m' with
          | Coq_Pos.IsPos p -> Npos p
          | _ -> N0))

  (** val mul : n -> n -> n **)

  let mul n0 m =
    match n0 with
    | N0 -> N0
    | Npos p -> (match m with
                 | N0 -> N0
                 | Npos q -> Npos (Coq_Pos.mul p q))

  (** val compare : n -> n -> comparison **)

  let compare n0 m =
    match n0 with
    | N0 -> (match m with
             | N0 -> Eq
             | Npos _ -> Lt)
    | Npos n' -> (match m with
                  | N0 -> Gt
                  | Npos m' -> Coq_Pos.compare n' m')

  (** val eqb : n -> n -> bool **)

  let eqb n0 m =
    match n0 with
    | N0 -> (match m with
             | N0 -> true
             | Npos _ -> false)
    | Npos p -> (match m with
                 | N0 -> false
                 | Npos q -> Coq_Pos.eqb p q)

  (** val leb : n -> n -> bool **)

  let leb x y =
    match compare x y with
    | Gt -> false
    | _ -> true

  (** val ltb : n -> n -> bool **)

  let ltb x y =
    match compare x y with
    | Lt -> true
    | _ -> false

  (** val max : n -> n -> n **)

  let max n0 n' =
    match compare n0 n' with
    | Gt -> n0
    | _ -> n'

  (** val even : n -> bool **)

  let even = function
  | N0 -> true
  | Npos p -> (match p with
               | XO _ -> true
               | _ -> false)

  (** val pos_div_eucl : positive -> n -> n * n **)

  let rec pos_div_eucl a b =
    match a with
    | XI a' ->
      let (q, r) = pos_div_eucl a' b in
      let r' = succ_double r in
      if leb b r' then ((succ_double q), (sub r' b)) else ((double q), r')
    | XO a' ->
      let (q, r) = pos_div_eucl a' b in
      let r' = double r in
      if leb b r' then ((succ_double q), (sub r' b)) else ((double q), r')
    | XH ->
      (match b with
       | N0 -> (N0, (Npos XH))
       | Npos p -> (match p with
                    | XH -> ((Npos XH), N0)
                    | _ -> (N0, (Npos XH))))

  (** val div_eucl : n -> n -> n * n **)

  let div_eucl a b =
    match a with
    | N0 -> (N0, N0)
    | Npos na -> (match b with
                  | N0 -> (N0, a)
                  | Npos _ -> pos_div_eucl na b)

  (** val div : n -> n -> n **)

  let div a b =
    fst (div_eucl a b)

  (** val modulo : n -> n -> n **)

  let modulo a b =
    snd (div_eucl a b)

  (** val coq_lor : n -> n -> n **)

  let coq_lor n0 m =
    match n0 with
    | N0 -> m
    | Npos p -> (match m with
                 | N0 -> n0
                 | Npos q -> Npos (Coq_Pos.coq_lor p q))

  (** val coq_land : n -> n -> n **)

  let coq_land n0 m =
    match n0 with
    | N0 -> N0
    | Npos p -> (match m with
                 | N0 -> N0
                 | Npos q -> Coq_Pos.coq_land p q)

  (** val ldiff : n -> n -> n **)

  let ldiff n0 m =
    match n0 with
    | N0 -> N0
    | Npos p -> (match m with
                 | N0 -> n0
                 | Npos q -> Coq_Pos.ldiff p q)

  (** val shiftl : n -> n -> n **)

  let shiftl a n0 =
    match a with
    | N0 -> N0
    | Npos a0 -> Npos (Coq_Pos.shiftl a0 n0)

  (** val testbit : n -> n -> bool **)

  let testbit a n0 =
    match a with
    | N0 -> false
    | Npos p -> Coq_Pos.testbit p n0

  (** val to_nat : n -> nat **)

  let to_nat = function
  | N0 -> O
  | Npos p -> Coq_Pos.to_nat p

  (** val of_nat : nat -> n **)

  let of_nat = function
  | O -> N0
  | S n' -> Npos (Coq_Pos.of_succ_nat n')

  (** val setbit : n -> n -> n **)

  let setbit a n0 =
    coq_lor a (shiftl (Npos XH) n0)

  (** val clearbit : n -> n -> n **)

  let clearbit a n0 =
    ldiff a (shiftl (Npos XH) n0)
 end

(** val u32MAX : n **)

let u32MAX =
  Npos (XI (XI (XI (XI (XI (XI (XI (XI (XI (XI (XI (XI (XI (XI (XI (XI (XI
    (XI (XI (XI (XI (XI (XI (XI (XI (XI (XI (XI (XI (XI (XI
    XH)))))))))))))))))))))))))))))))

(** val tWO32 : n **)

let tWO32 =
  Npos (XO (XO (XO (XO (XO (XO (XO (XO (XO (XO (XO (XO (XO (XO (XO (XO (XO
    (XO (XO (XO (XO (XO (XO (XO (XO (XO (XO (XO (XO (XO (XO (XO
    XH))))))))))))))))))))))))))))))))

type key = n * n

(** val key_eqb : key -> key -> bool **)

let key_eqb a b =
  (&&) (N.eqb (fst a) (fst b)) (N.eqb (snd a) (snd b))

(** val kEY_NULL : key **)

let kEY_NULL =
  (u32MAX, u32MAX)

(** val nlen : 'a1 list -> n **)

let nlen l =
  N.of_nat (length l)

(** val nget : 'a1 list -> n -> 'a1 option **)

let rec nget l i =
  match l with
  | [] -> None
  | h :: t -> if N.eqb i N0 then Some h else nget t (N.pred i)

(** val nset : 'a1 list -> n -> 'a1 -> 'a1 list **)

let rec nset l i x =
  match l with
  | [] -> []
  | h :: t -> if N.eqb i N0 then x :: t else h :: (nset t (N.pred i) x)

(** val ninsert : 'a1 list -> n -> 'a1 -> 'a1 list **)

let rec ninsert l i x =
  match l with
  | [] -> x :: []
  | h :: t -> if N.eqb i N0 then x :: l else h :: (ninsert t (N.pred i) x)

(** val nremove : 'a1 list -> n -> 'a1 list **)

let rec nremove l i =
  match l with
  | [] -> []
  | h :: t -> if N.eqb i N0 then t else h :: (nremove t (N.pred i))

(** val swap_remove : 'a1 list -> n -> 'a1 list **)

let swap_remove l i =
  match rev l with
  | [] -> []
  | last :: _ ->
    if N.eqb i (N.sub (nlen l) (Npos XH))
    then removelast l
    else nset (removelast l) i last

(** val nposition : ('a1 -> bool) -> 'a1 list -> n option **)

let rec nposition p = function
| [] -> None
| h :: t -> if p h then Some N0 else option_map N.succ (nposition p t)

(** val nrepeat_to : 'a1 list -> nat -> 'a1 -> 'a1 list **)

let rec nrepeat_to l n0 d =
  match n0 with
  | O -> l
  | S n' ->
    (match l with
     | [] -> d :: (nrepeat_to [] n' d)
     | h :: t -> h :: (nrepeat_to t n' d))

(** val alookup : n -> (n * 'a1) list -> 'a1 option **)

let rec alookup k = function
| [] -> None
| p :: t -> let (k', v) = p in if N.eqb k k' then Some v else alookup k t

(** val ainsert : n -> 'a1 -> (n * 'a1) list -> (n * 'a1) list **)

let rec ainsert k v l = match l with
| [] -> (k, v) :: []
| p :: t ->
  let (k', v') = p in
  if N.ltb k k'
  then (k, v) :: l
  else if N.eqb k k' then (k, v) :: t else (k', v') :: (ainsert k v t)

(** val aremove : n -> (n * 'a1) list -> (n * 'a1) list **)

let aremove k l =
  filter (fun p -> negb (N.eqb (fst p) k)) l

(** val sinsert : n -> n list -> n list **)

let rec sinsert k l = match l with
| [] -> k :: []
| h :: t ->
  if N.ltb k h then k :: l else if N.eqb k h then l else h :: (sinsert k t)

(** val smem : n -> n list -> bool **)

let smem k l =
  existsb (N.eqb k) l

(** val list_eqb : ('a1 -> 'a1 -> bool) -> 'a1 list -> 'a1 list -> bool **)

let rec list_eqb eqb0 a b =
  match a with
  | [] -> (match b with
           | [] -> true
           | _ :: _ -> false)
  | x :: a' ->
    (match b with
     | [] -> false
     | y :: b' -> (&&) (eqb0 x y) (list_eqb eqb0 a' b'))

type cacc =
| With
| Read
| ReadWrite
| Not
| Conflict

type access =
| AcNone
| AcRead
| AcReadWrite

(** val merge_acc : cacc -> cacc -> cacc option **)

let merge_acc l r =
  match l with
  | With -> (match r with
             | Not -> None
             | x -> Some x)
  | Read ->
    (match r with
     | With -> Some Read
     | Read -> Some Read
     | Not -> None
     | _ -> Some Conflict)
  | ReadWrite ->
    (match r with
     | With -> Some ReadWrite
     | Not -> None
     | _ -> Some Conflict)
  | Not -> (match r with
            | Not -> Some Not
            | _ -> None)
  | Conflict -> (match r with
                 | Not -> None
                 | _ -> Some Conflict)

(** val neg_acc : cacc -> cacc **)

let neg_acc = function
| Not -> With
| _ -> Not

(** val clear_acc : cacc -> cacc **)

let clear_acc = function
| Not -> Not
| _ -> With

(** val pos_acc : cacc -> bool **)

let pos_acc = function
| Not -> false
| _ -> true

(** val var_acc : access -> cacc **)

let var_acc = function
| AcNone -> With
| AcRead -> Read
| AcReadWrite -> ReadWrite

(** val join_acc : access -> access -> access option **)

let join_acc a b =
  match a with
  | AcNone -> Some b
  | AcRead -> (match b with
               | AcReadWrite -> None
               | _ -> Some AcRead)
  | AcReadWrite -> (match b with
                    | AcNone -> Some AcReadWrite
                    | _ -> None)

(** val conflict_acc : cacc -> bool **)

let conflict_acc = function
| Conflict -> true
| _ -> false

type case = (n * cacc) list

type ca = case list

(** val merge_case : case -> case -> case option **)

let rec merge_case l =
  let rec inner r =
    match l with
    | [] -> Some r
    | p :: l' ->
      let (li, la) = p in
      (match r with
       | [] -> Some l
       | p0 :: r' ->
         let (ri, ra) = p0 in
         (match N.compare li ri with
          | Eq ->
            (match merge_acc la ra with
             | Some m -> option_map (fun x -> (li, m) :: x) (merge_case l' r')
             | None -> None)
          | Lt -> option_map (fun x -> (li, la) :: x) (merge_case l' r)
          | Gt -> option_map (fun x -> (ri, ra) :: x) (inner r')))
  in inner

(** val ca_true : ca **)

let ca_true =
  [] :: []

(** val ca_false : ca **)

let ca_false =
  []

(** val ca_var : n -> access -> ca **)

let ca_var i a =
  ((i, (var_acc a)) :: []) :: []

(** val ca_and : ca -> ca -> ca **)

let ca_and x y =
  flat_map (fun right ->
    flat_map (fun left ->
      match merge_case left right with
      | Some c -> c :: []
      | None -> []) x) y

(** val ca_or : ca -> ca -> ca **)

let ca_or =
  app

(** val ca_not : ca -> ca **)

let ca_not x =
  fold_left (fun acc c ->
    ca_and acc (map (fun p -> ((fst p), (neg_acc (snd p))) :: []) c)) x
    ca_true

(** val ca_clear : ca -> ca **)

let ca_clear x =
  map (map (fun p -> ((fst p), (clear_acc (snd p))))) x

(** val lit_holds : (n -> bool) -> (n * cacc) -> bool **)

let lit_holds a p =
  if pos_acc (snd p) then a (fst p) else negb (a (fst p))

(** val case_matches : (n -> bool) -> case -> bool **)

let case_matches a c =
  forallb (lit_holds a) c

(** val ca_matches : (n -> bool) -> ca -> bool **)

let ca_matches a e =
  existsb (case_matches a) e

(** val dedupN : n list -> n list -> n list **)

let rec dedupN l seen =
  match l with
  | [] -> []
  | h :: t ->
    if existsb (N.eqb h) seen
    then dedupN t seen
    else h :: (dedupN t (h :: seen))

(** val ca_conflicts : ca -> n list **)

let ca_conflicts e =
  dedupN
    (flat_map (fun c ->
      flat_map (fun p -> if conflict_acc (snd p) then (fst p) :: [] else []) c)
      e) []

type query =
| QRef of n
| QMut of n
| QTuple of query list
| QOpt of query
| QOr of query * query
| QXor of query * query
| QNot of query
| QWith of query
| QHas of query
| QEid

(** val access_of : query -> ca **)

let rec access_of = function
| QRef c -> ca_var c AcRead
| QMut c -> ca_var c AcReadWrite
| QTuple qs -> fold_left (fun acc q' -> ca_and acc (access_of q')) qs ca_true
| QOpt q' -> ca_or ca_true (access_of q')
| QOr (l, r) ->
  let a = access_of l in let b = access_of r in ca_or (ca_or a b) (ca_and a b)
| QXor (l, r) ->
  let a = access_of l in
  let b = access_of r in ca_or (ca_and a (ca_not b)) (ca_and b (ca_not a))
| QNot q' -> ca_not (access_of q')
| QWith q' -> ca_clear (access_of q')
| _ -> ca_true

(** val leaves : query -> n list **)

let rec leaves = function
| QRef c -> c :: []
| QMut c -> c :: []
| QTuple qs -> flat_map leaves qs
| QOpt q' -> leaves q'
| QOr (l, r) -> app (leaves l) (leaves r)
| QXor (l, r) -> app (leaves l) (leaves r)
| QNot q' -> leaves q'
| QWith q' -> leaves q'
| QHas q' -> leaves q'
| QEid -> []

type astate =
| ACol of n * bool
| ATuple of astate list
| ASome of astate
| ANone
| ALeft of astate
| ARight of astate
| ABoth of astate * astate
| AXLeft of astate
| AXRight of astate
| ANot
| AWith
| AHas of bool
| AEid

(** val seq_opt : 'a1 option list -> 'a1 list option **)

let rec seq_opt = function
| [] -> Some []
| o :: t ->
  (match o with
   | Some a -> (match seq_opt t with
                | Some r -> Some (a :: r)
                | None -> None)
   | None -> None)

(** val arch_state : (n -> bool) -> query -> astate option **)

let rec arch_state has = function
| QRef c -> if has c then Some (ACol (c, false)) else None
| QMut c -> if has c then Some (ACol (c, true)) else None
| QTuple qs ->
  option_map (fun x -> ATuple x) (seq_opt (map (arch_state has) qs))
| QOpt q' ->
  Some (match arch_state has q' with
        | Some a -> ASome a
        | None -> ANone)
| QOr (l, r) ->
  (match arch_state has l with
   | Some a ->
     (match arch_state has r with
      | Some b -> Some (ABoth (a, b))
      | None -> Some (ALeft a))
   | None ->
     (match arch_state has r with
      | Some b -> Some (ARight b)
      | None -> None))
| QXor (l, r) ->
  (match arch_state has l with
   | Some a ->
     (match arch_state has r with
      | Some _ -> None
      | None -> Some (AXLeft a))
   | None ->
     (match arch_state has r with
      | Some b -> Some (AXRight b)
      | None -> None))
| QNot q' -> (match arch_state has q' with
              | Some _ -> None
              | None -> Some ANot)
| QWith q' ->
  (match arch_state has q' with
   | Some _ -> Some AWith
   | None -> None)
| QHas q' ->
  Some (AHas (match arch_state has q' with
              | Some _ -> true
              | None -> false))
| QEid -> Some AEid

(** val qmatch : (n -> bool) -> query -> bool **)

let rec qmatch has = function
| QRef c -> has c
| QMut c -> has c
| QTuple qs -> forallb (qmatch has) qs
| QOr (l, r) -> (||) (qmatch has l) (qmatch has r)
| QXor (l, r) -> xorb (qmatch has l) (qmatch has r)
| QNot q' -> negb (qmatch has q')
| QWith q' -> qmatch has q'
| _ -> true

(** val arefs : astate -> (n * bool) list **)

let rec arefs = function
| ACol (c, m) -> (c, m) :: []
| ATuple l -> flat_map arefs l
| ASome a' -> arefs a'
| ALeft a' -> arefs a'
| ARight a' -> arefs a'
| ABoth (x, y) -> app (arefs x) (arefs y)
| AXLeft a' -> arefs a'
| AXRight a' -> arefs a'
| _ -> []

(** val qrefs : (n -> bool) -> query -> (n * bool) list **)

let qrefs has q =
  match arch_state has q with
  | Some a -> arefs a
  | None -> []

type cval = n * n

type item =
| IVal of n * bool * cval
| ITuple of item list
| ISome of item
| INone
| ILeft of item
| IRight of item
| IBoth of item * item
| IXLeft of item
| IXRight of item
| INot
| IWith
| IHas of bool
| IEid of key
| IBad

(** val aitem : (n -> cval option) -> key -> astate -> item **)

let rec aitem col e = function
| ACol (c, m) -> (match col c with
                  | Some v -> IVal (c, m, v)
                  | None -> IBad)
| ATuple l -> ITuple (map (aitem col e) l)
| ASome a' -> ISome (aitem col e a')
| ANone -> INone
| ALeft a' -> ILeft (aitem col e a')
| ARight a' -> IRight (aitem col e a')
| ABoth (x, y) -> IBoth ((aitem col e x), (aitem col e y))
| AXLeft a' -> IXLeft (aitem col e a')
| AXRight a' -> IXRight (aitem col e a')
| ANot -> INot
| AWith -> IWith
| AHas b -> IHas b
| AEid -> IEid e

(** val amuts : astate -> n list **)

let rec amuts = function
| ACol (c, mut) -> if mut then c :: [] else []
| ATuple l -> flat_map amuts l
| ASome a' -> amuts a'
| ALeft a' -> amuts a'
| ARight a' -> amuts a'
| ABoth (x, y) -> app (amuts x) (amuts y)
| AXLeft a' -> amuts a'
| AXRight a' -> amuts a'
| _ -> []

(** val wrap_succ : n -> n **)

let wrap_succ g =
  N.modulo (N.add g (Npos XH)) tWO32

type 'v slot = { gen : n; link : n; val0 : 'v option }

type 'v smap = { slots : 'v slot list; next_free : n; sm_len : n }

(** val sget : 'a1 slot list -> n -> 'a1 slot option **)

let rec sget l i =
  match l with
  | [] -> None
  | h :: t -> if N.eqb i N0 then Some h else sget t (N.pred i)

(** val supd : 'a1 slot list -> n -> 'a1 slot -> 'a1 slot list **)

let rec supd l i s =
  match l with
  | [] -> []
  | h :: t -> if N.eqb i N0 then s :: t else h :: (supd t (N.pred i) s)

(** val sm_empty : 'a1 smap **)

let sm_empty =
  { slots = []; next_free = u32MAX; sm_len = N0 }

(** val insert_with : (key -> 'a1) -> 'a1 smap -> (key * 'a1 smap) option **)

let insert_with f m =
  match sget m.slots m.next_free with
  | Some s ->
    let k = (m.next_free, (N.add s.gen (Npos XH))) in
    Some (k, { slots =
    (supd m.slots m.next_free { gen = (N.add s.gen (Npos XH)); link = s.link;
      val0 = (Some (f k)) }); next_free = s.link; sm_len =
    (N.add m.sm_len (Npos XH)) })
  | None ->
    let index = N.of_nat (length m.slots) in
    if N.eqb index u32MAX
    then None
    else let k = (index, (Npos XH)) in
         Some (k, { slots =
         (app m.slots ({ gen = (Npos XH); link = N0; val0 = (Some
           (f k)) } :: [])); next_free = m.next_free; sm_len =
         (N.add m.sm_len (Npos XH)) })

(** val sm_remove : key -> 'a1 smap -> ('a1 * 'a1 smap) option **)

let sm_remove k m =
  match sget m.slots (fst k) with
  | Some s ->
    if N.eqb s.gen (snd k)
    then (match s.val0 with
          | Some v ->
            let g' = wrap_succ s.gen in
            if N.eqb g' N0
            then Some (v, { slots =
                   (supd m.slots (fst k) { gen = N0; link = s.link; val0 =
                     None }); next_free = m.next_free; sm_len =
                   (N.sub m.sm_len (Npos XH)) })
            else Some (v, { slots =
                   (supd m.slots (fst k) { gen = g'; link = m.next_free;
                     val0 = None }); next_free = (fst k); sm_len =
                   (N.sub m.sm_len (Npos XH)) })
          | None -> None)
    else None
  | None -> None

(** val sm_get : key -> 'a1 smap -> 'a1 option **)

let sm_get k m =
  match sget m.slots (fst k) with
  | Some s -> if N.eqb s.gen (snd k) then s.val0 else None
  | None -> None

(** val next_key_iter : 'a1 smap -> n **)

let next_key_iter m =
  if N.eqb m.next_free u32MAX then N.of_nat (length m.slots) else m.next_free

(** val nki_next : n -> 'a1 smap -> (key option * n) option **)

let nki_next idx m =
  match sget m.slots idx with
  | Some s ->
    if N.even s.gen
    then Some ((Some (idx, (N.add s.gen (Npos XH)))),
           (if N.eqb s.link u32MAX then N.of_nat (length m.slots) else s.link))
    else None
  | None ->
    if N.ltb idx u32MAX
    then Some ((Some (idx, (Npos XH))), (N.add idx (Npos XH)))
    else Some (None, idx)

type prio =
| High
| Medium
| Low

type 'h hlist = { hl_before : n; hl_after : n; hl_entries : 'h list }

(** val hl_new : 'a1 hlist **)

let hl_new =
  { hl_before = N0; hl_after = N0; hl_entries = [] }

(** val hl_insert : 'a1 hlist -> 'a1 -> prio -> 'a1 hlist **)

let hl_insert l h = function
| High ->
  { hl_before = (N.add l.hl_before (Npos XH)); hl_after =
    (N.add l.hl_after (Npos XH)); hl_entries =
    (ninsert l.hl_entries l.hl_before h) }
| Medium ->
  { hl_before = l.hl_before; hl_after = (N.add l.hl_after (Npos XH));
    hl_entries = (ninsert l.hl_entries l.hl_after h) }
| Low ->
  { hl_before = l.hl_before; hl_after = l.hl_after; hl_entries =
    (app l.hl_entries (h :: [])) }

(** val hl_remove : ('a1 -> 'a1 -> bool) -> 'a1 hlist -> 'a1 -> 'a1 hlist **)

let hl_remove heqb l h =
  match nposition (heqb h) l.hl_entries with
  | Some idx ->
    let e = nremove l.hl_entries idx in
    if N.ltb idx l.hl_after
    then { hl_before =
           (if N.ltb idx l.hl_before
            then N.sub l.hl_before (Npos XH)
            else l.hl_before); hl_after = (N.sub l.hl_after (Npos XH));
           hl_entries = e }
    else { hl_before = l.hl_before; hl_after = l.hl_after; hl_entries = e }
  | None -> l

type 'v spm = { sp_sparse : n list; sp_dense : 'v list; sp_indices : n list }

(** val sp_empty : 'a1 spm **)

let sp_empty =
  { sp_sparse = []; sp_dense = []; sp_indices = [] }

type 'a out =
| Val of 'a
| Panic
| UB of n

(** val sp_get : 'a1 spm -> n -> 'a1 option out **)

let sp_get m k =
  match nget m.sp_sparse k with
  | Some idx ->
    if N.leb u32MAX idx
    then Val None
    else (match nget m.sp_dense idx with
          | Some v -> Val (Some v)
          | None -> UB (Npos (XI (XO (XO (XO (XO XH)))))))
  | None -> Val None

(** val sp_insert : 'a1 spm -> n -> 'a1 -> ('a1 option * 'a1 spm) out **)

let sp_insert m k v =
  if N.eqb k u32MAX
  then Panic
  else let sparse = nrepeat_to m.sp_sparse (add (N.to_nat k) (S O)) u32MAX in
       (match nget sparse k with
        | Some idx ->
          if N.eqb idx u32MAX
          then Val (None, { sp_sparse = (nset sparse k (nlen m.sp_dense));
                 sp_dense = (app m.sp_dense (v :: [])); sp_indices =
                 (app m.sp_indices (k :: [])) })
          else (match nget m.sp_dense idx with
                | Some old ->
                  Val ((Some old), { sp_sparse = sparse; sp_dense =
                    (nset m.sp_dense idx v); sp_indices = m.sp_indices })
                | None -> UB (Npos (XI (XI (XO (XO (XI (XO XH))))))))
        | None -> UB (Npos (XI (XI (XI (XO (XO (XO XH))))))))

(** val sp_remove : 'a1 spm -> n -> ('a1 option * 'a1 spm) out **)

let sp_remove m k =
  match nget m.sp_sparse k with
  | Some idx ->
    let sparse = nset m.sp_sparse k u32MAX in
    if N.eqb idx u32MAX
    then Val (None, { sp_sparse = sparse; sp_dense = m.sp_dense; sp_indices =
           m.sp_indices })
    else (match nget m.sp_dense idx with
          | Some res0 ->
            if negb (N.ltb idx (nlen m.sp_indices))
            then UB (Npos (XO (XI (XI (XO (XO (XI XH)))))))
            else let dense = swap_remove m.sp_dense idx in
                 let indices = swap_remove m.sp_indices idx in
                 (match nget indices idx with
                  | Some moved ->
                    (match nget sparse moved with
                     | Some _ ->
                       Val ((Some res0), { sp_sparse =
                         (nset sparse moved idx); sp_dense = dense;
                         sp_indices = indices })
                     | None -> UB (Npos (XI (XI (XO (XI (XO (XI XH))))))))
                  | None ->
                    Val ((Some res0), { sp_sparse = sparse; sp_dense = dense;
                      sp_indices = indices }))
          | None -> UB (Npos (XO (XI (XO (XO (XO (XI XH))))))))
  | None -> Val (None, m)

(** val sp_keys : 'a1 spm -> n list **)

let sp_keys m =
  m.sp_indices

(** val sp_values : 'a1 spm -> 'a1 list **)

let sp_values m =
  m.sp_dense

(** val strip_max : n list -> n list **)

let rec strip_max r = match r with
| [] -> []
| x :: t -> if N.eqb x u32MAX then strip_max t else r

(** val sp_shrink : 'a1 spm -> 'a1 spm **)

let sp_shrink m =
  { sp_sparse = (rev (strip_max (rev m.sp_sparse))); sp_dense = m.sp_dense;
    sp_indices = m.sp_indices }

(** val bITS : n **)

let bITS =
  Npos (XO (XO (XO (XO (XO (XO XH))))))

type bs = n list

(** val bs_mem : bs -> n -> bool **)

let bs_mem s i =
  match nget s (N.div i bITS) with
  | Some b -> N.testbit b (N.modulo i bITS)
  | None -> false

(** val bs_insert : bs -> n -> bool * bs **)

let bs_insert s i =
  let blk = N.div i bITS in
  let bit = N.modulo i bITS in
  let s1 = nrepeat_to s (add (N.to_nat blk) (S O)) N0 in
  (match nget s1 blk with
   | Some b -> ((negb (N.testbit b bit)), (nset s1 blk (N.setbit b bit)))
   | None -> (false, s1))

(** val bs_remove : bs -> n -> bool * bs **)

let bs_remove s i =
  let blk = N.div i bITS in
  let bit = N.modulo i bITS in
  (match nget s blk with
   | Some b -> ((N.testbit b bit), (nset s blk (N.clearbit b bit)))
   | None -> (false, s))

(** val bs_contains : bs -> n -> bool **)

let bs_contains =
  bs_mem

(** val bs_or : bs -> bs -> bs **)

let rec bs_or a b =
  match a with
  | [] -> b
  | x :: a' ->
    (match b with
     | [] -> a
     | y :: b' -> (N.coq_lor x y) :: (bs_or a' b'))

(** val bs_disjoint : bs -> bs -> bool **)

let rec bs_disjoint a b =
  match a with
  | [] -> true
  | x :: a' ->
    (match b with
     | [] -> true
     | y :: b' -> (&&) (N.eqb (N.coq_land x y) N0) (bs_disjoint a' b'))

(** val bs_is_empty : bs -> bool **)

let bs_is_empty s =
  forallb (fun b -> N.eqb b N0) s

(** val strip0 : n list -> n list **)

let rec strip0 r = match r with
| [] -> []
| x :: t -> if N.eqb x N0 then strip0 t else r

(** val bs_shrink : bs -> bs **)

let bs_shrink s =
  rev (strip0 (rev s))

type outcome =
| Finished
| Aborted

(** val step :
    ('a2 -> 'a1 -> ('a2 list * 'a1) * bool) -> 'a2 list -> 'a1 ->
    ((('a2 * 'a2 list) * 'a1) * bool) option **)

let step run q st =
  match rev q with
  | [] -> None
  | e :: _ ->
    let rest = removelast q in
    let before = length rest in
    let (p, ab) = run e st in
    let (sent, st') = p in
    let q1 = app rest sent in
    let q2 = app (firstn before q1) (rev (skipn before q1)) in
    Some (((e, (if ab then q1 else q2)), st'), ab)

(** val flush :
    ('a2 -> 'a1 -> ('a2 list * 'a1) * bool) -> ('a2 list -> 'a1 -> 'a1) ->
    nat -> 'a2 list -> 'a1 -> 'a2 list -> (('a2 list * 'a1) * outcome) option **)

let rec flush run unwind fuel q st tr =
  match fuel with
  | O -> None
  | S f ->
    (match step run q st with
     | Some p ->
       let (p0, ab) = p in
       let (p1, st') = p0 in
       let (e, q') = p1 in
       if ab
       then Some (((app tr (e :: [])), (unwind q' st')), Aborted)
       else flush run unwind f q' st' (app tr (e :: []))
     | None -> Some ((tr, st), Finished))

(** val ctag_has_drop : n -> bool **)

let ctag_has_drop t =
  (||) ((||) (N.eqb t (Npos XH)) (N.eqb t (Npos (XO XH))))
    (N.eqb t (Npos (XO (XO XH))))

(** val ctag_zst : n -> bool **)

let ctag_zst t =
  (||) (N.eqb t (Npos (XO XH))) (N.eqb t (Npos (XO (XO XH))))

(** val g_SPAWN : n **)

let g_SPAWN =
  Npos (XO (XI (XO XH)))

(** val g_ADDC : n **)

let g_ADDC =
  Npos (XI (XI (XO XH)))

(** val g_RMC : n **)

let g_RMC =
  Npos (XO (XO (XI XH)))

(** val g_ADDH : n **)

let g_ADDH =
  Npos (XI (XO (XI XH)))

(** val g_RMH : n **)

let g_RMH =
  Npos (XO (XI (XI XH)))

(** val g_ADDGE : n **)

let g_ADDGE =
  Npos (XI (XI (XI XH)))

(** val g_ADDTE : n **)

let g_ADDTE =
  Npos (XO (XO (XO (XO XH))))

(** val g_RMGE : n **)

let g_RMGE =
  Npos (XI (XO (XO (XO XH))))

(** val g_RMTE : n **)

let g_RMTE =
  Npos (XO (XI (XO (XO XH))))

(** val t_DESPAWN : n **)

let t_DESPAWN =
  Npos (XO (XI (XO XH)))

(** val t_INSERT : n -> n **)

let t_INSERT k =
  N.add (Npos (XO (XO (XI (XO XH))))) k

(** val t_REMOVE : n -> n **)

let t_REMOVE k =
  N.add (Npos (XO (XO (XO (XI (XO XH)))))) k

type ekind =
| KNormal
| KInsert of n
| KRemove of n
| KSpawn
| KDespawn

(** val gtag_has_drop : n -> bool **)

let gtag_has_drop t =
  (||) (N.eqb t N0) (N.eqb t (Npos XH))

(** val ttag_has_drop : n -> bool **)

let ttag_has_drop t =
  (||) ((||) (N.eqb t N0) (N.eqb t (Npos XH)))
    ((&&)
      ((&&) (N.leb (Npos (XO (XO (XI (XO XH))))) t)
        (N.ltb t (Npos (XO (XO (XO (XI (XO XH))))))))
      (ctag_has_drop (N.sub t (Npos (XO (XO (XI (XO XH))))))))

type fail =
| FPanic of n
| FUB of n

type eloc = n * n

type centry = (n * n) * n

type fkind =
| FkFetcher
| FkSingle
| FkTrySingle

type tgt =
| TTarget
| TKnown of n
| TFresh of n

type act =
| ASend of n
| ASendTo of tgt * n
| ASpawn
| AInsert of tgt * n
| ARemove of tgt * n
| ADespawn of tgt

type script = { s_take : bool; s_evdelta : n; s_wdelta : n;
                s_actions : act list }

type param =
| PRecvG of n * bool
| PRecvT of n * bool * query
| PFetch of fkind * query
| PSender of (bool * n) list

type rparam =
| RRecvG of bool
| RRecvT of bool * query * centry list
| RFetch of fkind * query * centry list
| RSender of (n * n) list * (n * n) list

type recvid =
| RvGlobal of key
| RvTargeted of key

type hinfo = { h_key : key; h_order : n; h_tid : n option; h_recv : recvid;
               h_recv_mut : bool; h_filter : ca; h_sent_g : n list;
               h_sent_t : n list; h_archfilter : ca; h_refcomps : n list;
               h_prio : prio; h_params : rparam list; h_script : script }

type cinfo = { c_tag : n; c_member_of : n list; c_ins : key list;
               c_rem : key list }

type einfo = { e_tag : n; e_kind : ekind }

type arch = { a_uid : n; a_comps : n list; a_rows : (key * cval list) list;
              a_cap : n; a_epoch : n; a_ins : (n * n) list;
              a_rem : (n * n) list; a_refresh : key list;
              a_listeners : (n * key hlist) list }

type sentry =
| SOcc of arch
| SVac of n

type slab = { sl_entries : sentry list; sl_next : n }

type evv = { ev_ser : n; ev_val : n; ev_id : key }

type qitem = { qi_targeted : bool; qi_idx : n; qi_target : key; qi_ev : evv }

type logent = { lg_handler : key; lg_targeted : bool; lg_tag : n;
                lg_ev : evv; lg_target : key; lg_resets : n;
                lg_recv_item : item list; lg_views : (n * item list) list }

type hst = { k_ids : key list; k_fuel : n; k_serial : n; k_inv : n;
             k_panic_at : n; k_log : logent list }

type world = { w_ents : eloc smap; w_rcur : n; w_rcnt : n;
               w_comps : cinfo smap; w_cby : (n * key) list;
               w_gev : einfo smap; w_gby : (n * key) list;
               w_tev : einfo smap; w_tby : (n * key) list; w_hs : hinfo smap;
               w_glists : key hlist list; w_hby : (n * key) list; w_hctr : 
               n; w_horder : (n * key) list; w_archs : slab;
               w_aby : (n list * n) list; w_auid : n; w_drops : (n * n) list;
               w_resets : n; w_notes : (n * key) list; w_h : hst }

(** val set_ents : world -> eloc smap -> world **)

let set_ents w x =
  { w_ents = x; w_rcur = w.w_rcur; w_rcnt = w.w_rcnt; w_comps = w.w_comps;
    w_cby = w.w_cby; w_gev = w.w_gev; w_gby = w.w_gby; w_tev = w.w_tev;
    w_tby = w.w_tby; w_hs = w.w_hs; w_glists = w.w_glists; w_hby = w.w_hby;
    w_hctr = w.w_hctr; w_horder = w.w_horder; w_archs = w.w_archs; w_aby =
    w.w_aby; w_auid = w.w_auid; w_drops = w.w_drops; w_resets = w.w_resets;
    w_notes = w.w_notes; w_h = w.w_h }

(** val set_res : world -> n -> n -> world **)

let set_res w c n0 =
  { w_ents = w.w_ents; w_rcur = c; w_rcnt = n0; w_comps = w.w_comps; w_cby =
    w.w_cby; w_gev = w.w_gev; w_gby = w.w_gby; w_tev = w.w_tev; w_tby =
    w.w_tby; w_hs = w.w_hs; w_glists = w.w_glists; w_hby = w.w_hby; w_hctr =
    w.w_hctr; w_horder = w.w_horder; w_archs = w.w_archs; w_aby = w.w_aby;
    w_auid = w.w_auid; w_drops = w.w_drops; w_resets = w.w_resets; w_notes =
    w.w_notes; w_h = w.w_h }

(** val set_comps : world -> cinfo smap -> (n * key) list -> world **)

let set_comps w x y =
  { w_ents = w.w_ents; w_rcur = w.w_rcur; w_rcnt = w.w_rcnt; w_comps = x;
    w_cby = y; w_gev = w.w_gev; w_gby = w.w_gby; w_tev = w.w_tev; w_tby =
    w.w_tby; w_hs = w.w_hs; w_glists = w.w_glists; w_hby = w.w_hby; w_hctr =
    w.w_hctr; w_horder = w.w_horder; w_archs = w.w_archs; w_aby = w.w_aby;
    w_auid = w.w_auid; w_drops = w.w_drops; w_resets = w.w_resets; w_notes =
    w.w_notes; w_h = w.w_h }

(** val set_gev : world -> einfo smap -> (n * key) list -> world **)

let set_gev w x y =
  { w_ents = w.w_ents; w_rcur = w.w_rcur; w_rcnt = w.w_rcnt; w_comps =
    w.w_comps; w_cby = w.w_cby; w_gev = x; w_gby = y; w_tev = w.w_tev;
    w_tby = w.w_tby; w_hs = w.w_hs; w_glists = w.w_glists; w_hby = w.w_hby;
    w_hctr = w.w_hctr; w_horder = w.w_horder; w_archs = w.w_archs; w_aby =
    w.w_aby; w_auid = w.w_auid; w_drops = w.w_drops; w_resets = w.w_resets;
    w_notes = w.w_notes; w_h = w.w_h }

(** val set_tev : world -> einfo smap -> (n * key) list -> world **)

let set_tev w x y =
  { w_ents = w.w_ents; w_rcur = w.w_rcur; w_rcnt = w.w_rcnt; w_comps =
    w.w_comps; w_cby = w.w_cby; w_gev = w.w_gev; w_gby = w.w_gby; w_tev = x;
    w_tby = y; w_hs = w.w_hs; w_glists = w.w_glists; w_hby = w.w_hby;
    w_hctr = w.w_hctr; w_horder = w.w_horder; w_archs = w.w_archs; w_aby =
    w.w_aby; w_auid = w.w_auid; w_drops = w.w_drops; w_resets = w.w_resets;
    w_notes = w.w_notes; w_h = w.w_h }

(** val set_hs : world -> hinfo smap -> world **)

let set_hs w x =
  { w_ents = w.w_ents; w_rcur = w.w_rcur; w_rcnt = w.w_rcnt; w_comps =
    w.w_comps; w_cby = w.w_cby; w_gev = w.w_gev; w_gby = w.w_gby; w_tev =
    w.w_tev; w_tby = w.w_tby; w_hs = x; w_glists = w.w_glists; w_hby =
    w.w_hby; w_hctr = w.w_hctr; w_horder = w.w_horder; w_archs = w.w_archs;
    w_aby = w.w_aby; w_auid = w.w_auid; w_drops = w.w_drops; w_resets =
    w.w_resets; w_notes = w.w_notes; w_h = w.w_h }

(** val set_hreg :
    world -> hinfo smap -> key hlist list -> (n * key) list -> n -> (n * key)
    list -> world **)

let set_hreg w hs gl hby ctr ord =
  { w_ents = w.w_ents; w_rcur = w.w_rcur; w_rcnt = w.w_rcnt; w_comps =
    w.w_comps; w_cby = w.w_cby; w_gev = w.w_gev; w_gby = w.w_gby; w_tev =
    w.w_tev; w_tby = w.w_tby; w_hs = hs; w_glists = gl; w_hby = hby; w_hctr =
    ctr; w_horder = ord; w_archs = w.w_archs; w_aby = w.w_aby; w_auid =
    w.w_auid; w_drops = w.w_drops; w_resets = w.w_resets; w_notes =
    w.w_notes; w_h = w.w_h }

(** val set_glists : world -> key hlist list -> world **)

let set_glists w gl =
  set_hreg w w.w_hs gl w.w_hby w.w_hctr w.w_horder

(** val set_archs : world -> slab -> world **)

let set_archs w x =
  { w_ents = w.w_ents; w_rcur = w.w_rcur; w_rcnt = w.w_rcnt; w_comps =
    w.w_comps; w_cby = w.w_cby; w_gev = w.w_gev; w_gby = w.w_gby; w_tev =
    w.w_tev; w_tby = w.w_tby; w_hs = w.w_hs; w_glists = w.w_glists; w_hby =
    w.w_hby; w_hctr = w.w_hctr; w_horder = w.w_horder; w_archs = x; w_aby =
    w.w_aby; w_auid = w.w_auid; w_drops = w.w_drops; w_resets = w.w_resets;
    w_notes = w.w_notes; w_h = w.w_h }

(** val set_aidx : world -> (n list * n) list -> n -> world **)

let set_aidx w aby uid =
  { w_ents = w.w_ents; w_rcur = w.w_rcur; w_rcnt = w.w_rcnt; w_comps =
    w.w_comps; w_cby = w.w_cby; w_gev = w.w_gev; w_gby = w.w_gby; w_tev =
    w.w_tev; w_tby = w.w_tby; w_hs = w.w_hs; w_glists = w.w_glists; w_hby =
    w.w_hby; w_hctr = w.w_hctr; w_horder = w.w_horder; w_archs = w.w_archs;
    w_aby = aby; w_auid = uid; w_drops = w.w_drops; w_resets = w.w_resets;
    w_notes = w.w_notes; w_h = w.w_h }

(** val set_drops : world -> (n * n) list -> world **)

let set_drops w x =
  { w_ents = w.w_ents; w_rcur = w.w_rcur; w_rcnt = w.w_rcnt; w_comps =
    w.w_comps; w_cby = w.w_cby; w_gev = w.w_gev; w_gby = w.w_gby; w_tev =
    w.w_tev; w_tby = w.w_tby; w_hs = w.w_hs; w_glists = w.w_glists; w_hby =
    w.w_hby; w_hctr = w.w_hctr; w_horder = w.w_horder; w_archs = w.w_archs;
    w_aby = w.w_aby; w_auid = w.w_auid; w_drops = x; w_resets = w.w_resets;
    w_notes = w.w_notes; w_h = w.w_h }

(** val set_resets : world -> n -> world **)

let set_resets w x =
  { w_ents = w.w_ents; w_rcur = w.w_rcur; w_rcnt = w.w_rcnt; w_comps =
    w.w_comps; w_cby = w.w_cby; w_gev = w.w_gev; w_gby = w.w_gby; w_tev =
    w.w_tev; w_tby = w.w_tby; w_hs = w.w_hs; w_glists = w.w_glists; w_hby =
    w.w_hby; w_hctr = w.w_hctr; w_horder = w.w_horder; w_archs = w.w_archs;
    w_aby = w.w_aby; w_auid = w.w_auid; w_drops = w.w_drops; w_resets = x;
    w_notes = w.w_notes; w_h = w.w_h }

(** val set_notes : world -> (n * key) list -> world **)

let set_notes w x =
  { w_ents = w.w_ents; w_rcur = w.w_rcur; w_rcnt = w.w_rcnt; w_comps =
    w.w_comps; w_cby = w.w_cby; w_gev = w.w_gev; w_gby = w.w_gby; w_tev =
    w.w_tev; w_tby = w.w_tby; w_hs = w.w_hs; w_glists = w.w_glists; w_hby =
    w.w_hby; w_hctr = w.w_hctr; w_horder = w.w_horder; w_archs = w.w_archs;
    w_aby = w.w_aby; w_auid = w.w_auid; w_drops = w.w_drops; w_resets =
    w.w_resets; w_notes = x; w_h = w.w_h }

(** val set_h : world -> hst -> world **)

let set_h w x =
  { w_ents = w.w_ents; w_rcur = w.w_rcur; w_rcnt = w.w_rcnt; w_comps =
    w.w_comps; w_cby = w.w_cby; w_gev = w.w_gev; w_gby = w.w_gby; w_tev =
    w.w_tev; w_tby = w.w_tby; w_hs = w.w_hs; w_glists = w.w_glists; w_hby =
    w.w_hby; w_hctr = w.w_hctr; w_horder = w.w_horder; w_archs = w.w_archs;
    w_aby = w.w_aby; w_auid = w.w_auid; w_drops = w.w_drops; w_resets =
    w.w_resets; w_notes = w.w_notes; w_h = x }

type 'a res =
| ROk of 'a * world
| RFail of fail * world

(** val rbind : 'a1 res -> ('a1 -> world -> 'a2 res) -> 'a2 res **)

let rbind r f =
  match r with
  | ROk (a, w) -> f a w
  | RFail (e, w) -> RFail (e, w)

(** val slab_get : slab -> n -> arch option **)

let slab_get s i =
  match nget s.sl_entries i with
  | Some s0 -> (match s0 with
                | SOcc a -> Some a
                | SVac _ -> None)
  | None -> None

(** val slab_set : slab -> n -> arch -> slab **)

let slab_set s i a =
  { sl_entries = (nset s.sl_entries i (SOcc a)); sl_next = s.sl_next }

(** val slab_vacant_key : slab -> n **)

let slab_vacant_key s =
  s.sl_next

(** val slab_insert : slab -> arch -> slab **)

let slab_insert s a =
  let k = s.sl_next in
  if N.eqb k (nlen s.sl_entries)
  then { sl_entries = (app s.sl_entries ((SOcc a) :: [])); sl_next =
         (N.add k (Npos XH)) }
  else (match nget s.sl_entries k with
        | Some s0 ->
          (match s0 with
           | SOcc _ -> s
           | SVac nx ->
             { sl_entries = (nset s.sl_entries k (SOcc a)); sl_next = nx })
        | None -> s)

(** val slab_remove : slab -> n -> slab **)

let slab_remove s i =
  { sl_entries = (nset s.sl_entries i (SVac s.sl_next)); sl_next = i }

(** val slab_iter_from : sentry list -> n -> (n * arch) list **)

let rec slab_iter_from l i =
  match l with
  | [] -> []
  | s :: t ->
    (match s with
     | SOcc a -> (i, a) :: (slab_iter_from t (N.add i (Npos XH)))
     | SVac _ -> slab_iter_from t (N.add i (Npos XH)))

(** val slab_iter : slab -> (n * arch) list **)

let slab_iter s =
  slab_iter_from s.sl_entries N0

(** val arch_has : arch -> n -> bool **)

let arch_has a c =
  existsb (N.eqb c) a.a_comps

(** val col_index : n list -> n -> n option **)

let rec col_index comps c =
  match comps with
  | [] -> None
  | h :: t -> if N.eqb c h then Some N0 else option_map N.succ (col_index t c)

(** val row_col : arch -> cval list -> n -> cval option **)

let row_col a vals c =
  match col_index a.a_comps c with
  | Some i -> nget vals i
  | None -> None

(** val set_rows : arch -> (key * cval list) list -> arch **)

let set_rows a r =
  { a_uid = a.a_uid; a_comps = a.a_comps; a_rows = r; a_cap = a.a_cap;
    a_epoch = a.a_epoch; a_ins = a.a_ins; a_rem = a.a_rem; a_refresh =
    a.a_refresh; a_listeners = a.a_listeners }

(** val set_cap : arch -> n -> n -> arch **)

let set_cap a c e =
  { a_uid = a.a_uid; a_comps = a.a_comps; a_rows = a.a_rows; a_cap = c;
    a_epoch = e; a_ins = a.a_ins; a_rem = a.a_rem; a_refresh = a.a_refresh;
    a_listeners = a.a_listeners }

(** val set_edges : arch -> (n * n) list -> (n * n) list -> arch **)

let set_edges a i r =
  { a_uid = a.a_uid; a_comps = a.a_comps; a_rows = a.a_rows; a_cap = a.a_cap;
    a_epoch = a.a_epoch; a_ins = i; a_rem = r; a_refresh = a.a_refresh;
    a_listeners = a.a_listeners }

(** val set_tables : arch -> key list -> (n * key hlist) list -> arch **)

let set_tables a rf ls =
  { a_uid = a.a_uid; a_comps = a.a_comps; a_rows = a.a_rows; a_cap = a.a_cap;
    a_epoch = a.a_epoch; a_ins = a.a_ins; a_rem = a.a_rem; a_refresh = rf;
    a_listeners = ls }

(** val key_ltb : key -> key -> bool **)

let key_ltb a b =
  (||) (N.ltb (fst a) (fst b))
    ((&&) (N.eqb (fst a) (fst b)) (N.ltb (snd a) (snd b)))

(** val kset_insert : key -> key list -> key list **)

let rec kset_insert k l = match l with
| [] -> k :: []
| h :: t ->
  if key_eqb k h
  then l
  else if key_ltb k h then k :: l else h :: (kset_insert k t)

(** val kset_remove : key -> key list -> key list **)

let kset_remove k l =
  filter (fun x -> negb (key_eqb x k)) l

(** val grow : n -> n **)

let grow c =
  N.max (N.mul (Npos (XO XH)) c) (Npos (XO (XO XH)))

(** val log_drop : world -> n -> n -> world **)

let log_drop w cls ser =
  set_drops w (app w.w_drops ((cls, ser) :: []))

(** val drop_cval : world -> n -> cval -> world **)

let drop_cval w t v =
  if ctag_has_drop t then log_drop w t (fst v) else w

(** val comp_tag : world -> n -> n **)

let comp_tag w c =
  match sget w.w_comps.slots c with
  | Some s ->
    (match s.val0 with
     | Some ci -> ci.c_tag
     | None -> Npos (XI (XI (XO (XO (XO (XI XH)))))))
  | None -> Npos (XI (XI (XO (XO (XO (XI XH))))))

(** val get_by_index : 'a1 smap -> n -> (key * 'a1) option **)

let get_by_index m i =
  match sget m.slots i with
  | Some s ->
    (match s.val0 with
     | Some v -> Some ((i, s.gen), v)
     | None -> None)
  | None -> None

(** val upd_by_index : 'a1 smap -> n -> ('a1 -> 'a1) -> 'a1 smap **)

let upd_by_index m i f =
  match sget m.slots i with
  | Some s ->
    (match s.val0 with
     | Some v ->
       { slots =
         (supd m.slots i { gen = s.gen; link = s.link; val0 = (Some (f v)) });
         next_free = m.next_free; sm_len = m.sm_len }
     | None -> m)
  | None -> m

(** val upd_by_key : 'a1 smap -> key -> ('a1 -> 'a1) -> 'a1 smap **)

let upd_by_key m k f =
  match sm_get k m with
  | Some _ -> upd_by_index m (fst k) f
  | None -> m

(** val ce_idx : centry -> n **)

let ce_idx e =
  fst (fst e)

(** val cache_insert : centry list -> centry -> centry list **)

let cache_insert c e =
  match nposition (fun x -> N.eqb (ce_idx x) (ce_idx e)) c with
  | Some i -> nset c i e
  | None -> app c (e :: [])

(** val cache_remove : centry list -> n -> centry list **)

let cache_remove c ai =
  match nposition (fun x -> N.eqb (ce_idx x) ai) c with
  | Some i -> swap_remove c i
  | None -> c

(** val param_refresh : n -> arch -> rparam -> rparam **)

let param_refresh ai a p = match p with
| RRecvT (m, q, c) ->
  (match arch_state (arch_has a) q with
   | Some _ -> RRecvT (m, q, (cache_insert c ((ai, a.a_uid), a.a_epoch)))
   | None -> p)
| RFetch (k, q, c) ->
  (match arch_state (arch_has a) q with
   | Some _ -> RFetch (k, q, (cache_insert c ((ai, a.a_uid), a.a_epoch)))
   | None -> p)
| _ -> p

(** val param_remove : n -> rparam -> rparam **)

let param_remove ai p = match p with
| RRecvT (m, q, c) -> RRecvT (m, q, (cache_remove c ai))
| RFetch (k, q, c) -> RFetch (k, q, (cache_remove c ai))
| _ -> p

(** val set_params : hinfo -> rparam list -> hinfo **)

let set_params h ps =
  { h_key = h.h_key; h_order = h.h_order; h_tid = h.h_tid; h_recv = h.h_recv;
    h_recv_mut = h.h_recv_mut; h_filter = h.h_filter; h_sent_g = h.h_sent_g;
    h_sent_t = h.h_sent_t; h_archfilter = h.h_archfilter; h_refcomps =
    h.h_refcomps; h_prio = h.h_prio; h_params = ps; h_script = h.h_script }

(** val h_refresh : n -> arch -> hinfo -> hinfo **)

let h_refresh ai a h =
  set_params h (map (param_refresh ai a) h.h_params)

(** val h_remove_arch : n -> hinfo -> hinfo **)

let h_remove_arch ai h =
  set_params h (map (param_remove ai) h.h_params)

(** val notify_refresh : world -> n -> world **)

let notify_refresh w ai =
  match slab_get w.w_archs ai with
  | Some a ->
    set_hs w
      (fold_left (fun hs hk -> upd_by_key hs hk (h_refresh ai a)) a.a_refresh
        w.w_hs)
  | None -> w

(** val notify_remove_with : world -> n -> arch -> world **)

let notify_remove_with w ai a =
  set_hs w
    (fold_left (fun hs hk -> upd_by_key hs hk (h_remove_arch ai)) a.a_refresh
      w.w_hs)

(** val notify_remove : world -> n -> world **)

let notify_remove w ai =
  match slab_get w.w_archs ai with
  | Some a -> notify_remove_with w ai a
  | None -> w

(** val listeners_insert :
    (n * key hlist) list -> n -> key -> prio -> (n * key hlist) list **)

let listeners_insert ls ev h p =
  match alookup ev ls with
  | Some l -> ainsert ev (hl_insert l h p) ls
  | None -> ainsert ev (hl_insert hl_new h p) ls

(** val register_handler : n -> arch -> hinfo -> arch * hinfo **)

let register_handler ai a h =
  let has = arch_has a in
  if ca_matches has h.h_archfilter
  then let a1 = set_tables a (kset_insert h.h_key a.a_refresh) a.a_listeners
       in
       let h1 = if N.ltb N0 (nlen a.a_rows) then h_refresh ai a h else h in
       (match h.h_recv with
        | RvGlobal _ -> (a1, h1)
        | RvTargeted ek ->
          if ca_matches has h.h_filter
          then ((set_tables a1 a1.a_refresh
                  (listeners_insert a1.a_listeners (fst ek) h.h_key h.h_prio)),
                 h1)
          else (a1, h1))
  else (match h.h_recv with
        | RvGlobal _ -> (a, h)
        | RvTargeted ek ->
          if ca_matches has h.h_filter
          then ((set_tables a a.a_refresh
                  (listeners_insert a.a_listeners (fst ek) h.h_key h.h_prio)),
                 h)
          else (a, h))

(** val archs_register_handler : world -> key -> world **)

let archs_register_handler w hk =
  fold_left (fun w' pat ->
    let (ai, _) = pat in
    (match slab_get w'.w_archs ai with
     | Some a ->
       (match sm_get hk w'.w_hs with
        | Some h ->
          let (a', h') = register_handler ai a h in
          set_hs (set_archs w' (slab_set w'.w_archs ai a'))
            (upd_by_key w'.w_hs hk (fun _ -> h'))
        | None -> w')
     | None -> w')) (slab_iter w.w_archs) w

(** val archs_remove_handler : world -> hinfo -> world **)

let archs_remove_handler w h =
  set_archs w { sl_entries =
    (map (fun e ->
      match e with
      | SOcc a ->
        let ls =
          match h.h_recv with
          | RvGlobal _ -> a.a_listeners
          | RvTargeted ek ->
            (match alookup (fst ek) a.a_listeners with
             | Some l ->
               ainsert (fst ek) (hl_remove key_eqb l h.h_key) a.a_listeners
             | None -> a.a_listeners)
        in
        SOcc (set_tables a (kset_remove h.h_key a.a_refresh) ls)
      | SVac n0 -> SVac n0) w.w_archs.sl_entries); sl_next =
    w.w_archs.sl_next }

(** val sorted_insert : n -> n list -> n list **)

let rec sorted_insert c l = match l with
| [] -> c :: []
| h :: t -> if N.ltb c h then c :: l else h :: (sorted_insert c t)

(** val aby_lookup : world -> n list -> n option **)

let aby_lookup w cs =
  match find (fun p -> list_eqb N.eqb (fst p) cs) w.w_aby with
  | Some p -> Some (snd p)
  | None -> None

(** val create_arch :
    world -> n list -> (n * n) list -> (n * n) list -> n * world **)

let create_arch w cs ins rem =
  let ai = slab_vacant_key w.w_archs in
  let a0 = { a_uid = w.w_auid; a_comps = cs; a_rows = []; a_cap = N0;
    a_epoch = N0; a_ins = ins; a_rem = rem; a_refresh = []; a_listeners = [] }
  in
  let comps' =
    fold_left (fun m c ->
      upd_by_index m c (fun ci -> { c_tag = ci.c_tag; c_member_of =
        (app ci.c_member_of (ai :: [])); c_ins = ci.c_ins; c_rem = ci.c_rem }))
      cs w.w_comps
  in
  let w1 = set_comps w comps' w.w_cby in
  let (a1, hs1) =
    fold_left (fun pat pat0 ->
      let (a, hs) = pat in
      let (_, hk) = pat0 in
      (match sm_get hk hs with
       | Some h ->
         let (a', h') = register_handler ai a h in
         (a', (upd_by_key hs hk (fun _ -> h')))
       | None -> (a, hs))) w1.w_horder (a0, w1.w_hs)
  in
  let w2 = set_hs w1 hs1 in
  let w3 =
    set_aidx w2 (app w2.w_aby ((cs, ai) :: [])) (N.add w2.w_auid (Npos XH))
  in
  (ai, (set_archs w3 (slab_insert w3.w_archs a1)))

(** val upd_arch : world -> n -> (arch -> arch) -> world **)

let upd_arch w ai f =
  match slab_get w.w_archs ai with
  | Some a -> set_archs w (slab_set w.w_archs ai (f a))
  | None -> w

(** val traverse_insert : world -> n -> n -> n res **)

let traverse_insert w src c =
  match slab_get w.w_archs src with
  | Some sa ->
    (match alookup c sa.a_ins with
     | Some d -> ROk (d, w)
     | None ->
       if arch_has sa c
       then ROk (src, w)
       else let cs = sorted_insert c sa.a_comps in
            (match aby_lookup w cs with
             | Some d ->
               ROk (d,
                 (upd_arch w src (fun a ->
                   set_edges a (ainsert c d a.a_ins) a.a_rem)))
             | None ->
               let (d, w1) = create_arch w cs [] ((c, src) :: []) in
               ROk (d,
               (upd_arch w1 src (fun a ->
                 set_edges a (ainsert c d a.a_ins) a.a_rem)))))
  | None -> RFail ((FUB (Npos (XO (XO (XI (XI (XI (XO (XI XH))))))))), w)

(** val traverse_remove : world -> n -> n -> n res **)

let traverse_remove w src c =
  match slab_get w.w_archs src with
  | Some sa ->
    (match alookup c sa.a_rem with
     | Some d -> ROk (d, w)
     | None ->
       if negb (arch_has sa c)
       then ROk (src, w)
       else let cs = filter (fun x -> negb (N.eqb x c)) sa.a_comps in
            (match aby_lookup w cs with
             | Some d ->
               ROk (d,
                 (upd_arch w src (fun a ->
                   set_edges a a.a_ins (ainsert c d a.a_rem))))
             | None ->
               let (d, w1) = create_arch w cs ((c, src) :: []) [] in
               ROk (d,
               (upd_arch w1 src (fun a ->
                 set_edges a a.a_ins (ainsert c d a.a_rem))))))
  | None -> RFail ((FUB (Npos (XI (XO (XI (XO (XO (XI (XO (XO XH)))))))))), w)

(** val reserve_one : arch -> arch * bool **)

let reserve_one a =
  if N.eqb (nlen a.a_rows) a.a_cap
  then ((set_cap a (grow a.a_cap) (N.add a.a_epoch (Npos XH))), true)
  else (a, false)

(** val set_loc : world -> key -> eloc -> unit res **)

let set_loc w e l =
  match sm_get e w.w_ents with
  | Some _ ->
    ROk ((), (set_ents w (upd_by_index w.w_ents (fst e) (fun _ -> l))))
  | None -> RFail ((FUB (Npos (XO (XI (XO (XO (XO (XI (XI (XI XH)))))))))), w)

(** val arch_spawn : world -> key -> eloc * world **)

let arch_spawn w e =
  match slab_get w.w_archs N0 with
  | Some a ->
    let (a1, re) = reserve_one a in
    let row = nlen a1.a_rows in
    let a2 = set_rows a1 (app a1.a_rows ((e, []) :: [])) in
    let w1 = set_archs w (slab_set w.w_archs N0 a2) in
    ((N0, row),
    (if (||) (N.eqb (nlen a2.a_rows) (Npos XH)) re
     then notify_refresh w1 N0
     else w1))
  | None -> ((N0, N0), w)

(** val merge_row :
    nat -> n list -> cval list -> n list -> (n * cval) option -> (cval
    list * (n * cval) list) option **)

let rec merge_row fuel sc sv dc nw =
  match fuel with
  | O -> None
  | S f ->
    (match sc with
     | [] ->
       (match dc with
        | [] -> (match nw with
                 | Some _ -> None
                 | None -> Some ([], []))
        | d :: dc' ->
          (match nw with
           | Some p ->
             let (c, v) = p in
             if N.eqb c d
             then (match merge_row f [] sv dc' None with
                   | Some p0 -> let (r, k) = p0 in Some ((v :: r), k)
                   | None -> None)
             else None
           | None -> None))
     | s :: sc' ->
       (match dc with
        | [] ->
          (match sv with
           | [] -> None
           | v :: sv' ->
             (match merge_row f sc' sv' [] nw with
              | Some p -> let (d, k) = p in Some (d, ((s, v) :: k))
              | None -> None))
        | d :: dc' ->
          (match sv with
           | [] -> None
           | v :: sv' ->
             if N.ltb s d
             then (match merge_row f sc' sv' dc nw with
                   | Some p -> let (r, k) = p in Some (r, ((s, v) :: k))
                   | None -> None)
             else if N.eqb s d
                  then (match merge_row f sc' sv' dc' nw with
                        | Some p -> let (r, k) = p in Some ((v :: r), k)
                        | None -> None)
                  else (match nw with
                        | Some p ->
                          let (c, nv) = p in
                          if N.eqb c d
                          then (match merge_row f sc sv dc' None with
                                | Some p0 ->
                                  let (r, k) = p0 in Some ((nv :: r), k)
                                | None -> None)
                          else None
                        | None -> None))))

(** val move_entity : world -> eloc -> n -> (n * cval) option -> unit res **)

let move_entity w src dst nw =
  let (sai, srow) = src in
  (match slab_get w.w_archs sai with
   | Some sa ->
     if N.eqb sai dst
     then (match nw with
           | Some p ->
             let (c, v) = p in
             (match nget sa.a_rows srow with
              | Some p0 ->
                let (e, vals) = p0 in
                (match col_index sa.a_comps c with
                 | Some ci ->
                   let old =
                     match nget vals ci with
                     | Some o -> o
                     | None -> (N0, N0)
                   in
                   let w1 = drop_cval w (comp_tag w c) old in
                   ROk ((),
                   (set_archs w1
                     (slab_set w1.w_archs sai
                       (set_rows sa
                         (nset sa.a_rows srow (e, (nset vals ci v)))))))
                 | None ->
                   RFail ((FUB (Npos (XO (XI (XO (XO (XI (XI (XI (XO
                     XH)))))))))), w))
              | None ->
                RFail ((FUB (Npos (XO (XI (XO (XO (XI (XI (XI (XO
                  XH)))))))))), w))
           | None -> ROk ((), w))
     else (match slab_get w.w_archs dst with
           | Some da ->
             (match nget sa.a_rows srow with
              | Some p ->
                let (e, vals) = p in
                let (da1, re) = reserve_one da in
                (match merge_row (S
                         (add (length sa.a_comps) (length da.a_comps)))
                         sa.a_comps vals da.a_comps nw with
                 | Some p0 ->
                   let (dvals, killed) = p0 in
                   let w1 =
                     fold_left (fun w' pat ->
                       let (c, v) = pat in drop_cval w' (comp_tag w' c) v)
                       killed w
                   in
                   let drow = nlen da1.a_rows in
                   let sa1 = set_rows sa (swap_remove sa.a_rows srow) in
                   let da2 = set_rows da1 (app da1.a_rows ((e, dvals) :: []))
                   in
                   let w2 =
                     set_archs w1
                       (slab_set (slab_set w1.w_archs sai sa1) dst da2)
                   in
                   rbind (set_loc w2 e (dst, drow)) (fun _ w3 ->
                     rbind
                       (match nget sa1.a_rows srow with
                        | Some p1 ->
                          let (se, _) = p1 in
                          (match sm_get se w3.w_ents with
                           | Some l -> set_loc w3 se ((fst l), srow)
                           | None ->
                             RFail ((FUB (Npos (XO (XO (XO (XI (XO (XI (XI
                               (XI XH)))))))))), w3))
                        | None -> ROk ((), w3)) (fun _ w4 ->
                       let w5 =
                         if N.eqb (nlen sa1.a_rows) N0
                         then notify_remove w4 sai
                         else w4
                       in
                       let w6 =
                         if (||) re (N.eqb (nlen da2.a_rows) (Npos XH))
                         then notify_refresh w5 dst
                         else w5
                       in
                       ROk ((), w6)))
                 | None ->
                   RFail ((FUB (Npos (XO (XI (XI (XO (XO (XI (XO (XI
                     XH)))))))))), w))
              | None ->
                RFail ((FUB (Npos (XO (XO (XI (XI (XI (XI (XI (XO
                  XH)))))))))), w))
           | None ->
             RFail ((FUB (Npos (XO (XO (XI (XI (XI (XI (XI (XO XH)))))))))),
               w))
   | None ->
     RFail ((FUB (Npos (XO (XO (XI (XI (XO (XI (XI (XO XH)))))))))), w))

(** val remove_entity : world -> eloc -> unit res **)

let remove_entity w = function
| (ai, row) ->
  (match slab_get w.w_archs ai with
   | Some a ->
     (match nget a.a_rows row with
      | Some p ->
        let (e, vals) = p in
        let w1 =
          fold_left (fun w' pat ->
            let (c, v) = pat in drop_cval w' (comp_tag w' c) v)
            (combine a.a_comps vals) w
        in
        let a1 = set_rows a (swap_remove a.a_rows row) in
        let w2 = set_archs w1 (slab_set w1.w_archs ai a1) in
        (match sm_remove e w2.w_ents with
         | Some p0 ->
           let (_, ents') = p0 in
           let w3 = set_ents w2 ents' in
           rbind
             (match nget a1.a_rows row with
              | Some p1 ->
                let (de, _) = p1 in
                (match sm_get de w3.w_ents with
                 | Some l -> set_loc w3 de ((fst l), row)
                 | None ->
                   RFail ((FUB (Npos (XO (XO (XI (XO (XI (XO (XO (XO (XO
                     XH))))))))))), w3))
              | None -> ROk ((), w3)) (fun _ w4 -> ROk ((),
             (if N.eqb (nlen a1.a_rows) N0 then notify_remove w4 ai else w4)))
         | None ->
           RFail ((FUB (Npos (XO (XI (XI (XI (XO (XO (XO (XO (XO
             XH))))))))))), w2))
      | None ->
        RFail ((FUB (Npos (XI (XO (XO (XI (XO (XO (XO (XO (XO XH))))))))))),
          w))
   | None ->
     RFail ((FUB (Npos (XO (XI (XI (XI (XI (XI (XI (XI XH)))))))))), w))

(** val reserve : world -> key res **)

let reserve w =
  match nki_next w.w_rcur w.w_ents with
  | Some p ->
    let (o, i') = p in
    (match o with
     | Some k -> ROk (k, (set_res w i' (N.add w.w_rcnt (Npos XH))))
     | None -> RFail ((FPanic (Npos (XI (XO XH)))), w))
  | None -> RFail ((FPanic (Npos (XI (XI XH)))), w)

(** val spawn_all_n : nat -> world -> unit res **)

let rec spawn_all_n n0 w =
  match n0 with
  | O -> ROk ((), w)
  | S n' ->
    (match insert_with (fun _ -> (N0, N0)) w.w_ents with
     | Some p ->
       let (k, _) = p in
       let (loc, w1) = arch_spawn w k in
       (match insert_with (fun _ -> loc) w1.w_ents with
        | Some p0 -> let (_, ents') = p0 in spawn_all_n n' (set_ents w1 ents')
        | None -> RFail ((FPanic (Npos (XI (XO XH)))), w1))
     | None -> RFail ((FPanic (Npos (XI (XO XH)))), w))

(** val refresh_cursor : world -> world **)

let refresh_cursor w =
  set_res w (next_key_iter w.w_ents) w.w_rcnt

(** val spawn_all : world -> unit res **)

let spawn_all w =
  rbind (spawn_all_n (N.to_nat w.w_rcnt) w) (fun _ w1 -> ROk ((),
    (set_res w1 (next_key_iter w1.w_ents) N0)))

(** val has_of : arch -> n -> bool **)

let has_of =
  arch_has

(** val cache_entry_items :
    world -> query -> bool -> centry -> (fail option, (key * item) list) sum **)

let cache_entry_items w q first = function
| (p, ep) ->
  let (ai, uid) = p in
  (match slab_get w.w_archs ai with
   | Some a ->
     if negb (N.eqb uid a.a_uid)
     then Inl (Some (FUB (Npos (XI (XO (XI (XO (XI (XO (XO (XI (XO
            XH))))))))))))
     else if negb (N.eqb ep a.a_epoch)
          then Inl (Some (FUB (Npos (XI (XI (XI (XO (XI (XO (XO (XI (XO
                 XH))))))))))))
          else if (&&) (N.eqb (nlen a.a_rows) N0) (negb first)
               then Inl (Some (FUB (Npos (XO (XI (XI (XO (XI (XO (XO (XI (XO
                      XH))))))))))))
               else (match arch_state (has_of a) q with
                     | Some st ->
                       Inr
                         (map (fun pat ->
                           let (e, vals) = pat in
                           (e, (aitem (row_col a vals) e st))) a.a_rows)
                     | None ->
                       Inl (Some (FUB (Npos (XO (XO (XO (XI (XI (XO (XO (XI
                         (XO XH)))))))))))))
   | None ->
     Inl (Some (FUB (Npos (XO (XO (XI (XO (XI (XO (XO (XI (XO XH)))))))))))))

(** val cache_items :
    world -> query -> bool -> centry list -> (fail, (key * item) list) sum **)

let rec cache_items w q first = function
| [] -> Inr []
| ce :: t ->
  (match cache_entry_items w q first ce with
   | Inl o -> (match o with
               | Some f -> Inl f
               | None -> Inl (FUB N0))
   | Inr l ->
     (match cache_items w q false t with
      | Inl f -> Inl f
      | Inr r -> Inr (app l r)))

(** val recv_item :
    world -> query -> centry list -> eloc -> (fail, item) sum **)

let recv_item w q c loc =
  match find (fun ce -> N.eqb (ce_idx ce) (fst loc)) c with
  | Some c0 ->
    let (p, ep) = c0 in
    let (ai, uid) = p in
    (match slab_get w.w_archs ai with
     | Some a ->
       if negb (N.eqb uid a.a_uid)
       then Inl (FUB (Npos (XI (XO (XI (XO (XI (XO (XO (XI (XO XH)))))))))))
       else if negb (N.eqb ep a.a_epoch)
            then Inl (FUB (Npos (XI (XI (XI (XO (XI (XO (XO (XI (XO
                   XH)))))))))))
            else (match arch_state (has_of a) q with
                  | Some st ->
                    (match nget a.a_rows (snd loc) with
                     | Some p0 ->
                       let (e, vals) = p0 in Inr (aitem (row_col a vals) e st)
                     | None ->
                       Inl (FUB (Npos (XI (XO (XO (XI (XO (XI XH)))))))))
                  | None -> Inl (FUB (Npos (XI (XO (XO (XI (XO (XI XH)))))))))
     | None -> Inl (FUB (Npos (XO (XO (XO (XI (XO (XI XH)))))))))
  | None -> Inl (FUB (Npos (XI (XI (XI (XO (XO (XI XH))))))))

(** val bump_vals :
    (n -> bool) -> n list -> n list -> n -> cval list -> cval list **)

let bump_vals zst comps muts d vals =
  app
    (map (fun pat ->
      let (c, v) = pat in
      if (&&) (existsb (N.eqb c) muts) (negb (zst c))
      then ((fst v),
             (N.add (snd v)
               (N.mul d (N.of_nat (length (filter (N.eqb c) muts))))))
      else v) (combine comps vals)) (skipn (length comps) vals)

(** val write_arch : world -> query -> n -> n -> n option -> world **)

let write_arch w q d ai only_row =
  match slab_get w.w_archs ai with
  | Some a ->
    (match arch_state (has_of a) q with
     | Some st ->
       let muts = amuts st in
       let rows' =
         match only_row with
         | Some r ->
           (match nget a.a_rows r with
            | Some p ->
              let (e, vals) = p in
              nset a.a_rows r (e,
                (bump_vals (fun c -> ctag_zst (comp_tag w c)) a.a_comps muts
                  d vals))
            | None -> a.a_rows)
         | None ->
           map (fun pat ->
             let (e, vals) = pat in
             (e,
             (bump_vals (fun c -> ctag_zst (comp_tag w c)) a.a_comps muts d
               vals))) a.a_rows
       in
       set_archs w (slab_set w.w_archs ai (set_rows a rows'))
     | None -> w)
  | None -> w

(** val set_hst_fields :
    hst -> key list -> n -> n -> n -> logent list -> hst **)

let set_hst_fields h ids fuel ser inv log =
  { k_ids = ids; k_fuel = fuel; k_serial = ser; k_inv = inv; k_panic_at =
    h.k_panic_at; k_log = log }

(** val ev_drop : world -> bool -> n -> evv -> world **)

let ev_drop w targeted tag ev =
  if targeted
  then if (&&) (N.leb (Npos (XO (XO (XI (XO XH))))) tag)
            (N.ltb tag (Npos (XO (XO (XO (XI (XO XH)))))))
       then drop_cval w (N.sub tag (Npos (XO (XO (XI (XO XH)))))) (ev.ev_ser,
              ev.ev_val)
       else if ttag_has_drop tag
            then log_drop w
                   (N.add (Npos (XO (XO (XO (XI (XO (XO (XI XH)))))))) tag)
                   ev.ev_ser
            else w
  else if gtag_has_drop tag
       then log_drop w (N.add (Npos (XO (XO (XI (XO (XO (XI XH))))))) tag)
              ev.ev_ser
       else w

(** val sender_lookup : rparam list -> bool -> n -> n option option **)

let sender_lookup ps targeted tag =
  let senders =
    filter (fun p -> match p with
                     | RSender (_, _) -> true
                     | _ -> false) ps
  in
  (match senders with
   | [] -> None
   | _ :: _ ->
     Some
       (fold_left (fun acc p ->
         match acc with
         | Some i -> Some i
         | None ->
           (match p with
            | RSender (g, t) -> alookup tag (if targeted then t else g)
            | _ -> None)) senders None))

(** val resolve_tgt : world -> tgt -> key -> key list -> key **)

let resolve_tgt w t ev_target fresh =
  match t with
  | TTarget -> ev_target
  | TKnown i ->
    let ids = w.w_h.k_ids in
    if N.eqb (nlen ids) N0
    then kEY_NULL
    else (match nget ids (N.modulo i (nlen ids)) with
          | Some k -> k
          | None -> kEY_NULL)
  | TFresh k -> (match nget fresh k with
                 | Some x -> x
                 | None -> kEY_NULL)

(** val fresh_serial : world -> n * world **)

let fresh_serial w =
  let h = w.w_h in
  (h.k_serial,
  (set_h w
    (set_hst_fields h h.k_ids h.k_fuel (N.add h.k_serial (Npos XH)) h.k_inv
      h.k_log)))

(** val new_cval : world -> n -> cval * world **)

let new_cval w ktag =
  if ctag_zst ktag
  then ((N0, N0), w)
  else let (s, w1) = fresh_serial w in ((s, s), w1)

(** val use_fuel : world -> bool * world **)

let use_fuel w =
  let h = w.w_h in
  if N.eqb h.k_fuel N0
  then (false, w)
  else (true,
         (set_h w
           (set_hst_fields h h.k_ids (N.sub h.k_fuel (Npos XH)) h.k_serial
             h.k_inv h.k_log)))

(** val push_known : world -> key -> world **)

let push_known w k =
  let h = w.w_h in
  set_h w
    (set_hst_fields h (app h.k_ids (k :: [])) h.k_fuel h.k_serial h.k_inv
      h.k_log)

(** val run_actions :
    act list -> rparam list -> key -> key list -> qitem list -> world ->
    (qitem list * world) * fail option **)

let rec run_actions acts ps ev_target fresh sent w =
  match acts with
  | [] -> ((sent, w), None)
  | a :: rest ->
    let (ok, w0) = use_fuel w in
    if negb ok
    then run_actions rest ps ev_target fresh sent w
    else let send = fun targeted tag target ev w' fresh' ->
           match sender_lookup ps targeted tag with
           | Some o ->
             (match o with
              | Some idx ->
                run_actions rest ps ev_target fresh'
                  (app sent ({ qi_targeted = targeted; qi_idx = idx;
                    qi_target = target; qi_ev = ev } :: [])) w'
              | None ->
                ((sent, (ev_drop w' targeted tag ev)), (Some (FPanic (Npos
                  (XI XH))))))
           | None -> run_actions rest ps ev_target fresh' sent w'
         in
         (match a with
          | ASend g ->
            (match sender_lookup ps false g with
             | Some _ ->
               let (s, w1) = fresh_serial w0 in
               send false g kEY_NULL { ev_ser = s; ev_val = s; ev_id =
                 kEY_NULL } w1 fresh
             | None -> run_actions rest ps ev_target fresh sent w0)
          | ASendTo (t, tg) ->
            (match sender_lookup ps true tg with
             | Some _ ->
               let (s, w1) = fresh_serial w0 in
               send true tg (resolve_tgt w1 t ev_target fresh) { ev_ser = s;
                 ev_val = s; ev_id = kEY_NULL } w1 fresh
             | None -> run_actions rest ps ev_target fresh sent w0)
          | ASpawn ->
            (match sender_lookup ps false g_SPAWN with
             | Some _ ->
               (match reserve w0 with
                | ROk (id, w1) ->
                  (match sender_lookup ps false g_SPAWN with
                   | Some o ->
                     (match o with
                      | Some _ ->
                        send false g_SPAWN kEY_NULL { ev_ser = N0; ev_val =
                          N0; ev_id = id } (push_known w1 id)
                          (app fresh (id :: []))
                      | None -> ((sent, w1), (Some (FPanic (Npos (XI XH))))))
                   | None -> ((sent, w1), (Some (FPanic (Npos (XI XH))))))
                | RFail (f, w1) -> ((sent, w1), (Some f)))
             | None -> run_actions rest ps ev_target fresh sent w0)
          | AInsert (t, k) ->
            (match sender_lookup ps true (t_INSERT k) with
             | Some _ ->
               let (v, w1) = new_cval w0 k in
               send true (t_INSERT k) (resolve_tgt w1 t ev_target fresh)
                 { ev_ser = (fst v); ev_val = (snd v); ev_id = kEY_NULL } w1
                 fresh
             | None -> run_actions rest ps ev_target fresh sent w0)
          | ARemove (t, k) ->
            send true (t_REMOVE k) (resolve_tgt w0 t ev_target fresh)
              { ev_ser = N0; ev_val = N0; ev_id = kEY_NULL } w0 fresh
          | ADespawn t ->
            send true t_DESPAWN (resolve_tgt w0 t ev_target fresh) { ev_ser =
              N0; ev_val = N0; ev_id = kEY_NULL } w0 fresh)

(** val fetch_get :
    world -> query -> centry list -> key -> (fail, n * item list) sum **)

let fetch_get w q c e =
  match sm_get e w.w_ents with
  | Some loc ->
    (match find (fun ce -> N.eqb (ce_idx ce) (fst loc)) c with
     | Some _ ->
       (match recv_item w q c loc with
        | Inl f -> Inl f
        | Inr it -> Inr ((Npos (XO (XI (XO XH)))), (it :: [])))
     | None -> Inr ((Npos (XO (XO (XI XH)))), []))
  | None -> Inr ((Npos (XI (XI (XO XH)))), [])

(** val has_dup : key list -> bool **)

let rec has_dup = function
| [] -> false
| x :: t -> (||) (existsb (key_eqb x) t) (has_dup t)

(** val fetch_get_all :
    world -> query -> centry list -> key list -> (fail, n * item list) sum **)

let rec fetch_get_all w q c = function
| [] -> Inr ((Npos (XO (XO (XI (XO XH))))), [])
| e :: t ->
  (match fetch_get w q c e with
   | Inl f -> Inl f
   | Inr p ->
     let (n0, its) = p in
     (match n0 with
      | N0 -> Inr ((Npos (XI (XI (XI (XO XH))))), [])
      | Npos p0 ->
        (match p0 with
         | XI p1 ->
           (match p1 with
            | XI p2 ->
              (match p2 with
               | XO p3 ->
                 (match p3 with
                  | XH -> Inr ((Npos (XO (XI (XI (XO XH))))), [])
                  | _ -> Inr ((Npos (XI (XI (XI (XO XH))))), []))
               | _ -> Inr ((Npos (XI (XI (XI (XO XH))))), []))
            | _ -> Inr ((Npos (XI (XI (XI (XO XH))))), []))
         | XO p1 ->
           (match p1 with
            | XI p2 ->
              (match p2 with
               | XO p3 ->
                 (match p3 with
                  | XH ->
                    (match fetch_get_all w q c t with
                     | Inl f -> Inl f
                     | Inr other ->
                       let (n1, r) = other in
                       (match n1 with
                        | N0 -> Inr other
                        | Npos p4 ->
                          (match p4 with
                           | XO p5 ->
                             (match p5 with
                              | XO p6 ->
                                (match p6 with
                                 | XI p7 ->
                                   (match p7 with
                                    | XO p8 ->
                                      (match p8 with
                                       | XH ->
                                         Inr ((Npos (XO (XO (XI (XO XH))))),
                                           (app its r))
                                       | _ -> Inr other)
                                    | _ -> Inr other)
                                 | _ -> Inr other)
                              | _ -> Inr other)
                           | _ -> Inr other)))
                  | _ -> Inr ((Npos (XI (XI (XI (XO XH))))), []))
               | _ -> Inr ((Npos (XI (XI (XI (XO XH))))), []))
            | _ -> Inr ((Npos (XI (XI (XI (XO XH))))), []))
         | XH -> Inr ((Npos (XI (XI (XI (XO XH))))), []))))

(** val fetch_get_many :
    world -> query -> centry list -> key list -> (fail, n * item list) sum **)

let fetch_get_many w q c es =
  if has_dup es
  then Inr ((Npos (XI (XO (XI (XO XH))))), [])
  else fetch_get_all w q c es

(** val probe_lists : key list -> (bool * key list) list **)

let probe_lists = function
| [] -> []
| e0 :: l ->
  (match l with
   | [] -> (false, (e0 :: [])) :: []
   | e1 :: l0 ->
     (match l0 with
      | [] ->
        (false, (e0 :: [])) :: ((false, (e1 :: [])) :: ((true,
          (e0 :: (e1 :: []))) :: ((true, (e0 :: (e1 :: (e0 :: [])))) :: [])))
      | e2 :: _ ->
        (false, (e0 :: [])) :: ((false, (e1 :: [])) :: ((false,
          (e2 :: [])) :: ((true, (e0 :: (e1 :: []))) :: ((true,
          (e0 :: (e1 :: (e0 :: [])))) :: ((true,
          (e1 :: (e2 :: (e2 :: [])))) :: ((true,
          (e2 :: (e0 :: (e1 :: [])))) :: []))))))))

(** val run_probes :
    world -> query -> centry list -> (bool * key list) list -> (fail,
    (n * item list) list) sum **)

let rec run_probes w q c = function
| [] -> Inr []
| p :: t ->
  let (many, es) = p in
  let r =
    if many
    then fetch_get_many w q c es
    else (match es with
          | [] -> Inr ((Npos (XI (XI (XO XH)))), [])
          | e :: _ -> fetch_get w q c e)
  in
  (match r with
   | Inl f -> Inl f
   | Inr x ->
     (match run_probes w q c t with
      | Inl f -> Inl f
      | Inr xs -> Inr (x :: xs)))

(** val ev_has_payload : bool -> n -> bool **)

let ev_has_payload targeted tag =
  if targeted
  then (||) (N.ltb tag (Npos (XO (XO XH))))
         ((&&)
           ((&&) (N.leb (Npos (XO (XO (XI (XO XH))))) tag)
             (N.ltb tag (Npos (XO (XO (XO (XI (XO XH))))))))
           (negb (ctag_zst (N.sub tag (Npos (XO (XO (XI (XO XH)))))))))
  else N.ltb tag (Npos (XO (XO XH)))

(** val param_views :
    world -> rparam list -> eloc -> (fail, item list * (n * item list) list)
    sum **)

let rec param_views w ps loc =
  match ps with
  | [] -> Inr ([], [])
  | p :: t ->
    (match p with
     | RRecvT (_, q, c) ->
       (match recv_item w q c loc with
        | Inl f -> Inl f
        | Inr it ->
          (match param_views w t loc with
           | Inl f -> Inl f
           | Inr p0 -> let (r, v) = p0 in Inr ((it :: r), v)))
     | RFetch (k, q, c) ->
       (match cache_items w q true c with
        | Inl f -> Inl f
        | Inr its ->
          let items = map snd its in
          (match k with
           | FkFetcher ->
             (match run_probes w q c (probe_lists w.w_h.k_ids) with
              | Inl f -> Inl f
              | Inr probes ->
                (match param_views w t loc with
                 | Inl f -> Inl f
                 | Inr p0 ->
                   let (r, v) = p0 in Inr (r, (app ((N0, items) :: probes) v))))
           | FkSingle ->
             if negb (N.eqb (nlen items) (Npos XH))
             then Inl (FPanic (Npos (XO XH)))
             else (match param_views w t loc with
                   | Inl f -> Inl f
                   | Inr p0 ->
                     let (r, v) = p0 in Inr (r, (((Npos XH), items) :: v)))
           | FkTrySingle ->
             let code =
               if N.eqb (nlen items) (Npos XH)
               then Npos (XO XH)
               else if N.eqb (nlen items) N0
                    then Npos (XI XH)
                    else Npos (XO (XO XH))
             in
             (match param_views w t loc with
              | Inl f -> Inl f
              | Inr p0 ->
                let (r, v) = p0 in
                Inr (r, ((code,
                (if N.eqb (nlen items) (Npos XH) then items else [])) :: v)))))
     | _ -> param_views w t loc)

(** val apply_writes : world -> rparam list -> eloc -> n -> world **)

let apply_writes w ps loc d =
  if N.eqb d N0
  then w
  else fold_left (fun w' p ->
         match p with
         | RRecvT (_, q, _) -> write_arch w' q d (fst loc) (Some (snd loc))
         | RFetch (k, q, c) ->
           (match k with
            | FkFetcher ->
              fold_left (fun w'' ce -> write_arch w'' q d (ce_idx ce) None) c
                w'
            | _ -> w')
         | _ -> w') ps w

type hres = { hr_taken : bool; hr_ev : evv; hr_sent : qitem list;
              hr_fail : fail option }

(** val run_handler :
    (hinfo -> logent -> n -> script) -> world -> hinfo -> qitem -> n -> eloc
    -> hres * world **)

let run_handler beh w h it tag loc =
  match param_views w h.h_params loc with
  | Inl f ->
    ({ hr_taken = false; hr_ev = it.qi_ev; hr_sent = []; hr_fail = (Some
      f) }, w)
  | Inr p ->
    let (ritems, views) = p in
    let hs = w.w_h in
    let le = { lg_handler = h.h_key; lg_targeted = it.qi_targeted; lg_tag =
      tag; lg_ev = it.qi_ev; lg_target = it.qi_target; lg_resets =
      w.w_resets; lg_recv_item = ritems; lg_views = views }
    in
    let inv = hs.k_inv in
    let w1 =
      set_h w
        (set_hst_fields hs hs.k_ids hs.k_fuel hs.k_serial
          (N.add inv (Npos XH)) (app hs.k_log (le :: [])))
    in
    let sc = beh h le inv in
    let ev = it.qi_ev in
    let ev1 =
      if (&&) h.h_recv_mut (ev_has_payload it.qi_targeted tag)
      then { ev_ser = ev.ev_ser; ev_val = (N.add ev.ev_val sc.s_evdelta);
             ev_id = ev.ev_id }
      else ev
    in
    let w2 = apply_writes w1 h.h_params loc sc.s_wdelta in
    let ev_target =
      if it.qi_targeted
      then it.qi_target
      else if N.eqb tag g_SPAWN then ev.ev_id else kEY_NULL
    in
    let (p0, fl) = run_actions sc.s_actions h.h_params ev_target [] [] w2 in
    let (sent, w3) = p0 in
    let taken = (&&) h.h_recv_mut sc.s_take in
    (match fl with
     | Some f ->
       ({ hr_taken = false; hr_ev = ev1; hr_sent = sent; hr_fail = (Some
         f) }, w3)
     | None ->
       if N.eqb hs.k_panic_at (N.add inv (Npos XH))
       then ({ hr_taken = taken; hr_ev = ev1; hr_sent = sent; hr_fail = (Some
              (FPanic (Npos (XO (XI XH))))) }, w3)
       else ({ hr_taken = taken; hr_ev = ev1; hr_sent = sent; hr_fail =
              None }, w3))

(** val run_handlers :
    (hinfo -> logent -> n -> script) -> key list -> world -> qitem -> n ->
    eloc -> qitem list -> (((world * evv) * qitem list) * bool) * fail option **)

let rec run_handlers beh hl w it tag loc sent =
  match hl with
  | [] -> ((((w, it.qi_ev), sent), false), None)
  | hk :: rest ->
    (match sm_get hk w.w_hs with
     | Some h ->
       let (r, w1) = run_handler beh w h it tag loc in
       let it' = { qi_targeted = it.qi_targeted; qi_idx = it.qi_idx;
         qi_target = it.qi_target; qi_ev = r.hr_ev }
       in
       (match r.hr_fail with
        | Some f ->
          (((((if r.hr_taken
               then ev_drop w1 it.qi_targeted tag r.hr_ev
               else w1), r.hr_ev), (app sent r.hr_sent)), r.hr_taken), (Some
            f))
        | None ->
          if r.hr_taken
          then (((((ev_drop w1 it.qi_targeted tag r.hr_ev), r.hr_ev),
                 (app sent r.hr_sent)), true), None)
          else run_handlers beh rest w1 it' tag loc (app sent r.hr_sent))
     | None ->
       ((((w, it.qi_ev), sent), false), (Some (FUB (Npos (XO (XO (XI (XI (XI
         (XI (XO (XO (XO (XO XH)))))))))))))))

(** val fail_of : 'a1 res -> world * fail option **)

let fail_of = function
| ROk (_, w) -> (w, None)
| RFail (f, w) -> (w, (Some f))

(** val builtin_effect : ekind -> evv -> eloc -> world -> unit res **)

let builtin_effect kind ev loc w1 =
  match kind with
  | KNormal -> ROk ((), w1)
  | KInsert c ->
    rbind (traverse_insert w1 (fst loc) c) (fun d w2 ->
      move_entity w2 loc d (Some (c, (ev.ev_ser, ev.ev_val))))
  | KRemove c ->
    rbind (traverse_remove w1 (fst loc) c) (fun d w2 ->
      move_entity w2 loc d None)
  | KSpawn -> spawn_all w1
  | KDespawn ->
    rbind (spawn_all w1) (fun _ w2 ->
      rbind (remove_entity w2 loc) (fun _ w3 -> ROk ((), (refresh_cursor w3))))

(** val deliver_one :
    (hinfo -> logent -> n -> script) -> qitem -> world -> (qitem
    list * world) * fail option **)

let deliver_one beh it w =
  let finish = fun tag kind hl loc ->
    let (p, fl) = run_handlers beh hl w it tag loc [] in
    let (p0, taken) = p in
    let (p1, sent) = p0 in
    let (w1, ev) = p1 in
    (match fl with
     | Some f ->
       ((sent, (if taken then w1 else ev_drop w1 it.qi_targeted tag ev)),
         (Some f))
     | None ->
       if taken
       then ((sent, w1), None)
       else (match kind with
             | KNormal -> ((sent, (ev_drop w1 it.qi_targeted tag ev)), None)
             | _ ->
               let (w3, f) = fail_of (builtin_effect kind ev loc w1) in
               ((sent, w3), f)))
  in
  if it.qi_targeted
  then (match get_by_index w.w_tev it.qi_idx with
        | Some p ->
          let (_, info) = p in
          (match sm_get it.qi_target w.w_ents with
           | Some loc ->
             (match slab_get w.w_archs (fst loc) with
              | Some a ->
                let hl =
                  match alookup it.qi_idx a.a_listeners with
                  | Some l -> l.hl_entries
                  | None -> []
                in
                finish info.e_tag info.e_kind hl loc
              | None ->
                (([], w), (Some (FUB (Npos (XI (XO (XI (XI (XO (XI (XO (XO
                  (XO (XO XH)))))))))))))))
           | None -> (([], (ev_drop w true info.e_tag it.qi_ev)), None))
        | None ->
          (([], w), (Some (FUB (Npos (XO (XO (XO (XO (XO (XI (XO (XO (XO (XO
            XH)))))))))))))))
  else (match get_by_index w.w_gev it.qi_idx with
        | Some p ->
          let (_, info) = p in
          (match nget w.w_glists it.qi_idx with
           | Some l ->
             finish info.e_tag info.e_kind l.hl_entries (u32MAX, u32MAX)
           | None ->
             (([], w), (Some (FUB (Npos (XO (XO (XO (XI (XI (XO (XO (XO (XO
               (XO XH)))))))))))))))
        | None ->
          (([], w), (Some (FUB (Npos (XI (XO (XI (XO (XI (XO (XO (XO (XO (XO
            XH)))))))))))))))

(** val unwind_queue : qitem list -> world -> world **)

let unwind_queue q w =
  fold_left (fun w' it ->
    let tag =
      if it.qi_targeted
      then (match get_by_index w'.w_tev it.qi_idx with
            | Some p -> let (_, i) = p in i.e_tag
            | None -> Npos (XI (XI (XI (XO (XO (XI (XI (XI (XI XH))))))))))
      else (match get_by_index w'.w_gev it.qi_idx with
            | Some p -> let (_, i) = p in i.e_tag
            | None -> Npos (XI (XI (XI (XO (XO (XI (XI (XI (XI XH))))))))))
    in
    ev_drop w' it.qi_targeted tag it.qi_ev) q w

type wst = world * fail option

(** val run_w :
    (hinfo -> logent -> n -> script) -> qitem -> wst -> (qitem
    list * wst) * bool **)

let run_w beh it s =
  let (p, fl) = deliver_one beh it (fst s) in
  let (sent, w1) = p in
  ((sent, (w1, fl)), (match fl with
                      | Some _ -> true
                      | None -> false))

(** val unwind_w : qitem list -> wst -> wst **)

let unwind_w q s =
  match snd s with
  | Some f ->
    (match f with
     | FPanic k ->
       let w2 = unwind_queue q (fst s) in
       ((match spawn_all w2 with
         | ROk (_, w3) -> w3
         | RFail (_, w3) -> w3), (Some (FPanic k)))
     | FUB _ -> s)
  | None -> s

(** val flush_loop :
    (hinfo -> logent -> n -> script) -> nat -> qitem list -> world ->
    world * fail option **)

let flush_loop beh fuel q w =
  match flush (run_w beh) unwind_w fuel q (w, None) [] with
  | Some p ->
    let (p0, o) = p in
    let (_, w0) = p0 in
    let (w', fl) = w0 in
    (match o with
     | Finished -> ((set_resets w' (N.add w'.w_resets (Npos XH))), None)
     | Aborted -> (w', fl))
  | None -> (w, (Some (FPanic (Npos (XO (XO (XO XH)))))))

(** val fUEL : nat **)

let fUEL =
  pow (S (S O)) (S (S (S (S (S (S (S (S (S (S (S (S (S (S O))))))))))))))

(** val flush0 :
    (hinfo -> logent -> n -> script) -> qitem list -> world -> unit res **)

let flush0 beh q w =
  let (w', o) = flush_loop beh fUEL q w in
  (match o with
   | Some f -> RFail (f, w')
   | None -> ROk ((), w'))

(** val gkind : n -> ekind **)

let gkind tag =
  if N.eqb tag g_SPAWN then KSpawn else KNormal

(** val note : world -> n -> key -> world **)

let note w gtag id =
  set_notes w (app w.w_notes ((gtag, id) :: []))

(** val add_global_event :
    (hinfo -> logent -> n -> script) -> nat -> n -> world -> key res **)

let add_global_event beh =
  let rec add_global_event0 fuel tag w =
    match fuel with
    | O -> RFail ((FPanic (Npos (XO (XO (XO XH))))), w)
    | S f ->
      (match alookup tag w.w_gby with
       | Some k -> ROk (k, w)
       | None ->
         (match insert_with (fun _ -> { e_tag = tag; e_kind = (gkind tag) })
                  w.w_gev with
          | Some p ->
            let (k, m) = p in
            let w1 = set_gev w m (ainsert tag k w.w_gby) in
            let w2 =
              set_glists w1
                (nrepeat_to w1.w_glists (add (N.to_nat (fst k)) (S O)) hl_new)
            in
            rbind
              (send_global0 f g_ADDGE { ev_ser = N0; ev_val = N0; ev_id = k }
                w2) (fun _ w3 -> ROk (k, w3))
          | None -> RFail ((FPanic (Npos (XI (XO XH)))), w)))
  and send_global0 fuel tag ev w =
    match fuel with
    | O -> RFail ((FPanic (Npos (XO (XO (XO XH))))), w)
    | S f ->
      (match add_global_event0 f tag w with
       | ROk (k, w1) ->
         let w2 =
           if N.ltb (Npos (XO (XI (XO XH)))) tag
           then note w1 tag ev.ev_id
           else w1
         in
         flush0 beh ({ qi_targeted = false; qi_idx = (fst k); qi_target =
           kEY_NULL; qi_ev = ev } :: []) w2
       | RFail (e, w') -> RFail (e, (ev_drop w' false tag ev)))
  in add_global_event0

(** val send_global :
    (hinfo -> logent -> n -> script) -> nat -> n -> evv -> world -> unit res **)

let send_global beh =
  let rec add_global_event0 fuel tag w =
    match fuel with
    | O -> RFail ((FPanic (Npos (XO (XO (XO XH))))), w)
    | S f ->
      (match alookup tag w.w_gby with
       | Some k -> ROk (k, w)
       | None ->
         (match insert_with (fun _ -> { e_tag = tag; e_kind = (gkind tag) })
                  w.w_gev with
          | Some p ->
            let (k, m) = p in
            let w1 = set_gev w m (ainsert tag k w.w_gby) in
            let w2 =
              set_glists w1
                (nrepeat_to w1.w_glists (add (N.to_nat (fst k)) (S O)) hl_new)
            in
            rbind
              (send_global0 f g_ADDGE { ev_ser = N0; ev_val = N0; ev_id = k }
                w2) (fun _ w3 -> ROk (k, w3))
          | None -> RFail ((FPanic (Npos (XI (XO XH)))), w)))
  and send_global0 fuel tag ev w =
    match fuel with
    | O -> RFail ((FPanic (Npos (XO (XO (XO XH))))), w)
    | S f ->
      (match add_global_event0 f tag w with
       | ROk (k, w1) ->
         let w2 =
           if N.ltb (Npos (XO (XI (XO XH)))) tag
           then note w1 tag ev.ev_id
           else w1
         in
         flush0 beh ({ qi_targeted = false; qi_idx = (fst k); qi_target =
           kEY_NULL; qi_ev = ev } :: []) w2
       | RFail (e, w') -> RFail (e, (ev_drop w' false tag ev)))
  in send_global0

(** val rFUEL : nat **)

let rFUEL =
  S (S (S (S (S (S (S (S O)))))))

(** val add_component :
    (hinfo -> logent -> n -> script) -> n -> world -> key res **)

let add_component beh tag w =
  match alookup tag w.w_cby with
  | Some k -> ROk (k, w)
  | None ->
    (match insert_with (fun _ -> { c_tag = tag; c_member_of = []; c_ins = [];
             c_rem = [] }) w.w_comps with
     | Some p ->
       let (k, m) = p in
       let w1 = set_comps w m (ainsert tag k w.w_cby) in
       rbind
         (send_global beh rFUEL g_ADDC { ev_ser = N0; ev_val = N0; ev_id =
           k } w1) (fun _ w2 -> ROk (k, w2))
     | None -> RFail ((FPanic (Npos (XI (XO XH)))), w))

(** val add_targeted_event :
    (hinfo -> logent -> n -> script) -> n -> world -> key res **)

let add_targeted_event beh tag w =
  rbind
    (if (&&) (N.leb (Npos (XO (XO (XI (XO XH))))) tag)
          (N.ltb tag (Npos (XO (XO (XO (XI (XO XH)))))))
     then rbind
            (add_component beh (N.sub tag (Npos (XO (XO (XI (XO XH)))))) w)
            (fun c w' -> ROk ((KInsert (fst c)), w'))
     else if (&&) (N.leb (Npos (XO (XO (XO (XI (XO XH)))))) tag)
               (N.ltb tag (Npos (XO (XO (XI (XI (XI XH)))))))
          then rbind
                 (add_component beh
                   (N.sub tag (Npos (XO (XO (XO (XI (XO XH))))))) w)
                 (fun c w' -> ROk ((KRemove (fst c)), w'))
          else if N.eqb tag t_DESPAWN
               then ROk (KDespawn, w)
               else ROk (KNormal, w)) (fun kind w0 ->
    match alookup tag w0.w_tby with
    | Some k -> ROk (k, w0)
    | None ->
      (match insert_with (fun _ -> { e_tag = tag; e_kind = kind }) w0.w_tev with
       | Some p ->
         let (k, m) = p in
         let w1 = set_tev w0 m (ainsert tag k w0.w_tby) in
         let w2 =
           match kind with
           | KInsert c ->
             set_comps w1
               (upd_by_index w1.w_comps c (fun ci -> { c_tag = ci.c_tag;
                 c_member_of = ci.c_member_of; c_ins =
                 (app ci.c_ins (k :: [])); c_rem = ci.c_rem })) w1.w_cby
           | KRemove c ->
             set_comps w1
               (upd_by_index w1.w_comps c (fun ci -> { c_tag = ci.c_tag;
                 c_member_of = ci.c_member_of; c_ins = ci.c_ins; c_rem =
                 (app ci.c_rem (k :: [])) })) w1.w_cby
           | _ -> w1
         in
         rbind
           (send_global beh rFUEL g_ADDTE { ev_ser = N0; ev_val = N0; ev_id =
             k } w2) (fun _ w3 -> ROk (k, w3))
       | None -> RFail ((FPanic (Npos (XI (XO XH)))), w0)))

(** val send_to :
    (hinfo -> logent -> n -> script) -> n -> key -> evv -> world -> unit res **)

let send_to beh tag target ev w =
  match add_targeted_event beh tag w with
  | ROk (k, w1) ->
    flush0 beh ({ qi_targeted = true; qi_idx = (fst k); qi_target = target;
      qi_ev = ev } :: []) w1
  | RFail (e, w') -> RFail (e, (ev_drop w' true tag ev))

type rcvd =
| RcNone
| RcOk of recvid
| RcInvalid

(** val recvid_eqb : recvid -> recvid -> bool **)

let recvid_eqb a b =
  match a with
  | RvGlobal x ->
    (match b with
     | RvGlobal y -> key_eqb x y
     | RvTargeted _ -> false)
  | RvTargeted x ->
    (match b with
     | RvGlobal _ -> false
     | RvTargeted y -> key_eqb x y)

type hconfig = { cf_recv : rcvd; cf_access : access option; cf_filter : 
                 ca; cf_sg : n list; cf_st : n list; cf_cas : ca list;
                 cf_refs : n list; cf_params : rparam list }

(** val cfg0 : hconfig **)

let cfg0 =
  { cf_recv = RcNone; cf_access = (Some AcNone); cf_filter = ca_false;
    cf_sg = []; cf_st = []; cf_cas = []; cf_refs = []; cf_params = [] }

(** val cfg_set_recv : hconfig -> recvid -> rcvd **)

let cfg_set_recv c r =
  match c.cf_recv with
  | RcNone -> RcOk r
  | RcOk old -> if recvid_eqb old r then RcOk r else RcInvalid
  | RcInvalid -> RcInvalid

(** val cfg_set_access : hconfig -> access -> access option **)

let cfg_set_access c a =
  match c.cf_access with
  | Some old -> join_acc a old
  | None -> None

(** val resolve_query :
    (hinfo -> logent -> n -> script) -> query -> world -> query res **)

let rec resolve_query beh q w =
  match q with
  | QRef t ->
    rbind (add_component beh t w) (fun k w1 -> ROk ((QRef (fst k)), w1))
  | QMut t ->
    rbind (add_component beh t w) (fun k w1 -> ROk ((QMut (fst k)), w1))
  | QTuple qs ->
    rbind
      (let rec go l w0 =
         match l with
         | [] -> ROk ([], w0)
         | x :: t ->
           rbind (resolve_query beh x w0) (fun x' w1 ->
             rbind (go t w1) (fun t' w2 -> ROk ((x' :: t'), w2)))
       in go qs w) (fun l w1 -> ROk ((QTuple l), w1))
  | QOpt x -> rbind (resolve_query beh x w) (fun x' w1 -> ROk ((QOpt x'), w1))
  | QOr (l, r) ->
    rbind (resolve_query beh l w) (fun l' w1 ->
      rbind (resolve_query beh r w1) (fun r' w2 -> ROk ((QOr (l', r')), w2)))
  | QXor (l, r) ->
    rbind (resolve_query beh l w) (fun l' w1 ->
      rbind (resolve_query beh r w1) (fun r' w2 -> ROk ((QXor (l', r')), w2)))
  | QNot x -> rbind (resolve_query beh x w) (fun x' w1 -> ROk ((QNot x'), w1))
  | QWith x ->
    rbind (resolve_query beh x w) (fun x' w1 -> ROk ((QWith x'), w1))
  | QHas x -> rbind (resolve_query beh x w) (fun x' w1 -> ROk ((QHas x'), w1))
  | QEid -> ROk (QEid, w)

(** val register_set :
    (hinfo -> logent -> n -> script) -> (bool * n) list -> world ->
    ((bool * n) * n) list res **)

let rec register_set beh evs w =
  match evs with
  | [] -> ROk ([], w)
  | p :: rest ->
    let (targeted, t) = p in
    rbind
      (if targeted
       then add_targeted_event beh t w
       else add_global_event beh rFUEL t w) (fun k w1 ->
      rbind (register_set beh rest w1) (fun r w2 -> ROk ((((targeted, t),
        (fst k)) :: r), w2)))

(** val init_param :
    (hinfo -> logent -> n -> script) -> param -> hconfig -> world -> hconfig
    res **)

let init_param beh p c w =
  match p with
  | PRecvG (tag, m) ->
    rbind (add_global_event beh rFUEL tag w) (fun k w1 -> ROk ({ cf_recv =
      (cfg_set_recv c (RvGlobal k)); cf_access =
      (cfg_set_access c (if m then AcReadWrite else AcRead)); cf_filter =
      c.cf_filter; cf_sg = c.cf_sg; cf_st = c.cf_st; cf_cas = c.cf_cas;
      cf_refs = c.cf_refs; cf_params =
      (app c.cf_params ((RRecvG m) :: [])) }, w1))
  | PRecvT (tag, m, q) ->
    rbind (add_targeted_event beh tag w) (fun k w1 ->
      rbind (resolve_query beh q w1) (fun q' w2 ->
        let a = access_of q' in
        let filt =
          match c.cf_recv with
          | RcNone -> a
          | _ -> ca_and c.cf_filter a
        in
        ROk ({ cf_recv = (cfg_set_recv c (RvTargeted k)); cf_access =
        (cfg_set_access c (if m then AcReadWrite else AcRead)); cf_filter =
        filt; cf_sg = c.cf_sg; cf_st = c.cf_st; cf_cas =
        (app c.cf_cas (a :: [])); cf_refs =
        (fold_left (fun s x -> sinsert x s) (leaves q') c.cf_refs);
        cf_params = (app c.cf_params ((RRecvT (m, q', [])) :: [])) }, w2)))
  | PFetch (k, q) ->
    rbind (resolve_query beh q w) (fun q' w1 -> ROk ({ cf_recv = c.cf_recv;
      cf_access = c.cf_access; cf_filter = c.cf_filter; cf_sg = c.cf_sg;
      cf_st = c.cf_st; cf_cas = (app c.cf_cas ((access_of q') :: []));
      cf_refs = (fold_left (fun s x -> sinsert x s) (leaves q') c.cf_refs);
      cf_params = (app c.cf_params ((RFetch (k, q', [])) :: [])) }, w1))
  | PSender evs ->
    rbind (register_set beh evs w) (fun r w1 ->
      let g =
        flat_map (fun x ->
          if fst (fst x) then [] else ((snd (fst x)), (snd x)) :: []) r
      in
      let t =
        flat_map (fun x ->
          if fst (fst x) then ((snd (fst x)), (snd x)) :: [] else []) r
      in
      ROk ({ cf_recv = c.cf_recv; cf_access = c.cf_access; cf_filter =
      c.cf_filter; cf_sg =
      (fold_left (fun s x -> sinsert (snd x) s) g c.cf_sg); cf_st =
      (fold_left (fun s x -> sinsert (snd x) s) t c.cf_st); cf_cas =
      c.cf_cas; cf_refs = c.cf_refs; cf_params =
      (app c.cf_params ((RSender (g, t)) :: [])) }, w1))

(** val init_params :
    (hinfo -> logent -> n -> script) -> param list -> hconfig -> world ->
    hconfig res **)

let rec init_params beh ps c w =
  match ps with
  | [] -> ROk (c, w)
  | p :: t ->
    rbind (init_param beh p c w) (fun c1 w1 -> init_params beh t c1 w1)

(** val pair_conflicts : ca list -> n list **)

let rec pair_conflicts = function
| [] -> []
| a :: t ->
  app (ca_conflicts a)
    (app (flat_map (fun b -> ca_conflicts (ca_and a b)) t) (pair_conflicts t))

(** val handler_conflicts : ca list -> n list **)

let handler_conflicts cas =
  app (ca_conflicts (fold_left ca_and cas ca_true)) (pair_conflicts cas)

type hshape = { sh_params : param list; sh_prio : prio; sh_tid : n option;
                sh_script : script }

(** val add_handler :
    (hinfo -> logent -> n -> script) -> hshape -> world -> key res **)

let add_handler beh sh w =
  match match sh.sh_tid with
        | Some t -> alookup t w.w_hby
        | None -> None with
  | Some k -> ROk (k, w)
  | None ->
    rbind (init_params beh sh.sh_params cfg0 w) (fun c w1 ->
      match c.cf_recv with
      | RcOk rv ->
        (match c.cf_access with
         | Some acc ->
           (match handler_conflicts c.cf_cas with
            | [] ->
              let disj = fold_left ca_or c.cf_cas ca_false in
              let order = w1.w_hctr in
              (match insert_with (fun k -> { h_key = k; h_order = order;
                       h_tid = sh.sh_tid; h_recv = rv; h_recv_mut =
                       (match acc with
                        | AcReadWrite -> true
                        | _ -> false); h_filter = c.cf_filter; h_sent_g =
                       c.cf_sg; h_sent_t = c.cf_st; h_archfilter = disj;
                       h_refcomps = c.cf_refs; h_prio = sh.sh_prio;
                       h_params = c.cf_params; h_script = sh.sh_script })
                       w1.w_hs with
               | Some p ->
                 let (k, hs) = p in
                 let gl =
                   match rv with
                   | RvGlobal ek ->
                     let gl0 =
                       nrepeat_to w1.w_glists (add (N.to_nat (fst ek)) (S O))
                         hl_new
                     in
                     (match nget gl0 (fst ek) with
                      | Some l -> nset gl0 (fst ek) (hl_insert l k sh.sh_prio)
                      | None -> gl0)
                   | RvTargeted _ -> w1.w_glists
                 in
                 let hby =
                   match sh.sh_tid with
                   | Some t -> ainsert t k w1.w_hby
                   | None -> w1.w_hby
                 in
                 let w2 =
                   set_hreg w1 hs gl hby (N.add order (Npos XH))
                     (app w1.w_horder ((order, k) :: []))
                 in
                 let w3 = archs_register_handler w2 k in
                 rbind
                   (send_global beh rFUEL g_ADDH { ev_ser = N0; ev_val = N0;
                     ev_id = k } w3) (fun _ w4 -> ROk (k, w4))
               | None -> RFail ((FPanic (Npos (XI (XO XH)))), w1))
            | _ :: _ -> RFail ((FPanic (Npos XH)), w1))
         | None -> RFail ((FPanic (Npos XH)), w1))
      | _ -> RFail ((FPanic (Npos XH)), w1))

(** val handlers_remove : world -> key -> (hinfo * world) option **)

let handlers_remove w k =
  match sm_remove k w.w_hs with
  | Some p ->
    let (h, hs) = p in
    let gl =
      match h.h_recv with
      | RvGlobal ek ->
        (match nget w.w_glists (fst ek) with
         | Some l -> nset w.w_glists (fst ek) (hl_remove key_eqb l k)
         | None -> w.w_glists)
      | RvTargeted _ -> w.w_glists
    in
    let hby = match h.h_tid with
              | Some t -> aremove t w.w_hby
              | None -> w.w_hby
    in
    Some (h,
    (set_hreg w hs gl hby w.w_hctr
      (filter (fun p0 -> negb (N.eqb (fst p0) h.h_order)) w.w_horder)))
  | None -> None

(** val remove_handler :
    (hinfo -> logent -> n -> script) -> key -> world -> bool res **)

let remove_handler beh k w =
  match sm_get k w.w_hs with
  | Some _ ->
    rbind
      (send_global beh rFUEL g_RMH { ev_ser = N0; ev_val = N0; ev_id = k } w)
      (fun _ w1 ->
      match handlers_remove w1 k with
      | Some p -> let (h, w2) = p in ROk (true, (archs_remove_handler w2 h))
      | None -> RFail ((FPanic (Npos (XI (XI XH)))), w1))
  | None -> ROk (false, w)

(** val remove_handlers :
    (hinfo -> logent -> n -> script) -> key list -> world -> unit res **)

let rec remove_handlers beh ks w =
  match ks with
  | [] -> ROk ((), w)
  | k :: t ->
    rbind (remove_handler beh k w) (fun _ w1 -> remove_handlers beh t w1)

(** val handlers_in_order : world -> hinfo list **)

let handlers_in_order w =
  flat_map (fun p ->
    match sm_get (snd p) w.w_hs with
    | Some h -> h :: []
    | None -> []) w.w_horder

(** val remove_targeted_event :
    (hinfo -> logent -> n -> script) -> key -> world -> bool res **)

let remove_targeted_event beh k w =
  match sm_get k w.w_tev with
  | Some _ ->
    rbind
      (send_global beh rFUEL g_RMTE { ev_ser = N0; ev_val = N0; ev_id = k } w)
      (fun _ w1 ->
      let to_remove =
        map (fun h -> h.h_key)
          (filter (fun h ->
            (||) (recvid_eqb h.h_recv (RvTargeted k))
              (smem (fst k) h.h_sent_t)) (handlers_in_order w1))
      in
      rbind (remove_handlers beh to_remove w1) (fun _ w2 ->
        match sm_remove k w2.w_tev with
        | Some p ->
          let (info, m) = p in
          let w3 = set_tev w2 m (aremove info.e_tag w2.w_tby) in
          let w4 =
            match info.e_kind with
            | KInsert c ->
              set_comps w3
                (upd_by_index w3.w_comps c (fun ci -> { c_tag = ci.c_tag;
                  c_member_of = ci.c_member_of; c_ins =
                  (filter (fun x -> negb (key_eqb x k)) ci.c_ins); c_rem =
                  ci.c_rem })) w3.w_cby
            | KRemove c ->
              set_comps w3
                (upd_by_index w3.w_comps c (fun ci -> { c_tag = ci.c_tag;
                  c_member_of = ci.c_member_of; c_ins = ci.c_ins; c_rem =
                  (filter (fun x -> negb (key_eqb x k)) ci.c_rem) })) w3.w_cby
            | _ -> w3
          in
          ROk (true, w4)
        | None -> RFail ((FPanic (Npos (XI (XI XH)))), w2)))
  | None -> ROk (false, w)

(** val remove_global_event :
    (hinfo -> logent -> n -> script) -> key -> world -> bool res **)

let remove_global_event beh k w =
  match sm_get k w.w_gev with
  | Some _ ->
    rbind
      (send_global beh rFUEL g_RMGE { ev_ser = N0; ev_val = N0; ev_id = k } w)
      (fun _ w1 ->
      let to_remove =
        map (fun h -> h.h_key)
          (filter (fun h ->
            (||) (recvid_eqb h.h_recv (RvGlobal k)) (smem (fst k) h.h_sent_g))
            (handlers_in_order w1))
      in
      rbind (remove_handlers beh to_remove w1) (fun _ w2 ->
        match sm_remove k w2.w_gev with
        | Some p ->
          let (info, m) = p in
          ROk (true, (set_gev w2 m (aremove info.e_tag w2.w_gby)))
        | None -> RFail ((FPanic (Npos (XI (XI XH)))), w2)))
  | None -> ROk (false, w)

(** val remove_tevents :
    (hinfo -> logent -> n -> script) -> key list -> world -> unit res **)

let rec remove_tevents beh ks w =
  match ks with
  | [] -> ROk ((), w)
  | k :: t ->
    rbind (remove_targeted_event beh k w) (fun _ w1 ->
      remove_tevents beh t w1)

(** val swap_remove_val : n -> n list -> n list **)

let swap_remove_val x l =
  match nposition (N.eqb x) l with
  | Some i -> swap_remove l i
  | None -> l

(** val archs_remove_component : world -> n -> n -> n list -> world **)

let archs_remove_component w cidx ctag member_of =
  let w1 =
    fold_left (fun w' ai ->
      match slab_get w'.w_archs ai with
      | Some a ->
        let w1 = set_archs w' (slab_remove w'.w_archs ai) in
        let w2 = notify_remove_with w1 ai a in
        let w3 =
          set_comps w2
            (fold_left (fun m c ->
              if N.eqb c cidx
              then m
              else upd_by_index m c (fun ci -> { c_tag = ci.c_tag;
                     c_member_of = (swap_remove_val ai ci.c_member_of);
                     c_ins = ci.c_ins; c_rem = ci.c_rem })) a.a_comps
              w2.w_comps) w2.w_cby
        in
        let w4 =
          set_aidx w3
            (filter (fun p -> negb (list_eqb N.eqb (fst p) a.a_comps))
              w3.w_aby) w3.w_auid
        in
        let w5 =
          fold_left (fun w'' pat ->
            let (_, vals) = pat in
            fold_left (fun w3' pat0 ->
              let (c, v) = pat0 in
              drop_cval w3' (if N.eqb c cidx then ctag else comp_tag w3' c) v)
              (combine a.a_comps vals) w'') a.a_rows w4
        in
        fold_left (fun w'' pat ->
          let (e, _) = pat in
          (match sm_remove e w''.w_ents with
           | Some p -> let (_, m) = p in set_ents w'' m
           | None -> w'')) a.a_rows w5
      | None -> w') member_of w
  in
  set_archs w1 { sl_entries =
    (map (fun e ->
      match e with
      | SOcc a ->
        SOcc (set_edges a (aremove cidx a.a_ins) (aremove cidx a.a_rem))
      | SVac n0 -> SVac n0) w1.w_archs.sl_entries); sl_next =
    w1.w_archs.sl_next }

(** val remove_component :
    (hinfo -> logent -> n -> script) -> key -> world -> bool res **)

let remove_component beh k w =
  match sm_get k w.w_comps with
  | Some _ ->
    rbind
      (send_global beh rFUEL g_RMC { ev_ser = N0; ev_val = N0; ev_id = k } w)
      (fun _ w1 ->
      rbind (add_targeted_event beh t_DESPAWN w1) (fun dk w2 ->
        let q =
          flat_map (fun pat ->
            let (_, a) = pat in
            if arch_has a (fst k)
            then map (fun pat0 ->
                   let (e, _) = pat0 in
                   { qi_targeted = true; qi_idx = (fst dk); qi_target = e;
                   qi_ev = { ev_ser = N0; ev_val = N0; ev_id = kEY_NULL } })
                   a.a_rows
            else []) (slab_iter w2.w_archs)
        in
        rbind (flush0 beh q w2) (fun _ w3 ->
          let hs =
            map (fun h -> h.h_key)
              (filter (fun h -> smem (fst k) h.h_refcomps)
                (handlers_in_order w3))
          in
          rbind (remove_handlers beh hs w3) (fun _ w4 ->
            match sm_get k w4.w_comps with
            | Some ci ->
              rbind (remove_tevents beh (app ci.c_ins ci.c_rem) w4)
                (fun _ w5 ->
                match sm_remove k w5.w_comps with
                | Some p ->
                  let (ci', m) = p in
                  let w6 = set_comps w5 m (aremove ci'.c_tag w5.w_cby) in
                  let w7 =
                    archs_remove_component w6 (fst k) ci'.c_tag
                      ci'.c_member_of
                  in
                  ROk (true, (refresh_cursor w7))
                | None -> RFail ((FPanic (Npos (XI (XI XH)))), w5))
            | None -> RFail ((FPanic (Npos (XO (XO XH)))), w4)))))
  | None -> ROk (false, w)

(** val op_spawn : (hinfo -> logent -> n -> script) -> world -> key res **)

let op_spawn beh w =
  rbind (reserve w) (fun id w1 ->
    rbind
      (send_global beh rFUEL g_SPAWN { ev_ser = N0; ev_val = N0; ev_id = id }
        w1) (fun _ w2 -> ROk (id, (push_known w2 id))))

(** val op_insert :
    (hinfo -> logent -> n -> script) -> key -> n -> world -> unit res **)

let op_insert beh e ktag w =
  let (v, w1) = new_cval w ktag in
  send_to beh (t_INSERT ktag) e { ev_ser = (fst v); ev_val = (snd v); ev_id =
    kEY_NULL } w1

(** val op_remove :
    (hinfo -> logent -> n -> script) -> key -> n -> world -> unit res **)

let op_remove beh e ktag w =
  send_to beh (t_REMOVE ktag) e { ev_ser = N0; ev_val = N0; ev_id =
    kEY_NULL } w

(** val op_despawn :
    (hinfo -> logent -> n -> script) -> key -> world -> unit res **)

let op_despawn beh e w =
  send_to beh t_DESPAWN e { ev_ser = N0; ev_val = N0; ev_id = kEY_NULL } w

(** val op_send :
    (hinfo -> logent -> n -> script) -> n -> world -> unit res **)

let op_send beh gtag w =
  let (s, w1) = fresh_serial w in
  send_global beh rFUEL gtag { ev_ser = s; ev_val = s; ev_id = kEY_NULL } w1

(** val op_send_to :
    (hinfo -> logent -> n -> script) -> key -> n -> world -> unit res **)

let op_send_to beh e ttag w =
  let (s, w1) = fresh_serial w in
  send_to beh ttag e { ev_ser = s; ev_val = s; ev_id = kEY_NULL } w1

(** val op_get : key -> n -> world -> (fail, cval option) sum **)

let op_get e ktag w =
  match sm_get e w.w_ents with
  | Some loc ->
    (match alookup ktag w.w_cby with
     | Some ck ->
       (match slab_get w.w_archs (fst loc) with
        | Some a ->
          (match col_index a.a_comps (fst ck) with
           | Some ci ->
             (match nget a.a_rows (snd loc) with
              | Some p ->
                let (_, vals) = p in
                (match nget vals ci with
                 | Some v -> Inr (Some v)
                 | None ->
                   Inl (FUB (Npos (XI (XO (XO (XO (XI (XO (XO (XO XH)))))))))))
              | None ->
                Inl (FUB (Npos (XI (XO (XO (XO (XI (XO (XO (XO XH)))))))))))
           | None -> Inr None)
        | None -> Inl (FUB (Npos (XO (XO (XI (XI (XO (XO (XO (XO XH)))))))))))
     | None -> Inr None)
  | None -> Inr None

(** val op_drop : world -> world **)

let op_drop w =
  fold_left (fun w' pat ->
    let (_, a) = pat in
    fold_left (fun w'' pat0 ->
      let (_, vals) = pat0 in
      fold_left (fun w3 pat1 ->
        let (c, v) = pat1 in drop_cval w3 (comp_tag w3 c) v)
        (combine a.a_comps vals) w'') a.a_rows w') (slab_iter w.w_archs) w

(** val empty_arch : arch **)

let empty_arch =
  { a_uid = N0; a_comps = []; a_rows = []; a_cap = N0; a_epoch = N0; a_ins =
    []; a_rem = []; a_refresh = []; a_listeners = [] }

(** val hst0 : n -> n -> hst **)

let hst0 fuel panic_at =
  { k_ids = []; k_fuel = fuel; k_serial = (Npos XH); k_inv = N0; k_panic_at =
    panic_at; k_log = [] }

(** val world0 : n -> n -> world **)

let world0 fuel panic_at =
  { w_ents = sm_empty; w_rcur = N0; w_rcnt = N0; w_comps = sm_empty; w_cby =
    []; w_gev = sm_empty; w_gby = []; w_tev = sm_empty; w_tby = []; w_hs =
    sm_empty; w_glists = []; w_hby = []; w_hctr = N0; w_horder = [];
    w_archs = { sl_entries = ((SOcc empty_arch) :: []); sl_next = (Npos
    XH) }; w_aby = (([], N0) :: []); w_auid = (Npos XH); w_drops = [];
    w_resets = N0; w_notes = []; w_h = (hst0 fuel panic_at) }

(** val script_beh : hinfo -> logent -> n -> script **)

let script_beh h _ _ =
  h.h_script
