(* driver.ml : runs the extracted model on an op script (one op per line) and prints one
   canonical observation block per op.  The Rust harness prints the same blocks from the real
   World; the two outputs are diffed.  No model logic lives here: only parsing and printing. *)
open Model

let rec pos_of_int i = if i = 1 then XH else if i land 1 = 0 then XO (pos_of_int (i lsr 1)) else XI (pos_of_int (i lsr 1))
let n_of_int i = if i = 0 then N0 else Npos (pos_of_int i)
let rec int_of_pos = function XH -> 1 | XO p -> 2 * int_of_pos p | XI p -> 2 * int_of_pos p + 1
let int_of_n = function N0 -> 0 | Npos p -> int_of_pos p
let ni = n_of_int and inn = int_of_n

let skey (k : key) = Printf.sprintf "%dv%d" (inn (fst k)) (inn (snd k))
let scval (v : cval) = Printf.sprintf "%d:%d" (inn (fst v)) (inn (snd v))

let rec sitem (it : item) : string = match it with
  | IVal (_, _, v) -> scval v
  | ITuple l -> "(" ^ String.concat "," (List.map sitem l) ^ ")"
  | ISome i -> "S[" ^ sitem i ^ "]"
  | INone -> "N"
  | ILeft i -> "L[" ^ sitem i ^ "]"
  | IRight i -> "R[" ^ sitem i ^ "]"
  | IBoth (i, j) -> "B[" ^ sitem i ^ ";" ^ sitem j ^ "]"
  | IXLeft i -> "XL[" ^ sitem i ^ "]"
  | IXRight i -> "XR[" ^ sitem i ^ "]"
  | INot -> "!"
  | IWith -> "W"
  | IHas b -> if b then "H1" else "H0"
  | IEid e -> "e" ^ skey e
  | IBad -> "BAD"

(* ---------- parsing ---------- *)
let toks : string list ref = ref []
let next () = match !toks with [] -> failwith "unexpected end of op" | t :: r -> toks := r; t
let next_int () = int_of_string (next ())
let rest s k = String.sub s k (String.length s - k)

let rec parse_query () : query =
  let t = next () in
  match t.[0] with
  | 'r' -> QRef (ni (int_of_string (rest t 1)))
  | 'm' -> QMut (ni (int_of_string (rest t 1)))
  | 't' -> let n = int_of_string (rest t 1) in
           let rec go k = if k = 0 then [] else let q = parse_query () in q :: go (k - 1) in QTuple (go n)
  | 'o' -> QOpt (parse_query ())
  | '|' -> let l = parse_query () in let r = parse_query () in QOr (l, r)
  | 'x' -> let l = parse_query () in let r = parse_query () in QXor (l, r)
  | '!' -> QNot (parse_query ())
  | 'w' -> QWith (parse_query ())
  | 'h' -> QHas (parse_query ())
  | 'e' -> QEid
  | _ -> failwith ("bad query token " ^ t)

let parse_list () = let n = next_int () in let rec go k = if k = 0 then [] else let x = ni (next_int ()) in x :: go (k - 1) in go n

let parse_param () : param =
  let t = next () in
  match t.[0] with
  | 'G' -> let m = t.[String.length t - 1] = 'm' in PRecvG (ni (int_of_string (String.sub t 1 (String.length t - 2))), m)
  | 'T' -> let m = t.[String.length t - 1] = 'm' in
           let tag = ni (int_of_string (String.sub t 1 (String.length t - 2))) in
           PRecvT (tag, m, parse_query ())
  | 'F' -> PFetch (FkFetcher, parse_query ())
  | 'S' -> PFetch (FkSingle, parse_query ())
  | 'Y' -> PFetch (FkTrySingle, parse_query ())
  | 'N' -> let n = next_int () in
           let rec go k = if k = 0 then [] else
             let s = next () in let x = (s.[0] = 't', ni (int_of_string (rest s 1))) in x :: go (k - 1) in
           PSender (go n)
  | _ -> failwith ("bad param token " ^ t)

let parse_tgt s = match s.[0] with
  | 'T' -> TTarget | 'K' -> TKnown (ni (int_of_string (rest s 1))) | 'F' -> TFresh (ni (int_of_string (rest s 1)))
  | _ -> failwith ("bad tgt " ^ s)
let parse_act () : act =
  let t = next () in
  let two s = match String.split_on_char ':' s with [a; b] -> (a, b) | _ -> failwith ("bad act " ^ t) in
  match String.sub t 0 2 with
  | "sg" -> ASend (ni (int_of_string (rest t 2)))
  | "st" -> let (a, b) = two (rest t 2) in ASendTo (parse_tgt a, ni (int_of_string b))
  | "sp" -> ASpawn
  | "in" -> let (a, b) = two (rest t 2) in AInsert (parse_tgt a, ni (int_of_string b))
  | "rm" -> let (a, b) = two (rest t 2) in ARemove (parse_tgt a, ni (int_of_string b))
  | "de" -> ADespawn (parse_tgt (rest t 2))
  | _ -> failwith ("bad act " ^ t)

(* ---------- state ---------- *)
let w : world ref = ref (world0 (ni 64) N0)
let hids : key list ref = ref []
let cids : key list ref = ref []
let geids : key list ref = ref []
let teids : key list ref = ref []
let log_pos = ref 0
let drop_pos = ref 0

let nth_mod (l : key list) (i : int) : key option =
  let n = List.length l in if n = 0 then None else Some (List.nth l (i mod n))
let ent i = match nth_mod (!w).w_h.k_ids i with Some k -> k | None -> kEY_NULL
let push_unique r k = if List.exists (fun x -> key_eqb x k) !r then () else r := !r @ [k]

let sfail = function FPanic k -> Printf.sprintf "panic %d" (inn k) | FUB s -> Printf.sprintf "ub %d" (inn s)

let beh = script_beh

let dropped = ref false
let resets_base = ref 0
let print_state () =
  let wd = !w in
  (* L: invocation log since the last op *)
  let log = wd.w_h.k_log in
  List.iteri (fun i le ->
    if i >= !log_pos then begin
      let views = List.map (fun (code, items) ->
        let strs = List.sort compare (List.map sitem items) in
        Printf.sprintf "%d#%d{%s}" (inn code) (List.length items) (String.concat " " strs)) le.lg_views in
      Printf.printf "L %s rs=%d %s%d %d:%d id=%s tgt=%s recv=[%s] views=[%s]\n"
        (skey le.lg_handler) (inn le.lg_resets - !resets_base) (if le.lg_targeted then "t" else "g") (inn le.lg_tag)
        (inn le.lg_ev.ev_ser) (inn le.lg_ev.ev_val) (skey le.lg_ev.ev_id) (skey le.lg_target)
        (String.concat " " (List.map sitem le.lg_recv_item)) (String.concat " " views)
    end) log;
  log_pos := List.length log;
  (* D: drops since the last op, sorted *)
  let drops = wd.w_drops in
  let fresh = List.filteri (fun i _ -> i >= !drop_pos) drops in
  drop_pos := List.length drops;
  let ds = List.sort compare (List.map (fun (c, s) -> (inn c, inn s)) fresh) in
  Printf.printf "D %s\n" (String.concat " " (List.map (fun (c, s) -> Printf.sprintf "%d:%d" c s) ds));
  if !dropped then () else
  (* M: get matrix; E: liveness *)
  let ids = wd.w_h.k_ids in
  List.iter (fun e ->
    let cells = List.map (fun k -> match op_get e (ni k) wd with
      | Inr (Some v) -> scval v | Inr None -> "-" | Inl f -> "!" ^ sfail f) [0; 1; 2; 3; 4; 5; 6; 7; 8; 9] in
    Printf.printf "M %s %s\n" (skey e) (String.concat " " cells)) ids;
  let bits l f = String.concat "" (List.map (fun k -> if f k then "1" else "0") l) in
  Printf.printf "E len=%d alive=%s\n" (inn wd.w_ents.sm_len) (bits ids (fun k -> sm_get k wd.w_ents <> None));
  Printf.printf "I h=%s c=%s ge=%s te=%s\n"
    (bits !hids (fun k -> sm_get k wd.w_hs <> None)) (bits !cids (fun k -> sm_get k wd.w_comps <> None))
    (bits !geids (fun k -> sm_get k wd.w_gev <> None)) (bits !teids (fun k -> sm_get k wd.w_tev <> None))

let snapshot () =
  let wd = !w in
  let sl l f = "[" ^ String.concat "," (List.map f l) ^ "]" in
  let sn x = string_of_int (inn x) in
  let shl (l : key hlist) = Printf.sprintf "%d:%d:%s" (inn l.hl_before) (inn l.hl_after) (sl l.hl_entries skey) in
  Printf.printf "S ents=%s nf=%d rc=%d rn=%d nki=%d\n"
    (sl wd.w_ents.slots (fun s -> match s.val0 with
        | Some (a, r) -> Printf.sprintf "%d@%d.%d" (inn s.gen) (inn a) (inn r)
        | None -> Printf.sprintf "%d>%d" (inn s.gen) (if inn s.gen = 0 then 0 else inn s.link)))
    (inn wd.w_ents.next_free) (inn wd.w_rcur) (inn wd.w_rcnt) (inn (next_key_iter wd.w_ents));
  List.iter (fun (ai, a) ->
    Printf.printf "S arch %d comps=%s ids=%s cap=%d ins=%s rem=%s refresh=%s listeners=%s\n" (inn ai)
      (sl a.a_comps sn) (sl a.a_rows (fun (e, _) -> skey e)) (inn a.a_cap)
      (sl a.a_ins (fun (c, d) -> sn c ^ ">" ^ sn d)) (sl a.a_rem (fun (c, d) -> sn c ^ ">" ^ sn d))
      (sl a.a_refresh skey)
      (sl (List.filter (fun (_, l) -> true) a.a_listeners) (fun (ev, l) -> sn ev ^ "=" ^ shl l)))
    (slab_iter wd.w_archs);
  Printf.printf "S byc=%s\n" (sl (List.sort compare (List.map (fun (cs, ai) -> (List.map inn cs, inn ai)) wd.w_aby))
                                 (fun (cs, ai) -> sl cs string_of_int ^ ">" ^ string_of_int ai));
  Printf.printf "S glists=%s order=%s\n" (sl wd.w_glists shl) (sl wd.w_horder (fun (o, k) -> sn o ^ "=" ^ skey k));
  Printf.printf "S comps=%s\n"
    (sl (List.filter_map (fun x -> x) (List.mapi (fun i s -> match s.val0 with
        | Some ci -> Some (Printf.sprintf "%d:%s:%s:%s" i (sl (List.sort compare (List.map inn ci.c_member_of)) string_of_int)
                             (sl ci.c_ins skey) (sl ci.c_rem skey))
        | None -> None) wd.w_comps.slots)) (fun x -> x))

let result_unit = function ROk (_, w') -> w := w'; print_string "R ok\n" | RFail (f, w') -> w := w'; Printf.printf "R %s\n" (sfail f)

let run_op (line : string) =
  toks := List.filter (fun s -> s <> "") (String.split_on_char ' ' line);
  let op = next () in
  resets_base := inn (!w).w_resets;
  (match op with
   | "spawn" -> (match op_spawn beh !w with
                 | ROk (k, w') -> w := w'; Printf.printf "R id %s\n" (skey k)
                 | RFail (f, w') -> w := w'; Printf.printf "R %s\n" (sfail f))
   | "spawnmany" -> let n = next_int () in
       let rec go k = if k = 0 then print_string "R ok\n" else
         (match op_spawn beh !w with
          | ROk (_, w') -> w := w'; go (k - 1)
          | RFail (f, w') -> w := w'; Printf.printf "R %s\n" (sfail f)) in go n
   | "despawnall" ->
       let rec go l = match l with
         | [] -> print_string "R ok\n"
         | e :: t -> (match op_despawn beh e !w with
                      | ROk (_, w') -> w := w'; go t
                      | RFail (f, w') -> w := w'; Printf.printf "R %s\n" (sfail f)) in go (!w).w_h.k_ids
   | "insert" -> let i = next_int () in let k = next_int () in result_unit (op_insert beh (ent i) (ni k) !w)
   | "remove" -> let i = next_int () in let k = next_int () in result_unit (op_remove beh (ent i) (ni k) !w)
   | "despawn" -> let i = next_int () in result_unit (op_despawn beh (ent i) !w)
   | "send" -> let g = next_int () in result_unit (op_send beh (ni g) !w)
   | "sendto" -> let i = next_int () in let t = next_int () in result_unit (op_send_to beh (ent i) (ni t) !w)
   | "addh" ->
       let pr = (match next () with "H" -> High | "M" -> Medium | _ -> Low) in
       let tid = (match next () with "-" -> None | s -> Some (ni (int_of_string s))) in
       let take = next_int () = 1 in
       let evd = ni (next_int ()) in
       let wd = ni (next_int ()) in
       let np = next_int () in
       let rec gop k = if k = 0 then [] else let p = parse_param () in p :: gop (k - 1) in
       let ps = gop np in
       let na = next_int () in
       let rec goa k = if k = 0 then [] else let a = parse_act () in a :: goa (k - 1) in
       let acts = goa na in
       let sh = { sh_params = ps; sh_prio = pr; sh_tid = tid;
                  sh_script = { s_take = take; s_evdelta = evd; s_wdelta = wd; s_actions = acts } } in
       (match add_handler beh sh !w with
        | ROk (k, w') -> w := w'; push_unique hids k; Printf.printf "R id %s\n" (skey k)
        | RFail (f, w') -> w := w'; Printf.printf "R %s\n" (sfail f))
   | "rmh" -> let j = next_int () in
       (match nth_mod !hids j with
        | None -> print_string "R skip\n"
        | Some k -> (match remove_handler beh k !w with
                     | ROk (b, w') -> w := w'; Printf.printf "R bool %d\n" (if b then 1 else 0)
                     | RFail (f, w') -> w := w'; Printf.printf "R %s\n" (sfail f)))
   | "addc" -> let k = next_int () in
       (match add_component beh (ni k) !w with
        | ROk (id, w') -> w := w'; push_unique cids id; Printf.printf "R id %s\n" (skey id)
        | RFail (f, w') -> w := w'; Printf.printf "R %s\n" (sfail f))
   | "rmc" -> let j = next_int () in
       (match nth_mod !cids j with
        | None -> print_string "R skip\n"
        | Some k -> (match remove_component beh k !w with
                     | ROk (b, w') -> w := w'; Printf.printf "R bool %d\n" (if b then 1 else 0)
                     | RFail (f, w') -> w := w'; Printf.printf "R %s\n" (sfail f)))
   | "addge" -> let g = next_int () in
       (match add_global_event beh rFUEL (ni g) !w with
        | ROk (id, w') -> w := w'; push_unique geids id; Printf.printf "R id %s\n" (skey id)
        | RFail (f, w') -> w := w'; Printf.printf "R %s\n" (sfail f))
   | "addte" -> let t = next_int () in
       (match add_targeted_event beh (ni t) !w with
        | ROk (id, w') -> w := w'; push_unique teids id; Printf.printf "R id %s\n" (skey id)
        | RFail (f, w') -> w := w'; Printf.printf "R %s\n" (sfail f))
   | "addgeu" -> let n = next_int () in
       (match add_global_event beh rFUEL (ni (1000 + n)) !w with
        | ROk (id, w') -> w := w'; push_unique geids id; Printf.printf "R id %s\n" (skey id)
        | RFail (f, w') -> w := w'; Printf.printf "R %s\n" (sfail f))
   | "addteu" -> let n = next_int () in
       (match add_targeted_event beh (ni (1000 + n)) !w with
        | ROk (id, w') -> w := w'; push_unique teids id; Printf.printf "R id %s\n" (skey id)
        | RFail (f, w') -> w := w'; Printf.printf "R %s\n" (sfail f))
   | "addcu" -> let n = next_int () in
       (match add_component beh (ni (1000 + n)) !w with
        | ROk (id, w') -> w := w'; push_unique cids id; Printf.printf "R id %s\n" (skey id)
        | RFail (f, w') -> w := w'; Printf.printf "R %s\n" (sfail f))
   | "rmge" -> let j = next_int () in
       (match nth_mod !geids j with
        | None -> print_string "R skip\n"
        | Some k -> (match remove_global_event beh k !w with
                     | ROk (b, w') -> w := w'; Printf.printf "R bool %d\n" (if b then 1 else 0)
                     | RFail (f, w') -> w := w'; Printf.printf "R %s\n" (sfail f)))
   | "rmte" -> let j = next_int () in
       (match nth_mod !teids j with
        | None -> print_string "R skip\n"
        | Some k -> (match remove_targeted_event beh k !w with
                     | ROk (b, w') -> w := w'; Printf.printf "R bool %d\n" (if b then 1 else 0)
                     | RFail (f, w') -> w := w'; Printf.printf "R %s\n" (sfail f)))
   | "fuel" -> let n = next_int () in
       let h = (!w).w_h in w := set_h !w (set_hst_fields h h.k_ids (ni n) h.k_serial h.k_inv h.k_log); print_string "R ok\n"
   | "panicat" -> let n = next_int () in
       let h = (!w).w_h in
       w := set_h !w { h with k_panic_at = (if n = 0 then N0 else ni (inn h.k_inv + n)) }; print_string "R ok\n"
   | "drop" -> w := op_drop !w; dropped := true; print_string "R ok\n"
   | _ -> failwith ("unknown op " ^ op));
  print_state ()

(* ---------- unit mode: the slot map alone (same op language and output as `h_units slotmap`) ---------- *)
let run_slotmap file =
  let ic = open_in file in
  let sm : int smap ref = ref sm_empty and nk = ref N0 and issued : (int * int) list ref = ref [] in
  let mk i g : key = (ni i, ni g) in
  let sopt = function None -> "None" | Some v -> Printf.sprintf "Some(%d)" v in
  let kstr = function None -> "none" | Some (k : key) -> skey k in
  let nth_issued j = let l = List.rev !issued in List.nth l (j mod List.length l) in
  let remove i g = if g land 1 = 0 then None else
      (match sm_remove (mk i g) !sm with Some (v, m') -> sm := m'; Some v | None -> None) in
  let get i g = if g land 1 = 0 then None else sm_get (mk i g) !sm in
  let set_generation i g =
    (match sget (!sm).slots (ni i) with
     | Some s when s.val0 <> None && g land 1 = 1 ->
         sm := { !sm with slots = supd (!sm).slots (ni i) { s with gen = ni g } }; true
     | _ -> false) in
  (try while true do
    let line = String.trim (input_line ic) in
    if line = "" || line.[0] = '#' then () else
    if line = "reset" then (sm := sm_empty; nk := N0; issued := []; print_string "RESET\n") else begin
      toks := List.filter (fun s -> s <> "") (String.split_on_char ' ' line);
      let op = next () in
      (match op with
       | "i" -> let v = next_int () in
           (match insert_with (fun _ -> v) !sm with
            | Some (k, m') -> sm := m'; issued := (inn (fst k), inn (snd k)) :: !issued; Printf.printf "i %s\n" (skey k)
            | None -> print_string "i none\n")
       | "r" -> let i = next_int () in let g = next_int () in Printf.printf "r %s\n" (sopt (remove i g))
       | "g" -> let i = next_int () in let g = next_int () in Printf.printf "g %s\n" (sopt (get i g))
       | "ri" | "gi" -> let j = next_int () in
           if !issued = [] then Printf.printf "%s skip\n" op else
           let (i, g) = nth_issued j in
           let r = if op = "ri" then remove i g else get i g in
           Printf.printf "%s %dv%d %s\n" op i g (sopt r)
       | "x" -> let i = next_int () in
           (match get_by_index !sm (ni i) with
            | Some (k, v) -> Printf.printf "x Some((%d, %d, %d))\n" (inn (fst k)) (inn (snd k)) v
            | None -> print_string "x None\n")
       | "s" -> let i = next_int () in let g = next_int () in Printf.printf "s %b\n" (set_generation i g)
       | "si" -> let j = next_int () in let d = next_int () in
           if !issued = [] then print_string "si skip\n" else
           let (i, _) = nth_issued j in
           let g = 4294967295 - 2 * d in
           let cur = (match sget (!sm).slots (ni i) with Some s -> inn s.gen | None -> 0) in
           let ok = g > cur && set_generation i g in
           if ok then issued := (i, g) :: !issued;
           Printf.printf "si %d %d %b\n" i g ok
       | "n" -> nk := next_key_iter !sm; Printf.printf "n %d\n" (inn !nk)
       | "k" -> (match nki_next !nk !sm with
                 | None -> print_string "k panic\n"
                 | Some (ko, i') -> nk := i'; Printf.printf "k %s %d\n" (kstr ko) (inn i'))
       | _ -> failwith ("bad slotmap op " ^ op));
      let slots = List.map (fun s -> match s.val0 with
          | None -> Printf.sprintf "%d>%d" (inn s.gen) (if s.gen = N0 then 0 else inn s.link)
          | Some _ -> string_of_int (inn s.gen)) (!sm).slots in
      Printf.printf "= [%s] nf=%d len=%d\n" (String.concat "," slots) (inn (!sm).next_free) (inn (!sm).sm_len)
    end
  done with End_of_file -> ())

(* ---------- unit mode: the sparse map alone (same op language and output as `h_units sparsemap`) ---------- *)
let run_sparsemap file =
  let ic = open_in file in
  let sp : int spm ref = ref sp_empty in
  let sopt = function None -> "None" | Some v -> Printf.sprintf "Some(%d)" v in
  (try while true do
    let line = String.trim (input_line ic) in
    if line = "" || line.[0] = '#' then () else
    if line = "reset" then (sp := sp_empty; print_string "RESET\n") else begin
      toks := List.filter (fun s -> s <> "") (String.split_on_char ' ' line);
      let op = next () in
      (match op with
       | "i" -> let k = next_int () in let v = next_int () in
           (match sp_insert !sp (ni k) v with
            | Val (old, m') -> sp := m'; Printf.printf "i %s\n" (sopt old)
            | Panic -> print_string "i panic\n"
            | UB l -> Printf.printf "i UB%d\n" (inn l))
       | "r" -> let k = next_int () in
           (match sp_remove !sp (ni k) with
            | Val (old, m') -> sp := m'; Printf.printf "r %s\n" (sopt old)
            | Panic -> print_string "r panic\n"
            | UB l -> Printf.printf "r UB%d\n" (inn l))
       | "g" -> let k = next_int () in
           (match sp_get !sp (ni k) with
            | Val o -> Printf.printf "g %s\n" (sopt o)
            | Panic -> print_string "g panic\n"
            | UB l -> Printf.printf "g UB%d\n" (inn l))
       | "s" -> sp := sp_shrink !sp; print_string "s\n"
       | _ -> failwith ("bad sparsemap op " ^ op));
      let j l = String.concat "," (List.map string_of_int l) in
      Printf.printf "= sparse=[%s] keys=[%s] values=[%s]\n" (j (List.map inn (!sp).sp_sparse)) (j (List.map inn (sp_keys !sp))) (j (sp_values !sp))
    end
  done with End_of_file -> ())

(* ---------- unit mode: the bit set alone (same op language as `h_units bitset`; the implementation also prints the
   elements and len, which the model does not compute: those two fields are checked by the monitor only) ---------- *)
let rec z_of_n (x : n) = inn x
let run_bitset file =
  let ic = open_in file in
  let a : n list ref = ref [] and b : n list ref = ref [] in
  (* blocks are 64-bit: print through OCaml's unsigned conversion *)
  let rec pos_to_u64 = function XH -> 1L | XO p -> Int64.shift_left (pos_to_u64 p) 1 | XI p -> Int64.logor (Int64.shift_left (pos_to_u64 p) 1) 1L in
  let blk = function N0 -> "0" | Npos p -> Printf.sprintf "%Lu" (pos_to_u64 p) in
  let j l = String.concat "," (List.map blk l) in
  (try while true do
    let line = String.trim (input_line ic) in
    if line = "" || line.[0] = '#' then () else
    if line = "reset" then (a := []; b := []; print_string "RESET\n") else begin
      toks := List.filter (fun s -> s <> "") (String.split_on_char ' ' line);
      let op = next () in
      (match op with
       | "ia" -> let i = next_int () in let (r, s') = bs_insert !a (ni i) in a := s'; Printf.printf "ia %b\n" r
       | "ib" -> let i = next_int () in let (r, s') = bs_insert !b (ni i) in b := s'; Printf.printf "ib %b\n" r
       | "ra" -> let i = next_int () in let (r, s') = bs_remove !a (ni i) in a := s'; Printf.printf "ra %b\n" r
       | "ca" -> let i = next_int () in Printf.printf "ca %b\n" (bs_contains !a (ni i))
       | "u" -> a := bs_or !a !b; print_string "u\n"
       | "d" -> Printf.printf "d %b\n" (bs_disjoint !a !b)
       | "e" -> Printf.printf "e %b\n" (bs_is_empty !a)
       | "s" -> a := bs_shrink !a; print_string "s\n"
       | _ -> failwith ("bad bitset op " ^ op));
      Printf.printf "= a=[%s] b=[%s]\n" (j !a) (j !b)
    end
  done with End_of_file -> ())

let () =
  if Array.length Sys.argv > 2 && Sys.argv.(1) = "slotmap" then run_slotmap Sys.argv.(2) else
  if Array.length Sys.argv > 2 && Sys.argv.(1) = "sparsemap" then run_sparsemap Sys.argv.(2) else
  if Array.length Sys.argv > 2 && Sys.argv.(1) = "bitset" then run_bitset Sys.argv.(2) else
  let want_snap = Array.length Sys.argv > 2 && Sys.argv.(2) = "snap" in
  let ic = open_in Sys.argv.(1) in
  let n = ref 0 in
  (try while true do
     let line = String.trim (input_line ic) in
     if line <> "" && line.[0] <> '#' then begin
       if line = "reset" then begin
         dropped := false; w := world0 (ni 64) N0; hids := []; cids := []; geids := []; teids := []; log_pos := 0; drop_pos := 0;
         print_string "RESET\n"
       end else begin
         Printf.printf "OP %d %s\n" !n line;
         incr n;
         run_op line;
         if want_snap && not !dropped then snapshot ()
       end
     end
   done with End_of_file -> ());
  close_in ic
