(* Query.v : model of src/query.rs.
   [access_of] mirrors each combinator's `init` (the ComponentAccess expression it builds),
   [arch_state] mirrors `new_arch_state` (the structural matcher that decides, per archetype,
   whether and with which variant the query matches), [qmatch] is the documented Boolean
   meaning, [qrefs] the references an item hands out. Components are indices ([N]). *)
From Coq Require Import List NArith Bool.
Import ListNotations.
Require Import EV.Base EV.Access.

Inductive query :=
| QRef (c : N)                (* &C *)
| QMut (c : N)                (* &mut C *)
| QTuple (qs : list query)    (* (Q0, Q1, ..) ; QTuple [] = () *)
| QOpt (q : query)            (* Option<Q> *)
| QOr (l r : query)
| QXor (l r : query)
| QNot (q : query)
| QWith (q : query)
| QHas (q : query)
| QEid.                       (* EntityId ; PhantomData behaves the same for matching *)

(* ---- init: the access expression ---- *)
Fixpoint access_of (q : query) : ca :=
  match q with
  | QRef c => ca_var c AcRead
  | QMut c => ca_var c AcReadWrite
  | QTuple qs => fold_left (fun acc q' => ca_and acc (access_of q')) qs ca_true
  | QOpt q' => ca_or ca_true (access_of q')
  | QOr l r => let a := access_of l in let b := access_of r in ca_or (ca_or a b) (ca_and a b)
  | QXor l r => let a := access_of l in let b := access_of r in
                ca_or (ca_and a (ca_not b)) (ca_and b (ca_not a))
  | QNot q' => ca_not (access_of q')
  | QWith q' => ca_clear (access_of q')
  | QHas _ => ca_true
  | QEid => ca_true
  end.

(* components a query registers / references, in `init` order (left to right) *)
Fixpoint leaves (q : query) : list N :=
  match q with
  | QRef c | QMut c => [c]
  | QTuple qs => flat_map leaves qs
  | QOpt q' | QNot q' | QWith q' | QHas q' => leaves q'
  | QOr l r | QXor l r => leaves l ++ leaves r
  | QEid => []
  end.

(* ---- new_arch_state: the structural matcher ---- *)
Inductive astate :=
| ACol (c : N) (mut : bool)
| ATuple (l : list astate)
| ASome (a : astate) | ANone
| ALeft (a : astate) | ARight (a : astate) | ABoth (a b : astate)
| AXLeft (a : astate) | AXRight (a : astate)
| ANot | AWith | AHas (b : bool) | AEid.

(* `Some((Q0::new_arch_state(..)?, Q1::new_arch_state(..)?, ..))` *)
Fixpoint seq_opt {A} (l : list (option A)) : option (list A) :=
  match l with
  | [] => Some []
  | None :: _ => None
  | Some a :: t => match seq_opt t with Some r => Some (a :: r) | None => None end
  end.

Fixpoint arch_state (has : N -> bool) (q : query) : option astate :=
  match q with
  | QRef c => if has c then Some (ACol c false) else None
  | QMut c => if has c then Some (ACol c true) else None
  | QTuple qs => option_map ATuple (seq_opt (map (arch_state has) qs))
  | QOpt q' => Some (match arch_state has q' with Some a => ASome a | None => ANone end)
  | QOr l r => match arch_state has l, arch_state has r with
               | None, None => None
               | None, Some b => Some (ARight b)
               | Some a, None => Some (ALeft a)
               | Some a, Some b => Some (ABoth a b)
               end
  | QXor l r => match arch_state has l, arch_state has r with
                | None, None => None
                | None, Some b => Some (AXRight b)
                | Some a, None => Some (AXLeft a)
                | Some _, Some _ => None
                end
  | QNot q' => match arch_state has q' with Some _ => None | None => Some ANot end
  | QWith q' => match arch_state has q' with Some _ => Some AWith | None => None end
  | QHas q' => Some (AHas (match arch_state has q' with Some _ => true | None => false end))
  | QEid => Some AEid
  end.

(* ---- documented Boolean meaning ---- *)
Fixpoint qmatch (has : N -> bool) (q : query) : bool :=
  match q with
  | QRef c | QMut c => has c
  | QTuple qs => forallb (qmatch has) qs
  | QOpt _ => true
  | QOr l r => qmatch has l || qmatch has r
  | QXor l r => xorb (qmatch has l) (qmatch has r)
  | QNot q' => negb (qmatch has q')
  | QWith q' => qmatch has q'
  | QHas _ => true
  | QEid => true
  end.

(* ---- references handed out by an item: (component, mutable?) in item order ---- *)
Fixpoint arefs (a : astate) : list (N * bool) :=
  match a with
  | ACol c m => [(c, m)]
  | ATuple l => flat_map arefs l
  | ASome a' | ALeft a' | ARight a' | AXLeft a' | AXRight a' => arefs a'
  | ABoth x y => arefs x ++ arefs y
  | ANone | ANot | AWith | AHas _ | AEid => []
  end.
Definition qrefs (has : N -> bool) (q : query) : list (N * bool) :=
  match arch_state has q with Some a => arefs a | None => [] end.

(* ---- items ---- *)
Definition cval := (N * N)%type.     (* (serial, val) *)
Inductive item :=
| IVal (c : N) (m : bool) (v : cval)
| ITuple (l : list item)
| ISome (i : item) | INone
| ILeft (i : item) | IRight (i : item) | IBoth (i j : item)
| IXLeft (i : item) | IXRight (i : item)
| INot | IWith | IHas (b : bool) | IEid (e : key)
| IBad.                               (* unchecked read of a column the row does not have *)

(* [col c] reads column c at the row under consideration *)
Fixpoint aitem (col : N -> option cval) (e : key) (a : astate) : item :=
  match a with
  | ACol c m => match col c with Some v => IVal c m v | None => IBad end
  | ATuple l => ITuple (map (aitem col e) l)
  | ASome a' => ISome (aitem col e a')
  | ANone => INone
  | ALeft a' => ILeft (aitem col e a')
  | ARight a' => IRight (aitem col e a')
  | ABoth x y => IBoth (aitem col e x) (aitem col e y)
  | AXLeft a' => IXLeft (aitem col e a')
  | AXRight a' => IXRight (aitem col e a')
  | ANot => INot
  | AWith => IWith
  | AHas b => IHas b
  | AEid => IEid e
  end.

(* mutable leaves of an item: the (component) cells a handler may write through it *)
Fixpoint amuts (a : astate) : list N :=
  match a with
  | ACol c true => [c]
  | ACol _ false => []
  | ATuple l => flat_map amuts l
  | ASome a' | ALeft a' | ARight a' | AXLeft a' | AXRight a' => amuts a'
  | ABoth x y => amuts x ++ amuts y
  | ANone | ANot | AWith | AHas _ | AEid => []
  end.
