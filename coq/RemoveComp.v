(* RemoveComp.v : Archetypes::remove_component (archetype.rs:147-190 after fix F1) restores the
   whole storage invariant (C14, C17): given a consistent world and a member_of list that names
   exactly the live archetypes containing the removed component,
     - those archetypes disappear with their rows, their entities leave the entity map,
     - by_components forgets exactly their component lists, the slab free list stays a chain,
     - every remaining cached transition leads to a live archetype that differs by its label
       (in particular no transition is labelled with the removed component any more),
     - every other entity keeps every component value. *)
From Coq Require Import List NArith Bool Lia Sorted.
Import ListNotations.
Require Import EV.Base EV.ListN EV.Access EV.Query EV.SlotMap EV.Reserve EV.HList EV.Loop EV.World EV.SlotMapGet
  EV.ArchProofs EV.WorldFrame EV.Store EV.Graph EV.Effects EV.Reach.
Open Scope N_scope.

(* ---------- association lists / find ---------- *)
Lemma find_filter_sub {A} (p q : A -> bool) l : (forall x, p x = true -> q x = true) -> find p (filter q l) = find p l.
Proof.
  intros H. induction l as [|x l IH]; cbn [filter find]; [reflexivity|].
  destruct (q x) eqn:Q; cbn [find]; destruct (p x) eqn:P; auto. rewrite (H x P) in Q. discriminate.
Qed.
Lemma find_filter_none {A} (p q : A -> bool) l : (forall x, p x = true -> q x = false) -> find p (filter q l) = None.
Proof.
  intros H. induction l as [|x l IH]; cbn [filter find]; [reflexivity|].
  destruct (q x) eqn:Q; cbn [find]; [|exact IH]. destruct (p x) eqn:P; [rewrite (H x P) in Q; discriminate|exact IH].
Qed.
Lemma alookup_aremove_neq {V} k c (l : list (N * V)) : c <> k -> alookup c (aremove k l) = alookup c l.
Proof.
  intros Hne. unfold aremove. induction l as [|[k' v] l IH]; cbn [filter alookup fst]; [reflexivity|].
  destruct (k' =? k) eqn:E; cbn [negb alookup].
  - apply N.eqb_eq in E. subst k'. replace (c =? k) with false by (symmetry; now apply N.eqb_neq). exact IH.
  - destruct (c =? k'); [reflexivity|exact IH].
Qed.
Lemma alookup_aremove_eq {V} k (l : list (N * V)) : alookup k (aremove k l) = None.
Proof.
  unfold aremove. induction l as [|[k' v] l IH]; cbn [filter alookup fst]; [reflexivity|].
  destruct (k' =? k) eqn:E; cbn [negb alookup]; [exact IH|]. rewrite N.eqb_sym, E. exact IH.
Qed.

(* ---------- removing a set of live keys from a slot map ---------- *)
Definition remove_keys {V} (ks : list key) (m : smap V) : smap V :=
  fold_left (fun m e => match sm_remove e m with Some (_, m') => m' | None => m end) ks m.

Lemma remove_some {V} (m : smap V) k v : sm_get k m = Some v -> exists m', sm_remove k m = Some (v, m').
Proof.
  intros H. destruct (sm_get_some_inv _ _ _ H) as (s & Hs & Hg & Hv). unfold sm_remove. rewrite Hs, Hg, N.eqb_refl, Hv.
  destruct (wrap_succ (snd k) =? 0); eauto.
Qed.

Lemma remove_keys_spec {V} (ks : list key) : forall (m : smap V), SmInv m -> NoDup ks -> (forall k, In k ks -> sm_get k m <> None) ->
  SmInv (remove_keys ks m) /\ (forall k, In k ks -> sm_get k (remove_keys ks m) = None) /\
  (forall k, ~ In k ks -> sm_get k (remove_keys ks m) = sm_get k m).
Proof.
  induction ks as [|e ks IH]; intros m Hi Hnd Hlive; cbn [remove_keys fold_left]; [split; [exact Hi|split; [intros k []|reflexivity]]|].
  inversion Hnd as [|? ? Hne Hnd']; subst.
  destruct (sm_get e m) as [v|] eqn:Hg; [|exfalso; apply (Hlive e); [now left|exact Hg]].
  destruct (remove_some m e v Hg) as (m' & Hr). rewrite Hr.
  assert (Hi' : SmInv m') by (eapply remove_inv; eauto).
  assert (Hlive' : forall k, In k ks -> sm_get k m' <> None).
  { intros k Hk. rewrite (remove_get_other e m v m' k Hi Hr) by (intros ->; contradiction). apply Hlive. now right. }
  destruct (IH m' Hi' Hnd' Hlive') as (A & B & C). fold (remove_keys ks m'). split; [exact A|]. split.
  - intros k [<-|Hk]; [|now apply B]. rewrite C by exact Hne. exact (remove_get_gone e m v m' Hi Hr).
  - intros k Hk. rewrite C by (intros X; apply Hk; now right). apply (remove_get_other e m v m' k Hi Hr). intros ->. apply Hk. now left.
Qed.

(* ---------- one step of the loop: removing archetype [ai] ---------- *)
Section Step.
Variables (cidx ctag : N).

Definition rc_step (w' : world) (ai : N) : world :=
  match slab_get (w_archs w') ai with
  | None => w'
  | Some a =>
      let w1 := set_archs w' (slab_remove (w_archs w') ai) in
      let w2 := notify_remove_with w1 ai a in
      let w3 := set_comps w2 (fold_left (fun m c => if c =? cidx then m else
                   upd_by_index m c (fun ci => mkC (c_tag ci) (swap_remove_val ai (c_member_of ci)) (c_ins ci) (c_rem ci)))
                   (a_comps a) (w_comps w2)) (w_cby w2) in
      let w4 := set_aidx w3 (filter (fun p => negb (list_eqb N.eqb (fst p) (a_comps a))) (w_aby w3)) (w_auid w3) in
      let w5 := fold_left (fun w'' '(_, vals) =>
                   fold_left (fun w3' '(c, v) => drop_cval w3' (if c =? cidx then ctag else comp_tag w3' c) v) (combine (a_comps a) vals) w'')
                   (a_rows a) w4 in
      fold_left (fun w'' '(e, _) => match sm_remove e (w_ents w'') with Some (_, m) => set_ents w'' m | None => w'' end) (a_rows a) w5
  end.

Definition strip (w1 : world) : world :=
  set_archs w1 (mkSlab (map (fun e => match e with
     | SOcc a => SOcc (set_edges a (aremove cidx (a_ins a)) (aremove cidx (a_rem a)))
     | SVac n => SVac n end) (sl_entries (w_archs w1))) (sl_next (w_archs w1))).

Lemma archs_remove_component_unfold w member_of :
  archs_remove_component w cidx ctag member_of = strip (fold_left rc_step member_of w).
Proof. reflexivity. Qed.

Lemma ents_fold_remove (rows : list (key * list cval)) : forall w, w_ents (fold_left (fun (w'' : world) '(e, _) => match sm_remove e (w_ents w'') with Some (_, m) => set_ents w'' m | None => w'' end) rows w)
   = remove_keys (map fst rows) (w_ents w) /\
   w_archs (fold_left (fun (w'' : world) '(e, _) => match sm_remove e (w_ents w'') with Some (_, m) => set_ents w'' m | None => w'' end) rows w) = w_archs w /\
   w_aby (fold_left (fun (w'' : world) '(e, _) => match sm_remove e (w_ents w'') with Some (_, m) => set_ents w'' m | None => w'' end) rows w) = w_aby w /\
   w_gev (fold_left (fun (w'' : world) '(e, _) => match sm_remove e (w_ents w'') with Some (_, m) => set_ents w'' m | None => w'' end) rows w) = w_gev w.
Proof.
  induction rows as [|[e vals] rows IH]; intros w; cbn [fold_left map remove_keys fst]; [auto|].
  destruct (sm_remove e (w_ents w)) as [[v m]|]; [|apply IH].
  destruct (IH (set_ents w m)) as (A & B & C & D). rewrite A, B, C, D. repeat split.
Qed.

Lemma drops_rows_fields (rows : list (key * list cval)) (comps : list N) : forall w,
  let w5 := fold_left (fun (w'' : world) '(_, vals) =>
                   fold_left (fun w3' '(c, v) => drop_cval w3' (if c =? cidx then ctag else comp_tag w3' c) v) (combine comps vals) w'') rows w in
  w_ents w5 = w_ents w /\ w_archs w5 = w_archs w /\ w_aby w5 = w_aby w /\ w_gev w5 = w_gev w.
Proof.
  intros w. cbn zeta. repeat split.
  - apply (fold_left_pres w_ents). intros w' [e vals]. apply (fold_left_pres w_ents). intros w'' [c v]. unfold drop_cval. now destruct (ctag_has_drop _).
  - apply (fold_left_pres w_archs). intros w' [e vals]. apply (fold_left_pres w_archs). intros w'' [c v]. unfold drop_cval. now destruct (ctag_has_drop _).
  - apply (fold_left_pres w_aby). intros w' [e vals]. apply (fold_left_pres w_aby). intros w'' [c v]. unfold drop_cval. now destruct (ctag_has_drop _).
  - apply (fold_left_pres w_gev). intros w' [e vals]. apply (fold_left_pres w_gev). intros w'' [c v]. unfold drop_cval. now destruct (ctag_has_drop _).
Qed.

Lemma rc_step_fields w ai a : slab_get (w_archs w) ai = Some a ->
  w_ents (rc_step w ai) = remove_keys (map fst (a_rows a)) (w_ents w) /\
  w_archs (rc_step w ai) = slab_remove (w_archs w) ai /\
  w_aby (rc_step w ai) = filter (fun p => negb (list_eqb N.eqb (fst p) (a_comps a))) (w_aby w) /\
  w_gev (rc_step w ai) = w_gev w.
Proof.
  intros Ha. unfold rc_step. rewrite Ha. cbn zeta.
  match goal with |- context [fold_left ?f (a_rows a) (fold_left ?g (a_rows a) ?w4)] =>
    destruct (ents_fold_remove (a_rows a) (fold_left g (a_rows a) w4)) as (E1 & E2 & E3 & E4);
    destruct (drops_rows_fields (a_rows a) (a_comps a) w4) as (D1 & D2 & D3 & D4) end.
  cbn zeta in D1, D2, D3, D4. rewrite E1, E2, E3, E4, D1, D2, D3, D4. repeat split.
Qed.
End Step.

(* ---------- the invariant of the loop ---------- *)
Section Inv.
Variable cidx : N.
Definition has_c (a : arch) : Prop := In cidx (a_comps a).

(* WInv with the transition clauses weakened: transitions out of archetypes that contain the
   component, and transitions labelled with it, may dangle while the loop runs *)
Definition J (w : world) : Prop :=
  StoreInv w /\ SlabInv (w_archs w) /\
  (forall ai a, arch_at w ai = Some a -> aby_lookup w (a_comps a) = Some ai) /\
  (forall cs ai, aby_lookup w cs = Some ai -> exists a, arch_at w ai = Some a /\ a_comps a = cs) /\
  (forall ai a c d, arch_at w ai = Some a -> alookup c (a_ins a) = Some d ->
     ~ In c (a_comps a) /\ (c <> cidx -> ~ has_c a -> exists b, arch_at w d = Some b /\ a_comps b = sorted_insert c (a_comps a))) /\
  (forall ai a c d, arch_at w ai = Some a -> alookup c (a_rem a) = Some d ->
     In c (a_comps a) /\ (~ has_c a -> exists b, arch_at w d = Some b /\ a_comps b = filter (fun x => negb (x =? c)) (a_comps a))) /\
  (forall ai a, arch_at w ai = Some a -> StronglySorted N.lt (a_comps a)) /\
  aby_lookup w [] = Some 0.

Lemma WInv_J w : WInv w -> J w.
Proof.
  intros (Hst & (Hs & Hb1 & Hb2 & Hi & Hr & Hso) & H0).
  split; [exact Hst|]. split; [exact Hs|]. split; [exact Hb1|]. split; [exact Hb2|]. split; [|split; [|split; [exact Hso|exact H0]]].
  - intros ai a c d Ha Hl. destruct (Hi _ _ _ _ Ha Hl) as [X Y]. split; [exact X|]. intros _ _. exact Y.
  - intros ai a c d Ha Hl. destruct (Hr _ _ _ _ Ha Hl) as [X Y]. split; [exact X|]. intros _. exact Y.
Qed.

Lemma J_ext w w' : w_ents w' = w_ents w -> w_archs w' = w_archs w -> w_aby w' = w_aby w -> J w -> J w'.
Proof.
  intros He Ha Hb (Hst & Hs & Hb1 & Hb2 & Hi & Hr & Hso & H0). unfold J, arch_at, aby_lookup in *. rewrite Ha, Hb.
  split; [eapply StoreInv_ext; eauto|]. repeat split; auto; try (eapply Hi; eauto); try (eapply Hr; eauto).
Qed.

Lemma aby_lookup_filter w (cs0 : list N) aby' : aby' = filter (fun p => negb (list_eqb N.eqb (fst p) cs0)) (w_aby w) ->
  forall cs, (match find (fun p => list_eqb N.eqb (fst p) cs) aby' with Some p => Some (snd p) | None => None end)
             = if list_eqb N.eqb cs cs0 then None else aby_lookup w cs.
Proof.
  intros -> cs. unfold aby_lookup. destruct (list_eqb N.eqb cs cs0) eqn:E.
  - apply list_eqb_N_spec in E. subst cs0. rewrite find_filter_none; [reflexivity|]. intros x Hx. now rewrite Hx.
  - rewrite find_filter_sub; [reflexivity|]. intros x Hx. apply list_eqb_N_spec in Hx. rewrite Hx, E. reflexivity.
Qed.

Lemma NoDup_app_snoc {A} (l : list A) x : NoDup l -> ~ In x l -> NoDup (l ++ [x]).
Proof.
  induction l as [|y l IH]; intros Hnd Hin; cbn [app]; [constructor; [intros []|constructor]|].
  inversion Hnd; subst. constructor.
  - intros X. apply in_app_or in X as [X|[X|[]]]; [contradiction|]. subst. apply Hin. now left.
  - apply IH; [assumption|]. intros X. apply Hin. now right.
Qed.

(* rows of one archetype hold distinct entities *)
Lemma rows_nodup w ai a : StoreInv w -> arch_at w ai = Some a -> NoDup (map fst (a_rows a)).
Proof.
  intros (_ & _ & Hr) Ha. assert (H : forall row e vals, nget (a_rows a) row = Some (e, vals) -> sm_get e (w_ents w) = Some (ai, row)) by (intros; eapply Hr; eauto).
  clear Hr Ha. revert H. generalize (a_rows a). intros rows. induction rows as [|[e vals] rows IH] using rev_ind; intros H; [constructor|].
  rewrite map_app. cbn [map fst]. apply NoDup_app_snoc.
  - apply IH. intros row e' vals' Hn. apply (H row e' vals'). rewrite nget_app_l; [exact Hn|eapply nget_some_lt; eauto].
  - intros Hin. apply in_map_iff in Hin as ([e' vals'] & He & Hin). cbn [fst] in He. subst e'.
    destruct (in_nget _ _ Hin) as (i & Hi). pose proof (nget_some_lt _ _ _ Hi) as Hlt.
    assert (H1 := H i e vals' ltac:(rewrite nget_app_l; [exact Hi|exact Hlt])).
    assert (H2 := H (nlen rows) e vals (nget_snoc_last rows (e, vals))). rewrite H1 in H2. inversion H2. lia.
Qed.

Lemma in_rows_nget (rows : list (key * list cval)) e : In e (map fst rows) -> exists row vals, nget rows row = Some (e, vals).
Proof.
  intros H. apply in_map_iff in H as ([e' vals] & He & Hin). cbn [fst] in He. subst e'. destruct (in_nget _ _ Hin) as (i & Hi). eauto.
Qed.

Lemma J_step ctag w ai a : J w -> arch_at w ai = Some a -> has_c a -> J (rc_step cidx ctag w ai) /\
  (forall j, arch_at (rc_step cidx ctag w ai) j = if j =? ai then None else arch_at w j) /\
  (forall k c, ~ In k (map fst (a_rows a)) -> abs (rc_step cidx ctag w ai) k c = abs w k c) /\
  (forall k, In k (map fst (a_rows a)) -> sm_get k (w_ents (rc_step cidx ctag w ai)) = None) /\
  (forall k, ~ In k (map fst (a_rows a)) -> sm_get k (w_ents (rc_step cidx ctag w ai)) = sm_get k (w_ents w)).
Proof.
  intros (Hst & Hs & Hb1 & Hb2 & Hi & Hr & Hso & H0) Ha Hc. pose proof Hst as (Hsm & Hl & Hrr).
  unfold arch_at in Ha. destruct (rc_step_fields cidx ctag w ai a Ha) as (Ee & Ea & Eb & _).
  set (w' := rc_step cidx ctag w ai) in *.
  destruct (slab_remove_spec (w_archs w) ai a Hs Ha) as (Hgone & Hoth & Hs').
  assert (Hat : forall j, arch_at w' j = if j =? ai then None else arch_at w j).
  { intros j. unfold arch_at. rewrite Ea. destruct (j =? ai) eqn:E; [apply N.eqb_eq in E; subst; exact Hgone|apply N.eqb_neq in E; now apply Hoth]. }
  assert (Hnd : NoDup (map fst (a_rows a))) by (eapply rows_nodup; eauto).
  assert (Hlive : forall k, In k (map fst (a_rows a)) -> sm_get k (w_ents w) <> None).
  { intros k Hk. destruct (in_rows_nget _ _ Hk) as (row & vals & Hn). destruct (Hrr _ _ _ _ _ Ha Hn) as [X _]. congruence. }
  destruct (remove_keys_spec (map fst (a_rows a)) (w_ents w) Hsm Hnd Hlive) as (Hsm' & Hgone' & Hkeep). rewrite <- Ee in Hsm', Hgone', Hkeep.
  assert (Haby : forall cs, aby_lookup w' cs = if list_eqb N.eqb cs (a_comps a) then None else aby_lookup w cs).
  { intros cs. unfold aby_lookup at 1. now apply aby_lookup_filter. }
  assert (Hlive_arch : forall j b, arch_at w' j = Some b -> j <> ai /\ arch_at w j = Some b).
  { intros j b Hj. rewrite Hat in Hj. destruct (j =? ai) eqn:E; [discriminate|]. apply N.eqb_neq in E. auto. }
  assert (Hst' : StoreInv w').
  { split; [exact Hsm'|]. split.
    - intros e aj row He. destruct (in_dec key_eq_dec e (map fst (a_rows a))) as [Hin|Hnin]; [rewrite (Hgone' e Hin) in He; discriminate|].
      rewrite (Hkeep e Hnin) in He. destruct (Hl _ _ _ He) as (b & vals & Hb & Hn). exists b, vals. split; [|exact Hn].
      rewrite Hat. destruct (aj =? ai) eqn:E; [|exact Hb]. apply N.eqb_eq in E. subst aj. exfalso. apply Hnin.
      unfold arch_at in Hb. rewrite Ha in Hb. inversion Hb; subst b. apply in_map_iff. exists (e, vals). split; [reflexivity|]. eapply nget_in; eauto.
    - intros aj b row e vals Hb Hn. destruct (Hlive_arch _ _ Hb) as [Hne Hb0]. destruct (Hrr _ _ _ _ _ Hb0 Hn) as [Hg Hlen]. split; [|exact Hlen].
      rewrite Hkeep; [exact Hg|]. intros Hin. destruct (in_rows_nget _ _ Hin) as (row' & vals' & Hn'). destruct (Hrr _ _ _ _ _ Ha Hn') as [Hg' _]. congruence. }
  split; [|split; [exact Hat|split; [|split; [exact Hgone'|exact Hkeep]]]].
  - split; [exact Hst'|]. split; [now rewrite Ea|]. split; [|split; [|split; [|split; [|split]]]].
    + intros j b Hj. destruct (Hlive_arch _ _ Hj) as [Hne Hb0]. rewrite Haby. destruct (list_eqb N.eqb (a_comps b) (a_comps a)) eqn:E; [|eauto].
      apply list_eqb_N_spec in E. exfalso. apply Hne. pose proof (Hb1 _ _ Hb0) as X. rewrite E in X. rewrite (Hb1 _ _ Ha) in X. now inversion X.
    + intros cs j Hlk. rewrite Haby in Hlk. destruct (list_eqb N.eqb cs (a_comps a)) eqn:E; [discriminate|].
      destruct (Hb2 _ _ Hlk) as (b & Hb & Hcs). exists b. split; [|exact Hcs]. rewrite Hat. destruct (j =? ai) eqn:F; [|exact Hb].
      apply N.eqb_eq in F. subst j. unfold arch_at in Hb. rewrite Ha in Hb. inversion Hb; subst b. subst cs.
      assert (list_eqb N.eqb (a_comps a) (a_comps a) = true) by now apply list_eqb_N_spec. congruence.
    + intros j b c d Hj Hlk. destruct (Hlive_arch _ _ Hj) as [Hne Hb0]. destruct (Hi _ _ _ _ Hb0 Hlk) as [Hn Ht]. split; [exact Hn|].
      intros Hcc Hnc. destruct (Ht Hcc Hnc) as (t & Hd & Hct). exists t. split; [|exact Hct]. rewrite Hat. destruct (d =? ai) eqn:F; [|exact Hd].
      apply N.eqb_eq in F. subst d. unfold arch_at in Hd. rewrite Ha in Hd. inversion Hd; subst t. exfalso.
      unfold has_c in Hc. rewrite Hct in Hc. apply sorted_insert_in in Hc as [X|X]; [now apply Hcc|now apply Hnc].
    + intros j b c d Hj Hlk. destruct (Hlive_arch _ _ Hj) as [Hne Hb0]. destruct (Hr _ _ _ _ Hb0 Hlk) as [Hn Ht]. split; [exact Hn|].
      intros Hnc. destruct (Ht Hnc) as (t & Hd & Hct). exists t. split; [|exact Hct]. rewrite Hat. destruct (d =? ai) eqn:F; [|exact Hd].
      apply N.eqb_eq in F. subst d. unfold arch_at in Hd. rewrite Ha in Hd. inversion Hd; subst t. exfalso.
      unfold has_c in Hc. rewrite Hct in Hc. apply filter_In in Hc as [X _]. now apply Hnc.
    + intros j b Hj. destruct (Hlive_arch _ _ Hj) as [_ Hb0]. eauto.
    + rewrite Haby. destruct (list_eqb N.eqb [] (a_comps a)) eqn:E; [|exact H0]. apply list_eqb_N_spec in E. unfold has_c in Hc. rewrite <- E in Hc. destruct Hc.
  - intros k c Hnin. unfold abs. rewrite (Hkeep k Hnin). destruct (sm_get k (w_ents w)) as [[aj row]|] eqn:Hg; [|reflexivity].
    rewrite Hat. destruct (aj =? ai) eqn:E; [|reflexivity]. apply N.eqb_eq in E. subst aj. exfalso. apply Hnin.
    destruct (Hl _ _ _ Hg) as (b & vals & Hb & Hn). unfold arch_at in Hb. rewrite Ha in Hb. inversion Hb; subst b.
    apply in_map_iff. exists (k, vals). split; [reflexivity|]. eapply nget_in; eauto.
Qed.
End Inv.

(* ---------- the whole loop and the final sweep over the transition caches ---------- *)
Section Whole.
Variables (cidx ctag : N).

Lemma flat_map_ext_in' {A B} (f g : A -> list B) l : (forall x, In x l -> f x = g x) -> flat_map f l = flat_map g l.
Proof. induction l as [|x l IH]; intros H; cbn [flat_map]; [reflexivity|]. rewrite H by now left. f_equal. apply IH. intros; apply H; now right. Qed.

Definition removed_rows (w : world) (l : list N) : list key :=
  flat_map (fun ai => match arch_at w ai with Some a => map fst (a_rows a) | None => [] end) l.

Lemma rc_step_dead w ai : arch_at w ai = None -> rc_step cidx ctag w ai = w.
Proof. unfold arch_at, rc_step. now intros ->. Qed.

Lemma fold_J l : forall w, J cidx w -> NoDup l ->
  (forall ai a, In ai l -> arch_at w ai = Some a -> has_c cidx a) ->
  let w1 := fold_left (rc_step cidx ctag) l w in
  J cidx w1 /\
  (forall j, arch_at w1 j = if existsb (N.eqb j) l then None else arch_at w j) /\
  (forall k c, ~ In k (removed_rows w l) -> abs w1 k c = abs w k c) /\
  (forall k, In k (removed_rows w l) -> sm_get k (w_ents w1) = None) /\
  (forall k, ~ In k (removed_rows w l) -> sm_get k (w_ents w1) = sm_get k (w_ents w)).
Proof.
  induction l as [|ai l IH]; intros w HJ Hnd Hin; cbn zeta; cbn [fold_left].
  - split; [exact HJ|]. split; [reflexivity|]. split; [reflexivity|]. split; [intros k []|reflexivity].
  - inversion Hnd as [|? ? Hni Hnd']; subst.
    destruct (arch_at w ai) as [a|] eqn:Ha.
    + destruct (J_step cidx ctag w ai a HJ Ha (Hin ai a (or_introl eq_refl) Ha)) as (HJ' & Hat & Habs & Hgone & Hkeep).
      set (w' := rc_step cidx ctag w ai) in *.
      assert (Hat_l : forall j, In j l -> arch_at w' j = arch_at w j).
      { intros j Hj. rewrite Hat. destruct (j =? ai) eqn:E; [|reflexivity]. apply N.eqb_eq in E. subst. contradiction. }
      assert (Hin' : forall aj b, In aj l -> arch_at w' aj = Some b -> has_c cidx b).
      { intros aj b Hj Hb. rewrite (Hat_l aj Hj) in Hb. eapply Hin; [right; exact Hj|exact Hb]. }
      destruct (IH w' HJ' Hnd' Hin') as (HJ1 & Hat1 & Habs1 & Hgone1 & Hkeep1). cbn zeta in *.
      assert (Hrr : removed_rows w' l = removed_rows w l).
      { unfold removed_rows. apply flat_map_ext_in'. intros j Hj. now rewrite (Hat_l j Hj). }
      rewrite Hrr in *.
      assert (Hsplit : forall k, In k (removed_rows w (ai :: l)) <-> In k (map fst (a_rows a)) \/ In k (removed_rows w l)).
      { intros k. unfold removed_rows at 1. cbn [flat_map]. rewrite Ha. rewrite in_app_iff. reflexivity. }
      split; [exact HJ1|]. split; [|split; [|split]].
      * intros j. rewrite Hat1, Hat. cbn [existsb]. destruct (j =? ai); cbn [orb]; [now destruct (existsb _ l)|reflexivity].
      * intros k c Hk. rewrite Habs1, Habs; [reflexivity| |]; intros X; apply Hk; apply Hsplit; auto.
      * intros k Hk. apply Hsplit in Hk. destruct (in_dec key_eq_dec k (removed_rows w l)) as [Hi|Hn]; [now apply Hgone1|].
        destruct Hk as [Hk|Hk]; [|contradiction]. rewrite Hkeep1 by exact Hn. now apply Hgone.
      * intros k Hk. rewrite Hkeep1, Hkeep; [reflexivity| |]; intros X; apply Hk; apply Hsplit; auto.
    + rewrite (rc_step_dead w ai Ha).
      assert (Hin' : forall aj b, In aj l -> arch_at w aj = Some b -> has_c cidx b) by (intros; eapply Hin; eauto; now right).
      destruct (IH w HJ Hnd' Hin') as (HJ1 & Hat1 & Habs1 & Hgone1 & Hkeep1). cbn zeta in *.
      assert (Hrr : removed_rows w (ai :: l) = removed_rows w l) by (unfold removed_rows; cbn [flat_map]; now rewrite Ha).
      rewrite Hrr. split; [exact HJ1|]. split; [|auto]. intros j. rewrite Hat1. cbn [existsb].
      destruct (j =? ai) eqn:E; cbn [orb]; [|reflexivity]. apply N.eqb_eq in E. subst. rewrite Ha. now destruct (existsb _ l).
Qed.

(* the final sweep: every archetype drops its transitions labelled with the component *)
Definition strip_arch (a : arch) : arch := set_edges a (aremove cidx (a_ins a)) (aremove cidx (a_rem a)).
Definition strip_entry (e : sentry) : sentry := match e with SOcc a => SOcc (strip_arch a) | SVac n => SVac n end.

Lemma strip_arch_at w j : arch_at (strip cidx w) j = option_map strip_arch (arch_at w j).
Proof.
  unfold arch_at, strip, slab_get. cbn [w_archs set_archs sl_entries]. change (fun e => match e with SOcc a => SOcc (set_edges a (aremove cidx (a_ins a)) (aremove cidx (a_rem a))) | SVac n => SVac n end) with strip_entry.
  rewrite nget_map. destruct (nget (sl_entries (w_archs w)) j) as [[a|n]|]; reflexivity.
Qed.

Lemma schain_strip l : forall h c, schain l h c -> schain (map strip_entry l) h c.
Proof.
  intros h c H. induction H as [|i nx rest Hg _ IH]; [rewrite <- (nlen_map strip_entry l); constructor|].
  econstructor; [|exact IH]. rewrite nget_map, Hg. reflexivity.
Qed.

Lemma J_strip w : J cidx w -> (forall ai a, arch_at w ai = Some a -> ~ has_c cidx a) -> WInv (strip cidx w).
Proof.
  intros (Hst & Hs & Hb1 & Hb2 & Hi & Hr & Hso & H0) Hno.
  assert (Hfw : forall j a', arch_at (strip cidx w) j = Some a' -> exists a, arch_at w j = Some a /\ a' = strip_arch a).
  { intros j a' Hj. rewrite strip_arch_at in Hj. destruct (arch_at w j) as [a|]; [|discriminate]. inversion Hj. eauto. }
  assert (Hbw : forall j a, arch_at w j = Some a -> arch_at (strip cidx w) j = Some (strip_arch a)).
  { intros j a Hj. now rewrite strip_arch_at, Hj. }
  split; [|split].
  - destruct Hst as (Hsm & Hl & Hrr). split; [exact Hsm|]. split.
    + intros e ai row He. change (w_ents (strip cidx w)) with (w_ents w) in He. destruct (Hl _ _ _ He) as (a & vals & Ha & Hn).
      exists (strip_arch a), vals. split; [now apply Hbw|exact Hn].
    + intros ai a' row e vals Ha' Hn. destruct (Hfw _ _ Ha') as (a & Ha & ->). exact (Hrr _ _ _ _ _ Ha Hn).
  - split; [|split; [|split; [|split; [|split]]]].
    + destruct Hs as (c & Hc & Hnd). exists c. split; [|exact Hnd]. unfold strip. cbn [w_archs set_archs sl_entries sl_next]. now apply schain_strip.
    + intros ai a' Ha'. destruct (Hfw _ _ Ha') as (a & Ha & ->). exact (Hb1 _ _ Ha).
    + intros cs ai Hlk. change (aby_lookup (strip cidx w) cs) with (aby_lookup w cs) in Hlk. destruct (Hb2 _ _ Hlk) as (a & Ha & Hcs).
      exists (strip_arch a). split; [now apply Hbw|exact Hcs].
    + intros ai a' c d Ha' Hlk. destruct (Hfw _ _ Ha') as (a & Ha & ->). cbn [strip_arch a_ins a_comps set_edges] in *.
      destruct (N.eq_dec c cidx) as [->|Hne]; [rewrite alookup_aremove_eq in Hlk; discriminate|].
      rewrite alookup_aremove_neq in Hlk by exact Hne. destruct (Hi _ _ _ _ Ha Hlk) as [Hn Ht]. split; [exact Hn|].
      destruct (Ht Hne (Hno _ _ Ha)) as (b & Hb & Hcb). exists (strip_arch b). split; [now apply Hbw|exact Hcb].
    + intros ai a' c d Ha' Hlk. destruct (Hfw _ _ Ha') as (a & Ha & ->). cbn [strip_arch a_rem a_comps set_edges] in *.
      destruct (N.eq_dec c cidx) as [->|Hne]; [rewrite alookup_aremove_eq in Hlk; discriminate|].
      rewrite alookup_aremove_neq in Hlk by exact Hne. destruct (Hr _ _ _ _ Ha Hlk) as [Hn Ht]. split; [exact Hn|].
      destruct (Ht (Hno _ _ Ha)) as (b & Hb & Hcb). exists (strip_arch b). split; [now apply Hbw|exact Hcb].
    + intros ai a' Ha'. destruct (Hfw _ _ Ha') as (a & Ha & ->). exact (Hso _ _ Ha).
  - exact H0.
Qed.

(* C14 / C17: the archetype side of World::remove_component *)
Theorem archs_remove_component_ok w member_of :
  WInv w -> NoDup member_of ->
  (forall ai a, arch_at w ai = Some a -> (In ai member_of <-> In cidx (a_comps a))) ->
  let w' := archs_remove_component w cidx ctag member_of in
  WInv w' /\
  (* exactly the archetypes without the component survive, with their rows *)
  (forall j, arch_at w' j = match arch_at w j with
                            | Some a => if existsb (N.eqb cidx) (a_comps a) then None else Some (strip_arch a)
                            | None => None end) /\
  (* no transition mentions the component *)
  (forall j a, arch_at w' j = Some a -> alookup cidx (a_ins a) = None /\ alookup cidx (a_rem a) = None) /\
  (* the entities stored in the removed archetypes are gone, everything else is untouched *)
  (forall k, In k (removed_rows w member_of) -> sm_get k (w_ents w') = None) /\
  (forall k, ~ In k (removed_rows w member_of) -> sm_get k (w_ents w') = sm_get k (w_ents w) /\ forall c, abs w' k c = abs w k c).
Proof.
  intros HW Hnd Hmem. cbn zeta. rewrite archs_remove_component_unfold.
  assert (Hin : forall ai a, In ai member_of -> arch_at w ai = Some a -> has_c cidx a) by (intros ai a Hi Ha; now apply (Hmem ai a Ha)).
  destruct (fold_J member_of w (WInv_J cidx w HW) Hnd Hin) as (HJ1 & Hat1 & Habs1 & Hgone1 & Hkeep1). cbn zeta in *.
  set (w1 := fold_left (rc_step cidx ctag) member_of w) in *.
  assert (Hex : forall j, existsb (N.eqb j) member_of = true <-> In j member_of).
  { intros j. rewrite existsb_exists. split; [intros (x & Hx & E); apply N.eqb_eq in E; now subst|intros H; exists j; split; [exact H|apply N.eqb_refl]]. }
  assert (Hno : forall ai a, arch_at w1 ai = Some a -> ~ has_c cidx a).
  { intros ai a Ha. rewrite Hat1 in Ha. destruct (existsb (N.eqb ai) member_of) eqn:E; [discriminate|]. intros Hc.
    apply (Hmem ai a Ha) in Hc. apply Hex in Hc. congruence. }
  split; [now apply J_strip|]. split; [|split; [|split]].
  - intros j. rewrite strip_arch_at, Hat1. destruct (arch_at w j) as [a|] eqn:Ha; [|now destruct (existsb _ member_of)].
    destruct (existsb (N.eqb j) member_of) eqn:E.
    + apply Hex in E. apply (Hmem j a Ha) in E. replace (existsb (N.eqb cidx) (a_comps a)) with true; [reflexivity|].
      symmetry. apply existsb_exists. exists cidx. split; [exact E|apply N.eqb_refl].
    + replace (existsb (N.eqb cidx) (a_comps a)) with false; [reflexivity|]. symmetry. apply not_true_is_false. intros X.
      apply existsb_exists in X as (x & Hx & Ex). apply N.eqb_eq in Ex. subst x. apply (Hmem j a Ha) in Hx. apply Hex in Hx. congruence.
  - intros j a Ha. rewrite strip_arch_at in Ha. destruct (arch_at w1 j) as [a1|]; [|discriminate]. inversion Ha; subst a.
    cbn [strip_arch a_ins a_rem set_edges]. split; apply alookup_aremove_eq.
  - intros k Hk. change (w_ents (strip cidx w1)) with (w_ents w1). now apply Hgone1.
  - intros k Hk. change (w_ents (strip cidx w1)) with (w_ents w1). split; [now apply Hkeep1|]. intros c. rewrite <- (Habs1 k c Hk).
    unfold abs. change (w_ents (strip cidx w1)) with (w_ents w1). destruct (sm_get k (w_ents w1)) as [[aj row]|]; [|reflexivity].
    rewrite strip_arch_at. destruct (arch_at w1 aj) as [b|]; reflexivity.
Qed.
End Whole.
