(* Order.v : the order of every listener list (C07).
     OInv: every per-archetype listener list and every global listener list satisfies the
           HandlerList invariant HlInv (three segments High / Medium / Low delimited by the
           before / after cursors, each sorted by the order in which the handlers were added),
           with priority and order read from the handler registry; by_insert_order is sorted.
   It is an invariant of every call, so the handlers a delivery runs are always sorted by
   priority, then by insertion order. *)
From Coq Require Import List NArith Bool Lia Sorted.
Import ListNotations.
Require Import EV.Base EV.ListN EV.Access EV.Query EV.QueryInd EV.SlotMap EV.Reserve EV.HList EV.Loop EV.World EV.SlotMapGet
  EV.ArchProofs EV.WorldFrame EV.Store EV.Graph EV.Effects EV.Reach EV.RemoveComp EV.Member EV.Listen.
Require EV.HListProofs.
Open Scope N_scope.

Definition kpr (w : world) (hk : key) : prio := match sm_get hk (w_hs w) with Some h => h_prio h | None => Low end.
Definition kord (w : world) (hk : key) : N := match sm_get hk (w_hs w) with Some h => h_order h | None => 0 end.
Definition HlW (w : world) (l : hlist key) : Prop := HListProofs.HlInv (kpr w) (kord w) l.

Definition OInv (w : world) : Prop :=
  (forall ai a idx l, arch_at w ai = Some a -> alookup idx (a_listeners a) = Some l -> HlW w l) /\
  (forall idx l, nget (w_glists w) idx = Some l -> HlW w l) /\
  StronglySorted (fun a b : N * key => fst a < fst b) (w_horder w).

Lemma HlInv_ext (pr pr' : key -> prio) (ord ord' : key -> N) l :
  (forall x, In x (hl_entries l) -> pr' x = pr x /\ ord' x = ord x) -> HListProofs.HlInv pr ord l -> HListProofs.HlInv pr' ord' l.
Proof.
  intros Hx (Hs & Ms & Ls & He & Hb & Ha & SH & SM & SL). exists Hs, Ms, Ls. split; [exact He|]. split; [exact Hb|]. split; [exact Ha|].
  assert (Hseg : forall p X, (forall x, In x X -> In x (hl_entries l)) -> HListProofs.seg pr ord p X -> HListProofs.seg pr' ord' p X).
  { intros p X Hsub [F S]. split.
    - rewrite Forall_forall in *. intros x Hin. rewrite (proj1 (Hx x (Hsub x Hin))). now apply F.
    - clear F. induction S as [|x X S IH Hall]; [constructor|]. constructor; [apply IH; intros; apply Hsub; now right|].
      rewrite Forall_forall in *. intros y Hy. rewrite (proj2 (Hx x (Hsub x (or_introl eq_refl)))), (proj2 (Hx y (Hsub y (or_intror Hy)))). now apply Hall. }
  rewrite He in Hseg. split; [|split].
  - apply Hseg; [|exact SH]. intros x Hin. apply in_or_app. now left.
  - apply Hseg; [|exact SM]. intros x Hin. apply in_or_app. right. apply in_or_app. now left.
  - apply Hseg; [|exact SL]. intros x Hin. apply in_or_app. right. apply in_or_app. now right.
Qed.

Lemma hreg_kpr w w' : hreg w' = hreg w -> forall x, kpr w' x = kpr w x /\ kord w' x = kord w x.
Proof.
  intros Hh x. destruct (hreg_parts w w' Hh) as (Hv & _). pose proof (sview_get hstat (w_hs w) (w_hs w') x Hv) as E. unfold kpr, kord.
  destruct (sm_get x (w_hs w')) as [h'|], (sm_get x (w_hs w)) as [h|]; cbn in E; try discriminate; [|auto].
  assert (E' : hstat h' = hstat h) by congruence. split; [exact (f_equal h_prio E')|exact (f_equal h_order E')].
Qed.

Lemma OInv_sub w w' : hreg w' = hreg w ->
  (forall j a', arch_at w' j = Some a' -> exists a, arch_at w j = Some a /\ lview a' = lview a) -> OInv w -> OInv w'.
Proof.
  intros Hh Hsub (O1 & O2 & O3). destruct (hreg_parts w w' Hh) as (_ & Ho & _ & Hg). pose proof (hreg_kpr w w' Hh) as Hk.
  split; [|split; [|now rewrite Ho]].
  - intros ai a' idx l Ha' Hl. destruct (Hsub _ _ Ha') as (a & Ha & Ev). injection Ev as _ El. rewrite El in Hl.
    eapply HlInv_ext; [|exact (O1 ai a idx l Ha Hl)]. intros x _. apply Hk.
  - intros idx l Hl. rewrite Hg in Hl. eapply HlInv_ext; [|exact (O2 idx l Hl)]. intros x _. apply Hk.
Qed.
Lemma OInv_frame w w' : hreg w' = hreg w -> lshape (w_archs w') = lshape (w_archs w) -> OInv w -> OInv w'.
Proof.
  intros Hh Hs. apply OInv_sub; [exact Hh|]. pose proof (gshape_arch_at lview w w' Hs) as Ha.
  intros ai a' X. specialize (Ha ai). rewrite X in Ha. destruct (arch_at w ai) as [a|]; cbn in Ha; [|discriminate]. exists a. split; [reflexivity|congruence].
Qed.

(* ---------- effect primitives and handler bodies ---------- *)
Lemma O_move_entity w src dst nw : OInv w -> OInv (res_world (move_entity w src dst nw)).
Proof. apply OInv_frame; [apply (r_move_entity hreg); hfr|apply (gshape_move_entity lview lview_rows lview_cap)]. Qed.
Lemma O_remove_entity w loc : OInv w -> OInv (res_world (remove_entity w loc)).
Proof. apply OInv_frame; [apply (r_remove_entity hreg); hfr|apply (gshape_remove_entity lview lview_rows)]. Qed.
Lemma O_spawn_all w : OInv w -> OInv (res_world (spawn_all w)).
Proof. apply OInv_frame; [apply (r_spawn_all hreg); hfr|apply (gshape_spawn_all lview lview_rows lview_cap)]. Qed.
Lemma O_upd_edges w ai i r : OInv w -> OInv (upd_arch w ai (fun a => set_edges a (i a) (r a))).
Proof. apply OInv_frame; [apply (r_upd_arch hreg); hfr|apply (gshape_upd_edges lview lview_edges)]. Qed.
Lemma O_ev_drop w t tag ev : OInv w -> OInv (ev_drop w t tag ev).
Proof. destruct (structureL_views w (ev_drop w t tag ev) (sl_ev_drop w t tag ev)) as (A & B & _). now apply OInv_frame. Qed.

(* ---------- register_handler keeps every list well-formed ---------- *)
Lemma reg_listeners_cases ai a h :
  a_listeners (fst (register_handler ai a h)) = a_listeners a \/
  exists ek, h_recv h = RvTargeted ek /\ a_listeners (fst (register_handler ai a h)) = listeners_insert (a_listeners a) (fst ek) (h_key h) (h_prio h).
Proof.
  unfold register_handler. destruct (ca_matches (arch_has a) (h_archfilter h)); destruct (h_recv h) as [ek|ek]; cbn [fst]; try (now left);
    (destruct (ca_matches (arch_has a) (h_filter h)); cbn [fst a_listeners set_tables]; [right; exists ek; split; reflexivity|now left]).
Qed.

Lemma listeners_insert_lookup ls ev hk p idx :
  alookup idx (listeners_insert ls ev hk p) =
    if idx =? ev then Some (hl_insert (match alookup ev ls with Some l => l | None => hl_new end) hk p) else alookup idx ls.
Proof.
  unfold listeners_insert. destruct (idx =? ev) eqn:E.
  - apply N.eqb_eq in E. subst idx. destruct (alookup ev ls); now rewrite alookup_ainsert_eq.
  - apply N.eqb_neq in E. destruct (alookup ev ls); now rewrite alookup_ainsert_neq by exact E.
Qed.

Lemma reg_lists_O w ai a h :
  (forall idx l, alookup idx (a_listeners a) = Some l -> HlW w l) ->
  kpr w (h_key h) = h_prio h ->
  (forall idx l x, alookup idx (a_listeners a) = Some l -> In x (hl_entries l) -> kord w x < kord w (h_key h)) ->
  forall idx l, alookup idx (a_listeners (fst (register_handler ai a h))) = Some l -> HlW w l.
Proof.
  intros Hall Hp Hlt idx l. destruct (reg_listeners_cases ai a h) as [->|(ek & _ & ->)]; [apply Hall|].
  rewrite listeners_insert_lookup. destruct (idx =? fst ek); [|apply Hall]. intros X. inversion X; subst l. rewrite <- Hp.
  apply HListProofs.insert_inv.
  - destruct (alookup (fst ek) (a_listeners a)) as [l0|] eqn:El; [eapply Hall; eauto|apply HListProofs.hl_new_inv].
  - intros x Hx. destruct (alookup (fst ek) (a_listeners a)) as [l0|] eqn:El; [eapply Hlt; eauto|destruct Hx].
Qed.

Lemma reg_lists_elems ai a h idx l x :
  alookup idx (a_listeners (fst (register_handler ai a h))) = Some l -> In x (hl_entries l) ->
  x = h_key h \/ exists l0, alookup idx (a_listeners a) = Some l0 /\ In x (hl_entries l0).
Proof.
  destruct (reg_listeners_cases ai a h) as [->|(ek & _ & ->)]; [intros; right; eauto|].
  rewrite listeners_insert_lookup. destruct (idx =? fst ek) eqn:E; [|intros; right; eauto]. apply N.eqb_eq in E. subst idx.
  intros X Hin. inversion X; subst l. apply hl_insert_in in Hin as [->|Hin]; [now left|].
  destruct (alookup (fst ek) (a_listeners a)) as [l0|]; [right; eauto|destruct Hin].
Qed.

(* the fold over by_insert_order (Archetype::new registers every handler, oldest first) *)
Lemma reg_fold_O w ai (L : list (N * key)) : forall a hs,
  StronglySorted (fun p q : N * key => fst p < fst q) L ->
  (forall o hk, In (o, hk) L -> kord w hk = o) ->
  (forall hk h, sm_get hk hs = Some h -> h_key h = hk /\ kpr w hk = h_prio h) ->
  (forall idx l, alookup idx (a_listeners a) = Some l -> HlW w l) ->
  (forall idx l x o hk, alookup idx (a_listeners a) = Some l -> In x (hl_entries l) -> In (o, hk) L -> kord w x < o) ->
  forall idx l, alookup idx (a_listeners (fst (fold_left (reg_step ai) L (a, hs)))) = Some l -> HlW w l.
Proof.
  induction L as [|[o hk] L IH]; intros a hs Hso Hord Hkey Hall Hlt; cbn [fold_left]; [exact Hall|].
  change (reg_step ai (a, hs) (o, hk)) with (match sm_get hk hs with Some h => let '(a', h') := register_handler ai a h in (a', upd_by_key hs hk (fun _ => h')) | None => (a, hs) end).
  apply StronglySorted_inv in Hso as [Hso' Hall'].
  assert (Hord' : forall o' hk', In (o', hk') L -> kord w hk' = o') by (intros; apply Hord; now right).
  destruct (sm_get hk hs) as [h|] eqn:E.
  - destruct (Hkey hk h E) as [Hk Hp]. pose proof (hstat_register ai a h) as Hst.
    pose proof (reg_lists_O w ai a h Hall) as HO. pose proof (reg_lists_elems ai a h) as HE.
    destruct (register_handler ai a h) as [a1 h1]. cbn [fst snd] in *. apply IH; [exact Hso'|exact Hord'| | |].
    + intros k0 h0 X. destruct (key_eq_dec k0 hk) as [->|Hne].
      * rewrite (upd_key_get_self hs hk (fun _ => h1) h E) in X. inversion X; subst h0. destruct (stat_eq _ _ Hst) as (A & _).
        split; [congruence|]. rewrite Hp. exact (eq_sym (f_equal h_prio Hst)).
      * rewrite upd_key_get_other in X by exact Hne. now apply Hkey.
    + apply HO; [now rewrite Hk|]. rewrite Hk. intros idx l x Hl Hx. rewrite (Hord o hk (or_introl eq_refl)). apply (Hlt idx l x o hk Hl Hx). now left.
    + intros idx l x o' hk' Hl Hx Hin'. destruct (HE idx l x Hl Hx) as [->|(l0 & Hl0 & Hx0)].
      * rewrite Hk, (Hord o hk (or_introl eq_refl)). rewrite Forall_forall in Hall'. exact (Hall' (o', hk') Hin').
      * apply (Hlt idx l0 x o' hk' Hl0 Hx0). now right.
  - apply IH; auto. intros idx0 l0 x o' hk' A B C. apply (Hlt idx0 l0 x o' hk' A B). now right.
Qed.

Lemma create_arch_O w cs ins rem : HL w -> OInv w -> SlabInv (w_archs w) -> OInv (snd (create_arch w cs ins rem)).
Proof.
  intros ((S & H1 & H2 & H3 & H4) & _) (O1 & O2 & O3) Hs. pose proof (hreg_create_arch w cs ins rem) as Hh.
  set (w1 := snd (create_arch w cs ins rem)) in *. destruct (hreg_parts w w1 Hh) as (_ & Ho & _ & Hg). pose proof (hreg_kpr w w1 Hh) as Hk.
  destruct (create_arch_reg w cs ins rem) as (_ & Harchs & _). cbn zeta in Harchs. fold w1 in Harchs.
  set (a0 := mkA (w_auid w) cs [] 0 0 ins rem [] []) in *. set (vk := slab_vacant_key (w_archs w)) in *.
  set (r := fold_left (reg_step vk) (w_horder w) (a0, w_hs w)) in *.
  destruct (slab_insert_spec (w_archs w) (fst r) Hs) as (Hnew & Hvac & Hoth & _). fold vk in Hnew, Hvac, Hoth.
  split; [|split; [|now rewrite Ho]].
  - intros ai a idx l Ha Hl. unfold arch_at in Ha. rewrite Harchs in Ha. eapply HlInv_ext; [intros x _; apply Hk|]. destruct (N.eq_dec ai vk) as [->|Hne].
    + rewrite Hnew in Ha. inversion Ha; subst a. unfold r in Hl. eapply (reg_fold_O w vk (w_horder w) a0 (w_hs w) O3); [| | | |exact Hl].
      * intros o hk Hin. destruct (H2 o hk Hin) as (h & X & Eo). unfold kord. unfold hlive in X. now rewrite X.
      * intros hk h X. destruct (H1 hk h X) as (A & _). split; [exact A|]. unfold kpr. now rewrite X.
      * intros i0 l0 X. discriminate.
      * intros i0 l0 x o hk X. discriminate.
    + rewrite Hoth in Ha by exact Hne. eapply O1; eauto.
  - intros idx l Hl. rewrite Hg in Hl. eapply HlInv_ext; [intros x _; apply Hk|]. exact (O2 idx l Hl).
Qed.

Lemma traverse_insert_O w src c : HL w -> OInv w -> SlabInv (w_archs w) -> OInv (res_world (traverse_insert w src c)).
Proof.
  intros HH H Hs. unfold traverse_insert. destruct (slab_get (w_archs w) src) as [sa|]; [|exact H].
  destruct (alookup c (a_ins sa)); [exact H|]. destruct (arch_has sa c); [exact H|].
  destruct (aby_lookup w (sorted_insert c (a_comps sa))); cbn [res_world].
  - apply (O_upd_edges w src (fun a => ainsert c n (a_ins a)) a_rem H).
  - pose proof (create_arch_O w (sorted_insert c (a_comps sa)) [] [(c, src)] HH H Hs) as Hc.
    destruct (create_arch w (sorted_insert c (a_comps sa)) [] [(c, src)]) as [d w1]. cbn [snd res_world] in *.
    apply (O_upd_edges w1 src (fun a => ainsert c d (a_ins a)) a_rem Hc).
Qed.
Lemma traverse_remove_O w src c : HL w -> OInv w -> SlabInv (w_archs w) -> OInv (res_world (traverse_remove w src c)).
Proof.
  intros HH H Hs. unfold traverse_remove. destruct (slab_get (w_archs w) src) as [sa|]; [|exact H].
  destruct (alookup c (a_rem sa)); [exact H|]. destruct (negb (arch_has sa c)); [exact H|].
  destruct (aby_lookup w (filter (fun x => negb (x =? c)) (a_comps sa))); cbn [res_world].
  - apply (O_upd_edges w src a_ins (fun a => ainsert c n (a_rem a)) H).
  - pose proof (create_arch_O w (filter (fun x => negb (x =? c)) (a_comps sa)) [(c, src)] [] HH H Hs) as Hc.
    destruct (create_arch w (filter (fun x => negb (x =? c)) (a_comps sa)) [(c, src)] []) as [d w1]. cbn [snd res_world] in *.
    apply (O_upd_edges w1 src a_ins (fun a => ainsert c d (a_rem a)) Hc).
Qed.
Lemma builtin_effect_O kind ev loc w : HL w -> OInv w -> SlabInv (w_archs w) -> OInv (res_world (builtin_effect kind ev loc w)).
Proof.
  intros HH H Hs. destruct kind as [|c|c| |]; cbn [builtin_effect].
  - exact H.
  - pose proof (traverse_insert_O w (fst loc) c HH H Hs) as X. destruct (traverse_insert w (fst loc) c) as [d w2|f w2]; cbn [rbind res_world] in *; [|exact X]. now apply O_move_entity.
  - pose proof (traverse_remove_O w (fst loc) c HH H Hs) as X. destruct (traverse_remove w (fst loc) c) as [d w2|f w2]; cbn [rbind res_world] in *; [|exact X]. now apply O_move_entity.
  - now apply O_spawn_all.
  - pose proof (O_spawn_all w H) as X. destruct (spawn_all w) as [[] w2|f w2]; cbn [rbind res_world] in *; [|exact X].
    pose proof (O_remove_entity w2 loc X) as Y. destruct (remove_entity w2 loc) as [[] w3|f w3]; cbn [rbind res_world] in *; exact Y.
Qed.

Definition BI (w : world) : Prop := AI w /\ OInv w.
Lemma BI_parts w : BI w -> FInv w /\ HL w /\ OInv w.
Proof. intros [HA HO]. destruct (AI_parts _ HA) as (A & B & _). auto. Qed.

Section WithBeh.
Variable beh : hinfo -> logent -> N -> script.

Theorem deliver_one_O it w : WInv w -> HL w -> OInv w -> OInv (snd (fst (deliver_one beh it w))).
Proof.
  intros HW HH HO. unfold deliver_one.
  assert (Hfin : forall tag kind hl loc,
            OInv (snd (fst (let '(w1, ev, sent, taken, fl) := run_handlers beh hl w it tag loc [] in
              match fl with
              | Some f => (sent, (if taken then w1 else ev_drop w1 (qi_targeted it) tag ev), Some f)
              | None => if taken then (sent, w1, None) else
                  match kind with
                  | KNormal => (sent, ev_drop w1 (qi_targeted it) tag ev, None)
                  | _ => let '(w3, f) := fail_of (builtin_effect kind ev loc w1) in (sent, w3, f)
                  end
              end)))).
  { intros tag kind hl loc. pose proof (handlers_preserve_structureL beh hl w it tag loc []) as Hs.
    pose proof (ereg_run_handlers beh hl w it tag loc []) as He.
    destruct (run_handlers beh hl w it tag loc []) as [[[[w1 ev] sent] taken] fl]. cbn [fst] in Hs, He.
    destruct (structureL_views w w1 Hs) as (A & B & C).
    assert (O1 : OInv w1) by (eapply OInv_frame; eauto).
    assert (H1 : HL w1) by (eapply HL_frame; eauto).
    assert (HW1 : WInv w1) by (eapply WInv_structure; eauto).
    destruct fl as [f|]; [cbn [fst snd]; destruct taken; [exact O1|now apply O_ev_drop]|].
    destruct taken; [exact O1|].
    assert (Heff : OInv (fst (fail_of (builtin_effect kind ev loc w1)))).
    { pose proof (builtin_effect_O kind ev loc w1 H1 O1 (proj1 (proj1 (proj2 HW1)))) as H. destruct (builtin_effect kind ev loc w1); exact H. }
    destruct kind; try (destruct (fail_of _) as [w3 f]; exact Heff). cbn [fst snd]. now apply O_ev_drop. }
  destruct (qi_targeted it).
  - destruct (get_by_index (w_tev w) (qi_idx it)) as [[k info]|]; [|exact HO].
    destruct (sm_get (qi_target it) (w_ents w)) as [loc|]; [|cbn [fst snd]; now apply O_ev_drop].
    destruct (slab_get (w_archs w) (fst loc)); [|exact HO]. apply Hfin.
  - destruct (get_by_index (w_gev w) (qi_idx it)) as [[k info]|]; [|exact HO].
    destruct (nget (w_glists w) (qi_idx it)); [|exact HO]. apply Hfin.
Qed.

Lemma flush_BI q w : BI w -> BI (res_world (flush beh q w)).
Proof.
  intros [HA HO]. split; [now apply flush_AI|]. unfold flush, flush_loop.
  destruct (Loop.flush wst qitem (run_w beh) unwind_w FUEL q (w, None) []) as [[[tr [w1 fl]] oc]|] eqn:E; [|exact HO].
  assert (X : AInv w1 /\ OInv w1).
  { change w1 with (fst (w1, fl)).
    apply (flush_invariant wst qitem (run_w beh) unwind_w (fun s : wst => AInv (fst s) /\ OInv (fst s))) with (n := FUEL) (q := q) (st := (w, None)) (acc := []) (tr := tr) (oc := oc); [| |exact E|split; [exact (proj1 HA)|exact HO]].
    - intros e st [[HF HH] HOs]. destruct (FInv_parts _ HF) as (H1 & H2 & H3). unfold run_w.
      pose proof (deliver_one_WInv beh e (fst st) H1 H2) as Hd. pose proof (deliver_one_K beh e (fst st) H1 H2 H3) as Hk.
      pose proof (deliver_one_keeps_registries beh e (fst st)) as Hr. pose proof (deliver_one_HL beh e (fst st) H1 HH) as Hl.
      pose proof (deliver_one_O e (fst st) H1 HH HOs) as Ho.
      destruct (deliver_one beh e (fst st)) as [[sent w2] fl2]. cbn [fst snd] in *.
      split; [split; [split; [split; [exact Hd|eapply GevKinds_registries; eauto]|exact Hk]|exact Hl]|exact Ho].
    - intros q0 st [HAs HOs]. pose proof (flush_invariant wst qitem (run_w beh) unwind_w (fun s : wst => AInv (fst s))) as _.
      assert (HA' : AInv (fst (unwind_w q0 st))).
      { (* re-use the unwinding step of flush_AInv_loop by running the generic loop on an empty queue is not possible; replay it *)
        destruct HAs as [HF HH]. unfold unwind_w. destruct (snd st) as [[k|s]|] eqn:Es; try (split; assumption). cbn [fst].
        destruct (FInv_parts _ HF) as (H1 & H2 & H3).
        assert (Hsu : structure (unwind_queue q0 (fst st)) = structure (fst st)) by (unfold unwind_queue; apply (fold_left_pres structure); intros; apply s_ev_drop).
        assert (Htu : w_tev (unwind_queue q0 (fst st)) = w_tev (fst st)) by (apply (r_unwind_queue w_tev); fr).
        assert (HWu : WInv (unwind_queue q0 (fst st))) by (eapply WInv_structure; eauto).
        assert (HKu : GevKinds (unwind_queue q0 (fst st))) by (eapply GevKinds_registries; [apply unwind_queue_keeps_registries|exact H2]).
        assert (HKK : KInv (unwind_queue q0 (fst st))) by (eapply KInv_structure; eauto).
        pose proof (spawn_all_ok _ HWu) as Hs. pose proof (spawn_all_keeps_registries (unwind_queue q0 (fst st))) as Hr.
        assert (HK2 : KInv (res_world (spawn_all (unwind_queue q0 (fst st))))) by (eapply KInv_kreg; [apply kreg_spawn_all|apply cshape_spawn_all|exact HKK]).
        assert (HHu : HL (unwind_queue q0 (fst st))) by (unfold unwind_queue; apply (fold_left_invariant HL); [exact HH|]; intros acc y Hacc; now apply HL_ev_drop).
        pose proof (HL_spawn_all _ HHu) as X.
        destruct (spawn_all (unwind_queue q0 (fst st))) as [[] w3|f w3]; cbn [res_world] in *.
        + split; [split; [split; [exact (proj1 Hs)|eapply GevKinds_registries; eauto]|exact HK2]|exact X].
        + split; [split; [split; [exact (proj1 (proj2 Hs))|eapply GevKinds_registries; eauto]|exact HK2]|exact X]. }
      split; [exact HA'|]. unfold unwind_w. destruct (snd st) as [[k|s]|]; try exact HOs. cbn [fst].
      assert (HOu : OInv (unwind_queue q0 (fst st))) by (unfold unwind_queue; apply (fold_left_invariant OInv); [exact HOs|]; intros acc y Hacc; now apply O_ev_drop).
      pose proof (O_spawn_all _ HOu) as X. destruct (spawn_all (unwind_queue q0 (fst st))); exact X. }
  destruct oc; [exact (proj2 X)|destruct fl; exact (proj2 X)].
Qed.
End WithBeh.

(* ---------- registration ---------- *)
Lemma OInv_conv w w2 : w_hs w2 = w_hs w -> w_horder w2 = w_horder w -> w_archs w2 = w_archs w -> w_glists w2 = w_glists w -> OInv w -> OInv w2.
Proof.
  intros A B C D (O1 & O2 & O3). unfold OInv, HlW, kpr, kord, arch_at in *. rewrite A, B, C, D. auto.
Qed.

Section Ops.
Variable beh : hinfo -> logent -> N -> script.

Lemma rbind_BI {A B} (r : res A) (f : A -> world -> res B) :
  BI (res_world r) -> (forall a w, BI w -> BI (res_world (f a w))) -> BI (res_world (rbind r f)).
Proof. apply rbind_K. Qed.

Lemma gev_BI fuel : forall tag w, BI w ->
  BI (res_world (add_global_event beh fuel tag w)) /\ forall ev, BI (res_world (send_global beh fuel tag ev w)).
Proof.
  induction fuel as [|f IH]; intros tag w HB; [split; [exact HB|intros; exact HB]|].
  assert (Hadd : BI (res_world (add_global_event beh (S f) tag w))).
  { pose proof (proj1 (gev_AI beh (S f) tag w (proj1 HB))) as HAI. rewrite add_global_event_S in *. destruct (alookup tag (w_gby w)); [exact HB|].
    destruct (insert_with (fun _ => mkE tag (gkind tag)) (w_gev w)) as [[k m]|] eqn:Ei; [|exact HB]. cbn zeta in *.
    set (w2 := set_glists _ _) in *.
    assert (HB2 : BI w2).
    { split.
      - (* AI w2: as in gev_AI *)
        destruct (AI_parts _ (proj1 HB)) as ([[HW HK] HKK] & HH & HG). split; [split; [split; [split; [eapply WInv_ext; [| | |exact HW]; reflexivity|]|exact HKK]|]|].
        + intros i k' info Hg. unfold w2 in Hg. cbn [w_gev set_glists set_hreg set_gev] in Hg.
          destruct (gbi_insert _ _ _ _ _ _ _ Ei Hg) as [->|Hold]; [|eauto]. cbn [e_kind]. unfold gkind. now destruct (tag =? G_SPAWN).
        + apply (HL_conv_gl w w2); try reflexivity; [|exact HH].
          intros idx. unfold glist_of, w2. cbn [w_glists set_glists set_hreg set_gev]. apply (glist_nrepeat w (w_glists w) _ eq_refl).
        + unfold GInv, w2. cbn [w_gev set_glists set_hreg set_gev]. eapply SlotMap.insert_inv; eauto.
      - destruct HB as [_ (O1 & O2 & O3)]. split; [exact O1|]. split; [|exact O3].
        intros idx l Hl. unfold w2 in Hl. cbn [w_glists set_glists set_hreg set_gev] in Hl. rewrite nget_nrepeat_to in Hl.
        change (HlW w2 l) with (HlW w l). destruct (nget (w_glists w) idx) as [l0|] eqn:E0; [inversion Hl; subst; eauto|].
        destruct (idx <? _); inversion Hl; subst. apply HListProofs.hl_new_inv. }
    destruct (IH G_ADDGE w2 HB2) as [_ Hs]. specialize (Hs (mkEv 0 0 k)).
    destruct (send_global beh f G_ADDGE (mkEv 0 0 k) w2); exact Hs. }
  split; [exact Hadd|]. intros ev. rewrite send_global_S.
  destruct (IH tag w HB) as [Ha _]. destruct (add_global_event beh f tag w) as [k w1|e w1]; cbn [res_world] in *.
  - apply flush_BI. destruct (10 <? tag); exact Ha.
  - split; [apply AI_ev_drop; exact (proj1 Ha)|apply O_ev_drop; exact (proj2 Ha)].
Qed.
Lemma send_global_BI tag ev w : BI w -> BI (res_world (send_global beh RFUEL tag ev w)).
Proof. intros H. exact (proj2 (gev_BI RFUEL tag w H) ev). Qed.
Lemma add_global_event_BI tag w : BI w -> BI (res_world (add_global_event beh RFUEL tag w)).
Proof. intros H. exact (proj1 (gev_BI RFUEL tag w H)). Qed.

Lemma add_component_BI tag w : BI w -> BI (res_world (add_component beh tag w)).
Proof.
  intros HB. pose proof (add_component_AI beh tag w (proj1 HB)) as HA. unfold add_component in *.
  destruct (alookup tag (w_cby w)) as [k0|] eqn:El; [exact HB|].
  destruct (insert_with (fun _ => mkC tag [] [] []) (w_comps w)) as [[k m]|] eqn:Ei; [|exact HB].
  set (w1 := set_comps w m (ainsert tag k (w_cby w))) in *.
  assert (HB1 : BI w1).
  { destruct (AI_parts _ (proj1 HB)) as (HF & HH & HG). destruct (add_component_entry_FInv tag w k m HF El Ei) as [HF1 _].
    split; [|apply (OInv_conv w w1); try reflexivity; exact (proj2 HB)].
    destruct (HL_GInv_conv w w1) as [X Y]; try reflexivity; [auto|auto|]. split; [split|]; assumption. }
  apply rbind_BI; [now apply send_global_BI|intros; assumption].
Qed.

Lemma tev_stage1_BI tag w : BI w -> BI (res_world (tev_stage1 beh tag w)).
Proof.
  intros HB. unfold tev_stage1. destruct ((20 <=? tag) && (tag <? 40)); [apply rbind_BI; [now apply add_component_BI|intros; assumption]|].
  destruct ((40 <=? tag) && (tag <? 60)); [apply rbind_BI; [now apply add_component_BI|intros; assumption]|].
  destruct (tag =? T_DESPAWN); exact HB.
Qed.

Lemma add_targeted_event_BI tag w : BI w -> BI (res_world (add_targeted_event beh tag w)).
Proof.
  intros HB. rewrite add_targeted_event_unfold. pose proof (tev_stage1_BI tag w HB) as HB0.
  destruct (tev_stage1_FInv beh tag w (proj1 (proj1 (proj1 HB)))) as [_ Hl].
  destruct (tev_stage1 beh tag w) as [kind w0|f w0]; cbn [rbind res_world] in *; [|exact HB0].
  destruct (alookup tag (w_tby w0)); [exact HB0|].
  destruct (insert_with (fun _ => mkE tag kind) (w_tev w0)) as [[k m]|] eqn:Ei; [|exact HB0].
  apply rbind_BI; [|intros; assumption]. apply send_global_BI. destruct (AI_parts _ (proj1 HB0)) as (HF0 & HH0 & HG0).
  pose proof (tev_entry_FInv w0 tag kind k m HF0 Hl Ei) as HF1.
  split.
  - destruct (HL_GInv_conv w0 (tev_entry_world w0 tag kind k m)) as [X Y]; try (unfold tev_entry_world; destruct kind; reflexivity); [|auto|split; [split|]; assumption].
    assert (S2 : SmInv (w_tev w0)) by (destruct HF0 as [_ (_ & X & _)]; exact X).
    intros k0 Hlv. assert (Et : w_tev (tev_entry_world w0 tag kind k m) = m) by (unfold tev_entry_world; destruct kind; reflexivity). rewrite Et.
    rewrite (insert_get_other _ _ _ _ k0 S2 Ei); [exact Hlv|]. intros ->. apply Hlv. eapply insert_get_fresh; eauto.
  - apply (OInv_conv w0); try (unfold tev_entry_world; destruct kind; reflexivity). exact (proj2 HB0).
Qed.

Lemma BI_ev_drop w t tag ev : BI w -> BI (ev_drop w t tag ev).
Proof. intros [A B]. split; [now apply AI_ev_drop|now apply O_ev_drop]. Qed.

Lemma send_to_BI tag target ev w : BI w -> BI (res_world (send_to beh tag target ev w)).
Proof.
  intros HB. unfold send_to. pose proof (add_targeted_event_BI tag w HB) as H.
  destruct (add_targeted_event beh tag w) as [k w1|e w1]; cbn [res_world] in *; [now apply flush_BI|now apply BI_ev_drop].
Qed.

Theorem op_spawn_BI w : BI w -> BI (res_world (op_spawn beh w)).
Proof.
  intros HB. unfold op_spawn. apply rbind_BI.
  - unfold reserve. repeat break_match; cbn [res_world]; exact HB.
  - intros id w1 HB1. apply rbind_BI; [now apply send_global_BI|]. intros [] w2 HB2. exact HB2.
Qed.
Theorem op_insert_BI e ktag w : BI w -> BI (res_world (op_insert beh e ktag w)).
Proof.
  intros HB. unfold op_insert. destruct (new_cval w ktag) as [v w1] eqn:E. apply send_to_BI.
  assert (w1 = snd (new_cval w ktag)) by now rewrite E. subst w1. unfold new_cval. destruct (ctag_zst ktag); exact HB.
Qed.
Theorem op_remove_BI e ktag w : BI w -> BI (res_world (op_remove beh e ktag w)).
Proof. intros HB. unfold op_remove. now apply send_to_BI. Qed.
Theorem op_despawn_BI e w : BI w -> BI (res_world (op_despawn beh e w)).
Proof. intros HB. unfold op_despawn. now apply send_to_BI. Qed.
Theorem op_send_BI gtag w : BI w -> BI (res_world (op_send beh gtag w)).
Proof. intros HB. unfold op_send. cbn [fresh_serial]. apply send_global_BI. exact HB. Qed.
Theorem op_send_to_BI e ttag w : BI w -> BI (res_world (op_send_to beh e ttag w)).
Proof. intros HB. unfold op_send_to. cbn [fresh_serial]. apply send_to_BI. exact HB. Qed.

Lemma resolve_query_BI q : forall w, BI w -> BI (res_world (resolve_query beh q w)).
Proof.
  induction q as [c|c|qs IH|q IH|l r IHl IHr|l r IHl IHr|q IH|q IH|q IH|] using query_ind'; intros w HB; cbn [resolve_query];
    try (apply rbind_BI; [now apply add_component_BI|intros; assumption]);
    try (apply rbind_BI; [now apply IH|intros; assumption]);
    try (apply rbind_BI; [now apply IHl|intros ? w1 HB1; apply rbind_BI; [now apply IHr|intros; assumption]]);
    try exact HB.
  apply rbind_BI; [|intros; assumption].
  revert w HB. induction IH as [|x t Hx _ IHt]; intros w HB; [exact HB|].
  apply rbind_BI; [now apply Hx|]. intros x' w1 HB1. apply rbind_BI; [now apply IHt|intros; assumption].
Qed.
Lemma register_set_BI evs : forall w, BI w -> BI (res_world (register_set beh evs w)).
Proof.
  induction evs as [|[t tag] rest IH]; intros w HB; cbn [register_set]; [exact HB|].
  apply rbind_BI.
  - destruct t; [now apply add_targeted_event_BI|now apply add_global_event_BI].
  - intros k w1 HB1. apply rbind_BI; [now apply IH|intros; assumption].
Qed.
Lemma init_param_BI p c w : BI w -> BI (res_world (init_param beh p c w)).
Proof.
  intros HB. destruct p; cbn [init_param].
  - apply rbind_BI; [now apply add_global_event_BI|intros; assumption].
  - apply rbind_BI; [now apply add_targeted_event_BI|]. intros k w1 HB1. apply rbind_BI; [now apply resolve_query_BI|intros; assumption].
  - apply rbind_BI; [now apply resolve_query_BI|intros; assumption].
  - apply rbind_BI; [now apply register_set_BI|intros; assumption].
Qed.
Lemma init_params_BI ps : forall c w, BI w -> BI (res_world (init_params beh ps c w)).
Proof.
  induction ps as [|p t IH]; intros c w HB; cbn [init_params]; [exact HB|].
  apply rbind_BI; [now apply init_param_BI|]. intros c1 w1 HB1. now apply IH.
Qed.
End Ops.

(* ---------- add_handler ---------- *)
Lemma sorted_snoc (L : list (N * key)) o k : StronglySorted (fun a b : N * key => fst a < fst b) L -> (forall o' k', In (o', k') L -> o' < o) ->
  StronglySorted (fun a b : N * key => fst a < fst b) (L ++ [(o, k)]).
Proof.
  induction 1 as [|[o1 k1] L S IH Hall]; intros Hlt; cbn [app]; [constructor; constructor|]. constructor.
  - apply IH. intros; eapply Hlt; right; eauto.
  - apply Forall_app. split; [exact Hall|]. constructor; [|constructor]. cbn [fst]. eapply Hlt. now left.
Qed.
Lemma sorted_filter {A} (R : A -> A -> Prop) (p : A -> bool) L : StronglySorted R L -> StronglySorted R (filter p L).
Proof.
  induction 1 as [|x L S IH Hall]; cbn [filter]; [constructor|]. destruct (p x); [|exact IH]. constructor; [exact IH|].
  rewrite Forall_forall in *. intros y Hy. apply filter_In in Hy as [Hy _]. now apply Hall.
Qed.

Lemma listeners_live w ai a idx l x : HL w -> arch_at w ai = Some a -> alookup idx (a_listeners a) = Some l -> In x (hl_entries l) ->
  exists h, sm_get x (w_hs w) = Some h.
Proof.
  intros (_ & L1 & _) Ha Hl Hx. destruct (L1 ai a idx Ha) as [_ Hm]. assert (X : In x (listeners_of a idx)) by (unfold listeners_of; now rewrite Hl).
  apply Hm in X as (h & _ & X & _). eauto.
Qed.
Lemma glist_live w idx l x : HL w -> nget (w_glists w) idx = Some l -> In x (hl_entries l) -> exists h, sm_get x (w_hs w) = Some h.
Proof.
  intros (_ & _ & L2) Hl Hx. destruct (L2 idx) as [_ Hm]. assert (X : In x (glist_of w idx)) by (unfold glist_of; now rewrite Hl).
  apply Hm in X as (h & _ & X & _). eauto.
Qed.

Lemma add_handler_entry_O w1 (f : key -> hinfo) k hs rv pr filt hby :
  HL w1 -> OInv w1 -> insert_with f (w_hs w1) = Some (k, hs) ->
  (forall k0, h_key (f k0) = k0 /\ h_order (f k0) = w_hctr w1 /\ h_recv (f k0) = rv /\ h_prio (f k0) = pr /\ h_filter (f k0) = filt) ->
  let gl := match rv with
            | RvGlobal ek =>
                let gl0 := nrepeat_to (w_glists w1) (N.to_nat (fst ek) + 1) hl_new in
                match nget gl0 (fst ek) with
                | Some l => nset gl0 (fst ek) (hl_insert l k pr)
                | None => gl0 end
            | RvTargeted _ => w_glists w1 end in
  OInv (archs_register_handler (set_hreg w1 hs gl hby (w_hctr w1 + 1) (w_horder w1 ++ [(w_hctr w1, k)])) k).
Proof.
  intros HH (O1 & O2 & O3) Ei Hf. pose proof HH as ((S & H1 & H2 & H3 & H4) & L1 & L2). cbn zeta.
  set (gl := match rv with RvGlobal ek => _ | RvTargeted _ => _ end).
  set (w2 := set_hreg w1 hs gl hby (w_hctr w1 + 1) (w_horder w1 ++ [(w_hctr w1, k)])).
  set (hnew := f k). destruct (Hf k) as (Fk & Fo & Fr & Fp & Ff). fold hnew in Fk, Fo, Fr, Fp, Ff.
  assert (Hgn : sm_get k hs = Some hnew) by exact (insert_get_new f (w_hs w1) k hs S Ei). clearbody hnew.
  assert (Hgo : forall k0, k0 <> k -> sm_get k0 hs = sm_get k0 (w_hs w1)) by (intros; eapply insert_get_other; eauto).
  assert (Hfr : sm_get k (w_hs w1) = None) by (eapply insert_get_fresh; eauto).
  rewrite archs_register_handler_unfold.
  destruct (arh_fold k (slab_iter (w_archs w2)) (slab_iter_nodup _) w2 hnew Hgn) as (A & (hf & B1 & B2) & C & D & E). cbn zeta in *.
  set (w3 := fold_left (arh_step k) (slab_iter (w_archs w2)) w2) in *.
  destruct (stat_eq _ _ B2) as (Gk & Go & Gr & Gf). pose proof (f_equal h_prio B2) as Gp. cbn in Gp.
  (* priorities and orders in w3 *)
  assert (Hkk : kpr w3 k = pr /\ kord w3 k = w_hctr w1) by (unfold kpr, kord; rewrite B1; split; congruence).
  assert (Hko : forall x h, sm_get x (w_hs w1) = Some h -> kpr w3 x = kpr w1 x /\ kord w3 x = kord w1 x /\ kord w1 x < w_hctr w1).
  { intros x h X. assert (x <> k) by (intros ->; congruence). unfold kpr, kord. rewrite (C x H). unfold w2. cbn [w_hs set_hreg]. rewrite (Hgo x H), X.
    split; [reflexivity|]. split; [reflexivity|]. exact (proj2 (proj2 (H1 x h X))). }
  destruct (hreg_parts w2 w3 A) as (_ & Eho & _ & Egl).
  split; [|split].
  - intros ai a3 idx l Ha3 Hl.
    assert (Hsrc : exists a hc, arch_at w1 ai = Some a /\ hstat hc = hstat hnew /\ a3 = fst (register_handler ai a hc)).
    { destruct (in_dec N.eq_dec ai (map fst (slab_iter (w_archs w2)))) as [Hin|Hn].
      - specialize (E ai Hin). change (arch_at w2 ai) with (arch_at w1 ai) in E. destruct (arch_at w1 ai) as [a|]; [|congruence].
        destruct E as (hc & E1 & E2). exists a, hc. split; [reflexivity|]. split; [exact E1|congruence].
      - rewrite (D ai Hn) in Ha3. change (arch_at w2 ai) with (arch_at w1 ai) in Ha3. exfalso. apply Hn. apply in_map_iff. exists (ai, a3). split; [reflexivity|].
        apply slab_iter_spec. exact Ha3. }
    destruct Hsrc as (a & hc & Ha & Hsc & ->). destruct (stat_eq _ _ Hsc) as (Ck & _). pose proof (f_equal h_prio Hsc) as Cp. cbn in Cp.
    apply (fun A B C => reg_lists_O w3 ai a hc A B C idx l Hl).
    + intros i0 l0 X. eapply HlInv_ext; [|exact (O1 ai a i0 l0 Ha X)]. intros x Hx. destruct (listeners_live w1 ai a i0 l0 x HH Ha X Hx) as (h & Y).
      destruct (Hko x h Y) as (P1 & P2 & _). auto.
    + rewrite Ck, Fk. rewrite (proj1 Hkk). congruence.
    + intros i0 l0 x X Hx. rewrite Ck, Fk, (proj2 Hkk). destruct (listeners_live w1 ai a i0 l0 x HH Ha X Hx) as (h & Y). destruct (Hko x h Y) as (_ & P2 & P3). now rewrite P2.
  - intros idx l Hl. rewrite Egl in Hl. unfold w2 in Hl. cbn [w_glists set_hreg] in Hl. unfold gl in Hl.
    assert (Hold : forall l0, nget (w_glists w1) idx = Some l0 -> HlW w3 l0).
    { intros l0 X. eapply HlInv_ext; [|exact (O2 idx l0 X)]. intros x Hx. destruct (glist_live w1 idx l0 x HH X Hx) as (h & Y). destruct (Hko x h Y) as (P1 & P2 & _). auto. }
    destruct rv as [ek|ek]; [|now apply Hold]. cbn zeta in Hl.
    set (gl0 := nrepeat_to (w_glists w1) (N.to_nat (fst ek) + 1) hl_new) in *.
    assert (Hg0 : forall i, nget gl0 i = match nget (w_glists w1) i with Some x => Some x | None => if i <? N.of_nat (N.to_nat (fst ek) + 1) then Some hl_new else None end) by (intros; apply nget_nrepeat_to).
    assert (Hlt0 : fst ek <? N.of_nat (N.to_nat (fst ek) + 1) = true) by (apply N.ltb_lt; lia).
    assert (Hge : nget gl0 (fst ek) = Some (match nget (w_glists w1) (fst ek) with Some l => l | None => hl_new end)).
    { rewrite Hg0, Hlt0. now destruct (nget (w_glists w1) (fst ek)). }
    rewrite Hge in Hl. destruct (N.eq_dec idx (fst ek)) as [->|Hne].
    + rewrite nget_nset_eq in Hl by (eapply nget_some_lt; eauto). inversion Hl; subst l. rewrite <- (proj1 Hkk). apply HListProofs.insert_inv.
      * destruct (nget (w_glists w1) (fst ek)) as [l0|] eqn:E0; [now apply Hold|apply HListProofs.hl_new_inv].
      * intros x Hx. rewrite (proj2 Hkk). destruct (nget (w_glists w1) (fst ek)) as [l0|] eqn:E0; [|destruct Hx].
        destruct (glist_live w1 (fst ek) l0 x HH E0 Hx) as (h & Y). destruct (Hko x h Y) as (_ & P2 & P3). now rewrite P2.
    + rewrite nget_nset_neq in Hl by auto. rewrite Hg0 in Hl. destruct (nget (w_glists w1) idx) as [l0|] eqn:E0; [inversion Hl; subst; now apply Hold|].
      destruct (idx <? _); inversion Hl; subst. apply HListProofs.hl_new_inv.
  - rewrite Eho. unfold w2. cbn [w_horder set_hreg]. apply sorted_snoc; [exact O3|]. intros o' k' Hin. destruct (H2 o' k' Hin) as (h & X & Eo). rewrite <- Eo. exact (proj2 (proj2 (H1 k' h X))).
Qed.

(* ---------- remove_handler ---------- *)
Lemma remove_handler_entry_O w k h hs' hby :
  HL w -> OInv w -> sm_remove k (w_hs w) = Some (h, hs') ->
  let gl := match h_recv h with
            | RvGlobal ek => match nget (w_glists w) (fst ek) with
                             | Some l => nset (w_glists w) (fst ek) (hl_remove key_eqb l k)
                             | None => w_glists w end
            | RvTargeted _ => w_glists w end in
  OInv (archs_remove_handler (set_hreg w hs' gl hby (w_hctr w) (filter (fun p => negb (fst p =? h_order h)) (w_horder w))) h).
Proof.
  intros HH (O1 & O2 & O3) Er. pose proof HH as ((S & H1 & H2 & H3 & H4) & L1 & L2). cbn zeta.
  set (gl := match h_recv h with RvGlobal ek => _ | RvTargeted _ => _ end).
  set (w2 := set_hreg w hs' gl hby (w_hctr w) (filter (fun p => negb (fst p =? h_order h)) (w_horder w))).
  set (w3 := archs_remove_handler w2 h).
  pose proof (remove_get_self k (w_hs w) h hs' Er) as Hk. destruct (H1 k h Hk) as (Hkk & _).
  assert (Hoth : forall x, x <> k -> sm_get x hs' = sm_get x (w_hs w)) by (intros; eapply remove_get_other; eauto).
  assert (Hkp : forall x, x <> k -> kpr w3 x = kpr w x /\ kord w3 x = kord w x).
  { intros x Hne. unfold kpr, kord. change (w_hs w3) with hs'. now rewrite (Hoth x Hne). }
  assert (Hxfer : forall l, ~ In k (hl_entries l) -> HlW w l -> HlW w3 l).
  { intros l Hn X. eapply HlInv_ext; [|exact X]. intros x Hx. apply Hkp. intros ->. contradiction. }
  split; [|split].
  - intros ai a3 idx l Ha3 Hl. unfold w3 in Ha3. rewrite archs_remove_handler_at in Ha3. change (arch_at w2 ai) with (arch_at w ai) in Ha3.
    destruct (arch_at w ai) as [a|] eqn:Ha; [|discriminate]. injection Ha3 as <-.
    destruct (L1 ai a idx Ha) as [Hnd Hm].
    assert (Hkin : forall l0, alookup idx (a_listeners a) = Some l0 -> In k (hl_entries l0) -> exists ek, h_recv h = RvTargeted ek /\ fst ek = idx).
    { intros l0 X Y. assert (Z : In k (listeners_of a idx)) by (unfold listeners_of; now rewrite X). apply Hm in Z as (h0 & ek & Z & Y1 & Y2 & _).
      unfold hlive in Z. rewrite Hk in Z. inversion Z; subst h0. eauto. }
    unfold rm_arch in Hl. cbn [a_listeners set_tables] in Hl. destruct (h_recv h) as [ek|ek] eqn:Hr.
    + apply Hxfer; [|eapply O1; eauto]. intros X. destruct (Hkin l Hl X) as (ek' & Y & _). discriminate.
    + destruct (alookup (fst ek) (a_listeners a)) as [l0|] eqn:El.
      * destruct (N.eq_dec idx (fst ek)) as [->|Hne].
        -- rewrite alookup_ainsert_eq in Hl. inversion Hl; subst l. rewrite Hkk.
           assert (Hnd0 : NoDup (hl_entries l0)) by (unfold listeners_of in Hnd; now rewrite El in Hnd).
           destruct (hl_remove_spec l0 k Hnd0) as [_ Hin']. apply Hxfer; [intros X; apply Hin' in X as [_ X]; now apply X|].
           apply (HListProofs.remove_inv key_eqb key_eqb_spec). eapply O1; eauto.
        -- rewrite alookup_ainsert_neq in Hl by exact Hne. apply Hxfer; [|eapply O1; eauto]. intros X. destruct (Hkin l Hl X) as (ek' & Y & Z). inversion Y; subst. now apply Hne.
      * destruct (N.eq_dec idx (fst ek)) as [->|Hne]; [congruence|]. apply Hxfer; [|eapply O1; eauto]. intros X. destruct (Hkin l Hl X) as (ek' & Y & Z). inversion Y; subst. now apply Hne.
  - intros idx l Hl. change (w_glists w3) with gl in Hl. destruct (L2 idx) as [Hnd Hm].
    assert (Hkin : forall l0, nget (w_glists w) idx = Some l0 -> In k (hl_entries l0) -> exists ek, h_recv h = RvGlobal ek /\ fst ek = idx).
    { intros l0 X Y. assert (Z : In k (glist_of w idx)) by (unfold glist_of; now rewrite X). apply Hm in Z as (h0 & ek & Z & Y1 & Y2).
      unfold hlive in Z. rewrite Hk in Z. inversion Z; subst h0. eauto. }
    unfold gl in Hl. destruct (h_recv h) as [ek|ek] eqn:Hr.
    + destruct (nget (w_glists w) (fst ek)) as [l0|] eqn:El.
      * destruct (N.eq_dec idx (fst ek)) as [->|Hne].
        -- rewrite nget_nset_eq in Hl by (eapply nget_some_lt; eauto). inversion Hl; subst l.
           assert (Hnd0 : NoDup (hl_entries l0)) by (unfold glist_of in Hnd; now rewrite El in Hnd).
           destruct (hl_remove_spec l0 k Hnd0) as [_ Hin']. apply Hxfer; [intros X; apply Hin' in X as [_ X]; now apply X|].
           apply (HListProofs.remove_inv key_eqb key_eqb_spec). eapply O2; eauto.
        -- rewrite nget_nset_neq in Hl by auto. apply Hxfer; [|eapply O2; eauto]. intros X. destruct (Hkin l Hl X) as (ek' & Y & Z). inversion Y; subst. now apply Hne.
      * apply Hxfer; [|eapply O2; eauto]. intros X. destruct (Hkin l Hl X) as (ek' & Y & Z). inversion Y; subst. rewrite El in Hl. discriminate.
    + apply Hxfer; [|eapply O2; eauto]. intros X. destruct (Hkin l Hl X) as (ek' & Y & _). discriminate.
  - change (w_horder w3) with (filter (fun p => negb (fst p =? h_order h)) (w_horder w)). now apply sorted_filter.
Qed.

Section Ops2.
Variable beh : hinfo -> logent -> N -> script.

Theorem add_handler_BI sh w : BI w -> BI (res_world (add_handler beh sh w)).
Proof.
  intros HB. pose proof (add_handler_AI beh sh w (proj1 HB)) as HA. unfold add_handler in *.
  destruct (match sh_tid sh with Some t => alookup t (w_hby w) | None => None end); [exact HB|].
  pose proof (init_params_BI beh (sh_params sh) cfg0 w HB) as HB1.
  destruct (init_params beh (sh_params sh) cfg0 w) as [c w1|f w1]; cbn [rbind res_world] in *; [|exact HB1].
  destruct (cf_recv c) as [|rv|]; try exact HB1. destruct (cf_access c) as [acc|]; [|exact HB1].
  destruct (handler_conflicts (cf_cas c)); [|exact HB1].
  destruct (insert_with _ (w_hs w1)) as [[k hs]|] eqn:Ei; [|exact HB1].
  destruct (BI_parts _ HB1) as (HF1 & HH1 & HO1).
  match goal with |- context [archs_register_handler ?w2 k] =>
    assert (HB3 : BI (archs_register_handler w2 k)) end.
  { split.
    - destruct (AI_parts _ (proj1 HB1)) as ([HR1 HK1] & _ & HG1).
      match goal with |- AI (archs_register_handler ?w2 k) => destruct (archs_register_handler_structure w2 k) as [Hs Hg]; split; [split; [split|]|] end.
      + match goal with |- RInv (archs_register_handler ?w2 k) => apply (RInv_structure w2); [exact Hs|exact Hg|exact HR1] end.
      + match goal with |- KInv (archs_register_handler ?w2 k) => apply (KInv_kreg w2); [apply kreg_archs_register_handler|exact (proj1 (structure_cshape _ _ Hs))|exact HK1] end.
      + eapply (add_handler_entry_HL w1 _ k hs rv (sh_prio sh) (cf_filter c)); [exact HH1|exact Ei|]. intros k0. repeat split.
      + unfold GInv in *. rewrite Hg. exact HG1.
    - eapply (add_handler_entry_O w1 _ k hs rv (sh_prio sh) (cf_filter c)); [exact HH1|exact HO1|exact Ei|]. intros k0. repeat split. }
  apply rbind_BI; [now apply send_global_BI|intros; assumption].
Qed.

Theorem remove_handler_BI k w : BI w -> BI (res_world (remove_handler beh k w)).
Proof.
  intros HB. unfold remove_handler. destruct (sm_get k (w_hs w)) as [h0|]; [|exact HB]. clear h0.
  apply rbind_BI; [now apply send_global_BI|]. intros [] w1 HB1. destruct (BI_parts _ HB1) as (HF1 & HH1 & HO1).
  pose proof (remove_handler_AI beh k w1) as X. (* only used for its shape *) clear X.
  unfold handlers_remove. destruct (sm_remove k (w_hs w1)) as [[h1 hs]|] eqn:Er; [|exact HB1]. cbn [res_world].
  split.
  - destruct (AI_parts _ (proj1 HB1)) as ([HR1 HK1] & _ & HG1).
    match goal with |- AI (archs_remove_handler ?w2 h1) => destruct (archs_remove_handler_structure w2 h1) as [Hs Hg]; split; [split; [split|]|] end.
    + match goal with |- RInv (archs_remove_handler ?w2 h1) => apply (RInv_structure w2); [exact Hs|exact Hg|exact HR1] end.
    + match goal with |- KInv (archs_remove_handler ?w2 h1) => apply (KInv_kreg w2); [reflexivity|exact (proj1 (structure_cshape _ _ Hs))|exact HK1] end.
    + exact (remove_handler_entry_HL w1 k h1 hs _ HH1 Er).
    + unfold GInv in *. rewrite Hg. exact HG1.
  - exact (remove_handler_entry_O w1 k h1 hs _ HH1 HO1 Er).
Qed.
Lemma remove_handlers_BI ks : forall w, BI w -> BI (res_world (remove_handlers beh ks w)).
Proof.
  induction ks as [|k t IH]; intros w HB; cbn [remove_handlers]; [exact HB|].
  apply rbind_BI; [now apply remove_handler_BI|]. intros b w1 HB1. now apply IH.
Qed.

Theorem remove_global_event_BI k w : BI w -> BI (res_world (remove_global_event beh k w)).
Proof.
  intros HB. pose proof (remove_global_event_AI beh k w (proj1 HB)) as HA. unfold remove_global_event in *.
  destruct (sm_get k (w_gev w)); [|exact HB].
  pose proof (send_global_BI beh G_RMGE (mkEv 0 0 k) w HB) as X.
  destruct (send_global beh RFUEL G_RMGE (mkEv 0 0 k) w) as [[] w1|f w1]; cbn [rbind res_world] in *; [|exact X].
  match goal with |- context [remove_handlers beh ?ks w1] => pose proof (remove_handlers_BI ks w1 X) as Y; destruct (remove_handlers beh ks w1) as [[] w2|f w2] end; cbn [rbind res_world] in *; [|exact Y].
  destruct (sm_remove k (w_gev w2)) as [[info m]|]; [|exact Y]. cbn [res_world] in *. split; [exact HA|]. apply (OInv_conv w2); try reflexivity. exact (proj2 Y).
Qed.
Theorem remove_targeted_event_BI k w : BI w -> BI (res_world (remove_targeted_event beh k w)).
Proof.
  intros HB. pose proof (remove_targeted_event_AI beh k w (proj1 HB)) as HA. unfold remove_targeted_event in *.
  destruct (sm_get k (w_tev w)); [|exact HB].
  pose proof (send_global_BI beh G_RMTE (mkEv 0 0 k) w HB) as X.
  destruct (send_global beh RFUEL G_RMTE (mkEv 0 0 k) w) as [[] w1|f w1]; cbn [rbind res_world] in *; [|exact X].
  match goal with |- context [remove_handlers beh ?ks w1] => pose proof (remove_handlers_BI ks w1 X) as Y; destruct (remove_handlers beh ks w1) as [[] w2|f w2] end; cbn [rbind res_world] in *; [|exact Y].
  destruct (sm_remove k (w_tev w2)) as [[info m]|]; [|exact Y]. cbn [res_world] in *. split; [exact HA|].
  apply (OInv_conv w2); try (destruct (e_kind info); reflexivity). exact (proj2 Y).
Qed.
Lemma remove_tevents_BI ks : forall w, BI w -> BI (res_world (remove_tevents beh ks w)).
Proof.
  induction ks as [|k t IH]; intros w HB; cbn [remove_tevents]; [exact HB|].
  apply rbind_BI; [now apply remove_targeted_event_BI|]. intros b w1 HB1. now apply IH.
Qed.

Lemma archs_remove_component_O cidx ctag w l : OInv w -> OInv (archs_remove_component w cidx ctag l).
Proof.
  intros H. rewrite archs_remove_component_unfold.
  assert (X : OInv (fold_left (rc_step cidx ctag) l w)).
  { apply fold_left_invariant; [exact H|]. intros acc y. apply OInv_sub; [apply rc_step_hreg|]. intros j a' Hj. exists a'. split; [eapply rc_step_arch_sub; eauto|reflexivity]. }
  revert X. apply OInv_sub; [reflexivity|]. intros j a' Hj. rewrite strip_arch_at in Hj. destruct (arch_at _ j) as [a|]; [|discriminate]. inversion Hj; subst. exists a. split; reflexivity.
Qed.

Theorem remove_component_BI k w : BI w -> BI (res_world (remove_component beh k w)).
Proof.
  intros HB. pose proof (remove_component_AI beh k w (proj1 HB)) as HA. unfold remove_component in *.
  destruct (sm_get k (w_comps w)) as [ci0|]; [|exact HB]. clear ci0.
  pose proof (send_global_BI beh G_RMC (mkEv 0 0 k) w HB) as X1.
  destruct (send_global beh RFUEL G_RMC (mkEv 0 0 k) w) as [[] w1|f w1]; cbn [rbind res_world] in *; [|exact X1].
  pose proof (add_targeted_event_BI beh T_DESPAWN w1 X1) as X2.
  destruct (add_targeted_event beh T_DESPAWN w1) as [dk w2|f w2]; cbn [rbind res_world] in *; [|exact X2].
  match goal with |- context [flush beh ?q w2] => pose proof (flush_BI beh q w2 X2) as X3; destruct (flush beh q w2) as [[] w3|f w3] end; cbn [rbind res_world] in *; [|exact X3].
  match goal with |- context [remove_handlers beh ?ks w3] => pose proof (remove_handlers_BI ks w3 X3) as X4; destruct (remove_handlers beh ks w3) as [[] w4|f w4] end; cbn [rbind res_world] in *; [|exact X4].
  destruct (sm_get k (w_comps w4)) as [ci|]; [|exact X4].
  pose proof (remove_tevents_BI (c_ins ci ++ c_rem ci) w4 X4) as X5.
  destruct (remove_tevents beh (c_ins ci ++ c_rem ci) w4) as [[] w5|f w5]; cbn [rbind res_world] in *; [|exact X5].
  destruct (sm_remove k (w_comps w5)) as [[ci' m]|]; [|exact X5]. cbn [res_world] in *.
  split; [exact HA|].
  change (OInv (archs_remove_component (set_comps w5 m (aremove (c_tag ci') (w_cby w5))) (fst k) (c_tag ci') (c_member_of ci'))).
  apply archs_remove_component_O. apply (OInv_conv w5); try reflexivity. exact (proj2 X5).
Qed.
End Ops2.

Lemma BI_world0 fuel p : BI (world0 fuel p).
Proof.
  split; [apply AI_world0|]. unfold OInv, world0, arch_at. cbn [w_glists w_horder w_archs]. split; [|split; [|constructor]].
  - intros ai a idx l Ha. unfold slab_get in Ha. cbn [sl_entries nget] in Ha. destruct (ai =? 0); [|discriminate]. inversion Ha; subst. discriminate.
  - intros idx l H. discriminate.
Qed.

Lemma run_top_all_BI beh w o : BI w -> BI (run_top_all beh w o).
Proof.
  intros HB. destruct o as [o|k]; cbn [run_top_all]; [|now apply remove_component_BI]. destruct o; cbn [run_top].
  - now apply op_spawn_BI. - now apply op_insert_BI. - now apply op_remove_BI. - now apply op_despawn_BI.
  - now apply op_send_BI. - now apply op_send_to_BI. - now apply add_handler_BI. - now apply remove_handler_BI.
  - now apply add_component_BI. - now apply add_global_event_BI. - now apply add_targeted_event_BI.
  - now apply remove_global_event_BI. - now apply remove_targeted_event_BI.
Qed.

Theorem reachable_BI beh fuel p ops : BI (fold_left (run_top_all beh) ops (world0 fuel p)).
Proof. apply fold_left_invariant; [apply BI_world0|]. intros w o. apply run_top_all_BI. Qed.

(* C07: the handlers of a delivery are sorted by priority, then by the order they were added *)
Theorem delivered_to_sorted w it : OInv w ->
  StronglySorted (HListProofs.before_in_order (kpr w) (kord w)) (delivered_to w it).
Proof.
  intros (O1 & O2 & _). unfold delivered_to, glist_of, listeners_of. destruct (qi_targeted it).
  - destruct (sm_get (qi_target it) (w_ents w)) as [loc|]; [|constructor]. destruct (slab_get (w_archs w) (fst loc)) as [a|] eqn:Ha; [|constructor].
    destruct (alookup (qi_idx it) (a_listeners a)) as [l|] eqn:El; [|constructor]. apply HListProofs.hl_sorted. exact (O1 (fst loc) a (qi_idx it) l Ha El).
  - destruct (nget (w_glists w) (qi_idx it)) as [l|] eqn:El; [|constructor]. apply HListProofs.hl_sorted. exact (O2 (qi_idx it) l El).
Qed.
