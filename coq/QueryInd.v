(* QueryInd.v : the induction principle for query expressions (nested lists), independent of the access tables. *)
From Coq Require Import List NArith.
Import ListNotations.
Require Import EV.Base EV.Query.

Section QInd.
Variable P : query -> Prop.
Hypotheses (HRef : forall c, P (QRef c)) (HMut : forall c, P (QMut c))
  (HTuple : forall qs, Forall P qs -> P (QTuple qs))
  (HOpt : forall q, P q -> P (QOpt q)) (HOr : forall l r, P l -> P r -> P (QOr l r))
  (HXor : forall l r, P l -> P r -> P (QXor l r)) (HNot : forall q, P q -> P (QNot q))
  (HWith : forall q, P q -> P (QWith q)) (HHas : forall q, P q -> P (QHas q)) (HEid : P QEid).
Fixpoint query_ind' (q : query) : P q :=
  match q with
  | QRef c => HRef c | QMut c => HMut c
  | QTuple qs => HTuple qs ((fix go (l : list query) : Forall P l :=
                     match l with [] => Forall_nil P | x :: t => Forall_cons x (query_ind' x) (go t) end) qs)
  | QOpt q' => HOpt q' (query_ind' q')
  | QOr l r => HOr l r (query_ind' l) (query_ind' r)
  | QXor l r => HXor l r (query_ind' l) (query_ind' r)
  | QNot q' => HNot q' (query_ind' q')
  | QWith q' => HWith q' (query_ind' q')
  | QHas q' => HHas q' (query_ind' q')
  | QEid => HEid
  end.
End QInd.
