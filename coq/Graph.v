(* Graph.v : the archetype-graph part of the invariant (C17) and the specification of
   traverse_insert / traverse_remove.
     - archetype slab: the free list is a chain of vacant entries ending one past the end;
     - by_components maps every live archetype's component list back to its index;
     - every cached transition leads to a live archetype that differs by exactly the label.  *)
From Coq Require Import List NArith Bool Lia Sorted.
Import ListNotations.
Require Import EV.Base EV.ListN EV.Access EV.Query EV.SlotMap EV.Reserve EV.HList EV.Loop EV.World EV.SlotMapGet EV.ArchProofs EV.Store.
Open Scope N_scope.

(* ---------- slab (slab 0.4: LIFO free list threaded through vacant entries) ---------- *)
Inductive schain (l : list sentry) : N -> list N -> Prop :=
| sch_end : schain l (nlen l) []
| sch_cons i nx rest : nget l i = Some (SVac nx) -> schain l nx rest -> schain l i (i :: rest).
Definition SlabInv (s : slab) : Prop := exists c, schain (sl_entries s) (sl_next s) c /\ NoDup c.

Lemma schain_vac l h c : schain l h c -> forall i, In i c -> exists nx, nget l i = Some (SVac nx).
Proof. induction 1 as [|i nx rest Hg _ IH]; intros j Hj; [destruct Hj|]. destruct Hj as [<-|Hj]; eauto. Qed.
Lemma schain_nset_notin l i x : forall h c, schain l h c -> ~ In i c -> schain (nset l i x) h c.
Proof.
  intros h c H. induction H as [|j nx rest Hg Hc IH]; intros Hin.
  - rewrite <- (nlen_nset l i x). constructor.
  - econstructor; [rewrite nget_nset_neq; [exact Hg|]|apply IH]; intros X; apply Hin; [subst; now left|now right].
Qed.
Lemma schain_head_end l c : schain l (nlen l) c -> c = [].
Proof. intros H. inversion H as [|i nx rest Hg Hc]; [reflexivity|]. subst. apply nget_some_lt in Hg. lia. Qed.
Lemma schain_head_lt l h c x : schain l h c -> nget l h = Some x -> exists nx rest, x = SVac nx /\ c = h :: rest /\ schain l nx rest.
Proof. intros H Hx. inversion H as [|i nx rest Hg Hc]; subst; [apply nget_some_lt in Hx; lia|]. rewrite Hg in Hx. inversion Hx. eauto. Qed.
Lemma schain_head_cases l h c : schain l h c -> h = nlen l \/ exists nx, nget l h = Some (SVac nx).
Proof. intros H. inversion H; subst; eauto. Qed.

(* what insertion does: the new archetype sits at the key that was announced, everything else
   stays, the free list stays a chain *)
Lemma slab_insert_spec s a : SlabInv s ->
  slab_get (slab_insert s a) (slab_vacant_key s) = Some a /\
  slab_get s (slab_vacant_key s) = None /\
  (forall j, j <> slab_vacant_key s -> slab_get (slab_insert s a) j = slab_get s j) /\
  SlabInv (slab_insert s a).
Proof.
  intros (c & Hc & Hnd). unfold slab_insert, slab_vacant_key, slab_get.
  destruct (schain_head_cases _ _ _ Hc) as [E|(nx & Hv)].
  - rewrite E, N.eqb_refl. cbn [sl_entries sl_next]. rewrite nget_snoc_last. split; [reflexivity|].
    rewrite (nget_ge_none (sl_entries s) (nlen (sl_entries s))) by lia. split; [reflexivity|]. split.
    + intros j Hj. destruct (N.lt_ge_cases j (nlen (sl_entries s))) as [L|G]; [now rewrite nget_app_l|].
      rewrite nget_app_r by exact G. rewrite (nget_ge_none _ j G).
      destruct (j - nlen (sl_entries s) =? 0) eqn:Z; [apply N.eqb_eq in Z; lia|]. cbn [nget]. now rewrite Z.
    + exists []. split; [|constructor]. cbn [sl_entries sl_next]. rewrite <- (N.add_comm 1), N.add_comm.
      replace (nlen (sl_entries s) + 1) with (nlen (sl_entries s ++ [SOcc a])) by (rewrite nlen_app; reflexivity). constructor.
  - assert (Hlt : sl_next s < nlen (sl_entries s)) by (eapply nget_some_lt; eauto).
    replace (sl_next s =? nlen (sl_entries s)) with false by (symmetry; apply N.eqb_neq; lia). rewrite Hv.
    cbn [sl_entries sl_next]. rewrite nget_nset_eq by exact Hlt. split; [reflexivity|]. split; [reflexivity|]. split.
    + intros j Hj. now rewrite nget_nset_neq by auto.
    + destruct (schain_head_lt _ _ _ _ Hc Hv) as (nx' & rest & E & -> & Hrest). inversion E; subst nx'. inversion Hnd; subst.
      exists rest. split; [apply schain_nset_notin; assumption|assumption].
Qed.

Lemma slab_remove_spec s i a : SlabInv s -> slab_get s i = Some a ->
  slab_get (slab_remove s i) i = None /\ (forall j, j <> i -> slab_get (slab_remove s i) j = slab_get s j) /\ SlabInv (slab_remove s i).
Proof.
  intros (c & Hc & Hnd) Ha. unfold slab_remove, slab_get in *. cbn [sl_entries sl_next].
  destruct (nget (sl_entries s) i) as [[a0|n]|] eqn:E; try discriminate.
  assert (Hlt : i < nlen (sl_entries s)) by (eapply nget_some_lt; eauto).
  rewrite nget_nset_eq by exact Hlt. split; [reflexivity|]. split; [intros j Hj; now rewrite nget_nset_neq by auto|].
  assert (Hnotin : ~ In i c). { intros Hin. destruct (schain_vac _ _ _ Hc _ Hin) as (nx & Hv). congruence. }
  exists (i :: c). split; [|constructor; assumption].
  econstructor; [apply nget_nset_eq; exact Hlt|apply schain_nset_notin; assumption].
Qed.

Lemma slab_set_inv s i a0 a : SlabInv s -> slab_get s i = Some a0 -> SlabInv (slab_set s i a).
Proof.
  intros (c & Hc & Hnd) Ha. exists c. split; [|exact Hnd]. unfold slab_set. cbn [sl_entries sl_next].
  apply schain_nset_notin; [exact Hc|]. intros Hin. destruct (schain_vac _ _ _ Hc _ Hin) as (nx & Hv).
  unfold slab_get in Ha. rewrite Hv in Ha. discriminate.
Qed.

(* ---------- the graph invariant ---------- *)
Definition GraphInv (w : world) : Prop :=
  SlabInv (w_archs w) /\
  (* by_components <-> live archetypes *)
  (forall ai a, arch_at w ai = Some a -> aby_lookup w (a_comps a) = Some ai) /\
  (forall cs ai, aby_lookup w cs = Some ai -> exists a, arch_at w ai = Some a /\ a_comps a = cs) /\
  (* cached transitions *)
  (forall ai a c d, arch_at w ai = Some a -> alookup c (a_ins a) = Some d ->
     ~ In c (a_comps a) /\ exists b, arch_at w d = Some b /\ a_comps b = sorted_insert c (a_comps a)) /\
  (forall ai a c d, arch_at w ai = Some a -> alookup c (a_rem a) = Some d ->
     In c (a_comps a) /\ exists b, arch_at w d = Some b /\ a_comps b = filter (fun x => negb (x =? c)) (a_comps a)) /\
  (* component lists are strictly sorted *)
  (forall ai a, arch_at w ai = Some a -> StronglySorted N.lt (a_comps a)).

(* ---------- create_arch ---------- *)
Definition same_core (a b : arch) : Prop :=
  a_comps a = a_comps b /\ a_rows a = a_rows b /\ a_ins a = a_ins b /\ a_rem a = a_rem b /\ a_cap a = a_cap b.
Lemma same_core_refl a : same_core a a. Proof. repeat split. Qed.
Lemma register_handler_core ai a h : same_core (fst (register_handler ai a h)) a.
Proof.
  unfold register_handler. destruct (ca_matches (arch_has a) (h_archfilter h)); destruct (h_recv h); cbn [fst];
    try destruct (ca_matches _ (h_filter h)); cbn [fst]; repeat split.
Qed.

Lemma fold_left_invariant {A B} (P : A -> Prop) (f : A -> B -> A) (l : list B) (x : A) :
  P x -> (forall acc y, P acc -> P (f acc y)) -> P (fold_left f l x).
Proof. intros Hx Hf. revert x Hx. induction l as [|y l IH]; intros x Hx; cbn; auto. Qed.

Lemma create_arch_spec w cs ins rem :
  exists a1, same_core a1 (mkA (w_auid w) cs [] 0 0 ins rem [] []) /\
    fst (create_arch w cs ins rem) = slab_vacant_key (w_archs w) /\
    w_archs (snd (create_arch w cs ins rem)) = slab_insert (w_archs w) a1 /\
    w_ents (snd (create_arch w cs ins rem)) = w_ents w /\
    w_aby (snd (create_arch w cs ins rem)) = w_aby w ++ [(cs, slab_vacant_key (w_archs w))].
Proof.
  unfold create_arch.
  set (a0 := mkA (w_auid w) cs [] 0 0 ins rem [] []).
  set (w1 := set_comps w _ (w_cby w)).
  match goal with |- context [fold_left ?f (w_horder w1) (a0, w_hs w1)] =>
    assert (G : same_core (fst (fold_left f (w_horder w1) (a0, w_hs w1))) a0) end.
  { apply (fold_left_invariant (fun p : arch * smap hinfo => same_core (fst p) a0)); [apply same_core_refl|].
    intros [a hs] [o hk] Hc. cbn [fst] in Hc. destruct (sm_get hk hs) as [h|]; [|exact Hc].
    pose proof (register_handler_core (slab_vacant_key (w_archs w)) a h) as Hr.
    destruct (register_handler (slab_vacant_key (w_archs w)) a h) as [a' h']. cbn [fst] in *.
    destruct Hr as (H1 & H2 & H3 & H4 & H5), Hc as (C1 & C2 & C3 & C4 & C5). repeat split; congruence. }
  destruct (fold_left _ (w_horder w1) (a0, w_hs w1)) as [a1 hs1]. cbn [fst] in G.
  exists a1. split; [exact G|]. cbn [fst snd w_archs w_ents w_aby set_archs set_aidx set_hs set_comps]. repeat split.
Qed.

(* ---------- replacing an archetype by one with the same rows and components ---------- *)
Lemma StoreInv_replace w i a a' : StoreInv w -> arch_at w i = Some a -> a_comps a' = a_comps a -> a_rows a' = a_rows a ->
  StoreInv (set_archs w (slab_set (w_archs w) i a')).
Proof.
  intros (Hsm & Hl & Hr) Ha Hc Hrw. unfold StoreInv, arch_at in *. cbn [w_ents w_archs set_archs]. split; [exact Hsm|]. split.
  - intros e ai row He. destruct (Hl _ _ _ He) as (b & vb & Hb & Hn). destruct (N.eq_dec i ai) as [<-|Hne].
    + rewrite Ha in Hb. inversion Hb; subst b. exists a', vb. split; [eapply slab_get_set_eq; eauto|now rewrite Hrw].
    + exists b, vb. split; [now rewrite slab_get_set_neq|exact Hn].
  - intros ai b row e vals Hb Hn. destruct (N.eq_dec i ai) as [<-|Hne].
    + rewrite (slab_get_set_eq _ _ _ a' Ha) in Hb. inversion Hb; subst b. rewrite Hrw in Hn. rewrite Hc. eauto.
    + rewrite slab_get_set_neq in Hb by auto. eauto.
Qed.
Lemma abs_replace w i a a' : arch_at w i = Some a -> a_comps a' = a_comps a -> a_rows a' = a_rows a ->
  forall e c, abs (set_archs w (slab_set (w_archs w) i a')) e c = abs w e c.
Proof.
  intros Ha Hc Hrw e c. unfold abs, arch_at in *. cbn [w_ents w_archs set_archs]. destruct (sm_get e (w_ents w)) as [[ai row]|]; [|reflexivity].
  destruct (N.eq_dec i ai) as [<-|Hne].
  - rewrite (slab_get_set_eq _ _ _ a' Ha), Ha, Hrw. destruct (nget (a_rows a) row) as [[k vals]|]; [|reflexivity]. unfold row_col. now rewrite Hc.
  - now rewrite slab_get_set_neq.
Qed.

(* adding an empty archetype at the vacant key *)
Lemma StoreInv_add_empty w a1 : StoreInv w -> SlabInv (w_archs w) -> a_rows a1 = [] ->
  StoreInv (set_archs w (slab_insert (w_archs w) a1)).
Proof.
  intros (Hsm & Hl & Hr) Hs Hrows. destruct (slab_insert_spec (w_archs w) a1 Hs) as (Hnew & Hold & Hoth & _).
  unfold StoreInv, arch_at in *. cbn [w_ents w_archs set_archs]. split; [exact Hsm|]. split.
  - intros e ai row He. destruct (Hl _ _ _ He) as (b & vb & Hb & Hn). exists b, vb. split; [|exact Hn].
    rewrite Hoth; [exact Hb|]. intros ->. congruence.
  - intros ai b row e vals Hb Hn. destruct (N.eq_dec ai (slab_vacant_key (w_archs w))) as [->|Hne].
    + rewrite Hnew in Hb. inversion Hb; subst b. rewrite Hrows in Hn. discriminate.
    + rewrite Hoth in Hb by exact Hne. eauto.
Qed.
Lemma abs_add_empty w a1 : SlabInv (w_archs w) -> StoreInv w ->
  forall e c, abs (set_archs w (slab_insert (w_archs w) a1)) e c = abs w e c.
Proof.
  intros Hs (_ & Hl & _) e c. destruct (slab_insert_spec (w_archs w) a1 Hs) as (_ & Hold & Hoth & _).
  unfold abs, arch_at in *. cbn [w_ents w_archs set_archs]. destruct (sm_get e (w_ents w)) as [[ai row]|] eqn:He; [|reflexivity].
  destruct (Hl _ _ _ He) as (b & vb & Hb & Hn). rewrite Hoth; [reflexivity|]. intros ->. congruence.
Qed.

(* ---------- sorted component lists ---------- *)
Lemma sorted_insert_in c l x : In x (sorted_insert c l) <-> x = c \/ In x l.
Proof.
  induction l as [|h t IH]; cbn; [intuition|]. destruct (c <? h); cbn; [intuition|]. rewrite IH. intuition.
Qed.
Lemma arch_has_in a c : arch_has a c = true <-> In c (a_comps a).
Proof.
  unfold arch_has. rewrite existsb_exists. split.
  - intros (x & Hx & E). apply N.eqb_eq in E. now subst.
  - intros H. exists c. split; [exact H|apply N.eqb_refl].
Qed.
Lemma filter_sorted_insert c l : ~ In c l -> filter (fun x => negb (x =? c)) (sorted_insert c l) = l.
Proof.
  induction l as [|h t IH]; intros Hn; cbn.
  - now rewrite N.eqb_refl.
  - assert (h <> c) by (intros ->; apply Hn; now left). assert (Ht : ~ In c t) by (intros X; apply Hn; now right).
    destruct (c <? h); cbn; rewrite ?N.eqb_refl; cbn.
    + replace (h =? c) with false by (symmetry; now apply N.eqb_neq). cbn. f_equal.
      clear -Ht. induction t as [|y t IHt]; [reflexivity|]. cbn. assert (y <> c) by (intros ->; apply Ht; now left).
      replace (y =? c) with false by (symmetry; now apply N.eqb_neq). cbn. f_equal. apply IHt. intros X. apply Ht. now right.
    + replace (h =? c) with false by (symmetry; now apply N.eqb_neq). cbn. f_equal. apply IH, Ht.
Qed.
Lemma sorted_insert_sorted c l : StronglySorted N.lt l -> ~ In c l -> StronglySorted N.lt (sorted_insert c l).
Proof.
  induction l as [|h t IH]; intros Hs Hn; cbn; [repeat constructor|]. apply StronglySorted_inv in Hs as [Hs Hall].
  assert (h <> c) by (intros ->; apply Hn; now left). destruct (c <? h) eqn:E.
  - apply N.ltb_lt in E. constructor; [constructor; assumption|]. constructor; [exact E|]. rewrite Forall_forall in *. intros x Hx. specialize (Hall x Hx). lia.
  - apply N.ltb_ge in E. constructor; [apply IH; [exact Hs|intros X; apply Hn; now right]|]. rewrite Forall_forall in *. intros x Hx.
    apply sorted_insert_in in Hx as [->|Hx]; [lia|auto].
Qed.
Lemma sorted_insert_length c l : length (sorted_insert c l) = S (length l).
Proof. induction l as [|h t IH]; cbn; [reflexivity|]. destruct (c <? h); cbn; [reflexivity|now rewrite IH]. Qed.

Lemma list_eqb_N_spec (a b : list N) : list_eqb N.eqb a b = true <-> a = b.
Proof.
  revert b. induction a as [|x a IH]; intros [|y b]; cbn; split; try congruence; try discriminate; auto.
  - intros H. apply andb_true_iff in H as [H1 H2]. apply N.eqb_eq in H1. apply IH in H2. congruence.
  - intros H. inversion H; subst. rewrite N.eqb_refl. cbn. now apply IH.
Qed.
Lemma find_app {A} (p : A -> bool) l1 l2 : find p (l1 ++ l2) = match find p l1 with Some x => Some x | None => find p l2 end.
Proof. induction l1 as [|h t IH]; cbn; [reflexivity|]. destruct (p h); [reflexivity|exact IH]. Qed.

Lemma aby_lookup_snoc w0 x cs0 ai0 cs : w_aby x = w_aby w0 ++ [(cs0, ai0)] ->
  aby_lookup x cs = match aby_lookup w0 cs with Some ai => Some ai | None => if list_eqb N.eqb cs0 cs then Some ai0 else None end.
Proof.
  unfold aby_lookup. intros ->. rewrite find_app. destruct (find _ (w_aby w0)) as [p|]; [reflexivity|]. cbn [find fst snd].
  destruct (list_eqb N.eqb cs0 cs); reflexivity.
Qed.

Lemma aby_lookup_mono_app w0 x l cs ai : w_aby x = w_aby w0 ++ l -> aby_lookup w0 cs = Some ai -> aby_lookup x cs = Some ai.
Proof.
  unfold aby_lookup. intros -> H. rewrite find_app. destruct (find _ (w_aby w0)); [exact H|discriminate].
Qed.
Lemma aby_lookup_upd_arch w i f cs : aby_lookup (upd_arch w i f) cs = aby_lookup w cs.
Proof. unfold upd_arch. destruct (slab_get (w_archs w) i); reflexivity. Qed.

(* adding a cached insert transition src -c-> d *)
Lemma GraphInv_add_ins_edge w src sa c d db :
  GraphInv w -> arch_at w src = Some sa -> ~ In c (a_comps sa) ->
  arch_at w d = Some db -> a_comps db = sorted_insert c (a_comps sa) ->
  GraphInv (upd_arch w src (fun a => set_edges a (ainsert c d (a_ins a)) (a_rem a))).
Proof.
  intros (Hs & Hb1 & Hb2 & Hi & Hr & Hso) Ha Hnin Hd Hdc. unfold upd_arch. unfold arch_at in Ha. rewrite Ha.
  set (sa' := set_edges sa (ainsert c d (a_ins sa)) (a_rem sa)).
  assert (Hat : forall j, arch_at (set_archs w (slab_set (w_archs w) src sa')) j = if j =? src then Some sa' else arch_at w j).
  { intros j. unfold arch_at. cbn [w_archs set_archs]. destruct (j =? src) eqn:E.
    - apply N.eqb_eq in E. subst j. eapply slab_get_set_eq; eauto.
    - apply N.eqb_neq in E. now rewrite slab_get_set_neq by auto. }
  assert (Hcomp : forall j b, arch_at (set_archs w (slab_set (w_archs w) src sa')) j = Some b -> exists b0, arch_at w j = Some b0 /\ a_comps b0 = a_comps b /\ a_rem b0 = a_rem b /\ (j <> src -> b0 = b)).
  { intros j b Hj. rewrite Hat in Hj. destruct (j =? src) eqn:E.
    - apply N.eqb_eq in E. subst j. inversion Hj; subst b. exists sa. unfold arch_at. rewrite Ha. repeat split. congruence.
    - exists b. auto. }
  assert (Hlive : forall j b0, arch_at w j = Some b0 -> exists b, arch_at (set_archs w (slab_set (w_archs w) src sa')) j = Some b /\ a_comps b = a_comps b0).
  { intros j b0 Hj. rewrite Hat. destruct (j =? src) eqn:E.
    - apply N.eqb_eq in E. subst j. unfold arch_at in Hj. rewrite Ha in Hj. inversion Hj; subst. eauto.
    - eauto. }
  unfold GraphInv. split; [cbn [w_archs set_archs]; eapply slab_set_inv; eauto|]. split; [|split; [|split; [|split]]].
  - intros ai a Hai. destruct (Hcomp _ _ Hai) as (b0 & Hb0 & Hc0 & _). rewrite <- Hc0. unfold aby_lookup. cbn [w_aby set_archs]. exact (Hb1 _ _ Hb0).
  - intros cs ai Hl. assert (Hl' : aby_lookup w cs = Some ai) by exact Hl. destruct (Hb2 _ _ Hl') as (a0 & Ha0 & Hc0).
    destruct (Hlive _ _ Ha0) as (b & Hb & Hcb). exists b. split; [exact Hb|congruence].
  - intros ai a c0 d0 Hai He. rewrite Hat in Hai. destruct (ai =? src) eqn:E.
    + apply N.eqb_eq in E. subst ai. inversion Hai; subst a. subst sa'. cbn [a_ins a_comps set_edges] in *.
      destruct (N.eq_dec c0 c) as [->|Hne].
      * rewrite alookup_ainsert_eq in He. inversion He; subst d0. split; [exact Hnin|].
        destruct (Hlive _ _ Hd) as (b & Hb & Hcb). exists b. split; [exact Hb|congruence].
      * rewrite alookup_ainsert_neq in He by exact Hne. unfold arch_at in Hi. destruct (Hi _ _ _ _ Ha He) as (Hn & b0 & Hb0 & Hc0).
        split; [exact Hn|]. destruct (Hlive _ _ Hb0) as (b & Hb & Hcb). exists b. split; [exact Hb|congruence].
    + destruct (Hi _ _ _ _ Hai He) as (Hn & b0 & Hb0 & Hc0). split; [exact Hn|].
      destruct (Hlive _ _ Hb0) as (b & Hb & Hcb). exists b. split; [exact Hb|congruence].
  - intros ai a c0 d0 Hai He. destruct (Hcomp _ _ Hai) as (b0 & Hb0 & Hc0 & Hr0 & _). rewrite <- Hr0 in He.
    destruct (Hr _ _ _ _ Hb0 He) as (Hn & b1 & Hb1' & Hc1). rewrite <- Hc0. split; [exact Hn|].
    destruct (Hlive _ _ Hb1') as (b & Hb & Hcb). exists b. split; [exact Hb|congruence].
  - intros ai a Hai. destruct (Hcomp _ _ Hai) as (b0 & Hb0 & Hc0 & _). rewrite <- Hc0. eauto.
Qed.

Lemma abs_ext2 w w' : w_ents w' = w_ents w -> w_archs w' = w_archs w -> forall e c, abs w' e c = abs w e c.
Proof. apply abs_ext. Qed.
Lemma GraphInv_ext w w' : w_archs w' = w_archs w -> w_aby w' = w_aby w -> GraphInv w -> GraphInv w'.
Proof. unfold GraphInv, arch_at, aby_lookup. intros -> ->. auto. Qed.

(* a freshly created archetype (component list not yet present) with one back transition *)
Lemma GraphInv_create w src sa c :
  GraphInv w -> arch_at w src = Some sa -> ~ In c (a_comps sa) ->
  aby_lookup w (sorted_insert c (a_comps sa)) = None ->
  let r := create_arch w (sorted_insert c (a_comps sa)) [] [(c, src)] in
  GraphInv (snd r) /\ fst r <> src /\ arch_at (snd r) src = Some sa /\
  exists a1, arch_at (snd r) (fst r) = Some a1 /\ a_comps a1 = sorted_insert c (a_comps sa) /\ a_rows a1 = [].
Proof.
  intros (Hs & Hb1 & Hb2 & Hi & Hr & Hso) Ha Hnin Hnone. cbn zeta.
  set (cs := sorted_insert c (a_comps sa)) in *.
  destruct (create_arch_spec w cs [] [(c, src)]) as (a1 & (C1 & C2 & C3 & C4 & C5) & Hfst & Harchs & Hents & Haby).
  cbn [a_comps a_rows a_ins a_rem a_cap] in *.
  set (w1 := snd (create_arch w cs [] [(c, src)])) in *. set (d := fst (create_arch w cs [] [(c, src)])) in *.
  destruct (slab_insert_spec (w_archs w) a1 Hs) as (Hnew & Hold & Hoth & Hs1). rewrite <- Hfst in Hnew, Hold, Hoth.
  assert (Hat : forall j, arch_at w1 j = if j =? d then Some a1 else arch_at w j).
  { intros j. unfold arch_at. rewrite Harchs. destruct (j =? d) eqn:E; [apply N.eqb_eq in E; subst j; exact Hnew|apply N.eqb_neq in E; now apply Hoth]. }
  assert (Hlive_ne : forall j b, arch_at w j = Some b -> j <> d) by (intros j b Hj ->; unfold arch_at in Hj; congruence).
  assert (Hlook : forall cs', aby_lookup w1 cs' = match aby_lookup w cs' with Some ai => Some ai | None => if list_eqb N.eqb cs cs' then Some d else None end).
  { intros cs'. rewrite (aby_lookup_snoc w w1 cs d cs'); [reflexivity|]. rewrite Haby. now rewrite Hfst. }
  assert (Hdsrc : d <> src) by (intros E; eapply Hlive_ne; eauto).
  split; [|split; [exact Hdsrc|split]].
  - unfold GraphInv. split; [now rewrite Harchs|]. split; [|split; [|split; [|split]]].
    + intros ai a Hai. rewrite Hat in Hai. rewrite Hlook. destruct (ai =? d) eqn:E.
      * apply N.eqb_eq in E. subst ai. inversion Hai; subst a. rewrite C1. fold cs. rewrite Hnone.
        now replace (list_eqb N.eqb cs cs) with true by (symmetry; now apply list_eqb_N_spec).
      * now rewrite (Hb1 _ _ Hai).
    + intros cs' ai Hl. rewrite Hlook in Hl. destruct (aby_lookup w cs') as [ai0|] eqn:El.
      * inversion Hl; subst ai0. destruct (Hb2 _ _ El) as (a0 & Ha0 & Hc0). exists a0. split; [|exact Hc0].
        rewrite Hat. replace (ai =? d) with false by (symmetry; apply N.eqb_neq; eapply Hlive_ne; eauto). exact Ha0.
      * destruct (list_eqb N.eqb cs cs') eqn:Ec; [|discriminate]. inversion Hl; subst ai. apply list_eqb_N_spec in Ec. subst cs'.
        exists a1. split; [rewrite Hat, N.eqb_refl; reflexivity|exact C1].
    + intros ai a c0 d0 Hai He. rewrite Hat in Hai. destruct (ai =? d) eqn:E.
      * inversion Hai; subst a. rewrite C3 in He. discriminate.
      * destruct (Hi _ _ _ _ Hai He) as (Hn & b & Hb & Hc). split; [exact Hn|]. exists b. split; [|exact Hc].
        rewrite Hat. replace (d0 =? d) with false by (symmetry; apply N.eqb_neq; eapply Hlive_ne; eauto). exact Hb.
    + intros ai a c0 d0 Hai He. rewrite Hat in Hai. destruct (ai =? d) eqn:E.
      * inversion Hai; subst a. rewrite C4 in He. cbn [alookup] in He. destruct (c0 =? c) eqn:Ec; [|discriminate].
        apply N.eqb_eq in Ec. subst c0. inversion He; subst d0. rewrite C1. split; [apply sorted_insert_in; now left|].
        exists sa. split; [rewrite Hat; replace (src =? d) with false by (symmetry; apply N.eqb_neq; auto); exact Ha|].
        unfold cs. now rewrite filter_sorted_insert.
      * destruct (Hr _ _ _ _ Hai He) as (Hn & b & Hb & Hc). split; [exact Hn|]. exists b. split; [|exact Hc].
        rewrite Hat. replace (d0 =? d) with false by (symmetry; apply N.eqb_neq; eapply Hlive_ne; eauto). exact Hb.
    + intros ai a Hai. rewrite Hat in Hai. destruct (ai =? d) eqn:E; [|eauto]. inversion Hai; subst a. rewrite C1. unfold cs.
      apply sorted_insert_sorted; [eapply Hso; eauto|exact Hnin].
  - rewrite Hat. replace (src =? d) with false by (symmetry; apply N.eqb_neq; auto). exact Ha.
  - exists a1. split; [rewrite Hat, N.eqb_refl; reflexivity|]. split; [exact C1|exact C2].
Qed.

Lemma upd_arch_at w i a f : arch_at w i = Some a ->
  forall j, arch_at (upd_arch w i f) j = if j =? i then Some (f a) else arch_at w j.
Proof.
  intros Ha j. unfold upd_arch. unfold arch_at in Ha. rewrite Ha. unfold arch_at. cbn [w_archs set_archs].
  destruct (j =? i) eqn:E; [apply N.eqb_eq in E; subst j; eapply slab_get_set_eq; eauto|apply N.eqb_neq in E; now rewrite slab_get_set_neq by auto].
Qed.

(* traverse_insert (archetype.rs:207-275): never fails on a consistent graph; leaves every stored
   value and every entity where it is; returns the source itself when the component is already
   there and otherwise a live archetype whose components are the source's plus the new one *)
Theorem traverse_insert_ok w src sa c :
  StoreInv w -> GraphInv w -> arch_at w src = Some sa ->
  exists d w1, traverse_insert w src c = ROk d w1 /\ StoreInv w1 /\ GraphInv w1 /\
    (forall e k, abs w1 e k = abs w e k) /\ w_ents w1 = w_ents w /\
    (exists sa1, arch_at w1 src = Some sa1 /\ a_comps sa1 = a_comps sa /\ a_rows sa1 = a_rows sa) /\
    (In c (a_comps sa) -> d = src) /\
    (~ In c (a_comps sa) -> d <> src /\ exists da, arch_at w1 d = Some da /\ a_comps da = sorted_insert c (a_comps sa)) /\
    (forall cs ai, aby_lookup w cs = Some ai -> aby_lookup w1 cs = Some ai).
Proof.
  intros Hst Hg Ha. pose proof Hg as (Hs & Hb1 & Hb2 & Hi & Hr & Hso).
  unfold traverse_insert. unfold arch_at in Ha. rewrite Ha.
  destruct (alookup c (a_ins sa)) as [d|] eqn:Ee.
  - (* cached transition *)
    destruct (Hi _ _ _ _ Ha Ee) as (Hn & b & Hb & Hc).
    exists d, w. split; [reflexivity|]. split; [exact Hst|]. split; [exact Hg|]. split; [reflexivity|]. split; [reflexivity|].
    split; [exists sa; auto|]. split; [intros X; contradiction|]. split; [|auto]. intros _. split; [|eauto].
    intros ->. unfold arch_at in Hb. rewrite Ha in Hb. inversion Hb; subst b. pose proof (sorted_insert_length c (a_comps sa)) as Hl. rewrite <- Hc in Hl. lia.
  - destruct (arch_has sa c) eqn:Eh.
    + apply arch_has_in in Eh. exists src, w. split; [reflexivity|]. split; [exact Hst|]. split; [exact Hg|]. split; [reflexivity|]. split; [reflexivity|].
      split; [exists sa; auto|]. split; [reflexivity|]. split; [intros X; contradiction|auto].
    + assert (Hnin : ~ In c (a_comps sa)) by (intros X; apply arch_has_in in X; congruence).
      destruct (aby_lookup w (sorted_insert c (a_comps sa))) as [d|] eqn:El.
      * (* the archetype exists already: only the transition is cached *)
        destruct (Hb2 _ _ El) as (db & Hdb & Hdc).
        exists d, (upd_arch w src (fun a => set_edges a (ainsert c d (a_ins a)) (a_rem a))). split; [reflexivity|].
        pose proof (upd_arch_at w src sa (fun a => set_edges a (ainsert c d (a_ins a)) (a_rem a)) Ha) as Hat.
        assert (Hds : d <> src).
        { intros ->. unfold arch_at in Hdb. rewrite Ha in Hdb. inversion Hdb; subst db. pose proof (sorted_insert_length c (a_comps sa)) as Hl. rewrite <- Hdc in Hl. lia. }
        split; [unfold upd_arch; rewrite Ha; eapply StoreInv_replace; eauto|].
        split; [eapply GraphInv_add_ins_edge; eauto|].
        split; [intros e k; unfold upd_arch; rewrite Ha; eapply abs_replace; eauto|].
        split; [unfold upd_arch; rewrite Ha; reflexivity|].
        split; [eexists; split; [rewrite Hat, N.eqb_refl; reflexivity|split; reflexivity]|].
        split; [intros X; contradiction|]. split; [|intros cs0 ai0 X; now rewrite aby_lookup_upd_arch]. intros _. split; [exact Hds|]. exists db. split; [|exact Hdc].
        rewrite Hat. now replace (d =? src) with false by (symmetry; apply N.eqb_neq; exact Hds).
      * (* a new archetype is created *)
        destruct (GraphInv_create w src sa c Hg Ha Hnin El) as (Hg1 & Hds & Hsrc1 & a1 & Ha1 & Hc1 & Hr1).
        destruct (create_arch_spec w (sorted_insert c (a_comps sa)) [] [(c, src)]) as (a1' & Hcore & Hfst & Harchs & Hents & Haby).
        destruct (create_arch w (sorted_insert c (a_comps sa)) [] [(c, src)]) as [d w1] eqn:Ecr. cbn [fst snd] in *.
        assert (Hst1 : StoreInv w1).
        { eapply (StoreInv_ext (set_archs w (slab_insert (w_archs w) a1'))); [exact Hents|exact Harchs|].
          apply StoreInv_add_empty; [exact Hst|exact Hs|]. destruct Hcore as (_ & H2 & _). exact H2. }
        assert (Habs1 : forall e k, abs w1 e k = abs w e k).
        { intros e k. rewrite (abs_ext (set_archs w (slab_insert (w_archs w) a1')) w1 Hents Harchs). now apply abs_add_empty. }
        exists d, (upd_arch w1 src (fun a => set_edges a (ainsert c d (a_ins a)) (a_rem a))). split; [reflexivity|].
        pose proof (upd_arch_at w1 src sa (fun a => set_edges a (ainsert c d (a_ins a)) (a_rem a)) Hsrc1) as Hat.
        split; [unfold upd_arch; unfold arch_at in Hsrc1; rewrite Hsrc1; eapply StoreInv_replace; eauto|].
        split; [eapply GraphInv_add_ins_edge; eauto|].
        split; [intros e k; unfold upd_arch; unfold arch_at in Hsrc1; rewrite Hsrc1; rewrite (abs_replace w1 src sa _ Hsrc1) by reflexivity; apply Habs1|].
        split; [unfold upd_arch; unfold arch_at in Hsrc1; rewrite Hsrc1; exact Hents|].
        split; [eexists; split; [rewrite Hat, N.eqb_refl; reflexivity|split; reflexivity]|].
        split; [intros X; contradiction|]. split; [|intros cs0 ai0 X; rewrite aby_lookup_upd_arch; eapply aby_lookup_mono_app; [exact Haby|exact X]].
        intros _. split; [exact Hds|]. exists a1. split; [|exact Hc1].
        rewrite Hat. now replace (d =? src) with false by (symmetry; apply N.eqb_neq; exact Hds).
Qed.

(* ---------- the remove direction ---------- *)
Lemma filter_notin c l : ~ In c (filter (fun x => negb (x =? c)) l).
Proof. intros H. apply filter_In in H as [_ H]. now rewrite N.eqb_refl in H. Qed.
Lemma filter_length_le' {A} (p : A -> bool) l : (length (filter p l) <= length l)%nat.
Proof. induction l as [|h t IH]; cbn; [lia|]. destruct (p h); cbn; lia. Qed.
Lemma filter_length_lt c l : In c l -> (length (filter (fun x => negb (x =? c)) l) < length l)%nat.
Proof.
  induction l as [|h t IH]; intros H; [destruct H|]. cbn. destruct (h =? c) eqn:E; cbn.
  - pose proof (filter_length_le' (fun x => negb (x =? c)) t). lia.
  - destruct H as [->|H]; [rewrite N.eqb_refl in E; discriminate|]. specialize (IH H). lia.
Qed.
Lemma filter_sorted c l : StronglySorted N.lt l -> StronglySorted N.lt (filter (fun x => negb (x =? c)) l).
Proof.
  induction l as [|h t IH]; intros Hs; cbn; [constructor|]. apply StronglySorted_inv in Hs as [Hs Hall].
  destruct (negb (h =? c)); [|auto]. constructor; [auto|]. rewrite Forall_forall in *. intros x Hx. apply filter_In in Hx as [Hx _]. auto.
Qed.
Lemma sorted_insert_filter c l : StronglySorted N.lt l -> In c l -> sorted_insert c (filter (fun x => negb (x =? c)) l) = l.
Proof.
  induction l as [|h t IH]; intros Hs Hin; [destruct Hin|]. apply StronglySorted_inv in Hs as [Hs Hall]. cbn [filter].
  destruct (h =? c) eqn:E; cbn [negb].
  - apply N.eqb_eq in E. subst h. (* c is the head: nothing else equals c, everything else is larger *)
    assert (Hf : filter (fun x => negb (x =? c)) t = t).
    { clear -Hall. induction t as [|y t IHt]; [reflexivity|]. inversion Hall; subst. cbn.
      replace (y =? c) with false by (symmetry; apply N.eqb_neq; lia). cbn. f_equal. auto. }
    rewrite Hf. destruct t as [|y t']; [reflexivity|]. cbn. inversion Hall; subst.
    now replace (c <? y) with true by (symmetry; apply N.ltb_lt; assumption).
  - destruct Hin as [->|Hin]; [rewrite N.eqb_refl in E; discriminate|]. cbn [sorted_insert].
    rewrite Forall_forall in Hall. specialize (Hall c Hin). replace (c <? h) with false by (symmetry; apply N.ltb_ge; lia).
    f_equal. apply IH; assumption.
Qed.

Lemma GraphInv_add_rem_edge w src sa c d db :
  GraphInv w -> arch_at w src = Some sa -> In c (a_comps sa) ->
  arch_at w d = Some db -> a_comps db = filter (fun x => negb (x =? c)) (a_comps sa) ->
  GraphInv (upd_arch w src (fun a => set_edges a (a_ins a) (ainsert c d (a_rem a)))).
Proof.
  intros (Hs & Hb1 & Hb2 & Hi & Hr & Hso) Ha Hin Hd Hdc. unfold upd_arch. unfold arch_at in Ha. rewrite Ha.
  set (sa' := set_edges sa (a_ins sa) (ainsert c d (a_rem sa))).
  assert (Hat : forall j, arch_at (set_archs w (slab_set (w_archs w) src sa')) j = if j =? src then Some sa' else arch_at w j).
  { intros j. unfold arch_at. cbn [w_archs set_archs]. destruct (j =? src) eqn:E.
    - apply N.eqb_eq in E. subst j. eapply slab_get_set_eq; eauto.
    - apply N.eqb_neq in E. now rewrite slab_get_set_neq by auto. }
  assert (Hcomp : forall j b, arch_at (set_archs w (slab_set (w_archs w) src sa')) j = Some b -> exists b0, arch_at w j = Some b0 /\ a_comps b0 = a_comps b /\ a_ins b0 = a_ins b).
  { intros j b Hj. rewrite Hat in Hj. destruct (j =? src) eqn:E.
    - apply N.eqb_eq in E. subst j. inversion Hj; subst b. exists sa. unfold arch_at. rewrite Ha. repeat split.
    - exists b. auto. }
  assert (Hlive : forall j b0, arch_at w j = Some b0 -> exists b, arch_at (set_archs w (slab_set (w_archs w) src sa')) j = Some b /\ a_comps b = a_comps b0).
  { intros j b0 Hj. rewrite Hat. destruct (j =? src) eqn:E.
    - apply N.eqb_eq in E. subst j. unfold arch_at in Hj. rewrite Ha in Hj. inversion Hj; subst. eauto.
    - eauto. }
  unfold GraphInv. split; [cbn [w_archs set_archs]; eapply slab_set_inv; eauto|]. split; [|split; [|split; [|split]]].
  - intros ai a Hai. destruct (Hcomp _ _ Hai) as (b0 & Hb0 & Hc0 & _). rewrite <- Hc0. unfold aby_lookup. cbn [w_aby set_archs]. exact (Hb1 _ _ Hb0).
  - intros cs ai Hl. assert (Hl' : aby_lookup w cs = Some ai) by exact Hl. destruct (Hb2 _ _ Hl') as (a0 & Ha0 & Hc0).
    destruct (Hlive _ _ Ha0) as (b & Hb & Hcb). exists b. split; [exact Hb|congruence].
  - intros ai a c0 d0 Hai He. destruct (Hcomp _ _ Hai) as (b0 & Hb0 & Hc0 & Hi0). rewrite <- Hi0 in He.
    destruct (Hi _ _ _ _ Hb0 He) as (Hn & b1 & Hb1' & Hc1). rewrite <- Hc0. split; [exact Hn|].
    destruct (Hlive _ _ Hb1') as (b & Hb & Hcb). exists b. split; [exact Hb|congruence].
  - intros ai a c0 d0 Hai He. rewrite Hat in Hai. destruct (ai =? src) eqn:E.
    + apply N.eqb_eq in E. subst ai. inversion Hai; subst a. subst sa'. cbn [a_rem a_comps set_edges] in *.
      destruct (N.eq_dec c0 c) as [->|Hne].
      * rewrite alookup_ainsert_eq in He. inversion He; subst d0. split; [exact Hin|].
        destruct (Hlive _ _ Hd) as (b & Hb & Hcb). exists b. split; [exact Hb|congruence].
      * rewrite alookup_ainsert_neq in He by exact Hne. unfold arch_at in Hr. destruct (Hr _ _ _ _ Ha He) as (Hn & b0 & Hb0 & Hc0).
        split; [exact Hn|]. destruct (Hlive _ _ Hb0) as (b & Hb & Hcb). exists b. split; [exact Hb|congruence].
    + destruct (Hr _ _ _ _ Hai He) as (Hn & b0 & Hb0 & Hc0). split; [exact Hn|].
      destruct (Hlive _ _ Hb0) as (b & Hb & Hcb). exists b. split; [exact Hb|congruence].
  - intros ai a Hai. destruct (Hcomp _ _ Hai) as (b0 & Hb0 & Hc0 & _). rewrite <- Hc0. eauto.
Qed.

Lemma GraphInv_create_rem w src sa c :
  GraphInv w -> arch_at w src = Some sa -> In c (a_comps sa) ->
  aby_lookup w (filter (fun x => negb (x =? c)) (a_comps sa)) = None ->
  let r := create_arch w (filter (fun x => negb (x =? c)) (a_comps sa)) [(c, src)] [] in
  GraphInv (snd r) /\ fst r <> src /\ arch_at (snd r) src = Some sa /\
  exists a1, arch_at (snd r) (fst r) = Some a1 /\ a_comps a1 = filter (fun x => negb (x =? c)) (a_comps sa) /\ a_rows a1 = [].
Proof.
  intros (Hs & Hb1 & Hb2 & Hi & Hr & Hso) Ha Hin Hnone. cbn zeta.
  set (cs := filter (fun x => negb (x =? c)) (a_comps sa)) in *.
  destruct (create_arch_spec w cs [(c, src)] []) as (a1 & (C1 & C2 & C3 & C4 & C5) & Hfst & Harchs & Hents & Haby).
  cbn [a_comps a_rows a_ins a_rem a_cap] in *.
  set (w1 := snd (create_arch w cs [(c, src)] [])) in *. set (d := fst (create_arch w cs [(c, src)] [])) in *.
  destruct (slab_insert_spec (w_archs w) a1 Hs) as (Hnew & Hold & Hoth & Hs1). rewrite <- Hfst in Hnew, Hold, Hoth.
  assert (Hat : forall j, arch_at w1 j = if j =? d then Some a1 else arch_at w j).
  { intros j. unfold arch_at. rewrite Harchs. destruct (j =? d) eqn:E; [apply N.eqb_eq in E; subst j; exact Hnew|apply N.eqb_neq in E; now apply Hoth]. }
  assert (Hlive_ne : forall j b, arch_at w j = Some b -> j <> d) by (intros j b Hj ->; unfold arch_at in Hj; congruence).
  assert (Hlook : forall cs', aby_lookup w1 cs' = match aby_lookup w cs' with Some ai => Some ai | None => if list_eqb N.eqb cs cs' then Some d else None end).
  { intros cs'. rewrite (aby_lookup_snoc w w1 cs d cs'); [reflexivity|]. rewrite Haby. now rewrite Hfst. }
  assert (Hdsrc : d <> src) by (intros E; eapply Hlive_ne; eauto).
  assert (Hsorted : StronglySorted N.lt (a_comps sa)) by (eapply Hso; eauto).
  split; [|split; [exact Hdsrc|split]].
  - unfold GraphInv. split; [now rewrite Harchs|]. split; [|split; [|split; [|split]]].
    + intros ai a Hai. rewrite Hat in Hai. rewrite Hlook. destruct (ai =? d) eqn:E.
      * apply N.eqb_eq in E. subst ai. inversion Hai; subst a. rewrite C1. fold cs. rewrite Hnone.
        now replace (list_eqb N.eqb cs cs) with true by (symmetry; now apply list_eqb_N_spec).
      * now rewrite (Hb1 _ _ Hai).
    + intros cs' ai Hl. rewrite Hlook in Hl. destruct (aby_lookup w cs') as [ai0|] eqn:El.
      * inversion Hl; subst ai0. destruct (Hb2 _ _ El) as (a0 & Ha0 & Hc0). exists a0. split; [|exact Hc0].
        rewrite Hat. replace (ai =? d) with false by (symmetry; apply N.eqb_neq; eapply Hlive_ne; eauto). exact Ha0.
      * destruct (list_eqb N.eqb cs cs') eqn:Ec; [|discriminate]. inversion Hl; subst ai. apply list_eqb_N_spec in Ec. subst cs'.
        exists a1. split; [rewrite Hat, N.eqb_refl; reflexivity|exact C1].
    + intros ai a c0 d0 Hai He. rewrite Hat in Hai. destruct (ai =? d) eqn:E.
      * inversion Hai; subst a. rewrite C3 in He. cbn [alookup] in He. destruct (c0 =? c) eqn:Ec; [|discriminate].
        apply N.eqb_eq in Ec. subst c0. inversion He; subst d0. rewrite C1. split; [apply filter_notin|].
        exists sa. split; [rewrite Hat; replace (src =? d) with false by (symmetry; apply N.eqb_neq; auto); exact Ha|].
        unfold cs. now rewrite sorted_insert_filter.
      * destruct (Hi _ _ _ _ Hai He) as (Hn & b & Hb & Hc). split; [exact Hn|]. exists b. split; [|exact Hc].
        rewrite Hat. replace (d0 =? d) with false by (symmetry; apply N.eqb_neq; eapply Hlive_ne; eauto). exact Hb.
    + intros ai a c0 d0 Hai He. rewrite Hat in Hai. destruct (ai =? d) eqn:E.
      * inversion Hai; subst a. rewrite C4 in He. discriminate.
      * destruct (Hr _ _ _ _ Hai He) as (Hn & b & Hb & Hc). split; [exact Hn|]. exists b. split; [|exact Hc].
        rewrite Hat. replace (d0 =? d) with false by (symmetry; apply N.eqb_neq; eapply Hlive_ne; eauto). exact Hb.
    + intros ai a Hai. rewrite Hat in Hai. destruct (ai =? d) eqn:E; [|eauto]. inversion Hai; subst a. rewrite C1. unfold cs. now apply filter_sorted.
  - rewrite Hat. replace (src =? d) with false by (symmetry; apply N.eqb_neq; auto). exact Ha.
  - exists a1. split; [rewrite Hat, N.eqb_refl; reflexivity|]. split; [exact C1|exact C2].
Qed.

(* traverse_remove (archetype.rs:282-350) *)
Theorem traverse_remove_ok w src sa c :
  StoreInv w -> GraphInv w -> arch_at w src = Some sa ->
  exists d w1, traverse_remove w src c = ROk d w1 /\ StoreInv w1 /\ GraphInv w1 /\
    (forall e k, abs w1 e k = abs w e k) /\ w_ents w1 = w_ents w /\
    (exists sa1, arch_at w1 src = Some sa1 /\ a_comps sa1 = a_comps sa /\ a_rows sa1 = a_rows sa) /\
    (~ In c (a_comps sa) -> d = src) /\
    (In c (a_comps sa) -> d <> src /\ exists da, arch_at w1 d = Some da /\ a_comps da = filter (fun x => negb (x =? c)) (a_comps sa)) /\
    (forall cs ai, aby_lookup w cs = Some ai -> aby_lookup w1 cs = Some ai).
Proof.
  intros Hst Hg Ha. pose proof Hg as (Hs & Hb1 & Hb2 & Hi & Hr & Hso).
  unfold traverse_remove. unfold arch_at in Ha. rewrite Ha.
  destruct (alookup c (a_rem sa)) as [d|] eqn:Ee.
  - destruct (Hr _ _ _ _ Ha Ee) as (Hn & b & Hb & Hc).
    exists d, w. split; [reflexivity|]. split; [exact Hst|]. split; [exact Hg|]. split; [reflexivity|]. split; [reflexivity|].
    split; [exists sa; auto|]. split; [intros X; contradiction|]. split; [|auto]. intros _. split; [|eauto].
    intros ->. unfold arch_at in Hb. rewrite Ha in Hb. inversion Hb; subst b. pose proof (filter_length_lt c (a_comps sa) Hn) as Hl. rewrite <- Hc in Hl. lia.
  - destruct (arch_has sa c) eqn:Eh; cbn [negb].
    + apply arch_has_in in Eh.
      destruct (aby_lookup w (filter (fun x => negb (x =? c)) (a_comps sa))) as [d|] eqn:El.
      * destruct (Hb2 _ _ El) as (db & Hdb & Hdc).
        exists d, (upd_arch w src (fun a => set_edges a (a_ins a) (ainsert c d (a_rem a)))). split; [reflexivity|].
        pose proof (upd_arch_at w src sa (fun a => set_edges a (a_ins a) (ainsert c d (a_rem a))) Ha) as Hat.
        assert (Hds : d <> src).
        { intros ->. unfold arch_at in Hdb. rewrite Ha in Hdb. inversion Hdb; subst db. pose proof (filter_length_lt c (a_comps sa) Eh) as Hl. rewrite <- Hdc in Hl. lia. }
        split; [unfold upd_arch; rewrite Ha; eapply StoreInv_replace; eauto|].
        split; [eapply GraphInv_add_rem_edge; eauto|].
        split; [intros e k; unfold upd_arch; rewrite Ha; eapply abs_replace; eauto|].
        split; [unfold upd_arch; rewrite Ha; reflexivity|].
        split; [eexists; split; [rewrite Hat, N.eqb_refl; reflexivity|split; reflexivity]|].
        split; [intros X; contradiction|]. split; [|intros cs0 ai0 X; now rewrite aby_lookup_upd_arch]. intros _. split; [exact Hds|]. exists db. split; [|exact Hdc].
        rewrite Hat. now replace (d =? src) with false by (symmetry; apply N.eqb_neq; exact Hds).
      * destruct (GraphInv_create_rem w src sa c Hg Ha Eh El) as (Hg1 & Hds & Hsrc1 & a1 & Ha1 & Hc1 & Hr1).
        destruct (create_arch_spec w (filter (fun x => negb (x =? c)) (a_comps sa)) [(c, src)] []) as (a1' & Hcore & Hfst & Harchs & Hents & Haby).
        destruct (create_arch w (filter (fun x => negb (x =? c)) (a_comps sa)) [(c, src)] []) as [d w1] eqn:Ecr. cbn [fst snd] in *.
        assert (Hst1 : StoreInv w1).
        { eapply (StoreInv_ext (set_archs w (slab_insert (w_archs w) a1'))); [exact Hents|exact Harchs|].
          apply StoreInv_add_empty; [exact Hst|exact Hs|]. destruct Hcore as (_ & H2 & _). exact H2. }
        assert (Habs1 : forall e k, abs w1 e k = abs w e k).
        { intros e k. rewrite (abs_ext (set_archs w (slab_insert (w_archs w) a1')) w1 Hents Harchs). now apply abs_add_empty. }
        exists d, (upd_arch w1 src (fun a => set_edges a (a_ins a) (ainsert c d (a_rem a)))). split; [reflexivity|].
        pose proof (upd_arch_at w1 src sa (fun a => set_edges a (a_ins a) (ainsert c d (a_rem a))) Hsrc1) as Hat.
        split; [unfold upd_arch; unfold arch_at in Hsrc1; rewrite Hsrc1; eapply StoreInv_replace; eauto|].
        split; [eapply GraphInv_add_rem_edge; eauto|].
        split; [intros e k; unfold upd_arch; unfold arch_at in Hsrc1; rewrite Hsrc1; rewrite (abs_replace w1 src sa _ Hsrc1) by reflexivity; apply Habs1|].
        split; [unfold upd_arch; unfold arch_at in Hsrc1; rewrite Hsrc1; exact Hents|].
        split; [eexists; split; [rewrite Hat, N.eqb_refl; reflexivity|split; reflexivity]|].
        split; [intros X; contradiction|]. split; [|intros cs0 ai0 X; rewrite aby_lookup_upd_arch; eapply aby_lookup_mono_app; [exact Haby|exact X]].
        intros _. split; [exact Hds|]. exists a1. split; [|exact Hc1].
        rewrite Hat. now replace (d =? src) with false by (symmetry; apply N.eqb_neq; exact Hds).
    + assert (Hnin : ~ In c (a_comps sa)) by (intros X; apply arch_has_in in X; congruence).
      exists src, w. split; [reflexivity|]. split; [exact Hst|]. split; [exact Hg|]. split; [reflexivity|]. split; [reflexivity|].
      split; [exists sa; auto|]. split; [reflexivity|]. split; [intros X; contradiction|auto].
Qed.
