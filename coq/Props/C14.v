(* C14 - Removing a component type cascades completely and leaves a usable world.  (partial)
   Proved: after the archetype-level removal no surviving archetype keeps a cached transition
   labelled with the removed component, whatever the archetype graph looked like (this is the
   statement that was false on the pinned tree); and the archetype-level removal restores the
   whole storage invariant, removing exactly the archetypes with the component and exactly
   their entities, given that member_of lists exactly those archetypes (that premise is audited
   on the implementation's snapshot after every call by the check, and compared with the model's
   member_of lists).  Phases and notifications are checked by the correspondence. *)
From Coq Require Import List NArith.
Require Import EV.Base EV.World EV.ArchProofs.

Theorem c14_partial_no_transition_mentions_removed_component :
  forall (w : world) (cidx ctag : N) (member_of : list N) (ai : N) (a : arch),
    slab_get (w_archs (archs_remove_component w cidx ctag member_of)) ai = Some a ->
    alookup cidx (a_ins a) = None /\ alookup cidx (a_rem a) = None.
Proof. exact no_transition_mentions_removed_component. Qed.
Print Assumptions c14_partial_no_transition_mentions_removed_component.

Require Import EV.SlotMap EV.Store EV.Effects EV.RemoveComp.

Theorem c14_archetype_removal_leaves_a_consistent_world :
  forall (cidx ctag : N) (w : world) (member_of : list N),
    WInv w -> NoDup member_of ->
    (forall ai a, arch_at w ai = Some a -> (In ai member_of <-> In cidx (a_comps a))) ->
    let w' := archs_remove_component w cidx ctag member_of in
    WInv w' /\
    (forall j, arch_at w' j = match arch_at w j with
                              | Some a => if existsb (N.eqb cidx) (a_comps a) then None else Some (strip_arch cidx a)
                              | None => None end) /\
    (forall j a, arch_at w' j = Some a -> alookup cidx (a_ins a) = None /\ alookup cidx (a_rem a) = None) /\
    (forall k, In k (removed_rows w member_of) -> sm_get k (w_ents w') = None) /\
    (forall k, ~ In k (removed_rows w member_of) -> sm_get k (w_ents w') = sm_get k (w_ents w) /\ forall c, abs w' k c = abs w k c).
Proof. exact archs_remove_component_ok. Qed.
Print Assumptions c14_archetype_removal_leaves_a_consistent_world.
