(* C14 - Removing a component type cascades completely and leaves a usable world.  (partial)
   Proved: after the archetype-level removal no surviving archetype keeps a cached transition
   labelled with the removed component, whatever the archetype graph looked like (this is the
   statement that was false on the pinned tree); and the archetype-level removal restores the
   whole storage invariant, removing exactly the archetypes with the component and exactly
   their entities, given that member_of lists exactly those archetypes; that premise is itself an
   invariant of every reachable world (KInv, Member.v), so World::remove_component as a whole
   leaves a world satisfying the full invariant (last two theorems).  Phases and notifications
   are checked by the correspondence. *)
From Coq Require Import List NArith.
Require Import EV.Base EV.World EV.ArchProofs.

Theorem c14_partial_no_transition_mentions_removed_component :
  forall (w : world) (cidx ctag : N) (member_of : list N) (ai : N) (a : arch),
    slab_get (w_archs (archs_remove_component w cidx ctag member_of)) ai = Some a ->
    alookup cidx (a_ins a) = None /\ alookup cidx (a_rem a) = None.
Proof. exact no_transition_mentions_removed_component. Qed.
Print Assumptions c14_partial_no_transition_mentions_removed_component.

Require Import EV.SlotMap EV.Store EV.Effects EV.RemoveComp.

Theorem c14_archetype_removal_leaves_a_consistent_world :
  forall (cidx ctag : N) (w : world) (member_of : list N),
    WInv w -> NoDup member_of ->
    (forall ai a, arch_at w ai = Some a -> (In ai member_of <-> In cidx (a_comps a))) ->
    let w' := archs_remove_component w cidx ctag member_of in
    WInv w' /\
    (forall j, arch_at w' j = match arch_at w j with
                              | Some a => if existsb (N.eqb cidx) (a_comps a) then None else Some (strip_arch cidx a)
                              | None => None end) /\
    (forall j a, arch_at w' j = Some a -> alookup cidx (a_ins a) = None /\ alookup cidx (a_rem a) = None) /\
    (forall k, In k (removed_rows w member_of) -> sm_get k (w_ents w') = None) /\
    (forall k, ~ In k (removed_rows w member_of) -> sm_get k (w_ents w') = sm_get k (w_ents w) /\ forall c, abs w' k c = abs w k c).
Proof. exact archs_remove_component_ok. Qed.
Print Assumptions c14_archetype_removal_leaves_a_consistent_world.

Require Import EV.WorldFrame EV.Reach EV.Member.

(* World::remove_component on a consistent world - whatever the handlers of RemoveComponent / Despawn /
   RemoveHandler / RemoveTargetedEvent do, whether or not one of them panics - leaves a consistent world *)
Theorem c14_remove_component_leaves_a_usable_world :
  forall (beh : hinfo -> logent -> N -> script) (k : key) (w : world),
    FInv w -> FInv (res_world (remove_component beh k w)).
Proof. exact remove_component_FInv. Qed.
Print Assumptions c14_remove_component_leaves_a_usable_world.

(* and so does every later call: the invariant is an invariant of all calls *)
Theorem c14_world_stays_usable_afterwards :
  forall (beh : hinfo -> logent -> N -> script) (fuel p : N) (ops : list top_all),
    FInv (fold_left (run_top_all beh) ops (world0 fuel p)).
Proof. exact reachable_FInv. Qed.
Print Assumptions c14_world_stays_usable_afterwards.

(* ---------- the bit set of referenced components (src/bit_set.rs, coq/BitSet.v) ---------- *)
Require Import EV.BitSet.
(* "then removes every handler that references it": referenced components are a BitSet; insertion and union are the set
   operations and contains answers membership exactly, for every index and every block layout *)
Theorem c14_referenced_component_sets_insert_and_union :
  forall (s t : bs) (i j : N),
    (bs_mem (snd (bs_insert s i)) j = (j =? i)%N || bs_mem s j) /\ bs_mem (bs_or s t) j = bs_mem s j || bs_mem t j.
Proof. exact bs_insert_or_spec. Qed.
Print Assumptions c14_referenced_component_sets_insert_and_union.
