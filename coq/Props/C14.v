(* C14 - Removing a component type cascades completely and leaves a usable world.  (partial)
   Proved: after the archetype-level removal no surviving archetype keeps a cached transition
   labelled with the removed component, whatever the archetype graph looked like (this is the
   statement that was false on the pinned tree).  Phases, notifications and usability of the
   world afterwards are checked by the correspondence. *)
From Coq Require Import List NArith.
Require Import EV.Base EV.World EV.ArchProofs.

Theorem c14_partial_no_transition_mentions_removed_component :
  forall (w : world) (cidx ctag : N) (member_of : list N) (ai : N) (a : arch),
    slab_get (w_archs (archs_remove_component w cidx ctag member_of)) ai = Some a ->
    alookup cidx (a_ins a) = None /\ alookup cidx (a_rem a) = None.
Proof. exact no_transition_mentions_removed_component. Qed.
Print Assumptions c14_partial_no_transition_mentions_removed_component.
