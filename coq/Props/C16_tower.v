(* C16, second part: theorems that rest on the whole tower of reachable invariants (ZI) - and thereby also on the
   files about the access expressions. *)
From Coq Require Import List NArith Bool.
Require Import EV.Base EV.SlotMap EV.World EV.WorldFrame EV.Member EV.Sender EV.DeadIds.
Open Scope N_scope.

(* "Ids of removed components, events and handlers are never valid again and are never handed out again, even when
   their index is reused by a later registration" - at world level: after a successful removal, through EVERY later
   history of calls (registrations reusing the slot included), with every handler behaviour, the id is invalid.
   (Never handed out again follows: a registration returns an id that is valid in the resulting world.) *)
Theorem c16_removed_component_id_never_valid_again :
  forall (beh : hinfo -> logent -> N -> script) (k : key) (w w' : world) (ops : list top_all),
    ZI w -> remove_component beh k w = ROk true w' -> sm_get k (w_comps (fold_left (run_top_all beh) ops w')) = None.
Proof. exact removed_component_id_never_valid_again. Qed.
Print Assumptions c16_removed_component_id_never_valid_again.

Theorem c16_removed_handler_id_never_valid_again :
  forall (beh : hinfo -> logent -> N -> script) (k : key) (w w' : world) (ops : list top_all),
    ZI w -> remove_handler beh k w = ROk true w' -> sm_get k (w_hs (fold_left (run_top_all beh) ops w')) = None.
Proof. exact removed_handler_id_never_valid_again. Qed.
Print Assumptions c16_removed_handler_id_never_valid_again.

Theorem c16_removed_global_event_id_never_valid_again :
  forall (beh : hinfo -> logent -> N -> script) (k : key) (w w' : world) (ops : list top_all),
    ZI w -> remove_global_event beh k w = ROk true w' -> sm_get k (w_gev (fold_left (run_top_all beh) ops w')) = None.
Proof. exact removed_global_event_id_never_valid_again. Qed.
Print Assumptions c16_removed_global_event_id_never_valid_again.

Theorem c16_removed_targeted_event_id_never_valid_again :
  forall (beh : hinfo -> logent -> N -> script) (k : key) (w w' : world) (ops : list top_all),
    ZI w -> remove_targeted_event beh k w = ROk true w' -> sm_get k (w_tev (fold_left (run_top_all beh) ops w')) = None.
Proof. exact removed_targeted_event_id_never_valid_again. Qed.
Print Assumptions c16_removed_targeted_event_id_never_valid_again.

(* the invariant behind them: keys that are dead in the four registries stay dead through every call *)
Theorem c16_dead_ids_stay_dead :
  forall (kc kh kg kt : option key) (beh : hinfo -> logent -> N -> script) (ops : list top_all) (w : world),
    ZI w -> DD kc kh kg kt w -> DD kc kh kg kt (fold_left (run_top_all beh) ops w).
Proof. exact dead_ids_stay_dead. Qed.
Print Assumptions c16_dead_ids_stay_dead.
