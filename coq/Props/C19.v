(* C19 - Parallel iteration visits each matching entity exactly once.  (partial)
   rayon's producers are modelled as sequences that split at arbitrary points (split trees) and
   whose leaves are run in arbitrary order; its work stealing itself is not modelled. *)
From Coq Require Import List Permutation.
Require Import EV.Par.

(* for every outer split tree over the cached archetypes and every family of inner split trees
   over the rows, the tasks together visit exactly the items of sequential iteration *)
Theorem c19_partial_tasks_cover_sequential_iteration :
  forall (A B : Type) (get : A -> nat -> B) (count : A -> nat) (outer : tree) (inner_tree : A -> tree) (states : list A),
    concat (par_run get count outer inner_tree states) = seq_run get count states.
Proof. exact @par_visits_exactly_sequential. Qed.
Print Assumptions c19_partial_tasks_cover_sequential_iteration.

(* in whatever order the leaves are scheduled *)
Theorem c19_partial_any_schedule_same_multiset :
  forall (A B : Type) (get : A -> nat -> B) (count : A -> nat) (outer : tree) (inner_tree : A -> tree) (states : list A)
         (schedule : list (list B)),
    Permutation schedule (par_run get count outer inner_tree states) ->
    Permutation (concat schedule) (seq_run get count states).
Proof. exact @par_any_schedule. Qed.
Print Assumptions c19_partial_any_schedule_same_multiset.

(* so no two tasks receive the same item when sequential iteration yields none twice (C06) *)
Theorem c19_partial_no_item_given_twice :
  forall (A B : Type) (get : A -> nat -> B) (count : A -> nat) (outer : tree) (inner_tree : A -> tree) (states : list A)
         (schedule : list (list B)),
    Permutation schedule (par_run get count outer inner_tree states) ->
    NoDup (seq_run get count states) -> NoDup (concat schedule).
Proof. exact @par_no_item_twice. Qed.
Print Assumptions c19_partial_no_item_given_twice.

(* zip_eq splits both slices at the same index: keys and values stay in step *)
Theorem c19_partial_zip_splits_in_step :
  forall (X Y : Type) (t : tree) (a : list X) (b : list Y), zip_leaves t a b = leaves t (combine a b).
Proof. exact @zip_leaves_eq. Qed.
Print Assumptions c19_partial_zip_splits_in_step.
