(* C17, second part: theorems that rest on the whole tower of reachable invariants (ZI), and thereby also on the
   meaning of the access expressions (files AccessProofs / QueryProofs over the regenerated tables). *)
From Coq Require Import List NArith Bool.
Require Import EV.Base EV.Access EV.HList EV.World EV.ArchProofs.
Require Import EV.Query EV.SlotMap EV.Store.
Require Import EV.Loop EV.Graph EV.Effects EV.Reach.
Require Import EV.RemoveComp EV.Member.
Require Import EV.Listen.
From Coq Require Import Bool.
Require Import EV.Order EV.Fetch EV.NoUB EV.Sender.
(* the strongest invariant proved for every reachable world, after any sequence of calls and for every handler
   behaviour: storage and archetype graph (WInv), registries (KInv: member_of exact, event kinds live), listener tables
   exact and in HandlerList shape (HL, OInv), fetcher caches exact (XI), static handler facts (SInv), by-type maps,
   listener lists for every live global event, senders and receivers name registered events (YI) *)
Theorem c17_every_reachable_world_satisfies_all_bookkeeping_invariants :
  forall (beh : hinfo -> logent -> N -> script) (fuel p : N) (ops : list top_all),
    ZI (fold_left (run_top_all beh) ops (world0 fuel p)).
Proof. exact reachable_ZI. Qed.
Print Assumptions c17_every_reachable_world_satisfies_all_bookkeeping_invariants.


Require Import EV.Reserve EV.Quiet.
Open Scope N_scope.
(* "... and no entity reservation is left pending": Quiet at every quiescent point (hypotheses as in Props/C03_tower.v) *)
Theorem c17_no_entity_reservation_is_left_pending :
  forall (beh : hinfo -> logent -> N -> script) (fuel p : N) (ops : list top_all),
    NoTakeSpawn beh -> no_exhaustion beh ops (world0 fuel p) ->
    let w := fold_left (run_top_all beh) ops (world0 fuel p) in
    elen w < U32MAX -> w_rcnt w = 0 /\ w_rcur w = next_key_iter (w_ents w).
Proof. exact reachable_Quiet. Qed.
Print Assumptions c17_no_entity_reservation_is_left_pending.
