(* C11 - Every event value is destroyed exactly once unless ownership moved. *)
From Coq Require Import List Permutation.
Require Import EV.Loop.

(* the event loop neither loses nor duplicates an event: everything that was queued or sent
   during a flush is delivered (appears in the trace) or is handed to the dropper, and the
   dropper receives nothing when the flush completes - for every state type, event type and
   per-delivery behaviour *)
Theorem c11_loop_conserves_events :
  forall (St Ev : Type) (run : Ev -> St -> list Ev * St * bool) (unwind : list Ev -> St -> St)
         (n : nat) (q : list Ev) (st : St) (tr : list Ev) (st' : St) (oc : outcome) (allsent lft : list Ev),
    flushG St Ev run unwind n q st = Some (tr, st', oc, allsent, lft) ->
    Permutation (q ++ allsent) (tr ++ lft) /\ (oc = Finished -> lft = nil).
Proof. exact flush_conservation. Qed.
Print Assumptions c11_loop_conserves_events.

(* with distinct identities no event is both delivered and dropped, or delivered twice *)
Theorem c11_each_event_once :
  forall (St Ev : Type) (run : Ev -> St -> list Ev * St * bool) (unwind : list Ev -> St -> St)
         (n : nat) (q : list Ev) (st : St) (tr : list Ev) (st' : St) (oc : outcome) (allsent lft : list Ev),
    flushG St Ev run unwind n q st = Some (tr, st', oc, allsent, lft) -> NoDup (q ++ allsent) -> NoDup (tr ++ lft).
Proof. exact flush_exactly_once. Qed.
Print Assumptions c11_each_event_once.

(* the instrumented machine is the machine *)
Theorem c11_instrumented_is_flush :
  forall (St Ev : Type) (run : Ev -> St -> list Ev * St * bool) (unwind : list Ev -> St -> St)
         (n : nat) (q : list Ev) (st : St) (acc : list Ev),
    flush St Ev run unwind n q st acc =
    match flushG St Ev run unwind n q st with
    | Some (tr, st', oc, _, _) => Some (acc ++ tr, st', oc) | None => None end.
Proof. exact flushG_flush. Qed.
Print Assumptions c11_instrumented_is_flush.
