(* C11, second part: theorems that rest on the whole tower of reachable invariants (ZI), and thereby also on the
   meaning of the access expressions (files AccessProofs / QueryProofs over the regenerated tables). *)
From Coq Require Import List Permutation.
Require Import EV.Loop.
From Coq Require Import NArith.
Require Import EV.World EV.WorldFrame EV.Effects EV.Reach EV.Member EV.Ledger EV.NoUB EV.Sender EV.EvLedger.
(* one delivery on a consistent world: the value of the delivered event is destroyed exactly once - by the handler
   that took it, after the last handler, by the unwinding, or at once when its target is dead - or it moves into
   storage (a completed Insert); nothing else that was held is destroyed or lost (multiset equation between what
   is stored plus what was destroyed, before and after); unless the delivery panicked nothing else is destroyed *)
Theorem c11_a_delivery_conserves_values :
  forall (beh : hinfo -> logent -> N -> script) (it : qitem) (w : world),
    WInv w -> GevKinds w -> item_tag_ok w it ->
    let '(sent, w', fl) := deliver_one beh it w in
    fl <> Some (FPanic 5) -> (forall s, fl <> Some (FUB s)) ->
    exists nd X, w_drops w' = w_drops w ++ nd /\
      Permutation (stored w' ++ nd) (stored w ++ ev_entry (qi_targeted it) (item_tag w it) (qi_ev it) ++ X) /\ (fl = None -> X = nil).
Proof. exact deliver_one_ledger. Qed.
Print Assumptions c11_a_delivery_conserves_values.

(* a whole top-level propagation on any reachable world (any handlers): every value with a destructor that was held
   before - stored, or the payload of a queued event - and every value sent during the propagation is afterwards
   still stored or has been destroyed, each exactly once; when the propagation completes nothing else was destroyed
   and no event is left (excluded: the model's capacity and fuel failures FPanic 5 / 8) *)
Theorem c11_a_propagation_conserves_values :
  forall (beh : hinfo -> logent -> N -> script) (fuel p : N) (ops : list top_all) (q : list qitem),
    let w := fold_left (run_top_all beh) ops (world0 fuel p) in
    (forall x, In x q -> item_ok w x) ->
    let r := flush beh q w in res_fail r <> Some (FPanic 5) -> res_fail r <> Some (FPanic 8) ->
    exists S nd X, w_drops (res_world r) = w_drops w ++ nd /\
      Permutation (stored (res_world r) ++ nd) (stored w ++ entries w q ++ entries w S ++ X) /\ (res_fail r = None -> X = nil).
Proof. exact reachable_flush_ledger. Qed.
Print Assumptions c11_a_propagation_conserves_values.

