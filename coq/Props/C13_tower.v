(* C13, second part: theorems that rest on the whole tower of reachable invariants (ZI), and thereby also on the
   meaning of the access expressions (files AccessProofs / QueryProofs over the regenerated tables). *)
From Coq Require Import List Permutation.
Require Import EV.Loop.
Require Import NArith.
Require Import EV.World EV.Ledger.
From Coq Require Import NArith.
Require Import EV.WorldFrame EV.Loop EV.Member EV.NoUB EV.Sender EV.EvLedger.
(* the event loop, completed or unwound by a panicking handler (oc = Aborted): what is stored afterwards plus what
   was destroyed equals what was stored before plus the payloads of everything queued and sent - the in-flight
   event (unless taken: then its taker destroyed it) and all queued ones are destroyed exactly once by the
   unwinding, nothing twice, and the stored values are untouched by it *)
Theorem c13_the_loop_conserves_values_also_when_unwinding :
  forall (beh : hinfo -> logent -> N -> script) (n : nat) (q : list qitem) (w : world) (f0 : option fail) (acc tr : list qitem)
         (w' : world) (fl : option fail) (oc : outcome),
    Loop.flush wst qitem (run_w beh) unwind_w n q (w, f0) acc = Some (tr, (w', fl), oc) ->
    ZI w -> TagInv w -> (forall x, In x q -> item_ok w x) -> (oc = Aborted -> fl <> Some (FPanic 5)) ->
    registries w' = registries w /\
    exists S nd X, w_drops w' = w_drops w ++ nd /\
      Permutation (stored w' ++ nd) (stored w ++ entries w q ++ entries w S ++ X) /\ (oc = Finished -> X = nil).
Proof. exact flush_loop_ledger. Qed.
Print Assumptions c13_the_loop_conserves_values_also_when_unwinding.

Theorem c13_reachable_worlds_satisfy_the_tag_invariant :
  forall (beh : hinfo -> logent -> N -> script) (fuel p : N) (ops : list top_all),
    TagInv (fold_left (run_top_all beh) ops (world0 fuel p)).
Proof. exact reachable_TagInv. Qed.
Print Assumptions c13_reachable_worlds_satisfy_the_tag_invariant.

