(* C06 - Queries match exactly the entities their documented Boolean meaning selects. *)
From Coq Require Import List NArith Bool.
Require Import EV.Base EV.Access EV.Query EV.QueryProofs.

(* the structural matcher (`new_arch_state`) accepts an archetype iff the documented
   meaning holds of its component set: every query expression, every archetype *)
Theorem c06_matcher_is_meaning :
  forall (a : N -> bool) (q : query), (if arch_state a q then true else false) = qmatch a q.
Proof. exact arch_state_iff_qmatch. Qed.
Print Assumptions c06_matcher_is_meaning.

(* the access expression (used for listener tables and refresh tables) and the matcher
   (used to fill fetcher caches) decide the same set of archetypes *)
Theorem c06_init_agrees_with_matcher :
  forall (a : N -> bool) (q : query), ca_matches a (access_of q) = (if arch_state a q then true else false).
Proof. exact init_agrees_with_matcher. Qed.
Print Assumptions c06_init_agrees_with_matcher.

Require Import EV.World EV.SlotMap EV.Store EV.Member EV.Listen EV.Fetch.

(* world level: through the fetcher caches of a live handler, a query yields exactly the entities
   of the archetypes it matches (amatch a q = arch_state succeeds = qmatch, by the theorems above) *)
Theorem c06_fetcher_yields_exactly_the_matching_entities :
  forall (w : world) (hk : key) (h : hinfo) (p : rparam) (q : query) (c : list centry),
    XI w -> hlive w hk h -> In p (h_params h) -> pquery p = Some (q, c) ->
    exists its, cache_items w q true c = inr its /\
      forall k, In k (map fst its) <-> exists ai a row vals, arch_at w ai = Some a /\ amatch a q = true /\ nget (a_rows a) row = Some (k, vals).
Proof. exact handler_view_exact. Qed.
Print Assumptions c06_fetcher_yields_exactly_the_matching_entities.

(* ---------- the cursor of fetch::Iter (src/fetch.rs:630-705, coq/FetchIter.v) ---------- *)
Require Import EV.FetchIter.
(* over a cache of non-empty archetypes (the cache invariant, Fetch.v): a fresh iterator yields every
   (cache position, row) exactly once, in order, without reaching one of its two unchecked steps; its len() is the
   total; afterwards next() keeps returning None *)
Theorem c06_iterator_yields_each_item_exactly_once :
  forall counts : list N, Forall (fun c => (0 < c)%N) counts ->
    exists it', it_drain (S (length (all_items counts))) counts (it_new counts) = IVal (all_items counts, it') /\
                it_remaining counts (it_new counts) = N.of_nat (length (all_items counts)) /\
                it_next counts it' = IVal (None, it') /\ NoDup (all_items counts).
Proof. exact it_enumerates. Qed.
Print Assumptions c06_iterator_yields_each_item_exactly_once.

(* "the iterator's reported length always equals the number of items still to come": after ANY number k of calls to
   next(), what is left is the tail of the full enumeration and len() is its length *)
Theorem c06_reported_length_is_exact_at_every_point :
  forall counts : list N, Forall (fun c => (0 < c)%N) counts -> forall k : nat,
    exists it', it_advance k counts (it_new counts) = IVal it' /\ ItInv counts it' /\
                rest counts it' = skipn k (all_items counts) /\
                it_remaining counts it' = N.of_nat (length (skipn k (all_items counts))).
Proof. exact it_len_after_any_prefix. Qed.
Print Assumptions c06_reported_length_is_exact_at_every_point.
