(* C06 - Queries match exactly the entities their documented Boolean meaning selects. *)
From Coq Require Import List NArith Bool.
Require Import EV.Base EV.Access EV.Query EV.QueryProofs.

(* the structural matcher (`new_arch_state`) accepts an archetype iff the documented
   meaning holds of its component set: every query expression, every archetype *)
Theorem c06_matcher_is_meaning :
  forall (a : N -> bool) (q : query), (if arch_state a q then true else false) = qmatch a q.
Proof. exact arch_state_iff_qmatch. Qed.
Print Assumptions c06_matcher_is_meaning.

(* the access expression (used for listener tables and refresh tables) and the matcher
   (used to fill fetcher caches) decide the same set of archetypes *)
Theorem c06_init_agrees_with_matcher :
  forall (a : N -> bool) (q : query), ca_matches a (access_of q) = (if arch_state a q then true else false).
Proof. exact init_agrees_with_matcher. Qed.
Print Assumptions c06_init_agrees_with_matcher.
