(* C06 - Queries match exactly the entities their documented Boolean meaning selects. *)
From Coq Require Import List NArith Bool.
Require Import EV.Base EV.Access EV.Query EV.QueryProofs.

(* the structural matcher (`new_arch_state`) accepts an archetype iff the documented
   meaning holds of its component set: every query expression, every archetype *)
Theorem c06_matcher_is_meaning :
  forall (a : N -> bool) (q : query), (if arch_state a q then true else false) = qmatch a q.
Proof. exact arch_state_iff_qmatch. Qed.
Print Assumptions c06_matcher_is_meaning.

(* the access expression (used for listener tables and refresh tables) and the matcher
   (used to fill fetcher caches) decide the same set of archetypes *)
Theorem c06_init_agrees_with_matcher :
  forall (a : N -> bool) (q : query), ca_matches a (access_of q) = (if arch_state a q then true else false).
Proof. exact init_agrees_with_matcher. Qed.
Print Assumptions c06_init_agrees_with_matcher.

Require Import EV.World EV.SlotMap EV.Store EV.Member EV.Listen EV.Fetch.

(* world level: through the fetcher caches of a live handler, a query yields exactly the entities
   of the archetypes it matches (amatch a q = arch_state succeeds = qmatch, by the theorems above) *)
Theorem c06_fetcher_yields_exactly_the_matching_entities :
  forall (w : world) (hk : key) (h : hinfo) (p : rparam) (q : query) (c : list centry),
    XI w -> hlive w hk h -> In p (h_params h) -> pquery p = Some (q, c) ->
    exists its, cache_items w q true c = inr its /\
      forall k, In k (map fst its) <-> exists ai a row vals, arch_at w ai = Some a /\ amatch a q = true /\ nget (a_rows a) row = Some (k, vals).
Proof. exact handler_view_exact. Qed.
Print Assumptions c06_fetcher_yields_exactly_the_matching_entities.
