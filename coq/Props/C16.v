(* C16 - Registration is idempotent and ids of removed items never come back. *)
From Coq Require Import List NArith Bool.
Require Import EV.Base EV.SlotMap EV.World EV.WorldProofs.
Open Scope N_scope.

(* registering what is registered returns the existing id and the unchanged world: nothing is
   delivered, no notification - for components, global events, targeted events, handlers *)
Theorem c16_component_registration_idempotent :
  forall (beh : hinfo -> logent -> N -> script) (tag : N) (k : key) (w : world),
    alookup tag (w_cby w) = Some k -> add_component beh tag w = ROk k w.
Proof. exact add_component_idem. Qed.
Print Assumptions c16_component_registration_idempotent.

Theorem c16_global_event_registration_idempotent :
  forall (beh : hinfo -> logent -> N -> script) (f : nat) (tag : N) (k : key) (w : world),
    alookup tag (w_gby w) = Some k -> add_global_event beh (S f) tag w = ROk k w.
Proof. exact add_global_event_idem. Qed.
Print Assumptions c16_global_event_registration_idempotent.

Theorem c16_targeted_event_registration_idempotent :
  forall (beh : hinfo -> logent -> N -> script) (tag : N) (k : key) (w : world),
    tag < 20 -> alookup tag (w_tby w) = Some k -> add_targeted_event beh tag w = ROk k w.
Proof. exact add_targeted_event_idem. Qed.
Print Assumptions c16_targeted_event_registration_idempotent.

Theorem c16_handler_registration_idempotent :
  forall (beh : hinfo -> logent -> N -> script) (sh : hshape) (t : N) (k : key) (w : world),
    sh_tid sh = Some t -> alookup t (w_hby w) = Some k -> add_handler beh sh w = ROk k w.
Proof. exact add_handler_idem. Qed.
Print Assumptions c16_handler_registration_idempotent.

(* ids: the four registries are the generational slot map of C03; over every sequence of
   registrations and removals all ids issued are distinct, and a removed id is never valid again *)
Theorem c16_ids_never_come_back :
  forall (V : Type) (k : key) (m : smap V) (v : V) (m' : smap V) (ops : list (@sm_op V)),
    N.odd (snd k) = true -> SmInv m -> sm_remove k m = Some (v, m') ->
    sm_get k (fst (fold_left sm_step ops (m', nil))) = None.
Proof. exact @sm_never_again. Qed.
Print Assumptions c16_ids_never_come_back.

Theorem c16_ids_distinct :
  forall (V : Type) (ops : list (@sm_op V)),
    let st := fold_left sm_step ops (sm_empty, nil) in
    SmInv (fst st) /\ Hist (fst st) (snd st) /\ NoDup (snd st).
Proof. exact @sm_all_keys_distinct. Qed.
Print Assumptions c16_ids_distinct.
