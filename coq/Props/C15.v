(* C15 - A removed handler never runs again; removing an event removes its users. *)
From Coq Require Import List NArith.
Require Import EV.Base EV.HList EV.HListProofs EV.SlotMap EV.World EV.WorldProofs.

(* HandlerList::remove: the removed handler is in the list no more, for every list without
   duplicates ... *)
Theorem c15_removed_handler_not_in_list :
  forall (H : Type) (heqb : H -> H -> bool), (forall a b, heqb a b = true <-> a = b) ->
  forall (l : hlist H) (h : H), NoDup (hl_entries l) -> ~ In h (hl_entries (hl_remove heqb l h)).
Proof. exact @remove_not_in. Qed.
Print Assumptions c15_removed_handler_not_in_list.

(* ... and all other handlers keep their relative order *)
Theorem c15_others_keep_their_order :
  forall (H : Type) (heqb : H -> H -> bool), (forall a b, heqb a b = true <-> a = b) ->
  forall (l : hlist H) (h : H), exists X Y,
    (hl_entries l = X ++ h :: Y /\ hl_entries (hl_remove heqb l h) = X ++ Y) \/
    (hl_entries (hl_remove heqb l h) = hl_entries l /\ X = nil /\ Y = nil).
Proof. exact @remove_keeps_others. Qed.
Print Assumptions c15_others_keep_their_order.

(* removing with a stale id does nothing and delivers nothing *)
Theorem c15_stale_handler_id_is_a_no_op :
  forall (beh : hinfo -> logent -> N -> script) (k : key) (w : world),
    sm_get k (w_hs w) = None -> remove_handler beh k w = ROk false w.
Proof. exact remove_handler_stale. Qed.
Print Assumptions c15_stale_handler_id_is_a_no_op.

Require Import EV.Member EV.Listen.

(* on every world satisfying the listener invariant, every handler a delivery runs is live: a
   removed handler (its id is dead, and dead ids never become valid again - C03/C16) is in no
   listener list, so it never runs again *)
Theorem c15_only_live_handlers_are_run :
  forall (w : world) (it : qitem) (hk : key),
    HL w -> In hk (delivered_to w it) -> exists h, hlive w hk h.
Proof. exact delivered_handlers_are_live. Qed.
Print Assumptions c15_only_live_handlers_are_run.

Theorem c15_listener_invariant_in_every_reachable_world :
  forall (beh : hinfo -> logent -> N -> script) (fuel p : N) (ops : list top_all),
    AI (fold_left (run_top_all beh) ops (world0 fuel p)).
Proof. exact reachable_AI. Qed.
Print Assumptions c15_listener_invariant_in_every_reachable_world.

(* ---------- the bit sets consulted when an event is removed (src/bit_set.rs, coq/BitSet.v) ---------- *)
Require Import EV.BitSet.
(* "removes exactly the handlers that receive it or are able to send it": a handler's sendable events are a BitSet filled
   by insert and |= while its parameters are initialised and queried by contains.  Over every sequence of insert, remove,
   union and shrink_to_fit the bit set is the finite set of the specification: contains answers membership exactly. *)
Theorem c15_sent_event_sets_are_finite_sets :
  forall ops : list bs_op,
    BsInv (fold_left bs_step ops nil) /\
    forall j, bs_contains (fold_left bs_step ops nil) j = fold_left BitSet.spec_step ops (fun _ => false) j.
Proof. exact bs_from_empty. Qed.
Print Assumptions c15_sent_event_sets_are_finite_sets.
