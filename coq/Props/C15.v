(* C15 - A removed handler never runs again; removing an event removes its users. *)
From Coq Require Import List NArith.
Require Import EV.Base EV.HList EV.HListProofs EV.SlotMap EV.World EV.WorldProofs.

(* HandlerList::remove: the removed handler is in the list no more, for every list without
   duplicates ... *)
Theorem c15_removed_handler_not_in_list :
  forall (H : Type) (heqb : H -> H -> bool), (forall a b, heqb a b = true <-> a = b) ->
  forall (l : hlist H) (h : H), NoDup (hl_entries l) -> ~ In h (hl_entries (hl_remove heqb l h)).
Proof. exact @remove_not_in. Qed.
Print Assumptions c15_removed_handler_not_in_list.

(* ... and all other handlers keep their relative order *)
Theorem c15_others_keep_their_order :
  forall (H : Type) (heqb : H -> H -> bool), (forall a b, heqb a b = true <-> a = b) ->
  forall (l : hlist H) (h : H), exists X Y,
    (hl_entries l = X ++ h :: Y /\ hl_entries (hl_remove heqb l h) = X ++ Y) \/
    (hl_entries (hl_remove heqb l h) = hl_entries l /\ X = nil /\ Y = nil).
Proof. exact @remove_keeps_others. Qed.
Print Assumptions c15_others_keep_their_order.

(* removing with a stale id does nothing and delivers nothing *)
Theorem c15_stale_handler_id_is_a_no_op :
  forall (beh : hinfo -> logent -> N -> script) (k : key) (w : world),
    sm_get k (w_hs w) = None -> remove_handler beh k w = ROk false w.
Proof. exact remove_handler_stale. Qed.
Print Assumptions c15_stale_handler_id_is_a_no_op.

Require Import EV.Member EV.Listen.

(* on every world satisfying the listener invariant, every handler a delivery runs is live: a
   removed handler (its id is dead, and dead ids never become valid again - C03/C16) is in no
   listener list, so it never runs again *)
Theorem c15_only_live_handlers_are_run :
  forall (w : world) (it : qitem) (hk : key),
    HL w -> In hk (delivered_to w it) -> exists h, hlive w hk h.
Proof. exact delivered_handlers_are_live. Qed.
Print Assumptions c15_only_live_handlers_are_run.

Theorem c15_listener_invariant_in_every_reachable_world :
  forall (beh : hinfo -> logent -> N -> script) (fuel p : N) (ops : list top_all),
    AI (fold_left (run_top_all beh) ops (world0 fuel p)).
Proof. exact reachable_AI. Qed.
Print Assumptions c15_listener_invariant_in_every_reachable_world.

From Coq Require Import Bool.
Require Import EV.Fetch EV.NoUB EV.Sender EV.Users.

(* World::remove_handler on any world satisfying the reachable invariant ZI: when it returns, the id is
   invalid, and the static view (receiver, priority, order, sent-sets, queries) of every other handler -
   in particular whether it exists - is unchanged *)
Theorem c15_remove_handler_removes_exactly_that_handler :
  forall (beh : hinfo -> logent -> N -> script) (k : key) (w : world), ZI w ->
    match remove_handler beh k w with
    | ROk _ w' => sm_get k (w_hs w') = None /\ hs_keep w' w (k :: nil)
    | RFail _ _ => True end.
Proof. exact remove_handler_exact. Qed.
Print Assumptions c15_remove_handler_removes_exactly_that_handler.

(* World::remove_event of a global event: afterwards the event id is invalid and the live handlers are
   exactly the handlers of before that neither receive the event nor are able to send it *)
Theorem c15_remove_global_event_removes_exactly_its_users :
  forall (beh : hinfo -> logent -> N -> script) (k : key) (w w' : world), ZI w ->
    remove_global_event beh k w = ROk true w' ->
    sm_get k (w_gev w') = None /\
    forall hk, (exists h', hlive w' hk h') <->
               (exists h, hlive w hk h /\ recvid_eqb (h_recv h) (RvGlobal k) || smem (fst k) (h_sent_g h) = false).
Proof. exact remove_global_event_exact. Qed.
Print Assumptions c15_remove_global_event_removes_exactly_its_users.

Theorem c15_remove_targeted_event_removes_exactly_its_users :
  forall (beh : hinfo -> logent -> N -> script) (k : key) (w w' : world), ZI w ->
    remove_targeted_event beh k w = ROk true w' ->
    sm_get k (w_tev w') = None /\
    forall hk, (exists h', hlive w' hk h') <->
               (exists h, hlive w hk h /\ recvid_eqb (h_recv h) (RvTargeted k) || smem (fst k) (h_sent_t h) = false).
Proof. exact remove_targeted_event_exact. Qed.
Print Assumptions c15_remove_targeted_event_removes_exactly_its_users.

(* ZI holds in every reachable world *)
Theorem c15_reachable_worlds_satisfy_ZI :
  forall (beh : hinfo -> logent -> N -> script) (fuel p : N) (ops : list top_all),
    ZI (fold_left (run_top_all beh) ops (world0 fuel p)).
Proof. exact reachable_ZI. Qed.
Print Assumptions c15_reachable_worlds_satisfy_ZI.
