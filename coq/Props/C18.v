(* C18 - Immutability, read-only and thread-safety restrictions hold at compile time.  (partial)
   The rules are regenerated from the source (coq/gen/GateRules.v); rustc is the implementation
   side of the correspondence (h_compile). *)
From Coq Require Import List NArith Bool.
Require Import EV.Base EV.Query EV.Gates EV.gen.GateRules.

Theorem c18_read_only_queries_never_yield_mutable_references :
  forall q : query, ro q = true ->
  forall (a : N -> bool) (st : astate), arch_state a q = Some st -> no_mut_refs (arefs st) = true.
Proof. exact ro_sound. Qed.
Print Assumptions c18_read_only_queries_never_yield_mutable_references.

Theorem c18_mutable_access_needs_a_mutable_component :
  forall (mutable : N -> bool) (q : query), is_query mutable q = true -> forall c, In c (mut_leaves q) -> mutable c = true.
Proof. exact mut_needs_mutable. Qed.
Print Assumptions c18_mutable_access_needs_a_mutable_component.

Theorem c18_shared_access_is_gated :
  g_get_needs_ro && g_iter_needs_ro && g_ref_into_iter_needs_ro && (negb g_iter_clone_exists || g_iter_clone_needs_ro) = true /\
  g_get_mut_needs_ro = false /\ g_iter_mut_needs_ro = false.
Proof. exact shared_access_is_gated. Qed.
Print Assumptions c18_shared_access_is_gated.

Theorem c18_event_and_component_mutability_is_gated :
  g_receiver_mut_needs_mutable && g_world_get_mut_needs_mutable && g_mut_query_needs_mutable = true /\
  g_ref_query_needs_mutable = false.
Proof. exact event_and_component_mutability_is_gated. Qed.
Print Assumptions c18_event_and_component_mutability_is_gated.

Theorem c18_thread_safety_is_gated :
  g_world_has_not_send_marker && negb g_world_unsafe_send_impl && negb g_world_unsafe_sync_impl = true /\
  (g_fetcher_send_impl = true -> g_fetcher_send_needs_item = true) /\ (g_fetcher_sync_impl = true -> g_fetcher_sync_needs_item = true) /\
  (g_iter_send_impl = true -> g_iter_send_needs_item = true) /\ (g_iter_sync_impl = true -> g_iter_sync_needs_item = true).
Proof. exact thread_safety_is_gated. Qed.
Print Assumptions c18_thread_safety_is_gated.
