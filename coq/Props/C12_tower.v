(* C12, second part: theorems that rest on the whole tower of reachable invariants (ZI), and thereby also on the
   meaning of the access expressions (files AccessProofs / QueryProofs over the regenerated tables). *)
From Coq Require Import List NArith Permutation.
Require Import EV.Base EV.Query EV.World EV.ArchProofs.
Require Import EV.SlotMap EV.Store EV.Effects EV.Ledger.
Require Import EV.WorldFrame EV.Member EV.NoUB EV.Sender EV.EvLedger.
(* stored component values across a whole propagation on any reachable world: `stored` after, plus everything
   destroyed during the propagation, is a permutation of `stored` before plus the payloads of the queued and
   sent events - so a stored value is destroyed at most once, only by leaving the storage, and no value that
   left the storage survives undestroyed (multisets of (type, serial): zero-sized types included) *)
Theorem c12_a_propagation_conserves_stored_values :
  forall (beh : hinfo -> logent -> N -> script) (fuel p : N) (ops : list top_all) (q : list qitem),
    let w := fold_left (run_top_all beh) ops (world0 fuel p) in
    (forall x, In x q -> item_ok w x) ->
    let r := flush beh q w in res_fail r <> Some (FPanic 5) -> res_fail r <> Some (FPanic 8) ->
    exists S nd X, w_drops (res_world r) = w_drops w ++ nd /\
      Permutation (stored (res_world r) ++ nd) (stored w ++ entries w q ++ entries w S ++ X) /\ (res_fail r = None -> X = nil).
Proof. exact reachable_flush_ledger. Qed.
Print Assumptions c12_a_propagation_conserves_stored_values.

(* handler writes never change which values are stored *)
Theorem c12_handler_writes_keep_the_stored_values :
  forall (w : world) (q : query) (d ai : N) (r : option N), Permutation (stored (write_arch w q d ai r)) (stored w).
Proof. exact stored_write_arch. Qed.
Print Assumptions c12_handler_writes_keep_the_stored_values.

