(* C02 - Component storage behaves as a map from (entity, component type) to last value.  (partial)
   Proved: the row merge of move_entity - the only place where stored values change column or
   archetype - conserves the tagged values exactly; on every consistent world (WInv, an invariant
   of every reachable state: Props/C17.v) each built-in effect succeeds and is exactly the map
   operation on  abs : entity -> component -> option value  (last part of this file). *)
From Coq Require Import List NArith Permutation.
Require Import EV.Base EV.Query EV.World EV.ArchProofs.

Theorem c02_partial_row_merge_places_values_exactly :
  forall (fuel : nat) (sc : list N) (sv : list cval) (dc : list N) (nw : option (N * cval)) (dvals : list cval) (killed : list (N * cval)),
    length sv = length sc ->
    merge_row fuel sc sv dc nw = Some (dvals, killed) ->
    length dvals = length dc /\
    Permutation (combine dc dvals ++ killed) (combine sc sv ++ new_pair nw).
Proof. exact merge_row_conserves. Qed.
Print Assumptions c02_partial_row_merge_places_values_exactly.

Require Import EV.SlotMap EV.Store.

(* despawn's row removal on a consistent store: succeeds, keeps the store consistent, removes
   exactly that entity, and changes no component of any other entity - although it swap-removes
   a row and re-points the displaced entity *)
Theorem c02_row_removal_touches_no_other_entity :
  forall (w : world) (ai row : N) (a : arch) (e : key) (vals : list cval),
    StoreInv w -> arch_at w ai = Some a -> nget (a_rows a) row = Some (e, vals) ->
    exists w', remove_entity w (ai, row) = ROk tt w' /\ StoreInv w' /\
               sm_get e (w_ents w') = None /\ (forall k c, k <> e -> abs w' k c = abs w k c).
Proof. exact remove_entity_ok. Qed.
Print Assumptions c02_row_removal_touches_no_other_entity.

(* the archetype move behind Insert and Remove: succeeds when the column walk does, keeps the
   store consistent, changes no component of any other entity, and the moved entity reads back
   exactly the destination values computed by the walk *)
Theorem c02_archetype_move_touches_no_other_entity :
  forall (w : world) (sai srow dst : N) (sa da : arch) (e : key) (vals : list cval) (nw : option (N * cval))
         (dvals : list cval) (killed : list (N * cval)),
    StoreInv w -> arch_at w sai = Some sa -> arch_at w dst = Some da -> sai <> dst ->
    nget (a_rows sa) srow = Some (e, vals) ->
    merge_row (S (length (a_comps sa) + length (a_comps da))) (a_comps sa) vals (a_comps da) nw = Some (dvals, killed) ->
    exists w', move_entity w (sai, srow) dst nw = ROk tt w' /\ StoreInv w' /\
               (forall k c, k <> e -> abs w' k c = abs w k c) /\
               (forall c, abs w' e c = row_col da dvals c).
Proof. exact move_entity_ok_core. Qed.
Print Assumptions c02_archetype_move_touches_no_other_entity.

Require Import EV.Effects EV.Reach.

(* Insert on a consistent world: cannot fail, the world stays consistent, the target reads back the
   new value for that component, every other component of the target, every component of every
   other entity and the set of live entities are unchanged *)
Theorem c02_insert_is_the_map_update :
  forall (w : world) (e : key) (loc : eloc) (c : N) (ev : evv),
    WInv w -> sm_get e (w_ents w) = Some loc ->
    exists w', builtin_effect (KInsert c) ev loc w = ROk tt w' /\ WInv w' /\
      abs w' e c = Some (ev_ser ev, ev_val ev) /\ (forall c', c' <> c -> abs w' e c' = abs w e c') /\
      (forall k c', k <> e -> abs w' k c' = abs w k c') /\ same_dom (w_ents w) (w_ents w').
Proof. exact insert_effect_map. Qed.
Print Assumptions c02_insert_is_the_map_update.

Theorem c02_remove_is_the_map_delete :
  forall (w : world) (e : key) (loc : eloc) (c : N) (ev : evv),
    WInv w -> sm_get e (w_ents w) = Some loc ->
    exists w', builtin_effect (KRemove c) ev loc w = ROk tt w' /\ WInv w' /\
      abs w' e c = None /\ (forall c', c' <> c -> abs w' e c' = abs w e c') /\
      (forall k c', k <> e -> abs w' k c' = abs w k c') /\ same_dom (w_ents w) (w_ents w').
Proof. exact remove_effect_map. Qed.
Print Assumptions c02_remove_is_the_map_delete.

(* Despawn: the only possible failure is the exhaustion of the entity slots while the pending
   reservations are materialised; otherwise the target is gone and every other entity that
   existed still exists with every component unchanged; ids that did not exist have no component *)
Theorem c02_despawn_deletes_exactly_the_target :
  forall (w : world) (e : key) (loc : eloc) (ev : evv),
    WInv w -> sm_get e (w_ents w) = Some loc ->
    match builtin_effect KDespawn ev loc w with
    | ROk _ w' => WInv w' /\ sm_get e (w_ents w') = None /\
                  (forall k, k <> e -> sm_get k (w_ents w) <> None -> sm_get k (w_ents w') <> None /\ forall c, abs w' k c = abs w k c) /\
                  (forall k, k <> e -> sm_get k (w_ents w) = None -> forall c, abs w' k c = None)
    | RFail f w' => f = FPanic 5 /\ ext_by_spawn w w'
    end.
Proof. exact despawn_effect_map. Qed.
Print Assumptions c02_despawn_deletes_exactly_the_target.

(* Spawn (materialising reservations): new entities have no components, nothing else changes *)
Theorem c02_spawn_adds_component_less_entities :
  forall (w : world) (ev : evv) (loc : eloc),
    WInv w ->
    match builtin_effect KSpawn ev loc w with
    | ROk _ w' => ext_by_spawn w w'
    | RFail f w' => f = FPanic 5 /\ ext_by_spawn w w'
    end.
Proof. exact spawn_effect_map. Qed.
Print Assumptions c02_spawn_adds_component_less_entities.
