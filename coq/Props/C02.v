(* C02 - Component storage behaves as a map from (entity, component type) to last value.  (partial)
   Proved: the row merge of move_entity - the only place where stored values change column or
   archetype - conserves the tagged values exactly.  The world-level refinement to a finite
   map is checked by the correspondence (full get matrix after every op), not yet proved. *)
From Coq Require Import List NArith Permutation.
Require Import EV.Base EV.Query EV.World EV.ArchProofs.

Theorem c02_partial_row_merge_places_values_exactly :
  forall (fuel : nat) (sc : list N) (sv : list cval) (dc : list N) (nw : option (N * cval)) (dvals : list cval) (killed : list (N * cval)),
    length sv = length sc ->
    merge_row fuel sc sv dc nw = Some (dvals, killed) ->
    length dvals = length dc /\
    Permutation (combine dc dvals ++ killed) (combine sc sv ++ new_pair nw).
Proof. exact merge_row_conserves. Qed.
Print Assumptions c02_partial_row_merge_places_values_exactly.

Require Import EV.SlotMap EV.Store.

(* despawn's row removal on a consistent store: succeeds, keeps the store consistent, removes
   exactly that entity, and changes no component of any other entity - although it swap-removes
   a row and re-points the displaced entity *)
Theorem c02_row_removal_touches_no_other_entity :
  forall (w : world) (ai row : N) (a : arch) (e : key) (vals : list cval),
    StoreInv w -> arch_at w ai = Some a -> nget (a_rows a) row = Some (e, vals) ->
    exists w', remove_entity w (ai, row) = ROk tt w' /\ StoreInv w' /\
               sm_get e (w_ents w') = None /\ (forall k c, k <> e -> abs w' k c = abs w k c).
Proof. exact remove_entity_ok. Qed.
Print Assumptions c02_row_removal_touches_no_other_entity.

(* the archetype move behind Insert and Remove: succeeds when the column walk does, keeps the
   store consistent, changes no component of any other entity, and the moved entity reads back
   exactly the destination values computed by the walk *)
Theorem c02_archetype_move_touches_no_other_entity :
  forall (w : world) (sai srow dst : N) (sa da : arch) (e : key) (vals : list cval) (nw : option (N * cval))
         (dvals : list cval) (killed : list (N * cval)),
    StoreInv w -> arch_at w sai = Some sa -> arch_at w dst = Some da -> sai <> dst ->
    nget (a_rows sa) srow = Some (e, vals) ->
    merge_row (S (length (a_comps sa) + length (a_comps da))) (a_comps sa) vals (a_comps da) nw = Some (dvals, killed) ->
    exists w', move_entity w (sai, srow) dst nw = ROk tt w' /\ StoreInv w' /\
               (forall k c, k <> e -> abs w' k c = abs w k c) /\
               (forall c, abs w' e c = row_col da dvals c).
Proof. exact move_entity_ok_core. Qed.
Print Assumptions c02_archetype_move_touches_no_other_entity.
