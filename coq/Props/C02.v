(* C02 - Component storage behaves as a map from (entity, component type) to last value.  (partial)
   Proved: the row merge of move_entity - the only place where stored values change column or
   archetype - conserves the tagged values exactly.  The world-level refinement to a finite
   map is checked by the correspondence (full get matrix after every op), not yet proved. *)
From Coq Require Import List NArith Permutation.
Require Import EV.Base EV.Query EV.World EV.ArchProofs.

Theorem c02_partial_row_merge_places_values_exactly :
  forall (fuel : nat) (sc : list N) (sv : list cval) (dc : list N) (nw : option (N * cval)) (dvals : list cval) (killed : list (N * cval)),
    length sv = length sc ->
    merge_row fuel sc sv dc nw = Some (dvals, killed) ->
    length dvals = length dc /\
    Permutation (combine dc dvals ++ killed) (combine sc sv ++ new_pair nw).
Proof. exact merge_row_conserves. Qed.
Print Assumptions c02_partial_row_merge_places_values_exactly.
