(* C12 - Every stored component value is destroyed exactly once and never seen afterwards.  (partial)
   Proved: in every archetype move the values that leave storage (the [killed] list, which the
   model hands to the destruction ledger) and the values that stay are together exactly the
   values that were there plus the inserted one: none destroyed twice, none dropped silently. *)
From Coq Require Import List NArith Permutation.
Require Import EV.Base EV.Query EV.World EV.ArchProofs.

Theorem c12_partial_move_destroys_exactly_the_values_that_leave :
  forall (fuel : nat) (sc : list N) (sv : list cval) (dc : list N) (nw : option (N * cval)) (dvals : list cval) (killed : list (N * cval)),
    length sv = length sc ->
    merge_row fuel sc sv dc nw = Some (dvals, killed) ->
    length dvals = length dc /\
    Permutation (combine dc dvals ++ killed) (combine sc sv ++ new_pair nw).
Proof. exact merge_row_conserves. Qed.
Print Assumptions c12_partial_move_destroys_exactly_the_values_that_leave.
