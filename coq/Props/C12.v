(* C12 - Every stored component value is destroyed exactly once and never seen afterwards.  (partial)
   Proved: (1) the row merge conserves the tagged values; (2) each built-in effect, on a consistent
   world, appends to the destruction ledger exactly the values that leave the storage -
   stored w' ++ newly destroyed  is a permutation of  stored w ++ newly inserted  - as multisets of
   (type tag, serial), so also for zero-sized types; (3) dropping the world destroys exactly the
   stored values, each once.  Not proved as one theorem over whole histories (events in flight carry
   values too); that part is decided by the ledger monitors and the correspondence on every run. *)
From Coq Require Import List NArith Permutation.
Require Import EV.Base EV.Query EV.World EV.ArchProofs.

Theorem c12_partial_move_destroys_exactly_the_values_that_leave :
  forall (fuel : nat) (sc : list N) (sv : list cval) (dc : list N) (nw : option (N * cval)) (dvals : list cval) (killed : list (N * cval)),
    length sv = length sc ->
    merge_row fuel sc sv dc nw = Some (dvals, killed) ->
    length dvals = length dc /\
    Permutation (combine dc dvals ++ killed) (combine sc sv ++ new_pair nw).
Proof. exact merge_row_conserves. Qed.
Print Assumptions c12_partial_move_destroys_exactly_the_values_that_leave.

Require Import EV.SlotMap EV.Store EV.Effects EV.Ledger.

(* Insert: the new value enters the storage; if the entity already had the component, exactly the old
   value is destroyed; nothing else is destroyed or lost, whichever archetypes the entity moves between *)
Theorem c12_insert_destroys_exactly_the_replaced_value :
  forall (w : world) (e : key) (loc : eloc) (c : N) (ev : evv) (w' : world),
    WInv w -> sm_get e (w_ents w) = Some loc -> builtin_effect (KInsert c) ev loc w = ROk tt w' ->
    exists newdrops, w_drops w' = w_drops w ++ newdrops /\
      Permutation (stored w' ++ newdrops) (stored w ++ tracked_cv (comp_tag w) ((c, (ev_ser ev, ev_val ev)) :: nil)).
Proof. exact insert_effect_ledger. Qed.
Print Assumptions c12_insert_destroys_exactly_the_replaced_value.

Theorem c12_remove_destroys_exactly_the_removed_value :
  forall (w : world) (e : key) (loc : eloc) (c : N) (ev : evv) (w' : world),
    WInv w -> sm_get e (w_ents w) = Some loc -> builtin_effect (KRemove c) ev loc w = ROk tt w' ->
    exists newdrops, w_drops w' = w_drops w ++ newdrops /\ Permutation (stored w' ++ newdrops) (stored w).
Proof. exact remove_effect_ledger. Qed.
Print Assumptions c12_remove_destroys_exactly_the_removed_value.

Theorem c12_despawn_destroys_exactly_the_entitys_values :
  forall (w : world) (e : key) (loc : eloc) (ev : evv) (w' : world),
    WInv w -> sm_get e (w_ents w) = Some loc -> builtin_effect KDespawn ev loc w = ROk tt w' ->
    exists newdrops, w_drops w' = w_drops w ++ newdrops /\ Permutation (stored w' ++ newdrops) (stored w).
Proof. exact despawn_effect_ledger. Qed.
Print Assumptions c12_despawn_destroys_exactly_the_entitys_values.

Theorem c12_spawn_destroys_nothing :
  forall (w : world) (ev : evv) (loc : eloc),
    let w' := WorldFrame.res_world (builtin_effect KSpawn ev loc w) in w_drops w' = w_drops w /\ Permutation (stored w') (stored w).
Proof. exact spawn_effect_ledger. Qed.
Print Assumptions c12_spawn_destroys_nothing.

(* dropping the world destroys every stored value exactly once, and nothing else *)
Theorem c12_world_drop_destroys_exactly_what_is_stored :
  forall (w : world), w_drops (op_drop w) = w_drops w ++ stored w.
Proof. exact op_drop_spec. Qed.
Print Assumptions c12_world_drop_destroys_exactly_what_is_stored.
