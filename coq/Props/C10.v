(* C10 - What a handler's queries see always reflects the current world.  (partial)
   Proved: a refresh notification caches an archetype (with its current identity and buffer
   epoch) exactly when the query's documented meaning holds of it.  That every structural
   change sends the notifications that are needed is checked by the correspondence (views at
   every invocation; a stale or missing entry is a checked failure of the model). *)
From Coq Require Import List NArith Bool.
Require Import EV.Base EV.Query EV.World EV.ArchProofs.

Theorem c10_partial_refresh_caches_matching_archetype :
  forall (ai : N) (a : arch) (k : fkind) (q : query) (c : list centry),
    qmatch (arch_has a) q = true ->
    match param_refresh ai a (RFetch k q c) with
    | RFetch _ _ c' => In (ai, a_uid a, a_epoch a) c'
    | _ => False end.
Proof. exact param_refresh_caches_matching. Qed.
Print Assumptions c10_partial_refresh_caches_matching_archetype.

Theorem c10_partial_refresh_skips_nonmatching_archetype :
  forall (ai : N) (a : arch) (k : fkind) (q : query) (c : list centry),
    qmatch (arch_has a) q = false -> param_refresh ai a (RFetch k q c) = RFetch k q c.
Proof. exact param_refresh_skips_nonmatching. Qed.
Print Assumptions c10_partial_refresh_skips_nonmatching_archetype.
