(* C10 - What a handler's queries see always reflects the current world.
   Proved: a refresh notification caches an archetype (with its current identity and buffer
   epoch) exactly when the query's documented meaning holds of it; and the cache invariant XI
   (every cache of every live handler lists, once each, exactly the non-empty archetypes its query
   matches, with their current identity and buffer epoch; refresh-listener sets are exact) holds in
   every reachable world, for every handler behaviour - so every structural change sends the
   notifications that are needed, and a view never contains a stale or missing archetype. *)
From Coq Require Import List NArith Bool.
Require Import EV.Base EV.Query EV.World EV.ArchProofs EV.ArchAccess.

Theorem c10_partial_refresh_caches_matching_archetype :
  forall (ai : N) (a : arch) (k : fkind) (q : query) (c : list centry),
    qmatch (arch_has a) q = true ->
    match param_refresh ai a (RFetch k q c) with
    | RFetch _ _ c' => In (ai, a_uid a, a_epoch a) c'
    | _ => False end.
Proof. exact param_refresh_caches_matching. Qed.
Print Assumptions c10_partial_refresh_caches_matching_archetype.

Theorem c10_partial_refresh_skips_nonmatching_archetype :
  forall (ai : N) (a : arch) (k : fkind) (q : query) (c : list centry),
    qmatch (arch_has a) q = false -> param_refresh ai a (RFetch k q c) = RFetch k q c.
Proof. exact param_refresh_skips_nonmatching. Qed.
Print Assumptions c10_partial_refresh_skips_nonmatching_archetype.

Require Import EV.SlotMap EV.Store EV.Effects EV.Member EV.Listen EV.Fetch.
Open Scope N_scope.

(* what a cache-backed view (Fetcher / Single / TrySingle) yields on a world satisfying the cache
   invariant: no unchecked failure, and exactly the entities stored in the archetypes that the
   query matches - each through the archetype's current columns *)
Theorem c10_view_is_exactly_the_current_matching_entities :
  forall (w : world) (hk : key) (h : hinfo) (p : rparam) (q : query) (c : list centry),
    XI w -> hlive w hk h -> In p (h_params h) -> pquery p = Some (q, c) ->
    exists its, cache_items w q true c = inr its /\
      forall k, In k (map fst its) <-> exists ai a row vals, arch_at w ai = Some a /\ amatch a q = true /\ nget (a_rows a) row = Some (k, vals).
Proof. exact handler_view_exact. Qed.
Print Assumptions c10_view_is_exactly_the_current_matching_entities.

(* a targeted receiver finds its target's current row whenever its query matches the target's archetype *)
Theorem c10_receiver_item_is_the_targets_current_row :
  forall (w : world) (q : query) (c : list centry) (loc : eloc) (a : arch) (k : key) (vals : list cval),
    CI w q c -> arch_at w (fst loc) = Some a -> amatch a q = true -> nget (a_rows a) (snd loc) = Some (k, vals) ->
    exists st, arch_state (arch_has a) q = Some st /\ recv_item w q c loc = inr (aitem (row_col a vals) k st).
Proof. exact recv_item_ok. Qed.
Print Assumptions c10_receiver_item_is_the_targets_current_row.

(* the invariant: after every call, for every handler behaviour *)
Theorem c10_cache_invariant_in_every_reachable_world :
  forall (beh : hinfo -> logent -> N -> script) (fuel p : N) (ops : list top_all),
    DI (fold_left (run_top_all beh) ops (world0 fuel p)).
Proof. exact reachable_DI. Qed.
Print Assumptions c10_cache_invariant_in_every_reachable_world.

(* ... and after every single delivery inside a flush (structural changes made by earlier events of the
   same flush are visible to the handlers of later ones) *)
Theorem c10_cache_invariant_after_every_delivery :
  forall (beh : hinfo -> logent -> N -> script) (it : qitem) (w : world),
    WInv w -> Reach.GevKinds w -> HL w -> XI w -> XI (snd (fst (deliver_one beh it w))).
Proof. exact deliver_one_XI. Qed.
Print Assumptions c10_cache_invariant_after_every_delivery.

(* each kind of structural change sends exactly the notifications that keep the invariant *)
Theorem c10_archetype_move_keeps_caches_exact :
  forall (w : world) (src : eloc) (dst : N) (nw : option (N * cval)) (w' : world),
    move_entity w src dst nw = ROk tt w' -> XI w -> XI w'.
Proof. exact move_entity_XI. Qed.
Print Assumptions c10_archetype_move_keeps_caches_exact.

Require Import EV.NoUB.
(* the handlers a delivery runs (delivered_to) can all evaluate their parameters at the target's
   location: every cache is exact (CI) and the targeted receiver's query matches the target's
   archetype, whose row exists *)
Theorem c10_delivered_handlers_parameters_are_ready :
  forall (beh : hinfo -> logent -> N -> script) (w : world) (it : qitem) (loc : eloc),
    DI w -> SInv w ->
    (qi_targeted it = true -> sm_get (qi_target it) (w_ents w) = Some loc) ->
    ready_list w (delivered_to w it) loc.
Proof. exact delivered_ready. Qed.
Print Assumptions c10_delivered_handlers_parameters_are_ready.

(* ---------- the sparse set behind every fetcher cache (src/sparse_map.rs, coq/SparseMap.v) ---------- *)
Require Import EV.SparseMap.
(* from the empty map, every sequence of fewer than 2^32-1 insertions (keys other than K::MAX) and removals runs
   without reaching an unchecked operation's failure or a panic, keeps the invariant, and computes exactly the
   finite map key -> value of the specification (last value inserted, nothing after a removal, other keys untouched) *)
Theorem c10_sparse_map_is_a_finite_map :
  forall (V : Type) (ops : list (@sp_op V)), Forall op_ok ops -> (N.of_nat (length ops) < U32MAX)%N ->
    exists m', sp_run sp_empty ops = Val m' /\ SpInv m' /\ (forall k, sp_abs m' k = fold_left spec_step ops (fun _ => None) k).
Proof. exact @sp_from_empty. Qed.
Print Assumptions c10_sparse_map_is_a_finite_map.

(* keys() lists every key of the map exactly once, values() is aligned with it (this order is the iteration order of
   a Fetcher over its matching archetypes), get reads the map *)
Theorem c10_sparse_map_keys_values_get :
  forall (V : Type) (m : spm V), SpInv m ->
    (NoDup (sp_keys m) /\ (forall k, In k (sp_keys m) <-> sp_abs m k <> None) /\
     (forall i k, nget (sp_keys m) i = Some k -> nget (sp_values m) i = sp_abs m k) /\ length (sp_keys m) = length (sp_values m)) /\
    (forall k, sp_get m k = Val (sp_abs m k)).
Proof. exact @sp_keys_values_get. Qed.
Print Assumptions c10_sparse_map_keys_values_get.

(* swap-removal: the entry is gone, the displaced last entry is found at its new position, every other key keeps its value *)
Theorem c10_sparse_map_remove :
  forall (V : Type) (m : spm V) (k : N), SpInv m ->
    exists m', sp_remove m k = Val (sp_abs m k, m') /\ SpInv m' /\ sp_abs m' k = None /\ (forall k', k' <> k -> sp_abs m' k' = sp_abs m k').
Proof. exact @sp_remove_spec. Qed.
Print Assumptions c10_sparse_map_remove.
