(* C03 - Entity ids are unique, become valid as promised, and are never reused. *)
From Coq Require Import List NArith Bool.
Require Import EV.Base EV.SlotMap EV.Reserve.
Open Scope N_scope.

(* over every sequence of inserts and removes from the empty slot map, with u32 generation
   arithmetic (wrap to 0 retires the slot): all keys ever issued are pairwise distinct *)
Theorem c03_all_ids_distinct :
  forall (V : Type) (ops : list (@sm_op V)),
    let st := fold_left sm_step ops (sm_empty, nil) in
    SmInv (fst st) /\ Hist (fst st) (snd st) /\ NoDup (snd st).
Proof. exact @sm_all_keys_distinct. Qed.
Print Assumptions c03_all_ids_distinct.

(* a removed key never becomes valid again, whatever happens afterwards, including
   generation wrap-around and slot retirement *)
Theorem c03_never_valid_again :
  forall (V : Type) (k : key) (m : smap V) (v : V) (m' : smap V) (ops : list (@sm_op V)),
    N.odd (snd k) = true -> SmInv m -> sm_remove k m = Some (v, m') ->
    sm_get k (fst (fold_left sm_step ops (m', nil))) = None.
Proof. exact @sm_never_again. Qed.
Print Assumptions c03_never_valid_again.

(* the ids promised by `reserve` (NextKeyIter on the unchanged map) are exactly the ids
   `spawn_all` then creates *)
Theorem c03_reserved_ids_are_created :
  forall (V : Type) (f : key -> V) (n : nat) (m : smap V),
    SmInv m -> N.of_nat (length (slots m)) + N.of_nat n <= U32MAX ->
    exists ks i m', predict n (next_key_iter m) m = Some (ks, i) /\ inserts n f m = Some (ks, m') /\ SmInv m'.
Proof. exact nki_predicts. Qed.
Print Assumptions c03_reserved_ids_are_created.

Require Import EV.World EV.Store EV.Effects EV.ReserveW.

(* world level.  reserved_ids w ks : the reservation cursor is where NextKeyIter stands after
   predicting, on the current entity map, the ids ks handed out since the last materialisation.
   (1) every further reservation (World::spawn, Sender::spawn) extends ks by the id it returns *)
Theorem c03_reservation_extends_the_promise :
  forall (w : world) (ks : list key), reserved_ids w ks ->
    match reserve w with
    | ROk k w' => reserved_ids w' (ks ++ (k :: nil))
    | RFail _ w' => w' = w
    end.
Proof. exact reserve_ReserveInv. Qed.
Print Assumptions c03_reservation_extends_the_promise.

(* (2) on a consistent world, ReservedEntities::spawn_all creates exactly the promised ids, as
   component-less entities, changes no existing entity, and leaves no reservation pending
   (unless the 2^32-1 slots would be exceeded) *)
Theorem c03_promised_ids_are_exactly_the_ids_created :
  forall (w : world) (ks : list key),
    WInv w -> reserved_ids w ks -> N.of_nat (length (slots (w_ents w))) + w_rcnt w <= U32MAX ->
    exists w', spawn_all w = ROk tt w' /\ WInv w' /\
               (forall k, In k ks -> sm_get k (w_ents w') <> None /\ forall c, abs w' k c = None) /\
               ext_by_spawn w w' /\ w_rcnt w' = 0 /\ reserved_ids w' nil.
Proof. exact reserved_ids_are_created. Qed.
Print Assumptions c03_promised_ids_are_exactly_the_ids_created.

Require Import EV.SlotMapLen.
(* "the live-entity count always equals the entities created minus those removed": over every sequence of inserts
   and removes from the empty slot map, len = number of occupied slots = successful insertions - successful removals
   (i and r count the operations that succeeded) *)
Theorem c03_live_count_is_created_minus_removed :
  forall (V : Type) (ops : list (@sm_op V)),
    let '(m, i, r) := fold_left sm_stepc ops (sm_empty, 0, 0) in
    SmInv m /\ LenInv m /\ sm_len m + r = i.
Proof. exact @sm_len_counts. Qed.
Print Assumptions c03_live_count_is_created_minus_removed.
