(* C08 - Targeted events reach exactly the handlers whose query matches the target now. *)
From Coq Require Import List NArith Bool.
Require Import EV.Base EV.Access EV.Query EV.HList EV.World EV.ArchProofs.

(* registration puts a targeted handler into an archetype's listener list for its event iff
   its filter matches the archetype's component set *)
Theorem c08_listener_iff_filter_matches :
  forall (ai : N) (a : arch) (h : hinfo) (ek : key),
    h_recv h = RvTargeted ek ->
    forall x, In x (listeners_of (fst (register_handler ai a h)) (fst ek)) <->
              (x = h_key h /\ ca_matches (arch_has a) (h_filter h) = true) \/ In x (listeners_of a (fst ek)).
Proof. exact register_handler_listens. Qed.
Print Assumptions c08_listener_iff_filter_matches.

(* the filter of a handler with any number of targeted receivers means: every one of its
   receiver queries matches - for all queries and archetypes *)
Theorem c08_filter_is_conjunction_of_receiver_queries :
  forall (a : N -> bool) (qs : list query),
    ca_matches a (fold_left ca_and (map access_of qs) ca_true) = forallb (qmatch a) qs.
Proof. exact conjoined_filter_meaning. Qed.
Print Assumptions c08_filter_is_conjunction_of_receiver_queries.
