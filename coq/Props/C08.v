(* C08 - Targeted events reach exactly the handlers whose query matches the target now. *)
From Coq Require Import List NArith Bool.
Require Import EV.Base EV.Access EV.Query EV.HList EV.World EV.ArchProofs EV.ArchAccess.

(* registration puts a targeted handler into an archetype's listener list for its event iff
   its filter matches the archetype's component set *)
Theorem c08_listener_iff_filter_matches :
  forall (ai : N) (a : arch) (h : hinfo) (ek : key),
    h_recv h = RvTargeted ek ->
    forall x, In x (listeners_of (fst (register_handler ai a h)) (fst ek)) <->
              (x = h_key h /\ ca_matches (arch_has a) (h_filter h) = true) \/ In x (listeners_of a (fst ek)).
Proof. exact register_handler_listens. Qed.
Print Assumptions c08_listener_iff_filter_matches.

(* the filter of a handler with any number of targeted receivers means: every one of its
   receiver queries matches - for all queries and archetypes *)
Theorem c08_filter_is_conjunction_of_receiver_queries :
  forall (a : N -> bool) (qs : list query),
    ca_matches a (fold_left ca_and (map access_of qs) ca_true) = forallb (qmatch a) qs.
Proof. exact conjoined_filter_meaning. Qed.
Print Assumptions c08_filter_is_conjunction_of_receiver_queries.

Require Import EV.SlotMap EV.Store EV.Member EV.Listen.
Open Scope N_scope.

(* the handlers a delivery runs: for a targeted event, the listener list of the archetype the
   target lives in NOW (its location is looked up at delivery time); on any world satisfying the
   listener invariant this list holds, without repetition, exactly the live handlers that receive
   an event with this index and whose filter (the conjunction of their receiver queries, above)
   matches that archetype's component set; for a global event, exactly the live handlers
   receiving it *)
Theorem c08_delivery_reaches_exactly_the_matching_live_handlers :
  forall (w : world) (it : qitem), HL w ->
    NoDup (delivered_to w it) /\
    forall hk, In hk (delivered_to w it) <->
      if qi_targeted it then
        exists loc a h ek, sm_get (qi_target it) (w_ents w) = Some loc /\ arch_at w (fst loc) = Some a /\
          hlive w hk h /\ h_recv h = RvTargeted ek /\ fst ek = qi_idx it /\ ca_matches (arch_has a) (h_filter h) = true
      else exists h ek, hlive w hk h /\ h_recv h = RvGlobal ek /\ fst ek = qi_idx it.
Proof. exact delivered_to_exact. Qed.
Print Assumptions c08_delivery_reaches_exactly_the_matching_live_handlers.

(* deliver_one runs its handler loop over exactly that list *)
Theorem c08_deliver_one_runs_that_list :
  forall (beh : hinfo -> logent -> N -> script) (it : qitem) (w : world),
    (if qi_targeted it then get_by_index (w_tev w) (qi_idx it) <> None /\ sm_get (qi_target it) (w_ents w) <> None /\
                            (forall loc, sm_get (qi_target it) (w_ents w) = Some loc -> slab_get (w_archs w) (fst loc) <> None)
     else get_by_index (w_gev w) (qi_idx it) <> None /\ nget (w_glists w) (qi_idx it) <> None) ->
    exists tag kind loc, deliver_one beh it w =
      (let '(w1, ev, sent, taken, fl) := run_handlers beh (delivered_to w it) w it tag loc nil in
         match fl with
         | Some f => (sent, (if taken then w1 else ev_drop w1 (qi_targeted it) tag ev), Some f)
         | None => if taken then (sent, w1, None) else
             match kind with
             | KNormal => (sent, ev_drop w1 (qi_targeted it) tag ev, None)
             | _ => let '(w3, f) := fail_of (builtin_effect kind ev loc w1) in (sent, w3, f)
             end
         end).
Proof. exact deliver_one_uses_delivered_to. Qed.
Print Assumptions c08_deliver_one_runs_that_list.

(* the listener invariant HL (with the storage and registry invariants) holds in every world
   reachable through any sequence of calls, for every handler behaviour, and is re-established
   after every single delivery inside a flush *)
Theorem c08_listener_invariant_in_every_reachable_world :
  forall (beh : hinfo -> logent -> N -> script) (fuel p : N) (ops : list top_all),
    AI (fold_left (run_top_all beh) ops (world0 fuel p)).
Proof. exact reachable_AI. Qed.
Print Assumptions c08_listener_invariant_in_every_reachable_world.

Theorem c08_listener_invariant_after_every_delivery :
  forall (beh : hinfo -> logent -> N -> script) (it : qitem) (w : world),
    Effects.WInv w -> HL w -> HL (snd (fst (deliver_one beh it w))).
Proof. exact deliver_one_HL. Qed.
Print Assumptions c08_listener_invariant_after_every_delivery.

From Coq Require Import Bool.
Require Import EV.Fetch EV.NoUB EV.Sender EV.Users.
(* in every world satisfying the reachable invariant ZI, each handler a delivery runs listens for exactly
   the delivered event - the event registered at the item's index - not merely for that index *)
Theorem c08_delivered_handlers_receive_this_event :
  forall (w : world) (it : qitem) (hk : key), ZI w -> In hk (delivered_to w it) ->
    exists h ek info, hlive w hk h /\
      (if qi_targeted it then h_recv h = RvTargeted ek /\ get_by_index (w_tev w) (qi_idx it) = Some (ek, info)
       else h_recv h = RvGlobal ek /\ get_by_index (w_gev w) (qi_idx it) = Some (ek, info)).
Proof. exact delivered_receive_this_event. Qed.
Print Assumptions c08_delivered_handlers_receive_this_event.

Theorem c08_reachable_worlds_satisfy_ZI :
  forall (beh : hinfo -> logent -> N -> script) (fuel p : N) (ops : list top_all),
    ZI (fold_left (run_top_all beh) ops (world0 fuel p)).
Proof. exact reachable_ZI. Qed.
Print Assumptions c08_reachable_worlds_satisfy_ZI.
