(* C04 - Events propagate depth-first in send order; send returns only when drained. *)
From Coq Require Import List.
Require Import EV.Loop.

(* whatever the stack machine (Vec as a stack, pushed segment reversed) returns normally is
   a depth-first, first-sent-first delivery of the whole initial stack, top first; for every
   state type, every event type and every per-delivery behaviour [run] *)
Theorem c04_flush_is_depth_first :
  forall (St Ev : Type) (run : Ev -> St -> list Ev * St * bool) (unwind : list Ev -> St -> St)
         (n : nat) (q : list Ev) (st : St) (acc tr : list Ev) (st' : St),
    flush St Ev run unwind n q st acc = Some (tr, st', Finished) ->
    exists tr0, tr = acc ++ tr0 /\ deliver_list St Ev run (rev q) st tr0 st'.
Proof. exact flush_sound. Qed.
Print Assumptions c04_flush_is_depth_first.

(* and every terminating depth-first delivery is what the machine computes *)
Theorem c04_depth_first_is_flush :
  forall (St Ev : Type) (run : Ev -> St -> list Ev * St * bool) (unwind : list Ev -> St -> St)
         (e : Ev) (st : St) (tr : list Ev) (st' : St),
    deliver St Ev run e st tr st' ->
    exists n, forall m, flush St Ev run unwind (n + S m) (e :: nil) st nil = Some (tr, st', Finished).
Proof. exact flush_complete. Qed.
Print Assumptions c04_depth_first_is_flush.

(* the world model's flush is that machine: its delivery trace is depth-first, for every
   handler behaviour *)
Require Import EV.Base EV.World EV.WorldProofs.
Theorem c04_world_flush_depth_first :
  forall (beh : hinfo -> logent -> N -> script) (n : nat) (q : list qitem) (w : world) (tr : list qitem) (s' : wst),
    Loop.flush wst qitem (run_w beh) unwind_w n q (w, None) nil = Some (tr, s', Finished) ->
    deliver_list wst qitem (run_w beh) (rev q) (w, None) tr s'.
Proof. exact world_flush_depth_first. Qed.
Print Assumptions c04_world_flush_depth_first.
