(* C03, second part: theorems that rest on the whole tower of reachable invariants (ZI, in particular the
   sender invariant NInv with type tags) - and thereby also on the files about the access expressions. *)
From Coq Require Import List NArith Bool.
Require Import EV.Base EV.SlotMap EV.Reserve EV.World EV.Store EV.Effects EV.Reach EV.Member EV.ReserveW EV.Quiet.
Open Scope N_scope.

(* No entity reservation is left pending when control is back with the caller: after ANY sequence of calls
   (spawn, insert, remove, despawn, send, send_to, add/remove handler, component, global or targeted event), with
   any handler bodies, injected panics and fuel, the reservation count is 0 and the cursor stands where
   NextKeyIter starts on the current entity map.
   Hypotheses: (1) no handler takes a Spawn event (Spawn is an immutable event; EventMut::take on it does not
   type-check, C18 - the model's behaviours are arbitrary functions, hence the hypothesis); (2) no call of the
   history ended with the model's delivery budget (FPanic 8) or a registry's capacity (FPanic 5, 2^32-1 entries)
   exhausted; (3) the entity slot map has not reached 2^32-1 slots. *)
Theorem c03_no_reservation_pending_at_a_quiescent_point :
  forall (beh : hinfo -> logent -> N -> script) (fuel p : N) (ops : list top_all),
    NoTakeSpawn beh -> no_exhaustion beh ops (world0 fuel p) ->
    let w := fold_left (run_top_all beh) ops (world0 fuel p) in
    elen w < U32MAX -> w_rcnt w = 0 /\ w_rcur w = next_key_iter (w_ents w).
Proof. exact reachable_Quiet. Qed.
Print Assumptions c03_no_reservation_pending_at_a_quiescent_point.

(* ... and in such a world the id handed out by a reservation (World::spawn, Sender::spawn) is not the id of any
   existing entity and is exactly the id of the component-less entity the next materialisation creates; every
   existing entity keeps its id and components; afterwards nothing is pending again *)
Theorem c03_an_id_promised_in_a_quiet_world_is_the_id_created :
  forall w : world, WInv w -> Quiet w -> elen w + 1 <= U32MAX ->
    match reserve w with
    | ROk id w1 => exists w', spawn_all w1 = ROk tt w' /\ WInv w' /\ sm_get id (w_ents w) = None /\
                              sm_get id (w_ents w') <> None /\ (forall c, abs w' id c = None) /\ ext_by_spawn w1 w' /\ Quiet w'
    | RFail _ w1 => w1 = w
    end.
Proof. exact quiet_reservation_is_kept. Qed.
Print Assumptions c03_an_id_promised_in_a_quiet_world_is_the_id_created.

(* one propagation, from any state: slot counts only grow; it ends quiet if it started quiet or a Spawn event
   was among the queued ones; and if it was cut short by a panic it ends quiet whatever was pending (the
   unwinding path materialises the reservations - the repair of finding D9) *)
Theorem c03_a_propagation_ends_quiet :
  forall (beh : hinfo -> logent -> N -> script), NoTakeSpawn beh ->
  forall (q : list qitem) (w : world), Sender.ZI w -> TG w -> (forall x, In x q -> Sender.item_ok w x) ->
    elen w <= elen (WorldFrame.res_world (flush beh q w)) /\
    (elen (WorldFrame.res_world (flush beh q w)) < U32MAX -> EvLedger.res_fail (flush beh q w) <> Some (FPanic 8) ->
       (EvLedger.res_fail (flush beh q w) <> None -> Quiet (WorldFrame.res_world (flush beh q w))) /\
       (J w q -> Quiet (WorldFrame.res_world (flush beh q w)))).
Proof. exact flush_Q. Qed.
Print Assumptions c03_a_propagation_ends_quiet.

(* the cursor invariant INSIDE a propagation, for every handler behaviour and from any state: ReserveInv w = the
   cursor is where NextKeyIter stands after predicting, on the current entity map, as many ids as are reserved - the
   precondition under which spawn_all creates exactly the ids handed out (c03_promised_ids_are_exactly_the_ids_created).
   It is kept by every single delivery (handlers reserving ids, Insert/Remove moving entities, Spawn/Despawn
   materialising) ... *)
Theorem c03_cursor_invariant_kept_by_every_delivery :
  forall (beh : hinfo -> logent -> N -> script) (it : qitem) (w : world),
    ReserveInv w -> elen (snd (fst (deliver_one beh it w))) < U32MAX -> snd (deliver_one beh it w) = None ->
    ReserveInv (snd (fst (deliver_one beh it w))).
Proof. exact deliver_one_RI. Qed.
Print Assumptions c03_cursor_invariant_kept_by_every_delivery.

(* ... and by a whole propagation, completed or cut short by a panic *)
Theorem c03_cursor_invariant_kept_by_a_propagation :
  forall (beh : hinfo -> logent -> N -> script) (q : list qitem) (w : world),
    ReserveInv w -> ~ NoUB.ubf (EvLedger.res_fail (flush beh q w)) -> elen (WorldFrame.res_world (flush beh q w)) < U32MAX ->
    EvLedger.res_fail (flush beh q w) <> Some (FPanic 8) -> ReserveInv (WorldFrame.res_world (flush beh q w)).
Proof. exact flush_RI. Qed.
Print Assumptions c03_cursor_invariant_kept_by_a_propagation.

(* "The id of a despawned entity never becomes valid again, even when its storage slot is recycled up to the generation
   limit" - at world level: removing the entity stored at a row makes its id dead (generation bumped past it, or the slot
   retired) ... *)
Require Import EV.Base EV.DeadIds EV.DeadEnts.
Theorem c03_removing_an_entity_makes_its_id_dead :
  forall (w : world) (ai row : N) (a : arch) (e : key) (vals : list Query.cval),
    SmInv (w_ents w) -> slab_get (w_archs w) ai = Some a -> nget (a_rows a) row = Some (e, vals) ->
    match remove_entity w (ai, row) with ROk _ w' => SmInv (w_ents w') /\ Dead (w_ents w') e | RFail _ _ => True end.
Proof. exact remove_entity_dead. Qed.
Print Assumptions c03_removing_an_entity_makes_its_id_dead.

(* ... and a dead id stays dead - is invalid - through every propagation, every handler behaviour and every later call,
   spawns that recycle the slot included.  No other invariant of the world is needed. *)
Theorem c03_a_dead_entity_id_is_never_valid_again :
  forall (beh : hinfo -> logent -> N -> script) (k : key) (w : world) (ops : list top_all),
    SmInv (w_ents w) -> Dead (w_ents w) k -> N.odd (snd k) = true ->
    sm_get k (w_ents (fold_left (run_top_all beh) ops w)) = None.
Proof. exact despawned_entity_id_never_valid_again. Qed.
Print Assumptions c03_a_dead_entity_id_is_never_valid_again.

Theorem c03_a_dead_entity_id_stays_dead_through_a_propagation :
  forall (k : key) (beh : hinfo -> logent -> N -> script) (q : list qitem) (w : world),
    PE k w -> PE k (WorldFrame.res_world (flush beh q w)).
Proof. exact flush_PE. Qed.
Print Assumptions c03_a_dead_entity_id_stays_dead_through_a_propagation.
