(* C03, second part: theorems that rest on the whole tower of reachable invariants (ZI, in particular the
   sender invariant NInv with type tags) - and thereby also on the files about the access expressions. *)
From Coq Require Import List NArith Bool.
Require Import EV.Base EV.SlotMap EV.Reserve EV.World EV.Store EV.Effects EV.Reach EV.Member EV.ReserveW EV.Quiet.
Open Scope N_scope.

(* No entity reservation is left pending when control is back with the caller: after ANY sequence of calls
   (spawn, insert, remove, despawn, send, send_to, add/remove handler, component, global or targeted event), with
   any handler bodies, injected panics and fuel, the reservation count is 0 and the cursor stands where
   NextKeyIter starts on the current entity map.
   Hypotheses: (1) no handler takes a Spawn event (Spawn is an immutable event; EventMut::take on it does not
   type-check, C18 - the model's behaviours are arbitrary functions, hence the hypothesis); (2) no call of the
   history ended with the model's delivery budget (FPanic 8) or a registry's capacity (FPanic 5, 2^32-1 entries)
   exhausted; (3) the entity slot map has not reached 2^32-1 slots. *)
Theorem c03_no_reservation_pending_at_a_quiescent_point :
  forall (beh : hinfo -> logent -> N -> script) (fuel p : N) (ops : list top_all),
    NoTakeSpawn beh -> no_exhaustion beh ops (world0 fuel p) ->
    let w := fold_left (run_top_all beh) ops (world0 fuel p) in
    elen w < U32MAX -> w_rcnt w = 0 /\ w_rcur w = next_key_iter (w_ents w).
Proof. exact reachable_Quiet. Qed.
Print Assumptions c03_no_reservation_pending_at_a_quiescent_point.

(* ... and in such a world the id handed out by a reservation (World::spawn, Sender::spawn) is not the id of any
   existing entity and is exactly the id of the component-less entity the next materialisation creates; every
   existing entity keeps its id and components; afterwards nothing is pending again *)
Theorem c03_an_id_promised_in_a_quiet_world_is_the_id_created :
  forall w : world, WInv w -> Quiet w -> elen w + 1 <= U32MAX ->
    match reserve w with
    | ROk id w1 => exists w', spawn_all w1 = ROk tt w' /\ WInv w' /\ sm_get id (w_ents w) = None /\
                              sm_get id (w_ents w') <> None /\ (forall c, abs w' id c = None) /\ ext_by_spawn w1 w' /\ Quiet w'
    | RFail _ w1 => w1 = w
    end.
Proof. exact quiet_reservation_is_kept. Qed.
Print Assumptions c03_an_id_promised_in_a_quiet_world_is_the_id_created.

(* one propagation, from any state: slot counts only grow; it ends quiet if it started quiet or a Spawn event
   was among the queued ones; and if it was cut short by a panic it ends quiet whatever was pending (the
   unwinding path materialises the reservations - the repair of finding D9) *)
Theorem c03_a_propagation_ends_quiet :
  forall (beh : hinfo -> logent -> N -> script), NoTakeSpawn beh ->
  forall (q : list qitem) (w : world), Sender.ZI w -> TG w -> (forall x, In x q -> Sender.item_ok w x) ->
    elen w <= elen (WorldFrame.res_world (flush beh q w)) /\
    (elen (WorldFrame.res_world (flush beh q w)) < U32MAX -> EvLedger.res_fail (flush beh q w) <> Some (FPanic 8) ->
       (EvLedger.res_fail (flush beh q w) <> None -> Quiet (WorldFrame.res_world (flush beh q w))) /\
       (J w q -> Quiet (WorldFrame.res_world (flush beh q w)))).
Proof. exact flush_Q. Qed.
Print Assumptions c03_a_propagation_ends_quiet.

(* the cursor invariant INSIDE a propagation, for every handler behaviour and from any state: ReserveInv w = the
   cursor is where NextKeyIter stands after predicting, on the current entity map, as many ids as are reserved - the
   precondition under which spawn_all creates exactly the ids handed out (c03_promised_ids_are_exactly_the_ids_created).
   It is kept by every single delivery (handlers reserving ids, Insert/Remove moving entities, Spawn/Despawn
   materialising) ... *)
Theorem c03_cursor_invariant_kept_by_every_delivery :
  forall (beh : hinfo -> logent -> N -> script) (it : qitem) (w : world),
    ReserveInv w -> elen (snd (fst (deliver_one beh it w))) < U32MAX -> snd (deliver_one beh it w) = None ->
    ReserveInv (snd (fst (deliver_one beh it w))).
Proof. exact deliver_one_RI. Qed.
Print Assumptions c03_cursor_invariant_kept_by_every_delivery.

(* ... and by a whole propagation, completed or cut short by a panic *)
Theorem c03_cursor_invariant_kept_by_a_propagation :
  forall (beh : hinfo -> logent -> N -> script) (q : list qitem) (w : world),
    ReserveInv w -> ~ NoUB.ubf (EvLedger.res_fail (flush beh q w)) -> elen (WorldFrame.res_world (flush beh q w)) < U32MAX ->
    EvLedger.res_fail (flush beh q w) <> Some (FPanic 8) -> ReserveInv (WorldFrame.res_world (flush beh q w)).
Proof. exact flush_RI. Qed.
Print Assumptions c03_cursor_invariant_kept_by_a_propagation.

(* "The id of a despawned entity never becomes valid again, even when its storage slot is recycled up to the generation
   limit" - at world level: removing the entity stored at a row makes its id dead (generation bumped past it, or the slot
   retired) ... *)
Require Import EV.Base EV.DeadIds EV.DeadEnts.
Theorem c03_removing_an_entity_makes_its_id_dead :
  forall (w : world) (ai row : N) (a : arch) (e : key) (vals : list Query.cval),
    SmInv (w_ents w) -> slab_get (w_archs w) ai = Some a -> nget (a_rows a) row = Some (e, vals) ->
    match remove_entity w (ai, row) with ROk _ w' => SmInv (w_ents w') /\ Dead (w_ents w') e | RFail _ _ => True end.
Proof. exact remove_entity_dead. Qed.
Print Assumptions c03_removing_an_entity_makes_its_id_dead.

(* ... and a dead id stays dead - is invalid - through every propagation, every handler behaviour and every later call,
   spawns that recycle the slot included.  No other invariant of the world is needed. *)
Theorem c03_a_dead_entity_id_is_never_valid_again :
  forall (beh : hinfo -> logent -> N -> script) (k : key) (w : world) (ops : list top_all),
    SmInv (w_ents w) -> Dead (w_ents w) k -> N.odd (snd k) = true ->
    sm_get k (w_ents (fold_left (run_top_all beh) ops w)) = None.
Proof. exact despawned_entity_id_never_valid_again. Qed.
Print Assumptions c03_a_dead_entity_id_is_never_valid_again.

Theorem c03_a_dead_entity_id_stays_dead_through_a_propagation :
  forall (k : key) (beh : hinfo -> logent -> N -> script) (q : list qitem) (w : world),
    PE k w -> PE k (WorldFrame.res_world (flush beh q w)).
Proof. exact flush_PE. Qed.
Print Assumptions c03_a_dead_entity_id_stays_dead_through_a_propagation.

(* "identifies exactly one new component-less entity from the moment its Spawn event has been delivered": the composition
   from the id a reservation returns to the entity that exists afterwards, for a fixed id k (SpawnIds.v).
   Slot-map core, with no capacity hypothesis: the key NextKeyIter predicted first is the key insert_with returns, the
   insertion cannot fail, and the remaining predictions stay the same on the map after the insertion. *)
Require Import EV.SpawnIds EV.NoUB EV.EvLedger.
Theorem c03_prediction_and_insertion_agree_step_by_step :
  forall (V : Type) (f : key -> V) (m : smap V) (k : key) (ks : list key) (i : N) (n : nat), SmInv m ->
    predict (S n) (next_key_iter m) m = Some (k :: ks, i) ->
    exists m', insert_with f m = Some (k, m') /\ predict n (next_key_iter m') m' = Some (ks, i).
Proof. exact @predict_insert. Qed.
Print Assumptions c03_prediction_and_insertion_agree_step_by_step.

(* OW k w: the entity map is well formed, the cursor invariant holds with promised list ks, and k is in ks or was
   created (live, or dead for good) or is the null id that events without an id carry.  The reservation that returns k establishes it ... *)
Theorem c03_the_id_a_reservation_returns_is_owed :
  forall (w : world) (k : key) (w' : world), SmInv (w_ents w) -> ReserveInv w -> reserve w = ROk k w' -> OW k w'.
Proof. exact reserved_id_is_owed. Qed.
Print Assumptions c03_the_id_a_reservation_returns_is_owed.

(* ... every step of a propagation keeps it, for every handler behaviour and from any state (only the model's
   "cannot happen" failures FUB, which no reachable world produces, are excluded) ... *)
Theorem c03_an_owed_id_stays_owed_through_a_propagation :
  forall (beh : hinfo -> logent -> N -> script) (k : key) (q : list qitem) (w : world),
    OW k w -> ~ ubf (EvLedger.res_fail (flush beh q w)) -> OW k (WorldFrame.res_world (flush beh q w)).
Proof. exact flush_OW. Qed.
Print Assumptions c03_an_owed_id_stays_owed_through_a_propagation.

(* ... the Spawn effect cannot fail under it, creates the id and leaves nothing reserved ... *)
Theorem c03_the_spawn_effect_creates_every_owed_id :
  forall (k : key) (ev : evv) (loc : eloc) (w : world), k <> KEY_NULL -> OW k w ->
    exists w', builtin_effect KSpawn ev loc w = ROk tt w' /\ Quiet w' /\ (sm_get k (w_ents w') <> None \/ Dead (w_ents w') k).
Proof. exact spawn_effect_creates_owed. Qed.
Print Assumptions c03_the_spawn_effect_creates_every_owed_id.

(* ... and when the propagation is over with nothing reserved (c03_a_propagation_ends_quiet), the id was created: it is
   the id of a live entity, or of an entity despawned since, whose id is dead for good. *)
Theorem c03_an_owed_id_was_created_when_the_propagation_ends :
  forall (beh : hinfo -> logent -> N -> script) (k : key) (q : list qitem) (w : world),
    k <> KEY_NULL -> OW k w -> ~ ubf (EvLedger.res_fail (flush beh q w)) -> w_rcnt (WorldFrame.res_world (flush beh q w)) = 0 ->
    let w' := WorldFrame.res_world (flush beh q w) in sm_get k (w_ents w') <> None \/ Dead (w_ents w') k.
Proof. exact owed_id_is_created. Qed.
Print Assumptions c03_an_owed_id_was_created_when_the_propagation_ends.

(* before that moment a promised id is neither live nor dead (concrete map: one live entity, one recycled slot) *)
Theorem c03_a_promised_id_is_not_created_before :
  predict 2%nat (next_key_iter mx) mx = Some ([(0, 3); (2, 1)], 3) /\
  (forall k, In k [(0, 3); (2, 1)] -> ~ created mx k) /\
  (exists m', inserts 2%nat (fun _ => (0, 0)) mx = Some ([(0, 3); (2, 1)], m') /\ forall k, In k [(0, 3); (2, 1)] -> sm_get k m' <> None).
Proof. exact promised_ids_are_not_created_yet. Qed.
Print Assumptions c03_a_promised_id_is_not_created_before.

(* The link from a Sender::spawn inside a handler body: every event a handler invocation queues carries the null id
   or an id that is owed in the world the invocation leaves (RO: entity map well formed + cursor invariant) ... *)
Theorem c03_every_event_a_handler_queues_carries_an_owed_id :
  forall (beh : hinfo -> logent -> N -> script) (w : world) (h : hinfo) (it : qitem) (tag : N) (loc : eloc), RO w ->
    forall x, In x (hr_sent (fst (run_handler beh w h it tag loc))) ->
      nullid x \/ OW (ev_id (qi_ev x)) (snd (run_handler beh w h it tag loc)).
Proof. exact run_handler_spawn_owed. Qed.
Print Assumptions c03_every_event_a_handler_queues_carries_an_owed_id.

(* ... and the whole propagation, as one statement over the stack machine: every event that was delivered and carries an
   id carries one that was created by the time the propagation is over with nothing reserved. *)
Theorem c03_every_delivered_spawn_id_was_created :
  forall (beh : hinfo -> logent -> N -> script) (q : list qitem) (w : world) (tr : list qitem) (w' : world)
         (fl : option fail) (oc : Loop.outcome),
    Loop.flush wst qitem (run_w beh) unwind_w FUEL q (w, None) [] = Some (tr, (w', fl), oc) ->
    RO w -> owed_all q w -> (oc = Loop.Aborted -> ~ ubf fl) -> w_rcnt w' = 0 ->
    forall x, In x tr -> ev_id (qi_ev x) <> KEY_NULL ->
      sm_get (ev_id (qi_ev x)) (w_ents w') <> None \/ Dead (w_ents w') (ev_id (qi_ev x)).
Proof. exact delivered_spawn_ids_are_created. Qed.
Print Assumptions c03_every_delivered_spawn_id_was_created.

(* The cursor invariant through a whole propagation without the capacity hypothesis of c03_..cursor.. (Quiet.flush_RI):
   under it a materialisation cannot fail half-way, so nothing has to be excluded except the FUB outcomes. *)
Theorem c03_the_cursor_invariant_survives_every_propagation :
  forall (beh : hinfo -> logent -> N -> script) (q : list qitem) (w : world),
    RO w -> ~ ubf (EvLedger.res_fail (flush beh q w)) -> RO (WorldFrame.res_world (flush beh q w)).
Proof. exact flush_RO. Qed.
Print Assumptions c03_the_cursor_invariant_survives_every_propagation.

Theorem c03_a_materialisation_cannot_fail_under_the_cursor_invariant :
  forall (w : world), RO w -> exists w', spawn_all w = ROk tt w' /\ RO w' /\ Quiet w'.
Proof. exact spawn_all_cannot_fail. Qed.
Print Assumptions c03_a_materialisation_cannot_fail_under_the_cursor_invariant.

(* World::spawn, end to end ("immediately on return for the world-level call"): on a world satisfying the plain invariant the
   id returned is owed when the call returns, whatever the handlers of Spawn (and of everything they trigger) did; with
   nothing reserved then, it is the id of a live entity or of one a handler despawned during the call ... *)
Theorem c03_the_id_world_spawn_returns_was_created :
  forall (beh : hinfo -> logent -> N -> script) (w : world) (id : key) (w' : world), RO w -> op_spawn beh w = ROk id w' ->
    OW id w' /\ (w_rcnt w' = 0 -> sm_get id (w_ents w') <> None \/ Dead (w_ents w') id).
Proof. exact world_spawn_id_is_created. Qed.
Print Assumptions c03_the_id_world_spawn_returns_was_created.

(* ... and every reachable world satisfies the plain invariant (hypotheses of c03_no_reservation_pending_at_a_quiescent_point) *)
Theorem c03_every_reachable_world_satisfies_the_cursor_invariant :
  forall (beh : hinfo -> logent -> N -> script) (fuel p : N) (ops : list top_all),
    NoTakeSpawn beh -> no_exhaustion beh ops (world0 fuel p) ->
    let w := fold_left (run_top_all beh) ops (world0 fuel p) in elen w < U32MAX -> RO w.
Proof. exact reachable_RO. Qed.
Print Assumptions c03_every_reachable_world_satisfies_the_cursor_invariant.

Theorem c03_world_spawn_on_a_reachable_world :
  forall (beh : hinfo -> logent -> N -> script) (fuel p : N) (ops : list top_all) (id : key) (w' : world),
    NoTakeSpawn beh -> no_exhaustion beh ops (world0 fuel p) ->
    let w := fold_left (run_top_all beh) ops (world0 fuel p) in elen w < U32MAX ->
    op_spawn beh w = ROk id w' -> w_rcnt w' = 0 -> sm_get id (w_ents w') <> None \/ Dead (w_ents w') id.
Proof. exact reachable_world_spawn_id_is_created. Qed.
Print Assumptions c03_world_spawn_on_a_reachable_world.

(* c03_promised_ids_are_exactly_the_ids_created (Props/C03.v) and c03_reserved_ids_are_created without their capacity
   hypotheses: that the predictions succeeded already implies that the insertions succeed *)
Theorem c03_predicted_keys_are_the_inserted_keys :
  forall (V : Type) (f : key -> V) (n : nat) (m : smap V) (ks : list key) (i : N),
    SmInv m -> predict n (next_key_iter m) m = Some (ks, i) ->
    exists m', inserts n f m = Some (ks, m') /\ SmInv m' /\ next_key_iter m' = i.
Proof. exact @predict_inserts. Qed.
Print Assumptions c03_predicted_keys_are_the_inserted_keys.

Theorem c03_promised_ids_are_exactly_the_ids_created_at_any_size :
  forall (w : world) (ks : list key),
    WInv w -> reserved_ids w ks ->
    exists w', spawn_all w = ROk tt w' /\ WInv w' /\
               (forall k, In k ks -> sm_get k (w_ents w') <> None /\ forall c, abs w' k c = None) /\
               ext_by_spawn w w' /\ w_rcnt w' = 0 /\ reserved_ids w' nil.
Proof. exact reserved_ids_are_created_nocap. Qed.
Print Assumptions c03_promised_ids_are_exactly_the_ids_created_at_any_size.

(* "differs from every id returned earlier ... identifies exactly one new component-less entity": an id promised in a quiet
   world is the id of no existing entity and of the component-less entity the next materialisation creates - at any size *)
Theorem c03_a_promised_id_is_fresh_and_becomes_a_component_less_entity :
  forall (w : world), WInv w -> Quiet w ->
    match reserve w with
    | ROk id w1 => exists w', spawn_all w1 = ROk tt w' /\ WInv w' /\ sm_get id (w_ents w) = None /\
                              sm_get id (w_ents w') <> None /\ (forall c, abs w' id c = None) /\ ext_by_spawn w1 w' /\ Quiet w'
    | RFail _ w1 => w1 = w
    end.
Proof. exact quiet_reservation_is_kept_nocap. Qed.
Print Assumptions c03_a_promised_id_is_fresh_and_becomes_a_component_less_entity.

(* "and stays valid until that entity is despawned": a live id stays live (and the entity map well formed) through every
   delivery of an event that is not a Despawn - whatever the handlers do, whatever else the delivery creates or moves.
   (Which entity a Despawn delivery removes is c03_removing_an_entity_makes_its_id_dead: the one stored at the target's row.) *)
Theorem c03_a_live_id_stays_live_through_every_delivery_but_a_despawn :
  forall (k : key) (beh : hinfo -> logent -> N -> script) (it : qitem) (w : world),
    LV k w -> item_kind w it <> Some KDespawn -> LV k (snd (fst (deliver_one beh it w))).
Proof. exact live_until_despawned. Qed.
Print Assumptions c03_a_live_id_stays_live_through_every_delivery_but_a_despawn.

(* the removal of an entity spares every other id: together with c03_removing_an_entity_makes_its_id_dead, the Despawn
   effect takes exactly the entity stored at the row it is given *)
Theorem c03_removing_an_entity_leaves_every_other_live_id_live :
  forall (k : key) (w : world) (ai row : N) (a : arch) (e : key) (vals : list Query.cval), LV k w ->
    slab_get (w_archs w) ai = Some a -> nget (a_rows a) row = Some (e, vals) -> e <> k ->
    LV k (WorldFrame.res_world (remove_entity w (ai, row))).
Proof. exact remove_entity_spares_the_others. Qed.
Print Assumptions c03_removing_an_entity_leaves_every_other_live_id_live.

(* on a consistent world (StoreInv: part of the invariant of every reachable world), despawning t at its own location takes
   t and nothing else *)
Theorem c03_a_despawn_takes_exactly_its_target :
  forall (w : world) (t : key) (ai row : N) (k : key), StoreInv w -> sm_get t (w_ents w) = Some (ai, row) ->
    match remove_entity w (ai, row) with
    | ROk _ w' => Dead (w_ents w') t /\ (t <> k -> sm_get k (w_ents w) <> None -> sm_get k (w_ents w') <> None)
    | RFail _ _ => True
    end.
Proof. exact despawn_takes_exactly_its_target. Qed.
Print Assumptions c03_a_despawn_takes_exactly_its_target.
