(* C15, second part: theorems that rest on the whole tower of reachable invariants (ZI), and thereby also on the
   meaning of the access expressions (files AccessProofs / QueryProofs over the regenerated tables). *)
From Coq Require Import List NArith.
Require Import EV.Base EV.HList EV.HListProofs EV.SlotMap EV.World EV.WorldProofs.
Require Import EV.Member EV.Listen.
From Coq Require Import Bool.
Require Import EV.Fetch EV.NoUB EV.Sender EV.Users.

(* World::remove_handler on any world satisfying the reachable invariant ZI: when it returns, the id is
   invalid, and the static view (receiver, priority, order, sent-sets, queries) of every other handler -
   in particular whether it exists - is unchanged *)
Theorem c15_remove_handler_removes_exactly_that_handler :
  forall (beh : hinfo -> logent -> N -> script) (k : key) (w : world), ZI w ->
    match remove_handler beh k w with
    | ROk _ w' => sm_get k (w_hs w') = None /\ hs_keep w' w (k :: nil)
    | RFail _ _ => True end.
Proof. exact remove_handler_exact. Qed.
Print Assumptions c15_remove_handler_removes_exactly_that_handler.

(* World::remove_event of a global event: afterwards the event id is invalid and the live handlers are
   exactly the handlers of before that neither receive the event nor are able to send it *)
Theorem c15_remove_global_event_removes_exactly_its_users :
  forall (beh : hinfo -> logent -> N -> script) (k : key) (w w' : world), ZI w ->
    remove_global_event beh k w = ROk true w' ->
    sm_get k (w_gev w') = None /\
    forall hk, (exists h', hlive w' hk h') <->
               (exists h, hlive w hk h /\ recvid_eqb (h_recv h) (RvGlobal k) || smem (fst k) (h_sent_g h) = false).
Proof. exact remove_global_event_exact. Qed.
Print Assumptions c15_remove_global_event_removes_exactly_its_users.

Theorem c15_remove_targeted_event_removes_exactly_its_users :
  forall (beh : hinfo -> logent -> N -> script) (k : key) (w w' : world), ZI w ->
    remove_targeted_event beh k w = ROk true w' ->
    sm_get k (w_tev w') = None /\
    forall hk, (exists h', hlive w' hk h') <->
               (exists h, hlive w hk h /\ recvid_eqb (h_recv h) (RvTargeted k) || smem (fst k) (h_sent_t h) = false).
Proof. exact remove_targeted_event_exact. Qed.
Print Assumptions c15_remove_targeted_event_removes_exactly_its_users.

(* ZI holds in every reachable world *)
Theorem c15_reachable_worlds_satisfy_ZI :
  forall (beh : hinfo -> logent -> N -> script) (fuel p : N) (ops : list top_all),
    ZI (fold_left (run_top_all beh) ops (world0 fuel p)).
Proof. exact reachable_ZI. Qed.
Print Assumptions c15_reachable_worlds_satisfy_ZI.


(* "afterwards ... its id is invalid" - for ever: through every later history of calls *)
Require Import EV.DeadIds.
Theorem c15_removed_handler_id_is_invalid_for_ever :
  forall (beh : hinfo -> logent -> N -> script) (k : key) (w w' : world) (ops : list top_all),
    ZI w -> remove_handler beh k w = ROk true w' -> sm_get k (w_hs (fold_left (run_top_all beh) ops w')) = None.
Proof. exact removed_handler_id_never_valid_again. Qed.
Print Assumptions c15_removed_handler_id_is_invalid_for_ever.
