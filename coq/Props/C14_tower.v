(* C14, second part: theorems that rest on the whole tower of reachable invariants (ZI), and thereby also on the
   meaning of the access expressions (files AccessProofs / QueryProofs over the regenerated tables). *)
From Coq Require Import List NArith.
Require Import EV.Base EV.World EV.ArchProofs.
Require Import EV.SlotMap EV.Store EV.Effects EV.RemoveComp.
Require Import EV.WorldFrame EV.Reach EV.Member.
From Coq Require Import Bool.
Require Import EV.Listen EV.Fetch EV.NoUB EV.Sender EV.Users.
(* World::remove_component on any world satisfying the reachable invariant ZI: when it has returned true,
   the component index is free, no live handler references the component in any query, no archetype has it,
   and no Insert/Remove event for it is registered *)
Theorem c14_nothing_mentions_the_removed_component :
  forall (beh : hinfo -> logent -> N -> script) (k : key) (w w' : world), ZI w ->
    remove_component beh k w = ROk true w' ->
    get_by_index (w_comps w') (fst k) = None /\
    (forall hk h, hlive w' hk h -> smem (fst k) (h_refcomps h) = false) /\
    (forall ai a, arch_at w' ai = Some a -> ~ In (fst k) (a_comps a)) /\
    (forall i ek info, get_by_index (w_tev w') i = Some (ek, info) -> e_kind info <> KInsert (fst k) /\ e_kind info <> KRemove (fst k)).
Proof. exact remove_component_exact. Qed.
Print Assumptions c14_nothing_mentions_the_removed_component.

Theorem c14_reachable_worlds_satisfy_ZI :
  forall (beh : hinfo -> logent -> N -> script) (fuel p : N) (ops : list top_all),
    ZI (fold_left (run_top_all beh) ops (world0 fuel p)).
Proof. exact reachable_ZI. Qed.
Print Assumptions c14_reachable_worlds_satisfy_ZI.

