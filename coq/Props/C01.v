(* C01 - The safe API never causes undefined behaviour or undocumented panics.  (partial)
   In the model every unchecked operation of the implementation is a checked operation that
   yields [FUB site].  Proved here: the unchecked steps of move_entity's column walk cannot be
   reached with a missing or mismatching value.  The remaining sites are covered by the
   correspondence only (debug builds abort on violated unsafe preconditions). *)
From Coq Require Import List NArith Bool Sorted.
Require Import EV.Base EV.Query EV.World EV.ArchProofs.
Open Scope N_scope.

(* insertion: destination = source plus the new component *)
Theorem c01_partial_insert_walk_never_reads_a_missing_value :
  forall (sc : list N) (sv : list cval) (c : N) (v : cval) (fuel : nat),
    length sv = length sc -> ~ In c sc -> (length sc + length sc + 1 < fuel)%nat ->
    merge_row fuel sc sv (sorted_insert c sc) (Some (c, v)) <> None.
Proof. exact merge_row_insert_succeeds. Qed.
Print Assumptions c01_partial_insert_walk_never_reads_a_missing_value.

(* removal: destination = source minus the removed component, columns sorted *)
Theorem c01_partial_remove_walk_never_reads_a_missing_value :
  forall (sc : list N) (sv : list cval) (c : N) (fuel : nat),
    length sv = length sc -> StronglySorted N.lt sc -> (length sc + length sc + 1 < fuel)%nat ->
    merge_row fuel sc sv (filter (fun x => negb (x =? c)) sc) None <> None.
Proof. exact merge_row_remove_succeeds. Qed.
Print Assumptions c01_partial_remove_walk_never_reads_a_missing_value.

Require Import EV.SlotMap EV.Loop EV.Store EV.Graph EV.Effects EV.Reach.

(* on a consistent world none of the unchecked storage operations behind Insert / Remove / Spawn /
   Despawn (archetype.rs: get_unchecked, unwrap_unchecked, assume_debug_checked, column pointer
   arithmetic; the model's FUB sites 220-532) can fail: the effect either succeeds or panics with
   the documented "too many entities" capacity failure, and the world stays consistent *)
Theorem c01_builtin_effects_hit_no_unchecked_failure :
  forall (kind : ekind) (ev : evv) (loc : eloc) (w : world) (e : key),
    WInv w -> (targeted_kind kind = true -> sm_get e (w_ents w) = Some loc) ->
    match builtin_effect kind ev loc w with
    | ROk _ w' => WInv w'
    | RFail f w' => f = FPanic 5 /\ WInv w'
    end.
Proof. exact builtin_effect_ok. Qed.
Print Assumptions c01_builtin_effects_hit_no_unchecked_failure.

(* and that consistency is available at every delivery of every flush started from a reachable
   world, for every handler behaviour *)
Theorem c01_consistency_holds_after_every_delivery :
  forall (beh : hinfo -> logent -> N -> script) (it : qitem) (w : world),
    WInv w -> GevKinds w -> WInv (snd (fst (deliver_one beh it w))).
Proof. exact deliver_one_WInv. Qed.
Print Assumptions c01_consistency_holds_after_every_delivery.

Theorem c01_reachable_worlds_are_consistent :
  forall (beh : hinfo -> logent -> N -> script) (fuel p : N) (ops : list top),
    RInv (fold_left (run_top beh) ops (world0 fuel p)).
Proof. exact reachable_RInv. Qed.
Print Assumptions c01_reachable_worlds_are_consistent.

Require Import EV.Member.
Theorem c01_reachable_worlds_are_consistent_all_calls :
  forall (beh : hinfo -> logent -> N -> script) (fuel p : N) (ops : list top_all),
    FInv (fold_left (run_top_all beh) ops (world0 fuel p)).
Proof. exact reachable_FInv. Qed.
Print Assumptions c01_reachable_worlds_are_consistent_all_calls.

Require Import EV.Fetch EV.NoUB.

(* evaluating a handler's parameters (HandlerParam::get of every parameter: Fetcher / Single views with
   their random-access probes, the targeted receiver's item) on a world with a consistent store and
   exact caches never reaches an unchecked failure - no stale cache entry, freed archetype, wrong
   column or missing row; the only failure left is the documented Single panic *)
Theorem c01_parameter_evaluation_hits_no_unchecked_failure :
  forall (w : world) (ps : list rparam) (loc : eloc),
    StoreInv w -> params_ready w ps loc -> ~ is_ub (param_views w ps loc).
Proof. exact param_views_ok. Qed.
Print Assumptions c01_parameter_evaluation_hits_no_unchecked_failure.

(* every world reachable by any sequence of calls (with any handler behaviour) satisfies all the
   invariants DI and the static handler invariant SInv (a handler's filter implies each of its
   targeted-receiver queries; a handler of a global event has no targeted receiver) *)
Theorem c01_reachable_worlds_satisfy_all_invariants :
  forall (beh : hinfo -> logent -> N -> script) (fuel p : N) (ops : list top_all),
    EI (fold_left (run_top_all beh) ops (world0 fuel p)).
Proof. exact reachable_EI. Qed.
Print Assumptions c01_reachable_worlds_satisfy_all_invariants.

(* one whole delivery on such a world: once the queued item's event kind is found in the registry,
   nothing in it - archetype look-up, parameter evaluation of every handler that runs (also after
   earlier handlers of the same delivery wrote through their views), handler actions, the built-in
   effect - reaches an unchecked failure *)
Theorem c01_a_delivery_hits_no_unchecked_failure :
  forall (beh : hinfo -> logent -> N -> script) (it : qitem) (w : world),
    DI w -> SInv w ->
    (if qi_targeted it then get_by_index (w_tev w) (qi_idx it) <> None
     else get_by_index (w_gev w) (qi_idx it) <> None /\ nget (w_glists w) (qi_idx it) <> None) ->
    ~ ubf (snd (deliver_one beh it w)).
Proof. exact deliver_one_no_ub. Qed.
Print Assumptions c01_a_delivery_hits_no_unchecked_failure.

Require Import EV.Sender.
(* every world reachable by any sequence of calls satisfies, besides all the invariants above, the
   registry invariants: by-type maps point at live events, every live global event has a listener
   list, and every event a live handler's Sender can produce is registered *)
Theorem c01_reachable_worlds_satisfy_registry_invariants :
  forall (beh : hinfo -> logent -> N -> script) (fuel p : N) (ops : list top_all),
    ZI (fold_left (run_top_all beh) ops (world0 fuel p)).
Proof. exact reachable_ZI. Qed.
Print Assumptions c01_reachable_worlds_satisfy_registry_invariants.

(* whatever calls were made before, with whatever handler behaviour, the next call - spawn, insert,
   remove, despawn, send, send_to, add/remove handler, add/remove component or event - does not reach
   an unchecked failure anywhere (no stale location, freed archetype, unregistered event, missing
   listener list, stale cache entry, wrong column or row): it returns normally or with a documented panic *)
Theorem c01_no_call_on_a_reachable_world_fails_unchecked :
  forall (beh : hinfo -> logent -> N -> script) (fuel p : N) (ops : list top_all) (o : top_all),
    ~ ubf (snd (run_top_res beh (fold_left (run_top_all beh) ops (world0 fuel p)) o)).
Proof. exact no_call_fails_unchecked. Qed.
Print Assumptions c01_no_call_on_a_reachable_world_fails_unchecked.

(* World::get on a reachable world never indexes out of bounds *)
Theorem c01_get_on_a_reachable_world_is_checked :
  forall (beh : hinfo -> logent -> N -> script) (fuel p : N) (ops : list top_all) (e : key) (ktag : N),
    ~ is_ub (op_get e ktag (fold_left (run_top_all beh) ops (world0 fuel p))).
Proof. exact reachable_get_ok. Qed.
Print Assumptions c01_get_on_a_reachable_world_is_checked.

(* ---------- the unchecked operations of src/sparse_map.rs (get_unchecked*, assume_unchecked) ---------- *)
Require Import EV.SparseMap.
(* each is a UB site of coq/SparseMap.v; under the invariant - which holds after every operation sequence from the
   empty map - insert, remove and get return a value (or the documented panic for K::MAX as key), never UB *)
Theorem c01_sparse_map_never_reaches_an_unchecked_failure :
  forall (V : Type) (m : spm V), SpInv m ->
    (forall k, sp_get m k = Val (sp_abs m k)) /\
    (forall k v, k <> U32MAX -> (nlen (sp_dense m) + 1 < U32MAX)%N -> exists m', sp_insert m k v = Val (sp_abs m k, m') /\ SpInv m') /\
    (forall k, exists m', sp_remove m k = Val (sp_abs m k, m') /\ SpInv m') /\
    SpInv (sp_shrink m).
Proof. exact @sp_never_ub. Qed.
Print Assumptions c01_sparse_map_never_reaches_an_unchecked_failure.
