(* C01 - The safe API never causes undefined behaviour or undocumented panics.  (partial)
   In the model every unchecked operation of the implementation is a checked operation that
   yields [FUB site].  Proved here: the unchecked steps of move_entity's column walk cannot be
   reached with a missing or mismatching value.  The remaining sites are covered by the
   correspondence only (debug builds abort on violated unsafe preconditions). *)
From Coq Require Import List NArith Bool Sorted.
Require Import EV.Base EV.Query EV.World EV.ArchProofs.
Open Scope N_scope.

(* insertion: destination = source plus the new component *)
Theorem c01_partial_insert_walk_never_reads_a_missing_value :
  forall (sc : list N) (sv : list cval) (c : N) (v : cval) (fuel : nat),
    length sv = length sc -> ~ In c sc -> (length sc + length sc + 1 < fuel)%nat ->
    merge_row fuel sc sv (sorted_insert c sc) (Some (c, v)) <> None.
Proof. exact merge_row_insert_succeeds. Qed.
Print Assumptions c01_partial_insert_walk_never_reads_a_missing_value.

(* removal: destination = source minus the removed component, columns sorted *)
Theorem c01_partial_remove_walk_never_reads_a_missing_value :
  forall (sc : list N) (sv : list cval) (c : N) (fuel : nat),
    length sv = length sc -> StronglySorted N.lt sc -> (length sc + length sc + 1 < fuel)%nat ->
    merge_row fuel sc sv (filter (fun x => negb (x =? c)) sc) None <> None.
Proof. exact merge_row_remove_succeeds. Qed.
Print Assumptions c01_partial_remove_walk_never_reads_a_missing_value.
