(* C13 - A panicking handler loses no event and destroys none twice. *)
From Coq Require Import List Permutation.
Require Import EV.Loop.

(* when a delivery unwinds, the dropper is handed exactly: the untouched part of the queue
   followed by everything the panicking delivery had pushed - whatever the position of the
   panic in the run *)
Theorem c13_dropper_gets_the_rest :
  forall (St Ev : Type) (run : Ev -> St -> list Ev * St * bool) (unwind : list Ev -> St -> St)
         (n : nat) (q : list Ev) (st : St) (acc tr : list Ev) (st' : St),
    flush St Ev run unwind n q st acc = Some (tr, st', Aborted) ->
    exists rest e sent st1 st0, run e st0 = (sent, st1, true) /\ st' = unwind (rest ++ sent) st1.
Proof. exact flush_abort_queue. Qed.
Print Assumptions c13_dropper_gets_the_rest.

(* and over the whole aborted run nothing is lost or duplicated: queued + sent = delivered + dropped *)
Theorem c13_unwinding_conserves_events :
  forall (St Ev : Type) (run : Ev -> St -> list Ev * St * bool) (unwind : list Ev -> St -> St)
         (n : nat) (q : list Ev) (st : St) (tr : list Ev) (st' : St) (oc : outcome) (allsent lft : list Ev),
    flushG St Ev run unwind n q st = Some (tr, st', oc, allsent, lft) ->
    Permutation (q ++ allsent) (tr ++ lft) /\ (oc = Finished -> lft = nil).
Proof. exact flush_conservation. Qed.
Print Assumptions c13_unwinding_conserves_events.

Require Import NArith.
Require Import EV.World EV.Ledger.

(* EventDropper::drop on what is left of the queue: the destruction ledger grows by exactly one
   entry per queued event whose type has a destructor, in queue order - no event is skipped
   (not even one whose target is dead), none is destroyed twice *)
Theorem c13_dropper_destroys_each_queued_event_once :
  forall (q : list qitem) (w : world),
    w_drops (unwind_queue q w) = w_drops w ++ flat_map (fun it => ev_entry (qi_targeted it) (item_tag w it) (qi_ev it)) q.
Proof. exact unwind_queue_spec. Qed.
Print Assumptions c13_dropper_destroys_each_queued_event_once.

From Coq Require Import NArith.
Require Import EV.WorldFrame EV.Loop EV.Member EV.NoUB EV.Sender EV.EvLedger.
(* the event loop, completed or unwound by a panicking handler (oc = Aborted): what is stored afterwards plus what
   was destroyed equals what was stored before plus the payloads of everything queued and sent - the in-flight
   event (unless taken: then its taker destroyed it) and all queued ones are destroyed exactly once by the
   unwinding, nothing twice, and the stored values are untouched by it *)
Theorem c13_the_loop_conserves_values_also_when_unwinding :
  forall (beh : hinfo -> logent -> N -> script) (n : nat) (q : list qitem) (w : world) (f0 : option fail) (acc tr : list qitem)
         (w' : world) (fl : option fail) (oc : outcome),
    Loop.flush wst qitem (run_w beh) unwind_w n q (w, f0) acc = Some (tr, (w', fl), oc) ->
    ZI w -> TagInv w -> (forall x, In x q -> item_ok w x) -> (oc = Aborted -> fl <> Some (FPanic 5)) ->
    registries w' = registries w /\
    exists S nd X, w_drops w' = w_drops w ++ nd /\
      Permutation (stored w' ++ nd) (stored w ++ entries w q ++ entries w S ++ X) /\ (oc = Finished -> X = nil).
Proof. exact flush_loop_ledger. Qed.
Print Assumptions c13_the_loop_conserves_values_also_when_unwinding.

Theorem c13_reachable_worlds_satisfy_the_tag_invariant :
  forall (beh : hinfo -> logent -> N -> script) (fuel p : N) (ops : list top_all),
    TagInv (fold_left (run_top_all beh) ops (world0 fuel p)).
Proof. exact reachable_TagInv. Qed.
Print Assumptions c13_reachable_worlds_satisfy_the_tag_invariant.
