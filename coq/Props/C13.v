(* C13 - A panicking handler loses no event and destroys none twice. *)
From Coq Require Import List Permutation.
Require Import EV.Loop.

(* when a delivery unwinds, the dropper is handed exactly: the untouched part of the queue
   followed by everything the panicking delivery had pushed - whatever the position of the
   panic in the run *)
Theorem c13_dropper_gets_the_rest :
  forall (St Ev : Type) (run : Ev -> St -> list Ev * St * bool) (unwind : list Ev -> St -> St)
         (n : nat) (q : list Ev) (st : St) (acc tr : list Ev) (st' : St),
    flush St Ev run unwind n q st acc = Some (tr, st', Aborted) ->
    exists rest e sent st1 st0, run e st0 = (sent, st1, true) /\ st' = unwind (rest ++ sent) st1.
Proof. exact flush_abort_queue. Qed.
Print Assumptions c13_dropper_gets_the_rest.

(* and over the whole aborted run nothing is lost or duplicated: queued + sent = delivered + dropped *)
Theorem c13_unwinding_conserves_events :
  forall (St Ev : Type) (run : Ev -> St -> list Ev * St * bool) (unwind : list Ev -> St -> St)
         (n : nat) (q : list Ev) (st : St) (tr : list Ev) (st' : St) (oc : outcome) (allsent lft : list Ev),
    flushG St Ev run unwind n q st = Some (tr, st', oc, allsent, lft) ->
    Permutation (q ++ allsent) (tr ++ lft) /\ (oc = Finished -> lft = nil).
Proof. exact flush_conservation. Qed.
Print Assumptions c13_unwinding_conserves_events.

Require Import NArith.
Require Import EV.World EV.Ledger.

(* EventDropper::drop on what is left of the queue: the destruction ledger grows by exactly one
   entry per queued event whose type has a destructor, in queue order - no event is skipped
   (not even one whose target is dead), none is destroyed twice *)
Theorem c13_dropper_destroys_each_queued_event_once :
  forall (q : list qitem) (w : world),
    w_drops (unwind_queue q w) = w_drops w ++ flat_map (fun it => ev_entry (qi_targeted it) (item_tag w it) (qi_ev it)) q.
Proof. exact unwind_queue_spec. Qed.
Print Assumptions c13_dropper_destroys_each_queued_event_once.
