(* C20 - Data a handler allocates for an event stays intact until that event is delivered. *)
From Coq Require Import List NArith.
Require Import EV.Base EV.Loop EV.World EV.WorldFrame.
Open Scope N_scope.

(* on the world model, for every handler behaviour: no delivery at any depth and no unwinding
   resets the arena; the reset counter seen by every handler of one flush is the initial one *)
Theorem c20_no_reset_during_flush :
  forall (beh : hinfo -> logent -> N -> script) (n : nat) (q : list qitem) (w : world)
         (tr : list qitem) (s' : wst) (oc : outcome),
    Loop.flush wst qitem (run_w beh) unwind_w n q (w, None) nil = Some (tr, s', oc) ->
    w_resets (fst s') = w_resets w.
Proof. exact flush_never_resets. Qed.
Print Assumptions c20_no_reset_during_flush.

(* a flush that completes performs exactly one reset, after the queue is empty *)
Theorem c20_exactly_one_reset_at_the_end :
  forall (beh : hinfo -> logent -> N -> script) (n : nat) (q : list qitem) (w w' : world),
    flush_loop beh n q w = (w', None) -> w_resets w' = w_resets w + 1.
Proof. exact flush_loop_resets_once. Qed.
Print Assumptions c20_exactly_one_reset_at_the_end.
