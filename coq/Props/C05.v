(* C05 - A handler is accepted iff its parameters can never alias a component mutably.
   Property theorems only; each is closed by [exact] of a lemma proved elsewhere. *)
From Coq Require Import List NArith Bool.
Require Import EV.Base EV.Access EV.AccessProofs EV.Query EV.QueryProofs.

(* the access expression a query's `init` builds matches exactly the archetypes its
   documented meaning selects: for every query expression and every archetype *)
Theorem c05_access_is_meaning :
  forall (a : N -> bool) (q : query), ca_matches a (access_of q) = qmatch a q.
Proof. exact access_matches_qmatch. Qed.
Print Assumptions c05_access_is_meaning.

(* `and` of access expressions is conjunction of their meanings (all operand shapes) *)
Theorem c05_and_is_conjunction :
  forall (a : N -> bool) (x y : ca), ca_matches a (ca_and x y) = ca_matches a x && ca_matches a y.
Proof. exact ca_and_matches. Qed.
Print Assumptions c05_and_is_conjunction.

Theorem c05_not_is_negation :
  forall (a : N -> bool) (x : ca), ca_matches a (ca_not x) = negb (ca_matches a x).
Proof. exact ca_not_matches. Qed.
Print Assumptions c05_not_is_negation.

Require Import EV.Aliasing EV.World EV.HandlerCheck.

(* T2: the access expression of a query contains a Conflict literal iff there is an archetype
   on which the query matches and hands out a mutable reference to some component together
   with another reference to the same component - every query expression *)
Theorem c05_conflict_iff_aliasing_possible :
  forall q : query, ca_conflicts (access_of q) <> nil <-> exists a, qmatch a q = true /\ aliasing (srefs a q).
Proof. exact conflict_iff_aliasing. Qed.
Print Assumptions c05_conflict_iff_aliasing_possible.

(* [srefs] are the references of the item the implementation's matcher builds *)
Theorem c05_references_are_those_of_the_item :
  forall (a : N -> bool) (q : query), qmatch a q = true -> qrefs a q = srefs a q.
Proof. exact qrefs_srefs. Qed.
Print Assumptions c05_references_are_those_of_the_item.

(* the handler-level check (conjunction, every parameter alone, every pair) accepts a parameter
   list iff on no archetype the parameters that match it, taken together, alias mutably *)
Theorem c05_handler_accepted_iff_no_aliasing_possible :
  forall qs : list query, handler_conflicts (map access_of qs) = nil <-> forall a, ~ aliasing (hrefs a qs).
Proof. exact handler_check_exact. Qed.
Print Assumptions c05_handler_accepted_iff_no_aliasing_possible.
