(* C05 - A handler is accepted iff its parameters can never alias a component mutably.
   Property theorems only; each is closed by [exact] of a lemma proved elsewhere. *)
From Coq Require Import List NArith Bool.
Require Import EV.Base EV.Access EV.AccessProofs EV.Query EV.QueryProofs.

(* the access expression a query's `init` builds matches exactly the archetypes its
   documented meaning selects: for every query expression and every archetype *)
Theorem c05_access_is_meaning :
  forall (a : N -> bool) (q : query), ca_matches a (access_of q) = qmatch a q.
Proof. exact access_matches_qmatch. Qed.
Print Assumptions c05_access_is_meaning.

(* `and` of access expressions is conjunction of their meanings (all operand shapes) *)
Theorem c05_and_is_conjunction :
  forall (a : N -> bool) (x y : ca), ca_matches a (ca_and x y) = ca_matches a x && ca_matches a y.
Proof. exact ca_and_matches. Qed.
Print Assumptions c05_and_is_conjunction.

Theorem c05_not_is_negation :
  forall (a : N -> bool) (x : ca), ca_matches a (ca_not x) = negb (ca_matches a x).
Proof. exact ca_not_matches. Qed.
Print Assumptions c05_not_is_negation.
