(* C02, second part: theorems that rest on the whole tower of reachable invariants (ZI), and thereby also on the
   meaning of the access expressions (files AccessProofs / QueryProofs over the regenerated tables). *)
From Coq Require Import List NArith Permutation.
Require Import EV.Base EV.Query EV.World EV.ArchProofs.
Require Import EV.SlotMap EV.Store.
Require Import EV.Effects EV.Reach.
Require Import EV.Member EV.Fetch EV.NoUB EV.Sender EV.Users.
(* World::get on any reachable world returns exactly what the storage map holds for (entity, component type) *)
Theorem c02_get_reads_the_storage_map :
  forall (beh : hinfo -> logent -> N -> script) (fuel p : N) (ops : list top_all) (e : key) (ktag : N),
    let w := fold_left (run_top_all beh) ops (world0 fuel p) in
    op_get e ktag w = inr (match alookup ktag (w_cby w) with Some ck => abs w e (fst ck) | None => None end).
Proof. exact reachable_get_is_abs. Qed.
Print Assumptions c02_get_reads_the_storage_map.

