(* C09 - Insert/Remove/Despawn/Spawn act after their handlers, and only if not consumed. *)
From Coq Require Import List NArith.
Require Import EV.Base EV.SlotMap EV.Loop EV.World EV.WorldFrame.
Open Scope N_scope.

(* for every handler behaviour: all handlers of one delivery run on an unchanged structure
   (which entities exist, where they are stored, with which components); the built-in change is
   applied by the delivery only after its handler loop *)
Theorem c09_handlers_see_the_world_before_the_change :
  forall (beh : hinfo -> logent -> N -> script) (hl : list key) (w : world) (it : qitem) (tag : N) (loc : eloc) (sent : list qitem),
    structure (fst (fst (fst (fst (run_handlers beh hl w it tag loc sent))))) = structure w.
Proof. exact handlers_preserve_structure. Qed.
Print Assumptions c09_handlers_see_the_world_before_the_change.

(* a consumed event leaves the structure as the handlers found it *)
Theorem c09_consumed_event_has_no_effect :
  forall (beh : hinfo -> logent -> N -> script) (it : qitem) (w : world) (hl : list key) (tag : N) (loc : eloc)
         (w1 : world) (ev : evv) (sent : list qitem),
    run_handlers beh hl w it tag loc nil = (w1, ev, sent, true, None) -> structure w1 = structure w.
Proof. exact consumed_event_has_no_effect. Qed.
Print Assumptions c09_consumed_event_has_no_effect.

(* an event whose target is dead at delivery time runs no handler, sends nothing, changes nothing *)
Theorem c09_dead_target_is_a_no_op :
  forall (beh : hinfo -> logent -> N -> script) (it : qitem) (w : world) (k : key) (info : einfo),
    qi_targeted it = true -> get_by_index (w_tev w) (qi_idx it) = Some (k, info) -> sm_get (qi_target it) (w_ents w) = None ->
    structure (snd (fst (deliver_one beh it w))) = structure w /\ fst (fst (deliver_one beh it w)) = nil /\
    k_log (w_h (snd (fst (deliver_one beh it w)))) = k_log (w_h w).
Proof. exact dead_target_has_no_effect. Qed.
Print Assumptions c09_dead_target_is_a_no_op.

Require Import EV.Listen.
(* the shape of one delivery: the handlers of delivered_to run first, on an unchanged structure; then - exactly once,
   and only if none of them took the event and none panicked - the built-in effect is applied to the world they left;
   a taken event and a dead target have no effect (theorems above) *)
Theorem c09_the_effect_is_applied_once_after_the_handlers_iff_not_consumed :
  forall (beh : hinfo -> logent -> N -> script) (it : qitem) (w : world),
    (if qi_targeted it then get_by_index (w_tev w) (qi_idx it) <> None /\ sm_get (qi_target it) (w_ents w) <> None /\
                            (forall loc, sm_get (qi_target it) (w_ents w) = Some loc -> slab_get (w_archs w) (fst loc) <> None)
     else get_by_index (w_gev w) (qi_idx it) <> None /\ nget (w_glists w) (qi_idx it) <> None) ->
    exists tag kind loc, deliver_one beh it w =
      (let '(w1, ev, sent, taken, fl) := run_handlers beh (delivered_to w it) w it tag loc nil in
         match fl with
         | Some f => (sent, (if taken then w1 else ev_drop w1 (qi_targeted it) tag ev), Some f)
         | None => if taken then (sent, w1, None) else
             match kind with
             | KNormal => (sent, ev_drop w1 (qi_targeted it) tag ev, None)
             | _ => let '(w3, f) := fail_of (builtin_effect kind ev loc w1) in (sent, w3, f)
             end
         end).
Proof. exact deliver_one_uses_delivered_to. Qed.
Print Assumptions c09_the_effect_is_applied_once_after_the_handlers_iff_not_consumed.

(* ---------- one delivery of Insert / Remove / Despawn, end to end, on the map (entity, component) -> value ---------- *)
Require Import EV.HList EV.Store EV.Effects EV.Reach EV.Deliver.
(* On a consistent world, for a structural event whose target is alive, whatever the handlers do (no panic):
   the handlers leave the set of live entities and the set of existing cells as they found them (they may change
   values through &mut items); if one of them took the event, that is all that happened; otherwise the change is
   applied exactly once to the world the handlers left - Insert sets (target, c) to the event's value and touches no
   other cell, Remove deletes (target, c) and touches no other cell, Despawn deletes the target and touches no other
   entity (or fails with the capacity panic while materialising reservations) - and the world stays consistent. *)
Theorem c09_one_delivery_of_a_structural_event :
  forall (beh : hinfo -> logent -> N -> script) (it : qitem) (w : world) (k : key) (info : einfo) (loc : eloc) (a : arch)
         (w1 : world) (ev : evv) (sent : list qitem) (taken : bool),
  WInv w -> qi_targeted it = true -> get_by_index (w_tev w) (qi_idx it) = Some (k, info) ->
  sm_get (qi_target it) (w_ents w) = Some loc -> slab_get (w_archs w) (fst loc) = Some a ->
  run_handlers beh (match alookup (qi_idx it) (a_listeners a) with Some l => hl_entries l | None => nil end) w it (e_tag info) loc nil
    = (w1, ev, sent, taken, None) ->
  let e := qi_target it in
  WInv w1 /\ w_ents w1 = w_ents w /\ (forall e' c', abs w1 e' c' = None <-> abs w e' c' = None) /\
  (taken = true -> deliver_one beh it w = (sent, w1, None)) /\
  (taken = false -> match e_kind info with
     | KInsert c => exists w3, deliver_one beh it w = (sent, w3, None) /\ WInv w3 /\
                     abs w3 e c = Some (ev_ser ev, ev_val ev) /\ (forall c', c' <> c -> abs w3 e c' = abs w1 e c') /\
                     (forall e' c', e' <> e -> abs w3 e' c' = abs w1 e' c')
     | KRemove c => exists w3, deliver_one beh it w = (sent, w3, None) /\ WInv w3 /\
                     abs w3 e c = None /\ (forall c', c' <> c -> abs w3 e c' = abs w1 e c') /\
                     (forall e' c', e' <> e -> abs w3 e' c' = abs w1 e' c')
     | KDespawn => exists w3 f, deliver_one beh it w = (sent, w3, f) /\ WInv w3 /\
                     (f = None -> sm_get e (w_ents w3) = None /\ (forall c', abs w3 e c' = None) /\
                                  (forall e' c', e' <> e -> sm_get e' (w_ents w1) <> None -> abs w3 e' c' = abs w1 e' c')) /\
                     (f <> None -> f = Some (FPanic 5))
     | _ => True
     end).
Proof. exact deliver_structural. Qed.
Print Assumptions c09_one_delivery_of_a_structural_event.
