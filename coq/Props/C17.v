(* C17 - Archetype bookkeeping stays consistent at every quiescent point.  (partial)
   The property's list is evaluated directly on the implementation's snapshot after every
   top-level call by the check (independent audit) and the snapshot is compared with the model
   state field by field.  Proved on the model: the storage / graph / registry invariant FInv
   holds in every world reachable through ALL top-level calls of the driver, for every handler
   behaviour (last theorem); cached transitions after a type removal (the part that was false on
   the pinned tree); the listener tables: in every reachable world they name exactly the live
   handlers whose filter matches (AI = FInv /\ HL, Listen.v).  Not covered: "no reservation or
   queued event left pending" (decided by the audit and the correspondence on every run). *)
From Coq Require Import List NArith Bool.
Require Import EV.Base EV.Access EV.HList EV.World EV.ArchProofs.

Theorem c17_partial_no_stale_transition_after_type_removal :
  forall (w : world) (cidx ctag : N) (member_of : list N) (ai : N) (a : arch),
    slab_get (w_archs (archs_remove_component w cidx ctag member_of)) ai = Some a ->
    alookup cidx (a_ins a) = None /\ alookup cidx (a_rem a) = None.
Proof. exact no_transition_mentions_removed_component. Qed.
Print Assumptions c17_partial_no_stale_transition_after_type_removal.

Theorem c17_partial_listener_tables_follow_filters :
  forall (ai : N) (a : arch) (h : hinfo) (ek : key),
    h_recv h = RvTargeted ek ->
    forall x, In x (listeners_of (fst (register_handler ai a h)) (fst ek)) <->
              (x = h_key h /\ ca_matches (arch_has a) (h_filter h) = true) \/ In x (listeners_of a (fst ek)).
Proof. exact register_handler_listens. Qed.
Print Assumptions c17_partial_listener_tables_follow_filters.

Require Import EV.Query EV.SlotMap EV.Store.

(* the storage part of the invariant (entity locations <-> archetype rows, one value per column,
   slot-map invariant) holds in the empty world and is preserved by row removal and by the
   archetype move, which therefore never take an unchecked step that fails *)
Theorem c17_partial_storage_invariant_initially :
  forall fuel p : N, StoreInv (world0 fuel p).
Proof. exact StoreInv_world0. Qed.
Print Assumptions c17_partial_storage_invariant_initially.

Theorem c17_partial_row_removal_keeps_storage_consistent :
  forall (w : world) (ai row : N) (a : arch) (e : key) (vals : list cval),
    StoreInv w -> arch_at w ai = Some a -> nget (a_rows a) row = Some (e, vals) ->
    exists w', remove_entity w (ai, row) = ROk tt w' /\ StoreInv w' /\
               sm_get e (w_ents w') = None /\ (forall k c, k <> e -> abs w' k c = abs w k c).
Proof. exact remove_entity_ok. Qed.
Print Assumptions c17_partial_row_removal_keeps_storage_consistent.

Theorem c17_partial_archetype_move_keeps_storage_consistent :
  forall (w : world) (sai srow dst : N) (sa da : arch) (e : key) (vals : list cval) (nw : option (N * cval))
         (dvals : list cval) (killed : list (N * cval)),
    StoreInv w -> arch_at w sai = Some sa -> arch_at w dst = Some da -> sai <> dst ->
    nget (a_rows sa) srow = Some (e, vals) ->
    merge_row (S (length (a_comps sa) + length (a_comps da))) (a_comps sa) vals (a_comps da) nw = Some (dvals, killed) ->
    exists w', move_entity w (sai, srow) dst nw = ROk tt w' /\ StoreInv w' /\
               (forall k c, k <> e -> abs w' k c = abs w k c) /\
               (forall c, abs w' e c = row_col da dvals c).
Proof. exact move_entity_ok_core. Qed.
Print Assumptions c17_partial_archetype_move_keeps_storage_consistent.

Require Import EV.Loop EV.Graph EV.Effects EV.Reach.

(* the graph part: transitions, by_components, slab free list, sorted component lists *)
Theorem c17_partial_insert_transition_is_correct :
  forall (w : world) (src : N) (sa : arch) (c : N),
    StoreInv w -> GraphInv w -> arch_at w src = Some sa ->
    exists d w1, traverse_insert w src c = ROk d w1 /\ StoreInv w1 /\ GraphInv w1 /\
      (forall e k, abs w1 e k = abs w e k) /\ w_ents w1 = w_ents w /\
      (exists sa1, arch_at w1 src = Some sa1 /\ a_comps sa1 = a_comps sa /\ a_rows sa1 = a_rows sa) /\
      (In c (a_comps sa) -> d = src) /\
      (~ In c (a_comps sa) -> d <> src /\ exists da, arch_at w1 d = Some da /\ a_comps da = sorted_insert c (a_comps sa)) /\
      (forall cs ai, aby_lookup w cs = Some ai -> aby_lookup w1 cs = Some ai).
Proof. exact traverse_insert_ok. Qed.
Print Assumptions c17_partial_insert_transition_is_correct.

(* one delivery and a whole flush keep the invariant, whatever the handlers do *)
Theorem c17_flush_keeps_the_invariant :
  forall (beh : hinfo -> logent -> N -> script) (n : nat) (q : list qitem) (w : world) tr (s' : wst) oc,
    Loop.flush wst qitem (run_w beh) unwind_w n q (w, None) nil = Some (tr, s', oc) ->
    WInv w -> GevKinds w -> WInv (fst s') /\ GevKinds (fst s').
Proof. exact flush_WInv. Qed.
Print Assumptions c17_flush_keeps_the_invariant.

(* every world reachable from World::new by spawn / insert / remove / despawn / send / send_to /
   add_handler / remove_handler / add_component / add and remove events, with any handler bodies,
   any panic schedule and any fuel, is consistent:
     RInv w  =  StoreInv w  (entity map <-> rows, one value per column, slot-map invariant)
             /\ GraphInv w (slab chain, by_components <-> live archetypes, insert/remove
                            transitions lead to the archetype differing by the label, sorted lists)
             /\ the empty archetype is archetype 0  /\ global events carry no targeted meaning *)
Theorem c17_every_reachable_world_is_consistent :
  forall (beh : hinfo -> logent -> N -> script) (fuel p : N) (ops : list top),
    RInv (fold_left (run_top beh) ops (world0 fuel p)).
Proof. exact reachable_RInv. Qed.
Print Assumptions c17_every_reachable_world_is_consistent.

Require Import EV.RemoveComp EV.Member.

(* the full statement, now including World::remove_component:
     FInv w = RInv w (above)
           /\ KInv w : member_of of every live component lists, without repetition, exactly the live
                       archetypes that have it; archetypes mention live components only; every targeted
                       Insert/Remove event is about a live component and recorded in its event lists;
                       the by-type map names live components carrying that type *)
Theorem c17_every_reachable_world_is_consistent_all_calls :
  forall (beh : hinfo -> logent -> N -> script) (fuel p : N) (ops : list top_all),
    FInv (fold_left (run_top_all beh) ops (world0 fuel p)).
Proof. exact reachable_FInv. Qed.
Print Assumptions c17_every_reachable_world_is_consistent_all_calls.

Require Import EV.Listen.

(* ... and the per-archetype listener tables and global listener lists name, without repetition,
   exactly the live handlers whose receiver has that event index (and whose filter matches the
   archetype); the handler registry is coherent (HL = HInv /\ LInv) *)
Theorem c17_listener_tables_are_exact_in_every_reachable_world :
  forall (beh : hinfo -> logent -> N -> script) (fuel p : N) (ops : list top_all),
    AI (fold_left (run_top_all beh) ops (world0 fuel p)).
Proof. exact reachable_AI. Qed.
Print Assumptions c17_listener_tables_are_exact_in_every_reachable_world.
