(* C17 - Archetype bookkeeping stays consistent at every quiescent point.  (partial)
   The property's list is evaluated directly on the implementation's snapshot after every
   top-level call by the check (independent audit) and the snapshot is compared with the model
   state field by field.  Proved so far on the model: cached transitions after a type removal
   (the part that was false on the pinned tree) and the listener-table characterisation. *)
From Coq Require Import List NArith Bool.
Require Import EV.Base EV.Access EV.HList EV.World EV.ArchProofs.

Theorem c17_partial_no_stale_transition_after_type_removal :
  forall (w : world) (cidx ctag : N) (member_of : list N) (ai : N) (a : arch),
    slab_get (w_archs (archs_remove_component w cidx ctag member_of)) ai = Some a ->
    alookup cidx (a_ins a) = None /\ alookup cidx (a_rem a) = None.
Proof. exact no_transition_mentions_removed_component. Qed.
Print Assumptions c17_partial_no_stale_transition_after_type_removal.

Theorem c17_partial_listener_tables_follow_filters :
  forall (ai : N) (a : arch) (h : hinfo) (ek : key),
    h_recv h = RvTargeted ek ->
    forall x, In x (listeners_of (fst (register_handler ai a h)) (fst ek)) <->
              (x = h_key h /\ ca_matches (arch_has a) (h_filter h) = true) \/ In x (listeners_of a (fst ek)).
Proof. exact register_handler_listens. Qed.
Print Assumptions c17_partial_listener_tables_follow_filters.
