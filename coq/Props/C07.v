(* C07 - Handlers run by priority, then by the order they were added - always. *)
From Coq Require Import List NArith Bool Sorted.
Require Import EV.Base EV.HList EV.HListProofs.
Open Scope N_scope.

(* the cursor list stays  High ++ Medium ++ Low, each segment in addition order, when a handler
   newer than all present is inserted - for every element type, priority and order function *)
Theorem c07_insert_keeps_order :
  forall (H : Type) (pr : H -> prio) (ord : H -> N) (l : hlist H) (h : H),
    HlInv pr ord l -> (forall x, In x (hl_entries l) -> ord x < ord h) -> HlInv pr ord (hl_insert l h (pr h)).
Proof. exact @insert_inv. Qed.
Print Assumptions c07_insert_keeps_order.

(* ... and when any handler is removed (position search, Vec::remove, cursor fix-up) *)
Theorem c07_remove_keeps_order :
  forall (H : Type) (heqb : H -> H -> bool), (forall a b, heqb a b = true <-> a = b) ->
  forall (pr : H -> prio) (ord : H -> N) (l : hlist H) (h : H),
    HlInv pr ord l -> HlInv pr ord (hl_remove heqb l h).
Proof. exact @remove_inv. Qed.
Print Assumptions c07_remove_keeps_order.

(* a list in that shape is iterated High before Medium before Low, each by addition number *)
Theorem c07_iteration_order :
  forall (H : Type) (pr : H -> prio) (ord : H -> N) (l : hlist H),
    HlInv pr ord l -> StronglySorted (before_in_order pr ord) (hl_entries l).
Proof. exact @hl_sorted. Qed.
Print Assumptions c07_iteration_order.
