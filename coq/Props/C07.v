(* C07 - Handlers run by priority, then by the order they were added - always. *)
From Coq Require Import List NArith Bool Sorted.
Require Import EV.Base EV.HList EV.HListProofs.
Open Scope N_scope.

(* the cursor list stays  High ++ Medium ++ Low, each segment in addition order, when a handler
   newer than all present is inserted - for every element type, priority and order function *)
Theorem c07_insert_keeps_order :
  forall (H : Type) (pr : H -> prio) (ord : H -> N) (l : hlist H) (h : H),
    HlInv pr ord l -> (forall x, In x (hl_entries l) -> ord x < ord h) -> HlInv pr ord (hl_insert l h (pr h)).
Proof. exact @insert_inv. Qed.
Print Assumptions c07_insert_keeps_order.

(* ... and when any handler is removed (position search, Vec::remove, cursor fix-up) *)
Theorem c07_remove_keeps_order :
  forall (H : Type) (heqb : H -> H -> bool), (forall a b, heqb a b = true <-> a = b) ->
  forall (pr : H -> prio) (ord : H -> N) (l : hlist H) (h : H),
    HlInv pr ord l -> HlInv pr ord (hl_remove heqb l h).
Proof. exact @remove_inv. Qed.
Print Assumptions c07_remove_keeps_order.

(* a list in that shape is iterated High before Medium before Low, each by addition number *)
Theorem c07_iteration_order :
  forall (H : Type) (pr : H -> prio) (ord : H -> N) (l : hlist H),
    HlInv pr ord l -> StronglySorted (before_in_order pr ord) (hl_entries l).
Proof. exact @hl_sorted. Qed.
Print Assumptions c07_iteration_order.

Require Import EV.World EV.Member EV.Listen EV.Order.

(* world level: on every world satisfying the order invariant OInv (every per-archetype listener
   list and every global listener list is in the HandlerList shape with its before/after cursors,
   priority and addition number being those recorded for the handler), the handlers a delivery
   runs come High before Medium before Low, each class in the order the handlers were added *)
Theorem c07_every_delivery_runs_in_priority_then_addition_order :
  forall (w : world) (it : qitem), OInv w ->
    StronglySorted (before_in_order (kpr w) (kord w)) (delivered_to w it).
Proof. exact delivered_to_sorted. Qed.
Print Assumptions c07_every_delivery_runs_in_priority_then_addition_order.

(* "always": OInv (with all the other invariants: BI = AI /\ OInv) holds in every world reachable
   through any sequence of calls - adding and removing handlers, events and component types,
   archetypes being created and destroyed - for every handler behaviour *)
Theorem c07_order_invariant_in_every_reachable_world :
  forall (beh : hinfo -> logent -> N -> script) (fuel p : N) (ops : list top_all),
    BI (fold_left (run_top_all beh) ops (world0 fuel p)).
Proof. exact reachable_BI. Qed.
Print Assumptions c07_order_invariant_in_every_reachable_world.

(* and after every single delivery inside a flush *)
Theorem c07_order_invariant_after_every_delivery :
  forall (beh : hinfo -> logent -> N -> script) (it : qitem) (w : world),
    Effects.WInv w -> HL w -> OInv w -> OInv (snd (fst (deliver_one beh it w))).
Proof. exact deliver_one_O. Qed.
Print Assumptions c07_order_invariant_after_every_delivery.

(* "each eligible handler runs exactly once per delivery unless an earlier handler took ownership of the event, in
   which case none of the later ones run": the handler bodies entered during one delivery - read off the invocation
   log, the same log the correspondence compares with the implementation - are a PREFIX of the listener list, in list
   order, and the whole list when no handler took the event and none panicked.  With the listener list free of
   repetitions (c08: delivered_to_exact) that is "exactly once". *)
Require Import EV.SlotMap EV.RunOnce.
Theorem c07_handlers_invoked_are_a_prefix_of_the_listener_list :
  forall (beh : hinfo -> logent -> N -> script) (hl : list key) (w : world) (it : qitem) (tag : N) (loc : eloc) (sent : list qitem),
    (forall hk, In hk hl -> exists h, sm_get hk (w_hs w) = Some h /\ h_key h = hk) ->
    let r := run_handlers beh hl w it tag loc sent in
    let w' := fst (fst (fst (fst r))) in
    exists n new, klog w' = klog w ++ new /\ map lg_handler new = firstn n hl /\ (n <= length hl)%nat /\
                  (snd r = None -> snd (fst r) = false -> n = length hl).
Proof. exact run_handlers_prefix. Qed.
Print Assumptions c07_handlers_invoked_are_a_prefix_of_the_listener_list.
