(* BitSet.v : src/bit_set.rs - the bit sets in which a handler records the events it can send and the components it
   references (the sets World::remove_component / remove_*_event consult to decide which handlers go) - as an
   executable model over 64-bit blocks, and the theorems: it is a finite set of indices.
     insert / remove / contains are the set operations (with the documented return values),
     |= is union, is_disjoint and is_empty mean what they say, iteration (the trailing-zeros loop) yields exactly
     the members in increasing order, shrink_to_fit changes nothing observable. *)
From Coq Require Import List NArith Bool Lia Sorted.
Import ListNotations.
Require Import EV.Base EV.ListN.
Open Scope N_scope.

Definition BITS : N := 64.
Definition bs := list N.                         (* blocks, least significant first; each < 2^64 *)

Definition bs_mem (s : bs) (i : N) : bool :=
  match nget s (i / BITS) with Some b => N.testbit b (i mod BITS) | None => false end.
Definition BsInv (s : bs) : Prop := Forall (fun b => b < 2 ^ BITS) s.

(* bit_set.rs: grow_to_block + insert *)
Definition bs_insert (s : bs) (i : N) : bool * bs :=
  let blk := i / BITS in let bit := i mod BITS in
  let s1 := nrepeat_to s (N.to_nat blk + 1) 0 in
  match nget s1 blk with
  | Some b => (negb (N.testbit b bit), nset s1 blk (N.setbit b bit))
  | None => (false, s1)                           (* unreachable: get_unchecked_mut after the resize *)
  end.
Definition bs_remove (s : bs) (i : N) : bool * bs :=
  let blk := i / BITS in let bit := i mod BITS in
  match nget s blk with
  | Some b => (N.testbit b bit, nset s blk (N.clearbit b bit))
  | None => (false, s)
  end.
Definition bs_contains (s : bs) (i : N) : bool := bs_mem s i.
Fixpoint bs_or (a b : bs) : bs :=                (* BitOrAssign: resize, then zip *)
  match a, b with
  | [], _ => b
  | _, [] => a
  | x :: a', y :: b' => N.lor x y :: bs_or a' b'
  end.
Fixpoint bs_disjoint (a b : bs) : bool :=
  match a, b with
  | x :: a', y :: b' => (N.land x y =? 0) && bs_disjoint a' b'
  | _, _ => true
  end.
Definition bs_is_empty (s : bs) : bool := forallb (fun b => b =? 0) s.
Fixpoint strip0 (r : list N) : list N := match r with [] => [] | x :: t => if x =? 0 then strip0 t else r end.
Definition bs_shrink (s : bs) : bs := rev (strip0 (rev s)).

(* ---------- list plumbing (local copies, so that this file depends on Base/ListN only) ---------- *)
Lemma nget_pad (l : list N) n k : nget (nrepeat_to l n 0) k = match nget l k with Some x => Some x | None => if k <? N.of_nat n then Some 0 else None end.
Proof.
  revert l k. induction n as [|n IH]; intros l k; cbn [nrepeat_to].
  - destruct (nget l k); [reflexivity|]. now replace (k <? N.of_nat 0) with false by (symmetry; apply N.ltb_ge; lia).
  - destruct l as [|h t]; cbn [nget]; destruct (k =? 0) eqn:E.
    + apply N.eqb_eq in E. subst. reflexivity.
    + rewrite IH. cbn [nget]. apply N.eqb_neq in E. destruct (N.pred k <? N.of_nat n) eqn:L1; destruct (k <? N.of_nat (S n)) eqn:L2; try reflexivity;
        [apply N.ltb_lt in L1; apply N.ltb_ge in L2; lia|apply N.ltb_ge in L1; apply N.ltb_lt in L2; lia].
    + reflexivity.
    + rewrite IH. destruct (nget t (N.pred k)); [reflexivity|]. apply N.eqb_neq in E. destruct (N.pred k <? N.of_nat n) eqn:L1; destruct (k <? N.of_nat (S n)) eqn:L2; try reflexivity;
        [apply N.ltb_lt in L1; apply N.ltb_ge in L2; lia|apply N.ltb_ge in L1; apply N.ltb_lt in L2; lia].
Qed.
Lemma nget_nset' {A} (l : list A) i j x : nget (nset l i x) j = if j =? i then (if i <? nlen l then Some x else None) else nget l j.
Proof.
  destruct (j =? i) eqn:E.
  - apply N.eqb_eq in E. subst j. destruct (i <? nlen l) eqn:L; [apply N.ltb_lt in L; now apply nget_nset_eq|].
    apply N.ltb_ge in L. apply nget_ge_none. now rewrite nlen_nset.
  - apply N.eqb_neq in E. apply nget_nset_neq. congruence.
Qed.
Lemma nlen_pad_ge (l : list N) n : N.of_nat n <= nlen (nrepeat_to l n 0).
Proof.
  revert l. induction n as [|n IH]; intros l; cbn [nrepeat_to]; [unfold nlen; lia|].
  destruct l as [|h t]; rewrite nlen_cons; [specialize (IH []); lia|specialize (IH t); lia].
Qed.
Lemma divmod_eq i j : i / BITS = j / BITS -> i mod BITS = j mod BITS -> i = j.
Proof. unfold BITS. intros A B. rewrite (N.div_mod i 64), (N.div_mod j 64) by lia. now rewrite A, B. Qed.

(* ---------- membership after each operation ---------- *)
Theorem bs_contains_spec s i : bs_contains s i = bs_mem s i. Proof. reflexivity. Qed.

Theorem bs_insert_spec s i : fst (bs_insert s i) = negb (bs_mem s i) /\ forall j, bs_mem (snd (bs_insert s i)) j = (j =? i) || bs_mem s j.
Proof.
  unfold bs_insert. cbn zeta. set (blk := i / BITS). set (bit := i mod BITS). set (s1 := nrepeat_to s (N.to_nat blk + 1) 0).
  assert (Hp : forall k, nget s1 k = match nget s k with Some x => Some x | None => if k <? N.of_nat (N.to_nat blk + 1) then Some 0 else None end) by (intros; apply nget_pad).
  assert (Hlt : blk < nlen s1) by (pose proof (nlen_pad_ge s (N.to_nat blk + 1)); fold s1 in H; lia).
  assert (Hm1 : forall j, bs_mem s1 j = bs_mem s j).
  { intros j. unfold bs_mem. rewrite Hp. destruct (nget s (j / BITS)); [reflexivity|]. destruct (_ <? _); [apply N.bits_0|reflexivity]. }
  destruct (nget s1 blk) as [b|] eqn:Eb; [|apply nget_none_ge in Eb; lia]. cbn [fst snd]. split.
  - f_equal. rewrite <- Hm1. unfold bs_mem. fold blk bit. now rewrite Eb.
  - intros j. rewrite <- Hm1. unfold bs_mem. rewrite nget_nset'. destruct (j / BITS =? blk) eqn:E.
    + apply N.eqb_eq in E. replace (blk <? nlen s1) with true by (symmetry; now apply N.ltb_lt). rewrite E, Eb, N.setbit_eqb.
      destruct (j =? i) eqn:Ej.
      * apply N.eqb_eq in Ej. subst j. fold bit. now rewrite N.eqb_refl.
      * apply N.eqb_neq in Ej. replace (bit =? j mod BITS) with false; [reflexivity|]. symmetry. apply N.eqb_neq. intros X. apply Ej. apply divmod_eq; [exact E|now symmetry].
    + replace (j =? i) with false; [reflexivity|]. symmetry. apply N.eqb_neq. intros ->. apply N.eqb_neq in E. now apply E.
Qed.

Theorem bs_remove_spec s i : fst (bs_remove s i) = bs_mem s i /\ forall j, bs_mem (snd (bs_remove s i)) j = negb (j =? i) && bs_mem s j.
Proof.
  unfold bs_remove. cbn zeta. set (blk := i / BITS). set (bit := i mod BITS).
  destruct (nget s blk) as [b|] eqn:Eb; cbn [fst snd].
  - split; [unfold bs_mem; fold blk bit; now rewrite Eb|]. intros j. unfold bs_mem. rewrite nget_nset'. destruct (j / BITS =? blk) eqn:E.
    + apply N.eqb_eq in E. pose proof (nget_some_lt _ _ _ Eb) as Hlt. replace (blk <? nlen s) with true by (symmetry; now apply N.ltb_lt). rewrite E, Eb, N.clearbit_eqb.
      destruct (j =? i) eqn:Ej.
      * apply N.eqb_eq in Ej. subst j. fold bit. rewrite N.eqb_refl. cbn. now rewrite andb_false_r.
      * apply N.eqb_neq in Ej. replace (bit =? j mod BITS) with false; [cbn; now rewrite andb_true_r|]. symmetry. apply N.eqb_neq. intros X. apply Ej. apply divmod_eq; [exact E|now symmetry].
    + replace (j =? i) with false; [reflexivity|]. symmetry. apply N.eqb_neq. intros ->. apply N.eqb_neq in E. now apply E.
  - split; [unfold bs_mem; fold blk; now rewrite Eb|]. intros j. destruct (j =? i) eqn:Ej; [|reflexivity]. apply N.eqb_eq in Ej. subst j. unfold bs_mem. fold blk. now rewrite Eb.
Qed.

Lemma nget_bs_or a : forall b k, nget (bs_or a b) k = match nget a k, nget b k with
                                                      | Some x, Some y => Some (N.lor x y) | Some x, None => Some x | None, Some y => Some y | None, None => None end.
Proof.
  induction a as [|x a IH]; intros b k; cbn [bs_or].
  - rewrite nget_nil. now destruct (nget b k).
  - destruct b as [|y b]; [rewrite nget_nil; now destruct (nget (x :: a) k)|]. cbn [nget]. destruct (k =? 0); [reflexivity|apply IH].
Qed.
Theorem bs_or_spec a b j : bs_mem (bs_or a b) j = bs_mem a j || bs_mem b j.
Proof.
  unfold bs_mem. rewrite nget_bs_or. destruct (nget a (j / BITS)), (nget b (j / BITS)); try reflexivity; [apply N.lor_spec|now rewrite orb_false_r].
Qed.

(* ---------- block width ---------- *)
Lemma testbit_small b n : b < 2 ^ BITS -> BITS <= n -> N.testbit b n = false.
Proof.
  intros Hb Hn. destruct (N.eq_dec b 0) as [->|Hz]; [apply N.bits_0|]. apply N.bits_above_log2.
  assert (N.log2 b < BITS) by (apply N.log2_lt_pow2; lia). lia.
Qed.
Lemma small_of_bits b : (forall n, BITS <= n -> N.testbit b n = false) -> b < 2 ^ BITS.
Proof.
  intros H. destruct (N.eq_dec b 0) as [->|Hz]; [reflexivity|]. apply N.log2_lt_pow2; [lia|].
  destruct (N.lt_ge_cases (N.log2 b) BITS) as [L|L]; [exact L|]. pose proof (H _ L) as X. pose proof (N.bit_log2 b Hz). congruence.
Qed.

Lemma BsInv_nget s k b : BsInv s -> nget s k = Some b -> b < 2 ^ BITS.
Proof. unfold BsInv. rewrite Forall_forall. intros H E. apply H. eapply nget_in; eauto. Qed.
Lemma BsInv_nset s k b : BsInv s -> b < 2 ^ BITS -> BsInv (nset s k b).
Proof.
  unfold BsInv. rewrite !Forall_forall. intros H Hb x Hin. apply in_nget in Hin as [j Hj]. rewrite nget_nset' in Hj.
  destruct (j =? k); [destruct (k <? nlen s); inversion Hj; subst; exact Hb|]. apply H. eapply nget_in; eauto.
Qed.
Lemma BsInv_pad s n : BsInv s -> BsInv (nrepeat_to s n 0).
Proof.
  unfold BsInv. rewrite !Forall_forall. intros H x Hin. apply in_nget in Hin as [j Hj]. rewrite nget_pad in Hj.
  destruct (nget s j) eqn:E; [inversion Hj; subst; apply H; eapply nget_in; eauto|]. destruct (j <? _); inversion Hj; subst. reflexivity.
Qed.
Lemma bit_lt i : i mod BITS < BITS. Proof. unfold BITS. apply N.mod_lt. lia. Qed.

Theorem bs_insert_inv s i : BsInv s -> BsInv (snd (bs_insert s i)).
Proof.
  intros H. unfold bs_insert. cbn zeta. pose proof (BsInv_pad s (N.to_nat (i / BITS) + 1) H) as H1.
  destruct (nget (nrepeat_to s (N.to_nat (i / BITS) + 1) 0) (i / BITS)) as [b|] eqn:Eb; cbn [snd]; [|exact H1].
  apply BsInv_nset; [exact H1|]. apply small_of_bits. intros n Hn. rewrite N.setbit_eqb.
  replace (i mod BITS =? n) with false by (symmetry; apply N.eqb_neq; pose proof (bit_lt i); lia). cbn. apply testbit_small; [eapply BsInv_nget; eauto|exact Hn].
Qed.
Theorem bs_remove_inv s i : BsInv s -> BsInv (snd (bs_remove s i)).
Proof.
  intros H. unfold bs_remove. cbn zeta. destruct (nget s (i / BITS)) as [b|] eqn:Eb; cbn [snd]; [|exact H].
  apply BsInv_nset; [exact H|]. apply small_of_bits. intros n Hn. rewrite N.clearbit_eqb. rewrite (testbit_small b n); [reflexivity|eapply BsInv_nget; eauto|exact Hn].
Qed.
Theorem bs_or_inv a : forall b, BsInv a -> BsInv b -> BsInv (bs_or a b).
Proof.
  induction a as [|x a IH]; intros b Ha Hb; cbn [bs_or]; [exact Hb|]. destruct b as [|y b]; [exact Ha|].
  inversion Ha; subst. inversion Hb; subst. constructor; [|now apply IH].
  apply small_of_bits. intros n Hn. rewrite N.lor_spec, !testbit_small by assumption. reflexivity.
Qed.

Theorem bs_is_empty_spec s : BsInv s -> (bs_is_empty s = true <-> forall j, bs_mem s j = false).
Proof.
  intros HI. unfold bs_is_empty. rewrite forallb_forall. split.
  - intros H j. unfold bs_mem. destruct (nget s (j / BITS)) as [b|] eqn:E; [|reflexivity]. apply nget_in in E. apply H in E. apply N.eqb_eq in E. subst. apply N.bits_0.
  - intros H b Hin. apply N.eqb_eq. apply N.bits_inj_0. intros n. apply in_nget in Hin as [k Hk].
    destruct (N.lt_ge_cases n BITS) as [L|L]; [|apply testbit_small; [eapply BsInv_nget; eauto|exact L]].
    specialize (H (k * BITS + n)). unfold bs_mem in H. replace ((k * BITS + n) / BITS) with k in H by (unfold BITS in *; rewrite N.div_add_l by lia; rewrite (N.div_small n 64) by lia; lia).
    replace ((k * BITS + n) mod BITS) with n in H by (unfold BITS in *; rewrite N.add_comm, N.mod_add by lia; now rewrite N.mod_small). now rewrite Hk in H.
Qed.

Lemma shift_down j : BITS <= j -> (j - BITS) / BITS = N.pred (j / BITS) /\ (j - BITS) mod BITS = j mod BITS.
Proof.
  unfold BITS. intros H. pose proof (N.div_mod j 64 ltac:(lia)) as E. pose proof (N.mod_lt j 64 ltac:(lia)) as L.
  assert (1 <= j / 64) by (apply N.div_le_lower_bound; lia).
  assert (E2 : j - 64 = 64 * N.pred (j / 64) + j mod 64) by lia.
  split; [symmetry; eapply N.div_unique; [exact L|exact E2]|symmetry; eapply N.mod_unique; [exact L|exact E2]].
Qed.
Lemma shift_up j : (j + BITS) / BITS = j / BITS + 1 /\ (j + BITS) mod BITS = j mod BITS.
Proof. unfold BITS. replace (j + 64) with (j + 1 * 64) by lia. split; [now rewrite N.div_add by lia|now rewrite N.mod_add by lia]. Qed.

Theorem bs_disjoint_spec a : forall b, BsInv a -> BsInv b -> (bs_disjoint a b = true <-> forall j, bs_mem a j && bs_mem b j = false).
Proof.
  induction a as [|x a IH]; intros b Ha Hb.
  - cbn [bs_disjoint]. split; [intros _ j; unfold bs_mem at 1; now rewrite nget_nil|auto].
  - destruct b as [|y b]; cbn [bs_disjoint].
    + split; [intros _ j; unfold bs_mem at 2; rewrite nget_nil; apply andb_false_r|auto].
    + inversion Ha; subst. inversion Hb; subst. rewrite andb_true_iff, (IH b) by assumption. split.
      * intros [E0 Ht] j. unfold bs_mem. cbn [nget]. destruct (j / BITS =? 0) eqn:Ez.
        -- apply N.eqb_eq in E0. rewrite <- N.land_spec, E0. apply N.bits_0.
        -- specialize (Ht (j - BITS)). unfold bs_mem in Ht. apply N.eqb_neq in Ez.
           assert (Hge : BITS <= j) by (unfold BITS in *; destruct (N.lt_ge_cases j 64) as [L|L]; [rewrite N.div_small in Ez by exact L; congruence|exact L]).
           destruct (shift_down j Hge) as [E1 E2]. rewrite E1, E2 in Ht.
           exact Ht.
      * intros H. split.
        -- apply N.eqb_eq. apply N.bits_inj_0. intros n. rewrite N.land_spec. destruct (N.lt_ge_cases n BITS) as [L|L]; [|rewrite (testbit_small x n) by assumption; reflexivity].
           specialize (H n). unfold bs_mem in H. cbn [nget] in H. unfold BITS in *. rewrite (N.div_small n 64), (N.mod_small n 64) in H by lia. exact H.
        -- intros j. specialize (H (j + BITS)). unfold bs_mem in *. cbn [nget] in H. destruct (shift_up j) as [E1 E2]. rewrite E1, E2 in H.
           assert (Z : (j / BITS + 1 =? 0) = false) by (apply N.eqb_neq; generalize (j / BITS); intros q; lia).
           rewrite Z in H. replace (N.pred (j / BITS + 1)) with (j / BITS) in H by (generalize (j / BITS); intros q; lia). exact H.
Qed.

(* ---------- shrink_to_fit ---------- *)
Lemma strip0_spec r : exists n, r = repeat 0 n ++ strip0 r.
Proof.
  induction r as [|x t [n IH]]; [exists O; reflexivity|]. cbn [strip0]. destruct (x =? 0) eqn:E; [|exists O; reflexivity].
  apply N.eqb_eq in E. subst x. exists (S n). cbn [repeat app]. now rewrite <- IH.
Qed.
Theorem bs_shrink_spec s : forall j, bs_mem (bs_shrink s) j = bs_mem s j.
Proof.
  intros j. destruct (strip0_spec (rev s)) as [n Hn]. unfold bs_shrink.
  assert (Hs : s = rev (strip0 (rev s)) ++ rev (repeat 0 n)) by (rewrite <- rev_app_distr, <- Hn; now rewrite rev_involutive).
  set (l' := rev (strip0 (rev s))) in *. unfold bs_mem.
  assert (Hg : nget s (j / BITS) = nget (l' ++ rev (repeat 0 n)) (j / BITS)) by (rewrite <- Hs; reflexivity). rewrite Hg.
  destruct (N.lt_ge_cases (j / BITS) (nlen l')) as [L|L]; [now rewrite nget_app_l|].
  rewrite (nget_ge_none l' _ L), nget_app_r by exact L.
  destruct (nget (rev (repeat 0 n)) (j / BITS - nlen l')) as [b|] eqn:E; [|reflexivity].
  apply nget_in, in_rev, repeat_spec in E. subst b. symmetry. apply N.bits_0.
Qed.
Theorem bs_shrink_inv s : BsInv s -> BsInv (bs_shrink s).
Proof.
  unfold BsInv, bs_shrink. rewrite !Forall_forall. intros H x Hin. apply in_rev in Hin. apply H. apply in_rev.
  destruct (strip0_spec (rev s)) as [n Hn]. rewrite Hn. apply in_or_app. now right.
Qed.

(* ---------- every operation sequence: a finite set ---------- *)
Inductive bs_op := BIns (i : N) | BRem (i : N) | BOr (other : list N) | BShrink.
Definition bs_step (s : bs) (o : bs_op) : bs :=
  match o with
  | BIns i => snd (bs_insert s i)
  | BRem i => snd (bs_remove s i)
  | BOr other => bs_or s (fold_left (fun acc i => snd (bs_insert acc i)) other [])
  | BShrink => bs_shrink s
  end.
Definition spec_step (f : N -> bool) (o : bs_op) : N -> bool :=
  match o with
  | BIns i => fun j => (j =? i) || f j
  | BRem i => fun j => negb (j =? i) && f j
  | BOr other => fun j => f j || existsb (N.eqb j) other
  | BShrink => f
  end.
Lemma from_list_spec l : forall acc, BsInv acc ->
  BsInv (fold_left (fun acc i => snd (bs_insert acc i)) l acc) /\
  forall j, bs_mem (fold_left (fun acc i => snd (bs_insert acc i)) l acc) j = bs_mem acc j || existsb (N.eqb j) l.
Proof.
  induction l as [|i t IH]; intros acc HI; cbn [fold_left existsb]; [split; [exact HI|intros; now rewrite orb_false_r]|].
  destruct (IH (snd (bs_insert acc i)) (bs_insert_inv acc i HI)) as [A B]. split; [exact A|]. intros j. rewrite B, (proj2 (bs_insert_spec acc i)).
  destruct (j =? i), (bs_mem acc j), (existsb (N.eqb j) t); reflexivity.
Qed.
Theorem bs_run_refines ops : forall s f, BsInv s -> (forall j, bs_mem s j = f j) ->
  BsInv (fold_left bs_step ops s) /\ forall j, bs_mem (fold_left bs_step ops s) j = fold_left spec_step ops f j.
Proof.
  induction ops as [|o t IH]; intros s f HI Hf; cbn [fold_left]; [auto|]. apply IH.
  - destruct o as [i|i|other|]; cbn [bs_step]; [now apply bs_insert_inv|now apply bs_remove_inv| |now apply bs_shrink_inv].
    apply bs_or_inv; [exact HI|]. apply from_list_spec. constructor.
  - intros j. destruct o as [i|i|other|]; cbn [bs_step spec_step].
    + rewrite (proj2 (bs_insert_spec s i)), Hf. reflexivity.
    + rewrite (proj2 (bs_remove_spec s i)), Hf. reflexivity.
    + rewrite bs_or_spec, Hf. f_equal. rewrite (proj2 (from_list_spec other [] ltac:(constructor))). unfold bs_mem. now rewrite nget_nil.
    + rewrite bs_shrink_spec. apply Hf.
Qed.
Corollary bs_from_empty ops : BsInv (fold_left bs_step ops []) /\ forall j, bs_mem (fold_left bs_step ops []) j = fold_left spec_step ops (fun _ => false) j.
Proof. apply bs_run_refines; [constructor|]. intros j. unfold bs_mem. now rewrite nget_nil. Qed.

Example bs_example : let s := fold_left bs_step [BIns 3; BIns 70; BIns 64; BRem 3; BOr [200; 5]] [] in
  bs_mem s 70 = true /\ bs_mem s 3 = false /\ bs_mem s 200 = true /\ bs_mem s 5 = true /\ bs_mem s 6 = false /\ bs_is_empty s = false.
Proof. vm_compute. repeat split. Qed.

(* composite statement used by Props/C14.v *)
Lemma bs_insert_or_spec (s t : bs) (i j : N) :
  (bs_mem (snd (bs_insert s i)) j = (j =? i) || bs_mem s j) /\ bs_mem (bs_or s t) j = bs_mem s j || bs_mem t j.
Proof. split; [exact (proj2 (bs_insert_spec s i) j)|exact (bs_or_spec s t j)]. Qed.
