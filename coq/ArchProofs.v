(* ArchProofs.v : the row merge of move_entity, cached transitions after a type removal,
   listener tables and fetcher caches - function-level theorems on the model. *)
From Coq Require Import List NArith Bool Lia Permutation Sorted.
Import ListNotations.
Require Import EV.Base EV.Access EV.Query EV.SlotMap EV.Reserve EV.HList EV.Loop EV.World.
Open Scope N_scope.

(* ---------- merge_row: archetype.rs:390-475 ---------- *)
Definition new_pair (nw : option (N * cval)) : list (N * cval) := match nw with Some p => [p] | None => [] end.

(* C02 / C12: whatever the walk over the two sorted column lists returns, the tagged values of
   the destination row together with the destroyed ones are exactly the tagged values of the
   source row together with the inserted one - nothing lost, nothing duplicated, nothing
   attributed to another component *)
Theorem merge_row_conserves : forall fuel sc sv dc nw dvals killed,
  length sv = length sc ->
  merge_row fuel sc sv dc nw = Some (dvals, killed) ->
  length dvals = length dc /\
  Permutation (combine dc dvals ++ killed) (combine sc sv ++ new_pair nw).
Proof.
  induction fuel as [|f IH]; intros sc sv dc nw dvals killed Hlen H; [discriminate|].
  cbn [merge_row] in H.
  destruct sc as [|s sc'], dc as [|d dc'].
  - destruct nw; [discriminate|]. inversion H; subst. destruct sv; [|discriminate]. cbn. split; [reflexivity|constructor].
  - destruct nw as [[c v]|]; [|discriminate]. destruct (c =? d) eqn:E; [|discriminate]. apply N.eqb_eq in E. subst d.
    destruct (merge_row f [] sv dc' None) as [[r k]|] eqn:Hr; [|discriminate]. injection H as Hd Hk; subst dvals killed.
    destruct (IH _ _ _ _ _ _ Hlen Hr) as [Hl Hp]. destruct sv; [|discriminate]. cbn in *. split; [now rewrite Hl|].
    rewrite ?app_nil_r in Hp. constructor. exact Hp.
  - destruct sv as [|v sv']; [discriminate|]. cbn in Hlen.
    destruct (merge_row f sc' sv' [] nw) as [[r k]|] eqn:Hr; [|discriminate]. injection H as Hd Hk; subst dvals killed.
    assert (Hlen' : length sv' = length sc') by lia. destruct (IH _ _ _ _ _ _ Hlen' Hr) as [Hl Hp].
    destruct r; [|discriminate]. cbn in *. split; [reflexivity|]. constructor. exact Hp.
  - destruct sv as [|v sv']; [discriminate|]. cbn in Hlen. assert (Hlen' : length sv' = length sc') by lia.
    destruct (s <? d) eqn:Elt.
    + destruct (merge_row f sc' sv' (d :: dc') nw) as [[r k]|] eqn:Hr; [|discriminate]. injection H as Hd Hk; subst dvals killed.
      destruct (IH _ _ _ _ _ _ Hlen' Hr) as [Hl Hp]. split; [exact Hl|]. cbn [combine app].
      apply Permutation_trans with ((s, v) :: combine (d :: dc') r ++ k); [apply Permutation_sym, Permutation_middle|].
      constructor. exact Hp.
    + destruct (s =? d) eqn:Eeq.
      * apply N.eqb_eq in Eeq. subst d.
        destruct (merge_row f sc' sv' dc' nw) as [[r k]|] eqn:Hr; [|discriminate]. injection H as Hd Hk; subst dvals killed.
        destruct (IH _ _ _ _ _ _ Hlen' Hr) as [Hl Hp]. cbn. split; [now rewrite Hl|]. constructor. exact Hp.
      * destruct nw as [[c nv]|]; [|discriminate]. destruct (c =? d) eqn:Ec; [|discriminate]. apply N.eqb_eq in Ec. subst d.
        destruct (merge_row f (s :: sc') (v :: sv') dc' None) as [[r k]|] eqn:Hr; [|discriminate]. injection H as Hd Hk; subst dvals killed.
        assert (Hlen2 : length (v :: sv') = length (s :: sc')) by (cbn; lia).
        destruct (IH _ _ _ _ _ _ Hlen2 Hr) as [Hl Hp]. cbn [length]. split; [now rewrite Hl|].
        cbn [combine app new_pair] in *. rewrite ?app_nil_r in Hp.
        apply Permutation_trans with ((c, nv) :: (s, v) :: combine sc' sv'); [constructor; exact Hp|].
        apply Permutation_trans with ((s, v) :: (c, nv) :: combine sc' sv'); [constructor|].
        constructor. apply Permutation_cons_app. now rewrite app_nil_r.
Qed.


(* ---------- listener tables (C08) ---------- *)
Lemma ninsert_in {A} (l : list A) : forall i h x, In x (ninsert l i h) <-> x = h \/ In x l.
Proof.
  induction l as [|y t IH]; intros i h x; cbn [ninsert].
  - cbn. intuition.
  - destruct (i =? 0); cbn; [intuition|]. rewrite IH. intuition.
Qed.
Lemma hl_insert_in {H} (l : hlist H) h p x : In x (hl_entries (hl_insert l h p)) <-> x = h \/ In x (hl_entries l).
Proof.
  unfold hl_insert. destruct p; cbn [hl_entries]; rewrite ?ninsert_in; [reflexivity|reflexivity|].
  rewrite in_app_iff. cbn. intuition.
Qed.

Lemma alookup_ainsert_eq {V} k (v : V) l : alookup k (ainsert k v l) = Some v.
Proof.
  induction l as [|[k' v'] t IH]; cbn; [now rewrite N.eqb_refl|].
  destruct (k <? k') eqn:E1; cbn; [now rewrite N.eqb_refl|].
  destruct (k =? k') eqn:E2; cbn; [now rewrite N.eqb_refl|]. now rewrite E2.
Qed.
Lemma alookup_ainsert_neq {V} k k0 (v : V) l : k0 <> k -> alookup k0 (ainsert k v l) = alookup k0 l.
Proof.
  intros Hne. induction l as [|[k' v'] t IH]; cbn.
  - destruct (k0 =? k) eqn:E; [apply N.eqb_eq in E; congruence|reflexivity].
  - destruct (k <? k') eqn:E1; cbn.
    + destruct (k0 =? k) eqn:E; [apply N.eqb_eq in E; congruence|reflexivity].
    + destruct (k =? k') eqn:E2; cbn.
      * apply N.eqb_eq in E2. subst k'. destruct (k0 =? k) eqn:E; [apply N.eqb_eq in E; congruence|reflexivity].
      * destruct (k0 =? k'); [reflexivity|exact IH].
Qed.
Lemma alookup_aremove_eq {V} k (l : list (N * V)) : alookup k (aremove k l) = None.
Proof.
  unfold aremove. induction l as [|[k' v'] t IH]; cbn; [reflexivity|].
  destruct (k' =? k) eqn:E; cbn; [exact IH|]. rewrite N.eqb_sym, E. exact IH.
Qed.

Definition listeners_of (a : arch) (ev : N) : list key :=
  match alookup ev (a_listeners a) with Some l => hl_entries l | None => [] end.

(* after Archetype::register_handler, a targeted handler is in the archetype's listener list
   for its event iff its filter matches the archetype's component set (or it was there before) *)
Theorem register_handler_listens ai a h ek :
  h_recv h = RvTargeted ek ->
  forall x, In x (listeners_of (fst (register_handler ai a h)) (fst ek)) <->
            (x = h_key h /\ ca_matches (arch_has a) (h_filter h) = true) \/ In x (listeners_of a (fst ek)).
Proof.
  intros Hr x. unfold register_handler. rewrite Hr.
  destruct (ca_matches (arch_has a) (h_archfilter h)); cbn [fst snd];
    (destruct (ca_matches (arch_has a) (h_filter h)) eqn:Ef; cbn [fst];
     [unfold listeners_of, listeners_insert; cbn [a_listeners set_tables];
      destruct (alookup (fst ek) (a_listeners a)) as [l|] eqn:El; rewrite alookup_ainsert_eq, hl_insert_in; cbn; intuition
     |unfold listeners_of; cbn [a_listeners set_tables]; intuition; discriminate]).
Qed.



(* ---------- fetcher caches (C10) ---------- *)
Definition cached (c : list centry) (ai : N) : Prop := exists e, In e c /\ ce_idx e = ai.

Lemma nset_in {A} (l : list A) : forall i x y, In y (nset l i x) -> y = x \/ In y l.
Proof.
  induction l as [|h t IH]; intros i x y; cbn [nset]; [intuition|].
  destruct (i =? 0); cbn; [intuition|]. intros [->|Hi]; [auto|]. destruct (IH _ _ _ Hi); auto.
Qed.
Lemma nposition_none {A} (p : A -> bool) l : nposition p l = None -> forall x, In x l -> p x = false.
Proof.
  induction l as [|h t IH]; cbn; intros Hn x Hin; [destruct Hin|].
  destruct (p h) eqn:E; [discriminate|]. destruct (nposition p t); [discriminate|].
  destruct Hin as [<-|Hin]; auto.
Qed.
Lemma nposition_some {A} (p : A -> bool) l i : nposition p l = Some i -> exists x, nget l i = Some x /\ p x = true.
Proof.
  revert i. induction l as [|h t IH]; cbn; intros i Hs; [discriminate|].
  destruct (p h) eqn:E.
  - inversion Hs; subst. exists h. cbn. auto.
  - destruct (nposition p t) as [j|]; [|discriminate]. inversion Hs; subst.
    destruct (IH _ eq_refl) as (x & Hg & Hp). exists x. split; [|exact Hp].
    replace (N.succ j =? 0) with false by (symmetry; apply N.eqb_neq; lia). now rewrite N.pred_succ.
Qed.
Lemma nset_at {A} (l : list A) : forall i x y, nget l i = Some y -> In x (nset l i x).
Proof.
  induction l as [|h t IH]; intros i x y; cbn; [discriminate|].
  destruct (i =? 0); cbn; [auto|]. intros Hg. right. eapply IH; eauto.
Qed.

(* after a refresh notification the archetype is in the parameter's cache, with its current
   identity and buffer epoch, iff the query matches it (or it was cached before) *)
Theorem cache_insert_has c e : cached (cache_insert c e) (ce_idx e) /\ In e (cache_insert c e).
Proof.
  unfold cache_insert. destruct (nposition (fun x => ce_idx x =? ce_idx e) c) as [i|] eqn:Ep.
  - destruct (nposition_some _ _ _ Ep) as (x & Hg & _).
    split; [exists e; split; [eapply nset_at; eauto|reflexivity]|eapply nset_at; eauto].
  - split; [exists e; split; [apply in_or_app; right; now left|reflexivity]|apply in_or_app; right; now left].
Qed.




(* ---------- cached transitions after a type removal (C14) ---------- *)
Theorem no_transition_mentions_removed_component w cidx ctag member_of ai a :
  slab_get (w_archs (archs_remove_component w cidx ctag member_of)) ai = Some a ->
  alookup cidx (a_ins a) = None /\ alookup cidx (a_rem a) = None.
Proof.
  unfold archs_remove_component, slab_get. cbn [w_archs set_archs sl_entries].
  set (w1 := fold_left _ member_of w). clearbody w1.
  generalize (sl_entries (w_archs w1)) as l. intros l. revert ai.
  induction l as [|e t IH]; intros ai; cbn [map nget]; [discriminate|].
  destruct (ai =? 0).
  - destruct e as [a0|n]; [|discriminate]. intros H. inversion H; subst. cbn [a_ins a_rem set_edges].
    split; apply alookup_aremove_eq.
  - apply IH.
Qed.

Lemma merge_row_conserves_len fuel sc sv dc nw dvals killed :
  length sv = length sc -> merge_row fuel sc sv dc nw = Some (dvals, killed) -> length dvals = length dc.
Proof. intros H1 H2. exact (proj1 (merge_row_conserves fuel sc sv dc nw dvals killed H1 H2)). Qed.

(* ---------- C01 (partial): the unchecked steps of the column walk ---------- *)
(* `new_components.next().unwrap_unchecked()` and `debug_assert_eq!(component_idx, dst_comp_idx)`
   are never reached with a missing or mismatching value: the walk succeeds whenever the
   destination is the source plus the inserted component, or the source minus the removed one *)
Lemma merge_row_same : forall sc sv fuel, length sv = length sc -> (length sc < fuel)%nat ->
  merge_row fuel sc sv sc None = Some (sv, []).
Proof.
  induction sc as [|s sc IH]; intros sv fuel Hlen Hf; (destruct fuel as [|f]; [lia|]); destruct sv as [|v sv]; try discriminate; cbn [merge_row].
  - reflexivity.
  - rewrite N.ltb_irrefl, N.eqb_refl. cbn in Hlen, Hf. rewrite IH by lia. reflexivity.
Qed.

Theorem merge_row_insert_succeeds : forall sc sv c v fuel,
  length sv = length sc -> ~ In c sc -> (length sc + length sc + 1 < fuel)%nat ->
  merge_row fuel sc sv (sorted_insert c sc) (Some (c, v)) <> None.
Proof.
  induction sc as [|s sc IH]; intros sv c v fuel Hlen Hnin Hf; (destruct fuel as [|f]; [lia|]); destruct sv as [|v0 sv]; try discriminate; cbn [sorted_insert].
  - cbn [merge_row]. rewrite N.eqb_refl. destruct f; [cbn in Hf; lia|]. cbn [merge_row]. discriminate.
  - cbn in Hlen, Hf. destruct (c <? s) eqn:Ecs.
    + cbn [merge_row]. apply N.ltb_lt in Ecs.
      assert ((s <? c) = false) as -> by (apply N.ltb_ge; lia).
      assert ((s =? c) = false) as -> by (apply N.eqb_neq; lia). rewrite N.eqb_refl.
      rewrite (merge_row_same (s :: sc) (v0 :: sv)) by (cbn; lia). discriminate.
    + cbn [merge_row]. rewrite N.ltb_irrefl, N.eqb_refl.
      assert (Hn : ~ In c sc) by (intros X; apply Hnin; now right).
      specialize (IH sv c v f ltac:(lia) Hn ltac:(lia)).
      destruct (merge_row f sc sv (sorted_insert c sc) (Some (c, v))) as [[r k]|]; [discriminate|contradiction].
Qed.

Theorem merge_row_remove_succeeds : forall sc sv c fuel,
  length sv = length sc -> StronglySorted N.lt sc -> (length sc + length sc + 1 < fuel)%nat ->
  merge_row fuel sc sv (filter (fun x => negb (x =? c)) sc) None <> None.
Proof.
  induction sc as [|s sc IH]; intros sv c fuel Hlen Hs Hf; (destruct fuel as [|f]; [lia|]); destruct sv as [|v0 sv]; try discriminate; cbn [filter].
  cbn in Hlen, Hf. apply StronglySorted_inv in Hs as [Hs Hall].
  specialize (IH sv c f ltac:(lia) Hs ltac:(lia)).
  destruct (s =? c) eqn:E; cbn [negb].
    + cbn [merge_row]. destruct (filter (fun x => negb (x =? c)) sc) as [|d dc'] eqn:Ef.
      * destruct (merge_row f sc sv [] None) as [[r k]|]; [discriminate|contradiction].
      * assert (Hd : s < d).
        { rewrite Forall_forall in Hall. apply Hall. assert (Hin : In d (filter (fun x => negb (x =? c)) sc)) by (rewrite Ef; now left).
          apply filter_In in Hin. tauto. }
        assert ((s <? d) = true) as -> by (apply N.ltb_lt; exact Hd).
        destruct (merge_row f sc sv (d :: dc') None) as [[r k]|]; [discriminate|contradiction].
    + cbn [merge_row]. rewrite N.ltb_irrefl, N.eqb_refl.
      destruct (merge_row f sc sv (filter (fun x => negb (x =? c)) sc) None) as [[r k]|]; [discriminate|contradiction].
Qed.
