(* DeadIds.v : ids of removed components, handlers and events are never valid again, whatever happens afterwards (C16, C15).
   Dead m k (SlotMap.v): the slot of k exists and its generation is beyond k's (or the slot is retired).
   The four registries of a world only ever change by slot-map insertion, slot-map removal and in-place updates of
   values; each keeps Dead.  So a key that is dead in one registry stays dead through every call, every
   propagation and every handler behaviour - and a dead key is never valid and is never handed out again. *)
From Coq Require Import List NArith Bool Lia Sorted.
Import ListNotations.
Require Import EV.Base EV.ListN EV.Access EV.Query EV.SlotMap EV.Reserve EV.HList EV.Loop EV.World EV.SlotMapGet
  EV.AccessProofs EV.ArchProofs EV.QueryProofs EV.WorldFrame EV.Store EV.Graph EV.Effects EV.Reach EV.RemoveComp EV.Member EV.Listen
  EV.ReserveW EV.Order EV.Fetch EV.NoUB EV.Sender EV.Users.
Open Scope N_scope.

Definition gens {V} (m : smap V) : list N := map (@gen V) (slots m).
Lemma gens_sget {V W} (m : smap V) (m' : smap W) i : gens m' = gens m -> option_map (@gen W) (sget (slots m') i) = option_map (@gen V) (sget (slots m) i).
Proof. unfold gens. intros H. rewrite !sget_nth, <- !nth_error_map. now rewrite H. Qed.
Lemma Dead_gens {V} (m m' : smap V) k : gens m' = gens m -> Dead m k -> Dead m' k.
Proof.
  intros H (s & Hs & Hd). pose proof (gens_sget m m' (fst k) H) as E. rewrite Hs in E. cbn in E.
  destruct (sget (slots m') (fst k)) as [s'|] eqn:Es'; [|discriminate]. cbn in E. inversion E as [Eg]. exists s'. split; [exact Es'|]. now rewrite Eg.
Qed.
Lemma valid_key_odd {V} (m : smap V) k v : SmInv m -> sm_get k m = Some v -> N.odd (snd k) = true.
Proof.
  intros (_ & Hok & _) H. unfold sm_get in H. destruct (sget (slots m) (fst k)) as [s|] eqn:Es; [|discriminate].
  destruct (gen s =? snd k) eqn:E; [|discriminate]. apply N.eqb_eq in E. destruct (Hok _ _ Es) as [_ Hiff]. rewrite <- E. apply Hiff. congruence.
Qed.
Definition odead {V} (m : smap V) (ko : option key) : Prop := match ko with Some k => Dead m k | None => True end.
Lemma odead_gens {V} (m m' : smap V) ko : gens m' = gens m -> odead m ko -> odead m' ko.
Proof. destruct ko; [apply Dead_gens|auto]. Qed.
Lemma odead_insert {V} f (m : smap V) k0 m' ko : SmInv m -> odead m ko -> insert_with f m = Some (k0, m') -> odead m' ko.
Proof. destruct ko; [apply dead_insert|auto]. Qed.
Lemma odead_remove {V} (m : smap V) k1 v m' ko : SmInv m -> odead m ko -> sm_remove k1 m = Some (v, m') -> odead m' ko.
Proof. destruct ko; [apply dead_remove|auto]. Qed.

Lemma gens_sview {V W} (f : V -> W) (m m' : smap V) : sview f m' = sview f m -> gens m' = gens m.
Proof.
  unfold sview, gens. intros H. injection H as Hm _. apply (f_equal (map (fun x : N * N * option W => fst (fst x)))) in Hm.
  rewrite !map_map in Hm. exact Hm.
Qed.
Lemma gens_creg w w' : creg w' = creg w -> gens (w_comps w') = gens (w_comps w).
Proof.
  unfold creg, gens. intros H. injection H as Hm _ _. apply (f_equal (map (fun x : N * N * option _ => fst (fst x)))) in Hm.
  rewrite !map_map in Hm. exact Hm.
Qed.
Lemma gens_hv3 w w' : hv3 w' = hv3 w -> gens (w_hs w') = gens (w_hs w).
Proof. apply gens_sview. Qed.
Lemma gens_upd_by_index {V} (m : smap V) i f : gens (upd_by_index m i f) = gens m.
Proof. apply (gens_sview (fun _ : V => tt)). now apply sview_upd_index. Qed.

Lemma zi_of {A} (r : res A) post a w1 : ZOK r post -> r = ROk a w1 -> ZI w1 /\ post a w1.
Proof. intros (Z & _ & P) ->. split; [exact Z|exact P]. Qed.


Lemma gens_fold_upd (skip : N -> bool) (f : cinfo -> cinfo) (cs : list N) : forall m : smap cinfo, gens (fold_left (fun (m : smap cinfo) (c : N) => if skip c then m else upd_by_index m c f) cs m) = gens m.
Proof. induction cs as [|c t IH]; intros m; cbn [fold_left]; [reflexivity|]. rewrite IH. destruct (skip c); [reflexivity|apply gens_upd_by_index]. Qed.

Lemma gens4_rc_step cidx ctag w ai :
  gens (w_comps (rc_step cidx ctag w ai)) = gens (w_comps w) /\ gens (w_hs (rc_step cidx ctag w ai)) = gens (w_hs w) /\
  w_gev (rc_step cidx ctag w ai) = w_gev w /\ w_tev (rc_step cidx ctag w ai) = w_tev w.
Proof.
  pose proof (registries_rc_step cidx ctag w ai) as Hr. unfold registries in Hr. split; [|split; [apply gens_hv3, hv3_rc_step|split; congruence]].
  unfold rc_step. destruct (slab_get (w_archs w) ai) as [a|]; [|reflexivity]. cbn zeta.
  set (G := fun w0 : world => gens (w_comps w0)).
  match goal with |- gens (w_comps ?X) = _ => change (G X = G w) end.
  rewrite (fold_left_pres G); [rewrite (fold_left_pres G)|].
  - unfold G. cbn [w_comps set_aidx set_comps]. rewrite (gens_fold_upd (fun c => c =? cidx)). reflexivity.
  - intros w' [e vals]. apply (fold_left_pres G). intros w'' [c v]. unfold drop_cval. now destruct (ctag_has_drop _).
  - intros w' [e vals]. now destruct (sm_remove e (w_ents w')) as [[? ?]|].
Qed.

Section Dead.
Variables kc kh kg kt : option key.
Definition DD (w : world) : Prop := odead (w_comps w) kc /\ odead (w_hs w) kh /\ odead (w_gev w) kg /\ odead (w_tev w) kt.

(* a step that leaves the generations of all four registries alone *)
Lemma DD_gens w w' : gens (w_comps w') = gens (w_comps w) -> gens (w_hs w') = gens (w_hs w) ->
  gens (w_gev w') = gens (w_gev w) -> gens (w_tev w') = gens (w_tev w) -> DD w -> DD w'.
Proof. intros A B C D (H1 & H2 & H3 & H4). repeat split; eapply odead_gens; eauto. Qed.

Lemma ZI_sminv w : ZI w -> SmInv (w_comps w) /\ SmInv (w_tev w) /\ SmInv (w_gev w) /\ SmInv (w_hs w).
Proof.
  intros [[HD _] _]. destruct (DI_parts _ HD) as (HF & ((S & _) & _) & _ & _). destruct (FInv_parts _ HF) as (_ & _ & (S1 & S2 & _)).
  destruct HD as [[[_ X] _] _]. auto.
Qed.

Variable beh : hinfo -> logent -> N -> script.

Lemma rbind_DD {A B} (r : res A) (f : A -> world -> res B) :
  DD (res_world r) -> (forall a w1, r = ROk a w1 -> DD w1 -> DD (res_world (f a w1))) -> DD (res_world (rbind r f)).
Proof. intros H Hf. destruct r as [a w1|e w1]; cbn [rbind res_world] in *; [now apply Hf|exact H]. Qed.

Lemma flush_DD q w : DD w -> DD (res_world (flush beh q w)).
Proof.
  apply DD_gens.
  - apply gens_creg, creg_flush.
  - apply gens_hv3, hv3_flush.
  - pose proof (registries_flush beh q w) as H. unfold registries in H. now replace (w_gev (res_world (flush beh q w))) with (w_gev w) by congruence.
  - pose proof (registries_flush beh q w) as H. unfold registries in H. now replace (w_tev (res_world (flush beh q w))) with (w_tev w) by congruence.
Qed.

Ltac ddsplit H := destruct H as (?Hc & ?Hh & ?Hg & ?Ht).

Lemma DD_ev_drop w t tag ev : DD w -> DD (ev_drop w t tag ev).
Proof. apply DD_gens; unfold ev_drop, drop_cval, log_drop; repeat break_match; reflexivity. Qed.

Lemma gev_DD fuel : forall tag w, ZI w -> DD w ->
  DD (res_world (add_global_event beh fuel tag w)) /\ forall ev, DD (res_world (send_global beh fuel tag ev w)).
Proof.
  induction fuel as [|f IH]; intros tag w HZ HD; [split; [|intros ev]; exact HD|].
  assert (Hadd : DD (res_world (add_global_event beh (S f) tag w))).
  { rewrite add_global_event_S. destruct (alookup tag (w_gby w)); [exact HD|].
    destruct (insert_with (fun _ => mkE tag (gkind tag)) (w_gev w)) as [[k m]|] eqn:Ei; [|exact HD]. cbn zeta.
    destruct (gev_entry_ZI w tag k m HZ Ei) as (HZ2 & _). cbn zeta in HZ2. set (w2 := set_glists _ _) in *.
    assert (HD2 : DD w2).
    { destruct HD as (H1 & H2 & H3 & H4). split; [exact H1|split; [exact H2|split; [|exact H4]]].
      unfold w2. cbn [w_gev set_glists set_hreg set_gev]. eapply odead_insert; [exact (proj1 (proj2 (proj2 (ZI_sminv w HZ))))|exact H3|exact Ei]. }
    pose proof (proj2 (IH G_ADDGE w2 HZ2 HD2) (mkEv 0 0 k)) as Hs.
    destruct (send_global beh f G_ADDGE (mkEv 0 0 k) w2) as [[] w3|e w3]; cbn [rbind res_world] in *; exact Hs. }
  split; [exact Hadd|]. intros ev. rewrite send_global_S. destruct (IH tag w HZ HD) as [Ka _]. destruct (gev_ZOK beh f tag w HZ) as [(Z1 & N1 & P1) _].
  destruct (add_global_event beh f tag w) as [k w1|e w1]; cbn [res_world] in *.
  - apply flush_DD. destruct (10 <? tag); exact Ka.
  - now apply DD_ev_drop.
Qed.
Lemma send_global_DD tag ev w : ZI w -> DD w -> DD (res_world (send_global beh RFUEL tag ev w)).
Proof. intros HZ HD. exact (proj2 (gev_DD RFUEL tag w HZ HD) ev). Qed.
Lemma add_global_event_DD tag w : ZI w -> DD w -> DD (res_world (add_global_event beh RFUEL tag w)).
Proof. intros HZ HD. exact (proj1 (gev_DD RFUEL tag w HZ HD)). Qed.

Lemma add_component_DD tag w : ZI w -> DD w -> DD (res_world (add_component beh tag w)).
Proof.
  intros HZ HD. unfold add_component. destruct (alookup tag (w_cby w)) as [k0|] eqn:El; [exact HD|].
  destruct (insert_with (fun _ => mkC tag [] [] []) (w_comps w)) as [[k m]|] eqn:Ei; [|exact HD].
  assert (HZ1 : ZI (set_comps w m (ainsert tag k (w_cby w)))) by (apply (ZI_intro _ w); [apply add_component_entry_DI; [exact (proj1 (proj1 HZ))|exact El|exact Ei]|reflexivity|reflexivity|exact HZ]).
  assert (HD1 : DD (set_comps w m (ainsert tag k (w_cby w)))).
  { destruct HD as (H1 & H2 & H3 & H4). split; [|split; [exact H2|split; [exact H3|exact H4]]].
    cbn [w_comps set_comps]. eapply odead_insert; [exact (proj1 (ZI_sminv w HZ))|exact H1|exact Ei]. }
  apply rbind_DD; [now apply send_global_DD|]. intros [] w2 _ HD2. exact HD2.
Qed.

Lemma tev_stage1_DD tag w : ZI w -> DD w -> DD (res_world (tev_stage1 beh tag w)).
Proof.
  intros HZ HD. unfold tev_stage1.
  destruct ((20 <=? tag) && (tag <? 40)); [apply rbind_DD; [now apply add_component_DD|intros ? ? _ X; exact X]|].
  destruct ((40 <=? tag) && (tag <? 60)); [apply rbind_DD; [now apply add_component_DD|intros ? ? _ X; exact X]|].
  destruct (tag =? T_DESPAWN); exact HD.
Qed.

Lemma add_targeted_event_DD tag w : ZI w -> DD w -> DD (res_world (add_targeted_event beh tag w)).
Proof.
  intros HZ HD. rewrite add_targeted_event_unfold. pose proof (tev_stage1_ZOK beh tag w HZ) as (Z0 & N0 & P0).
  destruct (tev_stage1_FInv beh tag w (proj1 (DI_parts _ (proj1 (proj1 HZ))))) as [_ Hl].
  apply rbind_DD; [now apply tev_stage1_DD|]. intros kind w0 E HD0. rewrite E in *. cbn [res_world] in *.
  destruct (alookup tag (w_tby w0)) as [k0|]; [exact HD0|].
  destruct (insert_with (fun _ => mkE tag kind) (w_tev w0)) as [[k m]|] eqn:Ei; [|exact HD0].
  destruct (tev_entry_ZI w0 tag kind k m Z0 Hl Ei) as (HZ1 & _ & _).
  change (match kind with | KInsert c => _ | KRemove c => _ | _ => set_tev w0 m (ainsert tag k (w_tby w0)) end) with (tev_entry_world w0 tag kind k m).
  assert (HD1 : DD (tev_entry_world w0 tag kind k m)).
  { destruct HD0 as (H1 & H2 & H3 & H4).
    assert (Et : w_tev (tev_entry_world w0 tag kind k m) = m) by (unfold tev_entry_world; destruct kind; reflexivity).
    assert (Eg : w_gev (tev_entry_world w0 tag kind k m) = w_gev w0 /\ w_hs (tev_entry_world w0 tag kind k m) = w_hs w0) by (unfold tev_entry_world; destruct kind; split; reflexivity).
    split; [|split; [rewrite (proj2 Eg); exact H2|split; [rewrite (proj1 Eg); exact H3|]]].
    - eapply odead_gens; [|exact H1]. unfold tev_entry_world. destruct kind; try reflexivity; cbn [w_comps set_comps set_tev]; apply gens_upd_by_index.
    - rewrite Et. eapply odead_insert; [exact (proj1 (proj2 (ZI_sminv w0 Z0)))|exact H4|exact Ei]. }
  apply rbind_DD; [now apply send_global_DD|]. intros [] w2 _ X. exact X.
Qed.

Lemma send_to_DD tag target ev w : ZI w -> DD w -> DD (res_world (send_to beh tag target ev w)).
Proof.
  intros HZ HD. unfold send_to. pose proof (add_targeted_event_DD tag w HZ HD) as Ka.
  destruct (add_targeted_event beh tag w) as [k w1|e w1]; cbn [res_world] in *; [now apply flush_DD|now apply DD_ev_drop].
Qed.

Lemma resolve_query_DD q : forall w, ZI w -> DD w -> DD (res_world (resolve_query beh q w)).
Proof.
  induction q as [c|c|qs IH|q IH|l r IHl IHr|l r IHl IHr|q IH|q IH|q IH|] using query_ind'; intros w HZ HD; cbn [resolve_query];
    try (apply rbind_DD; [now apply add_component_DD|intros ? w1 _ X; exact X]);
    try (apply rbind_DD; [now apply IH|intros ? w1 _ X; exact X]);
    try (apply rbind_DD; [now apply IHl|intros a w1 E HD1; destruct (zi_of _ _ _ _ (resolve_query_ZOK beh l w HZ) E) as [HZ1 _];
         apply rbind_DD; [now apply IHr|intros ? w2 _ X; exact X]]);
    try exact HD.
  apply rbind_DD; [|intros ? w1 _ X; exact X].
  revert w HZ HD. induction IH as [|x t Hx _ IHt]; intros w HZ HD; [exact HD|].
  apply rbind_DD; [now apply Hx|]. intros x' w1 E HD1. destruct (zi_of _ _ _ _ (resolve_query_ZOK beh x w HZ) E) as [HZ1 _].
  apply rbind_DD; [now apply IHt|]. intros t' w2 _ X. exact X.
Qed.

Lemma register_set_DD evs : forall w, ZI w -> DD w -> DD (res_world (register_set beh evs w)).
Proof.
  induction evs as [|[t tag] rest IH]; intros w HZ HD; cbn [register_set]; [exact HD|].
  apply rbind_DD; [destruct t; [now apply add_targeted_event_DD|now apply add_global_event_DD]|].
  intros k w1 E HD1. assert (HZ1 : ZI w1).
  { destruct t; [exact (proj1 (zi_of _ _ _ _ (add_targeted_event_ZOK beh tag w HZ) E))|exact (proj1 (zi_of _ _ _ _ (add_global_event_ZOK beh tag w HZ) E))]. }
  apply rbind_DD; [now apply IH|]. intros r w2 _ X. exact X.
Qed.

Lemma init_param_DD p c w : ZI w -> DD w -> DD (res_world (init_param beh p c w)).
Proof.
  intros HZ HD. destruct p as [tag m|tag m q|k q|evs]; cbn [init_param].
  - apply rbind_DD; [now apply add_global_event_DD|]. intros k w1 _ X. exact X.
  - apply rbind_DD; [now apply add_targeted_event_DD|]. intros k w1 E HD1. destruct (zi_of _ _ _ _ (add_targeted_event_ZOK beh tag w HZ) E) as [HZ1 _].
    apply rbind_DD; [now apply resolve_query_DD|]. intros q' w2 _ X. exact X.
  - apply rbind_DD; [now apply resolve_query_DD|]. intros q' w1 _ X. exact X.
  - apply rbind_DD; [now apply register_set_DD|]. intros r w1 _ X. exact X.
Qed.

Lemma init_params_DD ps : forall c w, ZI w -> DD w -> CfInv3 c w -> CfR c w -> DD (res_world (init_params beh ps c w)).
Proof.
  induction ps as [|p t IH]; intros c w HZ HD HC HR; cbn [init_params]; [exact HD|].
  apply rbind_DD; [now apply init_param_DD|]. intros c1 w1 E HD1.
  destruct (zi_of _ _ _ _ (init_param_ZOK beh p c w HZ HC HR) E) as [HZ1 (_ & HC1 & HR1)]. now apply IH.
Qed.

Lemma add_handler_DD sh w : ZI w -> DD w -> DD (res_world (add_handler beh sh w)).
Proof.
  intros HZ HD. unfold add_handler.
  destruct (match sh_tid sh with Some t => alookup t (w_hby w) | None => None end); [exact HD|].
  pose proof (init_params_CfInv beh (sh_params sh) cfg0 w CfInv_cfg0) as HC. pose proof (init_params_CfInv2 beh (sh_params sh) cfg0 w CfInv2_cfg0) as HC2.
  apply rbind_DD; [apply init_params_DD; [exact HZ|exact HD|apply CfInv3_cfg0|apply CfR_cfg0]|]. intros c w1 E HD1.
  destruct (zi_of _ _ _ _ (init_params_ZOK beh (sh_params sh) cfg0 w HZ (CfInv3_cfg0 w) (CfR_cfg0 w)) E) as [Z1 (_ & HC3 & HCR)].
  rewrite E in HC, HC2.
  destruct (cf_recv c) as [|rv|] eqn:Erv; try exact HD1. destruct (cf_access c) as [acc|]; [|exact HD1].
  destruct (handler_conflicts (cf_cas c)); [|exact HD1]. cbn zeta.
  change (insert_with _ (w_hs w1)) with (insert_with (new_hinfo w1 sh c rv acc) (w_hs w1)).
  destruct (insert_with (new_hinfo w1 sh c rv acc) (w_hs w1)) as [[k hs]|] eqn:Ei; [|exact HD1].
  match goal with |- context [archs_register_handler ?w2 k] => change (archs_register_handler w2 k) with (new_hworld w1 sh rv k hs) end.
  pose proof (add_handler_entry_ZI w1 sh c rv acc k hs Z1 HC HC2 HC3 HCR Erv Ei) as HZ3.
  assert (HD3 : DD (new_hworld w1 sh rv k hs)).
  { unfold new_hworld. match goal with |- DD (archs_register_handler ?w2 k) => set (wa := w2) end.
    assert (HDa : DD wa).
    { destruct HD1 as (H1 & H2 & H3 & H4). split; [exact H1|split; [|split; [exact H3|exact H4]]].
      unfold wa. cbn [w_hs set_hreg]. eapply odead_insert; [exact (proj2 (proj2 (proj2 (ZI_sminv w1 Z1))))|exact H2|exact Ei]. }
    revert HDa. apply DD_gens.
    - pose proof (kreg_archs_register_handler wa k) as Hk. unfold kreg in Hk. now replace (w_comps (archs_register_handler wa k)) with (w_comps wa) by congruence.
    - apply gens_hv3, hv3_archs_register_handler.
    - pose proof (registries_archs_register_handler wa k) as Hr. unfold registries in Hr. now replace (w_gev (archs_register_handler wa k)) with (w_gev wa) by congruence.
    - pose proof (registries_archs_register_handler wa k) as Hr. unfold registries in Hr. now replace (w_tev (archs_register_handler wa k)) with (w_tev wa) by congruence. }
  apply rbind_DD; [now apply send_global_DD|]. intros [] w4 _ X. exact X.
Qed.

Lemma remove_handler_DD k w : ZI w -> DD w -> DD (res_world (remove_handler beh k w)).
Proof.
  intros HZ HD. unfold remove_handler. destruct (sm_get k (w_hs w)); [|exact HD].
  apply rbind_DD; [now apply send_global_DD|]. intros [] w1 E HD1. destruct (zi_of _ _ _ _ (send_global_ZOK beh G_RMH (mkEv 0 0 k) w HZ) E) as [Z1 _].
  unfold handlers_remove. destruct (sm_remove k (w_hs w1)) as [[h1 hs]|] eqn:Er; [|exact HD1]. cbn [res_world].
  destruct HD1 as (H1 & H2 & H3 & H4). split; [exact H1|split; [|split; [exact H3|exact H4]]].
  unfold archs_remove_handler. cbn [w_hs set_archs set_hreg]. eapply odead_remove; [exact (proj2 (proj2 (proj2 (ZI_sminv w1 Z1))))|exact H2|exact Er].
Qed.
Lemma remove_handlers_DD ks : forall w, ZI w -> DD w -> DD (res_world (remove_handlers beh ks w)).
Proof.
  induction ks as [|k t IH]; intros w HZ HD; cbn [remove_handlers]; [exact HD|].
  apply rbind_DD; [now apply remove_handler_DD|]. intros b w1 E HD1. apply IH; [exact (proj1 (zi_of _ _ _ _ (remove_handler_ZOK beh k w HZ) E))|exact HD1].
Qed.

Lemma remove_global_event_DD k w : ZI w -> DD w -> DD (res_world (remove_global_event beh k w)).
Proof.
  intros HZ HD. unfold remove_global_event. destruct (sm_get k (w_gev w)); [|exact HD].
  apply rbind_DD; [now apply send_global_DD|]. intros [] w1 E1 HD1. destruct (zi_of _ _ _ _ (send_global_ZOK beh G_RMGE (mkEv 0 0 k) w HZ) E1) as [Z1 _].
  apply rbind_DD; [now apply remove_handlers_DD|]. intros [] w2 E2 HD2.
  match type of E2 with remove_handlers beh ?l w1 = _ => destruct (zi_of _ _ _ _ (remove_handlers_ZOK beh l w1 Z1) E2) as [Z2 _] end.
  destruct (sm_remove k (w_gev w2)) as [[info m]|] eqn:Er; [|exact HD2]. cbn [res_world].
  destruct HD2 as (H1 & H2 & H3 & H4). split; [exact H1|split; [exact H2|split; [|exact H4]]].
  cbn [w_gev set_gev]. eapply odead_remove; [exact (proj1 (proj2 (proj2 (ZI_sminv w2 Z2))))|exact H3|exact Er].
Qed.
Lemma remove_targeted_event_DD k w : ZI w -> DD w -> DD (res_world (remove_targeted_event beh k w)).
Proof.
  intros HZ HD. unfold remove_targeted_event. destruct (sm_get k (w_tev w)); [|exact HD].
  apply rbind_DD; [now apply send_global_DD|]. intros [] w1 E1 HD1. destruct (zi_of _ _ _ _ (send_global_ZOK beh G_RMTE (mkEv 0 0 k) w HZ) E1) as [Z1 _].
  apply rbind_DD; [now apply remove_handlers_DD|]. intros [] w2 E2 HD2.
  match type of E2 with remove_handlers beh ?l w1 = _ => destruct (zi_of _ _ _ _ (remove_handlers_ZOK beh l w1 Z1) E2) as [Z2 _] end.
  destruct (sm_remove k (w_tev w2)) as [[info m]|] eqn:Er; [|exact HD2]. cbn [res_world].
  destruct HD2 as (H1 & H2 & H3 & H4).
  assert (Ht' : odead m kt) by (eapply odead_remove; [exact (proj1 (proj2 (ZI_sminv w2 Z2)))|exact H4|exact Er]).
  destruct (e_kind info); (split; [|split; [exact H2|split; [exact H3|exact Ht']]]); try exact H1;
    cbn [w_comps set_comps set_tev]; (eapply odead_gens; [apply gens_upd_by_index|exact H1]).
Qed.
Lemma remove_tevents_DD ks : forall w, ZI w -> DD w -> DD (res_world (remove_tevents beh ks w)).
Proof.
  induction ks as [|k t IH]; intros w HZ HD; cbn [remove_tevents]; [exact HD|].
  apply rbind_DD; [now apply remove_targeted_event_DD|]. intros b w1 E HD1. apply IH; [exact (proj1 (zi_of _ _ _ _ (remove_targeted_event_ZOK beh k w HZ) E))|exact HD1].
Qed.

Lemma gens4_archs_remove_component cidx ctag w l :
  gens (w_comps (archs_remove_component w cidx ctag l)) = gens (w_comps w) /\ gens (w_hs (archs_remove_component w cidx ctag l)) = gens (w_hs w) /\
  w_gev (archs_remove_component w cidx ctag l) = w_gev w /\ w_tev (archs_remove_component w cidx ctag l) = w_tev w.
Proof.
  rewrite archs_remove_component_unfold.
  set (Q := fun w0 : world => (gens (w_comps w0), gens (w_hs w0), w_gev w0, w_tev w0)).
  assert (H : Q (strip cidx (fold_left (rc_step cidx ctag) l w)) = Q w).
  { change (Q (strip cidx (fold_left (rc_step cidx ctag) l w))) with (Q (fold_left (rc_step cidx ctag) l w)).
    apply (fold_left_pres Q). intros w0 ai. destruct (gens4_rc_step cidx ctag w0 ai) as (A & B & C & D). unfold Q. congruence. }
  unfold Q in H. repeat split; congruence.
Qed.

Lemma remove_component_DD k w : ZI w -> DD w -> DD (res_world (remove_component beh k w)).
Proof.
  intros HZ HD. unfold remove_component. destruct (sm_get k (w_comps w)); [|exact HD].
  apply rbind_DD; [now apply send_global_DD|]. intros [] w1 E1 HD1. destruct (zi_of _ _ _ _ (send_global_ZOK beh G_RMC (mkEv 0 0 k) w HZ) E1) as [Z1 _].
  apply rbind_DD; [now apply add_targeted_event_DD|]. intros dk w2 E2 HD2. destruct (zi_of _ _ _ _ (add_targeted_event_ZOK beh T_DESPAWN w1 Z1) E2) as [Z2 (_ & Hdk & _)].
  cbn zeta. set (q := flat_map _ (slab_iter (w_archs w2))).
  assert (HQ : forall x, In x q -> item_ok w2 x).
  { intros x Hx. unfold q in Hx. apply in_flat_map in Hx as ([ai a] & _ & Hx). destruct (arch_has a (fst k)); [|destruct Hx].
    apply in_map_iff in Hx as ([e vals] & <- & _). exact Hdk. }
  apply rbind_DD; [now apply flush_DD|]. intros [] w3 E3 HD3. destruct (zi_of _ _ _ _ (flush_ZOK beh q w2 Z2 HQ) E3) as [Z3 _].
  apply rbind_DD; [now apply remove_handlers_DD|]. intros [] w4 E4 HD4.
  match type of E4 with remove_handlers beh ?l w3 = _ => destruct (zi_of _ _ _ _ (remove_handlers_ZOK beh l w3 Z3) E4) as [Z4 _] end.
  destruct (sm_get k (w_comps w4)) as [ci|]; [|exact HD4].
  apply rbind_DD; [now apply remove_tevents_DD|]. intros [] w5 E5 HD5.
  match type of E5 with remove_tevents beh ?l w4 = _ => destruct (zi_of _ _ _ _ (remove_tevents_ZOK beh l w4 Z4) E5) as [Z5 _] end.
  destruct (sm_remove k (w_comps w5)) as [[ci' m]|] eqn:Er; [|exact HD5]. cbn [res_world]. unfold refresh_cursor.
  set (w6 := set_comps w5 m (aremove (c_tag ci') (w_cby w5))).
  assert (HD6 : DD w6).
  { destruct HD5 as (H1 & H2 & H3 & H4). split; [|split; [exact H2|split; [exact H3|exact H4]]].
    unfold w6. cbn [w_comps set_comps]. eapply odead_remove; [exact (proj1 (ZI_sminv w5 Z5))|exact H1|exact Er]. }
  destruct (gens4_archs_remove_component (fst k) (c_tag ci') w6 (c_member_of ci')) as (A & B & C & D).
  revert HD6. apply DD_gens; cbn [w_comps w_hs w_gev w_tev set_res]; congruence.
Qed.

Lemma op_spawn_DD w : ZI w -> DD w -> DD (res_world (op_spawn beh w)).
Proof.
  intros HZ HD. unfold op_spawn.
  assert (Hres : forall id w1, reserve w = ROk id w1 -> ZI w1 /\ DD w1).
  { unfold reserve. intros id w1. destruct (nki_next (w_rcur w) (w_ents w)) as [[[k|] i']|]; intros H; inversion H; subst. split; [exact HZ|exact HD]. }
  destruct (reserve w) as [id w1|f w1] eqn:Er; cbn [rbind].
  2:{ unfold reserve in Er. destruct (nki_next (w_rcur w) (w_ents w)) as [[[k|] i']|]; inversion Er; subst; exact HD. }
  destruct (Hres id w1 eq_refl) as (HZ1 & HD1).
  apply rbind_DD; [now apply send_global_DD|]. intros [] w2 _ X. exact X.
Qed.
Lemma op_insert_DD e ktag w : ZI w -> DD w -> DD (res_world (op_insert beh e ktag w)).
Proof.
  intros HZ HD. unfold op_insert. destruct (new_cval w ktag) as [v w1] eqn:E.
  assert (Hw : w1 = snd (new_cval w ktag)) by now rewrite E.
  assert (HZ1 : ZI w1) by (subst w1; unfold new_cval; destruct (ctag_zst ktag); exact HZ).
  assert (HD1 : DD w1) by (subst w1; unfold new_cval; destruct (ctag_zst ktag); exact HD).
  now apply send_to_DD.
Qed.

Theorem run_top_all_DD w o : ZI w -> DD w -> DD (run_top_all beh w o).
Proof.
  intros HZ HD. destruct o as [o|k]; cbn [run_top_all]; [|now apply remove_component_DD]. destruct o; cbn [run_top].
  - now apply op_spawn_DD. - now apply op_insert_DD. - unfold op_remove. now apply send_to_DD. - unfold op_despawn. now apply send_to_DD.
  - unfold op_send. cbn [fresh_serial]. apply send_global_DD; [exact HZ|exact HD]. - unfold op_send_to. cbn [fresh_serial]. apply send_to_DD; [exact HZ|exact HD].
  - now apply add_handler_DD. - now apply remove_handler_DD. - now apply add_component_DD. - now apply add_global_event_DD.
  - now apply add_targeted_event_DD. - now apply remove_global_event_DD. - now apply remove_targeted_event_DD.
Qed.

(* from any world that satisfies the invariants (in particular any reachable one): through every further history *)
Theorem dead_ids_stay_dead ops : forall w, ZI w -> DD w -> DD (fold_left (run_top_all beh) ops w).
Proof.
  induction ops as [|o t IH]; intros w HZ HD; cbn [fold_left]; [exact HD|].
  apply IH; [|now apply run_top_all_DD]. rewrite <- run_top_res_world. exact (proj1 (run_top_res_ZI beh w o HZ)).
Qed.
End Dead.

(* ---------- a successful removal makes the id dead ---------- *)
Section Removal.
Variable beh : hinfo -> logent -> N -> script.

Lemma remove_handler_dead k w w' : ZI w -> remove_handler beh k w = ROk true w' -> Dead (w_hs w') k.
Proof.
  intros HZ. unfold remove_handler. destruct (sm_get k (w_hs w)); [|discriminate].
  destruct (send_global_ZOK beh G_RMH (mkEv 0 0 k) w HZ) as (Z1 & _ & _).
  destruct (send_global beh RFUEL G_RMH (mkEv 0 0 k) w) as [[] w1|f w1]; cbn [rbind res_world] in *; [|discriminate].
  unfold handlers_remove. destruct (sm_remove k (w_hs w1)) as [[h1 hs]|] eqn:Er; [|discriminate]. intros H. inversion H; subst w'.
  unfold archs_remove_handler. cbn [w_hs set_archs set_hreg]. eapply remove_dead; [exact (proj2 (proj2 (proj2 (ZI_sminv w1 Z1))))|exact Er].
Qed.

Lemma remove_global_event_dead k w w' : ZI w -> remove_global_event beh k w = ROk true w' -> Dead (w_gev w') k.
Proof.
  intros HZ. unfold remove_global_event. destruct (sm_get k (w_gev w)); [|discriminate].
  destruct (send_global_ZOK beh G_RMGE (mkEv 0 0 k) w HZ) as (Z1 & _ & _).
  destruct (send_global beh RFUEL G_RMGE (mkEv 0 0 k) w) as [[] w1|f w1]; cbn [rbind res_world] in *; [|discriminate].
  match goal with |- context [remove_handlers beh ?l w1] => destruct (remove_handlers_ZOK beh l w1 Z1) as (Z2 & _ & _); destruct (remove_handlers beh l w1) as [[] w2|f w2] end; cbn [rbind res_world] in *; [|discriminate].
  destruct (sm_remove k (w_gev w2)) as [[info m]|] eqn:Er; [|discriminate]. intros H. inversion H; subst w'. cbn [w_gev set_gev].
  eapply remove_dead; [exact (proj1 (proj2 (proj2 (ZI_sminv w2 Z2))))|exact Er].
Qed.

Lemma remove_targeted_event_dead k w w' : ZI w -> remove_targeted_event beh k w = ROk true w' -> Dead (w_tev w') k.
Proof.
  intros HZ. unfold remove_targeted_event. destruct (sm_get k (w_tev w)); [|discriminate].
  destruct (send_global_ZOK beh G_RMTE (mkEv 0 0 k) w HZ) as (Z1 & _ & _).
  destruct (send_global beh RFUEL G_RMTE (mkEv 0 0 k) w) as [[] w1|f w1]; cbn [rbind res_world] in *; [|discriminate].
  match goal with |- context [remove_handlers beh ?l w1] => destruct (remove_handlers_ZOK beh l w1 Z1) as (Z2 & _ & _); destruct (remove_handlers beh l w1) as [[] w2|f w2] end; cbn [rbind res_world] in *; [|discriminate].
  destruct (sm_remove k (w_tev w2)) as [[info m]|] eqn:Er; [|discriminate]. intros H. inversion H; subst w'.
  assert (Hd : Dead m k) by (eapply remove_dead; [exact (proj1 (proj2 (ZI_sminv w2 Z2)))|exact Er]).
  destruct (e_kind info); exact Hd.
Qed.

Lemma remove_component_dead k w w' : ZI w -> remove_component beh k w = ROk true w' -> Dead (w_comps w') k.
Proof.
  intros HZ. unfold remove_component. destruct (sm_get k (w_comps w)); [|discriminate].
  destruct (send_global_ZOK beh G_RMC (mkEv 0 0 k) w HZ) as (Z1 & _ & _).
  destruct (send_global beh RFUEL G_RMC (mkEv 0 0 k) w) as [[] w1|f w1]; cbn [rbind res_world] in *; [|discriminate].
  destruct (add_targeted_event_ZOK beh T_DESPAWN w1 Z1) as (Z2 & _ & P2).
  destruct (add_targeted_event beh T_DESPAWN w1) as [dk w2|f w2]; cbn [rbind res_world] in *; [|discriminate]. destruct P2 as [_ [Hdk _]].
  cbn zeta. set (q := flat_map _ (slab_iter (w_archs w2))).
  assert (HQ : forall x, In x q -> item_ok w2 x).
  { intros x Hx. unfold q in Hx. apply in_flat_map in Hx as ([ai a] & _ & Hx). destruct (arch_has a (fst k)); [|destruct Hx].
    apply in_map_iff in Hx as ([e vals] & <- & _). exact Hdk. }
  destruct (flush_ZOK beh q w2 Z2 HQ) as (Z3 & _ & _). destruct (flush beh q w2) as [[] w3|f w3]; cbn [rbind res_world] in *; [|discriminate].
  match goal with |- context [remove_handlers beh ?l w3] => destruct (remove_handlers_ZOK beh l w3 Z3) as (Z4 & _ & _); destruct (remove_handlers beh l w3) as [[] w4|f w4] end; cbn [rbind res_world] in *; [|discriminate].
  destruct (sm_get k (w_comps w4)) as [ci|]; [|discriminate].
  match goal with |- context [remove_tevents beh ?l w4] => destruct (remove_tevents_ZOK beh l w4 Z4) as (Z5 & _ & _); destruct (remove_tevents beh l w4) as [[] w5|f w5] end; cbn [rbind res_world] in *; [|discriminate].
  destruct (sm_remove k (w_comps w5)) as [[ci' m]|] eqn:Er; [|discriminate]. intros H. inversion H; subst w'. unfold refresh_cursor.
  assert (Hd : Dead m k) by (eapply remove_dead; [exact (proj1 (ZI_sminv w5 Z5))|exact Er]).
  destruct (gens4_archs_remove_component (fst k) (c_tag ci') (set_comps w5 m (aremove (c_tag ci') (w_cby w5))) (c_member_of ci')) as (A & _).
  cbn [w_comps set_res]. eapply Dead_gens; [exact A|exact Hd].
Qed.

(* the four statements of C16 / C15: once removed, never valid again - through every later history of calls,
   for every handler behaviour *)
Theorem removed_component_id_never_valid_again k w w' ops : ZI w -> remove_component beh k w = ROk true w' ->
  sm_get k (w_comps (fold_left (run_top_all beh) ops w')) = None.
Proof.
  intros HZ E. assert (Hk : N.odd (snd k) = true).
  { pose proof E as E0. unfold remove_component in E0. destruct (sm_get k (w_comps w)) as [v0|] eqn:Eg; [|discriminate]. exact (valid_key_odd _ _ _ (proj1 (ZI_sminv w HZ)) Eg). }
  destruct (remove_component_ZOK beh k w HZ) as (Zf & _ & _). rewrite E in Zf. cbn [res_world] in Zf.
  pose proof (remove_component_dead k w w' HZ E) as Hd.
  destruct (dead_ids_stay_dead (Some k) None None None beh ops w' Zf) as (H1 & _); [repeat split; exact Hd|]. apply dead_get; [exact Hk|exact H1].
Qed.
Theorem removed_handler_id_never_valid_again k w w' ops : ZI w -> remove_handler beh k w = ROk true w' ->
  sm_get k (w_hs (fold_left (run_top_all beh) ops w')) = None.
Proof.
  intros HZ E. assert (Hk : N.odd (snd k) = true).
  { pose proof E as E0. unfold remove_handler in E0. destruct (sm_get k (w_hs w)) as [v0|] eqn:Eg; [|discriminate]. exact (valid_key_odd _ _ _ (proj2 (proj2 (proj2 (ZI_sminv w HZ)))) Eg). }
  destruct (remove_handler_ZOK beh k w HZ) as (Zf & _ & _). rewrite E in Zf. cbn [res_world] in Zf.
  pose proof (remove_handler_dead k w w' HZ E) as Hd.
  destruct (dead_ids_stay_dead None (Some k) None None beh ops w' Zf) as (_ & H1 & _); [repeat split; exact Hd|]. apply dead_get; [exact Hk|exact H1].
Qed.
Theorem removed_global_event_id_never_valid_again k w w' ops : ZI w -> remove_global_event beh k w = ROk true w' ->
  sm_get k (w_gev (fold_left (run_top_all beh) ops w')) = None.
Proof.
  intros HZ E. assert (Hk : N.odd (snd k) = true).
  { pose proof E as E0. unfold remove_global_event in E0. destruct (sm_get k (w_gev w)) as [v0|] eqn:Eg; [|discriminate]. exact (valid_key_odd _ _ _ (proj1 (proj2 (proj2 (ZI_sminv w HZ)))) Eg). }
  destruct (remove_global_event_ZOK beh k w HZ) as (Zf & _ & _). rewrite E in Zf. cbn [res_world] in Zf.
  pose proof (remove_global_event_dead k w w' HZ E) as Hd.
  destruct (dead_ids_stay_dead None None (Some k) None beh ops w' Zf) as (_ & _ & H1 & _); [repeat split; exact Hd|]. apply dead_get; [exact Hk|exact H1].
Qed.
Theorem removed_targeted_event_id_never_valid_again k w w' ops : ZI w -> remove_targeted_event beh k w = ROk true w' ->
  sm_get k (w_tev (fold_left (run_top_all beh) ops w')) = None.
Proof.
  intros HZ E. assert (Hk : N.odd (snd k) = true).
  { pose proof E as E0. unfold remove_targeted_event in E0. destruct (sm_get k (w_tev w)) as [v0|] eqn:Eg; [|discriminate]. exact (valid_key_odd _ _ _ (proj1 (proj2 (ZI_sminv w HZ))) Eg). }
  destruct (remove_targeted_event_ZOK beh k w HZ) as (Zf & _ & _). rewrite E in Zf. cbn [res_world] in Zf.
  pose proof (remove_targeted_event_dead k w w' HZ E) as Hd.
  destruct (dead_ids_stay_dead None None None (Some k) beh ops w' Zf) as (_ & _ & _ & H1); [repeat split; exact Hd|]. apply dead_get; [exact Hk|exact H1].
Qed.
End Removal.
