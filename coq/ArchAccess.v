(* ArchAccess.v : the facts of ArchProofs.v that depend on the meaning of the access expressions
   (and therefore on the merge tables regenerated from the source). *)
From Coq Require Import List NArith Bool Lia Permutation Sorted.
Import ListNotations.
Require Import EV.Base EV.Access EV.AccessProofs EV.Query EV.QueryProofs EV.SlotMap EV.Reserve EV.HList EV.Loop EV.World EV.ArchProofs.
Open Scope N_scope.

(* the filter of a handler with several targeted receivers is the conjunction of their queries'
   access expressions, whose meaning (C05/C06) is: every receiver query matches *)
Theorem conjoined_filter_meaning (a : N -> bool) (qs : list query) :
  ca_matches a (fold_left ca_and (map access_of qs) ca_true) = forallb (qmatch a) qs.
Proof.
  rewrite fold_and_matches. cbn. induction qs as [|q qs IH]; cbn; [reflexivity|].
  now rewrite access_matches_qmatch, IH.
Qed.

Theorem param_refresh_caches_matching ai a k q c :
  qmatch (arch_has a) q = true ->
  match param_refresh ai a (RFetch k q c) with
  | RFetch _ _ c' => In (ai, a_uid a, a_epoch a) c'
  | _ => False end.
Proof.
  intros Hm. cbn [param_refresh]. pose proof (arch_state_iff_qmatch (arch_has a) q) as Hs. rewrite Hm in Hs.
  destruct (arch_state (arch_has a) q); [|discriminate]. apply cache_insert_has.
Qed.

Theorem param_refresh_skips_nonmatching ai a k q c :
  qmatch (arch_has a) q = false -> param_refresh ai a (RFetch k q c) = RFetch k q c.
Proof.
  intros Hm. cbn [param_refresh]. pose proof (arch_state_iff_qmatch (arch_has a) q) as Hs. rewrite Hm in Hs.
  destruct (arch_state (arch_has a) q); [discriminate|reflexivity].
Qed.
