(* Aliasing.v : the access checker is exact (T2).
   For every query expression: the access expression built by `init` contains a Conflict
   literal iff there is an archetype on which the query matches and hands out a mutable
   reference to some component together with another reference to the same component.
   Over the tables regenerated from the running implementation. *)
From Coq Require Import List NArith Bool Lia Sorted.
Import ListNotations.
Require Import EV.Base EV.Access EV.AccessProofs EV.Query EV.QueryProofs.
Open Scope N_scope.

(* ---------- how much access to one component ---------- *)
Inductive lvl := LNone | LRead | LWrite | LConf.
Definition lvl_join (a b : lvl) : lvl :=
  match a, b with
  | LNone, x | x, LNone => x
  | LRead, LRead => LRead
  | _, _ => LConf
  end.
Definition lvl_le (a b : lvl) : bool :=
  match a, b with
  | LNone, _ => true
  | LRead, (LRead | LConf) => true
  | LWrite, (LWrite | LConf) => true
  | LConf, LConf => true
  | _, _ => false
  end.
Lemma lvl_join_comm a b : lvl_join a b = lvl_join b a. Proof. destruct a, b; reflexivity. Qed.
Lemma lvl_join_assoc a b c : lvl_join a (lvl_join b c) = lvl_join (lvl_join a b) c. Proof. destruct a, b, c; reflexivity. Qed.
Lemma lvl_join_none_r a : lvl_join a LNone = a. Proof. destruct a; reflexivity. Qed.
Lemma lvl_le_refl a : lvl_le a a = true. Proof. destruct a; reflexivity. Qed.
Lemma lvl_le_trans a b c : lvl_le a b = true -> lvl_le b c = true -> lvl_le a c = true.
Proof. destruct a, b, c; cbn; congruence. Qed.
Lemma lvl_join_mono a b a' b' : lvl_le a a' = true -> lvl_le b b' = true -> lvl_le (lvl_join a b) (lvl_join a' b') = true.
Proof. destruct a, b, a', b'; cbn; congruence. Qed.
Lemma lvl_le_join_l a b : lvl_le a (lvl_join a b) = true. Proof. destruct a, b; reflexivity. Qed.
Lemma lvl_le_join_r a b : lvl_le b (lvl_join a b) = true. Proof. destruct a, b; reflexivity. Qed.
Lemma lvl_le_conf a : lvl_le LConf a = true -> a = LConf. Proof. destruct a; cbn; congruence. Qed.
Lemma lvl_le_none a : lvl_le a LNone = true -> a = LNone. Proof. destruct a; cbn; congruence. Qed.

Definition acc_lvl (x : cacc) : lvl :=
  match x with With | Not => LNone | Read => LRead | ReadWrite => LWrite | Conflict => LConf end.
Definition case_lvl (cs : case) (c : N) : lvl :=
  fold_right (fun p acc => if fst p =? c then lvl_join (acc_lvl (snd p)) acc else acc) LNone cs.
Definition ref_lvl (m : bool) : lvl := if m then LWrite else LRead.
Definition refs_lvl (rs : list (N * bool)) (c : N) : lvl :=
  fold_right (fun p acc => if fst p =? c then lvl_join (ref_lvl (snd p)) acc else acc) LNone rs.

(* a mutable reference to a component together with another reference to it *)
Definition aliasing (rs : list (N * bool)) : Prop := exists c, refs_lvl rs c = LConf.

Lemma lvl_join_none_l a : lvl_join LNone a = a. Proof. destruct a; reflexivity. Qed.
Lemma refs_lvl_cons i m x c : refs_lvl ((i, m) :: x) c = if i =? c then lvl_join (ref_lvl m) (refs_lvl x c) else refs_lvl x c.
Proof. reflexivity. Qed.
Lemma case_lvl_cons i a x c : case_lvl ((i, a) :: x) c = if i =? c then lvl_join (acc_lvl a) (case_lvl x c) else case_lvl x c.
Proof. reflexivity. Qed.
Lemma refs_lvl_app x y c : refs_lvl (x ++ y) c = lvl_join (refs_lvl x c) (refs_lvl y c).
Proof.
  induction x as [|[i m] x IH].
  - change (refs_lvl [] c) with LNone. now rewrite lvl_join_none_l.
  - change (((i, m) :: x) ++ y) with ((i, m) :: (x ++ y)). rewrite !refs_lvl_cons.
    destruct (i =? c); [now rewrite IH, lvl_join_assoc|exact IH].
Qed.

(* the table's merge is the join of levels; a dropped pair has a contradiction *)
Lemma merge_acc_lvl x y m : merge_acc x y = Some m -> acc_lvl m = lvl_join (acc_lvl x) (acc_lvl y).
Proof. destruct x, y; cbn; intros H; inversion H; reflexivity. Qed.
Lemma conflict_acc_lvl x : conflict_acc x = true <-> acc_lvl x = LConf.
Proof. destruct x; cbn; split; congruence. Qed.
Lemma neg_acc_lvl x : acc_lvl (neg_acc x) = LNone. Proof. destruct x; reflexivity. Qed.
Lemma clear_acc_lvl x : acc_lvl (clear_acc x) = LNone. Proof. destruct x; reflexivity. Qed.

(* ---------- cases are strictly sorted by component: each component at most once ---------- *)
Definition lt_all (k : N) (cs : case) : Prop := Forall (fun p => k < fst p) cs.
Fixpoint csorted (cs : case) : Prop :=
  match cs with [] => True | p :: t => lt_all (fst p) t /\ csorted t end.

Lemma lt_all_weaken k k' cs : k' <= k -> lt_all k cs -> lt_all k' cs.
Proof. intros Hk H. unfold lt_all in *. rewrite Forall_forall in *. intros p Hp. specialize (H p Hp). lia. Qed.

Lemma merge_case_sorted : forall l r m,
  csorted l -> csorted r -> merge_case l r = Some m ->
  csorted m /\ (forall k, lt_all k l -> lt_all k r -> lt_all k m).
Proof.
  induction l as [|[li la] l IHl]; intros r m Hl Hr H.
  - destruct r; cbn in H; inversion H; subst; auto.
  - induction r as [|[ri ra] r IHr] in m, Hr, H |- *.
    + cbn in H. inversion H; subst. auto.
    + rewrite merge_case_eq in H. destruct Hl as [Hl1 Hl2]. destruct Hr as [Hr1 Hr2].
      destruct (N.compare_spec li ri) as [E|L|G].
      * subst ri. destruct (merge_acc la ra) as [x|]; [|discriminate].
        destruct (merge_case l r) as [m'|] eqn:Em; [|discriminate]. cbn in H. inversion H; subst.
        destruct (IHl r m' Hl2 Hr2 Em) as [Hs Hb]. split.
        -- split; [apply Hb; assumption|exact Hs].
        -- intros k Hk1 Hk2. inversion Hk1; subst. constructor; [assumption|]. apply Hb; [inversion Hk1|inversion Hk2]; assumption.
      * destruct (merge_case l ((ri, ra) :: r)) as [m'|] eqn:Em; [|discriminate]. cbn in H. inversion H; subst.
        destruct (IHl ((ri, ra) :: r) m' Hl2 (conj Hr1 Hr2) Em) as [Hs Hb]. split.
        -- split; [|exact Hs]. apply Hb; [exact Hl1|]. constructor; [exact L|]. eapply lt_all_weaken; [|exact Hr1]. cbn. lia.
        -- intros k Hk1 Hk2. inversion Hk1; subst. constructor; [assumption|]. apply Hb; assumption.
      * destruct (merge_case ((li, la) :: l) r) as [m'|] eqn:Em; [|discriminate]. cbn in H. inversion H; subst.
        destruct (IHr m' Hr2 eq_refl) as [Hs Hb]. split.
        -- split; [|exact Hs]. apply Hb; [|exact Hr1]. constructor; [exact G|]. eapply lt_all_weaken; [|exact Hl1]. cbn. lia.
        -- intros k Hk1 Hk2. inversion Hk2; subst. constructor; [assumption|]. apply Hb; assumption.
Qed.

(* levels of a merged case are the joins *)
Lemma merge_case_lvl : forall l r m, merge_case l r = Some m ->
  forall c, case_lvl m c = lvl_join (case_lvl l c) (case_lvl r c).
Proof.
  induction l as [|[li la] l IHl]; intros r m H c.
  - destruct r; cbn in H; inversion H; subst; change (case_lvl [] c) with LNone; now rewrite lvl_join_none_l.
  - induction r as [|[ri ra] r IHr] in m, H |- *.
    + cbn in H. inversion H; subst. change (case_lvl [] c) with LNone. now rewrite lvl_join_none_r.
    + rewrite merge_case_eq in H. destruct (N.compare_spec li ri) as [E|L|G].
      * subst ri. destruct (merge_acc la ra) as [x|] eqn:Ex; [|discriminate].
        destruct (merge_case l r) as [m'|] eqn:Em; [|discriminate]. cbn in H. inversion H; subst.
        rewrite !case_lvl_cons, (IHl r m' Em c), (merge_acc_lvl _ _ _ Ex). destruct (li =? c); [|reflexivity].
        destruct (acc_lvl la), (acc_lvl ra), (case_lvl l c), (case_lvl r c); reflexivity.
      * destruct (merge_case l ((ri, ra) :: r)) as [m'|] eqn:Em; [|discriminate]. cbn in H. inversion H; subst.
        rewrite (case_lvl_cons li la m'), (case_lvl_cons li la l), (IHl _ m' Em c).
        destruct (li =? c); [|reflexivity]. now rewrite lvl_join_assoc.
      * destruct (merge_case ((li, la) :: l) r) as [m'|] eqn:Em; [|discriminate]. cbn in H. inversion H; subst.
        rewrite (case_lvl_cons ri ra m'), (case_lvl_cons ri ra r), (IHr m' eq_refl).
        destruct (ri =? c); [|reflexivity].
        destruct (acc_lvl ra), (case_lvl ((li, la) :: l) c), (case_lvl r c); reflexivity.
Qed.

(* ---------- expressions ---------- *)
Lemma ca_and_in m x y : In m (ca_and x y) <-> exists l r, In l x /\ In r y /\ merge_case l r = Some m.
Proof.
  unfold ca_and. rewrite in_flat_map. split.
  - intros (r & Hr & Hm). rewrite in_flat_map in Hm. destruct Hm as (l & Hl & Hm).
    destruct (merge_case l r) as [c|] eqn:E; [|destruct Hm]. destruct Hm as [<-|[]]. eauto.
  - intros (l & r & Hl & Hr & E). exists r. split; [exact Hr|]. rewrite in_flat_map. exists l. split; [exact Hl|].
    rewrite E. now left.
Qed.

Definition ca_wf (e : ca) : Prop := Forall csorted e.
Lemma ca_and_wf x y : ca_wf x -> ca_wf y -> ca_wf (ca_and x y).
Proof.
  unfold ca_wf. rewrite !Forall_forall. intros Hx Hy m Hm. apply ca_and_in in Hm as (l & r & Hl & Hr & E).
  exact (proj1 (merge_case_sorted l r m (Hx _ Hl) (Hy _ Hr) E)).
Qed.
Lemma ca_or_wf x y : ca_wf x -> ca_wf y -> ca_wf (ca_or x y).
Proof. unfold ca_wf, ca_or. intros. now apply Forall_app. Qed.
Lemma ca_true_wf : ca_wf ca_true. Proof. repeat constructor. Qed.
Lemma ca_var_wf i a : ca_wf (ca_var i a). Proof. repeat constructor. Qed.
Lemma fold_and_wf (l : list ca) : Forall ca_wf l -> forall acc, ca_wf acc -> ca_wf (fold_left ca_and l acc).
Proof. induction 1 as [|x l Hx _ IH]; intros acc Ha; cbn; [exact Ha|]. apply IH, ca_and_wf; assumption. Qed.
Lemma ca_not_wf x : ca_wf (ca_not x).
Proof.
  unfold ca_not. assert (G : forall acc, ca_wf acc -> ca_wf (fold_left (fun acc c => ca_and acc (map (fun p => [(fst p, neg_acc (snd p))]) c)) x acc)).
  { induction x as [|c x IH]; intros acc Ha; cbn; [exact Ha|]. apply IH, ca_and_wf; [exact Ha|].
    unfold ca_wf. rewrite Forall_forall. intros cs Hin. apply in_map_iff in Hin as (p & <- & _). repeat constructor. }
  apply G, ca_true_wf.
Qed.
Lemma ca_clear_wf x : ca_wf x -> ca_wf (ca_clear x).
Proof.
  unfold ca_wf, ca_clear. rewrite !Forall_forall. intros H cs Hin. apply in_map_iff in Hin as (c0 & <- & Hc).
  specialize (H _ Hc). clear Hc. induction c0 as [|[i a] t IH]; cbn; [exact I|]. destruct H as [H1 H2]. split; [|auto].
  unfold lt_all in *. rewrite Forall_forall in *. intros p Hp. apply in_map_iff in Hp as ([j b] & <- & Hj). exact (H1 _ Hj).
Qed.

Theorem access_of_wf (q : query) : ca_wf (access_of q).
Proof.
  induction q as [c|c|qs IH|q IH|l r IHl IHr|l r IHl IHr|q IH|q IH|q IH|] using query_ind'; cbn [access_of].
  - apply ca_var_wf.
  - apply ca_var_wf.
  - assert (G : forall acc, ca_wf acc -> ca_wf (fold_left (fun acc q' => ca_and acc (access_of q')) qs acc)).
    { induction IH as [|x l Hx _ IHl]; intros acc Ha; cbn; [exact Ha|]. apply IHl, ca_and_wf; assumption. }
    apply G, ca_true_wf.
  - apply ca_or_wf; [apply ca_true_wf|exact IH].
  - apply ca_or_wf; [apply ca_or_wf; assumption|apply ca_and_wf; assumption].
  - apply ca_or_wf; apply ca_and_wf; auto using ca_not_wf.
  - apply ca_not_wf.
  - apply ca_clear_wf, IH.
  - apply ca_true_wf.
  - apply ca_true_wf.
Qed.

(* cases that grant no access at all *)
Definition quiet (cs : case) : Prop := forall c, case_lvl cs c = LNone.
Lemma quiet_nil : quiet []. Proof. intros c. reflexivity. Qed.
Lemma merge_quiet l r m : quiet l -> quiet r -> merge_case l r = Some m -> quiet m.
Proof. intros Hl Hr E c. now rewrite (merge_case_lvl _ _ _ E), Hl, Hr. Qed.
Lemma ca_not_quiet x : forall cs, In cs (ca_not x) -> quiet cs.
Proof.
  unfold ca_not. assert (G : forall acc, (forall cs, In cs acc -> quiet cs) ->
     forall cs, In cs (fold_left (fun acc c => ca_and acc (map (fun p => [(fst p, neg_acc (snd p))]) c)) x acc) -> quiet cs).
  { induction x as [|c x IH]; intros acc Ha cs Hin; cbn in Hin; [auto|]. eapply IH; [|exact Hin].
    intros m Hm. apply ca_and_in in Hm as (l & r & Hl & Hr & E). eapply merge_quiet; [apply Ha; exact Hl| |exact E].
    apply in_map_iff in Hr as ([i a] & <- & _). intros c0. rewrite case_lvl_cons. cbn [fst snd].
    change (case_lvl [] c0) with LNone. rewrite neg_acc_lvl. now destruct (i =? c0). }
  apply G. intros cs [<-|[]]. apply quiet_nil.
Qed.
Lemma ca_clear_quiet x : forall cs, In cs (ca_clear x) -> quiet cs.
Proof.
  unfold ca_clear. intros cs Hin. apply in_map_iff in Hin as (c0 & <- & _). intros c.
  induction c0 as [|[i a] t IH]; [reflexivity|]. cbn [map fst snd]. rewrite case_lvl_cons, clear_acc_lvl, IH. now destruct (i =? c).
Qed.

(* a sorted case is satisfied by the archetype of its positive literals *)
Definition canon (cs : case) (c : N) : bool := existsb (fun p => (fst p =? c) && pos_acc (snd p)) cs.
Lemma canon_matches cs : csorted cs -> case_matches (canon cs) cs = true.
Proof.
  unfold case_matches. intros Hs.
  assert (G : forall pre, (forall p, In p pre -> lt_all (fst p) cs) ->
     forallb (lit_holds (canon (pre ++ cs))) cs = true).
  { induction cs as [|[i a] t IH]; intros pre Hpre; [reflexivity|]. cbn [forallb]. destruct Hs as [H1 H2].
    apply andb_true_iff. split.
    - unfold lit_holds, canon. cbn [fst snd]. rewrite existsb_app. cbn [existsb fst snd]. rewrite N.eqb_refl. cbn [andb].
      destruct (pos_acc a) eqn:Ep; [now rewrite orb_true_r|]. cbn [orb negb].
      assert (E1 : existsb (fun p => (fst p =? i) && pos_acc (snd p)) pre = false).
      { apply not_true_is_false. intros Hx. apply existsb_exists in Hx as (p & Hp & Hx). apply andb_true_iff in Hx as [Hx _].
        apply N.eqb_eq in Hx. specialize (Hpre p Hp). inversion Hpre; subst. cbn in *. lia. }
      assert (E2 : existsb (fun p => (fst p =? i) && pos_acc (snd p)) t = false).
      { apply not_true_is_false. intros Hx. apply existsb_exists in Hx as (p & Hp & Hx). apply andb_true_iff in Hx as [Hx _].
        apply N.eqb_eq in Hx. unfold lt_all in H1. rewrite Forall_forall in H1. specialize (H1 p Hp). cbn in H1. lia. }
      now rewrite E1, E2.
    - replace (pre ++ (i, a) :: t) with ((pre ++ [(i, a)]) ++ t) by now rewrite <- app_assoc.
      apply IH; [exact H2|]. intros p Hp. apply in_app_or in Hp as [Hp|[<-|[]]].
      + specialize (Hpre p Hp). inversion Hpre; subst. eapply lt_all_weaken; [|exact H1]. cbn in *. lia.
      + exact H1. }
  apply (G []). intros p [].
Qed.

(* a Conflict literal is what collect_conflicts reports *)
Lemma conflicts_nonempty e : ca_conflicts e <> [] <-> exists cs p, In cs e /\ In p cs /\ conflict_acc (snd p) = true.
Proof.
  unfold ca_conflicts. match goal with |- context [dedupN ?x []] => set (l := x) end.
  assert (Hd : forall l seen, dedupN l seen = [] <-> forall x, In x l -> existsb (N.eqb x) seen = true).
  { clear. induction l as [|h t IH]; intros seen; cbn; [split; [intros _ x []|reflexivity]|].
    destruct (existsb (N.eqb h) seen) eqn:E.
    - rewrite IH. split; [intros H x [<-|Hx]; auto|intros H x Hx; apply H; now right].
    - split; [discriminate|]. intros H. specialize (H h (or_introl eq_refl)). congruence. }
  split.
  - intros Hne. destruct l as [|x l'] eqn:El; [exfalso; apply Hne; reflexivity|].
    assert (Hin : In x l) by (rewrite El; now left). unfold l in Hin. apply in_flat_map in Hin as (cs & Hcs & Hin).
    apply in_flat_map in Hin as (p & Hp & Hin). destruct (conflict_acc (snd p)) eqn:Ec; [|destruct Hin]. eauto.
  - intros (cs & p & Hcs & Hp & Hc) Hnil. pose proof (proj1 (Hd l []) Hnil) as Hnil2. clear Hnil. rename Hnil2 into Hnil.
    specialize (Hnil (fst p)). cbn in Hnil. assert (In (fst p) l); [|now apply Hnil in H].
    unfold l. apply in_flat_map. exists cs. split; [exact Hcs|]. apply in_flat_map. exists p. split; [exact Hp|]. rewrite Hc. now left.
Qed.

(* in a sorted case the level of a component is that of its only literal *)
Lemma case_lvl_notin cs c : lt_all c cs -> case_lvl cs c = LNone.
Proof.
  induction cs as [|[i a] t IH]; intros H; [reflexivity|]. inversion H; subst. rewrite case_lvl_cons.
  cbn in *. replace (i =? c) with false by (symmetry; apply N.eqb_neq; lia). apply IH. assumption.
Qed.
Lemma case_lvl_sorted_lit cs : csorted cs -> forall p, In p cs -> case_lvl cs (fst p) = acc_lvl (snd p).
Proof.
  induction cs as [|[i a] t IH]; intros Hs p Hp; [destruct Hp|]. destruct Hs as [H1 H2]. rewrite case_lvl_cons.
  destruct Hp as [<-|Hp]; cbn [fst snd].
  - rewrite N.eqb_refl, (case_lvl_notin t i H1). apply lvl_join_none_r.
  - unfold lt_all in H1. rewrite Forall_forall in H1. specialize (H1 p Hp). cbn in H1.
    replace (i =? fst p) with false by (symmetry; apply N.eqb_neq; lia). apply IH; assumption.
Qed.
Lemma case_lvl_conf_lit cs c : case_lvl cs c = LConf -> csorted cs -> exists p, In p cs /\ fst p = c /\ acc_lvl (snd p) = LConf.
Proof.
  induction cs as [|[i a] t IH]; intros H Hs; [discriminate|]. destruct Hs as [H1 H2]. rewrite case_lvl_cons in H.
  destruct (i =? c) eqn:E.
  - apply N.eqb_eq in E. subst i. rewrite (case_lvl_notin t c H1), lvl_join_none_r in H. exists (c, a). cbn. auto.
  - destruct (IH H H2) as (p & Hp & Hf & Hl). exists p. split; [now right|auto].
Qed.

(* ---------- the references a query hands out on an archetype ---------- *)
Fixpoint srefs (a : N -> bool) (q : query) : list (N * bool) :=
  match q with
  | QRef c => [(c, false)]
  | QMut c => [(c, true)]
  | QTuple qs => flat_map (srefs a) qs
  | QOpt x => if qmatch a x then srefs a x else []
  | QOr l r | QXor l r => (if qmatch a l then srefs a l else []) ++ (if qmatch a r then srefs a r else [])
  | QNot _ | QWith _ | QHas _ | QEid => []
  end.

(* they are the references of the item the model (and the implementation) builds *)
Theorem qrefs_srefs a q : qmatch a q = true -> qrefs a q = srefs a q.
Proof.
  unfold qrefs.
  induction q as [c|c|qs IH|q IH|l r IHl IHr|l r IHl IHr|q IH|q IH|q IH|] using query_ind'; cbn [qmatch arch_state srefs]; intros Hm.
  - now rewrite Hm.
  - now rewrite Hm.
  - induction IH as [|x t Hx _ IHt]; [reflexivity|]. cbn [forallb] in Hm. apply andb_true_iff in Hm as [H1 H2].
    specialize (Hx H1). specialize (IHt H2). cbn [map seq_opt flat_map].
    pose proof (arch_state_iff_qmatch a x) as Ex. rewrite H1 in Ex. destruct (arch_state a x) as [sx|]; [|discriminate].
    destruct (seq_opt (map (arch_state a) t)) as [st|] eqn:Et; cbn [option_map arefs flat_map] in *.
    + now rewrite Hx, IHt.
    + exfalso. clear -H2 Et. induction t as [|y t IH]; [discriminate|]. cbn in *. apply andb_true_iff in H2 as [Hy Ht].
      pose proof (arch_state_iff_qmatch a y) as Ey. rewrite Hy in Ey. destruct (arch_state a y); [|discriminate].
      destruct (seq_opt (map (arch_state a) t)); [discriminate|]. now apply IH.
  - pose proof (arch_state_iff_qmatch a q) as E. destruct (qmatch a q) eqn:Eq; destruct (arch_state a q); try discriminate; cbn [arefs]; auto.
  - pose proof (arch_state_iff_qmatch a l) as El. pose proof (arch_state_iff_qmatch a r) as Er.
    destruct (qmatch a l) eqn:Ml, (qmatch a r) eqn:Mr; destruct (arch_state a l), (arch_state a r); try discriminate; cbn [arefs];
      rewrite ?IHl, ?IHr, ?app_nil_r by reflexivity; reflexivity.
  - pose proof (arch_state_iff_qmatch a l) as El. pose proof (arch_state_iff_qmatch a r) as Er.
    destruct (qmatch a l) eqn:Ml, (qmatch a r) eqn:Mr; destruct (arch_state a l), (arch_state a r); try discriminate; cbn [arefs];
      rewrite ?IHl, ?IHr, ?app_nil_r by reflexivity; reflexivity.
  - destruct (arch_state a q); reflexivity.
  - destruct (arch_state a q); reflexivity.
  - reflexivity.
  - reflexivity.
Qed.

Lemma in_case_matches a e cs : In cs e -> case_matches a cs = true -> ca_matches a e = true.
Proof. intros Hin Hm. unfold ca_matches. apply existsb_exists. eauto. Qed.
Lemma matches_in_case a e : ca_matches a e = true -> exists cs, In cs e /\ case_matches a cs = true.
Proof. unfold ca_matches. intros H. apply existsb_exists in H. exact H. Qed.
Lemma merge_both_match a l r : case_matches a l = true -> case_matches a r = true ->
  exists m, merge_case l r = Some m /\ case_matches a m = true.
Proof.
  intros Hl Hr. pose proof (merge_case_matches a l r) as H. destruct (merge_case l r) as [m|].
  - exists m. split; [reflexivity|]. now rewrite H, Hl, Hr.
  - rewrite Hl, Hr in H. discriminate.
Qed.
Lemma merge_match_inv a l r m : merge_case l r = Some m -> case_matches a m = true ->
  case_matches a l = true /\ case_matches a r = true.
Proof. intros E Hm. pose proof (merge_case_matches a l r) as H. rewrite E, Hm in H. symmetry in H. now apply andb_true_iff in H. Qed.

(* L2: every satisfied case is below the references of the branch actually taken *)
Theorem case_below_refs (q : query) : forall a cs, In cs (access_of q) -> case_matches a cs = true ->
  forall c, lvl_le (case_lvl cs c) (refs_lvl (srefs a q) c) = true.
Proof.
  induction q as [c0|c0|qs IH|q IH|l r IHl IHr|l r IHl IHr|q IH|q IH|q IH|] using query_ind'; cbn [access_of srefs]; intros a cs Hin Hm c.
  - destruct Hin as [<-|[]]. unfold var_acc. rewrite case_lvl_cons, refs_lvl_cons. cbn. destruct (c0 =? c); reflexivity.
  - destruct Hin as [<-|[]]. unfold var_acc. rewrite case_lvl_cons, refs_lvl_cons. cbn. destruct (c0 =? c); reflexivity.
  - assert (G : forall acc R, (forall cs, In cs acc -> case_matches a cs = true -> forall c, lvl_le (case_lvl cs c) (R c) = true) ->
              forall cs, In cs (fold_left (fun acc q' => ca_and acc (access_of q')) qs acc) -> case_matches a cs = true ->
              forall c, lvl_le (case_lvl cs c) (lvl_join (R c) (refs_lvl (flat_map (srefs a) qs) c)) = true).
    { clear cs Hin Hm c. induction IH as [|x t Hx _ IHt]; intros acc R Hacc cs Hin Hm c; cbn [fold_left flat_map] in *.
      - change (refs_lvl [] c) with LNone. rewrite lvl_join_none_r. eauto.
      - rewrite refs_lvl_app, lvl_join_assoc.
        apply (IHt (ca_and acc (access_of x)) (fun c => lvl_join (R c) (refs_lvl (srefs a x) c))); [|exact Hin|exact Hm].
        intros m Hmin Hmm c1. apply ca_and_in in Hmin as (l0 & r0 & Hl0 & Hr0 & E).
        destruct (merge_match_inv a _ _ _ E Hmm) as [Ml Mr]. rewrite (merge_case_lvl _ _ _ E).
        apply lvl_join_mono; [apply Hacc; assumption|apply Hx; assumption]. }
    specialize (G ca_true (fun _ => LNone)). cbn beta in G. rewrite <- (lvl_join_none_l (refs_lvl _ c)).
    apply G; [|exact Hin|exact Hm]. intros cs0 [<-|[]] _ c1. reflexivity.
  - unfold ca_or in Hin. apply in_app_or in Hin as [[<-|[]]|Hin]; [reflexivity|].
    rewrite <- (access_matches_qmatch a q), (in_case_matches a _ _ Hin Hm). eauto.
  - unfold ca_or in Hin. apply in_app_or in Hin as [Hin|Hin]; [apply in_app_or in Hin as [Hin|Hin]|].
    + rewrite <- (access_matches_qmatch a l), (in_case_matches a _ _ Hin Hm), refs_lvl_app.
      eapply lvl_le_trans; [eapply IHl; eauto|apply lvl_le_join_l].
    + rewrite <- (access_matches_qmatch a r), (in_case_matches a _ _ Hin Hm), refs_lvl_app.
      eapply lvl_le_trans; [eapply IHr; eauto|apply lvl_le_join_r].
    + apply ca_and_in in Hin as (l0 & r0 & Hl0 & Hr0 & E). destruct (merge_match_inv a _ _ _ E Hm) as [Ml Mr].
      rewrite <- (access_matches_qmatch a l), <- (access_matches_qmatch a r), (in_case_matches a _ _ Hl0 Ml), (in_case_matches a _ _ Hr0 Mr).
      rewrite refs_lvl_app, (merge_case_lvl _ _ _ E). apply lvl_join_mono; eauto.
  - unfold ca_or in Hin. apply in_app_or in Hin as [Hin|Hin]; apply ca_and_in in Hin as (l0 & r0 & Hl0 & Hr0 & E);
      destruct (merge_match_inv a _ _ _ E Hm) as [Ml Mr]; rewrite (merge_case_lvl _ _ _ E), refs_lvl_app.
    + rewrite (ca_not_quiet _ _ Hr0 c), lvl_join_none_r.
      rewrite <- (access_matches_qmatch a l), (in_case_matches a _ _ Hl0 Ml).
      eapply lvl_le_trans; [eapply IHl; eauto|apply lvl_le_join_l].
    + rewrite (ca_not_quiet _ _ Hr0 c), lvl_join_none_r.
      rewrite <- (access_matches_qmatch a r), (in_case_matches a _ _ Hl0 Ml).
      eapply lvl_le_trans; [eapply IHr; eauto|apply lvl_le_join_r].
  - now rewrite (ca_not_quiet _ _ Hin c).
  - now rewrite (ca_clear_quiet _ _ Hin c).
  - destruct Hin as [<-|[]]. reflexivity.
  - destruct Hin as [<-|[]]. reflexivity.
Qed.

(* L1: on every archetype the query matches, some satisfied case dominates the references *)
Theorem refs_below_some_case (q : query) : forall a, qmatch a q = true ->
  exists cs, In cs (access_of q) /\ case_matches a cs = true /\ forall c, lvl_le (refs_lvl (srefs a q) c) (case_lvl cs c) = true.
Proof.
  induction q as [c0|c0|qs IH|q IH|l r IHl IHr|l r IHl IHr|q IH|q IH|q IH|] using query_ind'; cbn [access_of srefs qmatch]; intros a Hm.
  - eexists. split; [now left|]. split; [unfold case_matches, lit_holds; cbn; now rewrite Hm|]. intros c.
    rewrite case_lvl_cons, refs_lvl_cons. cbn. destruct (c0 =? c); reflexivity.
  - eexists. split; [now left|]. split; [unfold case_matches, lit_holds; cbn; now rewrite Hm|]. intros c.
    rewrite case_lvl_cons, refs_lvl_cons. cbn. destruct (c0 =? c); reflexivity.
  - assert (G : forall acc cs0 R, In cs0 acc -> case_matches a cs0 = true -> (forall c, lvl_le (R c) (case_lvl cs0 c) = true) ->
              forallb (qmatch a) qs = true ->
              exists cs, In cs (fold_left (fun acc q' => ca_and acc (access_of q')) qs acc) /\ case_matches a cs = true /\
                         forall c, lvl_le (lvl_join (R c) (refs_lvl (flat_map (srefs a) qs) c)) (case_lvl cs c) = true).
    { clear Hm. induction IH as [|x t Hx _ IHt]; intros acc cs0 R Hin0 Hm0 HR Hall; cbn [fold_left flat_map forallb] in *.
      - exists cs0. split; [exact Hin0|]. split; [exact Hm0|]. intros c. change (refs_lvl [] c) with LNone. now rewrite lvl_join_none_r.
      - apply andb_true_iff in Hall as [H1 H2]. destruct (Hx a H1) as (cx & Hcx & Mx & Lx).
        destruct (merge_both_match a cs0 cx Hm0 Mx) as (m & E & Mm).
        destruct (IHt (ca_and acc (access_of x)) m (fun c => lvl_join (R c) (refs_lvl (srefs a x) c))) as (cs & Hcs & Mcs & Lcs); auto.
        + apply ca_and_in. eauto.
        + intros c. rewrite (merge_case_lvl _ _ _ E). apply lvl_join_mono; auto.
        + exists cs. split; [exact Hcs|]. split; [exact Mcs|]. intros c. rewrite refs_lvl_app, lvl_join_assoc. apply Lcs. }
    destruct (G ca_true [] (fun _ => LNone)) as (cs & Hcs & Mcs & Lcs); auto; [now left|].
    exists cs. split; [exact Hcs|]. split; [exact Mcs|]. intros c. specialize (Lcs c). now rewrite lvl_join_none_l in Lcs.
  - destruct (qmatch a q) eqn:Eq.
    + destruct (IH a Eq) as (cs & Hcs & Mcs & Lcs). exists cs. split; [apply in_or_app; now right|auto].
    + exists []. split; [now left|]. split; reflexivity.
  - destruct (qmatch a l) eqn:El, (qmatch a r) eqn:Er; try discriminate.
    + destruct (IHl a El) as (cl & Hcl & Ml & Ll). destruct (IHr a Er) as (cr & Hcr & Mr & Lr).
      destruct (merge_both_match a cl cr Ml Mr) as (m & E & Mm). exists m.
      split; [apply in_or_app; right; apply ca_and_in; eauto|]. split; [exact Mm|]. intros c.
      rewrite refs_lvl_app, (merge_case_lvl _ _ _ E). apply lvl_join_mono; auto.
    + destruct (IHl a El) as (cl & Hcl & Ml & Ll). exists cl. split; [apply in_or_app; left; apply in_or_app; now left|].
      split; [exact Ml|]. intros c. rewrite app_nil_r. apply Ll.
    + destruct (IHr a Er) as (cr & Hcr & Mr & Lr). exists cr. split; [apply in_or_app; left; apply in_or_app; now right|].
      split; [exact Mr|]. intros c. apply Lr.
  - destruct (qmatch a l) eqn:El, (qmatch a r) eqn:Er; try discriminate.
    + destruct (IHl a El) as (cl & Hcl & Ml & Ll).
      assert (Hn : ca_matches a (ca_not (access_of r)) = true) by now rewrite ca_not_matches, access_matches_qmatch, Er.
      destruct (matches_in_case _ _ Hn) as (cn & Hcn & Mn). destruct (merge_both_match a cl cn Ml Mn) as (m & E & Mm).
      exists m. split; [apply in_or_app; left; apply ca_and_in; eauto|]. split; [exact Mm|]. intros c.
      rewrite app_nil_r, (merge_case_lvl _ _ _ E), (ca_not_quiet _ _ Hcn c), lvl_join_none_r. apply Ll.
    + destruct (IHr a Er) as (cr & Hcr & Mr & Lr).
      assert (Hn : ca_matches a (ca_not (access_of l)) = true) by now rewrite ca_not_matches, access_matches_qmatch, El.
      destruct (matches_in_case _ _ Hn) as (cn & Hcn & Mn). destruct (merge_both_match a cr cn Mr Mn) as (m & E & Mm).
      exists m. split; [apply in_or_app; right; apply ca_and_in; eauto|]. split; [exact Mm|]. intros c.
      rewrite (merge_case_lvl _ _ _ E), (ca_not_quiet _ _ Hcn c), lvl_join_none_r. apply Lr.
  - assert (Hn : ca_matches a (ca_not (access_of q)) = true) by (rewrite ca_not_matches, access_matches_qmatch; exact Hm).
    destruct (matches_in_case _ _ Hn) as (cn & Hcn & Mn). exists cn. split; [exact Hcn|]. split; [exact Mn|]. reflexivity.
  - assert (Hn : ca_matches a (ca_clear (access_of q)) = true) by (rewrite ca_clear_matches, access_matches_qmatch; exact Hm).
    destruct (matches_in_case _ _ Hn) as (cn & Hcn & Mn). exists cn. split; [exact Hcn|]. split; [exact Mn|]. reflexivity.
  - exists []. split; [now left|]. split; reflexivity.
  - exists []. split; [now left|]. split; reflexivity.
Qed.

(* ---------- T2 ---------- *)
Theorem conflict_iff_aliasing (q : query) :
  ca_conflicts (access_of q) <> [] <-> exists a, qmatch a q = true /\ aliasing (srefs a q).
Proof.
  rewrite conflicts_nonempty. split.
  - intros (cs & p & Hcs & Hp & Hc).
    pose proof (access_of_wf q) as Hwf. unfold ca_wf in Hwf. rewrite Forall_forall in Hwf. specialize (Hwf _ Hcs).
    exists (canon cs). pose proof (canon_matches cs Hwf) as Hm.
    split; [rewrite <- access_matches_qmatch; eapply in_case_matches; eauto|].
    exists (fst p). apply lvl_le_conf. rewrite <- (proj1 (conflict_acc_lvl _) Hc), <- (case_lvl_sorted_lit cs Hwf p Hp).
    apply case_below_refs; assumption.
  - intros (a & Hm & c & Hc). destruct (refs_below_some_case q a Hm) as (cs & Hcs & Mcs & Lcs).
    specialize (Lcs c). rewrite Hc in Lcs. apply lvl_le_conf in Lcs.
    pose proof (access_of_wf q) as Hwf. unfold ca_wf in Hwf. rewrite Forall_forall in Hwf. specialize (Hwf _ Hcs).
    destruct (case_lvl_conf_lit cs c Lcs Hwf) as (p & Hp & _ & Hl). exists cs, p. split; [exact Hcs|]. split; [exact Hp|].
    now apply conflict_acc_lvl.
Qed.

(* ---------- handlers: several parameters looking at the same entity ---------- *)
(* references handed out for an entity of archetype [a] by all parameters whose query matches it *)
Definition hrefs (a : N -> bool) (qs : list query) : list (N * bool) :=
  flat_map (fun q => if qmatch a q then srefs a q else []) qs.

Lemma ca_and_true_l x : ca_and ca_true x = x.
Proof.
  induction x as [|r x IH]; [reflexivity|].
  change (ca_and ca_true (r :: x)) with ((match merge_case [] r with Some c => [c] | None => [] end ++ []) ++ ca_and ca_true x).
  rewrite IH. destruct r; reflexivity.
Qed.
Lemma access_pair q1 q2 : access_of (QTuple [q1; q2]) = ca_and (access_of q1) (access_of q2).
Proof. cbn [access_of fold_left]. now rewrite ca_and_true_l. Qed.
Lemma access_tuple qs : access_of (QTuple qs) = fold_left ca_and (map access_of qs) ca_true.
Proof. cbn [access_of]. generalize ca_true. induction qs as [|q qs IH]; intros acc; cbn; [reflexivity|apply IH]. Qed.

Lemma lvl_conf_join_l a b : a = LConf -> lvl_join a b = LConf. Proof. intros ->. now destruct b. Qed.
Lemma lvl_conf_join_r a b : b = LConf -> lvl_join a b = LConf. Proof. intros ->. now destruct a. Qed.

Lemma hrefs_cons a q qs c : refs_lvl (hrefs a (q :: qs)) c =
  lvl_join (refs_lvl (if qmatch a q then srefs a q else []) c) (refs_lvl (hrefs a qs) c).
Proof. unfold hrefs. cbn [flat_map]. apply refs_lvl_app. Qed.

(* a conflict among many parameters is a conflict within one or between two of them *)
Lemma hrefs_conf_split a c : forall qs, refs_lvl (hrefs a qs) c = LConf ->
  (exists q, In q qs /\ qmatch a q = true /\ refs_lvl (srefs a q) c = LConf) \/
  (exists pre q1 mid q2 post, qs = pre ++ q1 :: mid ++ q2 :: post /\ qmatch a q1 = true /\ qmatch a q2 = true /\
                               lvl_join (refs_lvl (srefs a q1) c) (refs_lvl (srefs a q2) c) = LConf).
Proof.
  induction qs as [|q qs IH]; intros H; [discriminate|]. rewrite hrefs_cons in H.
  destruct (qmatch a q) eqn:Em.
  - destruct (refs_lvl (srefs a q) c) eqn:Eq.
    + rewrite lvl_join_none_l in H. destruct (IH H) as [(q' & Hin & Hm & Hl)|(pre & q1 & mid & q2 & post & -> & M1 & M2 & Hl)].
      * left. exists q'. split; [now right|auto].
      * right. exists (q :: pre), q1, mid, q2, post. auto.
    + (* q contributes Read: the rest must contribute a write somewhere *)
      destruct (refs_lvl (hrefs a qs) c) eqn:Er; try discriminate.
      * (* rest has exactly a Write level: some parameter of the rest contributes non-None, join with Read is Conf *)
        clear IH H. revert Er. induction qs as [|q' qs IHq]; intros Er; [discriminate|]. rewrite hrefs_cons in Er.
        destruct (qmatch a q') eqn:Em'.
        -- destruct (refs_lvl (srefs a q') c) eqn:Eq'.
           ++ rewrite lvl_join_none_l in Er. destruct (IHq Er) as [X|X].
              ** destruct X as (q0 & Hin & Hm & Hl). left. exists q0. destruct Hin as [<-|Hin]; [split; [now left|auto]|split; [right; now right|auto]].
              ** destruct X as (pre & q1 & mid & q2 & post & E & M1 & M2 & Hl). right.
                 destruct pre as [|p pre]; cbn in E; inversion E; subst.
                 --- exists [], q1, (q' :: mid), q2, post. auto.
                 --- exists (p :: q' :: pre), q1, mid, q2, post. auto.
           ++ destruct (refs_lvl (hrefs a qs) c); discriminate.
           ++ right. exists [], q, [], q', qs. rewrite Eq, Eq'. auto.
           ++ left. exists q'. split; [right; now left|auto].
        -- change (refs_lvl [] c) with LNone in Er. rewrite lvl_join_none_l in Er. destruct (IHq Er) as [X|X].
           ** destruct X as (q0 & Hin & Hm & Hl). left. exists q0. destruct Hin as [<-|Hin]; [split; [now left|auto]|split; [right; now right|auto]].
           ** destruct X as (pre & q1 & mid & q2 & post & E & M1 & M2 & Hl). right.
              destruct pre as [|p pre]; cbn in E; inversion E; subst.
              --- exists [], q1, (q' :: mid), q2, post. auto.
              --- exists (p :: q' :: pre), q1, mid, q2, post. auto.
      * destruct (IH eq_refl) as [(q' & Hin & Hm & Hl)|(pre & q1 & mid & q2 & post & -> & M1 & M2 & Hl)].
        -- left. exists q'. split; [now right|auto].
        -- right. exists (q :: pre), q1, mid, q2, post. auto.
    + (* q contributes Write: any non-None contribution of the rest conflicts *)
      destruct (refs_lvl (hrefs a qs) c) eqn:Er; try discriminate.
      * clear IH H. revert Er. induction qs as [|q' qs IHq]; intros Er; [discriminate|]. rewrite hrefs_cons in Er.
        destruct (qmatch a q') eqn:Em'.
        -- destruct (refs_lvl (srefs a q') c) eqn:Eq'.
           ++ rewrite lvl_join_none_l in Er. destruct (IHq Er) as [X|X].
              ** destruct X as (q0 & Hin & Hm & Hl). left. exists q0. destruct Hin as [<-|Hin]; [split; [now left|auto]|split; [right; now right|auto]].
              ** destruct X as (pre & q1 & mid & q2 & post & E & M1 & M2 & Hl). right.
                 destruct pre as [|p pre]; cbn in E; inversion E; subst.
                 --- exists [], q1, (q' :: mid), q2, post. auto.
                 --- exists (p :: q' :: pre), q1, mid, q2, post. auto.
           ++ right. exists [], q, [], q', qs. rewrite Eq, Eq'. auto.
           ++ right. exists [], q, [], q', qs. rewrite Eq, Eq'. auto.
           ++ left. exists q'. split; [right; now left|auto].
        -- change (refs_lvl [] c) with LNone in Er. rewrite lvl_join_none_l in Er. destruct (IHq Er) as [X|X].
           ** destruct X as (q0 & Hin & Hm & Hl). left. exists q0. destruct Hin as [<-|Hin]; [split; [now left|auto]|split; [right; now right|auto]].
           ** destruct X as (pre & q1 & mid & q2 & post & E & M1 & M2 & Hl). right.
              destruct pre as [|p pre]; cbn in E; inversion E; subst.
              --- exists [], q1, (q' :: mid), q2, post. auto.
              --- exists (p :: q' :: pre), q1, mid, q2, post. auto.
      * clear IH H. revert Er. induction qs as [|q' qs IHq]; intros Er; [discriminate|]. rewrite hrefs_cons in Er.
        destruct (qmatch a q') eqn:Em'.
        -- destruct (refs_lvl (srefs a q') c) eqn:Eq'.
           ++ rewrite lvl_join_none_l in Er. destruct (IHq Er) as [X|X].
              ** destruct X as (q0 & Hin & Hm & Hl). left. exists q0. destruct Hin as [<-|Hin]; [split; [now left|auto]|split; [right; now right|auto]].
              ** destruct X as (pre & q1 & mid & q2 & post & E & M1 & M2 & Hl). right.
                 destruct pre as [|p pre]; cbn in E; inversion E; subst.
                 --- exists [], q1, (q' :: mid), q2, post. auto.
                 --- exists (p :: q' :: pre), q1, mid, q2, post. auto.
           ++ right. exists [], q, [], q', qs. rewrite Eq, Eq'. auto.
           ++ right. exists [], q, [], q', qs. rewrite Eq, Eq'. auto.
           ++ left. exists q'. split; [right; now left|auto].
        -- change (refs_lvl [] c) with LNone in Er. rewrite lvl_join_none_l in Er. destruct (IHq Er) as [X|X].
           ** destruct X as (q0 & Hin & Hm & Hl). left. exists q0. destruct Hin as [<-|Hin]; [split; [now left|auto]|split; [right; now right|auto]].
           ** destruct X as (pre & q1 & mid & q2 & post & E & M1 & M2 & Hl). right.
              destruct pre as [|p pre]; cbn in E; inversion E; subst.
              --- exists [], q1, (q' :: mid), q2, post. auto.
              --- exists (p :: q' :: pre), q1, mid, q2, post. auto.
      * destruct (IH eq_refl) as [(q' & Hin & Hm & Hl)|(pre & q1 & mid & q2 & post & -> & M1 & M2 & Hl)].
        -- left. exists q'. split; [now right|auto].
        -- right. exists (q :: pre), q1, mid, q2, post. auto.
    + left. exists q. split; [now left|auto].
  - change (refs_lvl [] c) with LNone in H. rewrite lvl_join_none_l in H.
    destruct (IH H) as [(q' & Hin & Hm & Hl)|(pre & q1 & mid & q2 & post & -> & M1 & M2 & Hl)].
    + left. exists q'. split; [now right|auto].
    + right. exists (q :: pre), q1, mid, q2, post. auto.
Qed.
