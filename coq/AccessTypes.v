(* AccessTypes.v : the two finite enumerations of src/access.rs.  The tables over them
   (merge, negation, clear, polarity, var, join) are NOT written here: they are read out of
   the running implementation on every run and generated into gen/Tables.v. *)
Inductive cacc := With | Read | ReadWrite | Not | Conflict.
Inductive access := AcNone | AcRead | AcReadWrite.

Definition cacc_eqb (a b : cacc) : bool :=
  match a, b with
  | With, With | Read, Read | ReadWrite, ReadWrite | Not, Not | Conflict, Conflict => true
  | _, _ => false
  end.
Definition all_cacc := (With :: Read :: ReadWrite :: Not :: Conflict :: nil)%list.
Definition all_access := (AcNone :: AcRead :: AcReadWrite :: nil)%list.
