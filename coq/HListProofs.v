(* HListProofs.v : the before/after cursor list of src/handler.rs:449-508 always equals
   High ++ Medium ++ Low with each segment in addition order, under insertion of a handler
   newer than all present and under removal; hence every delivery iterates handlers by
   priority and then by addition order. *)
From Coq Require Import List NArith Bool Lia Sorted PeanoNat.
Import ListNotations.
Require Import EV.Base EV.HList.
Open Scope N_scope.

(* ---------- N-indexed list plumbing ---------- *)
Lemma ninsert_at_len {A} (X Y : list A) (h : A) : ninsert (X ++ Y) (nlen X) h = X ++ h :: Y.
Proof.
  unfold nlen. induction X as [|x X IH]; cbn [app length ninsert].
  - destruct Y; reflexivity.
  - replace (N.of_nat (S (length X)) =? 0) with false by (symmetry; apply N.eqb_neq; lia).
    replace (N.pred (N.of_nat (S (length X)))) with (N.of_nat (length X)) by lia. now rewrite IH.
Qed.
Lemma nremove_at_len {A} (X Y : list A) (h : A) : nremove (X ++ h :: Y) (nlen X) = X ++ Y.
Proof.
  unfold nlen. induction X as [|x X IH]; cbn [app length nremove]; [reflexivity|].
  replace (N.of_nat (S (length X)) =? 0) with false by (symmetry; apply N.eqb_neq; lia).
  replace (N.pred (N.of_nat (S (length X)))) with (N.of_nat (length X)) by lia. now rewrite IH.
Qed.
Lemma nlen_app {A} (X Y : list A) : nlen (X ++ Y) = nlen X + nlen Y.
Proof. unfold nlen. rewrite app_length. lia. Qed.
Lemma nlen_cons {A} (x : A) (X : list A) : nlen (x :: X) = nlen X + 1.
Proof. unfold nlen. cbn [length]. lia. Qed.

Section P.
Context {H : Type}.
Variable heqb : H -> H -> bool.
Hypothesis heqb_spec : forall a b, heqb a b = true <-> a = b.
Variable pr : H -> prio.              (* priority of a handler *)
Variable ord : H -> N.                (* its addition number *)

Definition seg (p : prio) (X : list H) : Prop :=
  Forall (fun h => pr h = p) X /\ StronglySorted (fun a b => ord a < ord b) X.
Definition HlInv (l : hlist H) : Prop :=
  exists Hs Ms Ls, hl_entries l = Hs ++ Ms ++ Ls /\ hl_before l = nlen Hs /\ hl_after l = nlen Hs + nlen Ms /\
                   seg High Hs /\ seg Medium Ms /\ seg Low Ls.

Lemma hl_new_inv : HlInv hl_new.
Proof. exists [], [], []. cbn. repeat split; constructor. Qed.

Lemma seg_snoc p X h : seg p X -> pr h = p -> (forall x, In x X -> ord x < ord h) -> seg p (X ++ [h]).
Proof.
  intros [Hf Hs] Hp Hlt. split.
  - apply Forall_app. split; [auto|constructor; auto].
  - induction X as [|x X IH]; cbn; [repeat constructor|].
    inversion Hs; subst. inversion Hf; subst. constructor.
    + apply IH; auto. intros y Hy. apply Hlt. now right.
    + apply Forall_app. split; [auto|constructor; [apply Hlt; now left|constructor]].
Qed.

Ltac hl_split := split; [|split; [|split; [|split; [|split]]]].

Theorem insert_inv l h : HlInv l -> (forall x, In x (hl_entries l) -> ord x < ord h) -> HlInv (hl_insert l h (pr h)).
Proof.
  intros (Hs & Ms & Ls & He & Hb & Ha & SH & SM & SL) Hnew. unfold hl_insert.
  assert (inH : forall x, In x Hs -> ord x < ord h) by (intros; apply Hnew; rewrite He; apply in_or_app; auto).
  assert (inM : forall x, In x Ms -> ord x < ord h) by (intros; apply Hnew; rewrite He; apply in_or_app; right; apply in_or_app; auto).
  assert (inL : forall x, In x Ls -> ord x < ord h) by (intros; apply Hnew; rewrite He; apply in_or_app; right; apply in_or_app; auto).
  destruct (pr h) eqn:Ep; cbn [hl_before hl_after hl_entries].
  - exists (Hs ++ [h]), Ms, Ls. rewrite He, Hb, ninsert_at_len, nlen_app. cbn.
    hl_split; [now rewrite <- app_assoc|unfold nlen; cbn; lia|unfold nlen in *; cbn; lia|apply seg_snoc; auto|exact SM|exact SL].
  - exists Hs, (Ms ++ [h]), Ls. rewrite He, Ha, app_assoc, <- nlen_app, ninsert_at_len, !nlen_app.
    hl_split; [now rewrite <- !app_assoc|auto|unfold nlen; cbn; lia|exact SH|apply seg_snoc; auto|exact SL].
  - exists Hs, Ms, (Ls ++ [h]). rewrite He.
    hl_split; [now rewrite <- !app_assoc|auto|auto|exact SH|exact SM|apply seg_snoc; auto].
Qed.

Lemma nposition_split h : forall l idx, nposition (heqb h) l = Some idx ->
  exists X Y, l = X ++ h :: Y /\ nlen X = idx.
Proof.
  induction l as [|x t IH]; intros idx Hp; cbn in Hp; [discriminate|].
  destruct (heqb h x) eqn:E.
  - apply heqb_spec in E. subst x. inversion Hp; subst. exists [], t. auto.
  - destruct (nposition (heqb h) t) as [j|] eqn:Ej; [|discriminate]. inversion Hp; subst.
    destruct (IH _ eq_refl) as (X & Y & -> & Hl). exists (x :: X), Y. split; [reflexivity|].
    rewrite nlen_cons, Hl. lia.
Qed.

Lemma seg_remove p X Y h : seg p (X ++ h :: Y) -> seg p (X ++ Y).
Proof.
  intros [Hf Hs]. split.
  - apply Forall_app in Hf as [F1 F2]. inversion F2; subst. apply Forall_app; auto.
  - induction X as [|x X IH]; cbn in *.
    + now inversion Hs.
    + apply StronglySorted_inv in Hs as [Hs' Hx]. inversion Hf; subst. constructor; [apply IH; auto|].
      apply Forall_app in Hx as [G1 G2]. inversion G2; subst. apply Forall_app; auto.
Qed.

Lemma app_split_at {A} (X Y P Q : list A) (h : A) : X ++ h :: Y = P ++ Q ->
  (exists P2, P = X ++ h :: P2 /\ Y = P2 ++ Q) \/ (exists Q1, X = P ++ Q1 /\ Q = Q1 ++ h :: Y).
Proof.
  revert P. induction X as [|x X IH]; intros P E; cbn in E.
  - destruct P as [|p P]; cbn in E.
    + right. exists []. auto.
    + inversion E; subst. left. exists P. auto.
  - destruct P as [|p P]; cbn in E.
    + right. exists (x :: X). auto.
    + inversion E as [[E1 E2]]; subst. destruct (IH _ E2) as [(P2 & -> & ->)|(Q1 & -> & ->)].
      * left. exists P2. auto.
      * right. exists Q1. auto.
Qed.

Theorem remove_inv l h : HlInv l -> HlInv (hl_remove heqb l h).
Proof.
  intros (Hs & Ms & Ls & He & Hb & Ha & SH & SM & SL). unfold hl_remove.
  destruct (nposition (heqb h) (hl_entries l)) as [idx|] eqn:Ep; [|exists Hs, Ms, Ls; hl_split; auto].
  destruct (nposition_split _ _ _ Ep) as (X & Y & Hxy & Hlen).
  assert (Hrem : nremove (hl_entries l) idx = X ++ Y) by (rewrite Hxy, <- Hlen; apply nremove_at_len).
  rewrite Hrem. rewrite He in Hxy. symmetry in Hxy.
  destruct (app_split_at _ _ _ _ _ Hxy) as [(H2 & EH & EY)|(Q1 & EX & EQ)].
  - (* h in the High segment *)
    subst Hs Y. rewrite nlen_app, nlen_cons in Hb, Ha.
    assert (idx <? hl_after l = true) as -> by (apply N.ltb_lt; lia).
    assert (idx <? hl_before l = true) as -> by (apply N.ltb_lt; lia).
    exists (X ++ H2), Ms, Ls. cbn [hl_before hl_after hl_entries]. rewrite nlen_app.
    hl_split; [now rewrite <- app_assoc|lia|lia|eapply seg_remove; eauto|exact SM|exact SL].
  - symmetry in EQ. destruct (app_split_at _ _ _ _ _ EQ) as [(M2 & EM & EY)|(L1 & EQ1 & EL)].
    + (* h in the Medium segment *)
      subst X Ms Y. rewrite !nlen_app, ?nlen_cons in *.
      assert (idx <? hl_after l = true) as -> by (apply N.ltb_lt; lia).
      assert (idx <? hl_before l = false) as -> by (apply N.ltb_ge; lia).
      exists Hs, (Q1 ++ M2), Ls. cbn [hl_before hl_after hl_entries]. rewrite nlen_app.
      hl_split; [now rewrite <- !app_assoc|lia|lia|exact SH|eapply seg_remove; eauto|exact SL].
    + (* h in the Low segment *)
      subst X Q1 Ls. rewrite !nlen_app in *.
      assert (idx <? hl_after l = false) as -> by (apply N.ltb_ge; lia).
      exists Hs, Ms, (L1 ++ Y). cbn [hl_before hl_after hl_entries].
      hl_split; [now rewrite <- !app_assoc|lia|lia|exact SH|exact SM|eapply seg_remove; eauto].
Qed.

(* the order every delivery iterates in: High before Medium before Low, each by addition number *)
Definition rank (p : prio) : nat := match p with High => 0 | Medium => 1 | Low => 2 end.
Definition before_in_order (a b : H) : Prop :=
  (rank (pr a) < rank (pr b))%nat \/ (rank (pr a) = rank (pr b) /\ ord a < ord b).

Theorem hl_sorted l : HlInv l -> StronglySorted before_in_order (hl_entries l).
Proof.
  intros (Hs & Ms & Ls & -> & _ & _ & [FH SH] & [FM SM] & [FL SL]).
  assert (G : forall p X, Forall (fun h => pr h = p) X -> StronglySorted (fun a b => ord a < ord b) X ->
              forall Z, Forall (fun z => (rank p < rank (pr z))%nat) Z -> StronglySorted before_in_order Z ->
              StronglySorted before_in_order (X ++ Z)).
  { intros p X. induction X as [|x X IH]; intros FX SX Z FZ SZ; cbn; [auto|].
    pose proof (Forall_inv FX) as Px. pose proof (Forall_inv_tail FX) as FX'. cbn beta in Px.
    apply StronglySorted_inv in SX as [SX' Lx]. constructor; [apply IH; auto|].
    apply Forall_app. split.
    - rewrite Forall_forall in *. intros y Hy. right. split; [now rewrite Px, (FX' _ Hy)|auto].
    - rewrite Forall_forall in *. intros z Hz. left. rewrite Px. auto. }
  apply (G High); auto.
  - apply Forall_app. split; rewrite Forall_forall in *; intros z Hz; [rewrite (FM _ Hz)|rewrite (FL _ Hz)]; cbn; lia.
  - apply (G Medium); auto.
    + rewrite Forall_forall in *. intros z Hz. rewrite (FL _ Hz). cbn. lia.
    + rewrite <- (app_nil_r Ls). apply (G Low); auto. constructor.
Qed.

(* removal removes: a list without duplicates no longer contains the removed handler, and the
   relative order of all others is unchanged *)
Lemma hl_remove_entries l h :
  hl_entries (hl_remove heqb l h) =
  match nposition (heqb h) (hl_entries l) with Some idx => nremove (hl_entries l) idx | None => hl_entries l end.
Proof. unfold hl_remove. destruct (nposition (heqb h) (hl_entries l)) as [idx|]; [|reflexivity]. destruct (idx <? hl_after l); reflexivity. Qed.

Theorem remove_not_in l h : NoDup (hl_entries l) -> ~ In h (hl_entries (hl_remove heqb l h)).
Proof.
  intros Hnd. rewrite hl_remove_entries.
  destruct (nposition (heqb h) (hl_entries l)) as [idx|] eqn:Ep.
  - destruct (nposition_split _ _ _ Ep) as (X & Y & Hxy & Hlen). rewrite Hxy, <- Hlen, nremove_at_len.
    rewrite Hxy in Hnd. apply NoDup_remove_2 in Hnd. exact Hnd.
  - intros Hin. clear Hnd. induction (hl_entries l) as [|x t IH]; [destruct Hin|].
    cbn in Ep. destruct (heqb h x) eqn:E; [discriminate|].
    destruct (nposition (heqb h) t); [discriminate|]. destruct Hin as [->|Hin]; [|auto].
    assert (heqb h h = true) by (apply heqb_spec; reflexivity). congruence.
Qed.

Theorem remove_keeps_others l h : exists X Y,
  (hl_entries l = X ++ h :: Y /\ hl_entries (hl_remove heqb l h) = X ++ Y) \/
  (hl_entries (hl_remove heqb l h) = hl_entries l /\ X = [] /\ Y = []).
Proof.
  rewrite hl_remove_entries. destruct (nposition (heqb h) (hl_entries l)) as [idx|] eqn:Ep.
  - destruct (nposition_split _ _ _ Ep) as (X & Y & Hxy & Hlen). exists X, Y. left.
    split; [exact Hxy|]. rewrite Hxy, <- Hlen. apply nremove_at_len.
  - exists [], []. right. auto.
Qed.
End P.
