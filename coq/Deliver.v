(* Deliver.v : what ONE delivery of a structural event does to the abstract map (entity, component) -> value,
   for every handler behaviour (C09, C02).
     - the handlers of the event run first and see the map as it was: they can change VALUES of existing cells
       (through &mut items) but not which cells exist (handlers_preserve_structure), so presence before the
       effect = presence before the delivery;
     - then, if no handler took the event and none panicked, the effect is applied exactly once to the world the
       handlers left: Insert sets (target, c) to the event's value and touches no other cell; Remove deletes
       (target, c) and touches no other cell; Despawn deletes every cell of the target and no other entity's;
     - if a handler took the event, nothing but the handlers' value writes happened. *)
From Coq Require Import List NArith Bool Lia Sorted.
Import ListNotations.
Require Import EV.Base EV.ListN EV.Access EV.Query EV.SlotMap EV.Reserve EV.HList EV.Loop EV.World EV.SlotMapGet
  EV.ArchProofs EV.WorldFrame EV.Store EV.Graph EV.Effects EV.Reach.
Open Scope N_scope.

Lemma abs_presence_1 w w' : structure w' = structure w -> forall e c, abs w e c = None -> abs w' e c = None.
Proof.
  intros Hs e c. unfold abs. rewrite (structure_ents _ _ Hs). destruct (sm_get e (w_ents w)) as [[ai row]|]; [|auto].
  destruct (arch_at w ai) as [a|] eqn:Ea.
  - destruct (arch_at_structure w w' Hs ai a Ea) as (a' & Ea' & Hc & Hr & _). rewrite Ea'.
    pose proof (f_equal (fun l => nget l row) Hr) as Hrow. cbn beta in Hrow. rewrite !nget_map in Hrow.
    destruct (nget (a_rows a) row) as [[e0 vals]|], (nget (a_rows a') row) as [[e1 vals']|]; cbn in Hrow; try discriminate; [|auto].
    unfold rshape in Hrow. cbn [fst snd] in Hrow. inversion Hrow as [[He Hl]]. unfold row_col. rewrite Hc.
    destruct (col_index (a_comps a) c) as [ci|]; [|auto]. intros Hn. apply nget_none_ge in Hn. apply nget_ge_none. unfold nlen in *. lia.
  - (* no such archetype in w: then none in w' either (the slab shapes agree) *)
    intros _. destruct (arch_at w' ai) as [a'|] eqn:Ea'; [|reflexivity].
    destruct (arch_at_structure w' w (eq_sym Hs) ai a' Ea') as (a & X & _). congruence.
Qed.
Lemma abs_presence w w' : structure w' = structure w -> forall e c, abs w' e c = None <-> abs w e c = None.
Proof. intros Hs e c. split; [apply abs_presence_1; now symmetry|now apply abs_presence_1]. Qed.

Section Deliver.
Variable beh : hinfo -> logent -> N -> script.

(* the common shape of a delivery to a live target *)
Lemma deliver_one_targeted it w k info loc a :
  qi_targeted it = true -> get_by_index (w_tev w) (qi_idx it) = Some (k, info) ->
  sm_get (qi_target it) (w_ents w) = Some loc -> slab_get (w_archs w) (fst loc) = Some a ->
  deliver_one beh it w =
    (let hl := match alookup (qi_idx it) (a_listeners a) with Some l => hl_entries l | None => [] end in
     let '(w1, ev, sent, taken, fl) := run_handlers beh hl w it (e_tag info) loc [] in
     match fl with
     | Some f => (sent, (if taken then w1 else ev_drop w1 true (e_tag info) ev), Some f)
     | None => if taken then (sent, w1, None) else
         match e_kind info with
         | KNormal => (sent, ev_drop w1 true (e_tag info) ev, None)
         | _ => let '(w3, f) := fail_of (builtin_effect (e_kind info) ev loc w1) in (sent, w3, f)
         end
     end).
Proof. intros Ht Hg Hl Ha. unfold deliver_one. rewrite Ht, Hg, Hl, Ha. reflexivity. Qed.

Theorem deliver_structural it w k info loc a w1 ev sent taken :
  WInv w -> qi_targeted it = true -> get_by_index (w_tev w) (qi_idx it) = Some (k, info) ->
  sm_get (qi_target it) (w_ents w) = Some loc -> slab_get (w_archs w) (fst loc) = Some a ->
  run_handlers beh (match alookup (qi_idx it) (a_listeners a) with Some l => hl_entries l | None => [] end) w it (e_tag info) loc []
    = (w1, ev, sent, taken, None) ->
  let e := qi_target it in
  (* what the handlers did *)
  WInv w1 /\ w_ents w1 = w_ents w /\ (forall e' c', abs w1 e' c' = None <-> abs w e' c' = None) /\
  (* what the delivery did *)
  (taken = true -> deliver_one beh it w = (sent, w1, None)) /\
  (taken = false -> match e_kind info with
     | KInsert c => exists w3, deliver_one beh it w = (sent, w3, None) /\ WInv w3 /\
                     abs w3 e c = Some (ev_ser ev, ev_val ev) /\ (forall c', c' <> c -> abs w3 e c' = abs w1 e c') /\
                     (forall e' c', e' <> e -> abs w3 e' c' = abs w1 e' c')
     | KRemove c => exists w3, deliver_one beh it w = (sent, w3, None) /\ WInv w3 /\
                     abs w3 e c = None /\ (forall c', c' <> c -> abs w3 e c' = abs w1 e c') /\
                     (forall e' c', e' <> e -> abs w3 e' c' = abs w1 e' c')
     | KDespawn => exists w3 f, deliver_one beh it w = (sent, w3, f) /\ WInv w3 /\
                     (f = None -> sm_get e (w_ents w3) = None /\ (forall c', abs w3 e c' = None) /\
                                  (forall e' c', e' <> e -> sm_get e' (w_ents w1) <> None -> abs w3 e' c' = abs w1 e' c')) /\
                     (f <> None -> f = Some (FPanic 5))
     | _ => True
     end).
Proof.
  intros HW Ht Hg Hl Ha Hrun e.
  pose proof (handlers_preserve_structure beh (match alookup (qi_idx it) (a_listeners a) with Some l => hl_entries l | None => [] end) w it (e_tag info) loc []) as Hs. rewrite Hrun in Hs. cbn [fst] in Hs.
  pose proof (WInv_structure w w1 Hs HW) as HW1. pose proof (structure_ents _ _ Hs) as He1.
  split; [exact HW1|]. split; [exact He1|]. split; [exact (abs_presence w w1 Hs)|].
  rewrite (deliver_one_targeted it w k info loc a Ht Hg Hl Ha). cbn zeta. rewrite Hrun.
  split; [intros ->; reflexivity|]. intros ->.
  assert (Hl1 : sm_get e (w_ents w1) = Some loc) by (unfold e; now rewrite He1).
  pose proof HW1 as (Hst1 & Hg1 & _). destruct loc as [sai srow].
  destruct (e_kind info) as [|c|c| |] eqn:Ek; try exact I.
  - destruct (insert_effect_ok w1 e sai srow c (ev_ser ev, ev_val ev) Hst1 Hg1 Hl1) as (w3 & E & Hst3 & Hg3 & A & B & C & Hmono).
    cbn [builtin_effect fst]. unfold cval in E. rewrite E. cbn [fail_of]. exists w3. split; [reflexivity|]. split; [|auto].
    split; [exact Hst3|split; [exact Hg3|]]. destruct HW1 as (_ & _ & H0). now apply Hmono.
  - destruct (remove_effect_ok w1 e sai srow c Hst1 Hg1 Hl1) as (w3 & E & Hst3 & Hg3 & A & B & C & Hmono).
    cbn [builtin_effect fst]. rewrite E. cbn [fail_of]. exists w3. split; [reflexivity|]. split; [|auto].
    split; [exact Hst3|split; [exact Hg3|]]. destruct HW1 as (_ & _ & H0). now apply Hmono.
  - pose proof (despawn_effect_ok w1 e (sai, srow) HW1 Hl1) as Hd. cbn [builtin_effect].
    destruct (do (_, w2) <- spawn_all w1; do (_, w3) <- remove_entity w2 (sai, srow); ROk tt (refresh_cursor w3)) as [[] w3|f w3]; cbn [fail_of].
    + destruct Hd as (HW3 & Hgone & Hoth & Hdead & _). exists w3, None. split; [reflexivity|]. split; [exact HW3|]. split; [|congruence].
      intros _. split; [exact Hgone|]. split; [intros c'; unfold abs; now rewrite Hgone|]. intros e' c' Hne Hlive. exact (proj2 (Hoth e' Hne Hlive) c').
    + destruct Hd as [-> Hext]. exists w3, (Some (FPanic 5)). split; [reflexivity|]. split; [exact (proj1 Hext)|]. split; [discriminate|auto].
Qed.
End Deliver.
