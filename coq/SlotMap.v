(* ---- SlotMap.v (prototype) : src/slot_map.rs with explicit u32 generation arithmetic ---- *)
From Coq Require Import List NArith Bool Lia PeanoNat.
Import ListNotations.
Require Import EV.Base.
Open Scope N_scope.

Definition wrap_succ (g : N) : N := (g + 1) mod TWO32.

Section SM.
Variable V : Type.
Record slot := mkSlot { gen : N; link : N; val : option V }.   (* link = union.next_free, val = union.value *)
Record smap := mkSm { slots : list slot; next_free : N; sm_len : N }.

(* indices stay in N: the model must run with next_free = U32MAX without building a unary number *)
Fixpoint sget (l : list slot) (i : N) : option slot :=
  match l with
  | [] => None
  | h :: t => if i =? 0 then Some h else sget t (N.pred i)
  end.
Fixpoint supd (l : list slot) (i : N) (s : slot) : list slot :=
  match l with
  | [] => []
  | h :: t => if i =? 0 then s :: t else h :: supd t (N.pred i) s
  end.
(* proof-side view through nth_error *)
Fixpoint upd (l : list slot) (i : nat) (s : slot) : list slot :=
  match l, i with
  | [], _ => []
  | _ :: t, O => s :: t
  | h :: t, S j => h :: upd t j s
  end.

Definition sm_empty : smap := mkSm [] U32MAX 0.

Definition insert_with (f : key -> V) (m : smap) : option (key * smap) :=
  match sget (slots m) (next_free m) with
  | Some s =>
      let k := (next_free m, gen s + 1) in
      Some (k, mkSm (supd (slots m) (next_free m) (mkSlot (gen s + 1) (link s) (Some (f k))))
                    (link s) (sm_len m + 1))
  | None =>
      let index := N.of_nat (length (slots m)) in
      if index =? U32MAX then None
      else let k := (index, 1) in
           Some (k, mkSm (slots m ++ [mkSlot 1 0 (Some (f k))]) (next_free m) (sm_len m + 1))
  end.

Definition sm_remove (k : key) (m : smap) : option (V * smap) :=
  match sget (slots m) (fst k) with
  | None => None
  | Some s =>
      if gen s =? snd k then
        match val s with
        | None => None
        | Some v =>
            let g' := wrap_succ (gen s) in
            if g' =? 0
            then Some (v, mkSm (supd (slots m) (fst k) (mkSlot 0 (link s) None)) (next_free m) (sm_len m - 1))
            else Some (v, mkSm (supd (slots m) (fst k) (mkSlot g' (next_free m) None)) (fst k) (sm_len m - 1))
        end
      else None
  end.

Definition sm_get (k : key) (m : smap) : option V :=
  match sget (slots m) (fst k) with
  | Some s => if gen s =? snd k then val s else None
  | None => None
  end.

(* ---------- list plumbing ---------- *)
Lemma sget_nth l : forall i, sget l i = nth_error l (N.to_nat i).
Proof.
  induction l as [|h t IH]; intros i; cbn [sget].
  - now destruct (N.to_nat i).
  - destruct (N.eqb_spec i 0) as [->|Hn]; [reflexivity|]. rewrite IH.
    replace (N.to_nat i) with (S (N.to_nat (N.pred i))) by lia. reflexivity.
Qed.
Lemma supd_upd l : forall i s, supd l i s = upd l (N.to_nat i) s.
Proof.
  induction l as [|h t IH]; intros i s; cbn [supd].
  - now destruct (N.to_nat i).
  - destruct (N.eqb_spec i 0) as [->|Hn]; [reflexivity|]. rewrite IH.
    replace (N.to_nat i) with (S (N.to_nat (N.pred i))) by lia. reflexivity.
Qed.
Lemma upd_length l : forall i s, length (upd l i s) = length l.
Proof. induction l as [|h t IH]; intros [|i] s; cbn; auto. Qed.
Lemma nth_upd_eq l : forall i s, (i < length l)%nat -> nth_error (upd l i s) i = Some s.
Proof. induction l as [|h t IH]; intros [|i] s H; cbn in *; try lia; auto. apply IH. lia. Qed.
Lemma nth_upd_neq l : forall i j s, i <> j -> nth_error (upd l i s) j = nth_error l j.
Proof. induction l as [|h t IH]; intros [|i] [|j] s H; cbn; auto; try congruence. Qed.
Lemma sget_supd_eq l i s s0 : sget l i = Some s0 -> sget (supd l i s) i = Some s.
Proof. rewrite supd_upd, !sget_nth. intros H. apply nth_upd_eq. apply nth_error_Some. congruence. Qed.
Lemma sget_supd_neq l i j s : i <> j -> sget (supd l i s) j = sget l j.
Proof. rewrite supd_upd, !sget_nth. intros H. apply nth_upd_neq. lia. Qed.
Lemma sget_lt l i s : sget l i = Some s -> i < N.of_nat (length l).
Proof. rewrite sget_nth. intros H. assert (N.to_nat i < length l)%nat by (apply nth_error_Some; congruence). lia. Qed.
Lemma sget_app_old l x i s : sget l i = Some s -> sget (l ++ [x]) i = Some s.
Proof. rewrite !sget_nth. intros H. rewrite nth_error_app1; auto. apply nth_error_Some. congruence. Qed.
Lemma sget_app_inv l x i s : sget (l ++ [x]) i = Some s -> sget l i = Some s \/ (i = N.of_nat (length l) /\ s = x).
Proof.
  rewrite !sget_nth. intros H. destruct (Nat.lt_ge_cases (N.to_nat i) (length l)) as [L|G].
  - left. now rewrite nth_error_app1 in H.
  - right. rewrite nth_error_app2 in H by lia.
    destruct (N.to_nat i - length l)%nat as [|n] eqn:E; cbn in H.
    + inversion H. split; [lia|reflexivity].
    + destruct n; discriminate.
Qed.

(* ---------- the structural invariant ---------- *)
Inductive chain (l : list slot) : N -> list N -> Prop :=
| ch_nil : chain l U32MAX []
| ch_cons i s rest : sget l i = Some s -> N.even (gen s) = true -> gen s <> 0 ->
                     chain l (link s) rest -> chain l i (i :: rest).

Definition slot_ok (s : slot) : Prop := gen s < TWO32 /\ (N.odd (gen s) = true <-> val s <> None).
Definition SmInv (m : smap) : Prop :=
  (exists c, chain (slots m) (next_free m) c /\ NoDup c) /\
  (forall i s, sget (slots m) i = Some s -> slot_ok s) /\
  N.of_nat (length (slots m)) <= U32MAX.

Lemma chain_supd_notin l i s : forall h c, chain l h c -> ~ In i c -> chain (supd l i s) h c.
Proof.
  intros h c H. induction H as [|j sj rest Hg He Hn Hc IH]; intros Hin; [constructor|].
  econstructor; eauto.
  - rewrite sget_supd_neq; eauto. intros ->. apply Hin. now left.
  - apply IH. intros X. apply Hin. now right.
Qed.
Lemma chain_app l x : forall h c, chain l h c -> chain (l ++ [x]) h c.
Proof. intros h c H. induction H; [constructor|econstructor; eauto using sget_app_old]. Qed.
Lemma chain_members_even l : forall h c, chain l h c -> forall i, In i c -> exists s, sget l i = Some s /\ N.even (gen s) = true.
Proof. intros h c H. induction H as [|j sj rest Hg He Hn Hc IH]; intros i Hi; [destruct Hi|]. destruct Hi as [<-|Hi]; eauto. Qed.
Lemma chain_head l h c : N.of_nat (length l) <= U32MAX -> chain l h c -> forall s, sget l h = Some s ->
  exists rest, c = h :: rest /\ N.even (gen s) = true /\ gen s <> 0 /\ chain l (link s) rest.
Proof.
  intros Hb H s Hs. destruct H as [|j sj rest Hg He Hn Hc].
  - apply sget_lt in Hs. lia.
  - rewrite Hg in Hs. inversion Hs; subst. eauto.
Qed.

Lemma even_succ_odd g : N.even g = true -> N.odd (g + 1) = true.
Proof. intros H. rewrite N.add_1_r, N.odd_succ. exact H. Qed.
Lemma odd_not_even g : N.odd g = true -> N.even g = false.
Proof. intros H. rewrite <- N.negb_odd, H. reflexivity. Qed.

(* ---------- preservation ---------- *)
Lemma insert_inv f m k m' : SmInv m -> insert_with f m = Some (k, m') -> SmInv m'.
Proof.
  intros ((c & Hc & Hnd) & Hok & Hb) H. unfold insert_with in H.
  destruct (sget (slots m) (next_free m)) as [s|] eqn:Es.
  - inversion H; subst; clear H. unfold SmInv; cbn [slots next_free sm_len].
    destruct (chain_head _ _ _ Hb Hc _ Es) as (rest & -> & Hev & Hnz & Hrest).
    inversion Hnd; subst. split; [|split].
    + exists rest. split; [apply chain_supd_notin; auto|auto].
    + intros j s' Hj. destruct (N.eq_dec (next_free m) j) as [<-|Hne].
      * erewrite sget_supd_eq in Hj by eauto. inversion Hj; subst. split; cbn.
        -- destruct (Hok _ _ Es) as [Hlt _]. assert (gen s <> U32MAX). { intros E. rewrite E in Hev. discriminate. } unfold TWO32, U32MAX in *. lia.
        -- split; [discriminate|intros _; now apply even_succ_odd].
      * rewrite sget_supd_neq in Hj by auto. eauto.
    + now rewrite supd_upd, upd_length.
  - destruct (N.of_nat (length (slots m)) =? U32MAX) eqn:El; [discriminate|]. apply N.eqb_neq in El.
    inversion H; subst; clear H. unfold SmInv; cbn [slots next_free sm_len]. split; [|split].
    + exists c. split; [now apply chain_app|auto].
    + intros j s' Hj. apply sget_app_inv in Hj. destruct Hj as [Hj|[_ ->]]; eauto.
      split; cbn; [unfold TWO32; lia|split; [discriminate|reflexivity]].
    + rewrite app_length. cbn. lia.
Qed.

Lemma remove_inv k m v m' : SmInv m -> sm_remove k m = Some (v, m') -> SmInv m'.
Proof.
  intros ((c & Hc & Hnd) & Hok & Hb) H. unfold sm_remove in H.
  destruct (sget (slots m) (fst k)) as [s|] eqn:Es; [|discriminate].
  destruct (gen s =? snd k) eqn:Eg; [|discriminate].
  destruct (val s) as [v0|] eqn:Ev; [|discriminate].
  destruct (Hok _ _ Es) as [Hlt Hodd].
  assert (Ho : N.odd (gen s) = true) by (apply Hodd; congruence).
  assert (Hnotin : ~ In (fst k) c).
  { intros Hin. destruct (chain_members_even _ _ _ Hc _ Hin) as (s' & Hs' & He'). rewrite Es in Hs'. inversion Hs'; subst.
    rewrite (odd_not_even _ Ho) in He'. discriminate. }
  destruct (wrap_succ (gen s) =? 0) eqn:Ew; inversion H; subst; clear H; unfold SmInv; cbn [slots next_free sm_len].
  - split; [|split].
    + exists c. split; [apply chain_supd_notin; auto|auto].
    + intros j s' Hj. destruct (N.eq_dec (fst k) j) as [<-|Hne].
      * erewrite sget_supd_eq in Hj by eauto. inversion Hj; subst. split; cbn; [unfold TWO32; lia|split; [discriminate|congruence]].
      * rewrite sget_supd_neq in Hj by auto. eauto.
    + now rewrite supd_upd, upd_length.
  - apply N.eqb_neq in Ew.
    assert (Hg' : wrap_succ (gen s) = gen s + 1).
    { unfold wrap_succ in *. destruct (N.eq_dec (gen s + 1) TWO32) as [E|E].
      - rewrite E, N.mod_same in Ew by (unfold TWO32; lia). congruence.
      - apply N.mod_small. lia. }
    split; [|split].
    + exists (fst k :: c). split; [|constructor; auto].
      econstructor.
      * eapply sget_supd_eq; eauto.
      * cbn. rewrite Hg', N.add_1_r, N.even_succ. exact Ho.
      * cbn. rewrite Hg'. lia.
      * cbn. apply chain_supd_notin; auto.
    + intros j s' Hj. destruct (N.eq_dec (fst k) j) as [<-|Hne].
      * erewrite sget_supd_eq in Hj by eauto. inversion Hj; subst. split; cbn.
        -- rewrite Hg'. assert (gen s + 1 <> TWO32). { intros E. unfold wrap_succ in Ew. rewrite E, N.mod_same in Ew by (unfold TWO32; lia). congruence. } lia.
        -- rewrite Hg', N.add_1_r, N.odd_succ, (odd_not_even _ Ho). split; [discriminate|congruence].
      * rewrite sget_supd_neq in Hj by auto. eauto.
    + now rewrite supd_upd, upd_length.
Qed.

Lemma empty_inv : SmInv sm_empty.
Proof. split; [|split]; cbn. - exists []. split; constructor. - intros i s H. discriminate. - unfold U32MAX; lia. Qed.

(* ---------- history: every key ever issued stays "covered" by its slot's generation ---------- *)
Definition covered (g kg : N) : Prop := g = 0 \/ kg <= g.
Definition Hist (m : smap) (issued : list key) : Prop :=
  forall k, In k issued -> exists s, sget (slots m) (fst k) = Some s /\ covered (gen s) (snd k).

Theorem sm_fresh f m issued k m' :
  SmInv m -> Hist m issued -> insert_with f m = Some (k, m') ->
  ~ In k issued /\ Hist m' (k :: issued) /\ sm_get k m' = Some (f k).
Proof.
  intros ((c & Hc & Hnd) & Hok & Hb) Hh H. unfold insert_with in H.
  destruct (sget (slots m) (next_free m)) as [s|] eqn:Es.
  - inversion H; subst; clear H.
    destruct (chain_head _ _ _ Hb Hc _ Es) as (rest & -> & Hev & Hnz & Hrest).
    split; [|split].
    + intros Hin. destruct (Hh _ Hin) as (s' & Hs' & Hcov). cbn in *. rewrite Es in Hs'. inversion Hs'; subst.
      destruct Hcov; [congruence|lia].
    + intros k' [<-|Hin]; cbn [slots fst snd].
      * eexists. split; [eapply sget_supd_eq; eauto|right; cbn; lia].
      * destruct (Hh _ Hin) as (s' & Hs' & Hcov). destruct (N.eq_dec (next_free m) (fst k')) as [E|E].
        -- rewrite <- E in *. rewrite Es in Hs'. inversion Hs'; subst. eexists. split; [eapply sget_supd_eq; eauto|].
           cbn. destruct Hcov; [congruence|right; lia].
        -- eexists. split; [rewrite sget_supd_neq; eauto|auto].
    + unfold sm_get. cbn [slots fst snd]. erewrite sget_supd_eq by eauto. cbn. now rewrite N.eqb_refl.
  - destruct (N.of_nat (length (slots m)) =? U32MAX) eqn:El; [discriminate|].
    inversion H; subst; clear H. split; [|split].
    + intros Hin. destruct (Hh _ Hin) as (s' & Hs' & _). apply sget_lt in Hs'. cbn in Hs'. lia.
    + intros k' [<-|Hin]; cbn [slots fst snd].
      * exists (mkSlot 1 0 (Some (f (N.of_nat (length (slots m)), 1)))). split; [|right; cbn; lia]. rewrite sget_nth. rewrite nth_error_app2 by lia.
        replace (N.to_nat (N.of_nat (length (slots m))) - length (slots m))%nat with 0%nat by lia. reflexivity.
      * destruct (Hh _ Hin) as (s' & Hs' & Hcov). eexists. split; [eapply sget_app_old; eauto|auto].
    + unfold sm_get. cbn [slots fst snd]. rewrite sget_nth. rewrite nth_error_app2 by lia.
      replace (N.to_nat (N.of_nat (length (slots m))) - length (slots m))%nat with 0%nat by lia. reflexivity.
Qed.

Lemma remove_hist k m v m' issued : SmInv m -> Hist m issued -> sm_remove k m = Some (v, m') -> Hist m' issued.
Proof.
  intros ((c & Hc & Hnd) & Hok & Hb) Hh H. unfold sm_remove in H.
  destruct (sget (slots m) (fst k)) as [s|] eqn:Es; [|discriminate].
  destruct (gen s =? snd k) eqn:Eg; [|discriminate].
  destruct (val s) as [v0|] eqn:Ev; [|discriminate].
  destruct (Hok _ _ Es) as [Hlt Hodd]. assert (Ho : N.odd (gen s) = true) by (apply Hodd; congruence). clear Hodd.
  destruct (wrap_succ (gen s) =? 0) eqn:Ew; inversion H; subst; clear H; intros k' Hin;
    destruct (Hh _ Hin) as (s' & Hs' & Hcov); cbn [slots];
    (destruct (N.eq_dec (fst k) (fst k')) as [E|E];
     [rewrite <- E in *; rewrite Es in Hs'; inversion Hs'; subst; eexists; split; [eapply sget_supd_eq; eauto|]
     |eexists; split; [rewrite sget_supd_neq; eauto|auto]]).
  - left. reflexivity.
  - cbn. apply N.eqb_neq in Ew. unfold wrap_succ in *.
    destruct (N.eq_dec (gen s' + 1) TWO32) as [E'|E'].
    + rewrite E', N.mod_same in Ew by (unfold TWO32; lia). congruence.
    + rewrite N.mod_small by lia. destruct Hcov as [Z|L]; [rewrite Z in Ho; discriminate|right; lia].
Qed.

(* ---------- a removed key never becomes valid again, across wrap-around and retirement ---------- *)
Definition Dead (m : smap) (k : key) : Prop :=
  exists s, sget (slots m) (fst k) = Some s /\ (gen s = 0 \/ snd k < gen s).

Lemma dead_get m k : N.odd (snd k) = true -> Dead m k -> sm_get k m = None.
Proof.
  intros Hk (s & Hs & Hd). unfold sm_get. rewrite Hs. destruct (gen s =? snd k) eqn:E; [|reflexivity].
  apply N.eqb_eq in E. destruct Hd as [Z|L]; [|lia]. rewrite <- E, Z in Hk. discriminate.
Qed.

Lemma remove_dead k m v m' : SmInv m -> sm_remove k m = Some (v, m') -> Dead m' k.
Proof.
  intros (_ & Hok & _) H. unfold sm_remove in H.
  destruct (sget (slots m) (fst k)) as [s|] eqn:Es; [|discriminate].
  destruct (gen s =? snd k) eqn:Eg; [|discriminate]. apply N.eqb_eq in Eg.
  destruct (val s) as [v0|] eqn:Ev; [|discriminate]. destruct (Hok _ _ Es) as [Hlt _].
  destruct (wrap_succ (gen s) =? 0) eqn:Ew; inversion H; subst; clear H; eexists; (split; [cbn [slots]; eapply sget_supd_eq; eauto|]); cbn.
  - now left.
  - right. apply N.eqb_neq in Ew. unfold wrap_succ in *. destruct (N.eq_dec (gen s + 1) TWO32) as [E'|E'].
    + rewrite E', N.mod_same in Ew by (unfold TWO32; lia). congruence.
    + rewrite N.mod_small by lia. lia.
Qed.

Lemma dead_insert f m k0 m' k : SmInv m -> Dead m k -> insert_with f m = Some (k0, m') -> Dead m' k.
Proof.
  intros ((c & Hc & Hnd) & Hok & Hb) (s & Hs & Hd) H. unfold insert_with in H.
  destruct (sget (slots m) (next_free m)) as [s0|] eqn:Es.
  - inversion H; subst; clear H. destruct (chain_head _ _ _ Hb Hc _ Es) as (rest & -> & Hev & Hnz & Hrest).
    destruct (N.eq_dec (next_free m) (fst k)) as [E|E].
    + rewrite E in *. rewrite Es in Hs. inversion Hs; subst. eexists. split; [cbn [slots]; eapply sget_supd_eq; eauto|].
      cbn. destruct Hd; [congruence|right; lia].
    + eexists. split; [cbn [slots]; rewrite sget_supd_neq; eauto|auto].
  - destruct (N.of_nat (length (slots m)) =? U32MAX); [discriminate|]. inversion H; subst; clear H.
    eexists. split; [cbn [slots]; eapply sget_app_old; eauto|auto].
Qed.

Lemma dead_remove m k1 v m' k : SmInv m -> Dead m k -> sm_remove k1 m = Some (v, m') -> Dead m' k.
Proof.
  intros (_ & Hok & _) (s & Hs & Hd) H. unfold sm_remove in H.
  destruct (sget (slots m) (fst k1)) as [s1|] eqn:Es; [|discriminate].
  destruct (gen s1 =? snd k1) eqn:Eg; [|discriminate].
  destruct (val s1) as [v0|] eqn:Ev; [|discriminate]. destruct (Hok _ _ Es) as [Hlt Hodd].
  assert (Ho : N.odd (gen s1) = true) by (apply Hodd; congruence). clear Hodd.
  destruct (wrap_succ (gen s1) =? 0) eqn:Ew; inversion H; subst; clear H;
    (destruct (N.eq_dec (fst k1) (fst k)) as [E|E];
     [rewrite E in *; rewrite Es in Hs; inversion Hs; subst; eexists; split; [cbn [slots]; eapply sget_supd_eq; eauto|]
     |eexists; split; [cbn [slots]; rewrite sget_supd_neq; eauto|auto]]); cbn.
  - now left.
  - apply N.eqb_neq in Ew. unfold wrap_succ in *. destruct (N.eq_dec (gen s + 1) TWO32) as [E'|E'].
    + rewrite E', N.mod_same in Ew by (unfold TWO32; lia). congruence.
    + rewrite N.mod_small by lia. destruct Hd as [Z|L]; [rewrite Z in Ho; discriminate|right; lia].
Qed.

(* ---------- lifted to every operation sequence ---------- *)
Inductive sm_op := OIns (f : key -> V) | ORem (k : key).
Definition sm_step (st : smap * list key) (o : sm_op) : smap * list key :=
  match o with
  | OIns f => match insert_with f (fst st) with Some (k, m') => (m', k :: snd st) | None => st end
  | ORem k => match sm_remove k (fst st) with Some (_, m') => (m', snd st) | None => st end
  end.

Theorem sm_all_keys_distinct ops :
  let st := fold_left sm_step ops (sm_empty, []) in SmInv (fst st) /\ Hist (fst st) (snd st) /\ NoDup (snd st).
Proof.
  cbn zeta. assert (G : forall ops st, SmInv (fst st) -> Hist (fst st) (snd st) -> NoDup (snd st) ->
     let st' := fold_left sm_step ops st in SmInv (fst st') /\ Hist (fst st') (snd st') /\ NoDup (snd st')).
  { clear. induction ops as [|o ops IH]; intros [m iss] Hi Hh Hn; cbn [fold_left]; [auto|].
    destruct o as [f|k]; cbn [sm_step fst snd].
    - destruct (insert_with f m) as [[k m']|] eqn:E; cbn [fst snd].
      + destruct (sm_fresh _ _ _ _ _ Hi Hh E) as (Hf & Hh' & _).
        apply IH; cbn [fst snd]; [eapply insert_inv; eauto|exact Hh'|constructor; auto].
      + apply IH; auto.
    - destruct (sm_remove k m) as [[v m']|] eqn:E; cbn [fst snd].
      + apply IH; cbn [fst snd]; [eapply remove_inv; eauto|eapply remove_hist; eauto|auto].
      + apply IH; auto. }
  apply G; cbn; [apply empty_inv|intros k []|constructor].
Qed.

Theorem sm_never_again k m v m' ops :
  N.odd (snd k) = true -> SmInv m -> sm_remove k m = Some (v, m') ->
  sm_get k (fst (fold_left sm_step ops (m', []))) = None.
Proof.
  intros Hk Hi Hr. assert (Hi' : SmInv m') by exact (remove_inv _ _ _ _ Hi Hr).
  assert (Hd : Dead m' k) by exact (remove_dead _ _ _ _ Hi Hr).
  apply dead_get; auto. clear Hr Hi. generalize (@nil key) as iss. revert m' Hi' Hd.
  induction ops as [|o ops IH]; intros m' Hi' Hd iss; cbn [fold_left fst]; auto.
  destruct o as [f|k1]; cbn [sm_step fst snd].
  - destruct (insert_with f m') as [[k0 m'']|] eqn:E; cbn [fst snd]; [|apply IH; auto].
    apply IH; [eapply insert_inv; eauto|eapply dead_insert; eauto].
  - destruct (sm_remove k1 m') as [[v1 m'']|] eqn:E; cbn [fst snd]; [|apply IH; auto].
    apply IH; [eapply remove_inv; eauto|eapply dead_remove; eauto].
Qed.
End SM.
Arguments sget {V}.
Arguments upd {V}.
Arguments supd {V}.
Arguments sm_empty {V}.
Arguments insert_with {V}.
Arguments sm_remove {V}.
Arguments sm_get {V}.
Arguments upd_length {V}.
Arguments nth_upd_eq {V}.
Arguments nth_upd_neq {V}.
Arguments sget_supd_eq {V}.
Arguments sget_supd_neq {V}.
Arguments sget_lt {V}.
Arguments sget_app_old {V}.
Arguments sget_app_inv {V}.
Arguments chain {V}.
Arguments slot_ok {V}.
Arguments SmInv {V}.
Arguments chain_supd_notin {V}.
Arguments chain_app {V}.
Arguments chain_members_even {V}.
Arguments chain_head {V}.
Arguments insert_inv {V}.
Arguments remove_inv {V}.
Arguments empty_inv {V}.
Arguments Hist {V}.
Arguments sm_fresh {V}.
Arguments remove_hist {V}.
Arguments Dead {V}.
Arguments dead_get {V}.
Arguments remove_dead {V}.
Arguments dead_insert {V}.
Arguments dead_remove {V}.
Arguments sm_op {V}.
Arguments sm_step {V}.
Arguments sm_all_keys_distinct {V}.
Arguments sm_never_again {V}.
Arguments mkSlot {V}.
Arguments gen {V}.
Arguments link {V}.
Arguments val {V}.
Arguments mkSm {V}.
Arguments slots {V}.
Arguments next_free {V}.
Arguments sm_len {V}.
Arguments ch_nil {V}.
Arguments ch_cons {V}.
Arguments OIns {V}.
Arguments ORem {V}.
Check sm_all_keys_distinct. Check sm_never_again.
Print Assumptions sm_all_keys_distinct. Print Assumptions sm_never_again.
