(* Member.v : the component-registry side of the invariant (C14, C17):
     K1  member_of of every live component lists, without repetition, exactly the live archetypes
         that have the component;
     K2  archetypes only mention live components;
     K3  every targeted Insert/Remove event is about a live component and is recorded in that
         component's insert/remove event lists;
   and its preservation by every call, so that World::remove_component (whose archetype removal
   trusts member_of) can join the calls of the reachability theorem. *)
From Coq Require Import List NArith Bool Lia Sorted.
Import ListNotations.
Require Import EV.Base EV.ListN EV.Access EV.Query EV.SlotMap EV.Reserve EV.HList EV.Loop EV.World EV.SlotMapGet
  EV.ArchProofs EV.QueryProofs EV.WorldFrame EV.Store EV.Graph EV.Effects EV.Reach EV.RemoveComp.
Open Scope N_scope.

Definition comp_live (w : world) (c : N) : Prop := get_by_index (w_comps w) c <> None.

Definition KInv (w : world) : Prop :=
  SmInv (w_comps w) /\ SmInv (w_tev w) /\
  (forall c k ci, get_by_index (w_comps w) c = Some (k, ci) ->
     NoDup (c_member_of ci) /\
     forall ai, In ai (c_member_of ci) <-> exists a, arch_at w ai = Some a /\ In c (a_comps a)) /\
  (forall ai a c, arch_at w ai = Some a -> In c (a_comps a) -> comp_live w c) /\
  (forall i k info c, get_by_index (w_tev w) i = Some (k, info) -> (e_kind info = KInsert c \/ e_kind info = KRemove c) ->
     exists kc ci, get_by_index (w_comps w) c = Some (kc, ci) /\ In k (c_ins ci ++ c_rem ci)).

(* the archetypes' component lists, slot by slot *)
Definition cshape_entry (e : sentry) : option (list N) := match e with SOcc a => Some (a_comps a) | SVac _ => None end.
Definition cshape (s : slab) : list (option (list N)) := map cshape_entry (sl_entries s).

Lemma cshape_arch_at w w' : cshape (w_archs w') = cshape (w_archs w) ->
  forall ai, option_map a_comps (arch_at w' ai) = option_map a_comps (arch_at w ai).
Proof.
  intros H ai. unfold arch_at, slab_get.
  assert (E : option_map cshape_entry (nget (sl_entries (w_archs w')) ai) = option_map cshape_entry (nget (sl_entries (w_archs w)) ai)).
  { rewrite <- !nget_map. unfold cshape in H. now rewrite H. }
  destruct (nget (sl_entries (w_archs w')) ai) as [[a'|n']|], (nget (sl_entries (w_archs w)) ai) as [[a|n]|]; cbn in *; congruence.
Qed.

Lemma KInv_ext w w' : w_comps w' = w_comps w -> w_tev w' = w_tev w -> cshape (w_archs w') = cshape (w_archs w) -> KInv w -> KInv w'.
Proof.
  intros Hc Ht Hs (S1 & S2 & K1 & K2 & K3). pose proof (cshape_arch_at w w' Hs) as Ha.
  assert (Hfw : forall ai a', arch_at w' ai = Some a' -> exists a, arch_at w ai = Some a /\ a_comps a = a_comps a').
  { intros ai a' H. specialize (Ha ai). rewrite H in Ha. destruct (arch_at w ai) as [a|]; cbn in Ha; [|discriminate]. exists a. split; [reflexivity|congruence]. }
  assert (Hbw : forall ai a, arch_at w ai = Some a -> exists a', arch_at w' ai = Some a' /\ a_comps a' = a_comps a).
  { intros ai a H. specialize (Ha ai). rewrite H in Ha. destruct (arch_at w' ai) as [a'|]; cbn in Ha; [|discriminate]. exists a'. split; [reflexivity|congruence]. }
  unfold KInv, comp_live. rewrite Hc, Ht. split; [exact S1|]. split; [exact S2|]. split; [|split; [|exact K3]].
  - intros c k ci Hg. destruct (K1 c k ci Hg) as [Hnd Hm]. split; [exact Hnd|]. intros ai. rewrite Hm. split.
    + intros (a & Ha' & Hin). destruct (Hbw _ _ Ha') as (a' & Ha'' & Hc'). exists a'. split; [exact Ha''|now rewrite Hc'].
    + intros (a' & Ha' & Hin). destruct (Hfw _ _ Ha') as (a & Ha'' & Hc'). exists a. split; [exact Ha''|now rewrite Hc'].
  - intros ai a' c Ha' Hin. destruct (Hfw _ _ Ha') as (a & Ha'' & Hc'). eapply K2; eauto. now rewrite Hc'.
Qed.

Lemma structure_cshape w w' : structure w' = structure w -> cshape (w_archs w') = cshape (w_archs w) /\ w_comps w' = w_comps w.
Proof.
  unfold structure. intros H. injection H as He Hc Hsh Hn Hb. split; [|exact Hc]. unfold cshape.
  set (g := fun x : (list N * list (key * nat) * list (N * N) * list (N * N)) + N => match x with inl (cs, _, _, _) => Some cs | inr _ => None end).
  assert (Hce : forall l, map cshape_entry l = map g (map ashape l)).
  { intros l. rewrite map_map. apply map_ext. intros [a|n]; reflexivity. }
  now rewrite !Hce, Hsh.
Qed.

Lemma KInv_structure w w' : structure w' = structure w -> w_tev w' = w_tev w -> KInv w -> KInv w'.
Proof. intros Hs Ht. destruct (structure_cshape w w' Hs) as [A B]. now apply KInv_ext. Qed.

(* ---------- replacing an archetype by one with the same components keeps cshape ---------- *)
Lemma cshape_set s i a0 a : slab_get s i = Some a0 -> a_comps a = a_comps a0 -> cshape (slab_set s i a) = cshape s.
Proof.
  unfold slab_get, slab_set, cshape. cbn [sl_entries]. intros Hg Hc. destruct (nget (sl_entries s) i) as [[a1|]|] eqn:E; try discriminate. inversion Hg; subst a1.
  revert i E. induction (sl_entries s) as [|h t IH]; intros i E; [discriminate|]. cbn [nget] in E. cbn [nset]. destruct (i =? 0).
  - inversion E; subst h. cbn [map cshape_entry]. now rewrite Hc.
  - cbn [map]. f_equal. eapply IH; eauto.
Qed.
Lemma slab_get_set_same s i a0 a : slab_get s i = Some a0 -> slab_get (slab_set s i a) i = Some a.
Proof. apply slab_get_set_eq. Qed.

Lemma cshape_upd_arch w ai f : (forall a, a_comps (f a) = a_comps a) -> cshape (w_archs (upd_arch w ai f)) = cshape (w_archs w).
Proof. intros H. unfold upd_arch. destruct (slab_get (w_archs w) ai) as [a|] eqn:E; [|reflexivity]. cbn [w_archs set_archs]. eapply cshape_set; eauto. Qed.

Lemma reserve_one_comps a : a_comps (fst (reserve_one a)) = a_comps a.
Proof. unfold reserve_one. destruct (nlen (a_rows a) =? a_cap a); reflexivity. Qed.

Lemma cshape_move_entity w src dst nw : cshape (w_archs (res_world (move_entity w src dst nw))) = cshape (w_archs w).
Proof.
  unfold move_entity. destruct src as [sai srow]. destruct (slab_get (w_archs w) sai) as [sa|] eqn:Hsa; [|reflexivity].
  destruct (sai =? dst) eqn:Esd.
  - destruct nw as [[c v]|]; [|reflexivity]. destruct (nget (a_rows sa) srow) as [[e vals]|]; [|reflexivity]. destruct (col_index (a_comps sa) c); [|reflexivity].
    cbn [res_world w_archs set_archs]. unfold drop_cval. destruct (ctag_has_drop _); cbn [w_archs log_drop set_drops]; eapply cshape_set; eauto.
  - destruct (slab_get (w_archs w) dst) as [da|] eqn:Hda; [|reflexivity]. destruct (nget (a_rows sa) srow) as [[e vals]|]; [|reflexivity].
    destruct (reserve_one da) as [da1 re] eqn:Hres. destruct (merge_row _ _ _ _ _) as [[dvals killed]|]; [|reflexivity].
    set (w1 := fold_left _ killed w). assert (A1 : w_archs w1 = w_archs w) by apply drops_fold_archs.
    assert (Hc1 : a_comps da1 = a_comps da) by (pose proof (reserve_one_comps da) as X; now rewrite Hres in X).
    set (w2 := set_archs w1 _).
    assert (C2 : cshape (w_archs w2) = cshape (w_archs w)).
    { unfold w2. cbn [w_archs set_archs]. rewrite A1. apply N.eqb_neq in Esd.
      erewrite cshape_set; [eapply cshape_set; [exact Hsa|reflexivity]| |cbn [a_comps set_rows]; exact Hc1].
      rewrite slab_get_set_neq by exact Esd. exact Hda. }
    assert (Hsl : forall w0 e0 l, w_archs (res_world (set_loc w0 e0 l)) = w_archs w0) by (intros; unfold set_loc; now destruct (sm_get _ _)).
    destruct (set_loc w2 e (dst, nlen (a_rows da1))) as [[] w3|f w3] eqn:E3; cbn [rbind]; [|cbn [res_world]; pose proof (Hsl w2 e (dst, nlen (a_rows da1))) as X; rewrite E3 in X; cbn in X; now rewrite X].
    assert (A3 : w_archs w3 = w_archs w2) by (pose proof (Hsl w2 e (dst, nlen (a_rows da1))) as X; rewrite E3 in X; exact X).
    set (r4 := match nget _ srow with Some _ => _ | None => _ end).
    assert (A4 : w_archs (res_world r4) = w_archs w3).
    { unfold r4. destruct (nget _ srow) as [[se sv]|]; [|reflexivity]. destruct (sm_get se (w_ents w3)); [apply Hsl|reflexivity]. }
    destruct r4 as [[] w4|f w4]; cbn [rbind res_world] in *; [|now rewrite A4, A3].
    destruct (_ || _); destruct (nlen _ =? 0); rewrite ?notify_refresh_archs, ?notify_remove_archs, A4, A3; exact C2.
Qed.

Lemma cshape_remove_entity w loc : cshape (w_archs (res_world (remove_entity w loc))) = cshape (w_archs w).
Proof.
  unfold remove_entity. destruct loc as [ai row]. destruct (slab_get (w_archs w) ai) as [a|] eqn:Ha; [|reflexivity].
  destruct (nget (a_rows a) row) as [[e vals]|]; [|reflexivity].
  set (w1 := fold_left _ (combine (a_comps a) vals) w). assert (A1 : w_archs w1 = w_archs w) by apply drops_fold_archs.
  set (w2 := set_archs w1 _).
  assert (C2 : cshape (w_archs w2) = cshape (w_archs w)) by (unfold w2; cbn [w_archs set_archs]; rewrite A1; eapply cshape_set; [exact Ha|reflexivity]).
  destruct (sm_remove e (w_ents w2)) as [[v ents']|]; [|exact C2].
  assert (Hsl : forall w0 e0 l, w_archs (res_world (set_loc w0 e0 l)) = w_archs w0) by (intros; unfold set_loc; now destruct (sm_get _ _)).
  set (r4 := match nget _ row with Some _ => _ | None => _ end).
  assert (A4 : w_archs (res_world r4) = w_archs w2).
  { unfold r4. destruct (nget _ row) as [[de dv]|]; [|reflexivity]. destruct (sm_get de _); [rewrite Hsl; reflexivity|reflexivity]. }
  destruct r4 as [[] w4|f w4]; cbn [rbind res_world] in *; [|now rewrite A4].
  destruct (nlen _ =? 0); rewrite ?notify_remove_archs, A4; exact C2.
Qed.

Lemma cshape_arch_spawn w e : cshape (w_archs (snd (arch_spawn w e))) = cshape (w_archs w).
Proof.
  unfold arch_spawn. destruct (slab_get (w_archs w) 0) as [a0|] eqn:Ha; [|reflexivity].
  destruct (reserve_one a0) as [a1 re] eqn:Hres.
  assert (Hc1 : a_comps a1 = a_comps a0) by (revert Hres; unfold reserve_one; destruct (_ =? _); intros Hres; inversion Hres; subst; reflexivity).
  destruct (_ || re); cbn [snd]; rewrite ?notify_refresh_archs; cbn [w_archs set_archs]; (eapply cshape_set; [exact Ha|cbn [a_comps set_rows]; exact Hc1]).
Qed.

Lemma cshape_spawn_all_n n : forall w, cshape (w_archs (res_world (spawn_all_n n w))) = cshape (w_archs w).
Proof.
  induction n as [|n IH]; intros w; cbn [spawn_all_n]; [reflexivity|].
  destruct (insert_with (fun _ => (0, 0)) (w_ents w)) as [[k m]|]; [|reflexivity].
  pose proof (cshape_arch_spawn w k) as Hs. destruct (arch_spawn w k) as [loc w1]. cbn [snd] in Hs.
  destruct (insert_with (fun _ => loc) (w_ents w1)) as [[k' ents']|]; [|exact Hs]. rewrite IH. exact Hs.
Qed.
Lemma cshape_spawn_all w : cshape (w_archs (res_world (spawn_all w))) = cshape (w_archs w).
Proof.
  unfold spawn_all. pose proof (cshape_spawn_all_n (N.to_nat (w_rcnt w)) w) as H.
  destruct (spawn_all_n _ w) as [[] w1|f w1]; exact H.
Qed.
