(* Member.v : the component-registry side of the invariant (C14, C17):
     K1  member_of of every live component lists, without repetition, exactly the live archetypes
         that have the component;
     K2  archetypes only mention live components;
     K3  every targeted Insert/Remove event is about a live component and is recorded in that
         component's insert/remove event lists;
   and its preservation by every call, so that World::remove_component (whose archetype removal
   trusts member_of) can join the calls of the reachability theorem. *)
From Coq Require Import List NArith Bool Lia Sorted.
Import ListNotations.
Require Import EV.Base EV.ListN EV.Access EV.Query EV.QueryInd EV.SlotMap EV.Reserve EV.HList EV.Loop EV.World EV.SlotMapGet
  EV.ArchProofs EV.WorldFrame EV.Store EV.Graph EV.Effects EV.Reach EV.RemoveComp.
Open Scope N_scope.

Definition comp_live (w : world) (c : N) : Prop := get_by_index (w_comps w) c <> None.

Definition KInv (w : world) : Prop :=
  SmInv (w_comps w) /\ SmInv (w_tev w) /\
  (forall c k ci, get_by_index (w_comps w) c = Some (k, ci) ->
     NoDup (c_member_of ci) /\
     forall ai, In ai (c_member_of ci) <-> exists a, arch_at w ai = Some a /\ In c (a_comps a)) /\
  (forall ai a c, arch_at w ai = Some a -> In c (a_comps a) -> comp_live w c) /\
  (forall i k info c, get_by_index (w_tev w) i = Some (k, info) -> (e_kind info = KInsert c \/ e_kind info = KRemove c) ->
     exists kc ci, get_by_index (w_comps w) c = Some (kc, ci) /\ In k (c_ins ci ++ c_rem ci)) /\
  (forall tag k, alookup tag (w_cby w) = Some k -> exists ci, sm_get k (w_comps w) = Some ci /\ c_tag ci = tag).

(* the archetypes' component lists, slot by slot *)
Definition cshape_entry (e : sentry) : option (list N) := match e with SOcc a => Some (a_comps a) | SVac _ => None end.
Definition cshape (s : slab) : list (option (list N)) := map cshape_entry (sl_entries s).

Lemma cshape_arch_at w w' : cshape (w_archs w') = cshape (w_archs w) ->
  forall ai, option_map a_comps (arch_at w' ai) = option_map a_comps (arch_at w ai).
Proof.
  intros H ai. unfold arch_at, slab_get.
  assert (E : option_map cshape_entry (nget (sl_entries (w_archs w')) ai) = option_map cshape_entry (nget (sl_entries (w_archs w)) ai)).
  { rewrite <- !nget_map. unfold cshape in H. now rewrite H. }
  destruct (nget (sl_entries (w_archs w')) ai) as [[a'|n']|], (nget (sl_entries (w_archs w)) ai) as [[a|n]|]; cbn in *; congruence.
Qed.

Lemma KInv_ext w w' : w_comps w' = w_comps w -> w_cby w' = w_cby w -> w_tev w' = w_tev w -> cshape (w_archs w') = cshape (w_archs w) -> KInv w -> KInv w'.
Proof.
  intros Hc Hcb Ht Hs (S1 & S2 & K1 & K2 & K3 & K5). pose proof (cshape_arch_at w w' Hs) as Ha.
  assert (Hfw : forall ai a', arch_at w' ai = Some a' -> exists a, arch_at w ai = Some a /\ a_comps a = a_comps a').
  { intros ai a' H. specialize (Ha ai). rewrite H in Ha. destruct (arch_at w ai) as [a|]; cbn in Ha; [|discriminate]. exists a. split; [reflexivity|congruence]. }
  assert (Hbw : forall ai a, arch_at w ai = Some a -> exists a', arch_at w' ai = Some a' /\ a_comps a' = a_comps a).
  { intros ai a H. specialize (Ha ai). rewrite H in Ha. destruct (arch_at w' ai) as [a'|]; cbn in Ha; [|discriminate]. exists a'. split; [reflexivity|congruence]. }
  unfold KInv, comp_live. rewrite Hc, Ht, Hcb. split; [exact S1|]. split; [exact S2|]. split; [|split; [|split; [exact K3|exact K5]]].
  - intros c k ci Hg. destruct (K1 c k ci Hg) as [Hnd Hm]. split; [exact Hnd|]. intros ai. rewrite Hm. split.
    + intros (a & Ha' & Hin). destruct (Hbw _ _ Ha') as (a' & Ha'' & Hc'). exists a'. split; [exact Ha''|now rewrite Hc'].
    + intros (a' & Ha' & Hin). destruct (Hfw _ _ Ha') as (a & Ha'' & Hc'). exists a. split; [exact Ha''|now rewrite Hc'].
  - intros ai a' c Ha' Hin. destruct (Hfw _ _ Ha') as (a & Ha'' & Hc'). eapply K2; eauto. now rewrite Hc'.
Qed.

Lemma structure_cshape w w' : structure w' = structure w -> cshape (w_archs w') = cshape (w_archs w) /\ w_comps w' = w_comps w /\ w_cby w' = w_cby w.
Proof.
  unfold structure. intros H. injection H as Hcb He Hc Hsh Hn Hb. split; [|split; [exact Hc|exact Hcb]]. unfold cshape.
  set (g := fun x : (list N * list (key * nat) * list (N * N) * list (N * N)) + N => match x with inl (cs, _, _, _) => Some cs | inr _ => None end).
  assert (Hce : forall l, map cshape_entry l = map g (map ashape l)).
  { intros l. rewrite map_map. apply map_ext. intros [a|n]; reflexivity. }
  now rewrite !Hce, Hsh.
Qed.

Lemma KInv_structure w w' : structure w' = structure w -> w_tev w' = w_tev w -> KInv w -> KInv w'.
Proof. intros Hs Ht. destruct (structure_cshape w w' Hs) as (A & B & C). now apply KInv_ext. Qed.

(* ---------- replacing an archetype by one with the same components keeps cshape ---------- *)
Lemma cshape_set s i a0 a : slab_get s i = Some a0 -> a_comps a = a_comps a0 -> cshape (slab_set s i a) = cshape s.
Proof.
  unfold slab_get, slab_set, cshape. cbn [sl_entries]. intros Hg Hc. destruct (nget (sl_entries s) i) as [[a1|]|] eqn:E; try discriminate. inversion Hg; subst a1.
  revert i E. induction (sl_entries s) as [|h t IH]; intros i E; [discriminate|]. cbn [nget] in E. cbn [nset]. destruct (i =? 0).
  - inversion E; subst h. cbn [map cshape_entry]. now rewrite Hc.
  - cbn [map]. f_equal. eapply IH; eauto.
Qed.
Lemma slab_get_set_same s i a0 a : slab_get s i = Some a0 -> slab_get (slab_set s i a) i = Some a.
Proof. apply slab_get_set_eq. Qed.

Lemma cshape_upd_arch w ai f : (forall a, a_comps (f a) = a_comps a) -> cshape (w_archs (upd_arch w ai f)) = cshape (w_archs w).
Proof. intros H. unfold upd_arch. destruct (slab_get (w_archs w) ai) as [a|] eqn:E; [|reflexivity]. cbn [w_archs set_archs]. eapply cshape_set; eauto. Qed.

Lemma reserve_one_comps a : a_comps (fst (reserve_one a)) = a_comps a.
Proof. unfold reserve_one. destruct (nlen (a_rows a) =? a_cap a); reflexivity. Qed.

Lemma cshape_move_entity w src dst nw : cshape (w_archs (res_world (move_entity w src dst nw))) = cshape (w_archs w).
Proof.
  unfold move_entity. destruct src as [sai srow]. destruct (slab_get (w_archs w) sai) as [sa|] eqn:Hsa; [|reflexivity].
  destruct (sai =? dst) eqn:Esd.
  - destruct nw as [[c v]|]; [|reflexivity]. destruct (nget (a_rows sa) srow) as [[e vals]|]; [|reflexivity]. destruct (col_index (a_comps sa) c); [|reflexivity].
    cbn [res_world w_archs set_archs]. unfold drop_cval. destruct (ctag_has_drop _); cbn [w_archs log_drop set_drops]; eapply cshape_set; eauto.
  - destruct (slab_get (w_archs w) dst) as [da|] eqn:Hda; [|reflexivity]. destruct (nget (a_rows sa) srow) as [[e vals]|]; [|reflexivity].
    destruct (reserve_one da) as [da1 re] eqn:Hres. destruct (merge_row _ _ _ _ _) as [[dvals killed]|]; [|reflexivity].
    set (w1 := fold_left _ killed w). assert (A1 : w_archs w1 = w_archs w) by apply drops_fold_archs.
    assert (Hc1 : a_comps da1 = a_comps da) by (pose proof (reserve_one_comps da) as X; now rewrite Hres in X).
    set (w2 := set_archs w1 _).
    assert (C2 : cshape (w_archs w2) = cshape (w_archs w)).
    { unfold w2. cbn [w_archs set_archs]. rewrite A1. apply N.eqb_neq in Esd.
      erewrite cshape_set; [eapply cshape_set; [exact Hsa|reflexivity]| |cbn [a_comps set_rows]; exact Hc1].
      rewrite slab_get_set_neq by exact Esd. exact Hda. }
    assert (Hsl : forall w0 e0 l, w_archs (res_world (set_loc w0 e0 l)) = w_archs w0) by (intros; unfold set_loc; now destruct (sm_get _ _)).
    destruct (set_loc w2 e (dst, nlen (a_rows da1))) as [[] w3|f w3] eqn:E3; cbn [rbind]; [|cbn [res_world]; pose proof (Hsl w2 e (dst, nlen (a_rows da1))) as X; rewrite E3 in X; cbn in X; now rewrite X].
    assert (A3 : w_archs w3 = w_archs w2) by (pose proof (Hsl w2 e (dst, nlen (a_rows da1))) as X; rewrite E3 in X; exact X).
    set (r4 := match nget _ srow with Some _ => _ | None => _ end).
    assert (A4 : w_archs (res_world r4) = w_archs w3).
    { unfold r4. destruct (nget _ srow) as [[se sv]|]; [|reflexivity]. destruct (sm_get se (w_ents w3)); [apply Hsl|reflexivity]. }
    destruct r4 as [[] w4|f w4]; cbn [rbind res_world] in *; [|now rewrite A4, A3].
    destruct (_ || _); destruct (nlen _ =? 0); rewrite ?notify_refresh_archs, ?notify_remove_archs, A4, A3; exact C2.
Qed.

Lemma cshape_remove_entity w loc : cshape (w_archs (res_world (remove_entity w loc))) = cshape (w_archs w).
Proof.
  unfold remove_entity. destruct loc as [ai row]. destruct (slab_get (w_archs w) ai) as [a|] eqn:Ha; [|reflexivity].
  destruct (nget (a_rows a) row) as [[e vals]|]; [|reflexivity].
  set (w1 := fold_left _ (combine (a_comps a) vals) w). assert (A1 : w_archs w1 = w_archs w) by apply drops_fold_archs.
  set (w2 := set_archs w1 _).
  assert (C2 : cshape (w_archs w2) = cshape (w_archs w)) by (unfold w2; cbn [w_archs set_archs]; rewrite A1; eapply cshape_set; [exact Ha|reflexivity]).
  destruct (sm_remove e (w_ents w2)) as [[v ents']|]; [|exact C2].
  assert (Hsl : forall w0 e0 l, w_archs (res_world (set_loc w0 e0 l)) = w_archs w0) by (intros; unfold set_loc; now destruct (sm_get _ _)).
  set (r4 := match nget _ row with Some _ => _ | None => _ end).
  assert (A4 : w_archs (res_world r4) = w_archs w2).
  { unfold r4. destruct (nget _ row) as [[de dv]|]; [|reflexivity]. destruct (sm_get de _); [rewrite Hsl; reflexivity|reflexivity]. }
  destruct r4 as [[] w4|f w4]; cbn [rbind res_world] in *; [|now rewrite A4].
  destruct (nlen _ =? 0); rewrite ?notify_remove_archs, A4; exact C2.
Qed.

Lemma cshape_arch_spawn w e : cshape (w_archs (snd (arch_spawn w e))) = cshape (w_archs w).
Proof.
  unfold arch_spawn. destruct (slab_get (w_archs w) 0) as [a0|] eqn:Ha; [|reflexivity].
  destruct (reserve_one a0) as [a1 re] eqn:Hres.
  assert (Hc1 : a_comps a1 = a_comps a0) by (revert Hres; unfold reserve_one; destruct (_ =? _); intros Hres; inversion Hres; subst; reflexivity).
  destruct (_ || re); cbn [snd]; rewrite ?notify_refresh_archs; cbn [w_archs set_archs]; (eapply cshape_set; [exact Ha|cbn [a_comps set_rows]; exact Hc1]).
Qed.

Lemma cshape_spawn_all_n n : forall w, cshape (w_archs (res_world (spawn_all_n n w))) = cshape (w_archs w).
Proof.
  induction n as [|n IH]; intros w; cbn [spawn_all_n]; [reflexivity|].
  destruct (insert_with (fun _ => (0, 0)) (w_ents w)) as [[k m]|]; [|reflexivity].
  pose proof (cshape_arch_spawn w k) as Hs. destruct (arch_spawn w k) as [loc w1]. cbn [snd] in Hs.
  destruct (insert_with (fun _ => loc) (w_ents w1)) as [[k' ents']|]; [|exact Hs]. rewrite IH. exact Hs.
Qed.
Lemma cshape_spawn_all w : cshape (w_archs (res_world (spawn_all w))) = cshape (w_archs w).
Proof.
  unfold spawn_all. pose proof (cshape_spawn_all_n (N.to_nat (w_rcnt w)) w) as H.
  destruct (spawn_all_n _ w) as [[] w1|f w1]; exact H.
Qed.

(* ---------- updating the member_of lists of a set of components ---------- *)
Section FoldUpd.
Variables (skip : N -> bool) (f : cinfo -> cinfo).
Definition fold_upd (cs : list N) (m : smap cinfo) : smap cinfo :=
  fold_left (fun m c => if skip c then m else upd_by_index m c f) cs m.

Lemma fold_upd_inv cs : forall m, SmInv m -> SmInv (fold_upd cs m).
Proof. induction cs as [|c cs IH]; intros m Hi; cbn [fold_upd fold_left]; [exact Hi|]. apply IH. destruct (skip c); [exact Hi|now apply upd_index_inv]. Qed.

Lemma fold_upd_gbi cs : NoDup cs -> forall m i,
  get_by_index (fold_upd cs m) i =
    if existsb (N.eqb i) cs && negb (skip i) then match get_by_index m i with Some (k, v) => Some (k, f v) | None => None end
    else get_by_index m i.
Proof.
  induction cs as [|c cs IH]; intros Hnd m i; cbn [fold_upd fold_left existsb]; [reflexivity|].
  inversion Hnd as [|? ? Hni Hnd']; subst. fold (fold_upd cs (if skip c then m else upd_by_index m c f)). rewrite (IH Hnd').
  destruct (i =? c) eqn:E.
  - apply N.eqb_eq in E. subst i. cbn [orb].
    assert (Hex : existsb (N.eqb c) cs = false).
    { apply not_true_is_false. intros X. apply existsb_exists in X as (x & Hx & Ex). apply N.eqb_eq in Ex. subst. contradiction. }
    rewrite Hex. cbn [andb]. destruct (skip c); cbn [negb]; [reflexivity|]. now rewrite gbi_upd, N.eqb_refl.
  - cbn [orb]. destruct (skip c); [reflexivity|]. rewrite gbi_upd, E. reflexivity.
Qed.
End FoldUpd.

Lemma existsb_In i l : existsb (N.eqb i) l = true <-> In i l.
Proof. rewrite existsb_exists. split; [intros (x & Hx & E); apply N.eqb_eq in E; now subst|intros H; exists i; split; [exact H|apply N.eqb_refl]]. Qed.

Lemma sorted_NoDup l : StronglySorted N.lt l -> NoDup l.
Proof.
  induction 1 as [|x l Hs IH Hall]; constructor; [|exact IH]. intros Hin. rewrite Forall_forall in Hall. specialize (Hall x Hin). lia.
Qed.

(* ---------- create_arch ---------- *)
Lemma create_arch_fields w cs ins rem :
  w_comps (snd (create_arch w cs ins rem)) =
    fold_upd (fun _ => false) (fun ci => mkC (c_tag ci) (c_member_of ci ++ [slab_vacant_key (w_archs w)]) (c_ins ci) (c_rem ci)) cs (w_comps w) /\
  w_cby (snd (create_arch w cs ins rem)) = w_cby w /\ w_tev (snd (create_arch w cs ins rem)) = w_tev w.
Proof.
  unfold create_arch.
  match goal with |- context [fold_left ?g (w_horder ?w1) ?init] => destruct (fold_left g (w_horder w1) init) as [a1 hs1] end.
  cbn [snd w_comps w_cby w_tev set_archs set_aidx set_hs set_comps]. repeat split.
Qed.

Lemma create_arch_K w cs ins rem :
  KInv w -> SlabInv (w_archs w) -> NoDup cs -> (forall c, In c cs -> comp_live w c) ->
  KInv (snd (create_arch w cs ins rem)).
Proof.
  intros (S1 & S2 & K1 & K2 & K3 & K5) Hs Hnd Hlive.
  destruct (create_arch_spec w cs ins rem) as (a1 & Hcore & Hfst & Harchs & _ & _).
  destruct (create_arch_fields w cs ins rem) as (Hcomps & Hcby & Htev).
  set (w1 := snd (create_arch w cs ins rem)) in *. set (vk := slab_vacant_key (w_archs w)) in *.
  destruct (slab_insert_spec (w_archs w) a1 Hs) as (Hnew & Hvac & Hoth & _). fold vk in Hnew, Hvac, Hoth.
  assert (Hc1 : a_comps a1 = cs) by (destruct Hcore as (X & _); exact X).
  assert (Hat : forall j, arch_at w1 j = if j =? vk then Some a1 else arch_at w j).
  { intros j. unfold arch_at. rewrite Harchs. destruct (j =? vk) eqn:E; [apply N.eqb_eq in E; subst; exact Hnew|apply N.eqb_neq in E; now apply Hoth]. }
  set (fm := fun ci => mkC (c_tag ci) (c_member_of ci ++ [vk]) (c_ins ci) (c_rem ci)) in *.
  assert (Hg : forall i, get_by_index (w_comps w1) i =
     if existsb (N.eqb i) cs then match get_by_index (w_comps w) i with Some (k, v) => Some (k, fm v) | None => None end else get_by_index (w_comps w) i).
  { intros i. rewrite Hcomps, (fold_upd_gbi (fun _ => false) fm cs Hnd). cbn [negb]. now rewrite andb_true_r. }
  assert (Hlive' : forall c, comp_live w c -> comp_live w1 c).
  { unfold comp_live. intros c Hc. rewrite Hg. destruct (existsb (N.eqb c) cs); [|exact Hc]. destruct (get_by_index (w_comps w) c) as [[k v]|]; congruence. }
  split; [rewrite Hcomps; now apply fold_upd_inv|]. split; [now rewrite Htev|]. split; [|split; [|split]].
  - intros c k ci' Hgc. rewrite Hg in Hgc. destruct (existsb (N.eqb c) cs) eqn:Ec.
    + destruct (get_by_index (w_comps w) c) as [[k0 ci]|] eqn:E0; [|discriminate]. inversion Hgc; subst k0 ci'. destruct (K1 c k ci E0) as [Hnd0 Hm].
      assert (Hnvk : ~ In vk (c_member_of ci)). { intros X. apply Hm in X as (a & Ha & _). unfold arch_at in Ha. congruence. }
      cbn [c_member_of fm]. split; [apply NoDup_app_snoc; assumption|]. intros ai. rewrite in_app_iff, Hm, Hat. cbn [In]. split.
      * intros [(a & Ha & Hin)|[<-|[]]].
        -- exists a. split; [|exact Hin]. destruct (ai =? vk) eqn:E; [|exact Ha]. apply N.eqb_eq in E. subst. unfold arch_at in Ha. congruence.
        -- rewrite N.eqb_refl. exists a1. split; [reflexivity|]. rewrite Hc1. now apply existsb_In.
      * intros (a & Ha & Hin). destruct (ai =? vk) eqn:E; [apply N.eqb_eq in E; right; left; now subst|left; eauto].
    + destruct (K1 c k ci' Hgc) as [Hnd0 Hm]. split; [exact Hnd0|]. intros ai. rewrite Hm, Hat. split.
      * intros (a & Ha & Hin). exists a. split; [|exact Hin]. destruct (ai =? vk) eqn:E; [|exact Ha]. apply N.eqb_eq in E. subst. unfold arch_at in Ha. congruence.
      * intros (a & Ha & Hin). destruct (ai =? vk) eqn:E; [|eauto]. inversion Ha; subst a. rewrite Hc1 in Hin. apply existsb_In in Hin. congruence.
  - intros ai a c Ha Hin. rewrite Hat in Ha. apply Hlive'. destruct (ai =? vk); [inversion Ha; subst a; rewrite Hc1 in Hin; now apply Hlive|eapply K2; eauto].
  - intros i k info c Hgi Hk. rewrite Htev in Hgi. destruct (K3 i k info c Hgi Hk) as (kc & ci & Hgc & Hin). rewrite Hg, Hgc.
    destruct (existsb (N.eqb c) cs); [exists kc, (fm ci)|exists kc, ci]; split; auto.
  - intros tag k Hl. rewrite Hcby in Hl. destruct (K5 tag k Hl) as (ci & Hgk & Ht). pose proof (gbi_of_get _ _ _ Hgk) as Hgi.
    assert (X : exists ci', get_by_index (w_comps w1) (fst k) = Some (k, ci') /\ c_tag ci' = tag).
    { rewrite Hg, Hgi. destruct (existsb (N.eqb (fst k)) cs); [exists (fm ci)|exists ci]; split; auto. }
    destruct X as (ci' & Hg' & Ht'). exists ci'. split; [|exact Ht']. exact (proj2 (get_of_gbi _ _ _ _ Hg')).
Qed.

(* ---------- the effect primitives ---------- *)
Definition kreg (w : world) := (w_comps w, w_cby w, w_tev w).
Lemma KInv_kreg w w' : kreg w' = kreg w -> cshape (w_archs w') = cshape (w_archs w) -> KInv w -> KInv w'.
Proof. unfold kreg. intros H. injection H as A B C. now apply KInv_ext. Qed.

Lemma kreg_move_entity w src dst nw : kreg (res_world (move_entity w src dst nw)) = kreg w.
Proof. apply (r_move_entity kreg); fr. Qed.
Lemma kreg_remove_entity w loc : kreg (res_world (remove_entity w loc)) = kreg w.
Proof. apply (r_remove_entity kreg); fr. Qed.
Lemma kreg_spawn_all w : kreg (res_world (spawn_all w)) = kreg w.
Proof. apply (r_spawn_all kreg); fr. Qed.
Lemma kreg_upd_arch w ai f : kreg (upd_arch w ai f) = kreg w.
Proof. apply (r_upd_arch kreg); fr. Qed.

Lemma KInv_upd_edges w ai f : (forall a, a_comps (f a) = a_comps a) -> KInv w -> KInv (upd_arch w ai f).
Proof. intros H. apply KInv_kreg; [apply kreg_upd_arch|now apply cshape_upd_arch]. Qed.

Lemma traverse_insert_K w src c :
  KInv w -> GraphInv w -> comp_live w c -> KInv (res_world (traverse_insert w src c)).
Proof.
  intros HK (Hs & _ & _ & _ & _ & Hso) Hc. unfold traverse_insert. destruct (slab_get (w_archs w) src) as [sa|] eqn:Ha; [|exact HK].
  destruct (alookup c (a_ins sa)); [exact HK|]. destruct (arch_has sa c) eqn:Hh; [exact HK|].
  destruct (aby_lookup w (sorted_insert c (a_comps sa))); cbn [res_world]; [apply KInv_upd_edges; [reflexivity|exact HK]|].
  assert (Hsorted : StronglySorted N.lt (a_comps sa)) by (eapply Hso; exact Ha).
  assert (Hnin : ~ In c (a_comps sa)). { intros X. unfold arch_has in Hh. apply existsb_In in X. congruence. }
  pose proof (create_arch_K w (sorted_insert c (a_comps sa)) [] [(c, src)] HK Hs) as Hcr.
  destruct (create_arch w (sorted_insert c (a_comps sa)) [] [(c, src)]) as [d w1]. cbn [snd res_world] in *.
  apply KInv_upd_edges; [reflexivity|]. apply Hcr.
  - apply sorted_NoDup. now apply sorted_insert_sorted.
  - intros x Hx. apply sorted_insert_in in Hx as [->|Hx]; [exact Hc|]. destruct HK as (_ & _ & _ & K2 & _). eapply K2; eauto.
Qed.

Lemma filter_sorted (p : N -> bool) l : StronglySorted N.lt l -> StronglySorted N.lt (filter p l).
Proof.
  induction 1 as [|x l Hs IH Hall]; cbn [filter]; [constructor|]. destruct (p x); [|exact IH]. constructor; [exact IH|].
  rewrite Forall_forall in *. intros y Hy. apply filter_In in Hy as [Hy _]. now apply Hall.
Qed.

Lemma traverse_remove_K w src c :
  KInv w -> GraphInv w -> KInv (res_world (traverse_remove w src c)).
Proof.
  intros HK (Hs & _ & _ & _ & _ & Hso). unfold traverse_remove. destruct (slab_get (w_archs w) src) as [sa|] eqn:Ha; [|exact HK].
  destruct (alookup c (a_rem sa)); [exact HK|]. destruct (negb (arch_has sa c)); [exact HK|].
  destruct (aby_lookup w (filter (fun x => negb (x =? c)) (a_comps sa))); cbn [res_world]; [apply KInv_upd_edges; [reflexivity|exact HK]|].
  assert (Hsorted : StronglySorted N.lt (a_comps sa)) by (eapply Hso; exact Ha).
  pose proof (create_arch_K w (filter (fun x => negb (x =? c)) (a_comps sa)) [(c, src)] [] HK Hs) as Hcr.
  destruct (create_arch w (filter (fun x => negb (x =? c)) (a_comps sa)) [(c, src)] []) as [d w1]. cbn [snd res_world] in *.
  apply KInv_upd_edges; [reflexivity|]. apply Hcr.
  - apply sorted_NoDup. now apply filter_sorted.
  - intros x Hx. apply filter_In in Hx as [Hx _]. destruct HK as (_ & _ & _ & K2 & _). eapply K2; eauto.
Qed.

Lemma rbind_K {A B} (r : res A) (f : A -> world -> res B) (P : world -> Prop) :
  P (res_world r) -> (forall a w, P w -> P (res_world (f a w))) -> P (res_world (rbind r f)).
Proof. intros H1 H2. destruct r as [a w|e w]; cbn [rbind res_world] in *; auto. Qed.

Definition kind_comp_live (w : world) (k : ekind) : Prop :=
  match k with KInsert c | KRemove c => comp_live w c | _ => True end.

Lemma builtin_effect_K kind ev loc w :
  KInv w -> GraphInv w -> kind_comp_live w kind -> KInv (res_world (builtin_effect kind ev loc w)).
Proof.
  intros HK HG Hl. destruct kind as [|c|c| |]; cbn [builtin_effect].
  - exact HK.
  - pose proof (traverse_insert_K w (fst loc) c HK HG Hl) as H. destruct (traverse_insert w (fst loc) c) as [d w2|f w2]; cbn [rbind res_world] in *; [|exact H].
    eapply KInv_kreg; [apply kreg_move_entity|apply cshape_move_entity|exact H].
  - pose proof (traverse_remove_K w (fst loc) c HK HG) as H. destruct (traverse_remove w (fst loc) c) as [d w2|f w2]; cbn [rbind res_world] in *; [|exact H].
    eapply KInv_kreg; [apply kreg_move_entity|apply cshape_move_entity|exact H].
  - eapply KInv_kreg; [apply kreg_spawn_all|apply cshape_spawn_all|exact HK].
  - assert (H1 : KInv (res_world (spawn_all w))) by (eapply KInv_kreg; [apply kreg_spawn_all|apply cshape_spawn_all|exact HK]).
    destruct (spawn_all w) as [[] w2|f w2]; cbn [rbind res_world] in *; [|exact H1].
    assert (H2 : KInv (res_world (remove_entity w2 loc))) by (eapply KInv_kreg; [apply kreg_remove_entity|apply cshape_remove_entity|exact H1]).
    destruct (remove_entity w2 loc) as [[] w3|f w3]; cbn [rbind res_world] in *; [|exact H2]. exact H2.
Qed.

(* ---------- one delivery, the flush loop ---------- *)
Definition FInv (w : world) : Prop := RInv w /\ KInv w.

Section WithBeh.
Variable beh : hinfo -> logent -> N -> script.

Lemma tev_run_handlers hl w it tag loc sent : w_tev (fst (fst (fst (fst (run_handlers beh hl w it tag loc sent))))) = w_tev w.
Proof. apply (r_run_handlers w_tev); fr. Qed.
Lemma tev_ev_drop w t tag ev : w_tev (ev_drop w t tag ev) = w_tev w.
Proof. apply (r_ev_drop w_tev); fr. Qed.

Lemma kind_live_of_K3 w i k info : KInv w -> get_by_index (w_tev w) i = Some (k, info) -> kind_comp_live w (e_kind info).
Proof.
  intros (_ & _ & _ & _ & K3 & _) Hg. unfold kind_comp_live, comp_live. destruct (e_kind info) as [|c|c| |] eqn:E; auto.
  - destruct (K3 i k info c Hg (or_introl E)) as (kc & ci & X & _). congruence.
  - destruct (K3 i k info c Hg (or_intror E)) as (kc & ci & X & _). congruence.
Qed.

Theorem deliver_one_K it w : WInv w -> GevKinds w -> KInv w -> KInv (snd (fst (deliver_one beh it w))).
Proof.
  intros HW HG HK. unfold deliver_one.
  assert (Hfin : forall tag kind hl loc, kind_comp_live w kind ->
            KInv (snd (fst (let '(w1, ev, sent, taken, fl) := run_handlers beh hl w it tag loc [] in
              match fl with
              | Some f => (sent, (if taken then w1 else ev_drop w1 (qi_targeted it) tag ev), Some f)
              | None => if taken then (sent, w1, None) else
                  match kind with
                  | KNormal => (sent, ev_drop w1 (qi_targeted it) tag ev, None)
                  | _ => let '(w3, f) := fail_of (builtin_effect kind ev loc w1) in (sent, w3, f)
                  end
              end)))).
  { intros tag kind hl loc Hl. pose proof (handlers_preserve_structure beh hl w it tag loc []) as Hs.
    pose proof (tev_run_handlers hl w it tag loc []) as Ht.
    destruct (run_handlers beh hl w it tag loc []) as [[[[w1 ev] sent] taken] fl]. cbn [fst] in Hs, Ht.
    assert (HK1 : KInv w1) by (eapply KInv_structure; eauto).
    assert (HW1 : WInv w1) by (eapply WInv_structure; eauto).
    assert (HKd : forall t tg e0, KInv (ev_drop w1 t tg e0)) by (intros; eapply KInv_structure; [apply s_ev_drop|apply tev_ev_drop|exact HK1]).
    destruct fl as [f|]; [cbn [fst snd]; destruct taken; auto|].
    destruct taken; [exact HK1|].
    assert (Hl1 : kind_comp_live w1 kind).
    { destruct (structure_cshape w w1 Hs) as (_ & Hc & _). unfold kind_comp_live, comp_live in *. now rewrite Hc. }
    assert (Heff : KInv (fst (fail_of (builtin_effect kind ev loc w1)))).
    { pose proof (builtin_effect_K kind ev loc w1 HK1 (proj1 (proj2 HW1)) Hl1) as H.
      destruct (builtin_effect kind ev loc w1) as [[] w'|f w']; exact H. }
    destruct kind; try (destruct (fail_of _) as [w3 f]; exact Heff). cbn [fst snd]. apply HKd. }
  destruct (qi_targeted it).
  - destruct (get_by_index (w_tev w) (qi_idx it)) as [[k info]|] eqn:Hg; [|exact HK].
    destruct (sm_get (qi_target it) (w_ents w)) as [loc|]; [|cbn [fst snd]; eapply KInv_structure; [apply s_ev_drop|apply tev_ev_drop|exact HK]].
    destruct (slab_get (w_archs w) (fst loc)); [|exact HK]. apply Hfin. eapply kind_live_of_K3; eauto.
  - destruct (get_by_index (w_gev w) (qi_idx it)) as [[k info]|] eqn:Hg; [|exact HK].
    destruct (nget (w_glists w) (qi_idx it)); [|exact HK]. apply Hfin. pose proof (HG _ _ _ Hg) as X.
    unfold kind_comp_live. destruct (e_kind info); try exact I; discriminate.
Qed.

Lemma FInv_parts w : FInv w -> WInv w /\ GevKinds w /\ KInv w.
Proof. intros [[A B] C]. auto. Qed.

Theorem flush_FInv_loop n q w tr s' oc :
  Loop.flush wst qitem (run_w beh) unwind_w n q (w, None) [] = Some (tr, s', oc) -> FInv w -> FInv (fst s').
Proof.
  intros H HF.
  apply (flush_invariant wst qitem (run_w beh) unwind_w (fun s : wst => FInv (fst s))) with (n := n) (q := q) (st := (w, None)) (acc := []) (tr := tr) (oc := oc); [| |exact H|exact HF].
  - intros e st HFs. destruct (FInv_parts _ HFs) as (H1 & H2 & H3). unfold run_w.
    pose proof (deliver_one_WInv beh e (fst st) H1 H2) as Hd. pose proof (deliver_one_K e (fst st) H1 H2 H3) as Hk.
    pose proof (deliver_one_keeps_registries beh e (fst st)) as Hr.
    destruct (deliver_one beh e (fst st)) as [[sent w1] fl]. cbn [fst snd] in *. split; [split; [exact Hd|eapply GevKinds_registries; eauto]|exact Hk].
  - intros q0 st HFs. destruct (FInv_parts _ HFs) as (H1 & H2 & H3). unfold unwind_w. destruct (snd st) as [[k|s]|]; try exact HFs. cbn [fst].
    assert (Hsu : structure (unwind_queue q0 (fst st)) = structure (fst st)) by (unfold unwind_queue; apply (fold_left_pres structure); intros; apply s_ev_drop).
    assert (Htu : w_tev (unwind_queue q0 (fst st)) = w_tev (fst st)) by (apply (r_unwind_queue w_tev); fr).
    assert (HWu : WInv (unwind_queue q0 (fst st))) by (eapply WInv_structure; eauto).
    assert (HKu : GevKinds (unwind_queue q0 (fst st))) by (eapply GevKinds_registries; [apply unwind_queue_keeps_registries|exact H2]).
    assert (HKK : KInv (unwind_queue q0 (fst st))) by (eapply KInv_structure; eauto).
    pose proof (spawn_all_ok _ HWu) as Hs. pose proof (spawn_all_keeps_registries (unwind_queue q0 (fst st))) as Hr.
    assert (HK2 : KInv (res_world (spawn_all (unwind_queue q0 (fst st))))) by (eapply KInv_kreg; [apply kreg_spawn_all|apply cshape_spawn_all|exact HKK]).
    destruct (spawn_all (unwind_queue q0 (fst st))) as [[] w3|f w3]; cbn [res_world] in Hr, HK2.
    + split; [split; [exact (proj1 Hs)|eapply GevKinds_registries; eauto]|exact HK2].
    + split; [split; [exact (proj1 (proj2 Hs))|eapply GevKinds_registries; eauto]|exact HK2].
Qed.

Lemma flush_FInv q w : FInv w -> FInv (res_world (flush beh q w)).
Proof.
  intros HF. unfold flush, flush_loop.
  destruct (Loop.flush wst qitem (run_w beh) unwind_w FUEL q (w, None) []) as [[[tr [w1 fl]] oc]|] eqn:E; [|exact HF].
  pose proof (flush_FInv_loop _ _ _ _ _ _ E HF) as H1. cbn [fst] in H1.
  destruct oc; [|destruct fl; exact H1]. cbn [res_world]. exact H1.
Qed.
End WithBeh.

(* ---------- the component registry modulo member_of is untouched by sending ---------- *)
Definition cstat (ci : cinfo) := (c_tag ci, c_ins ci, c_rem ci).
Definition creg (w : world) := (map (fun s => (gen s, link s, option_map cstat (val s))) (slots (w_comps w)), w_cby w, w_tev w).

Lemma creg_of_kreg w w' : kreg w' = kreg w -> creg w' = creg w.
Proof. unfold kreg, creg. intros H. injection H as -> -> ->. reflexivity. Qed.

Lemma supd_map {V B} (g : slot V -> B) (l : list (slot V)) i x y : sget l i = Some y -> g x = g y -> map g (supd l i x) = map g l.
Proof.
  rewrite supd_upd, sget_nth. generalize (N.to_nat i). clear i. intros n. revert n. induction l as [|h t IH]; intros [|n] H E; cbn in *; try discriminate.
  - inversion H; subst. now rewrite E.
  - f_equal. now apply IH.
Qed.

Lemma creg_upd_member (m : smap cinfo) c (f : cinfo -> cinfo) : (forall ci, cstat (f ci) = cstat ci) ->
  map (fun s => (gen s, link s, option_map cstat (val s))) (slots (upd_by_index m c f)) = map (fun s => (gen s, link s, option_map cstat (val s))) (slots m).
Proof.
  intros Hf. unfold upd_by_index. destruct (sget (slots m) c) as [s|] eqn:Es; [|reflexivity]. destruct (val s) as [v|] eqn:Ev; [|reflexivity].
  cbn [slots]. eapply supd_map; [exact Es|]. cbn [gen link val option_map]. now rewrite Ev, Hf.
Qed.

Lemma creg_fold_upd skip f cs : (forall ci, cstat (f ci) = cstat ci) -> forall m,
  map (fun s => (gen s, link s, option_map cstat (val s))) (slots (fold_upd skip f cs m)) = map (fun s => (gen s, link s, option_map cstat (val s))) (slots m).
Proof.
  intros Hf. induction cs as [|c cs IH]; intros m; cbn [fold_upd fold_left]; [reflexivity|].
  fold (fold_upd skip f cs (if skip c then m else upd_by_index m c f)). rewrite IH. destruct (skip c); [reflexivity|now apply creg_upd_member].
Qed.

Lemma creg_create_arch w cs ins rem : creg (snd (create_arch w cs ins rem)) = creg w.
Proof.
  destruct (create_arch_fields w cs ins rem) as (A & B & C). unfold creg. rewrite A, B, C. f_equal. f_equal. apply creg_fold_upd. reflexivity.
Qed.
Lemma creg_traverse_insert w src c : creg (res_world (traverse_insert w src c)) = creg w.
Proof.
  unfold traverse_insert. destruct (slab_get (w_archs w) src) as [sa|]; [|reflexivity]. destruct (alookup c (a_ins sa)); [reflexivity|].
  destruct (arch_has sa c); [reflexivity|]. destruct (aby_lookup w _); cbn [res_world]; [apply creg_of_kreg, kreg_upd_arch|].
  pose proof (creg_create_arch w (sorted_insert c (a_comps sa)) [] [(c, src)]) as H. destruct (create_arch w _ _ _) as [d w1]. cbn [snd res_world] in *.
  rewrite <- H. apply creg_of_kreg, kreg_upd_arch.
Qed.
Lemma creg_traverse_remove w src c : creg (res_world (traverse_remove w src c)) = creg w.
Proof.
  unfold traverse_remove. destruct (slab_get (w_archs w) src) as [sa|]; [|reflexivity]. destruct (alookup c (a_rem sa)); [reflexivity|].
  destruct (negb (arch_has sa c)); [reflexivity|]. destruct (aby_lookup w _); cbn [res_world]; [apply creg_of_kreg, kreg_upd_arch|].
  pose proof (creg_create_arch w (filter (fun x => negb (x =? c)) (a_comps sa)) [(c, src)] []) as H. destruct (create_arch w _ _ _) as [d w1]. cbn [snd res_world] in *.
  rewrite <- H. apply creg_of_kreg, kreg_upd_arch.
Qed.
Lemma creg_builtin_effect kind ev loc w : creg (res_world (builtin_effect kind ev loc w)) = creg w.
Proof.
  destruct kind as [|c|c| |]; cbn [builtin_effect]; [reflexivity| | | |].
  - pose proof (creg_traverse_insert w (fst loc) c) as H. destruct (traverse_insert w (fst loc) c) as [d w2|f w2]; cbn [rbind res_world] in *; [|exact H].
    rewrite <- H. apply creg_of_kreg, kreg_move_entity.
  - pose proof (creg_traverse_remove w (fst loc) c) as H. destruct (traverse_remove w (fst loc) c) as [d w2|f w2]; cbn [rbind res_world] in *; [|exact H].
    rewrite <- H. apply creg_of_kreg, kreg_move_entity.
  - apply creg_of_kreg, kreg_spawn_all.
  - pose proof (kreg_spawn_all w) as H1. destruct (spawn_all w) as [[] w2|f w2]; cbn [rbind res_world] in *; [|now apply creg_of_kreg].
    pose proof (kreg_remove_entity w2 loc) as H2. destruct (remove_entity w2 loc) as [[] w3|f w3]; cbn [rbind res_world] in *; apply creg_of_kreg; unfold kreg in *; cbn [w_comps w_cby w_tev refresh_cursor set_res]; congruence.
Qed.

Section WithBeh2.
Variable beh : hinfo -> logent -> N -> script.

Lemma creg_structure w w' : structure w' = structure w -> w_tev w' = w_tev w -> creg w' = creg w.
Proof. intros Hs Ht. destruct (structure_cshape w w' Hs) as (_ & A & B). unfold creg. now rewrite A, B, Ht. Qed.

Lemma creg_deliver_one it w : creg (snd (fst (deliver_one beh it w))) = creg w.
Proof.
  unfold deliver_one.
  assert (Hfin : forall tag kind hl loc,
            creg (snd (fst (let '(w1, ev, sent, taken, fl) := run_handlers beh hl w it tag loc [] in
              match fl with
              | Some f => (sent, (if taken then w1 else ev_drop w1 (qi_targeted it) tag ev), Some f)
              | None => if taken then (sent, w1, None) else
                  match kind with
                  | KNormal => (sent, ev_drop w1 (qi_targeted it) tag ev, None)
                  | _ => let '(w3, f) := fail_of (builtin_effect kind ev loc w1) in (sent, w3, f)
                  end
              end))) = creg w).
  { intros tag kind hl loc. pose proof (handlers_preserve_structure beh hl w it tag loc []) as Hs.
    pose proof (tev_run_handlers beh hl w it tag loc []) as Ht.
    destruct (run_handlers beh hl w it tag loc []) as [[[[w1 ev] sent] taken] fl]. cbn [fst] in Hs, Ht.
    assert (H1 : creg w1 = creg w) by now apply creg_structure.
    assert (Hd : forall t tg e0, creg (ev_drop w1 t tg e0) = creg w) by (intros; rewrite <- H1; apply creg_structure; [apply s_ev_drop|apply tev_ev_drop]).
    destruct fl as [f|]; [cbn [fst snd]; destruct taken; auto|]. destruct taken; [exact H1|].
    assert (Heff : creg (fst (fail_of (builtin_effect kind ev loc w1))) = creg w).
    { rewrite <- H1. pose proof (creg_builtin_effect kind ev loc w1) as H. destruct (builtin_effect kind ev loc w1); exact H. }
    destruct kind; try (destruct (fail_of _) as [w3 f]; exact Heff). cbn [fst snd]. apply Hd. }
  destruct (qi_targeted it).
  - destruct (get_by_index (w_tev w) (qi_idx it)) as [[k info]|]; [|reflexivity].
    destruct (sm_get (qi_target it) (w_ents w)) as [loc|]; [|cbn [fst snd]; apply creg_structure; [apply s_ev_drop|apply tev_ev_drop]].
    destruct (slab_get (w_archs w) (fst loc)); [|reflexivity]. apply Hfin.
  - destruct (get_by_index (w_gev w) (qi_idx it)) as [[k info]|]; [|reflexivity].
    destruct (nget (w_glists w) (qi_idx it)); [|reflexivity]. apply Hfin.
Qed.

Lemma creg_flush q w : creg (res_world (flush beh q w)) = creg w.
Proof.
  unfold flush, flush_loop.
  destruct (Loop.flush wst qitem (run_w beh) unwind_w FUEL q (w, None) []) as [[[tr [w1 fl]] oc]|] eqn:E; [|reflexivity].
  assert (H : creg w1 = creg w).
  { change (creg w1) with ((fun s : wst => creg (fst s)) (w1, fl)). change (creg w) with ((fun s : wst => creg (fst s)) (w, @None fail)).
    eapply (flush_preserves wst qitem (run_w beh) unwind_w (fun s : wst => creg (fst s))); [| |exact E].
    - intros e st. unfold run_w. pose proof (creg_deliver_one e (fst st)) as Hd. destruct (deliver_one beh e (fst st)) as [[sent w2] fl2]. exact Hd.
    - intros q0 st. unfold unwind_w. destruct (snd st) as [[k|s]|]; try reflexivity. cbn [fst].
      assert (Hu : creg (unwind_queue q0 (fst st)) = creg (fst st)).
      { apply creg_structure; [unfold unwind_queue; apply (fold_left_pres structure); intros; apply s_ev_drop|apply (r_unwind_queue w_tev); fr]. }
      rewrite <- Hu. pose proof (kreg_spawn_all (unwind_queue q0 (fst st))) as Hs. destruct (spawn_all _); now apply creg_of_kreg. }
  destruct oc; [exact H|destruct fl; exact H].
Qed.

Lemma creg_gev fuel : forall tag w,
  creg (res_world (add_global_event beh fuel tag w)) = creg w /\ forall ev, creg (res_world (send_global beh fuel tag ev w)) = creg w.
Proof.
  induction fuel as [|f IH]; intros tag w; [split; reflexivity|].
  assert (Hadd : creg (res_world (add_global_event beh (S f) tag w)) = creg w).
  { rewrite add_global_event_S. destruct (alookup tag (w_gby w)); [reflexivity|].
    destruct (insert_with (fun _ => mkE tag (gkind tag)) (w_gev w)) as [[k m]|]; [|reflexivity]. cbn zeta.
    set (w2 := set_glists _ _). destruct (IH G_ADDGE w2) as [_ Hs]. specialize (Hs (mkEv 0 0 k)).
    destruct (send_global beh f G_ADDGE (mkEv 0 0 k) w2); exact Hs. }
  split; [exact Hadd|]. intros ev. rewrite send_global_S. destruct (IH tag w) as [Ha _].
  destruct (add_global_event beh f tag w) as [k w1|e w1]; cbn [res_world] in *.
  - rewrite creg_flush. destruct (10 <? tag); exact Ha.
  - rewrite <- Ha. apply creg_structure; [apply s_ev_drop|apply tev_ev_drop].
Qed.
Lemma creg_send_global tag ev w : creg (res_world (send_global beh RFUEL tag ev w)) = creg w.
Proof. exact (proj2 (creg_gev RFUEL tag w) ev). Qed.
End WithBeh2.

(* what creg equality gives about one component *)
Lemma creg_get w w' k ci : creg w' = creg w -> sm_get k (w_comps w) = Some ci ->
  exists ci', sm_get k (w_comps w') = Some ci' /\ cstat ci' = cstat ci.
Proof.
  unfold creg. intros H Hg. injection H as Hm _ _. destruct (sm_get_some_inv _ _ _ Hg) as (s & Hs & Hgen & Hv).
  assert (E : option_map (fun s => (gen s, link s, option_map cstat (val s))) (sget (slots (w_comps w')) (fst k)) =
              option_map (fun s => (gen s, link s, option_map cstat (val s))) (sget (slots (w_comps w)) (fst k))).
  { rewrite !sget_nth, <- !nth_error_map. now rewrite Hm. }
  rewrite Hs in E. destruct (sget (slots (w_comps w')) (fst k)) as [s'|] eqn:Es'; cbn in E; [|discriminate].
  injection E as Eg _ Ev. rewrite Hv in Ev. destruct (val s') as [ci'|] eqn:Ev'; cbn in Ev; [|discriminate]. injection Ev as E1 E2 E3.
  exists ci'. split; [|unfold cstat; congruence]. unfold sm_get. rewrite Es', Eg, Hgen, N.eqb_refl. exact Ev'.
Qed.

(* ---------- registration and sending keep the full invariant ---------- *)
Lemma FInv_same_k w w' : RInv w' -> kreg w' = kreg w -> cshape (w_archs w') = cshape (w_archs w) -> FInv w -> FInv w'.
Proof. intros HR Hk Hc [_ HK]. split; [exact HR|]. eapply KInv_kreg; eauto. Qed.

Section Ops.
Variable beh : hinfo -> logent -> N -> script.

Lemma gev_FInv fuel : forall tag w, FInv w ->
  FInv (res_world (add_global_event beh fuel tag w)) /\ forall ev, FInv (res_world (send_global beh fuel tag ev w)).
Proof.
  induction fuel as [|f IH]; intros tag w HF; [split; [exact HF|intros; exact HF]|].
  assert (Hadd : FInv (res_world (add_global_event beh (S f) tag w))).
  { rewrite add_global_event_S. destruct (alookup tag (w_gby w)); [exact HF|].
    destruct (insert_with (fun _ => mkE tag (gkind tag)) (w_gev w)) as [[k m]|] eqn:Ei; [|exact HF]. cbn zeta.
    set (w2 := set_glists _ _).
    assert (HF2 : FInv w2).
    { destruct HF as [[HW HK] HKK]. split; [split; [eapply WInv_ext; [| | |exact HW]; reflexivity|]|exact HKK].
      intros i k' info Hg. unfold w2 in Hg. cbn [w_gev set_glists set_hreg set_gev] in Hg.
      destruct (gbi_insert _ _ _ _ _ _ _ Ei Hg) as [->|Hold]; [|eauto]. cbn [e_kind]. unfold gkind. now destruct (tag =? G_SPAWN). }
    destruct (IH G_ADDGE w2 HF2) as [_ Hs]. specialize (Hs (mkEv 0 0 k)).
    destruct (send_global beh f G_ADDGE (mkEv 0 0 k) w2); exact Hs. }
  split; [exact Hadd|]. intros ev. rewrite send_global_S.
  destruct (IH tag w HF) as [Ha _]. destruct (add_global_event beh f tag w) as [k w1|e w1]; cbn [res_world] in *.
  - apply flush_FInv. destruct (10 <? tag); exact Ha.
  - destruct Ha as [HR HK]. split; [now apply RInv_ev_drop|]. eapply KInv_structure; [apply s_ev_drop|apply tev_ev_drop|exact HK].
Qed.
Lemma send_global_FInv tag ev w : FInv w -> FInv (res_world (send_global beh RFUEL tag ev w)).
Proof. intros H. exact (proj2 (gev_FInv RFUEL tag w H) ev). Qed.
Lemma add_global_event_FInv tag w : FInv w -> FInv (res_world (add_global_event beh RFUEL tag w)).
Proof. intros H. exact (proj1 (gev_FInv RFUEL tag w H)). Qed.

(* registering a new component type *)
Lemma add_component_entry_FInv tag w k m : FInv w -> alookup tag (w_cby w) = None ->
  insert_with (fun _ => mkC tag [] [] []) (w_comps w) = Some (k, m) ->
  FInv (set_comps w m (ainsert tag k (w_cby w))) /\ get_by_index m (fst k) = Some (k, mkC tag [] [] []).
Proof.
  intros HF El Ei. pose proof HF as [HR (S1 & S2 & K1 & K2 & K3 & K5)].
  set (w1 := set_comps w m (ainsert tag k (w_cby w))).
  assert (Hfresh : get_by_index (w_comps w) (fst k) = None) by (eapply gbi_insert_fresh; eauto).
  assert (Hnew : get_by_index m (fst k) = Some (k, mkC tag [] [] [])) by (eapply (gbi_insert_new (fun _ => mkC tag [] [] [])); eauto).
  assert (Hold : forall i, i <> fst k -> get_by_index m i = get_by_index (w_comps w) i) by (intros; eapply gbi_insert_other; eauto).
  assert (HK1 : KInv w1).
  { split; [eapply insert_inv; eauto|]. split; [exact S2|]. split; [|split; [|split]].
    - intros c kc ci Hg. cbn [w_comps w1 set_comps] in Hg. destruct (N.eq_dec c (fst k)) as [->|Hne].
      + rewrite Hnew in Hg. assert (Eci : ci = mkC tag [] [] []) by congruence. subst ci. cbn [c_member_of]. split; [constructor|]. intros ai. split; [intros []|].
        intros (a & Ha & Hin). exfalso. apply (K2 ai a (fst k) Ha Hin). exact Hfresh.
      + rewrite Hold in Hg by exact Hne. exact (K1 c kc ci Hg).
    - intros ai a c Ha Hin. unfold comp_live. cbn [w_comps w1 set_comps]. destruct (N.eq_dec c (fst k)) as [->|Hne]; [now rewrite Hnew|].
      rewrite Hold by exact Hne. exact (K2 ai a c Ha Hin).
    - intros i kk info c Hg Hk. destruct (K3 i kk info c Hg Hk) as (kc & ci & Hgc & Hin). exists kc, ci. split; [|exact Hin].
      cbn [w_comps w1 set_comps]. eapply gbi_insert_old; eauto.
    - intros tag' k' Hl. cbn [w_cby w_comps w1 set_comps] in *. destruct (N.eq_dec tag' tag) as [->|Hne].
      + rewrite alookup_ainsert_eq in Hl. inversion Hl; subst k'. exists (mkC tag [] [] []). split; [exact (proj2 (get_of_gbi _ _ _ _ Hnew))|reflexivity].
      + rewrite alookup_ainsert_neq in Hl by exact Hne. destruct (K5 tag' k' Hl) as (ci & Hg & Ht). exists ci. split; [|exact Ht].
        rewrite (insert_get_other _ _ _ _ k' S1 Ei); [exact Hg|]. intros ->. rewrite (insert_get_fresh _ _ _ _ S1 Ei) in Hg. discriminate. }
  split; [split; [apply (RInv_ext w); try reflexivity; exact HR|exact HK1]|exact Hnew].
Qed.

(* add_component: the key it returns names a live component carrying that tag *)
Lemma add_component_FInv tag w : FInv w ->
  FInv (res_world (add_component beh tag w)) /\
  match add_component beh tag w with
  | ROk k w' => exists ci, sm_get k (w_comps w') = Some ci /\ c_tag ci = tag
  | RFail _ _ => True
  end.
Proof.
  intros HF. pose proof HF as [HR (S1 & S2 & K1 & K2 & K3 & K5)]. unfold add_component.
  destruct (alookup tag (w_cby w)) as [k0|] eqn:El.
  { split; [exact HF|]. exact (K5 tag k0 El). }
  destruct (insert_with (fun _ => mkC tag [] [] []) (w_comps w)) as [[k m]|] eqn:Ei; [|split; [exact HF|exact I]].
  destruct (add_component_entry_FInv tag w k m HF El Ei) as [HF1 Hnew]. set (w1 := set_comps w m (ainsert tag k (w_cby w))) in *.
  pose proof (send_global_FInv G_ADDC (mkEv 0 0 k) w1 HF1) as Hs. pose proof (creg_send_global beh G_ADDC (mkEv 0 0 k) w1) as Hc.
  destruct (send_global beh RFUEL G_ADDC (mkEv 0 0 k) w1) as [[] w2|f w2]; cbn [rbind res_world] in *; [|split; [exact Hs|exact I]].
  split; [exact Hs|]. destruct (creg_get w1 w2 k (mkC tag [] [] []) Hc (proj2 (get_of_gbi _ _ _ _ Hnew))) as (ci' & Hg' & Hst).
  exists ci'. split; [exact Hg'|]. unfold cstat in Hst. now inversion Hst.
Qed.
End Ops.

(* growing the insert/remove event lists of one component *)
Lemma KInv_grow_lists w c f :
  (forall ci, c_tag (f ci) = c_tag ci /\ c_member_of (f ci) = c_member_of ci /\ incl (c_ins ci ++ c_rem ci) (c_ins (f ci) ++ c_rem (f ci))) ->
  KInv w -> KInv (set_comps w (upd_by_index (w_comps w) c f) (w_cby w)).
Proof.
  intros Hf (S1 & S2 & K1 & K2 & K3 & K5). unfold KInv, comp_live. cbn [w_comps w_tev w_cby set_comps].
  change (arch_at (set_comps w (upd_by_index (w_comps w) c f) (w_cby w))) with (arch_at w).
  split; [now apply upd_index_inv|]. split; [exact S2|]. split; [|split; [|split]].
  - intros i k ci' Hg. rewrite gbi_upd in Hg. destruct (i =? c); [|exact (K1 i k ci' Hg)].
    destruct (get_by_index (w_comps w) i) as [[k0 ci]|] eqn:E; [|discriminate]. inversion Hg; subst. destruct (Hf ci) as (_ & Hm & _). rewrite Hm. exact (K1 i k ci E).
  - intros ai a i Ha Hin. rewrite gbi_upd. pose proof (K2 ai a i Ha Hin) as X. unfold comp_live in X. destruct (i =? c); [|exact X].
    destruct (get_by_index (w_comps w) i) as [[k0 ci]|]; congruence.
  - intros i k info c0 Hg Hk. destruct (K3 i k info c0 Hg Hk) as (kc & ci & Hgc & Hin). rewrite gbi_upd, Hgc.
    destruct (c0 =? c); [exists kc, (f ci); split; [reflexivity|apply (proj2 (proj2 (Hf ci))); exact Hin]|exists kc, ci; auto].
  - intros tag k Hl. destruct (K5 tag k Hl) as (ci & Hg & Ht). pose proof (gbi_of_get _ _ _ Hg) as Hgi.
    assert (X : exists ci', get_by_index (upd_by_index (w_comps w) c f) (fst k) = Some (k, ci') /\ c_tag ci' = tag).
    { rewrite gbi_upd, Hgi. destruct (fst k =? c); [exists (f ci); split; [reflexivity|]; now rewrite (proj1 (Hf ci))|exists ci; auto]. }
    destruct X as (ci' & Hg' & Ht'). exists ci'. split; [exact (proj2 (get_of_gbi _ _ _ _ Hg'))|exact Ht'].
Qed.

Lemma KInv_insert_tev w k m tag kind tby :
  KInv w -> insert_with (fun _ => mkE tag kind) (w_tev w) = Some (k, m) ->
  (forall c, kind = KInsert c \/ kind = KRemove c -> exists kc ci, get_by_index (w_comps w) c = Some (kc, ci) /\ In k (c_ins ci ++ c_rem ci)) ->
  KInv (set_tev w m tby).
Proof.
  intros (S1 & S2 & K1 & K2 & K3 & K5) Ei Hnew. unfold KInv, comp_live. cbn [w_comps w_tev w_cby set_tev].
  change (arch_at (set_tev w m tby)) with (arch_at w).
  split; [exact S1|]. split; [eapply insert_inv; eauto|]. split; [exact K1|]. split; [exact K2|]. split; [|exact K5].
  intros i k' info c Hg Hk. destruct (N.eq_dec i (fst k)) as [->|Hne].
  - rewrite (gbi_insert_new _ _ _ _ S2 Ei) in Hg. inversion Hg; subst k' info. cbn [e_kind] in Hk. now apply Hnew.
  - rewrite (gbi_insert_other _ _ _ _ i S2 Ei Hne) in Hg. exact (K3 i k' info c Hg Hk).
Qed.

Section Ops2.
Variable beh : hinfo -> logent -> N -> script.

Definition tev_stage1 (tag : N) (w : world) : res ekind :=
  if (20 <=? tag) && (tag <? 40) then do (c, w') <- add_component beh (tag - 20) w; ROk (KInsert (fst c)) w'
  else if (40 <=? tag) && (tag <? 60) then do (c, w') <- add_component beh (tag - 40) w; ROk (KRemove (fst c)) w'
  else if tag =? T_DESPAWN then ROk KDespawn w else ROk KNormal w.

Definition tev_entry_world (w0 : world) (tag : N) (kind : ekind) (k : key) (m : smap einfo) : world :=
  let w1 := set_tev w0 m (ainsert tag k (w_tby w0)) in
  match kind with
  | KInsert c => set_comps w1 (upd_by_index (w_comps w1) c (fun ci => mkC (c_tag ci) (c_member_of ci) (c_ins ci ++ [k]) (c_rem ci))) (w_cby w1)
  | KRemove c => set_comps w1 (upd_by_index (w_comps w1) c (fun ci => mkC (c_tag ci) (c_member_of ci) (c_ins ci) (c_rem ci ++ [k]))) (w_cby w1)
  | _ => w1 end.

Lemma add_targeted_event_unfold tag w : add_targeted_event beh tag w =
  do (kind, w0) <- tev_stage1 tag w;
  match alookup tag (w_tby w0) with
  | Some k => ROk k w0
  | None =>
      match insert_with (fun _ => mkE tag kind) (w_tev w0) with
      | None => RFail (FPanic 5) w0
      | Some (k, m) => do (_, w3) <- send_global beh RFUEL G_ADDTE (mkEv 0 0 k) (tev_entry_world w0 tag kind k m); ROk k w3
      end
  end.
Proof. reflexivity. Qed.

Lemma tev_stage1_FInv tag w : FInv w ->
  FInv (res_world (tev_stage1 tag w)) /\ match tev_stage1 tag w with ROk kind w0 => kind_comp_live w0 kind | RFail _ _ => True end.
Proof.
  intros HF. unfold tev_stage1. destruct ((20 <=? tag) && (tag <? 40)).
  - destruct (add_component_FInv beh (tag - 20) w HF) as [A B]. destruct (add_component beh (tag - 20) w) as [c w'|f w']; cbn [rbind res_world] in *; [|auto].
    split; [exact A|]. destruct B as (ci & Hg & _). unfold kind_comp_live, comp_live. rewrite (gbi_of_get _ _ _ Hg). discriminate.
  - destruct ((40 <=? tag) && (tag <? 60)).
    + destruct (add_component_FInv beh (tag - 40) w HF) as [A B]. destruct (add_component beh (tag - 40) w) as [c w'|f w']; cbn [rbind res_world] in *; [|auto].
      split; [exact A|]. destruct B as (ci & Hg & _). unfold kind_comp_live, comp_live. rewrite (gbi_of_get _ _ _ Hg). discriminate.
    + destruct (tag =? T_DESPAWN); cbn [res_world]; split; try exact HF; exact I.
Qed.

Lemma tev_entry_FInv w0 tag kind k m : FInv w0 -> kind_comp_live w0 kind ->
  insert_with (fun _ => mkE tag kind) (w_tev w0) = Some (k, m) -> FInv (tev_entry_world w0 tag kind k m).
Proof.
  intros [HR0 HK0] Hl Ei. unfold tev_entry_world. cbn zeta.
  split; [destruct kind; apply (RInv_ext w0); try reflexivity; exact HR0|].
  destruct kind as [|c|c| |].
  - eapply KInv_insert_tev; eauto. intros c [X|X]; discriminate.
  - change (KInv (set_tev (set_comps w0 (upd_by_index (w_comps w0) c (fun ci => mkC (c_tag ci) (c_member_of ci) (c_ins ci ++ [k]) (c_rem ci))) (w_cby w0)) m (ainsert tag k (w_tby w0)))).
    eapply KInv_insert_tev; [apply KInv_grow_lists; [|exact HK0]|exact Ei|].
    + intros ci. cbn. repeat split. intros x Hx. apply in_app_or in Hx as [Hx|Hx]; apply in_or_app; [left; apply in_or_app; now left|now right].
    + intros c' [X|X]; inversion X; subst c'. cbn [w_comps set_comps]. rewrite gbi_upd, N.eqb_refl.
      unfold kind_comp_live, comp_live in Hl. destruct (get_by_index (w_comps w0) c) as [[kc ci]|]; [|contradiction].
      exists kc, (mkC (c_tag ci) (c_member_of ci) (c_ins ci ++ [k]) (c_rem ci)). split; [reflexivity|]. cbn. apply in_or_app. left. apply in_or_app. right. now left.
  - change (KInv (set_tev (set_comps w0 (upd_by_index (w_comps w0) c (fun ci => mkC (c_tag ci) (c_member_of ci) (c_ins ci) (c_rem ci ++ [k]))) (w_cby w0)) m (ainsert tag k (w_tby w0)))).
    eapply KInv_insert_tev; [apply KInv_grow_lists; [|exact HK0]|exact Ei|].
    + intros ci. cbn. repeat split. intros x Hx. apply in_app_or in Hx as [Hx|Hx]; apply in_or_app; [now left|right; apply in_or_app; now left].
    + intros c' [X|X]; inversion X; subst c'. cbn [w_comps set_comps]. rewrite gbi_upd, N.eqb_refl.
      unfold kind_comp_live, comp_live in Hl. destruct (get_by_index (w_comps w0) c) as [[kc ci]|]; [|contradiction].
      exists kc, (mkC (c_tag ci) (c_member_of ci) (c_ins ci) (c_rem ci ++ [k])). split; [reflexivity|]. cbn. apply in_or_app. right. apply in_or_app. right. now left.
  - eapply KInv_insert_tev; eauto. intros c [X|X]; discriminate.
  - eapply KInv_insert_tev; eauto. intros c [X|X]; discriminate.
Qed.

Lemma add_targeted_event_FInv tag w : FInv w -> FInv (res_world (add_targeted_event beh tag w)).
Proof.
  intros HF. rewrite add_targeted_event_unfold. destruct (tev_stage1_FInv tag w HF) as [HF0 Hl].
  destruct (tev_stage1 tag w) as [kind w0|f w0]; cbn [rbind res_world] in *; [|exact HF0].
  destruct (alookup tag (w_tby w0)); [exact HF0|].
  destruct (insert_with (fun _ => mkE tag kind) (w_tev w0)) as [[k m]|] eqn:Ei; [|exact HF0].
  apply rbind_K; [|intros; assumption]. apply send_global_FInv. now apply tev_entry_FInv.
Qed.

Lemma send_to_FInv tag target ev w : FInv w -> FInv (res_world (send_to beh tag target ev w)).
Proof.
  intros HF. unfold send_to. pose proof (add_targeted_event_FInv tag w HF) as H.
  destruct (add_targeted_event beh tag w) as [k w1|e w1]; cbn [res_world] in *; [now apply flush_FInv|].
  destruct H as [HR HK]. split; [now apply RInv_ev_drop|]. eapply KInv_structure; [apply s_ev_drop|apply tev_ev_drop|exact HK].
Qed.

Theorem op_spawn_FInv w : FInv w -> FInv (res_world (op_spawn beh w)).
Proof.
  intros HF. unfold op_spawn. apply rbind_K.
  - unfold reserve. repeat break_match; cbn [res_world]; exact HF.
  - intros id w1 HF1. apply rbind_K; [now apply send_global_FInv|]. intros [] w2 HF2. exact HF2.
Qed.
Theorem op_insert_FInv e ktag w : FInv w -> FInv (res_world (op_insert beh e ktag w)).
Proof.
  intros HF. unfold op_insert. destruct (new_cval w ktag) as [v w1] eqn:E. apply send_to_FInv.
  assert (w1 = snd (new_cval w ktag)) by now rewrite E. subst w1. unfold new_cval. destruct (ctag_zst ktag); exact HF.
Qed.
Theorem op_remove_FInv e ktag w : FInv w -> FInv (res_world (op_remove beh e ktag w)).
Proof. intros HF. unfold op_remove. now apply send_to_FInv. Qed.
Theorem op_despawn_FInv e w : FInv w -> FInv (res_world (op_despawn beh e w)).
Proof. intros HF. unfold op_despawn. now apply send_to_FInv. Qed.
Theorem op_send_FInv gtag w : FInv w -> FInv (res_world (op_send beh gtag w)).
Proof. intros HF. unfold op_send. cbn [fresh_serial]. apply send_global_FInv. exact HF. Qed.
Theorem op_send_to_FInv e ttag w : FInv w -> FInv (res_world (op_send_to beh e ttag w)).
Proof. intros HF. unfold op_send_to. cbn [fresh_serial]. apply send_to_FInv. exact HF. Qed.
End Ops2.

(* ---------- handlers ---------- *)
Lemma kreg_archs_register_handler w hk : kreg (archs_register_handler w hk) = kreg w.
Proof. unfold archs_register_handler. apply (fold_left_pres kreg). intros w' [ai x]. repeat break_match; reflexivity. Qed.

Section Ops3.
Variable beh : hinfo -> logent -> N -> script.

Lemma resolve_query_FInv q : forall w, FInv w -> FInv (res_world (resolve_query beh q w)).
Proof.
  induction q as [c|c|qs IH|q IH|l r IHl IHr|l r IHl IHr|q IH|q IH|q IH|] using query_ind'; intros w HF; cbn [resolve_query];
    try (apply rbind_K; [exact (proj1 (add_component_FInv beh c w HF))|intros; assumption]);
    try (apply rbind_K; [now apply IH|intros; assumption]);
    try (apply rbind_K; [now apply IHl|intros ? w1 HF1; apply rbind_K; [now apply IHr|intros; assumption]]);
    try exact HF.
  apply rbind_K; [|intros; assumption].
  revert w HF. induction IH as [|x t Hx _ IHt]; intros w HF; [exact HF|].
  apply rbind_K; [now apply Hx|]. intros x' w1 HF1. apply rbind_K; [now apply IHt|intros; assumption].
Qed.

Lemma register_set_FInv evs : forall w, FInv w -> FInv (res_world (register_set beh evs w)).
Proof.
  induction evs as [|[t tag] rest IH]; intros w HF; cbn [register_set]; [exact HF|].
  apply rbind_K.
  - destruct t; [now apply add_targeted_event_FInv|now apply add_global_event_FInv].
  - intros k w1 HF1. apply rbind_K; [now apply IH|intros; assumption].
Qed.

Lemma init_param_FInv p c w : FInv w -> FInv (res_world (init_param beh p c w)).
Proof.
  intros HF. destruct p; cbn [init_param].
  - apply rbind_K; [now apply add_global_event_FInv|intros; assumption].
  - apply rbind_K; [now apply add_targeted_event_FInv|]. intros k w1 HF1. apply rbind_K; [now apply resolve_query_FInv|intros; assumption].
  - apply rbind_K; [now apply resolve_query_FInv|intros; assumption].
  - apply rbind_K; [now apply register_set_FInv|intros; assumption].
Qed.
Lemma init_params_FInv ps : forall c w, FInv w -> FInv (res_world (init_params beh ps c w)).
Proof.
  induction ps as [|p t IH]; intros c w HF; cbn [init_params]; [exact HF|].
  apply rbind_K; [now apply init_param_FInv|]. intros c1 w1 HF1. now apply IH.
Qed.

Theorem add_handler_FInv sh w : FInv w -> FInv (res_world (add_handler beh sh w)).
Proof.
  intros HF. unfold add_handler. destruct (match sh_tid sh with Some t => alookup t (w_hby w) | None => None end); [exact HF|].
  apply rbind_K; [now apply init_params_FInv|]. intros c w1 HF1.
  destruct (cf_recv c) as [|rv|]; try exact HF1. destruct (cf_access c) as [acc|]; [|exact HF1].
  destruct (handler_conflicts (cf_cas c)); [|exact HF1].
  destruct (insert_with _ (w_hs w1)) as [[k hs]|]; [|exact HF1].
  apply rbind_K; [|intros; assumption]. apply send_global_FInv. destruct HF1 as [HR1 HK1].
  match goal with |- FInv (archs_register_handler ?w2 k) =>
    destruct (archs_register_handler_structure w2 k) as [Hs Hg]; split;
      [apply (RInv_structure w2); [exact Hs|exact Hg|exact HR1]
      |apply (KInv_kreg w2); [apply kreg_archs_register_handler|exact (proj1 (structure_cshape _ _ Hs))|exact HK1]] end.
Qed.

Theorem remove_handler_FInv k w : FInv w -> FInv (res_world (remove_handler beh k w)).
Proof.
  intros HF. unfold remove_handler. destruct (sm_get k (w_hs w)) as [h0|]; [|exact HF]. clear h0.
  apply rbind_K; [now apply send_global_FInv|]. intros [] w1 [HR1 HK1].
  unfold handlers_remove. destruct (sm_remove k (w_hs w1)) as [[h1 hs]|]; [|split; assumption]. cbn [res_world].
  match goal with |- FInv (archs_remove_handler ?w2 h1) =>
    destruct (archs_remove_handler_structure w2 h1) as [Hs Hg]; split;
      [apply (RInv_structure w2); [exact Hs|exact Hg|exact HR1]
      |apply (KInv_kreg w2); [reflexivity|exact (proj1 (structure_cshape _ _ Hs))|exact HK1]] end.
Qed.
Lemma remove_handlers_FInv ks : forall w, FInv w -> FInv (res_world (remove_handlers beh ks w)).
Proof.
  induction ks as [|k t IH]; intros w HF; cbn [remove_handlers]; [exact HF|].
  apply rbind_K; [now apply remove_handler_FInv|]. intros b w1 HF1. now apply IH.
Qed.

Theorem remove_global_event_FInv k w : FInv w -> FInv (res_world (remove_global_event beh k w)).
Proof.
  intros HF. unfold remove_global_event. destruct (sm_get k (w_gev w)); [|exact HF].
  apply rbind_K; [now apply send_global_FInv|]. intros [] w1 HF1. apply rbind_K; [now apply remove_handlers_FInv|]. intros [] w2 [[HW2 HK2] HKK2].
  destruct (sm_remove k (w_gev w2)) as [[info m]|] eqn:Er; [|split; [split|]; assumption]. cbn [res_world].
  split; [split; [exact HW2|]|exact HKK2]. intros i k' info' Hg. cbn [w_gev set_gev] in Hg. eapply HK2. eapply gbi_remove; eauto.
Qed.
End Ops3.

(* removing a targeted event: its key leaves the event lists of its component *)
Lemma KInv_remove_tev w k info m tby c f :
  KInv w -> sm_remove k (w_tev w) = Some (info, m) ->
  (forall ci, c_tag (f ci) = c_tag ci /\ c_member_of (f ci) = c_member_of ci /\
              forall x, x <> k -> In x (c_ins ci ++ c_rem ci) -> In x (c_ins (f ci) ++ c_rem (f ci))) ->
  KInv (set_comps (set_tev w m tby) (upd_by_index (w_comps w) c f) (w_cby w)).
Proof.
  intros (S1 & S2 & K1 & K2 & K3 & K5) Er Hf. unfold KInv, comp_live. cbn [w_comps w_tev w_cby set_comps set_tev].
  change (arch_at (set_comps (set_tev w m tby) (upd_by_index (w_comps w) c f) (w_cby w))) with (arch_at w).
  split; [now apply upd_index_inv|]. split; [eapply remove_inv; eauto|]. split; [|split; [|split]].
  - intros i k0 ci' Hg. rewrite gbi_upd in Hg. destruct (i =? c); [|exact (K1 i k0 ci' Hg)].
    destruct (get_by_index (w_comps w) i) as [[k1 ci]|] eqn:E; [|discriminate]. inversion Hg; subst. destruct (Hf ci) as (_ & Hm & _). rewrite Hm. exact (K1 i k0 ci E).
  - intros ai a i Ha Hin. rewrite gbi_upd. pose proof (K2 ai a i Ha Hin) as X. unfold comp_live in X. destruct (i =? c); [|exact X].
    destruct (get_by_index (w_comps w) i) as [[k0 ci]|]; congruence.
  - intros i k' info' c0 Hg Hk. pose proof (gbi_remove _ _ _ _ _ _ _ Er Hg) as Hold.
    assert (Hne : k' <> k).
    { intros ->. destruct (get_of_gbi _ _ _ _ Hg) as [_ X]. rewrite (remove_get_gone k (w_tev w) info m S2 Er) in X. discriminate. }
    destruct (K3 i k' info' c0 Hold Hk) as (kc & ci & Hgc & Hin). rewrite gbi_upd, Hgc.
    destruct (c0 =? c); [exists kc, (f ci); split; [reflexivity|apply (proj2 (proj2 (Hf ci))); assumption]|exists kc, ci; auto].
  - intros tag k0 Hl. destruct (K5 tag k0 Hl) as (ci & Hg & Ht). pose proof (gbi_of_get _ _ _ Hg) as Hgi.
    assert (X : exists ci', get_by_index (upd_by_index (w_comps w) c f) (fst k0) = Some (k0, ci') /\ c_tag ci' = tag).
    { rewrite gbi_upd, Hgi. destruct (fst k0 =? c); [exists (f ci); split; [reflexivity|]; now rewrite (proj1 (Hf ci))|exists ci; auto]. }
    destruct X as (ci' & Hg' & Ht'). exists ci'. split; [exact (proj2 (get_of_gbi _ _ _ _ Hg'))|exact Ht'].
Qed.

Lemma KInv_remove_tev0 w k info m tby : KInv w -> sm_remove k (w_tev w) = Some (info, m) -> KInv (set_tev w m tby).
Proof.
  intros (S1 & S2 & K1 & K2 & K3 & K5) Er. unfold KInv, comp_live. cbn [w_comps w_tev w_cby set_tev].
  change (arch_at (set_tev w m tby)) with (arch_at w).
  split; [exact S1|]. split; [eapply remove_inv; eauto|]. split; [exact K1|]. split; [exact K2|]. split; [|exact K5].
  intros i k' info' c0 Hg Hk. exact (K3 i k' info' c0 (gbi_remove _ _ _ _ _ _ _ Er Hg) Hk).
Qed.

Lemma key_eqb_neq (x k : key) : x <> k -> key_eqb x k = false.
Proof.
  intros H. unfold key_eqb. destruct (fst x =? fst k) eqn:A; [|reflexivity]. destruct (snd x =? snd k) eqn:B; [|reflexivity].
  apply N.eqb_eq in A, B. exfalso. apply H. destruct x, k. cbn in *. congruence.
Qed.

Section Ops4.
Variable beh : hinfo -> logent -> N -> script.

Theorem remove_targeted_event_FInv k w : FInv w -> FInv (res_world (remove_targeted_event beh k w)).
Proof.
  intros HF. unfold remove_targeted_event. destruct (sm_get k (w_tev w)); [|exact HF].
  apply rbind_K; [now apply send_global_FInv|]. intros [] w1 HF1. apply rbind_K; [now apply remove_handlers_FInv|]. intros [] w2 [HR2 HK2].
  destruct (sm_remove k (w_tev w2)) as [[info m]|] eqn:Er; [|split; assumption]. cbn [res_world].
  split; [destruct (e_kind info); exact HR2|].
  destruct (e_kind info) as [|c|c| |].
  - eapply KInv_remove_tev0; eauto.
  - change (KInv (set_comps (set_tev w2 m (aremove (e_tag info) (w_tby w2)))
              (upd_by_index (w_comps w2) c (fun ci => mkC (c_tag ci) (c_member_of ci) (filter (fun x => negb (key_eqb x k)) (c_ins ci)) (c_rem ci))) (w_cby w2))).
    eapply KInv_remove_tev; [exact HK2|exact Er|]. intros ci. cbn. repeat split. intros x Hx Hin.
    apply in_app_or in Hin as [Hin|Hin]; apply in_or_app; [left; apply filter_In; split; [exact Hin|now rewrite key_eqb_neq]|now right].
  - change (KInv (set_comps (set_tev w2 m (aremove (e_tag info) (w_tby w2)))
              (upd_by_index (w_comps w2) c (fun ci => mkC (c_tag ci) (c_member_of ci) (c_ins ci) (filter (fun x => negb (key_eqb x k)) (c_rem ci)))) (w_cby w2))).
    eapply KInv_remove_tev; [exact HK2|exact Er|]. intros ci. cbn. repeat split. intros x Hx Hin.
    apply in_app_or in Hin as [Hin|Hin]; apply in_or_app; [now left|right; apply filter_In; split; [exact Hin|now rewrite key_eqb_neq]].
  - eapply KInv_remove_tev0; eauto.
  - eapply KInv_remove_tev0; eauto.
Qed.

Lemma remove_tevents_FInv ks : forall w, FInv w -> FInv (res_world (remove_tevents beh ks w)).
Proof.
  induction ks as [|k t IH]; intros w HF; cbn [remove_tevents]; [exact HF|].
  apply rbind_K; [now apply remove_targeted_event_FInv|]. intros b w1 HF1. now apply IH.
Qed.
End Ops4.

(* ---------- swap_remove_val on a duplicate-free list removes exactly that value ---------- *)
Lemma nposition_split (a : N) l : In a l -> exists l1 l2, l = l1 ++ a :: l2 /\ ~ In a l1 /\ nposition (N.eqb a) l = Some (nlen l1).
Proof.
  induction l as [|h t IH]; intros Hin; [destruct Hin|]. cbn [nposition]. destruct (a =? h) eqn:E.
  - apply N.eqb_eq in E. subst h. exists [], t. repeat split. intros [].
  - destruct Hin as [->|Hin]; [rewrite N.eqb_refl in E; discriminate|]. destruct (IH Hin) as (l1 & l2 & -> & Hn & Hp).
    exists (h :: l1), l2. split; [reflexivity|]. split; [intros [X|X]; [subst; rewrite N.eqb_refl in E; discriminate|contradiction]|].
    rewrite Hp. cbn [option_map]. f_equal. rewrite nlen_cons. lia.
Qed.
Lemma nposition_none (a : N) l : ~ In a l -> nposition (N.eqb a) l = None.
Proof.
  induction l as [|h t IH]; intros Hn; [reflexivity|]. cbn [nposition]. destruct (a =? h) eqn:E; [apply N.eqb_eq in E; subst; exfalso; apply Hn; now left|].
  rewrite IH; [reflexivity|]. intros X. apply Hn. now right.
Qed.
Lemma nset_app_mid {A} (l1 : list A) a l2 z : nset (l1 ++ a :: l2) (nlen l1) z = l1 ++ z :: l2.
Proof.
  induction l1 as [|h t IH]; [reflexivity|]. cbn [app nset]. rewrite nlen_cons.
  replace (nlen t + 1 =? 0) with false by (symmetry; apply N.eqb_neq; lia). f_equal. replace (N.pred (nlen t + 1)) with (nlen t) by lia. exact IH.
Qed.
Lemma swap_remove_mid {A} (l1 : list A) a l2 : exists l2', swap_remove (l1 ++ a :: l2) (nlen l1) = l1 ++ l2' /\ (forall x, In x l2' <-> In x l2) /\ (NoDup l2 -> NoDup l2').
Proof.
  destruct l2 as [|b l2] using rev_ind.
  - exists []. rewrite swap_remove_snoc, N.eqb_refl, app_nil_r. repeat split; auto.
  - clear IHl2. exists (b :: l2). replace (l1 ++ a :: l2 ++ [b]) with ((l1 ++ a :: l2) ++ [b]) by (rewrite <- app_assoc; reflexivity).
    rewrite swap_remove_snoc. replace (nlen l1 =? nlen (l1 ++ a :: l2)) with false by (symmetry; apply N.eqb_neq; rewrite nlen_app, nlen_cons; lia).
    rewrite nset_app_mid. split; [reflexivity|]. split.
    + intros x. rewrite in_app_iff. cbn [In]. tauto.
    + intros Hnd. apply NoDup_remove in Hnd as [Hnd Hni]. rewrite app_nil_r in *. constructor; assumption.
Qed.

Lemma NoDup_app_r {A} (l1 l2 : list A) : NoDup (l1 ++ l2) -> NoDup l2.
Proof. induction l1 as [|h t IH]; [auto|]. cbn [app]. intros H. inversion H; auto. Qed.

Lemma swap_remove_val_spec a l : NoDup l -> NoDup (swap_remove_val a l) /\ forall x, In x (swap_remove_val a l) <-> In x l /\ x <> a.
Proof.
  intros Hnd. unfold swap_remove_val. destruct (in_dec N.eq_dec a l) as [Hin|Hn].
  - destruct (nposition_split a l Hin) as (l1 & l2 & -> & Hn1 & ->).
    destruct (swap_remove_mid l1 a l2) as (l2' & -> & Hin2 & Hnd2).
    assert (Hnd' : NoDup (l1 ++ l2)) by (eapply NoDup_remove_1; eauto). assert (Hna : ~ In a (l1 ++ l2)) by (eapply NoDup_remove_2; eauto).
    split.
    + pose proof (NoDup_app_r _ _ Hnd') as Hl2. assert (Hd2 : NoDup l2') by (apply Hnd2; exact Hl2).
      clear -Hnd' Hd2 Hin2. induction l1 as [|h t IH]; [exact Hd2|]. cbn [app] in *. inversion Hnd'; subst. constructor; [|now apply IH].
      intros X. apply H1. apply in_app_or in X as [X|X]; apply in_or_app; [now left|right; now apply Hin2].
    + intros x. rewrite !in_app_iff. cbn [In]. rewrite Hin2. split.
      * intros [X|X]; (split; [tauto|]); intros ->; apply Hna; apply in_or_app; tauto.
      * intros [[X|[X|X]] Hne]; [now left|congruence|now right].
  - rewrite (nposition_none a l Hn). split; [exact Hnd|]. intros x. split; [intros H; split; [exact H|intros ->; contradiction]|tauto].
Qed.

(* ---------- the registry side of Archetypes::remove_component ---------- *)
Section RCK.
Variables (cidx ctag : N).

(* KInv while the removed component is already gone from the registry but archetypes may still mention it *)
Definition KJ (w : world) : Prop :=
  SmInv (w_comps w) /\ SmInv (w_tev w) /\ get_by_index (w_comps w) cidx = None /\
  (forall c k ci, get_by_index (w_comps w) c = Some (k, ci) ->
     NoDup (c_member_of ci) /\
     forall ai, In ai (c_member_of ci) <-> exists a, arch_at w ai = Some a /\ In c (a_comps a)) /\
  (forall ai a c, arch_at w ai = Some a -> In c (a_comps a) -> c = cidx \/ comp_live w c) /\
  (forall i k info c, get_by_index (w_tev w) i = Some (k, info) -> (e_kind info = KInsert c \/ e_kind info = KRemove c) ->
     exists kc ci, get_by_index (w_comps w) c = Some (kc, ci) /\ In k (c_ins ci ++ c_rem ci)) /\
  (forall tag k, alookup tag (w_cby w) = Some k -> exists ci, sm_get k (w_comps w) = Some ci /\ c_tag ci = tag).

Lemma rc_step_kreg w ai a : slab_get (w_archs w) ai = Some a ->
  kreg (rc_step cidx ctag w ai) =
    (fold_upd (fun c => c =? cidx) (fun ci => mkC (c_tag ci) (swap_remove_val ai (c_member_of ci)) (c_ins ci) (c_rem ci)) (a_comps a) (w_comps w),
     w_cby w, w_tev w).
Proof.
  intros Ha. unfold rc_step. rewrite Ha. cbn zeta.
  rewrite (fold_left_pres kreg); [rewrite (fold_left_pres kreg); [reflexivity|]|].
  - intros w' [e vals]. apply (fold_left_pres kreg). intros w'' [c v]. unfold drop_cval. now destruct (ctag_has_drop _).
  - intros w' [e vals]. now destruct (sm_remove e (w_ents w')) as [[? ?]|].
Qed.
Lemma rc_step_kfields w ai a : slab_get (w_archs w) ai = Some a ->
  w_comps (rc_step cidx ctag w ai) =
    fold_upd (fun c => c =? cidx) (fun ci => mkC (c_tag ci) (swap_remove_val ai (c_member_of ci)) (c_ins ci) (c_rem ci)) (a_comps a) (w_comps w) /\
  w_cby (rc_step cidx ctag w ai) = w_cby w /\ w_tev (rc_step cidx ctag w ai) = w_tev w.
Proof. intros Ha. pose proof (rc_step_kreg w ai a Ha) as H. unfold kreg in H. injection H as A B C. auto. Qed.

Lemma KJ_step w ai a : J cidx w -> KJ w -> arch_at w ai = Some a -> has_c cidx a -> KJ (rc_step cidx ctag w ai).
Proof.
  intros HJ (S1 & S2 & K0 & K1 & K2 & K3 & K5) Ha Hc.
  destruct (J_step cidx ctag w ai a HJ Ha Hc) as (_ & Hat & _).
  pose proof HJ as (_ & _ & _ & _ & _ & _ & Hso & _). assert (Hnd : NoDup (a_comps a)) by (apply sorted_NoDup; eapply Hso; eauto).
  destruct (rc_step_kfields w ai a Ha) as (Ec & Eb & Et). set (w' := rc_step cidx ctag w ai) in *.
  set (fm := fun ci => mkC (c_tag ci) (swap_remove_val ai (c_member_of ci)) (c_ins ci) (c_rem ci)) in *.
  assert (Hg : forall i, get_by_index (w_comps w') i =
     if existsb (N.eqb i) (a_comps a) && negb (i =? cidx) then match get_by_index (w_comps w) i with Some (k, v) => Some (k, fm v) | None => None end else get_by_index (w_comps w) i).
  { intros i. rewrite Ec. apply (fold_upd_gbi (fun c => c =? cidx) fm (a_comps a) Hnd). }
  assert (Hlive : forall c, comp_live w c -> comp_live w' c).
  { unfold comp_live. intros c X. rewrite Hg. destruct (_ && _); [|exact X]. destruct (get_by_index (w_comps w) c) as [[k v]|]; congruence. }
  split; [rewrite Ec; now apply fold_upd_inv|]. split; [now rewrite Et|]. split; [|split; [|split; [|split]]].
  - rewrite Hg, K0. now destruct (_ && _).
  - intros c k ci' Hgc. rewrite Hg in Hgc. destruct (existsb (N.eqb c) (a_comps a) && negb (c =? cidx)) eqn:Ecase.
    + destruct (get_by_index (w_comps w) c) as [[k0 ci]|] eqn:E0; [|discriminate]. inversion Hgc; subst k0 ci'. destruct (K1 c k ci E0) as [Hnd0 Hm].
      destruct (swap_remove_val_spec ai (c_member_of ci) Hnd0) as [Hnd1 Hin1]. cbn [c_member_of fm]. split; [exact Hnd1|].
      intros aj. rewrite Hin1, Hm, Hat. split.
      * intros [(b & Hb & Hin) Hne]. exists b. split; [|exact Hin]. now replace (aj =? ai) with false by (symmetry; now apply N.eqb_neq).
      * intros (b & Hb & Hin). destruct (aj =? ai) eqn:E; [discriminate|]. apply N.eqb_neq in E. eauto.
    + destruct (K1 c k ci' Hgc) as [Hnd0 Hm]. split; [exact Hnd0|]. intros aj. rewrite Hm, Hat. split.
      * intros (b & Hb & Hin). exists b. split; [|exact Hin]. destruct (aj =? ai) eqn:E; [|exact Hb]. apply N.eqb_eq in E. subst aj.
        rewrite Ha in Hb. inversion Hb; subst b. exfalso.
        apply andb_false_iff in Ecase as [X|X].
        -- apply existsb_In in Hin. congruence.
        -- apply negb_false_iff, N.eqb_eq in X. subst c. congruence.
      * intros (b & Hb & Hin). destruct (aj =? ai); [discriminate|eauto].
  - intros aj b c Hb Hin. rewrite Hat in Hb. destruct (aj =? ai); [discriminate|]. destruct (K2 aj b c Hb Hin) as [X|X]; [now left|right; now apply Hlive].
  - intros i k info c Hgi Hk. rewrite Et in Hgi. destruct (K3 i k info c Hgi Hk) as (kc & ci & Hgc & Hin). rewrite Hg, Hgc.
    destruct (_ && _); [exists kc, (fm ci)|exists kc, ci]; split; auto.
  - intros tag k Hl. rewrite Eb in Hl. destruct (K5 tag k Hl) as (ci & Hgk & Ht). pose proof (gbi_of_get _ _ _ Hgk) as Hgi.
    assert (X : exists ci', get_by_index (w_comps w') (fst k) = Some (k, ci') /\ c_tag ci' = tag).
    { rewrite Hg, Hgi. destruct (_ && _); [exists (fm ci)|exists ci]; split; auto. }
    destruct X as (ci' & Hg' & Ht'). exists ci'. split; [exact (proj2 (get_of_gbi _ _ _ _ Hg'))|exact Ht'].
Qed.

Lemma fold_JK l : forall w, J cidx w -> KJ w -> NoDup l ->
  (forall ai a, In ai l -> arch_at w ai = Some a -> has_c cidx a) -> KJ (fold_left (rc_step cidx ctag) l w).
Proof.
  induction l as [|ai l IH]; intros w HJ HK Hnd Hin; cbn [fold_left]; [exact HK|].
  inversion Hnd as [|? ? Hni Hnd']; subst. destruct (arch_at w ai) as [a|] eqn:Ha.
  - assert (Hc : has_c cidx a) by (eapply Hin; [now left|exact Ha]).
    destruct (J_step cidx ctag w ai a HJ Ha Hc) as (HJ' & Hat & _). apply IH; [exact HJ'|now apply (KJ_step w ai a)|exact Hnd'|].
    intros aj b Hj Hb. rewrite Hat in Hb. destruct (aj =? ai); [discriminate|]. eapply Hin; [right; exact Hj|exact Hb].
  - rewrite (rc_step_dead cidx ctag w ai Ha). apply IH; auto. intros aj b Hj Hb. eapply Hin; [right; exact Hj|exact Hb].
Qed.

Lemma cshape_strip w : cshape (w_archs (strip cidx w)) = cshape (w_archs w).
Proof. unfold strip, cshape. cbn [w_archs set_archs sl_entries]. rewrite map_map. apply map_ext. intros [a|n]; reflexivity. Qed.

Lemma KJ_final w : KJ w -> (forall ai a, arch_at w ai = Some a -> ~ has_c cidx a) -> KInv (strip cidx w).
Proof.
  intros (S1 & S2 & K0 & K1 & K2 & K3 & K5) Hno. apply (KInv_ext w); try reflexivity; [apply cshape_strip|].
  split; [exact S1|]. split; [exact S2|]. split; [exact K1|]. split; [|split; [exact K3|exact K5]].
  intros ai a c Ha Hin. destruct (K2 ai a c Ha Hin) as [->|X]; [|exact X]. exfalso. exact (Hno ai a Ha Hin).
Qed.
End RCK.

(* ---------- targeted events only disappear while a component is being removed ---------- *)
Definition tev_le (w' w : world) : Prop := forall i x, get_by_index (w_tev w') i = Some x -> get_by_index (w_tev w) i = Some x.
Lemma tev_le_refl w : tev_le w w. Proof. intros i x H. exact H. Qed.
Lemma tev_le_trans a b c : tev_le a b -> tev_le b c -> tev_le a c. Proof. intros H1 H2 i x H. apply H2, H1, H. Qed.
Lemma tev_le_eq w' w : w_tev w' = w_tev w -> tev_le w' w. Proof. intros E i x H. now rewrite <- E. Qed.
Lemma tev_le_dead w' w k : tev_le w' w -> sm_get k (w_tev w) = None -> sm_get k (w_tev w') = None.
Proof.
  intros Hle Hd. destruct (sm_get k (w_tev w')) as [v|] eqn:E; [|reflexivity]. apply gbi_of_get in E. apply Hle in E.
  destruct (get_of_gbi _ _ _ _ E) as [_ X]. congruence.
Qed.

Lemma creg_tev w' w : creg w' = creg w -> w_tev w' = w_tev w.
Proof. intros H. exact (f_equal snd H). Qed.

Section Ops5.
Variable beh : hinfo -> logent -> N -> script.

Lemma tev_send_global tag ev w : w_tev (res_world (send_global beh RFUEL tag ev w)) = w_tev w.
Proof. apply creg_tev. apply creg_send_global. Qed.
Lemma tev_remove_handler k w : w_tev (res_world (remove_handler beh k w)) = w_tev w.
Proof.
  unfold remove_handler. destruct (sm_get k (w_hs w)) as [h0|]; [|reflexivity]. clear h0.
  pose proof (tev_send_global G_RMH (mkEv 0 0 k) w) as H. destruct (send_global beh RFUEL G_RMH (mkEv 0 0 k) w) as [[] w1|f w1]; cbn [rbind res_world] in *; [|exact H].
  unfold handlers_remove. destruct (sm_remove k (w_hs w1)) as [[h1 hs]|]; exact H.
Qed.
Lemma tev_remove_handlers ks : forall w, w_tev (res_world (remove_handlers beh ks w)) = w_tev w.
Proof.
  induction ks as [|k t IH]; intros w; cbn [remove_handlers]; [reflexivity|].
  pose proof (tev_remove_handler k w) as H. destruct (remove_handler beh k w) as [b w1|f w1]; cbn [rbind res_world] in *; [|exact H]. now rewrite IH.
Qed.

Lemma rte_post k w : FInv w ->
  tev_le (res_world (remove_targeted_event beh k w)) w /\
  match remove_targeted_event beh k w with ROk _ w' => sm_get k (w_tev w') = None | RFail _ _ => True end.
Proof.
  intros HF. unfold remove_targeted_event. destruct (sm_get k (w_tev w)) as [i0|] eqn:Hk; [|split; [apply tev_le_refl|exact Hk]].
  pose proof (tev_send_global G_RMTE (mkEv 0 0 k) w) as H1. pose proof (send_global_FInv beh G_RMTE (mkEv 0 0 k) w HF) as F1.
  destruct (send_global beh RFUEL G_RMTE (mkEv 0 0 k) w) as [[] w1|f w1]; cbn [rbind res_world] in *; [|split; [now apply tev_le_eq|exact I]].
  match goal with |- context [remove_handlers beh ?ks w1] => pose proof (tev_remove_handlers ks w1) as H2; pose proof (remove_handlers_FInv beh ks w1 F1) as F2;
    destruct (remove_handlers beh ks w1) as [[] w2|f w2] end; cbn [rbind res_world] in *; [|split; [apply tev_le_eq; congruence|exact I]].
  destruct (sm_remove k (w_tev w2)) as [[info m]|] eqn:Er; cbn [res_world]; [|split; [apply tev_le_eq; congruence|exact I]].
  assert (S2 : SmInv (w_tev w2)) by (destruct F2 as [_ (_ & X & _)]; exact X).
  assert (Ht4 : forall w4, w_tev w4 = m -> tev_le w4 w /\ sm_get k (w_tev w4) = None).
  { intros w4 E4. split.
    - intros i x Hg. rewrite E4 in Hg. destruct x as [k' info']. pose proof (gbi_remove _ _ _ _ _ _ _ Er Hg) as X. now rewrite H2, H1 in X.
    - rewrite E4. eapply remove_get_gone; eauto. }
  destruct (e_kind info); apply Ht4; reflexivity.
Qed.

Lemma rtes_post ks : forall w, FInv w ->
  tev_le (res_world (remove_tevents beh ks w)) w /\
  match remove_tevents beh ks w with ROk _ w' => forall k, In k ks -> sm_get k (w_tev w') = None | RFail _ _ => True end.
Proof.
  induction ks as [|k t IH]; intros w HF; cbn [remove_tevents]; [split; [apply tev_le_refl|intros k []]|].
  destruct (rte_post k w HF) as [L1 D1]. pose proof (remove_targeted_event_FInv beh k w HF) as F1.
  destruct (remove_targeted_event beh k w) as [b w1|f w1]; cbn [rbind res_world] in *; [|split; [exact L1|exact I]].
  destruct (IH w1 F1) as [L2 D2]. split; [eapply tev_le_trans; eauto|].
  destruct (remove_tevents beh t w1) as [[] w2|f w2]; cbn [res_world] in *; [|exact I].
  intros k' [<-|Hin]; [eapply tev_le_dead; eauto|now apply D2].
Qed.
End Ops5.

(* ---------- World::remove_component ---------- *)
Section Ops6.
Variable beh : hinfo -> logent -> N -> script.

Lemma gev_rc_fold cidx ctag l : forall w, w_gev (fold_left (rc_step cidx ctag) l w) = w_gev w.
Proof.
  induction l as [|ai l IH]; intros w; cbn [fold_left]; [reflexivity|]. rewrite IH.
  destruct (slab_get (w_archs w) ai) as [a|] eqn:Ha; [exact (proj2 (proj2 (proj2 (rc_step_fields cidx ctag w ai a Ha))))|].
  unfold rc_step. now rewrite Ha.
Qed.

Theorem remove_component_FInv k w : FInv w -> FInv (res_world (remove_component beh k w)).
Proof.
  intros HF. unfold remove_component. destruct (sm_get k (w_comps w)) as [ci0|]; [|exact HF]. clear ci0.
  apply rbind_K; [now apply send_global_FInv|]. intros [] w1 HF1.
  apply rbind_K; [now apply add_targeted_event_FInv|]. intros dk w2 HF2.
  apply rbind_K; [now apply flush_FInv|]. intros [] w3 HF3.
  apply rbind_K; [now apply remove_handlers_FInv|]. intros [] w4 HF4.
  destruct (sm_get k (w_comps w4)) as [ci|] eqn:Hk4; [|exact HF4].
  destruct (rtes_post beh (c_ins ci ++ c_rem ci) w4 HF4) as [Hle Hdead]. pose proof (remove_tevents_FInv beh (c_ins ci ++ c_rem ci) w4 HF4) as HF5.
  destruct (remove_tevents beh (c_ins ci ++ c_rem ci) w4) as [[] w5|f w5]; cbn [rbind res_world] in *; [|exact HF5].
  destruct (sm_remove k (w_comps w5)) as [[ci' m]|] eqn:Er; [|exact HF5]. cbn [res_world].
  set (w6 := set_comps w5 m (aremove (c_tag ci') (w_cby w5))).
  destruct HF5 as [[HW5 HG5] HK5]. pose proof HK5 as (S1 & S2 & K1 & K2 & K3 & K5).
  pose proof (remove_get_self k (w_comps w5) ci' m Er) as Hk5. pose proof (gbi_of_get _ _ _ Hk5) as Hgk5.
  (* no targeted event about the component is left *)
  assert (P5 : forall i kk info, get_by_index (w_tev w5) i = Some (kk, info) -> e_kind info <> KInsert (fst k) /\ e_kind info <> KRemove (fst k)).
  { intros i kk info Hg. assert (Hlive : sm_get kk (w_tev w5) <> None) by (destruct (get_of_gbi _ _ _ _ Hg) as [_ X]; congruence).
    destruct HF4 as [_ (_ & _ & _ & _ & K34 & _)]. pose proof (gbi_of_get _ _ _ Hk4) as Hg4.
    assert (Hx : forall c, e_kind info = KInsert c \/ e_kind info = KRemove c -> c = (fst k) -> False).
    { intros c Hc ->. destruct (K34 i kk info (fst k) (Hle _ _ Hg) Hc) as (kc & ci4 & Hgc & Hin). rewrite Hg4 in Hgc. inversion Hgc; subst ci4.
      apply Hlive. now apply Hdead. }
    split; intros X; eapply Hx; eauto. }
  (* the world with the component unregistered satisfies the loop invariants *)
  assert (HW6 : WInv w6) by (eapply WInv_ext; [| | |exact HW5]; reflexivity).
  assert (Hmem : forall ai a, arch_at w6 ai = Some a -> (In ai (c_member_of ci') <-> In (fst k) (a_comps a))).
  { intros ai a Ha. destruct (K1 (fst k) k ci' Hgk5) as [_ Hm]. rewrite Hm. change (arch_at w6) with (arch_at w5) in Ha. split.
    - intros (b & Hb & Hin). congruence.
    - intros Hin. eauto. }
  assert (Hnd : NoDup (c_member_of ci')) by (exact (proj1 (K1 (fst k) k ci' Hgk5))).
  assert (HKJ : KJ (fst k) w6).
  { unfold KJ. cbn [w_comps w_tev w_cby w6 set_comps]. change (arch_at (set_comps w5 m (aremove (c_tag ci') (w_cby w5)))) with (arch_at w5).
    split; [eapply remove_inv; eauto|]. split; [exact S2|]. split; [eapply gbi_remove_self; eauto|]. split; [|split; [|split]].
    - intros c kc cc Hg. destruct (N.eq_dec c (fst k)) as [->|Hne]; [rewrite (gbi_remove_self _ _ _ _ Er) in Hg; discriminate|].
      rewrite (gbi_remove_other _ _ _ _ c Er Hne) in Hg. exact (K1 c kc cc Hg).
    - intros ai a c Ha Hin. destruct (N.eq_dec c (fst k)) as [->|Hne]; [now left|right]. unfold comp_live, w6. cbn [w_comps set_comps].
      rewrite (gbi_remove_other _ _ _ _ c Er Hne). exact (K2 ai a c Ha Hin).
    - intros i kk info c Hg Hc. destruct (K3 i kk info c Hg Hc) as (kc & cc & Hgc & Hin). exists kc, cc. split; [|exact Hin].
      rewrite (gbi_remove_other _ _ _ _ c Er); [exact Hgc|]. intros ->. destruct (P5 i kk info Hg) as [X Y]. destruct Hc; contradiction.
    - intros tag k' Hl. destruct (N.eq_dec tag (c_tag ci')) as [->|Hne]; [rewrite alookup_aremove_eq in Hl; discriminate|].
      rewrite alookup_aremove_neq in Hl by exact Hne. destruct (K5 tag k' Hl) as (cc & Hg & Ht). exists cc. split; [|exact Ht].
      rewrite (remove_get_other k (w_comps w5) ci' m k' S1 Er); [exact Hg|]. intros ->. rewrite Hk5 in Hg. inversion Hg; subst cc. congruence. }
  destruct (archs_remove_component_ok (fst k) (c_tag ci') w6 (c_member_of ci') HW6 Hnd Hmem) as (HW7 & Hat7 & _). cbn zeta in HW7, Hat7.
  split; [split|].
  - exact HW7.
  - intros i kk info Hg. apply (HG5 i kk info). rewrite archs_remove_component_unfold in Hg. unfold strip, refresh_cursor in Hg. cbn [w_gev set_archs set_res] in Hg.
    now rewrite gev_rc_fold in Hg.
  - rewrite archs_remove_component_unfold. apply KJ_final.
    + apply fold_JK; [now apply WInv_J|exact HKJ|exact Hnd|]. intros ai a Hi Ha. now apply (Hmem ai a Ha).
    + intros ai a Ha. pose proof (Hat7 ai) as X. rewrite archs_remove_component_unfold, strip_arch_at, Ha in X. cbn [option_map] in X.
      destruct (arch_at w6 ai) as [a6|]; [|discriminate]. destruct (existsb (N.eqb (fst k)) (a_comps a6)) eqn:E; [discriminate|].
      inversion X as [Y]. intros Hc. unfold has_c in Hc.
      assert (Hca : a_comps a = a_comps a6).
      { match goal with E : a_comps a = a_comps a6 |- _ => exact E end. }
      rewrite Hca in Hc. apply existsb_In in Hc. congruence.
Qed.
End Ops6.

(* ---------- every world reachable through ALL top-level calls of the driver ---------- *)
Inductive top_all := TA (o : top) | TRemoveComponent (k : key).

Definition run_top_all (beh : hinfo -> logent -> N -> script) (w : world) (o : top_all) : world :=
  match o with
  | TA o => run_top beh w o
  | TRemoveComponent k => res_world (remove_component beh k w)
  end.

Lemma FInv_world0 fuel p : FInv (world0 fuel p).
Proof.
  split; [apply RInv_world0|]. unfold KInv, world0, comp_live, arch_at. cbn [w_comps w_tev w_cby w_archs].
  split; [apply empty_inv|]. split; [apply empty_inv|]. split; [|split; [|split]].
  - intros c k ci H. discriminate.
  - intros ai a c Ha Hin. unfold slab_get in Ha. cbn [sl_entries nget] in Ha. destruct (ai =? 0); [|discriminate]. inversion Ha; subst. destruct Hin.
  - intros i k info c H. discriminate.
  - intros tag k H. discriminate.
Qed.

Lemma run_top_all_FInv beh w o : FInv w -> FInv (run_top_all beh w o).
Proof.
  intros HF. destruct o as [o|k]; cbn [run_top_all]; [|now apply remove_component_FInv]. destruct o; cbn [run_top].
  - now apply op_spawn_FInv. - now apply op_insert_FInv. - now apply op_remove_FInv. - now apply op_despawn_FInv.
  - now apply op_send_FInv. - now apply op_send_to_FInv. - now apply add_handler_FInv. - now apply remove_handler_FInv.
  - exact (proj1 (add_component_FInv beh tag w HF)). - now apply add_global_event_FInv. - now apply add_targeted_event_FInv.
  - now apply remove_global_event_FInv. - now apply remove_targeted_event_FInv.
Qed.

(* C14 / C17 / C01 / C02 on the model: whatever sequence of calls is made - including removals of
   component types with populated archetypes - with whatever handler bodies, panics and fuel, the
   resulting world satisfies the storage, graph and registry invariants *)
Theorem reachable_FInv beh fuel p ops : FInv (fold_left (run_top_all beh) ops (world0 fuel p)).
Proof. apply fold_left_invariant; [apply FInv_world0|]. intros w o. apply run_top_all_FInv. Qed.

From Coq Require Import Permutation.
Lemma swap_remove_perm {A} (l1 : list A) a l2 : Permutation (swap_remove (l1 ++ a :: l2) (nlen l1)) (l1 ++ l2).
Proof.
  destruct l2 as [|b l2] using rev_ind.
  - rewrite swap_remove_snoc, N.eqb_refl, app_nil_r. reflexivity.
  - clear IHl2. replace (l1 ++ a :: l2 ++ [b]) with ((l1 ++ a :: l2) ++ [b]) by (rewrite <- app_assoc; reflexivity).
    rewrite swap_remove_snoc. replace (nlen l1 =? nlen (l1 ++ a :: l2)) with false by (symmetry; apply N.eqb_neq; rewrite nlen_app, nlen_cons; lia).
    rewrite nset_app_mid. apply Permutation_app_head. apply Permutation_cons_append.
Qed.
