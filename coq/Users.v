(* Users.v : removing a handler or an event removes exactly what the documentation says (C15, C14).
   remove_handler: afterwards the key is dead, every other handler is untouched.
   remove_global_event / remove_targeted_event: afterwards the event is dead and the live handlers
   are exactly those of before that neither receive the event nor can send it, each unchanged. *)
From Coq Require Import List NArith Bool Lia Sorted Permutation.
Import ListNotations.
Require Import EV.Base EV.ListN EV.Access EV.Query EV.SlotMap EV.Reserve EV.HList EV.Loop EV.World EV.SlotMapGet
  EV.AccessProofs EV.ArchProofs EV.QueryProofs EV.WorldFrame EV.Store EV.Graph EV.Effects EV.Reach EV.RemoveComp EV.Member EV.Listen EV.Order EV.Fetch EV.NoUB EV.Sender.
Open Scope N_scope.

(* the static view of every handler outside [ks] is unchanged (in particular: live stays live, dead stays dead) *)
Definition hs_keep (w' w : world) (ks : list key) : Prop :=
  forall hk, ~ In hk ks -> option_map hview3 (sm_get hk (w_hs w')) = option_map hview3 (sm_get hk (w_hs w)).
Lemma hs_keep_hv3 w' w ks : hv3 w' = hv3 w -> hs_keep w' w ks.
Proof. intros H hk _. exact (sview_get hview3 (w_hs w) (w_hs w') hk H). Qed.
Lemma hs_keep_trans a b c ks1 ks2 : hs_keep a b ks1 -> hs_keep b c ks2 -> hs_keep a c (ks1 ++ ks2).
Proof. intros H1 H2 hk Hn. rewrite H1, H2; [reflexivity| |]; intros X; apply Hn; apply in_or_app; auto. Qed.
Lemma hs_keep_weaken a b ks ks' : (forall x, In x ks -> In x ks') -> hs_keep a b ks -> hs_keep a b ks'.
Proof. intros Hs H hk Hn. apply H. auto. Qed.

Section U.
Variable beh : hinfo -> logent -> N -> script.

Lemma hv3_gev fuel : forall tag w,
  hv3 (res_world (add_global_event beh fuel tag w)) = hv3 w /\ forall ev, hv3 (res_world (send_global beh fuel tag ev w)) = hv3 w.
Proof.
  induction fuel as [|f IH]; intros tag w; [split; [reflexivity|intros; reflexivity]|].
  assert (Hadd : hv3 (res_world (add_global_event beh (S f) tag w)) = hv3 w).
  { rewrite add_global_event_S. destruct (alookup tag (w_gby w)); [reflexivity|].
    destruct (insert_with (fun _ => mkE tag (gkind tag)) (w_gev w)) as [[k m]|]; [|reflexivity]. cbn zeta.
    set (w2 := set_glists _ _). destruct (IH G_ADDGE w2) as [_ Hs]. specialize (Hs (mkEv 0 0 k)).
    destruct (send_global beh f G_ADDGE (mkEv 0 0 k) w2); cbn [rbind res_world] in *; exact Hs. }
  split; [exact Hadd|]. intros ev. rewrite send_global_S. destruct (IH tag w) as [Ha _].
  destruct (add_global_event beh f tag w) as [k w1|e w1]; cbn [res_world] in *.
  - rewrite hv3_flush. destruct (10 <? tag); exact Ha.
  - rewrite <- Ha. unfold ev_drop, drop_cval. repeat break_match; reflexivity.
Qed.
Lemma hv3_send_global tag ev w : hv3 (res_world (send_global beh RFUEL tag ev w)) = hv3 w.
Proof. exact (proj2 (hv3_gev RFUEL tag w) ev). Qed.

Lemma remove_handler_keep k w : SmInv (w_hs w) -> hs_keep (res_world (remove_handler beh k w)) w [k].
Proof.
  intros S. unfold remove_handler. destruct (sm_get k (w_hs w)); [|apply hs_keep_hv3; reflexivity].
  pose proof (hv3_send_global G_RMH (mkEv 0 0 k) w) as Hv.
  destruct (send_global beh RFUEL G_RMH (mkEv 0 0 k) w) as [[] w1|f w1]; cbn [rbind res_world] in *; [|now apply hs_keep_hv3].
  assert (S1 : SmInv (w_hs w1)) by (eapply sview_inv; [|exact S]; exact Hv).
  unfold handlers_remove. destruct (sm_remove k (w_hs w1)) as [[h1 hs]|] eqn:Er; cbn [res_world]; [|now apply hs_keep_hv3].
  intros hk Hn. change (w_hs (archs_remove_handler _ h1)) with hs. rewrite (remove_get_other k (w_hs w1) h1 hs hk S1 Er); [|intros ->; apply Hn; now left].
  exact (sview_get hview3 (w_hs w) (w_hs w1) hk Hv).
Qed.

Lemma hs_keep_inv w' w ks : hs_keep w' w ks -> True. Proof. auto. Qed.

Lemma remove_handlers_keep ks : forall w, HInv w -> DI w -> hs_keep (res_world (remove_handlers beh ks w)) w ks.
Proof.
  induction ks as [|k t IH]; intros w HH HD; cbn [remove_handlers]; [apply hs_keep_hv3; reflexivity|].
  pose proof (remove_handler_keep k w (proj1 HH)) as H1. pose proof (remove_handler_DI beh k w HD) as HD1.
  destruct (remove_handler beh k w) as [b w1|f w1]; cbn [rbind res_world] in *; [|eapply hs_keep_weaken; [|exact H1]; intros x [<-|[]]; now left].
  assert (HH1 : HInv w1) by (destruct (DI_parts _ HD1) as (_ & (X & _) & _); exact X).
  specialize (IH w1 HH1 HD1). eapply hs_keep_weaken; [|eapply hs_keep_trans; [exact IH|exact H1]].
  intros x Hin. apply in_app_or in Hin as [Hin|[<-|[]]]; [now right|now left].
Qed.

(* C15: removing a handler *)
Theorem remove_handler_exact k w : ZI w ->
  match remove_handler beh k w with
  | ROk _ w' => sm_get k (w_hs w') = None /\ hs_keep w' w [k]
  | RFail _ _ => True end.
Proof.
  intros HZ. destruct (remove_handler_ZOK beh k w HZ) as (_ & _ & P). pose proof HZ as [[HD _] _].
  assert (S : SmInv (w_hs w)) by (destruct (DI_parts _ HD) as (_ & ((X & _) & _) & _); exact X).
  pose proof (remove_handler_keep k w S) as Hk. destruct (remove_handler beh k w) as [b w'|f w']; [|exact I]. split; [exact P|exact Hk].
Qed.

Lemma in_order_live w h : In h (handlers_in_order w) -> exists hk, hlive w hk h.
Proof.
  unfold handlers_in_order. intros Hin. apply in_flat_map in Hin as ([o hk] & _ & Hin). cbn [snd] in Hin.
  destruct (sm_get hk (w_hs w)) as [h0|] eqn:E; [|destruct Hin]. destruct Hin as [<-|[]]. exists hk. exact E.
Qed.

(* the handlers that survive the removal of the users of an event *)
Lemma users_removed (P : hinfo -> bool) w1 w2 w3 :
  (forall h1 h2, hstat h2 = hstat h1 -> P h2 = P h1) -> HInv w1 ->
  hs_le w2 w1 -> hs_keep w2 w1 (map h_key (filter P (handlers_in_order w1))) ->
  (forall k, In k (map h_key (filter P (handlers_in_order w1))) -> sm_get k (w_hs w2) = None) ->
  w_hs w3 = w_hs w2 ->
  forall hk, (exists h', hlive w3 hk h') <-> (exists h, hlive w1 hk h /\ P h = false).
Proof.
  intros HPs HH Hle Hkeep Hgone E3 hk. unfold hlive. rewrite E3. split.
  - intros (h' & Hl). destruct (Hle hk h' Hl) as (h & Hl1 & Hv). exists h. split; [exact Hl1|].
    assert (Es : hstat h' = hstat h) by (unfold hview3 in Hv; congruence). transitivity (P h'); [symmetry; exact (HPs h h' Es)|]; exact (survivors w1 w2 P HH Hle Hgone HPs hk h' Hl).
  - intros (h & Hl1 & Hp).
    assert (Hn : ~ In hk (map h_key (filter P (handlers_in_order w1)))).
    { intros Hin. apply in_map_iff in Hin as (h1 & Hk1 & Hf). apply filter_In in Hf as [Hin Hp1]. destruct (in_order_live w1 h1 Hin) as (hk1 & Hl2).
      destruct HH as (_ & H1 & _). destruct (H1 hk1 h1 Hl2) as (Hk & _). assert (hk1 = hk) by congruence. subst hk1. unfold hlive in *. congruence. }
    specialize (Hkeep hk Hn). unfold hlive in Hl1. rewrite Hl1 in Hkeep. destruct (sm_get hk (w_hs w2)) as [h2|]; [eauto|discriminate].
Qed.

(* C15: removing a global event removes exactly the handlers that receive it or can send it *)
Theorem remove_global_event_exact k w w' : ZI w -> remove_global_event beh k w = ROk true w' ->
  sm_get k (w_gev w') = None /\
  forall hk, (exists h', hlive w' hk h') <-> (exists h, hlive w hk h /\ recvid_eqb (h_recv h) (RvGlobal k) || smem (fst k) (h_sent_g h) = false).
Proof.
  intros HZ E. destruct (remove_global_event_ZOK beh k w HZ) as (_ & _ & Hp). rewrite E in Hp. destruct (Hp eq_refl) as [Hdead _]. split; [exact Hdead|].
  unfold remove_global_event in E. destruct (sm_get k (w_gev w)); [|discriminate].
  pose proof (hv3_send_global G_RMGE (mkEv 0 0 k) w) as Hv. destruct (send_global_ZOK beh G_RMGE (mkEv 0 0 k) w HZ) as (Z1 & _ & _).
  destruct (send_global beh RFUEL G_RMGE (mkEv 0 0 k) w) as [[] w1|f w1]; cbn [rbind res_world] in *; [|discriminate].
  set (P := fun h => recvid_eqb (h_recv h) (RvGlobal k) || smem (fst k) (h_sent_g h)) in *.
  assert (HPs : forall h1 h2, hstat h2 = hstat h1 -> P h2 = P h1) by (intros h1 h2 Es; unfold P; now rewrite (f_equal h_recv Es : h_recv h2 = h_recv h1), (f_equal h_sent_g Es : h_sent_g h2 = h_sent_g h1)).
  destruct Z1 as [[HD1 HS1] HY1]. assert (HH1 : HInv w1) by (destruct (DI_parts _ HD1) as (_ & (X & _) & _); exact X).
  pose proof (hs_le_remove_handlers beh (map h_key (filter P (handlers_in_order w1))) w1) as Hle.
  pose proof (remove_handlers_keep (map h_key (filter P (handlers_in_order w1))) w1 HH1 HD1) as Hkeep.
  destruct (remove_handlers_ZOK beh (map h_key (filter P (handlers_in_order w1))) w1 (conj (conj HD1 HS1) HY1)) as (_ & _ & P2).
  destruct (remove_handlers beh (map h_key (filter P (handlers_in_order w1))) w1) as [[] w2|f w2]; cbn [rbind res_world] in *; [|discriminate].
  destruct (sm_remove k (w_gev w2)) as [[info m]|]; [|discriminate]. inversion E; subst w'. clear E.
  intros hk. rewrite (users_removed P w1 w2 _ HPs HH1 Hle Hkeep P2 eq_refl hk).
  pose proof (sview_get hview3 (w_hs w) (w_hs w1) hk Hv) as Eg. unfold hlive. split.
  - intros (h1 & Hl1 & Hp1). rewrite Hl1 in Eg. destruct (sm_get hk (w_hs w)) as [h|]; [|discriminate]. exists h. split; [reflexivity|].
    cbn in Eg. assert (Es : hstat h1 = hstat h) by (unfold hview3 in Eg; congruence). change (P h = false). rewrite <- (HPs h h1 Es). exact Hp1.
  - intros (h & Hl & Hp0). rewrite Hl in Eg. destruct (sm_get hk (w_hs w1)) as [h1|]; [|discriminate]. exists h1. split; [reflexivity|].
    cbn in Eg. assert (Es : hstat h1 = hstat h) by (unfold hview3 in Eg; congruence). change (P h1 = false). rewrite (HPs h h1 Es). exact Hp0.
Qed.

Theorem remove_targeted_event_exact k w w' : ZI w -> remove_targeted_event beh k w = ROk true w' ->
  sm_get k (w_tev w') = None /\
  forall hk, (exists h', hlive w' hk h') <-> (exists h, hlive w hk h /\ recvid_eqb (h_recv h) (RvTargeted k) || smem (fst k) (h_sent_t h) = false).
Proof.
  intros HZ E. destruct (remove_targeted_event_ZOK beh k w HZ) as (_ & _ & Hp). rewrite E in Hp. destruct (Hp eq_refl) as [Hdead _]. split; [exact Hdead|].
  unfold remove_targeted_event in E. destruct (sm_get k (w_tev w)); [|discriminate].
  pose proof (hv3_send_global G_RMTE (mkEv 0 0 k) w) as Hv. destruct (send_global_ZOK beh G_RMTE (mkEv 0 0 k) w HZ) as (Z1 & _ & _).
  destruct (send_global beh RFUEL G_RMTE (mkEv 0 0 k) w) as [[] w1|f w1]; cbn [rbind res_world] in *; [|discriminate].
  set (P := fun h => recvid_eqb (h_recv h) (RvTargeted k) || smem (fst k) (h_sent_t h)) in *.
  assert (HPs : forall h1 h2, hstat h2 = hstat h1 -> P h2 = P h1) by (intros h1 h2 Es; unfold P; now rewrite (f_equal h_recv Es : h_recv h2 = h_recv h1), (f_equal h_sent_t Es : h_sent_t h2 = h_sent_t h1)).
  destruct Z1 as [[HD1 HS1] HY1]. assert (HH1 : HInv w1) by (destruct (DI_parts _ HD1) as (_ & (X & _) & _); exact X).
  pose proof (hs_le_remove_handlers beh (map h_key (filter P (handlers_in_order w1))) w1) as Hle.
  pose proof (remove_handlers_keep (map h_key (filter P (handlers_in_order w1))) w1 HH1 HD1) as Hkeep.
  destruct (remove_handlers_ZOK beh (map h_key (filter P (handlers_in_order w1))) w1 (conj (conj HD1 HS1) HY1)) as (_ & _ & P2).
  destruct (remove_handlers beh (map h_key (filter P (handlers_in_order w1))) w1) as [[] w2|f w2]; cbn [rbind res_world] in *; [|discriminate].
  destruct (sm_remove k (w_tev w2)) as [[info m]|]; [|discriminate]. inversion E; subst w'. clear E.
  assert (E3 : w_hs (match e_kind info with
     | KInsert c => set_comps (set_tev w2 m (aremove (e_tag info) (w_tby w2))) (upd_by_index (w_comps (set_tev w2 m (aremove (e_tag info) (w_tby w2)))) c (fun ci => mkC (c_tag ci) (c_member_of ci) (filter (fun x => negb (key_eqb x k)) (c_ins ci)) (c_rem ci))) (w_cby (set_tev w2 m (aremove (e_tag info) (w_tby w2))))
     | KRemove c => set_comps (set_tev w2 m (aremove (e_tag info) (w_tby w2))) (upd_by_index (w_comps (set_tev w2 m (aremove (e_tag info) (w_tby w2)))) c (fun ci => mkC (c_tag ci) (c_member_of ci) (c_ins ci) (filter (fun x => negb (key_eqb x k)) (c_rem ci)))) (w_cby (set_tev w2 m (aremove (e_tag info) (w_tby w2))))
     | _ => set_tev w2 m (aremove (e_tag info) (w_tby w2)) end) = w_hs w2) by (destruct (e_kind info); reflexivity).
  intros hk. rewrite (users_removed P w1 w2 _ HPs HH1 Hle Hkeep P2 E3 hk).
  pose proof (sview_get hview3 (w_hs w) (w_hs w1) hk Hv) as Eg. unfold hlive. split.
  - intros (h1 & Hl1 & Hp1). rewrite Hl1 in Eg. destruct (sm_get hk (w_hs w)) as [h|]; [|discriminate]. exists h. split; [reflexivity|].
    cbn in Eg. assert (Es : hstat h1 = hstat h) by (unfold hview3 in Eg; congruence). change (P h = false). rewrite <- (HPs h h1 Es). exact Hp1.
  - intros (h & Hl & Hp0). rewrite Hl in Eg. destruct (sm_get hk (w_hs w1)) as [h1|]; [|discriminate]. exists h1. split; [reflexivity|].
    cbn in Eg. assert (Es : hstat h1 = hstat h) by (unfold hview3 in Eg; congruence). change (P h1 = false). rewrite (HPs h h1 Es). exact Hp0.
Qed.

(* ---------- C14: what is left after remove_component ---------- *)
Lemma gbi_none_fold_upd (skip : N -> bool) (f : cinfo -> cinfo) cs i : forall m, get_by_index m i = None -> get_by_index (fold_upd skip f cs m) i = None.
Proof.
  induction cs as [|c cs IH]; intros m H; cbn [fold_upd fold_left]; [exact H|]. apply IH. destruct (skip c); [exact H|].
  rewrite gbi_upd. destruct (i =? c); [now rewrite H|exact H].
Qed.
Lemma gbi_none_rc_step cidx ctag w ai i : get_by_index (w_comps w) i = None -> get_by_index (w_comps (rc_step cidx ctag w ai)) i = None.
Proof.
  intros H. destruct (slab_get (w_archs w) ai) as [a|] eqn:Ha; [|unfold rc_step; now rewrite Ha].
  destruct (rc_step_kfields cidx ctag w ai a Ha) as (Ec & _). rewrite Ec. now apply gbi_none_fold_upd.
Qed.
Lemma gbi_none_archs_remove_component cidx ctag w l i : get_by_index (w_comps w) i = None -> get_by_index (w_comps (archs_remove_component w cidx ctag l)) i = None.
Proof.
  intros H. rewrite archs_remove_component_unfold. change (w_comps (strip cidx (fold_left (rc_step cidx ctag) l w))) with (w_comps (fold_left (rc_step cidx ctag) l w)).
  revert w H. induction l as [|ai l IH]; intros w H; cbn [fold_left]; [exact H|]. apply IH. now apply gbi_none_rc_step.
Qed.

Theorem remove_component_exact k w w' : ZI w -> remove_component beh k w = ROk true w' ->
  get_by_index (w_comps w') (fst k) = None /\
  (forall hk h, hlive w' hk h -> smem (fst k) (h_refcomps h) = false) /\
  (forall ai a, arch_at w' ai = Some a -> ~ In (fst k) (a_comps a)) /\
  (forall i ek info, get_by_index (w_tev w') i = Some (ek, info) -> e_kind info <> KInsert (fst k) /\ e_kind info <> KRemove (fst k)).
Proof.
  intros HZ E. destruct (remove_component_ZOK beh k w HZ) as (Zf & _ & _). rewrite E in Zf. cbn [res_world] in Zf.
  assert (Hdead : get_by_index (w_comps w') (fst k) = None /\ forall hk h, hlive w' hk h -> smem (fst k) (h_refcomps h) = false).
  { unfold remove_component in E. destruct (sm_get k (w_comps w)); [|discriminate].
    destruct (send_global_ZOK beh G_RMC (mkEv 0 0 k) w HZ) as (Z1 & _ & _).
    destruct (send_global beh RFUEL G_RMC (mkEv 0 0 k) w) as [[] w1|f w1]; cbn [rbind res_world] in *; [|discriminate].
    destruct (add_targeted_event_ZOK beh T_DESPAWN w1 Z1) as (Z2 & _ & P2).
    destruct (add_targeted_event beh T_DESPAWN w1) as [dk w2|f w2]; cbn [rbind res_world] in *; [|discriminate]. destruct P2 as [_ [Hdk _]].
    match type of E with context [flush beh ?q0 w2] => set (q := q0) in * end.
    assert (Hq : forall x, In x q -> item_ok w2 x).
    { intros x Hin. unfold q in Hin. apply in_flat_map in Hin as ([ai a] & _ & Hin). destruct (arch_has a (fst k)); [|destruct Hin].
      apply in_map_iff in Hin as ([e vals] & <- & _). exact Hdk. }
    destruct (flush_ZOK beh q w2 Z2 Hq) as (Z3 & _ & _).
    destruct (flush beh q w2) as [[] w3|f w3]; cbn [rbind res_world] in *; [|discriminate].
    set (P := fun h => smem (fst k) (h_refcomps h)) in *.
    assert (HPs : forall h1 h2, hstat h2 = hstat h1 -> P h2 = P h1) by (intros h1 h2 Es; unfold P; now rewrite (f_equal h_refcomps Es : h_refcomps h2 = h_refcomps h1)).
    destruct Z3 as [[HD3 HS3] HY3]. assert (HH3 : HInv w3) by (destruct (DI_parts _ HD3) as (_ & (X & _) & _); exact X).
    pose proof (hs_le_remove_handlers beh (map h_key (filter P (handlers_in_order w3))) w3) as Hle4.
    destruct (remove_handlers_ZOK beh (map h_key (filter P (handlers_in_order w3))) w3 (conj (conj HD3 HS3) HY3)) as (_ & _ & P4).
    destruct (remove_handlers beh (map h_key (filter P (handlers_in_order w3))) w3) as [[] w4|f w4]; cbn [rbind res_world] in *; [|discriminate].
    pose proof (survivors w3 w4 P HH3 Hle4 P4 HPs) as Hsurv.
    destruct (sm_get k (w_comps w4)) as [ci|]; [|discriminate].
    pose proof (hs_le_remove_tevents beh (c_ins ci ++ c_rem ci) w4) as Hle5.
    destruct (remove_tevents beh (c_ins ci ++ c_rem ci) w4) as [[] w5|f w5]; cbn [rbind res_world] in *; [|discriminate].
    destruct (sm_remove k (w_comps w5)) as [[ci' m]|] eqn:Er; [|discriminate]. inversion E; subst w'. clear E. split.
    - change (w_comps (refresh_cursor ?x)) with (w_comps x). apply gbi_none_archs_remove_component. cbn [w_comps set_comps]. eapply gbi_remove_self; eauto.
    - intros hk h Hl.
      assert (Hle : hs_le (refresh_cursor (archs_remove_component (set_comps w5 m (aremove (c_tag ci') (w_cby w5))) (fst k) (c_tag ci') (c_member_of ci'))) w4).
      { eapply hs_le_trans; [apply hs_le_hs; reflexivity|]. eapply hs_le_trans; [apply hs_le_archs_remove_component|]. eapply hs_le_trans; [|exact Hle5]. now apply hs_le_hs. }
      destruct (Hle hk h Hl) as (h4 & Hl4 & Hv). assert (Es : hstat h = hstat h4) by (unfold hview3 in Hv; congruence).
      change (P h = false). rewrite (HPs h4 h Es). exact (Hsurv hk h4 Hl4). }
  destruct Hdead as [Hc Hh]. split; [exact Hc|]. split; [exact Hh|].
  destruct Zf as [[HD _] _]. destruct (DI_parts _ HD) as ([_ (_ & _ & _ & K2 & K3 & _)] & _). split.
  - intros ai a Ha Hin. exact (K2 ai a (fst k) Ha Hin Hc).
  - intros i ek info Hg. split; intros Hk.
    + destruct (K3 i ek info (fst k) Hg (or_introl Hk)) as (kc & ci & X & _). congruence.
    + destruct (K3 i ek info (fst k) Hg (or_intror Hk)) as (kc & ci & X & _). congruence.
Qed.
End U.

(* ---------- C02: World::get reads the storage map ---------- *)
Theorem op_get_is_abs e ktag w : StoreInv w ->
  op_get e ktag w = inr (match alookup ktag (w_cby w) with Some ck => abs w e (fst ck) | None => None end).
Proof.
  intros (_ & Hl & Hw). unfold op_get, abs. destruct (sm_get e (w_ents w)) as [[ai row]|] eqn:He; [|now destruct (alookup ktag (w_cby w))].
  destruct (alookup ktag (w_cby w)) as [ck|]; [|reflexivity]. destruct (Hl _ _ _ He) as (a & vals & Ha & Hrow).
  unfold arch_at in *. cbn [fst snd]. rewrite Ha, Hrow. unfold row_col. destruct (col_index (a_comps a) (fst ck)) as [ci|] eqn:Ec; [|reflexivity].
  destruct (Hw ai a row e vals Ha Hrow) as [_ Hlen]. apply col_index_lt in Ec.
  destruct (nget_lt_some vals ci) as [v Hv]; [unfold nlen in *; rewrite Hlen; exact Ec|]. now rewrite Hv.
Qed.
Theorem reachable_get_is_abs beh fuel p ops e ktag : let w := fold_left (run_top_all beh) ops (world0 fuel p) in
  op_get e ktag w = inr (match alookup ktag (w_cby w) with Some ck => abs w e (fst ck) | None => None end).
Proof. cbn zeta. apply op_get_is_abs. destruct (reachable_ZI beh fuel p ops) as [[HD _] _]. destruct (DI_parts _ HD) as ([[[X _] _] _] & _). exact X. Qed.

(* ---------- C08 / C15: the handlers a delivery runs listen for exactly the delivered event (not merely its index) ---------- *)
Theorem delivered_receive_this_event w it hk : ZI w -> In hk (delivered_to w it) ->
  exists h ek info, hlive w hk h /\
    (if qi_targeted it then h_recv h = RvTargeted ek /\ get_by_index (w_tev w) (qi_idx it) = Some (ek, info)
     else h_recv h = RvGlobal ek /\ get_by_index (w_gev w) (qi_idx it) = Some (ek, info)).
Proof.
  intros [[HD _] (_ & _ & _ & HR)] Hin. destruct (DI_parts _ HD) as (_ & HH & _ & _).
  apply (proj2 (delivered_to_exact w it HH)) in Hin. destruct (qi_targeted it).
  - destruct Hin as (loc & a & h & ek & _ & _ & Hl & Hrv & Hi & _). pose proof (HR hk h Hl) as Hr. unfold recv_ok in Hr. rewrite Hrv in Hr.
    destruct (sm_get ek (w_tev w)) as [info|] eqn:E; [|tauto]. exists h, ek, info. split; [exact Hl|]. split; [exact Hrv|]. rewrite <- Hi. now apply gbi_of_get.
  - destruct Hin as (h & ek & Hl & Hrv & Hi). pose proof (HR hk h Hl) as Hr. unfold recv_ok in Hr. rewrite Hrv in Hr.
    destruct (sm_get ek (w_gev w)) as [info|] eqn:E; [|tauto]. exists h, ek, info. split; [exact Hl|]. split; [exact Hrv|]. rewrite <- Hi. now apply gbi_of_get.
Qed.
