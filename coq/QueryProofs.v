(* QueryProofs.v : for every query expression and every archetype (any predicate on
   component indices), the access expression built by `init`, the structural matcher
   `new_arch_state` and the documented Boolean meaning agree. *)
From Coq Require Import List NArith Bool Lia.
Import ListNotations.
Require Import EV.Base EV.Access EV.AccessProofs EV.Query.
Require Export EV.QueryInd.



(* T1: the access expression matches exactly the archetypes the documented meaning selects *)
Theorem access_matches_qmatch (a : N -> bool) (q : query) : ca_matches a (access_of q) = qmatch a q.
Proof.
  induction q as [c|c|qs IH|q IH|l r IHl IHr|l r IHl IHr|q IH|q IH|q IH|] using query_ind'; cbn [access_of qmatch].
  - apply ca_var_matches.
  - apply ca_var_matches.
  - assert (G : forall acc, ca_matches a (fold_left (fun acc q' => ca_and acc (access_of q')) qs acc)
                          = ca_matches a acc && forallb (qmatch a) qs).
    { induction IH as [|x l Hx _ IHl]; intros acc; cbn [fold_left forallb]; [now rewrite andb_true_r|].
      rewrite IHl, ca_and_matches, Hx. now rewrite andb_assoc. }
    rewrite G. reflexivity.
  - rewrite ca_or_matches. reflexivity.
  - rewrite !ca_or_matches, ca_and_matches, IHl, IHr. destruct (qmatch a l), (qmatch a r); reflexivity.
  - rewrite ca_or_matches, !ca_and_matches, !ca_not_matches, IHl, IHr. destruct (qmatch a l), (qmatch a r); reflexivity.
  - rewrite ca_not_matches, IH. reflexivity.
  - rewrite ca_clear_matches. exact IH.
  - reflexivity.
  - reflexivity.
Qed.

(* the structural matcher decides the same predicate *)
Theorem arch_state_iff_qmatch (a : N -> bool) (q : query) :
  (if arch_state a q then true else false) = qmatch a q.
Proof.
  induction q as [c|c|qs IH|q IH|l r IHl IHr|l r IHl IHr|q IH|q IH|q IH|] using query_ind'; cbn [arch_state qmatch].
  - destruct (a c); reflexivity.
  - destruct (a c); reflexivity.
  - induction IH as [|x l Hx _ IHl]; [reflexivity|]. cbn [forallb map seq_opt].
    rewrite <- Hx, <- IHl. destruct (arch_state a x); [|reflexivity].
    destruct (seq_opt (map (arch_state a) l)); reflexivity.
  - reflexivity.
  - rewrite <- IHl, <- IHr. destruct (arch_state a l), (arch_state a r); reflexivity.
  - rewrite <- IHl, <- IHr. destruct (arch_state a l), (arch_state a r); reflexivity.
  - rewrite <- IH. destruct (arch_state a q); reflexivity.
  - rewrite <- IH. destruct (arch_state a q); reflexivity.
  - reflexivity.
  - reflexivity.
Qed.

Corollary init_agrees_with_matcher a q : ca_matches a (access_of q) = (if arch_state a q then true else false).
Proof. now rewrite access_matches_qmatch, arch_state_iff_qmatch. Qed.
