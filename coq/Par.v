(* Par.v : parallel iteration of src/fetch.rs:765-830 as arbitrary split trees.
   ParIter drives  arch_states.par_iter().zip_eq(arch_indices)
                     .flat_map(|(state, index)| (0..entity_count(index)).into_par_iter().map(|row| get(state,row)))
   rayon splits an indexed producer at arbitrary points, recursively, and hands the leaves to
   arbitrary threads.  A producer is a finite sequence; a split tree chooses the split points;
   whatever the trees, the leaves partition the sequence (modelled premise: rayon's
   slice/range/zip/map producers split as `split_at`, its flat_map drives each outer item's
   inner iterator completely). *)
From Coq Require Import List Arith Lia Permutation.
Import ListNotations.

Section Par.
Context {A B : Type}.

Inductive tree := Leaf | Node (i : nat) (l r : tree).

(* leaves of an indexed producer under a split tree *)
Fixpoint leaves {X} (t : tree) (p : list X) : list (list X) :=
  match t with
  | Leaf => [p]
  | Node i l r => leaves l (firstn i p) ++ leaves r (skipn i p)
  end.

Theorem leaves_partition {X} (t : tree) : forall p : list X, concat (leaves t p) = p.
Proof.
  induction t as [|i l IHl r IHr]; intros p; cbn [leaves concat]; [apply app_nil_r|].
  rewrite concat_app, IHl, IHr. apply firstn_skipn.
Qed.

(* zip_eq of two slices splits both at the same index *)
Lemma combine_firstn {X Y} (a : list X) (b : list Y) i : firstn i (combine a b) = combine (firstn i a) (firstn i b).
Proof. revert a b. induction i as [|i IH]; intros [|x a] [|y b]; cbn; try reflexivity. now rewrite IH. Qed.
Lemma combine_skipn {X Y} (a : list X) (b : list Y) i : skipn i (combine a b) = combine (skipn i a) (skipn i b).
Proof.
  revert a b. induction i as [|i IH]; intros [|x a] [|y b]; cbn; try reflexivity.
  - now destruct (skipn i a).
  - apply IH.
Qed.
Fixpoint zip_leaves {X Y} (t : tree) (a : list X) (b : list Y) : list (list (X * Y)) :=
  match t with
  | Leaf => [combine a b]
  | Node i l r => zip_leaves l (firstn i a) (firstn i b) ++ zip_leaves r (skipn i a) (skipn i b)
  end.
Lemma zip_leaves_eq {X Y} (t : tree) : forall (a : list X) (b : list Y), zip_leaves t a b = leaves t (combine a b).
Proof.
  induction t as [|i l IHl r IHr]; intros a b; cbn; [reflexivity|].
  now rewrite IHl, IHr, combine_firstn, combine_skipn.
Qed.

(* the inner iterator of one (state, index) pair: rows 0..n mapped through `get` *)
Definition inner (get : A -> nat -> B) (count : A -> nat) (s : A) : list B := map (get s) (seq 0 (count s)).

(* a parallel run: an outer tree over the archetype list, an inner tree per archetype, and the
   items each leaf visits, in tree order *)
Definition par_run (get : A -> nat -> B) (count : A -> nat) (outer : tree) (inner_tree : A -> tree) (states : list A)
  : list (list B) :=
  flat_map (fun leaf => flat_map (fun s => leaves (inner_tree s) (inner get count s)) leaf) (leaves outer states).

Definition seq_run (get : A -> nat -> B) (count : A -> nat) (states : list A) : list B :=
  flat_map (inner get count) states.

Lemma flat_map_concat {X Y} (f : X -> list Y) (l : list X) : flat_map f l = concat (map f l).
Proof. induction l; cbn; [reflexivity|now rewrite IHl]. Qed.

(* C19: for every outer split tree and every family of inner split trees, the tasks together
   visit exactly the items of sequential iteration, each exactly once and in an order that is
   a rearrangement of it by whole leaves *)
Theorem par_visits_exactly_sequential get count outer inner_tree states :
  concat (par_run get count outer inner_tree states) = seq_run get count states.
Proof.
  unfold par_run, seq_run.
  rewrite <- (leaves_partition outer states) at 2.
  induction (leaves outer states) as [|leaf ls IH]; cbn [flat_map concat]; [reflexivity|].
  rewrite concat_app, IH, flat_map_app. f_equal. clear.
  induction leaf as [|s leaf IH]; cbn [flat_map concat]; [reflexivity|].
  rewrite concat_app, IH, leaves_partition. reflexivity.
Qed.

(* whatever order the scheduler runs the leaves in (any permutation of the leaf list), the
   multiset of visited items is that of sequential iteration *)
Lemma concat_perm {X} (l l' : list (list X)) : Permutation l l' -> Permutation (concat l) (concat l').
Proof.
  induction 1; cbn.
  - constructor.
  - now apply Permutation_app_head.
  - rewrite !app_assoc. apply Permutation_app_tail, Permutation_app_comm.
  - eapply Permutation_trans; eauto.
Qed.
Theorem par_any_schedule get count outer inner_tree states schedule :
  Permutation schedule (par_run get count outer inner_tree states) ->
  Permutation (concat schedule) (seq_run get count states).
Proof.
  intros H. rewrite <- (par_visits_exactly_sequential get count outer inner_tree states). now apply concat_perm.
Qed.

(* hence: if sequential iteration yields no item twice, no two tasks receive the same item *)
Corollary par_no_item_twice get count outer inner_tree states schedule :
  Permutation schedule (par_run get count outer inner_tree states) ->
  NoDup (seq_run get count states) -> NoDup (concat schedule).
Proof.
  intros H Hnd. eapply Permutation_NoDup; [apply Permutation_sym, (par_any_schedule get count outer inner_tree states schedule H)|exact Hnd].
Qed.
End Par.
