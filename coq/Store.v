(* Store.v : the storage invariant of the world model (C17, first part) and the abstraction to
   a finite map (C02).
     - every live entity's recorded location points at a row that holds that entity;
     - every row of every archetype holds a live entity whose recorded location is that row,
       with one value per column;
     - the entity slot map satisfies its own invariant.
   Preserved by spawning, by removing an entity's row (swap-remove with fix-up of the displaced
   entity) and by moving an entity between archetypes. *)
From Coq Require Import List NArith Bool Lia Permutation.
Import ListNotations.
Require Import EV.Base EV.ListN EV.Access EV.Query EV.SlotMap EV.Reserve EV.HList EV.Loop EV.World EV.SlotMapGet.
Open Scope N_scope.

Definition arch_at (w : world) (ai : N) : option arch := slab_get (w_archs w) ai.

Definition StoreInv (w : world) : Prop :=
  SmInv (w_ents w) /\
  (forall e ai row, sm_get e (w_ents w) = Some (ai, row) ->
     exists a vals, arch_at w ai = Some a /\ nget (a_rows a) row = Some (e, vals)) /\
  (forall ai a row e vals, arch_at w ai = Some a -> nget (a_rows a) row = Some (e, vals) ->
     sm_get e (w_ents w) = Some (ai, row) /\ length vals = length (a_comps a)).

(* the map the storage denotes: value of component (index) c of entity e *)
Definition abs (w : world) (e : key) (c : N) : option cval :=
  match sm_get e (w_ents w) with
  | Some (ai, row) =>
      match arch_at w ai with
      | Some a => match nget (a_rows a) row with Some (_, vals) => row_col a vals c | None => None end
      | None => None
      end
  | None => None
  end.

Lemma StoreInv_ext w w' : w_ents w' = w_ents w -> w_archs w' = w_archs w -> StoreInv w -> StoreInv w'.
Proof. unfold StoreInv, arch_at. intros -> ->. auto. Qed.
Lemma abs_ext w w' : w_ents w' = w_ents w -> w_archs w' = w_archs w -> forall e c, abs w' e c = abs w e c.
Proof. unfold abs, arch_at. intros -> ->. reflexivity. Qed.

(* ---------- slab ---------- *)
Lemma slab_get_set_eq s i a0 a : slab_get s i = Some a0 -> slab_get (slab_set s i a) i = Some a.
Proof.
  unfold slab_get, slab_set. cbn [sl_entries]. destruct (nget (sl_entries s) i) as [[x|n]|] eqn:E; try discriminate. intros _.
  rewrite nget_nset_eq; [reflexivity|]. eapply nget_some_lt; eauto.
Qed.
Lemma slab_get_set_neq s i j a : i <> j -> slab_get (slab_set s i a) j = slab_get s j.
Proof. intros H. unfold slab_get, slab_set. cbn [sl_entries]. now rewrite nget_nset_neq. Qed.

(* two live keys of one slot are the same key *)
Lemma live_same_index {V} (m : smap V) k1 k2 v1 v2 : sm_get k1 m = Some v1 -> sm_get k2 m = Some v2 -> fst k1 = fst k2 -> k1 = k2.
Proof.
  intros H1 H2 Hf. destruct (sm_get_some_inv _ _ _ H1) as (s1 & Hs1 & Hg1 & _). destruct (sm_get_some_inv _ _ _ H2) as (s2 & Hs2 & Hg2 & _).
  rewrite Hf in Hs1. rewrite Hs1 in Hs2. inversion Hs2; subst. destruct k1, k2. cbn in *. congruence.
Qed.

(* ---------- the empty world ---------- *)
Lemma StoreInv_world0 fuel p : StoreInv (world0 fuel p).
Proof.
  unfold StoreInv, world0, arch_at. cbn [w_ents w_archs]. split; [apply empty_inv|]. split.
  - intros e ai row H. discriminate.
  - intros ai a row e vals Ha Hr. unfold slab_get in Ha. cbn in Ha. destruct (ai =? 0); [|discriminate]. inversion Ha; subst. discriminate.
Qed.

(* ---------- removing a row (archetype.rs:507-540) ---------- *)
Section RemoveRow.
Variables (w : world) (ai row : N) (a : arch) (e : key) (vals : list cval).
Hypothesis Hinv : StoreInv w.
Hypothesis Ha : arch_at w ai = Some a.
Hypothesis Hrow : nget (a_rows a) row = Some (e, vals).

Local Notation a1 := (set_rows a (swap_remove (a_rows a) row)).
Local Notation archs1 := (slab_set (w_archs w) ai a1).

Lemma remove_row_ents_some : exists ents', sm_remove e (w_ents w) = Some ((ai, row), ents').
Proof.
  destruct Hinv as (Hsm & _ & Hr). destruct (Hr _ _ _ _ _ Ha Hrow) as [Hg _].
  destruct (sm_get_some_inv _ _ _ Hg) as (s & Hs & Hgen & Hv). unfold sm_remove. rewrite Hs, Hgen, N.eqb_refl, Hv.
  destruct (wrap_succ (snd e) =? 0); eauto.
Qed.

(* the world after the row is gone and the displaced entity's location is fixed up *)
Definition remove_row_result (ents' : smap eloc) : world :=
  let w2 := set_ents (set_archs w archs1) ents' in
  match nget (a_rows a1) row with
  | Some (de, _) => set_ents w2 (upd_by_index ents' (fst de) (fun l => (fst l, row)))
  | None => w2
  end.

Lemma remove_row_inv ents' : sm_remove e (w_ents w) = Some ((ai, row), ents') -> StoreInv (remove_row_result ents').
Proof.
  intros Hrem. destruct Hinv as (Hsm & Hl & Hr).
  assert (Hsm' : SmInv ents') by (eapply remove_inv; eauto).
  assert (Hrlt : row < nlen (a_rows a)) by (eapply nget_some_lt; eauto).
  destruct (a_rows a) as [|r0 rs0] eqn:Erows using rev_ind; [rewrite nlen_nil in Hrlt; lia|]. clear IHrs0.
  rename rs0 into pre. rename r0 into lastrow. rewrite nlen_app in Hrlt. change (nlen [lastrow]) with 1 in Hrlt.
  assert (Hle : row <= nlen pre) by lia.
  assert (Hrows1 : a_rows a1 = swap_remove (a_rows a) row) by reflexivity.
  (* facts about the old state *)
  assert (Hge : sm_get e (w_ents w) = Some (ai, row)).
  { refine (proj1 (Hr ai a row e vals Ha _)). rewrite Erows. exact Hrow. }
  assert (Hother : forall k, k <> e -> sm_get k ents' = sm_get k (w_ents w)) by (intros k Hk; exact (remove_get_other e (w_ents w) (ai, row) ents' k Hsm Hrem Hk)).
  assert (Hgone : sm_get e ents' = None) by exact (remove_get_gone e (w_ents w) (ai, row) ents' Hsm Hrem).
  assert (Harch1 : forall j, slab_get archs1 j = if j =? ai then Some a1 else arch_at w j).
  { intros j. destruct (j =? ai) eqn:E.
    - apply N.eqb_eq in E. subst j. eapply slab_get_set_eq; exact Ha.
    - apply N.eqb_neq in E. rewrite slab_get_set_neq by auto. reflexivity. }
  unfold remove_row_result.
  destruct (N.eq_dec row (nlen pre)) as [Elast|Enl].
  - (* the removed row was the last one: nothing is displaced *)
    assert (Hr1 : a_rows a1 = pre) by (rewrite Hrows1, Erows, swap_remove_snoc, Elast, N.eqb_refl; reflexivity).
    assert (Hnone : nget (a_rows a1) row = None) by (rewrite Hr1; apply nget_ge_none; lia). rewrite Hnone.
    assert (He : (e, vals) = lastrow).
    { rewrite Elast, nget_snoc_last in Hrow. now inversion Hrow. }
    unfold StoreInv, arch_at. cbn [w_ents w_archs set_ents set_archs]. split; [exact Hsm'|]. split.
    + intros k aj rj Hk. assert (Hke : k <> e) by (intros ->; congruence). rewrite (Hother k Hke) in Hk.
      destruct (Hl _ _ _ Hk) as (b & vb & Hb & Hnb). rewrite Harch1. destruct (aj =? ai) eqn:E.
      * apply N.eqb_eq in E. subst aj. rewrite Ha in Hb. inversion Hb; subst b. exists a1, vb. split; [reflexivity|].
        rewrite Hr1. rewrite Erows in Hnb. destruct (N.lt_ge_cases rj (nlen pre)) as [L|G]; [now rewrite nget_app_l in Hnb|].
        exfalso. assert (rj = nlen pre) by (apply nget_some_lt in Hnb; rewrite nlen_app in Hnb; change (nlen [lastrow]) with 1 in Hnb; lia).
        subst rj. rewrite nget_snoc_last, <- He in Hnb. inversion Hnb; subst. now apply Hke.
      * exists b, vb. auto.
    + intros aj b rj k vk Hb Hnk. rewrite Harch1 in Hb. destruct (aj =? ai) eqn:E.
      * apply N.eqb_eq in E. subst aj. inversion Hb; subst b. rewrite Hr1 in Hnk.
        assert (Hold : nget (a_rows a) rj = Some (k, vk)) by (rewrite Erows, nget_app_l; [exact Hnk|eapply nget_some_lt; eauto]).
        destruct (Hr _ _ _ _ _ Ha Hold) as [Hgk Hlen]. split; [|exact Hlen].
        assert (Hke : k <> e). { intros ->. rewrite Hge in Hgk. inversion Hgk. apply nget_some_lt in Hnk. lia. }
        now rewrite (Hother k Hke).
      * destruct (Hr _ _ _ _ _ Hb Hnk) as [Hgk Hlen]. split; [|exact Hlen].
        assert (Hke : k <> e). { intros ->. rewrite Hge in Hgk. inversion Hgk. apply N.eqb_neq in E. congruence. }
        now rewrite (Hother k Hke).
  - (* a later row is swapped into the hole *)
    destruct lastrow as [de dvals].
    assert (Hr1 : a_rows a1 = nset pre row (de, dvals)).
    { rewrite Hrows1, Erows, swap_remove_snoc. replace (row =? nlen pre) with false by (symmetry; apply N.eqb_neq; exact Enl). reflexivity. }
    assert (Hrowlt : row < nlen pre) by lia.
    assert (Hat : nget (a_rows a1) row = Some (de, dvals)) by (rewrite Hr1; apply nget_nset_eq; exact Hrowlt). rewrite Hat.
    assert (Hlastold : nget (a_rows a) (nlen pre) = Some (de, dvals)) by (rewrite Erows; apply nget_snoc_last).
    destruct (Hr _ _ _ _ _ Ha Hlastold) as [Hgde Hlende].
    assert (Hdee : de <> e). { intros ->. rewrite Hge in Hgde. inversion Hgde. lia. }
    assert (Hgde' : sm_get de ents' = Some (ai, nlen pre)) by now rewrite (Hother de Hdee).
    unfold StoreInv, arch_at. cbn [w_ents w_archs set_ents set_archs]. split; [eapply upd_inv; eauto|]. split.
    + intros k aj rj Hk. destruct (N.eq_dec (fst k) (fst de)) as [Ei|Ei].
      * (* same slot as the displaced entity: it is the displaced entity *)
        destruct (key_eq_dec k de) as [->|Hkd].
        -- rewrite (upd_get_eq ents' de _ _ Hgde') in Hk. cbn [fst] in Hk. inversion Hk; subst aj rj.
           rewrite Harch1, N.eqb_refl. exists a1, dvals. auto.
        -- rewrite (upd_get_same_index ents' de _ k _ Hgde' Ei Hkd) in Hk. discriminate.
      * rewrite upd_get_neq in Hk by exact Ei.
        assert (Hke : k <> e) by (intros ->; congruence). rewrite (Hother k Hke) in Hk.
        destruct (Hl _ _ _ Hk) as (b & vb & Hb & Hnb). rewrite Harch1. destruct (aj =? ai) eqn:E.
        -- apply N.eqb_eq in E. subst aj. rewrite Ha in Hb. inversion Hb; subst b. exists a1, vb. split; [reflexivity|].
           rewrite Hr1. rewrite Erows in Hnb.
           assert (Hrj : rj <> row). { intros ->. rewrite Hrow in Hnb. inversion Hnb; subst. apply Hke. reflexivity. }
           rewrite nget_nset_neq by auto.
           destruct (N.lt_ge_cases rj (nlen pre)) as [L|G]; [now rewrite nget_app_l in Hnb|].
           exfalso. assert (rj = nlen pre) by (apply nget_some_lt in Hnb; rewrite nlen_app in Hnb; change (nlen [(de, dvals)]) with 1 in Hnb; lia).
           subst rj. rewrite nget_snoc_last in Hnb. inversion Hnb; subst. apply Ei. reflexivity.
        -- exists b, vb. auto.
    + intros aj b rj k vk Hb Hnk. rewrite Harch1 in Hb. destruct (aj =? ai) eqn:E.
      * apply N.eqb_eq in E. subst aj. inversion Hb; subst b. rewrite Hr1 in Hnk.
        destruct (N.eq_dec rj row) as [->|Hrj].
        -- rewrite nget_nset_eq in Hnk by exact Hrowlt. inversion Hnk; subst k vk. split; [|exact Hlende].
           now rewrite (upd_get_eq ents' de _ _ Hgde').
        -- rewrite nget_nset_neq in Hnk by auto.
           assert (Hold : nget (a_rows a) rj = Some (k, vk)) by (rewrite Erows, nget_app_l; [exact Hnk|eapply nget_some_lt; eauto]).
           destruct (Hr _ _ _ _ _ Ha Hold) as [Hgk Hlen]. split; [|exact Hlen].
           assert (Hke : k <> e). { intros ->. rewrite Hge in Hgk. inversion Hgk. congruence. }
           assert (Hkd : fst k <> fst de).
           { intros Ef. assert (k = de) by (eapply live_same_index; eauto). subst k. rewrite Hgde in Hgk. inversion Hgk.
             apply nget_some_lt in Hnk. lia. }
           rewrite upd_get_neq by exact Hkd. now rewrite (Hother k Hke).
      * destruct (Hr _ _ _ _ _ Hb Hnk) as [Hgk Hlen]. split; [|exact Hlen].
        assert (Hke : k <> e). { intros ->. rewrite Hge in Hgk. inversion Hgk. apply N.eqb_neq in E. congruence. }
        assert (Hkd : fst k <> fst de).
        { intros Ef. assert (k = de) by (eapply live_same_index; eauto). subst k. rewrite Hgde in Hgk. inversion Hgk. apply N.eqb_neq in E. congruence. }
        rewrite upd_get_neq by exact Hkd. now rewrite (Hother k Hke).
Qed.

(* every other row survives, in the same archetype, with the same values *)
Lemma remove_row_keeps_others ents' : forall k aj rj b vb, k <> e ->
  arch_at w aj = Some b -> nget (a_rows b) rj = Some (k, vb) ->
  exists rj' b', arch_at (remove_row_result ents') aj = Some b' /\ a_comps b' = a_comps b /\ nget (a_rows b') rj' = Some (k, vb).
Proof.
  intros k aj rj b vb Hke Hb Hnb.
  assert (Harch : forall w0, w_archs w0 = archs1 -> forall j, arch_at w0 j = if j =? ai then Some a1 else arch_at w j).
  { intros w0 E j. unfold arch_at. rewrite E. destruct (j =? ai) eqn:Ej.
    - apply N.eqb_eq in Ej. subst j. eapply slab_get_set_eq; exact Ha.
    - apply N.eqb_neq in Ej. now rewrite slab_get_set_neq by auto. }
  assert (Hres : w_archs (remove_row_result ents') = archs1).
  { unfold remove_row_result. destruct (nget (a_rows a1) row) as [[de dv]|]; reflexivity. }
  rewrite (Harch _ Hres). destruct (aj =? ai) eqn:E.
  - apply N.eqb_eq in E. subst aj. unfold arch_at in *. rewrite Ha in Hb. inversion Hb; subst b.
    assert (Hrlt : row < nlen (a_rows a)) by (eapply nget_some_lt; eauto).
    destruct (a_rows a) as [|lastrow pre] eqn:Erows using rev_ind; [rewrite nlen_nil in Hrlt; lia|]. clear IHpre.
    rewrite nlen_app in Hrlt. change (nlen [lastrow]) with 1 in Hrlt.
    assert (Hrj : rj <> row). { intros ->. rewrite Hrow in Hnb. inversion Hnb. now apply Hke. }
    destruct (N.lt_ge_cases rj (nlen pre)) as [L|G].
    + eexists rj, _. split; [reflexivity|]. split; [reflexivity|]. cbn [a_rows set_rows].
      rewrite nget_swap_remove by lia. replace (rj =? row) with false by (symmetry; apply N.eqb_neq; exact Hrj).
      replace (rj <? nlen pre) with true by (symmetry; apply N.ltb_lt; exact L). now rewrite nget_app_l in Hnb.
    + assert (rj = nlen pre) by (apply nget_some_lt in Hnb; rewrite nlen_app in Hnb; change (nlen [lastrow]) with 1 in Hnb; lia). subst rj.
      rewrite nget_snoc_last in Hnb. inversion Hnb; subst lastrow.
      eexists row, _. split; [reflexivity|]. split; [reflexivity|]. cbn [a_rows set_rows].
      rewrite nget_swap_remove by lia. rewrite N.eqb_refl. replace (row =? nlen pre) with false by (symmetry; apply N.eqb_neq; lia). reflexivity.
  - exists rj, b. auto.
Qed.
End RemoveRow.

(* ---------- abs is determined by the row that holds the entity ---------- *)
Lemma abs_of_row w ai a row k vals c : StoreInv w -> arch_at w ai = Some a -> nget (a_rows a) row = Some (k, vals) ->
  abs w k c = row_col a vals c.
Proof.
  intros (_ & _ & Hr) Ha Hn. destruct (Hr _ _ _ _ _ Ha Hn) as [Hg _]. unfold abs. now rewrite Hg, Ha, Hn.
Qed.
Lemma abs_dead w k c : sm_get k (w_ents w) = None -> abs w k c = None.
Proof. intros H. unfold abs. now rewrite H. Qed.
Lemma row_col_comps a b vals c : a_comps a = a_comps b -> row_col a vals c = row_col b vals c.
Proof. unfold row_col. now intros ->. Qed.

Lemma upd_by_index_ext {V} (m : smap V) i (f g : V -> V) :
  (forall s v, sget (slots m) i = Some s -> val s = Some v -> f v = g v) -> upd_by_index m i f = upd_by_index m i g.
Proof.
  intros H. unfold upd_by_index. destruct (sget (slots m) i) as [s|] eqn:Es; [|reflexivity].
  destruct (val s) as [v|] eqn:Ev; [|reflexivity]. now rewrite (H s v eq_refl Ev).
Qed.

Lemma drops_fold_ents l w : w_ents (fold_left (fun (w' : world) '(c, v) => drop_cval w' (comp_tag w' c) v) l w) = w_ents w.
Proof.
  revert w. induction l as [|[c v] l IH]; intros w; cbn [fold_left]; [reflexivity|]. rewrite IH. unfold drop_cval. now destruct (ctag_has_drop _).
Qed.
Lemma drops_fold_archs l w : w_archs (fold_left (fun (w' : world) '(c, v) => drop_cval w' (comp_tag w' c) v) l w) = w_archs w.
Proof.
  revert w. induction l as [|[c v] l IH]; intros w; cbn [fold_left]; [reflexivity|]. rewrite IH. unfold drop_cval. now destruct (ctag_has_drop _).
Qed.
Lemma notify_remove_ents w ai : w_ents (notify_remove w ai) = w_ents w.
Proof. unfold notify_remove. destruct (slab_get (w_archs w) ai); reflexivity. Qed.
Lemma notify_remove_archs w ai : w_archs (notify_remove w ai) = w_archs w.
Proof. unfold notify_remove. destruct (slab_get (w_archs w) ai); reflexivity. Qed.
Lemma notify_refresh_ents w ai : w_ents (notify_refresh w ai) = w_ents w.
Proof. unfold notify_refresh. destruct (slab_get (w_archs w) ai); reflexivity. Qed.
Lemma notify_refresh_archs w ai : w_archs (notify_refresh w ai) = w_archs w.
Proof. unfold notify_refresh. destruct (slab_get (w_archs w) ai); reflexivity. Qed.

(* C02 / C17 for despawn's row removal: it succeeds on a consistent store (no unchecked step
   fails), keeps the store consistent, makes exactly that entity disappear, and leaves every
   component of every other entity as it was *)
Theorem remove_entity_ok w ai row a e vals :
  StoreInv w -> arch_at w ai = Some a -> nget (a_rows a) row = Some (e, vals) ->
  exists w', remove_entity w (ai, row) = ROk tt w' /\ StoreInv w' /\
             sm_get e (w_ents w') = None /\ (forall k c, k <> e -> abs w' k c = abs w k c).
Proof.
  intros Hinv Ha Hrow. pose proof Hinv as (Hsm & Hl & Hr).
  destruct (remove_row_ents_some w ai row a e vals Hinv Ha Hrow) as (ents' & Hrem).
  pose proof (remove_row_inv w ai row a e vals Hinv Ha Hrow ents' Hrem) as Hinv'.
  pose proof (remove_row_keeps_others w ai row a e vals Ha Hrow ents') as Hkeep.
  unfold remove_entity. unfold arch_at in Ha. rewrite Ha, Hrow.
  set (w1 := fold_left _ (combine (a_comps a) vals) w).
  assert (E1 : w_ents w1 = w_ents w) by apply drops_fold_ents.
  assert (A1 : w_archs w1 = w_archs w) by apply drops_fold_archs.
  cbn [w_ents set_archs]. rewrite E1, Hrem, A1.
  set (a1 := set_rows a (swap_remove (a_rows a) row)).
  set (w3 := set_ents (set_archs w1 (slab_set (w_archs w) ai a1)) ents').
  (* the result of the model function has the entities and archetypes of [remove_row_result] *)
  assert (Hfin : exists w4, (match nget (a_rows a1) row with
                             | Some (de, _) => match sm_get de (w_ents w3) with
                                               | Some l => set_loc w3 de (fst l, row)
                                               | None => RFail (FUB 532) w3 end
                             | None => ROk tt w3 end) = ROk tt w4 /\
                            w_ents w4 = w_ents (remove_row_result w ai row a ents') /\
                            w_archs w4 = w_archs (remove_row_result w ai row a ents')).
  { unfold remove_row_result. fold a1. destruct (nget (a_rows a1) row) as [[de dv]|] eqn:Ed.
    - (* the displaced entity is live in the new entity map: it is a row of the new archetype *)
      assert (Hde : exists l, sm_get de ents' = Some l /\ fst l = ai).
      { destruct (N.eq_dec row (nlen (a_rows a) - 1)) as [El|En].
        - exfalso. unfold a1 in Ed. cbn [a_rows set_rows] in Ed.
          assert (Hlt : row < nlen (a_rows a)) by (eapply nget_some_lt; eauto).
          apply nget_some_lt in Ed. pose proof (nlen_swap_remove (a_rows a) row Hlt). lia.
        - (* de was the last row of the old archetype *)
          assert (Hlt : row < nlen (a_rows a)) by (eapply nget_some_lt; eauto).
          destruct (a_rows a) as [|lastrow pre] eqn:Erows using rev_ind; [rewrite nlen_nil in Hlt; lia|]. clear IHpre.
          unfold a1 in Ed. cbn [a_rows set_rows] in Ed. rewrite ?Erows in Ed. rewrite nlen_app in *. change (nlen [lastrow]) with 1 in *.
          rewrite nget_swap_remove, N.eqb_refl in Ed by lia.
          replace (row =? nlen pre) with false in Ed by (symmetry; apply N.eqb_neq; lia). inversion Ed; subst lastrow.
          assert (Hold : nget (a_rows a) (nlen pre) = Some (de, dv)) by (rewrite Erows; apply nget_snoc_last).
          destruct (Hr _ _ _ _ _ Ha Hold) as [Hg _].
          assert (Hne : de <> e). { intros ->. destruct (Hr _ _ _ _ _ Ha ltac:(rewrite Erows; exact Hrow)) as [Hg2 _]. rewrite Hg in Hg2. inversion Hg2. lia. }
          exists (ai, nlen pre). split; [|reflexivity]. now rewrite (remove_get_other e (w_ents w) (ai, row) ents' de Hsm Hrem Hne). }
      destruct Hde as (l & Hgl & Hfl). cbn [w_ents set_ents] in *. unfold w3 at 1. cbn [w_ents set_ents]. rewrite Hgl.
      unfold set_loc. cbn [w_ents set_ents]. unfold w3 at 1. cbn [w_ents set_ents]. rewrite Hgl.
      eexists. split; [reflexivity|]. cbn [w_ents w_archs set_ents set_archs]. split; [|reflexivity].
      change (w_ents w3) with ents'. apply upd_by_index_ext. intros s v Hs Hv. destruct (sm_get_some_inv _ _ _ Hgl) as (s' & Hs' & _ & Hv'). rewrite Hs in Hs'. inversion Hs'; subst.
      rewrite Hv in Hv'. inversion Hv'; subst. reflexivity.
    - exists w3. split; [reflexivity|]. unfold w3. cbn [w_ents w_archs set_ents set_archs]. auto. }
  destruct Hfin as (w4 & -> & E4 & A4). cbn [rbind].
  eexists. split; [reflexivity|].
  set (wf := if nlen (a_rows a1) =? 0 then notify_remove w4 ai else w4).
  assert (Ef : w_ents wf = w_ents (remove_row_result w ai row a ents')) by (unfold wf; destruct (_ =? 0); rewrite ?notify_remove_ents; exact E4).
  assert (Af : w_archs wf = w_archs (remove_row_result w ai row a ents')) by (unfold wf; destruct (_ =? 0); rewrite ?notify_remove_archs; exact A4).
  assert (Hinvf : StoreInv wf) by (eapply StoreInv_ext; eauto).
  split; [exact Hinvf|]. split.
  - (* e is gone *)
    rewrite Ef. unfold remove_row_result. fold a1. assert (Hg : sm_get e ents' = None) by exact (remove_get_gone e (w_ents w) (ai, row) ents' Hsm Hrem).
    destruct (nget (a_rows a1) row) as [[de dv]|] eqn:Ed; cbn [w_ents set_ents]; [|exact Hg].
    destruct (N.eq_dec (fst e) (fst de)) as [Ei|Ei].
    + destruct (sm_get de ents') as [l|] eqn:Hgl.
      * destruct (key_eq_dec e de) as [->|Hne]; [congruence|]. exact (upd_get_same_index ents' de _ e l Hgl Ei Hne).
      * unfold upd_by_index. unfold sm_get in Hgl. destruct (sget (slots ents') (fst de)) as [s|] eqn:Es; [|exact Hg].
        destruct (val s) eqn:Ev; [|exact Hg]. unfold sm_get. cbn [slots]. rewrite Ei. erewrite sget_supd_eq by eauto. cbn [gen val].
        unfold sm_get in Hg. rewrite Ei, Es in Hg. destruct (gen s =? snd e); [congruence|reflexivity].
    + now rewrite upd_get_neq.
  - intros k c Hke. destruct (sm_get k (w_ents w)) as [[aj rj]|] eqn:Hgk.
    + destruct (Hl _ _ _ Hgk) as (b & vb & Hb & Hnb).
      destruct (Hkeep k aj rj b vb Hke Hb Hnb) as (rj' & b' & Hb' & Hc' & Hn').
      unfold arch_at in Hb'. rewrite <- Af in Hb'.
      rewrite (abs_of_row wf aj b' rj' k vb c Hinvf Hb' Hn'), (abs_of_row w aj b rj k vb c Hinv Hb Hnb). now apply row_col_comps.
    + rewrite (abs_dead w k c Hgk). apply abs_dead. rewrite Ef. unfold remove_row_result. fold a1.
      assert (Hg : sm_get k ents' = None) by now rewrite (remove_get_other e (w_ents w) (ai, row) ents' k Hsm Hrem Hke).
      destruct (nget (a_rows a1) row) as [[de dv]|] eqn:Ed; cbn [w_ents set_ents]; [|exact Hg].
      destruct (N.eq_dec (fst k) (fst de)) as [Ei|Ei]; [|now rewrite upd_get_neq].
      unfold upd_by_index. destruct (sget (slots ents') (fst de)) as [s|] eqn:Es; [|exact Hg].
      destruct (val s) eqn:Ev; [|exact Hg]. unfold sm_get. cbn [slots]. rewrite Ei. erewrite sget_supd_eq by eauto. cbn [gen val].
      unfold sm_get in Hg. rewrite Ei, Es in Hg. destruct (gen s =? snd k); [congruence|reflexivity].
Qed.
