(* Store.v : the storage invariant of the world model (C17, first part) and the abstraction to
   a finite map (C02).
     - every live entity's recorded location points at a row that holds that entity;
     - every row of every archetype holds a live entity whose recorded location is that row,
       with one value per column;
     - the entity slot map satisfies its own invariant.
   Preserved by spawning, by removing an entity's row (swap-remove with fix-up of the displaced
   entity) and by moving an entity between archetypes. *)
From Coq Require Import List NArith Bool Lia Permutation.
Import ListNotations.
Require Import EV.Base EV.ListN EV.Access EV.Query EV.SlotMap EV.Reserve EV.HList EV.Loop EV.World EV.SlotMapGet EV.ArchProofs.
Open Scope N_scope.

Definition arch_at (w : world) (ai : N) : option arch := slab_get (w_archs w) ai.

Definition StoreInv (w : world) : Prop :=
  SmInv (w_ents w) /\
  (forall e ai row, sm_get e (w_ents w) = Some (ai, row) ->
     exists a vals, arch_at w ai = Some a /\ nget (a_rows a) row = Some (e, vals)) /\
  (forall ai a row e vals, arch_at w ai = Some a -> nget (a_rows a) row = Some (e, vals) ->
     sm_get e (w_ents w) = Some (ai, row) /\ length vals = length (a_comps a)).

(* the map the storage denotes: value of component (index) c of entity e *)
Definition abs (w : world) (e : key) (c : N) : option cval :=
  match sm_get e (w_ents w) with
  | Some (ai, row) =>
      match arch_at w ai with
      | Some a => match nget (a_rows a) row with Some (_, vals) => row_col a vals c | None => None end
      | None => None
      end
  | None => None
  end.

Lemma StoreInv_ext w w' : w_ents w' = w_ents w -> w_archs w' = w_archs w -> StoreInv w -> StoreInv w'.
Proof. unfold StoreInv, arch_at. intros -> ->. auto. Qed.
Lemma abs_ext w w' : w_ents w' = w_ents w -> w_archs w' = w_archs w -> forall e c, abs w' e c = abs w e c.
Proof. unfold abs, arch_at. intros -> ->. reflexivity. Qed.

(* ---------- slab ---------- *)
Lemma slab_get_set_eq s i a0 a : slab_get s i = Some a0 -> slab_get (slab_set s i a) i = Some a.
Proof.
  unfold slab_get, slab_set. cbn [sl_entries]. destruct (nget (sl_entries s) i) as [[x|n]|] eqn:E; try discriminate. intros _.
  rewrite nget_nset_eq; [reflexivity|]. eapply nget_some_lt; eauto.
Qed.
Lemma slab_get_set_neq s i j a : i <> j -> slab_get (slab_set s i a) j = slab_get s j.
Proof. intros H. unfold slab_get, slab_set. cbn [sl_entries]. now rewrite nget_nset_neq. Qed.

(* two live keys of one slot are the same key *)
Lemma live_same_index {V} (m : smap V) k1 k2 v1 v2 : sm_get k1 m = Some v1 -> sm_get k2 m = Some v2 -> fst k1 = fst k2 -> k1 = k2.
Proof.
  intros H1 H2 Hf. destruct (sm_get_some_inv _ _ _ H1) as (s1 & Hs1 & Hg1 & _). destruct (sm_get_some_inv _ _ _ H2) as (s2 & Hs2 & Hg2 & _).
  rewrite Hf in Hs1. rewrite Hs1 in Hs2. inversion Hs2; subst. destruct k1, k2. cbn in *. congruence.
Qed.

(* ---------- the empty world ---------- *)
Lemma StoreInv_world0 fuel p : StoreInv (world0 fuel p).
Proof.
  unfold StoreInv, world0, arch_at. cbn [w_ents w_archs]. split; [apply empty_inv|]. split.
  - intros e ai row H. discriminate.
  - intros ai a row e vals Ha Hr. unfold slab_get in Ha. cbn in Ha. destruct (ai =? 0); [|discriminate]. inversion Ha; subst. discriminate.
Qed.

(* ---------- removing a row (archetype.rs:507-540) ---------- *)
Section RemoveRow.
Variables (w : world) (ai row : N) (a : arch) (e : key) (vals : list cval).
Hypothesis Hinv : StoreInv w.
Hypothesis Ha : arch_at w ai = Some a.
Hypothesis Hrow : nget (a_rows a) row = Some (e, vals).

Local Notation a1 := (set_rows a (swap_remove (a_rows a) row)).
Local Notation archs1 := (slab_set (w_archs w) ai a1).

Lemma remove_row_ents_some : exists ents', sm_remove e (w_ents w) = Some ((ai, row), ents').
Proof.
  destruct Hinv as (Hsm & _ & Hr). destruct (Hr _ _ _ _ _ Ha Hrow) as [Hg _].
  destruct (sm_get_some_inv _ _ _ Hg) as (s & Hs & Hgen & Hv). unfold sm_remove. rewrite Hs, Hgen, N.eqb_refl, Hv.
  destruct (wrap_succ (snd e) =? 0); eauto.
Qed.

(* the world after the row is gone and the displaced entity's location is fixed up *)
Definition remove_row_result (ents' : smap eloc) : world :=
  let w2 := set_ents (set_archs w archs1) ents' in
  match nget (a_rows a1) row with
  | Some (de, _) => set_ents w2 (upd_by_index ents' (fst de) (fun l => (fst l, row)))
  | None => w2
  end.

Lemma remove_row_inv ents' : sm_remove e (w_ents w) = Some ((ai, row), ents') -> StoreInv (remove_row_result ents').
Proof.
  intros Hrem. destruct Hinv as (Hsm & Hl & Hr).
  assert (Hsm' : SmInv ents') by (eapply remove_inv; eauto).
  assert (Hrlt : row < nlen (a_rows a)) by (eapply nget_some_lt; eauto).
  destruct (a_rows a) as [|r0 rs0] eqn:Erows using rev_ind; [rewrite nlen_nil in Hrlt; lia|]. clear IHrs0.
  rename rs0 into pre. rename r0 into lastrow. rewrite nlen_app in Hrlt. change (nlen [lastrow]) with 1 in Hrlt.
  assert (Hle : row <= nlen pre) by lia.
  assert (Hrows1 : a_rows a1 = swap_remove (a_rows a) row) by reflexivity.
  (* facts about the old state *)
  assert (Hge : sm_get e (w_ents w) = Some (ai, row)).
  { refine (proj1 (Hr ai a row e vals Ha _)). rewrite Erows. exact Hrow. }
  assert (Hother : forall k, k <> e -> sm_get k ents' = sm_get k (w_ents w)) by (intros k Hk; exact (remove_get_other e (w_ents w) (ai, row) ents' k Hsm Hrem Hk)).
  assert (Hgone : sm_get e ents' = None) by exact (remove_get_gone e (w_ents w) (ai, row) ents' Hsm Hrem).
  assert (Harch1 : forall j, slab_get archs1 j = if j =? ai then Some a1 else arch_at w j).
  { intros j. destruct (j =? ai) eqn:E.
    - apply N.eqb_eq in E. subst j. eapply slab_get_set_eq; exact Ha.
    - apply N.eqb_neq in E. rewrite slab_get_set_neq by auto. reflexivity. }
  unfold remove_row_result.
  destruct (N.eq_dec row (nlen pre)) as [Elast|Enl].
  - (* the removed row was the last one: nothing is displaced *)
    assert (Hr1 : a_rows a1 = pre) by (rewrite Hrows1, Erows, swap_remove_snoc, Elast, N.eqb_refl; reflexivity).
    assert (Hnone : nget (a_rows a1) row = None) by (rewrite Hr1; apply nget_ge_none; lia). rewrite Hnone.
    assert (He : (e, vals) = lastrow).
    { rewrite Elast, nget_snoc_last in Hrow. now inversion Hrow. }
    unfold StoreInv, arch_at. cbn [w_ents w_archs set_ents set_archs]. split; [exact Hsm'|]. split.
    + intros k aj rj Hk. assert (Hke : k <> e) by (intros ->; congruence). rewrite (Hother k Hke) in Hk.
      destruct (Hl _ _ _ Hk) as (b & vb & Hb & Hnb). rewrite Harch1. destruct (aj =? ai) eqn:E.
      * apply N.eqb_eq in E. subst aj. rewrite Ha in Hb. inversion Hb; subst b. exists a1, vb. split; [reflexivity|].
        rewrite Hr1. rewrite Erows in Hnb. destruct (N.lt_ge_cases rj (nlen pre)) as [L|G]; [now rewrite nget_app_l in Hnb|].
        exfalso. assert (rj = nlen pre) by (apply nget_some_lt in Hnb; rewrite nlen_app in Hnb; change (nlen [lastrow]) with 1 in Hnb; lia).
        subst rj. rewrite nget_snoc_last, <- He in Hnb. inversion Hnb; subst. now apply Hke.
      * exists b, vb. auto.
    + intros aj b rj k vk Hb Hnk. rewrite Harch1 in Hb. destruct (aj =? ai) eqn:E.
      * apply N.eqb_eq in E. subst aj. inversion Hb; subst b. rewrite Hr1 in Hnk.
        assert (Hold : nget (a_rows a) rj = Some (k, vk)) by (rewrite Erows, nget_app_l; [exact Hnk|eapply nget_some_lt; eauto]).
        destruct (Hr _ _ _ _ _ Ha Hold) as [Hgk Hlen]. split; [|exact Hlen].
        assert (Hke : k <> e). { intros ->. rewrite Hge in Hgk. inversion Hgk. apply nget_some_lt in Hnk. lia. }
        now rewrite (Hother k Hke).
      * destruct (Hr _ _ _ _ _ Hb Hnk) as [Hgk Hlen]. split; [|exact Hlen].
        assert (Hke : k <> e). { intros ->. rewrite Hge in Hgk. inversion Hgk. apply N.eqb_neq in E. congruence. }
        now rewrite (Hother k Hke).
  - (* a later row is swapped into the hole *)
    destruct lastrow as [de dvals].
    assert (Hr1 : a_rows a1 = nset pre row (de, dvals)).
    { rewrite Hrows1, Erows, swap_remove_snoc. replace (row =? nlen pre) with false by (symmetry; apply N.eqb_neq; exact Enl). reflexivity. }
    assert (Hrowlt : row < nlen pre) by lia.
    assert (Hat : nget (a_rows a1) row = Some (de, dvals)) by (rewrite Hr1; apply nget_nset_eq; exact Hrowlt). rewrite Hat.
    assert (Hlastold : nget (a_rows a) (nlen pre) = Some (de, dvals)) by (rewrite Erows; apply nget_snoc_last).
    destruct (Hr _ _ _ _ _ Ha Hlastold) as [Hgde Hlende].
    assert (Hdee : de <> e). { intros ->. rewrite Hge in Hgde. inversion Hgde. lia. }
    assert (Hgde' : sm_get de ents' = Some (ai, nlen pre)) by now rewrite (Hother de Hdee).
    unfold StoreInv, arch_at. cbn [w_ents w_archs set_ents set_archs]. split; [eapply upd_inv; eauto|]. split.
    + intros k aj rj Hk. destruct (N.eq_dec (fst k) (fst de)) as [Ei|Ei].
      * (* same slot as the displaced entity: it is the displaced entity *)
        destruct (key_eq_dec k de) as [->|Hkd].
        -- rewrite (upd_get_eq ents' de _ _ Hgde') in Hk. cbn [fst] in Hk. inversion Hk; subst aj rj.
           rewrite Harch1, N.eqb_refl. exists a1, dvals. auto.
        -- rewrite (upd_get_same_index ents' de _ k _ Hgde' Ei Hkd) in Hk. discriminate.
      * rewrite upd_get_neq in Hk by exact Ei.
        assert (Hke : k <> e) by (intros ->; congruence). rewrite (Hother k Hke) in Hk.
        destruct (Hl _ _ _ Hk) as (b & vb & Hb & Hnb). rewrite Harch1. destruct (aj =? ai) eqn:E.
        -- apply N.eqb_eq in E. subst aj. rewrite Ha in Hb. inversion Hb; subst b. exists a1, vb. split; [reflexivity|].
           rewrite Hr1. rewrite Erows in Hnb.
           assert (Hrj : rj <> row). { intros ->. rewrite Hrow in Hnb. inversion Hnb; subst. apply Hke. reflexivity. }
           rewrite nget_nset_neq by auto.
           destruct (N.lt_ge_cases rj (nlen pre)) as [L|G]; [now rewrite nget_app_l in Hnb|].
           exfalso. assert (rj = nlen pre) by (apply nget_some_lt in Hnb; rewrite nlen_app in Hnb; change (nlen [(de, dvals)]) with 1 in Hnb; lia).
           subst rj. rewrite nget_snoc_last in Hnb. inversion Hnb; subst. apply Ei. reflexivity.
        -- exists b, vb. auto.
    + intros aj b rj k vk Hb Hnk. rewrite Harch1 in Hb. destruct (aj =? ai) eqn:E.
      * apply N.eqb_eq in E. subst aj. inversion Hb; subst b. rewrite Hr1 in Hnk.
        destruct (N.eq_dec rj row) as [->|Hrj].
        -- rewrite nget_nset_eq in Hnk by exact Hrowlt. inversion Hnk; subst k vk. split; [|exact Hlende].
           now rewrite (upd_get_eq ents' de _ _ Hgde').
        -- rewrite nget_nset_neq in Hnk by auto.
           assert (Hold : nget (a_rows a) rj = Some (k, vk)) by (rewrite Erows, nget_app_l; [exact Hnk|eapply nget_some_lt; eauto]).
           destruct (Hr _ _ _ _ _ Ha Hold) as [Hgk Hlen]. split; [|exact Hlen].
           assert (Hke : k <> e). { intros ->. rewrite Hge in Hgk. inversion Hgk. congruence. }
           assert (Hkd : fst k <> fst de).
           { intros Ef. assert (k = de) by (eapply live_same_index; eauto). subst k. rewrite Hgde in Hgk. inversion Hgk.
             apply nget_some_lt in Hnk. lia. }
           rewrite upd_get_neq by exact Hkd. now rewrite (Hother k Hke).
      * destruct (Hr _ _ _ _ _ Hb Hnk) as [Hgk Hlen]. split; [|exact Hlen].
        assert (Hke : k <> e). { intros ->. rewrite Hge in Hgk. inversion Hgk. apply N.eqb_neq in E. congruence. }
        assert (Hkd : fst k <> fst de).
        { intros Ef. assert (k = de) by (eapply live_same_index; eauto). subst k. rewrite Hgde in Hgk. inversion Hgk. apply N.eqb_neq in E. congruence. }
        rewrite upd_get_neq by exact Hkd. now rewrite (Hother k Hke).
Qed.

(* every other row survives, in the same archetype, with the same values *)
Lemma remove_row_keeps_others ents' : forall k aj rj b vb, k <> e ->
  arch_at w aj = Some b -> nget (a_rows b) rj = Some (k, vb) ->
  exists rj' b', arch_at (remove_row_result ents') aj = Some b' /\ a_comps b' = a_comps b /\ nget (a_rows b') rj' = Some (k, vb).
Proof.
  intros k aj rj b vb Hke Hb Hnb.
  assert (Harch : forall w0, w_archs w0 = archs1 -> forall j, arch_at w0 j = if j =? ai then Some a1 else arch_at w j).
  { intros w0 E j. unfold arch_at. rewrite E. destruct (j =? ai) eqn:Ej.
    - apply N.eqb_eq in Ej. subst j. eapply slab_get_set_eq; exact Ha.
    - apply N.eqb_neq in Ej. now rewrite slab_get_set_neq by auto. }
  assert (Hres : w_archs (remove_row_result ents') = archs1).
  { unfold remove_row_result. destruct (nget (a_rows a1) row) as [[de dv]|]; reflexivity. }
  rewrite (Harch _ Hres). destruct (aj =? ai) eqn:E.
  - apply N.eqb_eq in E. subst aj. unfold arch_at in *. rewrite Ha in Hb. inversion Hb; subst b.
    assert (Hrlt : row < nlen (a_rows a)) by (eapply nget_some_lt; eauto).
    destruct (a_rows a) as [|lastrow pre] eqn:Erows using rev_ind; [rewrite nlen_nil in Hrlt; lia|]. clear IHpre.
    rewrite nlen_app in Hrlt. change (nlen [lastrow]) with 1 in Hrlt.
    assert (Hrj : rj <> row). { intros ->. rewrite Hrow in Hnb. inversion Hnb. now apply Hke. }
    destruct (N.lt_ge_cases rj (nlen pre)) as [L|G].
    + eexists rj, _. split; [reflexivity|]. split; [reflexivity|]. cbn [a_rows set_rows].
      rewrite nget_swap_remove by lia. replace (rj =? row) with false by (symmetry; apply N.eqb_neq; exact Hrj).
      replace (rj <? nlen pre) with true by (symmetry; apply N.ltb_lt; exact L). now rewrite nget_app_l in Hnb.
    + assert (rj = nlen pre) by (apply nget_some_lt in Hnb; rewrite nlen_app in Hnb; change (nlen [lastrow]) with 1 in Hnb; lia). subst rj.
      rewrite nget_snoc_last in Hnb. inversion Hnb; subst lastrow.
      eexists row, _. split; [reflexivity|]. split; [reflexivity|]. cbn [a_rows set_rows].
      rewrite nget_swap_remove by lia. rewrite N.eqb_refl. replace (row =? nlen pre) with false by (symmetry; apply N.eqb_neq; lia). reflexivity.
  - exists rj, b. auto.
Qed.
End RemoveRow.

(* ---------- abs is determined by the row that holds the entity ---------- *)
Lemma abs_of_row w ai a row k vals c : StoreInv w -> arch_at w ai = Some a -> nget (a_rows a) row = Some (k, vals) ->
  abs w k c = row_col a vals c.
Proof.
  intros (_ & _ & Hr) Ha Hn. destruct (Hr _ _ _ _ _ Ha Hn) as [Hg _]. unfold abs. now rewrite Hg, Ha, Hn.
Qed.
Lemma abs_dead w k c : sm_get k (w_ents w) = None -> abs w k c = None.
Proof. intros H. unfold abs. now rewrite H. Qed.
Lemma row_col_comps a b vals c : a_comps a = a_comps b -> row_col a vals c = row_col b vals c.
Proof. unfold row_col. now intros ->. Qed.

Lemma upd_by_index_ext {V} (m : smap V) i (f g : V -> V) :
  (forall s v, sget (slots m) i = Some s -> val s = Some v -> f v = g v) -> upd_by_index m i f = upd_by_index m i g.
Proof.
  intros H. unfold upd_by_index. destruct (sget (slots m) i) as [s|] eqn:Es; [|reflexivity].
  destruct (val s) as [v|] eqn:Ev; [|reflexivity]. now rewrite (H s v eq_refl Ev).
Qed.

Lemma drops_fold_ents l w : w_ents (fold_left (fun (w' : world) '(c, v) => drop_cval w' (comp_tag w' c) v) l w) = w_ents w.
Proof.
  revert w. induction l as [|[c v] l IH]; intros w; cbn [fold_left]; [reflexivity|]. rewrite IH. unfold drop_cval. now destruct (ctag_has_drop _).
Qed.
Lemma drops_fold_archs l w : w_archs (fold_left (fun (w' : world) '(c, v) => drop_cval w' (comp_tag w' c) v) l w) = w_archs w.
Proof.
  revert w. induction l as [|[c v] l IH]; intros w; cbn [fold_left]; [reflexivity|]. rewrite IH. unfold drop_cval. now destruct (ctag_has_drop _).
Qed.
Lemma fold_left_pres_aby l w : w_aby (fold_left (fun (w' : world) '(c, v) => drop_cval w' (comp_tag w' c) v) l w) = w_aby w.
Proof.
  revert w. induction l as [|[c v] l IH]; intros w; cbn [fold_left]; [reflexivity|]. rewrite IH. unfold drop_cval. now destruct (ctag_has_drop _).
Qed.
Lemma notify_remove_ents w ai : w_ents (notify_remove w ai) = w_ents w.
Proof. unfold notify_remove. destruct (slab_get (w_archs w) ai); reflexivity. Qed.
Lemma notify_remove_archs w ai : w_archs (notify_remove w ai) = w_archs w.
Proof. unfold notify_remove. destruct (slab_get (w_archs w) ai); reflexivity. Qed.
Lemma notify_refresh_aby w ai : w_aby (notify_refresh w ai) = w_aby w.
Proof. unfold notify_refresh. destruct (slab_get (w_archs w) ai); reflexivity. Qed.
Lemma notify_remove_aby w ai : w_aby (notify_remove w ai) = w_aby w.
Proof. unfold notify_remove. destruct (slab_get (w_archs w) ai); reflexivity. Qed.
Lemma notify_refresh_ents w ai : w_ents (notify_refresh w ai) = w_ents w.
Proof. unfold notify_refresh. destruct (slab_get (w_archs w) ai); reflexivity. Qed.
Lemma notify_refresh_archs w ai : w_archs (notify_refresh w ai) = w_archs w.
Proof. unfold notify_refresh. destruct (slab_get (w_archs w) ai); reflexivity. Qed.

(* C02 / C17 for despawn's row removal: it succeeds on a consistent store (no unchecked step
   fails), keeps the store consistent, makes exactly that entity disappear, and leaves every
   component of every other entity as it was *)
Theorem remove_entity_ok_full w ai row a e vals :
  StoreInv w -> arch_at w ai = Some a -> nget (a_rows a) row = Some (e, vals) ->
  exists w', remove_entity w (ai, row) = ROk tt w' /\ StoreInv w' /\
             sm_get e (w_ents w') = None /\ (forall k c, k <> e -> abs w' k c = abs w k c) /\
             w_archs w' = slab_set (w_archs w) ai (set_rows a (swap_remove (a_rows a) row)) /\ w_aby w' = w_aby w /\
             (forall k, k <> e -> sm_get k (w_ents w) = None -> sm_get k (w_ents w') = None) /\
             (forall k, k <> e -> sm_get k (w_ents w) <> None -> sm_get k (w_ents w') <> None).
Proof.
  intros Hinv Ha Hrow. pose proof Hinv as (Hsm & Hl & Hr).
  destruct (remove_row_ents_some w ai row a e vals Hinv Ha Hrow) as (ents' & Hrem).
  pose proof (remove_row_inv w ai row a e vals Hinv Ha Hrow ents' Hrem) as Hinv'.
  pose proof (remove_row_keeps_others w ai row a e vals Ha Hrow ents') as Hkeep.
  unfold remove_entity. unfold arch_at in Ha. rewrite Ha, Hrow.
  set (w1 := fold_left _ (combine (a_comps a) vals) w).
  assert (E1 : w_ents w1 = w_ents w) by apply drops_fold_ents.
  assert (A1 : w_archs w1 = w_archs w) by apply drops_fold_archs.
  cbn [w_ents set_archs]. rewrite E1, Hrem, A1.
  set (a1 := set_rows a (swap_remove (a_rows a) row)).
  set (w3 := set_ents (set_archs w1 (slab_set (w_archs w) ai a1)) ents').
  (* the result of the model function has the entities and archetypes of [remove_row_result] *)
  assert (Hfin : exists w4, (match nget (a_rows a1) row with
                             | Some (de, _) => match sm_get de (w_ents w3) with
                                               | Some l => set_loc w3 de (fst l, row)
                                               | None => RFail (FUB 532) w3 end
                             | None => ROk tt w3 end) = ROk tt w4 /\
                            w_ents w4 = w_ents (remove_row_result w ai row a ents') /\
                            w_archs w4 = w_archs (remove_row_result w ai row a ents') /\ w_aby w4 = w_aby w).
  { unfold remove_row_result. fold a1. destruct (nget (a_rows a1) row) as [[de dv]|] eqn:Ed.
    - (* the displaced entity is live in the new entity map: it is a row of the new archetype *)
      assert (Hde : exists l, sm_get de ents' = Some l /\ fst l = ai).
      { destruct (N.eq_dec row (nlen (a_rows a) - 1)) as [El|En].
        - exfalso. unfold a1 in Ed. cbn [a_rows set_rows] in Ed.
          assert (Hlt : row < nlen (a_rows a)) by (eapply nget_some_lt; eauto).
          apply nget_some_lt in Ed. pose proof (nlen_swap_remove (a_rows a) row Hlt). lia.
        - (* de was the last row of the old archetype *)
          assert (Hlt : row < nlen (a_rows a)) by (eapply nget_some_lt; eauto).
          destruct (a_rows a) as [|lastrow pre] eqn:Erows using rev_ind; [rewrite nlen_nil in Hlt; lia|]. clear IHpre.
          unfold a1 in Ed. cbn [a_rows set_rows] in Ed. rewrite ?Erows in Ed. rewrite nlen_app in *. change (nlen [lastrow]) with 1 in *.
          rewrite nget_swap_remove, N.eqb_refl in Ed by lia.
          replace (row =? nlen pre) with false in Ed by (symmetry; apply N.eqb_neq; lia). inversion Ed; subst lastrow.
          assert (Hold : nget (a_rows a) (nlen pre) = Some (de, dv)) by (rewrite Erows; apply nget_snoc_last).
          destruct (Hr _ _ _ _ _ Ha Hold) as [Hg _].
          assert (Hne : de <> e). { intros ->. destruct (Hr _ _ _ _ _ Ha ltac:(rewrite Erows; exact Hrow)) as [Hg2 _]. rewrite Hg in Hg2. inversion Hg2. lia. }
          exists (ai, nlen pre). split; [|reflexivity]. now rewrite (remove_get_other e (w_ents w) (ai, row) ents' de Hsm Hrem Hne). }
      destruct Hde as (l & Hgl & Hfl). cbn [w_ents set_ents] in *. unfold w3 at 1. cbn [w_ents set_ents]. rewrite Hgl.
      unfold set_loc. cbn [w_ents set_ents]. unfold w3 at 1. cbn [w_ents set_ents]. rewrite Hgl.
      eexists. split; [reflexivity|]. cbn [w_ents w_archs set_ents set_archs]. split; [|split; [reflexivity|unfold w3, w1; cbn [w_aby set_ents set_archs]; apply fold_left_pres_aby]].
      change (w_ents w3) with ents'. apply upd_by_index_ext. intros s v Hs Hv. destruct (sm_get_some_inv _ _ _ Hgl) as (s' & Hs' & _ & Hv'). rewrite Hs in Hs'. inversion Hs'; subst.
      rewrite Hv in Hv'. inversion Hv'; subst. reflexivity.
    - exists w3. split; [reflexivity|]. unfold w3. cbn [w_ents w_archs set_ents set_archs]. split; [reflexivity|split; [reflexivity|unfold w1; cbn [w_aby set_ents set_archs]; apply fold_left_pres_aby]]. }
  destruct Hfin as (w4 & -> & E4 & A4 & B4). cbn [rbind].
  eexists. split; [reflexivity|].
  set (wf := if nlen (a_rows a1) =? 0 then notify_remove w4 ai else w4).
  assert (Ef : w_ents wf = w_ents (remove_row_result w ai row a ents')) by (unfold wf; destruct (_ =? 0); rewrite ?notify_remove_ents; exact E4).
  assert (Af : w_archs wf = w_archs (remove_row_result w ai row a ents')) by (unfold wf; destruct (_ =? 0); rewrite ?notify_remove_archs; exact A4).
  assert (Hinvf : StoreInv wf) by (eapply StoreInv_ext; eauto).
  assert (Hdead : forall k, k <> e -> sm_get k (w_ents w) = None -> sm_get k (w_ents wf) = None).
  { intros k Hke Hgk. rewrite Ef. unfold remove_row_result. fold a1.
      assert (Hg : sm_get k ents' = None) by now rewrite (remove_get_other e (w_ents w) (ai, row) ents' k Hsm Hrem Hke).
      destruct (nget (a_rows a1) row) as [[de dv]|] eqn:Ed; cbn [w_ents set_ents]; [|exact Hg].
      destruct (N.eq_dec (fst k) (fst de)) as [Ei|Ei]; [|now rewrite upd_get_neq].
      unfold upd_by_index. destruct (sget (slots ents') (fst de)) as [s|] eqn:Es; [|exact Hg].
      destruct (val s) eqn:Ev; [|exact Hg]. unfold sm_get. cbn [slots]. rewrite Ei. erewrite sget_supd_eq by eauto. cbn [gen val].
      unfold sm_get in Hg. rewrite Ei, Es in Hg. destruct (gen s =? snd k); [congruence|reflexivity]. }
  assert (Bf : w_aby wf = w_aby w) by (unfold wf; destruct (_ =? 0); rewrite ?notify_remove_aby; exact B4).
  assert (Hstay : forall k, k <> e -> sm_get k (w_ents w) <> None -> sm_get k (w_ents wf) <> None).
  { intros k Hke Hk. destruct (sm_get k (w_ents w)) as [[aj rj]|] eqn:Hgk; [|congruence].
    destruct (Hl _ _ _ Hgk) as (b & vb & Hb & Hnb). destruct (Hkeep k aj rj b vb Hke Hb Hnb) as (rj' & b' & Hb' & Hc' & Hn').
    unfold arch_at in Hb'. rewrite <- Af in Hb'. destruct Hinvf as (_ & _ & Hrf). destruct (Hrf _ _ _ _ _ Hb' Hn') as [X _]. congruence. }
  split; [exact Hinvf|]. split; [|split; [|split; [|split; [exact Bf|split; [exact Hdead|exact Hstay]]]]].
  - (* e is gone *)
    rewrite Ef. unfold remove_row_result. fold a1. assert (Hg : sm_get e ents' = None) by exact (remove_get_gone e (w_ents w) (ai, row) ents' Hsm Hrem).
    destruct (nget (a_rows a1) row) as [[de dv]|] eqn:Ed; cbn [w_ents set_ents]; [|exact Hg].
    destruct (N.eq_dec (fst e) (fst de)) as [Ei|Ei].
    + destruct (sm_get de ents') as [l|] eqn:Hgl.
      * destruct (key_eq_dec e de) as [->|Hne]; [congruence|]. exact (upd_get_same_index ents' de _ e l Hgl Ei Hne).
      * unfold upd_by_index. unfold sm_get in Hgl. destruct (sget (slots ents') (fst de)) as [s|] eqn:Es; [|exact Hg].
        destruct (val s) eqn:Ev; [|exact Hg]. unfold sm_get. cbn [slots]. rewrite Ei. erewrite sget_supd_eq by eauto. cbn [gen val].
        unfold sm_get in Hg. rewrite Ei, Es in Hg. destruct (gen s =? snd e); [congruence|reflexivity].
    + now rewrite upd_get_neq.
  - intros k c Hke. destruct (sm_get k (w_ents w)) as [[aj rj]|] eqn:Hgk.
    + destruct (Hl _ _ _ Hgk) as (b & vb & Hb & Hnb).
      destruct (Hkeep k aj rj b vb Hke Hb Hnb) as (rj' & b' & Hb' & Hc' & Hn').
      unfold arch_at in Hb'. rewrite <- Af in Hb'.
      rewrite (abs_of_row wf aj b' rj' k vb c Hinvf Hb' Hn'), (abs_of_row w aj b rj k vb c Hinv Hb Hnb). now apply row_col_comps.
    + rewrite (abs_dead w k c Hgk). apply abs_dead. now apply Hdead.
  - rewrite Af. unfold remove_row_result. fold a1. destruct (nget (a_rows a1) row) as [[de dv]|]; reflexivity.
Qed.

Theorem remove_entity_ok w ai row a e vals :
  StoreInv w -> arch_at w ai = Some a -> nget (a_rows a) row = Some (e, vals) ->
  exists w', remove_entity w (ai, row) = ROk tt w' /\ StoreInv w' /\
             sm_get e (w_ents w') = None /\ (forall k c, k <> e -> abs w' k c = abs w k c).
Proof. intros H1 H2 H3. destruct (remove_entity_ok_full w ai row a e vals H1 H2 H3) as (w' & A & B & C & D & _). eauto. Qed.

(* ---------- moving a row to another archetype (archetype.rs:378-503) ---------- *)
Section MoveRow.
Variables (w : world) (sai srow dst : N) (sa da : arch) (e : key) (vals dvals : list cval) (cap' ep' : N).
Hypothesis Hinv : StoreInv w.
Hypothesis Hsa : arch_at w sai = Some sa.
Hypothesis Hda : arch_at w dst = Some da.
Hypothesis Hne : sai <> dst.
Hypothesis Hrow : nget (a_rows sa) srow = Some (e, vals).
Hypothesis Hdlen : length dvals = length (a_comps da).

Local Notation sa1 := (set_rows sa (swap_remove (a_rows sa) srow)).
Local Notation da2 := (set_rows (set_cap da cap' ep') (a_rows da ++ [(e, dvals)])).
Local Notation archs' := (slab_set (slab_set (w_archs w) sai sa1) dst da2).
Local Notation ents1 := (upd_by_index (w_ents w) (fst e) (fun _ => (dst, nlen (a_rows da)))).

Definition move_row_result : world :=
  let w2 := set_ents (set_archs w archs') ents1 in
  match nget (a_rows sa1) srow with
  | Some (se, _) => set_ents w2 (upd_by_index ents1 (fst se) (fun l => (fst l, srow)))
  | None => w2
  end.

Lemma move_arch_at j : slab_get archs' j = if j =? dst then Some da2 else if j =? sai then Some sa1 else arch_at w j.
Proof.
  destruct (j =? dst) eqn:E1.
  - apply N.eqb_eq in E1. subst j. eapply slab_get_set_eq. rewrite slab_get_set_neq by exact Hne. exact Hda.
  - apply N.eqb_neq in E1. rewrite slab_get_set_neq by auto. destruct (j =? sai) eqn:E2.
    + apply N.eqb_eq in E2. subst j. eapply slab_get_set_eq. exact Hsa.
    + apply N.eqb_neq in E2. now rewrite slab_get_set_neq by auto.
Qed.

Lemma move_row_inv : StoreInv move_row_result.
Proof.
  destruct Hinv as (Hsm & Hl & Hr).
  assert (Hge : sm_get e (w_ents w) = Some (sai, srow)) by exact (proj1 (Hr _ _ _ _ _ Hsa Hrow)).
  assert (Hsm1 : SmInv ents1) by (eapply upd_inv; eauto).
  assert (Hge1 : sm_get e ents1 = Some (dst, nlen (a_rows da))) by (rewrite (upd_get_eq (w_ents w) e _ _ Hge); reflexivity).
  assert (Hoth1 : forall k, k <> e -> sm_get k ents1 = sm_get k (w_ents w)).
  { intros k Hk. destruct (N.eq_dec (fst k) (fst e)) as [Ei|Ei].
    - rewrite (upd_get_same_index (w_ents w) e _ k _ Hge Ei Hk).
      destruct (sm_get k (w_ents w)) eqn:Hgk; [|reflexivity]. exfalso. apply Hk. eapply live_same_index; eauto.
    - now rewrite upd_get_neq. }
  assert (Hrlt : srow < nlen (a_rows sa)) by (eapply nget_some_lt; eauto).
  assert (Hdrows : a_rows da2 = a_rows da ++ [(e, dvals)]) by reflexivity.
  assert (Hdcomps : a_comps da2 = a_comps da) by reflexivity.
  (* rows of the destination *)
  assert (Hdst_new : nget (a_rows da2) (nlen (a_rows da)) = Some (e, dvals)) by (rewrite Hdrows; apply nget_snoc_last).
  assert (Hdst_old : forall j x, nget (a_rows da) j = Some x -> nget (a_rows da2) j = Some x).
  { intros j x Hj. rewrite Hdrows, nget_app_l; [exact Hj|eapply nget_some_lt; eauto]. }
  assert (Hdst_inv : forall j x, nget (a_rows da2) j = Some x -> (j = nlen (a_rows da) /\ x = (e, dvals)) \/ nget (a_rows da) j = Some x).
  { intros j x Hj. rewrite Hdrows in Hj. destruct (N.lt_ge_cases j (nlen (a_rows da))) as [L|G].
    - right. now rewrite nget_app_l in Hj.
    - rewrite nget_app_r in Hj by exact G. left. destruct (j - nlen (a_rows da) =? 0) eqn:Z.
      + apply N.eqb_eq in Z. cbn [nget] in Hj. rewrite Z in Hj. cbn in Hj. inversion Hj. split; [lia|reflexivity].
      + cbn [nget] in Hj. rewrite Z in Hj. discriminate. }
  (* e is not in the destination yet, and not elsewhere in the source *)
  assert (He_notdst : forall j x, nget (a_rows da) j = Some (e, x) -> False).
  { intros j x Hj. destruct (Hr _ _ _ _ _ Hda Hj) as [Hg _]. rewrite Hge in Hg. inversion Hg. congruence. }
  destruct (a_rows sa) as [|lastrow pre] eqn:Erows using rev_ind; [rewrite nlen_nil in Hrlt; lia|]. clear IHpre.
  rewrite nlen_app in Hrlt. change (nlen [lastrow]) with 1 in Hrlt.
  unfold move_row_result.
  destruct (N.eq_dec srow (nlen pre)) as [Elast|Enl].
  - (* e was the last row of the source *)
    assert (Hr1 : a_rows sa1 = pre) by (cbn [a_rows set_rows]; rewrite Erows, swap_remove_snoc, Elast, N.eqb_refl; reflexivity).
    assert (Hnone : nget (a_rows sa1) srow = None) by (rewrite Hr1; apply nget_ge_none; lia). rewrite Hnone.
    assert (He : (e, vals) = lastrow) by (rewrite Elast, nget_snoc_last in Hrow; now inversion Hrow).
    unfold StoreInv, arch_at. cbn [w_ents w_archs set_ents set_archs]. split; [exact Hsm1|]. split.
    + intros k aj rj Hk. destruct (key_eq_dec k e) as [->|Hke].
      * rewrite Hge1 in Hk. inversion Hk; subst aj rj. rewrite move_arch_at, N.eqb_refl. eauto.
      * rewrite (Hoth1 k Hke) in Hk. destruct (Hl _ _ _ Hk) as (b & vb & Hb & Hnb). rewrite move_arch_at.
        destruct (aj =? dst) eqn:E1.
        -- apply N.eqb_eq in E1. subst aj. rewrite Hda in Hb. inversion Hb; subst b. exists da2, vb. split; [reflexivity|]. now apply Hdst_old.
        -- destruct (aj =? sai) eqn:E2; [|eauto]. apply N.eqb_eq in E2. subst aj. rewrite Hsa in Hb. inversion Hb; subst b.
           exists sa1, vb. split; [reflexivity|]. rewrite Hr1. rewrite Erows in Hnb.
           destruct (N.lt_ge_cases rj (nlen pre)) as [L|G]; [now rewrite nget_app_l in Hnb|].
           exfalso. assert (rj = nlen pre) by (apply nget_some_lt in Hnb; rewrite nlen_app in Hnb; change (nlen [lastrow]) with 1 in Hnb; lia).
           subst rj. rewrite nget_snoc_last, <- He in Hnb. inversion Hnb; subst. now apply Hke.
    + intros aj b rj k vk Hb Hnk. rewrite move_arch_at in Hb. destruct (aj =? dst) eqn:E1.
      * apply N.eqb_eq in E1. subst aj. inversion Hb; subst b. destruct (Hdst_inv _ _ Hnk) as [[-> Hx]|Hold].
        -- inversion Hx; subst k vk. split; [exact Hge1|exact Hdlen].
        -- destruct (Hr _ _ _ _ _ Hda Hold) as [Hgk Hlen]. split; [|exact Hlen].
           assert (Hke : k <> e) by (intros ->; eapply He_notdst; eauto). now rewrite (Hoth1 k Hke).
      * destruct (aj =? sai) eqn:E2.
        -- apply N.eqb_eq in E2. subst aj. inversion Hb; subst b. rewrite Hr1 in Hnk.
           assert (Hold : nget (a_rows sa) rj = Some (k, vk)) by (rewrite Erows, nget_app_l; [exact Hnk|eapply nget_some_lt; eauto]).
           destruct (Hr _ _ _ _ _ Hsa Hold) as [Hgk Hlen]. split; [|exact Hlen].
           assert (Hke : k <> e). { intros ->. rewrite Hge in Hgk. inversion Hgk. apply nget_some_lt in Hnk. lia. }
           now rewrite (Hoth1 k Hke).
        -- destruct (Hr _ _ _ _ _ Hb Hnk) as [Hgk Hlen]. split; [|exact Hlen].
           assert (Hke : k <> e). { intros ->. rewrite Hge in Hgk. inversion Hgk. apply N.eqb_neq in E2. congruence. }
           now rewrite (Hoth1 k Hke).
  - (* the last row of the source is swapped into the hole *)
    destruct lastrow as [se svals].
    assert (Hrowlt : srow < nlen pre) by lia.
    assert (Hr1 : a_rows sa1 = nset pre srow (se, svals)).
    { cbn [a_rows set_rows]. rewrite Erows, swap_remove_snoc. replace (srow =? nlen pre) with false by (symmetry; apply N.eqb_neq; exact Enl). reflexivity. }
    assert (Hat : nget (a_rows sa1) srow = Some (se, svals)) by (rewrite Hr1; apply nget_nset_eq; exact Hrowlt). rewrite Hat.
    assert (Hlastold : nget (a_rows sa) (nlen pre) = Some (se, svals)) by (rewrite Erows; apply nget_snoc_last).
    destruct (Hr _ _ _ _ _ Hsa Hlastold) as [Hgse Hlense].
    assert (Hsee : se <> e). { intros ->. rewrite Hge in Hgse. inversion Hgse. lia. }
    assert (Hgse1 : sm_get se ents1 = Some (sai, nlen pre)) by now rewrite (Hoth1 se Hsee).
    assert (Hidx : fst se <> fst e). { intros Ef. apply Hsee. eapply live_same_index; eauto. }
    unfold StoreInv, arch_at. cbn [w_ents w_archs set_ents set_archs]. split; [eapply upd_inv; eauto|]. split.
    + intros k aj rj Hk. destruct (N.eq_dec (fst k) (fst se)) as [Ei|Ei].
      * destruct (key_eq_dec k se) as [->|Hkd].
        -- rewrite (upd_get_eq ents1 se _ _ Hgse1) in Hk. cbn [fst] in Hk. inversion Hk; subst aj rj.
           rewrite move_arch_at. replace (sai =? dst) with false by (symmetry; apply N.eqb_neq; exact Hne). rewrite N.eqb_refl. eauto.
        -- rewrite (upd_get_same_index ents1 se _ k _ Hgse1 Ei Hkd) in Hk. discriminate.
      * rewrite upd_get_neq in Hk by exact Ei. destruct (key_eq_dec k e) as [->|Hke].
        -- rewrite Hge1 in Hk. inversion Hk; subst aj rj. rewrite move_arch_at, N.eqb_refl. eauto.
        -- rewrite (Hoth1 k Hke) in Hk. destruct (Hl _ _ _ Hk) as (b & vb & Hb & Hnb). rewrite move_arch_at.
           destruct (aj =? dst) eqn:E1.
           ++ apply N.eqb_eq in E1. subst aj. rewrite Hda in Hb. inversion Hb; subst b. exists da2, vb. split; [reflexivity|]. now apply Hdst_old.
           ++ destruct (aj =? sai) eqn:E2; [|eauto]. apply N.eqb_eq in E2. subst aj. rewrite Hsa in Hb. inversion Hb; subst b.
              exists sa1, vb. split; [reflexivity|]. rewrite Hr1. rewrite Erows in Hnb.
              assert (Hrj : rj <> srow). { intros ->. rewrite Hrow in Hnb. inversion Hnb; subst. now apply Hke. }
              rewrite nget_nset_neq by auto.
              destruct (N.lt_ge_cases rj (nlen pre)) as [L|G]; [now rewrite nget_app_l in Hnb|].
              exfalso. assert (rj = nlen pre) by (apply nget_some_lt in Hnb; rewrite nlen_app in Hnb; change (nlen [(se, svals)]) with 1 in Hnb; lia).
              subst rj. rewrite nget_snoc_last in Hnb. inversion Hnb; subst. now apply Ei.
    + intros aj b rj k vk Hb Hnk. rewrite move_arch_at in Hb. destruct (aj =? dst) eqn:E1.
      * apply N.eqb_eq in E1. subst aj. inversion Hb; subst b. destruct (Hdst_inv _ _ Hnk) as [[-> Hx]|Hold].
        -- inversion Hx; subst k vk. split; [|exact Hdlen]. rewrite upd_get_neq by (intros X; apply Hidx; now symmetry). exact Hge1.
        -- destruct (Hr _ _ _ _ _ Hda Hold) as [Hgk Hlen]. split; [|exact Hlen].
           assert (Hke : k <> e) by (intros ->; eapply He_notdst; eauto).
           assert (Hkd : fst k <> fst se). { intros Ef. assert (k = se) by (eapply live_same_index; eauto). subst k. rewrite Hgse in Hgk. inversion Hgk. congruence. }
           rewrite upd_get_neq by exact Hkd. now rewrite (Hoth1 k Hke).
      * destruct (aj =? sai) eqn:E2.
        -- apply N.eqb_eq in E2. subst aj. inversion Hb; subst b. rewrite Hr1 in Hnk.
           destruct (N.eq_dec rj srow) as [->|Hrj].
           ++ rewrite nget_nset_eq in Hnk by exact Hrowlt. inversion Hnk; subst k vk. split; [|exact Hlense].
              now rewrite (upd_get_eq ents1 se _ _ Hgse1).
           ++ rewrite nget_nset_neq in Hnk by auto.
              assert (Hold : nget (a_rows sa) rj = Some (k, vk)) by (rewrite Erows, nget_app_l; [exact Hnk|eapply nget_some_lt; eauto]).
              destruct (Hr _ _ _ _ _ Hsa Hold) as [Hgk Hlen]. split; [|exact Hlen].
              assert (Hke : k <> e). { intros ->. rewrite Hge in Hgk. inversion Hgk. congruence. }
              assert (Hkd : fst k <> fst se).
              { intros Ef. assert (k = se) by (eapply live_same_index; eauto). subst k. rewrite Hgse in Hgk. inversion Hgk. apply nget_some_lt in Hnk. lia. }
              rewrite upd_get_neq by exact Hkd. now rewrite (Hoth1 k Hke).
        -- destruct (Hr _ _ _ _ _ Hb Hnk) as [Hgk Hlen]. split; [|exact Hlen].
           assert (Hke : k <> e). { intros ->. rewrite Hge in Hgk. inversion Hgk. apply N.eqb_neq in E2. congruence. }
           assert (Hkd : fst k <> fst se).
           { intros Ef. assert (k = se) by (eapply live_same_index; eauto). subst k. rewrite Hgse in Hgk. inversion Hgk. apply N.eqb_neq in E2. congruence. }
           rewrite upd_get_neq by exact Hkd. now rewrite (Hoth1 k Hke).
Qed.

(* every other row survives, in the same archetype, with the same values; the moved entity is
   the new last row of the destination *)
Lemma move_row_keeps_others : forall k aj rj b vb, k <> e ->
  arch_at w aj = Some b -> nget (a_rows b) rj = Some (k, vb) ->
  exists rj' b', arch_at move_row_result aj = Some b' /\ a_comps b' = a_comps b /\ nget (a_rows b') rj' = Some (k, vb).
Proof.
  intros k aj rj b vb Hke Hb Hnb.
  assert (Hres : w_archs move_row_result = archs').
  { unfold move_row_result. destruct (nget (a_rows sa1) srow) as [[se sv]|]; reflexivity. }
  assert (Hat : forall j, arch_at move_row_result j = slab_get archs' j) by (intros j; unfold arch_at; now rewrite Hres).
  setoid_rewrite Hat. rewrite move_arch_at. destruct (aj =? dst) eqn:E1.
  - apply N.eqb_eq in E1. subst aj. rewrite Hda in Hb. inversion Hb; subst b.
    exists rj, da2. split; [reflexivity|]. split; [reflexivity|]. cbn [a_rows set_rows]. rewrite nget_app_l; [exact Hnb|eapply nget_some_lt; eauto].
  - destruct (aj =? sai) eqn:E2; [|eauto]. apply N.eqb_eq in E2. subst aj. rewrite Hsa in Hb. inversion Hb; subst b.
    assert (Hrlt : srow < nlen (a_rows sa)) by (eapply nget_some_lt; eauto).
    destruct (a_rows sa) as [|lastrow pre] eqn:Erows using rev_ind; [rewrite nlen_nil in Hrlt; lia|]. clear IHpre.
    rewrite nlen_app in Hrlt. change (nlen [lastrow]) with 1 in Hrlt.
    assert (Hrj : rj <> srow). { intros ->. rewrite Hrow in Hnb. inversion Hnb. now apply Hke. }
    destruct (N.lt_ge_cases rj (nlen pre)) as [L|G].
    + eexists rj, _. split; [reflexivity|]. split; [reflexivity|]. cbn [a_rows set_rows]. rewrite ?Erows.
      rewrite nget_swap_remove by lia. replace (rj =? srow) with false by (symmetry; apply N.eqb_neq; exact Hrj).
      replace (rj <? nlen pre) with true by (symmetry; apply N.ltb_lt; exact L). now rewrite nget_app_l in Hnb.
    + assert (rj = nlen pre) by (apply nget_some_lt in Hnb; rewrite nlen_app in Hnb; change (nlen [lastrow]) with 1 in Hnb; lia). subst rj.
      rewrite nget_snoc_last in Hnb. inversion Hnb; subst lastrow.
      eexists srow, _. split; [reflexivity|]. split; [reflexivity|]. cbn [a_rows set_rows]. rewrite ?Erows.
      rewrite nget_swap_remove by lia. rewrite N.eqb_refl. replace (srow =? nlen pre) with false by (symmetry; apply N.eqb_neq; lia). reflexivity.
Qed.

Lemma move_row_moved : arch_at move_row_result dst = Some da2 /\ nget (a_rows da2) (nlen (a_rows da)) = Some (e, dvals).
Proof.
  assert (Hres : w_archs move_row_result = archs').
  { unfold move_row_result. destruct (nget (a_rows sa1) srow) as [[se sv]|]; reflexivity. }
  unfold arch_at. rewrite Hres, move_arch_at, N.eqb_refl. split; [reflexivity|]. cbn [a_rows set_rows]. apply nget_snoc_last.
Qed.
End MoveRow.

Lemma swap_remove_displaced {A} (l : list A) i x : i < nlen l -> nget (swap_remove l i) i = Some x ->
  nget l (nlen l - 1) = Some x /\ i <> nlen l - 1.
Proof.
  intros Hlt H. destruct l as [|lastx pre] using rev_ind; [rewrite nlen_nil in Hlt; lia|]. clear IHpre.
  rewrite nlen_app in *. change (nlen [lastx]) with 1 in *. rewrite nget_swap_remove, N.eqb_refl in H by lia.
  destruct (i =? nlen pre) eqn:E; [discriminate|]. apply N.eqb_neq in E. inversion H; subst.
  replace (nlen pre + 1 - 1) with (nlen pre) by lia. split; [apply nget_snoc_last|exact E].
Qed.

Lemma set_cap_eta a : set_cap a (a_cap a) (a_epoch a) = a. Proof. now destruct a. Qed.

(* C02 / C17 / C01 for the archetype move behind Insert and Remove: on a consistent store, when
   the column walk succeeds, move_entity succeeds (no unchecked step fails), keeps the store
   consistent, leaves every component of every other entity as it was, and stores the walk's
   destination values for the moved entity in the destination archetype *)
Theorem move_entity_ok w sai srow dst sa da e vals nw dvals killed :
  StoreInv w -> arch_at w sai = Some sa -> arch_at w dst = Some da -> sai <> dst ->
  nget (a_rows sa) srow = Some (e, vals) ->
  merge_row (S (length (a_comps sa) + length (a_comps da))) (a_comps sa) vals (a_comps da) nw = Some (dvals, killed) ->
  exists w', move_entity w (sai, srow) dst nw = ROk tt w' /\ StoreInv w' /\
             (forall k c, k <> e -> abs w' k c = abs w k c) /\
             (forall c, abs w' e c = row_col da dvals c) /\
             (exists cap' ep', w_archs w' = slab_set (slab_set (w_archs w) sai (set_rows sa (swap_remove (a_rows sa) srow))) dst
                                               (set_rows (set_cap da cap' ep') (a_rows da ++ [(e, dvals)]))) /\
             w_aby w' = w_aby w.
Proof.
  intros Hinv Hsa Hda Hne Hrow Hmerge. pose proof Hinv as (Hsm & Hl & Hr).
  assert (Hvlen : length vals = length (a_comps sa)) by exact (proj2 (Hr _ _ _ _ _ Hsa Hrow)).
  pose proof (merge_row_conserves_len _ _ _ _ _ _ _ Hvlen Hmerge) as Hdlen.
  assert (Hge : sm_get e (w_ents w) = Some (sai, srow)) by exact (proj1 (Hr _ _ _ _ _ Hsa Hrow)).
  unfold move_entity. unfold arch_at in Hsa, Hda. rewrite Hsa. replace (sai =? dst) with false by (symmetry; apply N.eqb_neq; exact Hne).
  rewrite Hda, Hrow.
  (* reserve_one only changes capacity and epoch *)
  assert (Hres : exists cap' ep' re, reserve_one da = (set_cap da cap' ep', re)).
  { unfold reserve_one. destruct (nlen (a_rows da) =? a_cap da); [eauto|]. exists (a_cap da), (a_epoch da), false. now rewrite set_cap_eta. }
  destruct Hres as (cap' & ep' & re & ->). rewrite Hmerge.
  set (w1 := fold_left _ killed w).
  assert (E1 : w_ents w1 = w_ents w) by apply drops_fold_ents.
  assert (A1 : w_archs w1 = w_archs w) by apply drops_fold_archs.
  set (R := move_row_result w sai srow dst sa da e dvals cap' ep').
  pose proof (move_row_inv w sai srow dst sa da e vals dvals cap' ep' Hinv Hsa Hda Hne Hrow Hdlen) as HinvR. fold R in HinvR.
  cbn [a_rows set_cap set_rows]. rewrite A1.
  set (sa1 := set_rows sa (swap_remove (a_rows sa) srow)).
  set (da2 := set_rows (set_cap da cap' ep') (a_rows da ++ [(e, dvals)])).
  set (w2 := set_archs w1 (slab_set (slab_set (w_archs w) sai sa1) dst da2)).
  assert (Hloc1 : set_loc w2 e (dst, nlen (a_rows da)) = ROk tt (set_ents w2 (upd_by_index (w_ents w) (fst e) (fun _ => (dst, nlen (a_rows da)))))).
  { unfold set_loc. unfold w2 at 1. cbn [w_ents set_archs]. rewrite E1, Hge. unfold w2 at 2. cbn [w_ents set_archs]. now rewrite E1. }
  rewrite Hloc1. cbn [rbind].
  set (ents1 := upd_by_index (w_ents w) (fst e) (fun _ => (dst, nlen (a_rows da)))).
  set (w3 := set_ents w2 ents1).
  assert (Hfin : exists w4, (match nget (swap_remove (a_rows sa) srow) srow with
                             | Some (se, _) => match sm_get se (w_ents w3) with
                                               | Some l => set_loc w3 se (fst l, srow)
                                               | None => RFail (FUB 488) w3 end
                             | None => ROk tt w3 end) = ROk tt w4 /\ w_ents w4 = w_ents R /\ w_archs w4 = w_archs R /\ w_aby w4 = w_aby w).
  { assert (B1 : w_aby w1 = w_aby w).
    { unfold w1. apply (fold_left_pres_aby killed w). }
    unfold R, move_row_result. fold sa1 da2 ents1. change (a_rows sa1) with (swap_remove (a_rows sa) srow).
    destruct (nget (swap_remove (a_rows sa) srow) srow) as [[se sv]|] eqn:Ed.
    - assert (Hlt : srow < nlen (a_rows sa)) by (eapply nget_some_lt; eauto).
      destruct (swap_remove_displaced _ _ _ Hlt Ed) as [Hlast Hnl].
      destruct (Hr _ _ _ _ _ Hsa Hlast) as [Hgse _].
      assert (Hsee : se <> e). { intros ->. rewrite Hge in Hgse. inversion Hgse. lia. }
      assert (Hidx : fst se <> fst e). { intros Ef. apply Hsee. eapply live_same_index; eauto. }
      assert (Hgse1 : sm_get se ents1 = Some (sai, nlen (a_rows sa) - 1)) by (unfold ents1; now rewrite upd_get_neq).
      cbn [w_ents set_ents]. change (w_ents w3) with ents1. rewrite Hgse1. unfold set_loc. change (w_ents w3) with ents1. rewrite Hgse1.
      eexists. split; [reflexivity|]. cbn [w_ents w_archs w_aby set_ents set_archs fst]. split; [|split; [reflexivity|exact B1]].
      apply upd_by_index_ext. intros s v Hs Hv. destruct (sm_get_some_inv _ _ _ Hgse1) as (s' & Hs' & _ & Hv'). rewrite Hs in Hs'. inversion Hs'; subst.
      rewrite Hv in Hv'. inversion Hv'; subst. reflexivity.
    - exists w3. split; [reflexivity|]. split; [reflexivity|]. split; [reflexivity|exact B1]. }
  destruct Hfin as (w4 & -> & E4 & A4 & HfinB). cbn [rbind].
  eexists. split; [reflexivity|].
  match goal with |- StoreInv ?x /\ _ => set (wf := x) end.
  assert (Ef : w_ents wf = w_ents R).
  { unfold wf. repeat match goal with |- context [if ?b then _ else _] => destruct b end; rewrite ?notify_refresh_ents, ?notify_remove_ents; exact E4. }
  assert (Af : w_archs wf = w_archs R).
  { unfold wf. repeat match goal with |- context [if ?b then _ else _] => destruct b end; rewrite ?notify_refresh_archs, ?notify_remove_archs; exact A4. }
  assert (Hinvf : StoreInv wf) by (eapply StoreInv_ext; eauto).
  split; [exact Hinvf|]. split.
  - intros k c Hke. destruct (sm_get k (w_ents w)) as [[aj rj]|] eqn:Hgk.
    + destruct (Hl _ _ _ Hgk) as (b & vb & Hb & Hnb).
      destruct (move_row_keeps_others w sai srow dst sa da e vals dvals cap' ep' Hsa Hda Hne Hrow Hdlen k aj rj b vb Hke Hb Hnb) as (rj' & b' & Hb' & Hc' & Hn').
      fold R in Hb'. unfold arch_at in Hb'. rewrite <- Af in Hb'.
      rewrite (abs_of_row wf aj b' rj' k vb c Hinvf Hb' Hn'), (abs_of_row w aj b rj k vb c Hinv Hb Hnb). now apply row_col_comps.
    + rewrite (abs_dead w k c Hgk). apply abs_dead. rewrite Ef. unfold R, move_row_result. fold sa1 ents1.
      assert (Hg1 : sm_get k ents1 = None).
      { unfold ents1. destruct (N.eq_dec (fst k) (fst e)) as [Ei|Ei]; [|now rewrite upd_get_neq].
        exact (upd_get_same_index (w_ents w) e _ k _ Hge Ei Hke). }
      destruct (nget (a_rows sa1) srow) as [[se sv]|] eqn:Ed; cbn [w_ents set_ents]; [|exact Hg1].
      destruct (N.eq_dec (fst k) (fst se)) as [Ei|Ei]; [|now rewrite upd_get_neq].
      unfold upd_by_index. destruct (sget (slots ents1) (fst se)) as [s|] eqn:Es; [|exact Hg1].
      destruct (val s) eqn:Ev; [|exact Hg1]. unfold sm_get. cbn [slots]. rewrite Ei. erewrite sget_supd_eq by eauto. cbn [gen val].
      unfold sm_get in Hg1. rewrite Ei, Es in Hg1. destruct (gen s =? snd k); [congruence|reflexivity].
  - split; [|split].
    + intros c. destruct (move_row_moved w sai srow dst sa da e dvals cap' ep' Hsa Hda Hne) as [Hb' Hn']. fold R in Hb'.
      unfold arch_at in Hb'. rewrite <- Af in Hb'.
      rewrite (abs_of_row wf dst _ _ e dvals c Hinvf Hb' Hn'). apply row_col_comps. reflexivity.
    + exists cap', ep'. rewrite Af. unfold R, move_row_result.
      match goal with |- context [match ?x with Some _ => _ | None => _ end] => destruct x as [[? ?]|] end; reflexivity.
    + (* by_components is not touched *)
      assert (B4 : w_aby w4 = w_aby w).
      { clear -HfinB. exact HfinB. }
      unfold wf. repeat match goal with |- context [if ?b then _ else _] => destruct b end;
        unfold notify_refresh, notify_remove; repeat match goal with |- context [slab_get ?x ?y] => destruct (slab_get x y) end; exact B4.
Qed.

Corollary move_entity_ok_core w sai srow dst sa da e vals nw dvals killed :
  StoreInv w -> arch_at w sai = Some sa -> arch_at w dst = Some da -> sai <> dst ->
  nget (a_rows sa) srow = Some (e, vals) ->
  merge_row (S (length (a_comps sa) + length (a_comps da))) (a_comps sa) vals (a_comps da) nw = Some (dvals, killed) ->
  exists w', move_entity w (sai, srow) dst nw = ROk tt w' /\ StoreInv w' /\
             (forall k c, k <> e -> abs w' k c = abs w k c) /\
             (forall c, abs w' e c = row_col da dvals c).
Proof.
  intros H1 H2 H3 H4 H5 H6. destruct (move_entity_ok w sai srow dst sa da e vals nw dvals killed H1 H2 H3 H4 H5 H6) as (w' & A & B & C & D & _).
  exists w'. auto.
Qed.

(* ---------- the set of live entities is untouched by archetype moves ---------- *)
Definition same_dom {V} (m m' : smap V) : Prop := forall k, sm_get k m = None <-> sm_get k m' = None.
Lemma same_dom_refl {V} (m : smap V) : same_dom m m. Proof. intros k. reflexivity. Qed.
Lemma same_dom_trans {V} (a b c : smap V) : same_dom a b -> same_dom b c -> same_dom a c.
Proof. intros H1 H2 k. rewrite (H1 k). apply H2. Qed.
Lemma upd_same_dom {V} (m : smap V) i f : same_dom m (upd_by_index m i f).
Proof.
  intros k. unfold upd_by_index. destruct (sget (slots m) i) as [s|] eqn:Es; [|reflexivity].
  destruct (val s) as [v|] eqn:Ev; [|reflexivity]. unfold sm_get. cbn [slots].
  destruct (N.eq_dec i (fst k)) as [<-|Hne].
  - erewrite sget_supd_eq by eauto. rewrite Es. cbn [gen val]. rewrite Ev. destruct (gen s =? snd k); split; congruence.
  - now rewrite sget_supd_neq by auto.
Qed.
Lemma set_loc_dom w e l w' : set_loc w e l = ROk tt w' -> same_dom (w_ents w) (w_ents w').
Proof. unfold set_loc. destruct (sm_get e (w_ents w)); [|discriminate]. intros H. inversion H; subst. cbn [w_ents set_ents]. apply upd_same_dom. Qed.

Lemma move_entity_dom w src dst nw w' : move_entity w src dst nw = ROk tt w' -> same_dom (w_ents w) (w_ents w').
Proof.
  unfold move_entity. destruct src as [sai srow]. destruct (slab_get (w_archs w) sai) as [sa|]; [|discriminate].
  destruct (sai =? dst).
  - destruct nw as [[c v]|]; [|intros H; inversion H; subst; apply same_dom_refl].
    destruct (nget (a_rows sa) srow) as [[e vals]|]; [|discriminate]. destruct (col_index (a_comps sa) c); [|discriminate].
    intros H. inversion H; subst. cbn [w_ents set_archs]. unfold drop_cval. destruct (ctag_has_drop _); apply same_dom_refl.
  - destruct (slab_get (w_archs w) dst) as [da|]; [|discriminate]. destruct (nget (a_rows sa) srow) as [[e vals]|]; [|discriminate].
    destruct (reserve_one da) as [da1 re]. destruct (merge_row _ _ _ _ _) as [[dvals killed]|]; [|discriminate].
    set (w1 := fold_left _ killed w). assert (E1 : w_ents w1 = w_ents w) by apply drops_fold_ents.
    set (w2 := set_archs w1 _).
    destruct (set_loc w2 e (dst, nlen (a_rows da1))) as [[] w3|f w3] eqn:E3; cbn [rbind]; [|discriminate].
    apply set_loc_dom in E3. change (w_ents w2) with (w_ents w1) in E3. rewrite E1 in E3.
    set (r4 := match nget _ srow with Some _ => _ | None => _ end).
    assert (H4 : forall w4, r4 = ROk tt w4 -> same_dom (w_ents w3) (w_ents w4)).
    { intros w4. unfold r4. destruct (nget _ srow) as [[se sv]|]; [|intros H; inversion H; subst; apply same_dom_refl].
      destruct (sm_get se (w_ents w3)); [|discriminate]. apply set_loc_dom. }
    destruct r4 as [[] w4|f w4]; cbn [rbind]; [|discriminate]. specialize (H4 w4 eq_refl).
    intros H. inversion H; subst. eapply same_dom_trans; [exact E3|]. eapply same_dom_trans; [exact H4|].
    destruct (_ || _); destruct (nlen _ =? 0); rewrite ?notify_refresh_ents, ?notify_remove_ents; apply same_dom_refl.
Qed.
