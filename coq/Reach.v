(* Reach.v : the storage invariant WInv (entity map <-> archetype rows, archetype graph, slab free
   list, by_components) is an invariant of event delivery, for every handler behaviour:
     - handler bodies keep the structure (WorldFrame.v), and WInv only looks at the structure;
     - each built-in effect keeps WInv (Effects.v);
     - hence one delivery, the unwinding, and the whole flush loop keep it;
   and while it holds no unchecked operation of the storage layer (archetype.rs, the FUB sites
   below 1000) can fail: the only failures a delivery can raise are panics and the registry
   look-ups of world.rs. *)
From Coq Require Import List NArith Bool Lia Sorted.
Import ListNotations.
Require Import EV.Base EV.ListN EV.Access EV.Query EV.QueryInd EV.SlotMap EV.Reserve EV.HList EV.Loop EV.World EV.SlotMapGet
  EV.ArchProofs EV.WorldFrame EV.Store EV.Graph EV.Effects.
Open Scope N_scope.

(* ---------- WInv only depends on the structure ---------- *)
Lemma nget_map {A B} (f : A -> B) l : forall i, nget (map f l) i = option_map f (nget l i).
Proof. induction l as [|h t IH]; intros i; cbn [map nget]; [reflexivity|]. destruct (i =? 0); [reflexivity|apply IH]. Qed.
Lemma nlen_map {A B} (f : A -> B) l : nlen (map f l) = nlen l.
Proof. unfold nlen. now rewrite map_length. Qed.

Section Shape.
Variables (l l' : list sentry).
Hypothesis Hsh : map ashape l' = map ashape l.

Lemma shape_nlen : nlen l' = nlen l.
Proof. rewrite <- (nlen_map ashape l'), Hsh. apply nlen_map. Qed.
Lemma shape_nget i : option_map ashape (nget l' i) = option_map ashape (nget l i).
Proof. rewrite <- !nget_map. now rewrite Hsh. Qed.
Lemma shape_vac i nx : nget l i = Some (SVac nx) -> nget l' i = Some (SVac nx).
Proof.
  intros H. pose proof (shape_nget i) as E. rewrite H in E. destruct (nget l' i) as [[a|n]|]; cbn in E; try discriminate.
  inversion E; subst. reflexivity.
Qed.
Lemma shape_occ i a : nget l i = Some (SOcc a) -> exists a', nget l' i = Some (SOcc a') /\ ashape (SOcc a') = ashape (SOcc a).
Proof.
  intros H. pose proof (shape_nget i) as E. rewrite H in E. destruct (nget l' i) as [[a'|n]|]; cbn [option_map] in E; try discriminate.
  exists a'. split; [reflexivity|]. exact (f_equal (fun o => match o with Some x => x | None => ashape (SOcc a) end) E).
Qed.
Lemma shape_schain h c : schain l h c -> schain l' h c.
Proof.
  induction 1 as [|i nx rest Hg _ IH]; [rewrite <- shape_nlen; constructor|].
  econstructor; [apply shape_vac; exact Hg|exact IH].
Qed.
End Shape.

Lemma rshape_nget rows rows' : map rshape rows' = map rshape rows -> forall row e vals, nget rows row = Some (e, vals) ->
  exists vals', nget rows' row = Some (e, vals') /\ length vals' = length vals.
Proof.
  intros Hm row e vals H. assert (E : option_map rshape (nget rows' row) = option_map rshape (nget rows row)) by (rewrite <- !nget_map; now rewrite Hm).
  rewrite H in E. destruct (nget rows' row) as [[e' v']|]; cbn in E; [|discriminate]. inversion E; subst. eauto.
Qed.

Lemma arch_at_structure w w' : structure w' = structure w -> forall ai a, arch_at w ai = Some a ->
  exists a', arch_at w' ai = Some a' /\ a_comps a' = a_comps a /\ map rshape (a_rows a') = map rshape (a_rows a) /\
             a_ins a' = a_ins a /\ a_rem a' = a_rem a.
Proof.
  unfold structure. intros H ai a Ha. inversion H as [[Hcb He Hc Hsh Hn Hb]]. unfold arch_at, slab_get in *.
  destruct (nget (sl_entries (w_archs w)) ai) as [[a0|]|] eqn:Hg; try discriminate. inversion Ha; subst a0.
  destruct (shape_occ _ _ Hsh _ _ Hg) as (a' & Hg' & Es). rewrite Hg'. exists a'. split; [reflexivity|].
  cbn [ashape] in Es. inversion Es. auto.
Qed.

Theorem WInv_structure w w' : structure w' = structure w -> WInv w -> WInv w'.
Proof.
  intros H (Hst & Hg & H0). pose proof H as H'. unfold structure in H'. inversion H' as [[Hcby He Hc Hsh Hn Hb]].
  assert (Hfw := arch_at_structure w w' H). assert (Hbw := arch_at_structure w' w (eq_sym H)).
  split; [|split].
  - destruct Hst as (Hsm & Hl & Hr). unfold StoreInv. rewrite He. split; [exact Hsm|]. split.
    + intros e ai row Hge. destruct (Hl _ _ _ Hge) as (a & vals & Ha & Hn'). destruct (Hfw _ _ Ha) as (a' & Ha' & Hc' & Hr' & _).
      destruct (rshape_nget _ _ Hr' _ _ _ Hn') as (vals' & Hn'' & _). eauto.
    + intros ai a' row e vals' Ha' Hn'. destruct (Hbw _ _ Ha') as (a & Ha & Hc' & Hr' & _).
      destruct (rshape_nget _ _ Hr' _ _ _ Hn') as (vals & Hn'' & Hlen). destruct (Hr _ _ _ _ _ Ha Hn'') as [X Y]. split; [exact X|]. congruence.
  - destruct Hg as (Hs & Hb1 & Hb2 & Hi & Hr & Hso). unfold GraphInv. split; [|split; [|split; [|split; [|split]]]].
    + destruct Hs as (c & Hch & Hnd). exists c. split; [|exact Hnd]. rewrite Hn. eapply shape_schain; eauto.
    + intros ai a' Ha'. destruct (Hbw _ _ Ha') as (a & Ha & Hc' & _). unfold aby_lookup. rewrite Hb, <- Hc'. exact (Hb1 _ _ Ha).
    + intros cs ai Hl. unfold aby_lookup in Hl. rewrite Hb in Hl. destruct (Hb2 _ _ Hl) as (a & Ha & Hcs).
      destruct (Hfw _ _ Ha) as (a' & Ha' & Hc' & _). exists a'. split; [exact Ha'|congruence].
    + intros ai a' c d Ha' Hl. destruct (Hbw _ _ Ha') as (a & Ha & Hc' & _ & Hi' & _). rewrite <- Hi' in Hl.
      destruct (Hi _ _ _ _ Ha Hl) as (Hn' & b & Hb' & Hcb). rewrite <- Hc'. split; [exact Hn'|].
      destruct (Hfw _ _ Hb') as (b' & Hb'' & Hcb' & _). exists b'. split; [exact Hb''|congruence].
    + intros ai a' c d Ha' Hl. destruct (Hbw _ _ Ha') as (a & Ha & Hc' & _ & _ & Hr''). rewrite <- Hr'' in Hl.
      destruct (Hr _ _ _ _ Ha Hl) as (Hn' & b & Hb' & Hcb). rewrite <- Hc'. split; [exact Hn'|].
      destruct (Hfw _ _ Hb') as (b' & Hb'' & Hcb' & _). exists b'. split; [exact Hb''|congruence].
    + intros ai a' Ha'. destruct (Hbw _ _ Ha') as (a & Ha & Hc' & _). rewrite <- Hc'. eauto.
  - unfold aby_lookup in *. now rewrite Hb.
Qed.

(* ---------- the built-in effects keep WInv and cannot hit an unchecked failure ---------- *)
Definition targeted_kind (k : ekind) : bool := match k with KInsert _ | KRemove _ | KDespawn => true | _ => false end.

Theorem builtin_effect_ok kind ev loc w e :
  WInv w -> (targeted_kind kind = true -> sm_get e (w_ents w) = Some loc) ->
  match builtin_effect kind ev loc w with
  | ROk _ w' => WInv w'
  | RFail f w' => f = FPanic 5 /\ WInv w'
  end.
Proof.
  intros HW Hloc. pose proof HW as (Hst & Hg & H0). destruct kind as [|c|c| |]; cbn [builtin_effect].
  - exact HW.
  - destruct loc as [sai srow]. cbn [fst]. specialize (Hloc eq_refl).
    destruct (insert_effect_ok w e sai srow c (ev_ser ev, ev_val ev) Hst Hg Hloc) as (w' & E & Hst' & Hg' & _ & _ & _ & Hmono).
    unfold cval in E. rewrite E.
    split; [exact Hst'|split; [exact Hg'|now apply Hmono]].
  - destruct loc as [sai srow]. cbn [fst]. specialize (Hloc eq_refl).
    destruct (remove_effect_ok w e sai srow c Hst Hg Hloc) as (w' & -> & Hst' & Hg' & _ & _ & _ & Hmono).
    split; [exact Hst'|split; [exact Hg'|now apply Hmono]].
  - pose proof (spawn_all_ok w HW) as H. destruct (spawn_all w) as [[] w'|f w']; [exact (proj1 H)|]. destruct H as [-> H]. split; [reflexivity|exact (proj1 H)].
  - pose proof (despawn_effect_ok w e loc HW (Hloc eq_refl)) as H.
    destruct (do (_, w2) <- spawn_all w; do (_, w3) <- remove_entity w2 loc; ROk tt (refresh_cursor w3)) as [[] w'|f w'].
    + exact (proj1 H).
    + destruct H as [-> H]. split; [reflexivity|exact (proj1 H)].
Qed.

(* ---------- C02: the built-in effects are the map operations ---------- *)
Theorem insert_effect_map w e loc c ev :
  WInv w -> sm_get e (w_ents w) = Some loc ->
  exists w', builtin_effect (KInsert c) ev loc w = ROk tt w' /\ WInv w' /\
    abs w' e c = Some (ev_ser ev, ev_val ev) /\ (forall c', c' <> c -> abs w' e c' = abs w e c') /\
    (forall k c', k <> e -> abs w' k c' = abs w k c') /\ same_dom (w_ents w) (w_ents w').
Proof.
  intros (Hst & Hg & H0) Hloc. destruct loc as [sai srow]. cbn [builtin_effect fst].
  destruct (insert_effect_ok w e sai srow c (ev_ser ev, ev_val ev) Hst Hg Hloc) as (w' & E & Hst' & Hg' & Hc & Ho & Hk & Hmono).
  unfold cval in E. exists w'. split; [exact E|]. split; [split; [exact Hst'|split; [exact Hg'|now apply Hmono]]|].
  split; [exact Hc|]. split; [exact Ho|]. split; [exact Hk|].
  pose proof Hst as (_ & Hl & _). destruct (Hl _ _ _ Hloc) as (sa & vals & Hsa & _).
  destruct (traverse_insert_ok w sai sa c Hst Hg Hsa) as (d & w1 & Et & _ & _ & _ & Hents1 & _).
  rewrite Et in E. cbn [rbind] in E. apply move_entity_dom in E. now rewrite Hents1 in E.
Qed.

Theorem remove_effect_map w e loc c ev :
  WInv w -> sm_get e (w_ents w) = Some loc ->
  exists w', builtin_effect (KRemove c) ev loc w = ROk tt w' /\ WInv w' /\
    abs w' e c = None /\ (forall c', c' <> c -> abs w' e c' = abs w e c') /\
    (forall k c', k <> e -> abs w' k c' = abs w k c') /\ same_dom (w_ents w) (w_ents w').
Proof.
  intros (Hst & Hg & H0) Hloc. destruct loc as [sai srow]. cbn [builtin_effect fst].
  destruct (remove_effect_ok w e sai srow c Hst Hg Hloc) as (w' & E & Hst' & Hg' & Hc & Ho & Hk & Hmono).
  exists w'. split; [exact E|]. split; [split; [exact Hst'|split; [exact Hg'|now apply Hmono]]|].
  split; [exact Hc|]. split; [exact Ho|]. split; [exact Hk|].
  pose proof Hst as (_ & Hl & _). destruct (Hl _ _ _ Hloc) as (sa & vals & Hsa & _).
  destruct (traverse_remove_ok w sai sa c Hst Hg Hsa) as (d & w1 & Et & _ & _ & _ & Hents1 & _).
  rewrite Et in E. cbn [rbind] in E. apply move_entity_dom in E. now rewrite Hents1 in E.
Qed.

Theorem despawn_effect_map w e loc ev :
  WInv w -> sm_get e (w_ents w) = Some loc ->
  match builtin_effect KDespawn ev loc w with
  | ROk _ w' => WInv w' /\ sm_get e (w_ents w') = None /\
                (forall k, k <> e -> sm_get k (w_ents w) <> None -> sm_get k (w_ents w') <> None /\ forall c, abs w' k c = abs w k c) /\
                (forall k, k <> e -> sm_get k (w_ents w) = None -> forall c, abs w' k c = None)
  | RFail f w' => f = FPanic 5 /\ ext_by_spawn w w'
  end.
Proof.
  intros HW Hloc. cbn [builtin_effect]. pose proof (despawn_effect_ok w e loc HW Hloc) as H.
  destruct (do (_, w2) <- spawn_all w; do (_, w3) <- remove_entity w2 loc; ROk tt (refresh_cursor w3)) as [[] w'|f w']; [|exact H].
  destruct H as (A & B & C & D & _). auto.
Qed.

Theorem spawn_effect_map w ev loc :
  WInv w ->
  match builtin_effect KSpawn ev loc w with
  | ROk _ w' => ext_by_spawn w w'
  | RFail f w' => f = FPanic 5 /\ ext_by_spawn w w'
  end.
Proof. intros HW. cbn [builtin_effect]. now apply spawn_all_ok. Qed.

(* global events never carry a targeted built-in meaning *)
Definition GevKinds (w : world) : Prop :=
  forall i k info, get_by_index (w_gev w) i = Some (k, info) -> targeted_kind (e_kind info) = false.
Lemma GevKinds_registries w w' : registries w' = registries w -> GevKinds w -> GevKinds w'.
Proof. unfold registries, GevKinds. intros H HK i k info. assert (E : w_gev w' = w_gev w) by now inversion H. rewrite E. apply HK. Qed.

Section WithBeh.
Variable beh : hinfo -> logent -> N -> script.

Lemma structure_ents w w' : structure w' = structure w -> w_ents w' = w_ents w.
Proof. unfold structure. intros H. now inversion H. Qed.

Theorem deliver_one_WInv it w : WInv w -> GevKinds w -> WInv (snd (fst (deliver_one beh it w))).
Proof.
  intros HW HK. unfold deliver_one.
  assert (Hfin : forall tag kind hl loc,
            (targeted_kind kind = true -> sm_get (qi_target it) (w_ents w) = Some loc) ->
            WInv (snd (fst (let '(w1, ev, sent, taken, fl) := run_handlers beh hl w it tag loc [] in
              match fl with
              | Some f => (sent, (if taken then w1 else ev_drop w1 (qi_targeted it) tag ev), Some f)
              | None => if taken then (sent, w1, None) else
                  match kind with
                  | KNormal => (sent, ev_drop w1 (qi_targeted it) tag ev, None)
                  | _ => let '(w3, f) := fail_of (builtin_effect kind ev loc w1) in (sent, w3, f)
                  end
              end)))).
  { intros tag kind hl loc Hloc. pose proof (handlers_preserve_structure beh hl w it tag loc []) as Hs.
    destruct (run_handlers beh hl w it tag loc []) as [[[[w1 ev] sent] taken] fl]. cbn [fst] in Hs.
    assert (HW1 : WInv w1) by (eapply WInv_structure; eauto).
    assert (HWd : forall t tg e0, WInv (ev_drop w1 t tg e0)) by (intros; eapply WInv_structure; [apply s_ev_drop|exact HW1]).
    destruct fl as [f|]; [cbn [fst snd]; destruct taken; auto|].
    destruct taken; [exact HW1|].
    assert (Heff : WInv (fst (fail_of (builtin_effect kind ev loc w1)))).
    { pose proof (builtin_effect_ok kind ev loc w1 (qi_target it) HW1) as H. rewrite (structure_ents _ _ Hs) in H. specialize (H Hloc).
      destruct (builtin_effect kind ev loc w1) as [[] w'|f w']; cbn [fail_of fst]; [exact H|exact (proj2 H)]. }
    destruct kind; try (destruct (fail_of _) as [w3 f]; exact Heff). cbn [fst snd]. apply HWd. }
  destruct (qi_targeted it).
  - destruct (get_by_index (w_tev w) (qi_idx it)) as [[k info]|]; [|exact HW].
    destruct (sm_get (qi_target it) (w_ents w)) as [loc|] eqn:Hl; [|cbn [fst snd]; eapply WInv_structure; [apply s_ev_drop|exact HW]].
    destruct (slab_get (w_archs w) (fst loc)); [|exact HW]. apply Hfin. auto.
  - destruct (get_by_index (w_gev w) (qi_idx it)) as [[k info]|] eqn:Hg; [|exact HW].
    destruct (nget (w_glists w) (qi_idx it)); [|exact HW]. apply Hfin. intros X. rewrite (HK _ _ _ Hg) in X. discriminate.
Qed.

Theorem flush_WInv n q w tr s' oc :
  Loop.flush wst qitem (run_w beh) unwind_w n q (w, None) [] = Some (tr, s', oc) ->
  WInv w -> GevKinds w -> WInv (fst s') /\ GevKinds (fst s').
Proof.
  intros H HW HK.
  apply (flush_invariant wst qitem (run_w beh) unwind_w (fun s : wst => WInv (fst s) /\ GevKinds (fst s))) with (n := n) (q := q) (st := (w, None)) (acc := []) (tr := tr) (oc := oc); [| |exact H|split; assumption].
  - intros e st [H1 H2]. unfold run_w. pose proof (deliver_one_WInv e (fst st) H1 H2) as Hd.
    pose proof (deliver_one_keeps_registries beh e (fst st)) as Hr.
    destruct (deliver_one beh e (fst st)) as [[sent w1] fl]. cbn [fst snd] in *. split; [exact Hd|eapply GevKinds_registries; eauto].
  - intros q0 st [H1 H2]. unfold unwind_w. destruct (snd st) as [[k|s]|]; try (split; assumption). cbn [fst].
    assert (HWu : WInv (unwind_queue q0 (fst st))).
    { eapply WInv_structure; [|exact H1]. unfold unwind_queue. apply (fold_left_pres structure). intros. apply s_ev_drop. }
    assert (HKu : GevKinds (unwind_queue q0 (fst st))) by (eapply GevKinds_registries; [apply unwind_queue_keeps_registries|exact H2]).
    pose proof (spawn_all_ok _ HWu) as Hs. pose proof (spawn_all_keeps_registries (unwind_queue q0 (fst st))) as Hr.
    destruct (spawn_all (unwind_queue q0 (fst st))) as [[] w3|f w3]; cbn [res_world] in Hr.
    + split; [exact (proj1 Hs)|eapply GevKinds_registries; eauto].
    + split; [exact (proj1 (proj2 Hs))|eapply GevKinds_registries; eauto].
Qed.
End WithBeh.

(* ---------- the registration and sending layer keeps the invariant too ---------- *)
Definition RInv (w : world) : Prop := WInv w /\ GevKinds w.

Lemma RInv_ext w w' : w_ents w' = w_ents w -> w_archs w' = w_archs w -> w_aby w' = w_aby w -> w_gev w' = w_gev w -> RInv w -> RInv w'.
Proof.
  intros He Ha Hb Hg [HW HK]. split; [eapply WInv_ext; eauto|]. unfold GevKinds in *. now rewrite Hg.
Qed.
Lemma ev_drop_fields w t tag ev : w_ents (ev_drop w t tag ev) = w_ents w /\ w_archs (ev_drop w t tag ev) = w_archs w /\
  w_aby (ev_drop w t tag ev) = w_aby w /\ w_gev (ev_drop w t tag ev) = w_gev w.
Proof. unfold ev_drop, drop_cval. repeat break_match; repeat split. Qed.
Lemma RInv_ev_drop w t tag ev : RInv w -> RInv (ev_drop w t tag ev).
Proof. destruct (ev_drop_fields w t tag ev) as (A & B & C & D). now apply RInv_ext. Qed.

Lemma gbi_insert {V} (f : key -> V) (m : smap V) k m' i k' v :
  insert_with f m = Some (k, m') -> get_by_index m' i = Some (k', v) -> v = f k \/ get_by_index m i = Some (k', v).
Proof.
  unfold insert_with, get_by_index. destruct (sget (slots m) (next_free m)) as [s|] eqn:Es.
  - intros H. inversion H; subst; clear H. cbn [slots]. destruct (N.eq_dec (next_free m) i) as [<-|Hne].
    + erewrite sget_supd_eq by eauto. cbn [val]. intros X. inversion X. now left.
    + rewrite sget_supd_neq by auto. now right.
  - destruct (N.of_nat (length (slots m)) =? U32MAX); [discriminate|]. intros H. inversion H; subst; clear H. cbn [slots].
    destruct (sget (slots m) i) as [s|] eqn:Ei.
    + rewrite (sget_app_old _ _ _ _ Ei). now right.
    + destruct (sget (slots m ++ [_]) i) as [s|] eqn:Ea; [|discriminate]. apply sget_app_inv in Ea as [Ea|[_ ->]]; [congruence|].
      cbn [val]. intros X. inversion X. now left.
Qed.

Section Ops.
Variable beh : hinfo -> logent -> N -> script.

Lemma flush_RInv q w : RInv w -> RInv (res_world (flush beh q w)).
Proof.
  intros [HW HK]. unfold flush, flush_loop.
  destruct (Loop.flush wst qitem (run_w beh) unwind_w FUEL q (w, None) []) as [[[tr [w1 fl]] oc]|] eqn:E; [|split; assumption].
  destruct (flush_WInv beh _ _ _ _ _ _ E HW HK) as [HW1 HK1]. cbn [fst] in HW1, HK1.
  destruct oc; [|destruct fl; split; assumption]. cbn [res_world]. apply (RInv_ext w1); try reflexivity. split; assumption.
Qed.

Lemma add_global_event_S f tag w : add_global_event beh (S f) tag w =
  match alookup tag (w_gby w) with
  | Some k => ROk k w
  | None =>
      match insert_with (fun _ => mkE tag (gkind tag)) (w_gev w) with
      | None => RFail (FPanic 5) w
      | Some (k, m) =>
          let w1 := set_gev w m (ainsert tag k (w_gby w)) in
          let w2 := set_glists w1 (nrepeat_to (w_glists w1) (N.to_nat (fst k) + 1) hl_new) in
          do (_, w3) <- send_global beh f G_ADDGE (mkEv 0 0 k) w2;
          ROk k w3
      end
  end.
Proof. reflexivity. Qed.
Lemma send_global_S f tag ev w : send_global beh (S f) tag ev w =
  match add_global_event beh f tag w with
  | RFail e w' => RFail e (ev_drop w' false tag ev)
  | ROk k w1 =>
      let w2 := if (10 <? tag) then note w1 tag (ev_id ev) else w1 in
      flush beh [mkQ false (fst k) KEY_NULL ev] w2
  end.
Proof. reflexivity. Qed.

Lemma gev_RInv fuel : forall tag w, RInv w ->
  RInv (res_world (add_global_event beh fuel tag w)) /\ forall ev, RInv (res_world (send_global beh fuel tag ev w)).
Proof.
  induction fuel as [|f IH]; intros tag w HR; [split; [exact HR|intros; exact HR]|].
  assert (Hadd : RInv (res_world (add_global_event beh (S f) tag w))).
  { rewrite add_global_event_S. destruct (alookup tag (w_gby w)); [exact HR|].
    destruct (insert_with (fun _ => mkE tag (gkind tag)) (w_gev w)) as [[k m]|] eqn:Ei; [|exact HR].
    cbn zeta. set (w2 := set_glists _ _).
    assert (HR2 : RInv w2).
    { destruct HR as [HW HK]. split; [eapply WInv_ext; [| | |exact HW]; reflexivity|].
      intros i k' info Hg. unfold w2 in Hg. cbn [w_gev set_glists set_hreg set_gev] in Hg.
      destruct (gbi_insert _ _ _ _ _ _ _ Ei Hg) as [->|Hold]; [|eauto]. cbn [e_kind]. unfold gkind. now destruct (tag =? G_SPAWN). }
    destruct (IH G_ADDGE w2 HR2) as [_ Hs]. specialize (Hs (mkEv 0 0 k)).
    destruct (send_global beh f G_ADDGE (mkEv 0 0 k) w2); exact Hs. }
  split; [exact Hadd|]. intros ev. rewrite send_global_S.
  destruct (IH tag w HR) as [Ha _]. destruct (add_global_event beh f tag w) as [k w1|e w1]; cbn [res_world] in *.
  - apply flush_RInv. destruct (10 <? tag); [|exact Ha]. apply (RInv_ext w1); try reflexivity. exact Ha.
  - now apply RInv_ev_drop.
Qed.

Lemma send_global_RInv tag ev w : RInv w -> RInv (res_world (send_global beh RFUEL tag ev w)).
Proof. intros H. exact (proj2 (gev_RInv RFUEL tag w H) ev). Qed.
Lemma add_global_event_RInv tag w : RInv w -> RInv (res_world (add_global_event beh RFUEL tag w)).
Proof. intros H. exact (proj1 (gev_RInv RFUEL tag w H)). Qed.

Lemma rbind_RInv {A B} (r : res A) (f : A -> world -> res B) :
  RInv (res_world r) -> (forall a w, RInv w -> RInv (res_world (f a w))) -> RInv (res_world (rbind r f)).
Proof. intros H1 H2. destruct r as [a w|e w]; cbn [rbind res_world] in *; auto. Qed.

Lemma add_component_RInv tag w : RInv w -> RInv (res_world (add_component beh tag w)).
Proof.
  intros HR. unfold add_component. destruct (alookup tag (w_cby w)); [exact HR|].
  destruct (insert_with _ (w_comps w)) as [[k m]|]; [|exact HR].
  apply rbind_RInv; [|intros; assumption]. apply send_global_RInv. apply (RInv_ext w); try reflexivity. exact HR.
Qed.

Lemma add_targeted_event_RInv tag w : RInv w -> RInv (res_world (add_targeted_event beh tag w)).
Proof.
  intros HR. unfold add_targeted_event. apply rbind_RInv.
  - repeat break_match; try exact HR; (apply rbind_RInv; [now apply add_component_RInv|intros; assumption]).
  - intros kind w0 HR0. destruct (alookup tag (w_tby w0)); [exact HR0|].
    destruct (insert_with _ (w_tev w0)) as [[k m]|]; [|exact HR0].
    apply rbind_RInv; [|intros; assumption]. apply send_global_RInv.
    destruct kind; apply (RInv_ext w0); try reflexivity; exact HR0.
Qed.

Lemma send_to_RInv tag target ev w : RInv w -> RInv (res_world (send_to beh tag target ev w)).
Proof.
  intros HR. unfold send_to. pose proof (add_targeted_event_RInv tag w HR) as H.
  destruct (add_targeted_event beh tag w) as [k w1|e w1]; cbn [res_world] in *; [now apply flush_RInv|now apply RInv_ev_drop].
Qed.

(* the top-level calls of the differential harness that do not remove registrations *)
Theorem op_spawn_RInv w : RInv w -> RInv (res_world (op_spawn beh w)).
Proof.
  intros HR. unfold op_spawn. apply rbind_RInv.
  - unfold reserve. repeat break_match; cbn [res_world]; exact HR.
  - intros id w1 HR1. apply rbind_RInv; [now apply send_global_RInv|]. intros [] w2 HR2. cbn [res_world]. apply (RInv_ext w2); try reflexivity. exact HR2.
Qed.
Theorem op_insert_RInv e ktag w : RInv w -> RInv (res_world (op_insert beh e ktag w)).
Proof.
  intros HR. unfold op_insert. destruct (new_cval w ktag) as [v w1] eqn:E. apply send_to_RInv.
  assert (w1 = snd (new_cval w ktag)) by now rewrite E. subst w1. unfold new_cval. destruct (ctag_zst ktag); [exact HR|].
  cbn [snd fresh_serial]. apply (RInv_ext w); try reflexivity. exact HR.
Qed.
Theorem op_remove_RInv e ktag w : RInv w -> RInv (res_world (op_remove beh e ktag w)).
Proof. intros HR. unfold op_remove. now apply send_to_RInv. Qed.
Theorem op_despawn_RInv e w : RInv w -> RInv (res_world (op_despawn beh e w)).
Proof. intros HR. unfold op_despawn. now apply send_to_RInv. Qed.
Theorem op_send_RInv gtag w : RInv w -> RInv (res_world (op_send beh gtag w)).
Proof. intros HR. unfold op_send. cbn [fresh_serial]. apply send_global_RInv. apply (RInv_ext w); try reflexivity. exact HR. Qed.
Theorem op_send_to_RInv e ttag w : RInv w -> RInv (res_world (op_send_to beh e ttag w)).
Proof. intros HR. unfold op_send_to. cbn [fresh_serial]. apply send_to_RInv. apply (RInv_ext w); try reflexivity. exact HR. Qed.
End Ops.

(* ---------- add_handler ---------- *)
Lemma RInv_structure w w' : structure w' = structure w -> w_gev w' = w_gev w -> RInv w -> RInv w'.
Proof. intros Hs Hg [HW HK]. split; [eapply WInv_structure; eauto|]. unfold GevKinds in *. now rewrite Hg. Qed.

Lemma archs_register_handler_structure w hk : structure (archs_register_handler w hk) = structure w /\ w_gev (archs_register_handler w hk) = w_gev w.
Proof.
  unfold archs_register_handler. split.
  - apply (fold_left_pres structure). intros w' [ai x].
    destruct (slab_get (w_archs w') ai) as [a|] eqn:Ha; [|reflexivity]. destruct (sm_get hk (w_hs w')) as [h|]; [|reflexivity].
    pose proof (register_handler_core ai a h) as Hc. destruct (register_handler ai a h) as [a' h']. cbn [fst] in Hc.
    destruct Hc as (Hc & Hr & Hi & Hre & _).
    unfold structure. cbn [w_ents w_comps w_archs w_aby set_hs set_archs slab_set sl_entries sl_next]. f_equal. f_equal. f_equal.
    unfold slab_get in Ha. destruct (nget (sl_entries (w_archs w')) ai) as [[a0|]|] eqn:Hg; try discriminate. inversion Ha; subst a0.
    eapply map_ashape_nset; [exact Hg|]. cbn [ashape]. now rewrite Hc, Hr, Hi, Hre.
  - apply (fold_left_pres w_gev). intros w' [ai x]. repeat break_match; reflexivity.
Qed.

Section Ops2.
Variable beh : hinfo -> logent -> N -> script.

Lemma resolve_query_RInv q : forall w, RInv w -> RInv (res_world (resolve_query beh q w)).
Proof.
  induction q as [c|c|qs IH|q IH|l r IHl IHr|l r IHl IHr|q IH|q IH|q IH|] using query_ind'; intros w HR; cbn [resolve_query];
    try (apply rbind_RInv; [now apply add_component_RInv|intros; assumption]);
    try (apply rbind_RInv; [now apply IH|intros; assumption]);
    try (apply rbind_RInv; [now apply IHl|intros ? w1 HR1; apply rbind_RInv; [now apply IHr|intros; assumption]]);
    try exact HR.
  apply rbind_RInv; [|intros; assumption].
  revert w HR. induction IH as [|x t Hx _ IHt]; intros w HR; [exact HR|].
  apply rbind_RInv; [now apply Hx|]. intros x' w1 HR1. apply rbind_RInv; [now apply IHt|intros; assumption].
Qed.

Lemma register_set_RInv evs : forall w, RInv w -> RInv (res_world (register_set beh evs w)).
Proof.
  induction evs as [|[t tag] rest IH]; intros w HR; cbn [register_set]; [exact HR|].
  apply rbind_RInv.
  - destruct t; [now apply add_targeted_event_RInv|now apply add_global_event_RInv].
  - intros k w1 HR1. apply rbind_RInv; [now apply IH|intros; assumption].
Qed.

Lemma init_param_RInv p c w : RInv w -> RInv (res_world (init_param beh p c w)).
Proof.
  intros HR. destruct p; cbn [init_param].
  - apply rbind_RInv; [now apply add_global_event_RInv|intros; assumption].
  - apply rbind_RInv; [now apply add_targeted_event_RInv|]. intros k w1 HR1. apply rbind_RInv; [now apply resolve_query_RInv|intros; assumption].
  - apply rbind_RInv; [now apply resolve_query_RInv|intros; assumption].
  - apply rbind_RInv; [now apply register_set_RInv|intros; assumption].
Qed.
Lemma init_params_RInv ps : forall c w, RInv w -> RInv (res_world (init_params beh ps c w)).
Proof.
  induction ps as [|p t IH]; intros c w HR; cbn [init_params]; [exact HR|].
  apply rbind_RInv; [now apply init_param_RInv|]. intros c1 w1 HR1. now apply IH.
Qed.

Theorem add_handler_RInv sh w : RInv w -> RInv (res_world (add_handler beh sh w)).
Proof.
  intros HR. unfold add_handler. destruct (match sh_tid sh with Some t => alookup t (w_hby w) | None => None end); [exact HR|].
  apply rbind_RInv; [now apply init_params_RInv|]. intros c w1 HR1.
  destruct (cf_recv c) as [|rv|]; try exact HR1. destruct (cf_access c) as [acc|]; [|exact HR1].
  destruct (handler_conflicts (cf_cas c)); [|exact HR1].
  destruct (insert_with _ (w_hs w1)) as [[k hs]|]; [|exact HR1].
  apply rbind_RInv; [|intros; assumption]. apply send_global_RInv.
  match goal with |- RInv (archs_register_handler ?w2 k) => destruct (archs_register_handler_structure w2 k) as [Hs Hg]; apply (RInv_structure w2); [exact Hs|exact Hg|] end.
  exact HR1.
Qed.
End Ops2.

(* ---------- removing handlers and events ---------- *)
Lemma map_ashape_same (f : sentry -> sentry) l : (forall e, ashape (f e) = ashape e) -> map ashape (map f l) = map ashape l.
Proof. intros H. rewrite map_map. apply map_ext. exact H. Qed.

Lemma archs_remove_handler_structure w h : structure (archs_remove_handler w h) = structure w /\ w_gev (archs_remove_handler w h) = w_gev w.
Proof.
  unfold archs_remove_handler. split; [|reflexivity].
  unfold structure. cbn [w_ents w_comps w_archs w_aby set_archs sl_entries sl_next]. f_equal. f_equal. f_equal.
  apply map_ashape_same. intros [a|n]; reflexivity.
Qed.

Lemma gbi_remove {V} (m : smap V) k v m' i k' v' :
  sm_remove k m = Some (v, m') -> get_by_index m' i = Some (k', v') -> get_by_index m i = Some (k', v').
Proof.
  unfold sm_remove, get_by_index. destruct (sget (slots m) (fst k)) as [s|] eqn:Es; [|discriminate].
  destruct (gen s =? snd k); [|discriminate]. destruct (val s) as [v0|]; [|discriminate].
  destruct (wrap_succ (gen s) =? 0); intros H; inversion H; subst; clear H; cbn [slots];
    (destruct (N.eq_dec (fst k) i) as [<-|Hne];
      [erewrite sget_supd_eq by eauto; cbn [val]; discriminate|now rewrite sget_supd_neq by auto]).
Qed.

Section Ops3.
Variable beh : hinfo -> logent -> N -> script.

Theorem remove_handler_RInv k w : RInv w -> RInv (res_world (remove_handler beh k w)).
Proof.
  intros HR. unfold remove_handler. destruct (sm_get k (w_hs w)) as [h0|]; [|exact HR]. clear h0.
  apply rbind_RInv; [now apply send_global_RInv|]. intros [] w1 HR1.
  unfold handlers_remove. destruct (sm_remove k (w_hs w1)) as [[h1 hs]|]; [|exact HR1]. cbn [res_world].
  match goal with |- RInv (archs_remove_handler ?w2 h1) => destruct (archs_remove_handler_structure w2 h1) as [Hs Hg]; apply (RInv_structure w2); [exact Hs|exact Hg|] end.
  exact HR1.
Qed.
Lemma remove_handlers_RInv ks : forall w, RInv w -> RInv (res_world (remove_handlers beh ks w)).
Proof.
  induction ks as [|k t IH]; intros w HR; cbn [remove_handlers]; [exact HR|].
  apply rbind_RInv; [now apply remove_handler_RInv|]. intros b w1 HR1. now apply IH.
Qed.
Theorem remove_targeted_event_RInv k w : RInv w -> RInv (res_world (remove_targeted_event beh k w)).
Proof.
  intros HR. unfold remove_targeted_event. destruct (sm_get k (w_tev w)); [|exact HR].
  apply rbind_RInv; [now apply send_global_RInv|]. intros [] w1 HR1.
  apply rbind_RInv; [now apply remove_handlers_RInv|]. intros [] w2 HR2.
  destruct (sm_remove k (w_tev w2)) as [[info m]|]; [|exact HR2]. cbn [res_world].
  destruct (e_kind info); exact HR2.
Qed.
Theorem remove_global_event_RInv k w : RInv w -> RInv (res_world (remove_global_event beh k w)).
Proof.
  intros HR. unfold remove_global_event. destruct (sm_get k (w_gev w)); [|exact HR].
  apply rbind_RInv; [now apply send_global_RInv|]. intros [] w1 HR1.
  apply rbind_RInv; [now apply remove_handlers_RInv|]. intros [] w2 [HW2 HK2].
  destruct (sm_remove k (w_gev w2)) as [[info m]|] eqn:Er; [|split; assumption]. cbn [res_world].
  split; [exact HW2|]. intros i k' info' Hg. cbn [w_gev set_gev] in Hg. eapply HK2. eapply gbi_remove; eauto.
Qed.
Lemma remove_tevents_RInv ks : forall w, RInv w -> RInv (res_world (remove_tevents beh ks w)).
Proof.
  induction ks as [|k t IH]; intros w HR; cbn [remove_tevents]; [exact HR|].
  apply rbind_RInv; [now apply remove_targeted_event_RInv|]. intros b w1 HR1. now apply IH.
Qed.
End Ops3.

Lemma RInv_world0 fuel p : RInv (world0 fuel p).
Proof.
  split; [split; [apply StoreInv_world0|split]|].
  - unfold GraphInv, world0, arch_at, aby_lookup. cbn [w_archs w_aby]. split; [|split; [|split; [|split; [|split]]]].
    + exists []. split; [|constructor]. cbn [sl_entries sl_next]. change 1 with (nlen [SOcc empty_arch]). constructor.
    + intros ai a Ha. unfold slab_get in Ha. cbn [sl_entries nget] in Ha. destruct (ai =? 0) eqn:E; [|discriminate].
      apply N.eqb_eq in E. subst. inversion Ha; subst. reflexivity.
    + intros cs ai H. cbn in H. destruct cs; [|discriminate]. inversion H; subst. exists empty_arch. split; reflexivity.
    + intros ai a c d Ha Hl. unfold slab_get in Ha. cbn [sl_entries nget] in Ha. destruct (ai =? 0); [|discriminate]. inversion Ha; subst. discriminate.
    + intros ai a c d Ha Hl. unfold slab_get in Ha. cbn [sl_entries nget] in Ha. destruct (ai =? 0); [|discriminate]. inversion Ha; subst. discriminate.
    + intros ai a Ha. unfold slab_get in Ha. cbn [sl_entries nget] in Ha. destruct (ai =? 0); [|discriminate]. inversion Ha; subst. constructor.
  - reflexivity.
  - intros i k info H. discriminate.
Qed.

(* ---------- every world reachable through the top-level calls ---------- *)
(* the calls the differential driver makes on the extracted model (ocaml/driver.ml), except
   remove_component (whose archetype removal is covered separately) *)
Inductive top :=
| TSpawn | TInsert (e : key) (ktag : N) | TRemove (e : key) (ktag : N) | TDespawn (e : key)
| TSend (gtag : N) | TSendTo (e : key) (ttag : N)
| TAddHandler (sh : hshape) | TRemoveHandler (k : key)
| TAddComponent (tag : N) | TAddGlobal (tag : N) | TAddTargeted (tag : N)
| TRemoveGlobal (k : key) | TRemoveTargeted (k : key).

Definition run_top (beh : hinfo -> logent -> N -> script) (w : world) (o : top) : world :=
  match o with
  | TSpawn => res_world (op_spawn beh w)
  | TInsert e k => res_world (op_insert beh e k w)
  | TRemove e k => res_world (op_remove beh e k w)
  | TDespawn e => res_world (op_despawn beh e w)
  | TSend g => res_world (op_send beh g w)
  | TSendTo e t => res_world (op_send_to beh e t w)
  | TAddHandler sh => res_world (add_handler beh sh w)
  | TRemoveHandler k => res_world (remove_handler beh k w)
  | TAddComponent t => res_world (add_component beh t w)
  | TAddGlobal t => res_world (add_global_event beh RFUEL t w)
  | TAddTargeted t => res_world (add_targeted_event beh t w)
  | TRemoveGlobal k => res_world (remove_global_event beh k w)
  | TRemoveTargeted k => res_world (remove_targeted_event beh k w)
  end.

Lemma run_top_RInv beh w o : RInv w -> RInv (run_top beh w o).
Proof.
  intros HR. destruct o; cbn [run_top].
  - now apply op_spawn_RInv. - now apply op_insert_RInv. - now apply op_remove_RInv. - now apply op_despawn_RInv.
  - now apply op_send_RInv. - now apply op_send_to_RInv. - now apply add_handler_RInv. - now apply remove_handler_RInv.
  - now apply add_component_RInv. - now apply add_global_event_RInv. - now apply add_targeted_event_RInv.
  - now apply remove_global_event_RInv. - now apply remove_targeted_event_RInv.
Qed.

(* C17 / C02 / C12 on the model, for every handler behaviour, every sequence of calls (whether
   they succeed, panic in a handler or run out of slots), every fuel and panic schedule:
   the entity map and the archetype rows describe each other, every row has one value per
   column, the archetype graph / by_components / slab free list are consistent *)
Theorem reachable_RInv beh fuel p ops : RInv (fold_left (run_top beh) ops (world0 fuel p)).
Proof.
  apply fold_left_invariant; [apply RInv_world0|]. intros w o. apply run_top_RInv.
Qed.
