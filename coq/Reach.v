(* Reach.v : the storage invariant WInv (entity map <-> archetype rows, archetype graph, slab free
   list, by_components) is an invariant of event delivery, for every handler behaviour:
     - handler bodies keep the structure (WorldFrame.v), and WInv only looks at the structure;
     - each built-in effect keeps WInv (Effects.v);
     - hence one delivery, the unwinding, and the whole flush loop keep it;
   and while it holds no unchecked operation of the storage layer (archetype.rs, the FUB sites
   below 1000) can fail: the only failures a delivery can raise are panics and the registry
   look-ups of world.rs. *)
From Coq Require Import List NArith Bool Lia Sorted.
Import ListNotations.
Require Import EV.Base EV.ListN EV.Access EV.Query EV.SlotMap EV.Reserve EV.HList EV.Loop EV.World EV.SlotMapGet
  EV.ArchProofs EV.WorldFrame EV.Store EV.Graph EV.Effects.
Open Scope N_scope.

(* ---------- WInv only depends on the structure ---------- *)
Lemma nget_map {A B} (f : A -> B) l : forall i, nget (map f l) i = option_map f (nget l i).
Proof. induction l as [|h t IH]; intros i; cbn [map nget]; [reflexivity|]. destruct (i =? 0); [reflexivity|apply IH]. Qed.
Lemma nlen_map {A B} (f : A -> B) l : nlen (map f l) = nlen l.
Proof. unfold nlen. now rewrite map_length. Qed.

Section Shape.
Variables (l l' : list sentry).
Hypothesis Hsh : map ashape l' = map ashape l.

Lemma shape_nlen : nlen l' = nlen l.
Proof. rewrite <- (nlen_map ashape l'), Hsh. apply nlen_map. Qed.
Lemma shape_nget i : option_map ashape (nget l' i) = option_map ashape (nget l i).
Proof. rewrite <- !nget_map. now rewrite Hsh. Qed.
Lemma shape_vac i nx : nget l i = Some (SVac nx) -> nget l' i = Some (SVac nx).
Proof.
  intros H. pose proof (shape_nget i) as E. rewrite H in E. destruct (nget l' i) as [[a|n]|]; cbn in E; try discriminate.
  inversion E; subst. reflexivity.
Qed.
Lemma shape_occ i a : nget l i = Some (SOcc a) -> exists a', nget l' i = Some (SOcc a') /\ ashape (SOcc a') = ashape (SOcc a).
Proof.
  intros H. pose proof (shape_nget i) as E. rewrite H in E. destruct (nget l' i) as [[a'|n]|]; cbn [option_map] in E; try discriminate.
  exists a'. split; [reflexivity|]. exact (f_equal (fun o => match o with Some x => x | None => ashape (SOcc a) end) E).
Qed.
Lemma shape_schain h c : schain l h c -> schain l' h c.
Proof.
  induction 1 as [|i nx rest Hg _ IH]; [rewrite <- shape_nlen; constructor|].
  econstructor; [apply shape_vac; exact Hg|exact IH].
Qed.
End Shape.

Lemma rshape_nget rows rows' : map rshape rows' = map rshape rows -> forall row e vals, nget rows row = Some (e, vals) ->
  exists vals', nget rows' row = Some (e, vals') /\ length vals' = length vals.
Proof.
  intros Hm row e vals H. assert (E : option_map rshape (nget rows' row) = option_map rshape (nget rows row)) by (rewrite <- !nget_map; now rewrite Hm).
  rewrite H in E. destruct (nget rows' row) as [[e' v']|]; cbn in E; [|discriminate]. inversion E; subst. eauto.
Qed.

Lemma arch_at_structure w w' : structure w' = structure w -> forall ai a, arch_at w ai = Some a ->
  exists a', arch_at w' ai = Some a' /\ a_comps a' = a_comps a /\ map rshape (a_rows a') = map rshape (a_rows a) /\
             a_ins a' = a_ins a /\ a_rem a' = a_rem a.
Proof.
  unfold structure. intros H ai a Ha. inversion H as [[He Hc Hsh Hn Hb]]. unfold arch_at, slab_get in *.
  destruct (nget (sl_entries (w_archs w)) ai) as [[a0|]|] eqn:Hg; try discriminate. inversion Ha; subst a0.
  destruct (shape_occ _ _ Hsh _ _ Hg) as (a' & Hg' & Es). rewrite Hg'. exists a'. split; [reflexivity|].
  cbn [ashape] in Es. inversion Es. auto.
Qed.

Theorem WInv_structure w w' : structure w' = structure w -> WInv w -> WInv w'.
Proof.
  intros H (Hst & Hg & H0). pose proof H as H'. unfold structure in H'. inversion H' as [[He Hc Hsh Hn Hb]].
  assert (Hfw := arch_at_structure w w' H). assert (Hbw := arch_at_structure w' w (eq_sym H)).
  split; [|split].
  - destruct Hst as (Hsm & Hl & Hr). unfold StoreInv. rewrite He. split; [exact Hsm|]. split.
    + intros e ai row Hge. destruct (Hl _ _ _ Hge) as (a & vals & Ha & Hn'). destruct (Hfw _ _ Ha) as (a' & Ha' & Hc' & Hr' & _).
      destruct (rshape_nget _ _ Hr' _ _ _ Hn') as (vals' & Hn'' & _). eauto.
    + intros ai a' row e vals' Ha' Hn'. destruct (Hbw _ _ Ha') as (a & Ha & Hc' & Hr' & _).
      destruct (rshape_nget _ _ Hr' _ _ _ Hn') as (vals & Hn'' & Hlen). destruct (Hr _ _ _ _ _ Ha Hn'') as [X Y]. split; [exact X|]. congruence.
  - destruct Hg as (Hs & Hb1 & Hb2 & Hi & Hr & Hso). unfold GraphInv. split; [|split; [|split; [|split; [|split]]]].
    + destruct Hs as (c & Hch & Hnd). exists c. split; [|exact Hnd]. rewrite Hn. eapply shape_schain; eauto.
    + intros ai a' Ha'. destruct (Hbw _ _ Ha') as (a & Ha & Hc' & _). unfold aby_lookup. rewrite Hb, <- Hc'. exact (Hb1 _ _ Ha).
    + intros cs ai Hl. unfold aby_lookup in Hl. rewrite Hb in Hl. destruct (Hb2 _ _ Hl) as (a & Ha & Hcs).
      destruct (Hfw _ _ Ha) as (a' & Ha' & Hc' & _). exists a'. split; [exact Ha'|congruence].
    + intros ai a' c d Ha' Hl. destruct (Hbw _ _ Ha') as (a & Ha & Hc' & _ & Hi' & _). rewrite <- Hi' in Hl.
      destruct (Hi _ _ _ _ Ha Hl) as (Hn' & b & Hb' & Hcb). rewrite <- Hc'. split; [exact Hn'|].
      destruct (Hfw _ _ Hb') as (b' & Hb'' & Hcb' & _). exists b'. split; [exact Hb''|congruence].
    + intros ai a' c d Ha' Hl. destruct (Hbw _ _ Ha') as (a & Ha & Hc' & _ & _ & Hr''). rewrite <- Hr'' in Hl.
      destruct (Hr _ _ _ _ Ha Hl) as (Hn' & b & Hb' & Hcb). rewrite <- Hc'. split; [exact Hn'|].
      destruct (Hfw _ _ Hb') as (b' & Hb'' & Hcb' & _). exists b'. split; [exact Hb''|congruence].
    + intros ai a' Ha'. destruct (Hbw _ _ Ha') as (a & Ha & Hc' & _). rewrite <- Hc'. eauto.
  - unfold aby_lookup in *. now rewrite Hb.
Qed.

(* ---------- the built-in effects keep WInv and cannot hit an unchecked failure ---------- *)
Definition targeted_kind (k : ekind) : bool := match k with KInsert _ | KRemove _ | KDespawn => true | _ => false end.

Theorem builtin_effect_ok kind ev loc w e :
  WInv w -> (targeted_kind kind = true -> sm_get e (w_ents w) = Some loc) ->
  match builtin_effect kind ev loc w with
  | ROk _ w' => WInv w'
  | RFail f w' => f = FPanic 5 /\ WInv w'
  end.
Proof.
  intros HW Hloc. pose proof HW as (Hst & Hg & H0). destruct kind as [|c|c| |]; cbn [builtin_effect].
  - exact HW.
  - destruct loc as [sai srow]. cbn [fst]. specialize (Hloc eq_refl).
    destruct (insert_effect_ok w e sai srow c (ev_ser ev, ev_val ev) Hst Hg Hloc) as (w' & E & Hst' & Hg' & _ & _ & _ & Hmono).
    unfold cval in E. rewrite E.
    split; [exact Hst'|split; [exact Hg'|now apply Hmono]].
  - destruct loc as [sai srow]. cbn [fst]. specialize (Hloc eq_refl).
    destruct (remove_effect_ok w e sai srow c Hst Hg Hloc) as (w' & -> & Hst' & Hg' & _ & _ & _ & Hmono).
    split; [exact Hst'|split; [exact Hg'|now apply Hmono]].
  - pose proof (spawn_all_ok w HW) as H. destruct (spawn_all w) as [[] w'|f w']; [exact (proj1 H)|]. destruct H as [-> H]. split; [reflexivity|exact (proj1 H)].
  - pose proof (despawn_effect_ok w e loc HW (Hloc eq_refl)) as H.
    destruct (do (_, w2) <- spawn_all w; do (_, w3) <- remove_entity w2 loc; ROk tt (refresh_cursor w3)) as [[] w'|f w'].
    + exact (proj1 H).
    + destruct H as [-> H]. split; [reflexivity|exact (proj1 H)].
Qed.

(* global events never carry a targeted built-in meaning *)
Definition GevKinds (w : world) : Prop :=
  forall i k info, get_by_index (w_gev w) i = Some (k, info) -> targeted_kind (e_kind info) = false.
Lemma GevKinds_registries w w' : registries w' = registries w -> GevKinds w -> GevKinds w'.
Proof. unfold registries, GevKinds. intros H HK i k info. assert (E : w_gev w' = w_gev w) by now inversion H. rewrite E. apply HK. Qed.

Section WithBeh.
Variable beh : hinfo -> logent -> N -> script.

Lemma structure_ents w w' : structure w' = structure w -> w_ents w' = w_ents w.
Proof. unfold structure. intros H. now inversion H. Qed.

Theorem deliver_one_WInv it w : WInv w -> GevKinds w -> WInv (snd (fst (deliver_one beh it w))).
Proof.
  intros HW HK. unfold deliver_one.
  assert (Hfin : forall tag kind hl loc,
            (targeted_kind kind = true -> sm_get (qi_target it) (w_ents w) = Some loc) ->
            WInv (snd (fst (let '(w1, ev, sent, taken, fl) := run_handlers beh hl w it tag loc [] in
              match fl with
              | Some f => (sent, (if taken then w1 else ev_drop w1 (qi_targeted it) tag ev), Some f)
              | None => if taken then (sent, w1, None) else
                  match kind with
                  | KNormal => (sent, ev_drop w1 (qi_targeted it) tag ev, None)
                  | _ => let '(w3, f) := fail_of (builtin_effect kind ev loc w1) in (sent, w3, f)
                  end
              end)))).
  { intros tag kind hl loc Hloc. pose proof (handlers_preserve_structure beh hl w it tag loc []) as Hs.
    destruct (run_handlers beh hl w it tag loc []) as [[[[w1 ev] sent] taken] fl]. cbn [fst] in Hs.
    assert (HW1 : WInv w1) by (eapply WInv_structure; eauto).
    assert (HWd : forall t tg e0, WInv (ev_drop w1 t tg e0)) by (intros; eapply WInv_structure; [apply s_ev_drop|exact HW1]).
    destruct fl as [f|]; [cbn [fst snd]; destruct taken; auto|].
    destruct taken; [exact HW1|].
    assert (Heff : WInv (fst (fail_of (builtin_effect kind ev loc w1)))).
    { pose proof (builtin_effect_ok kind ev loc w1 (qi_target it) HW1) as H. rewrite (structure_ents _ _ Hs) in H. specialize (H Hloc).
      destruct (builtin_effect kind ev loc w1) as [[] w'|f w']; cbn [fail_of fst]; [exact H|exact (proj2 H)]. }
    destruct kind; try (destruct (fail_of _) as [w3 f]; exact Heff). cbn [fst snd]. apply HWd. }
  destruct (qi_targeted it).
  - destruct (get_by_index (w_tev w) (qi_idx it)) as [[k info]|]; [|exact HW].
    destruct (sm_get (qi_target it) (w_ents w)) as [loc|] eqn:Hl; [|cbn [fst snd]; eapply WInv_structure; [apply s_ev_drop|exact HW]].
    destruct (slab_get (w_archs w) (fst loc)); [|exact HW]. apply Hfin. auto.
  - destruct (get_by_index (w_gev w) (qi_idx it)) as [[k info]|] eqn:Hg; [|exact HW].
    destruct (nget (w_glists w) (qi_idx it)); [|exact HW]. apply Hfin. intros X. rewrite (HK _ _ _ Hg) in X. discriminate.
Qed.

Theorem flush_WInv n q w tr s' oc :
  Loop.flush wst qitem (run_w beh) unwind_w n q (w, None) [] = Some (tr, s', oc) ->
  WInv w -> GevKinds w -> WInv (fst s') /\ GevKinds (fst s').
Proof.
  intros H HW HK.
  apply (flush_invariant wst qitem (run_w beh) unwind_w (fun s : wst => WInv (fst s) /\ GevKinds (fst s))) with (n := n) (q := q) (st := (w, None)) (acc := []) (tr := tr) (oc := oc); [| |exact H|split; assumption].
  - intros e st [H1 H2]. unfold run_w. pose proof (deliver_one_WInv e (fst st) H1 H2) as Hd.
    pose proof (deliver_one_keeps_registries beh e (fst st)) as Hr.
    destruct (deliver_one beh e (fst st)) as [[sent w1] fl]. cbn [fst snd] in *. split; [exact Hd|eapply GevKinds_registries; eauto].
  - intros q0 st [H1 H2]. unfold unwind_w. destruct (snd st) as [[k|s]|]; try (split; assumption). cbn [fst].
    assert (HWu : WInv (unwind_queue q0 (fst st))).
    { eapply WInv_structure; [|exact H1]. unfold unwind_queue. apply (fold_left_pres structure). intros. apply s_ev_drop. }
    assert (HKu : GevKinds (unwind_queue q0 (fst st))) by (eapply GevKinds_registries; [apply unwind_queue_keeps_registries|exact H2]).
    pose proof (spawn_all_ok _ HWu) as Hs. pose proof (spawn_all_keeps_registries (unwind_queue q0 (fst st))) as Hr.
    destruct (spawn_all (unwind_queue q0 (fst st))) as [[] w3|f w3]; cbn [res_world] in Hr.
    + split; [exact (proj1 Hs)|eapply GevKinds_registries; eauto].
    + split; [exact (proj1 (proj2 Hs))|eapply GevKinds_registries; eauto].
Qed.
End WithBeh.
