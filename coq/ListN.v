(* ListN.v : lemmas about the N-indexed list operations of Base.v (Vec::push, swap_remove,
   indexing, in-place update) used by the storage invariants. *)
From Coq Require Import List NArith Bool Lia.
Import ListNotations.
Require Import EV.Base.
Open Scope N_scope.

Section L.
Context {A : Type}.
Implicit Types (l : list A) (i j : N) (x y : A).

Lemma nlen_nil : nlen (@nil A) = 0. Proof. reflexivity. Qed.
Lemma nlen_cons x l : nlen (x :: l) = nlen l + 1. Proof. unfold nlen. cbn [length]. lia. Qed.
Lemma nlen_app l1 l2 : nlen (l1 ++ l2) = nlen l1 + nlen l2. Proof. unfold nlen. rewrite app_length. lia. Qed.

Lemma nget_nil i : nget (@nil A) i = None. Proof. reflexivity. Qed.
Lemma nget_cons_0 x l : nget (x :: l) 0 = Some x. Proof. reflexivity. Qed.
Lemma nget_cons_S x l i : i <> 0 -> nget (x :: l) i = nget l (N.pred i).
Proof. intros H. cbn [nget]. now replace (i =? 0) with false by (symmetry; apply N.eqb_neq; exact H). Qed.
Lemma nget_cons_succ x l i : nget (x :: l) (i + 1) = nget l i.
Proof. rewrite nget_cons_S by lia. f_equal. lia. Qed.

Lemma nget_some_lt l : forall i x, nget l i = Some x -> i < nlen l.
Proof.
  induction l as [|h t IH]; intros i x H; [discriminate|]. rewrite nlen_cons. cbn [nget] in H.
  destruct (i =? 0) eqn:E; [apply N.eqb_eq in E; lia|]. apply IH in H. apply N.eqb_neq in E. lia.
Qed.
Lemma nget_lt_some l : forall i, i < nlen l -> exists x, nget l i = Some x.
Proof.
  induction l as [|h t IH]; intros i H; [rewrite nlen_nil in H; lia|]. rewrite nlen_cons in H. cbn [nget].
  destruct (i =? 0) eqn:E; [eauto|]. apply N.eqb_neq in E. apply IH. lia.
Qed.
Lemma nget_none_ge l i : nget l i = None -> nlen l <= i.
Proof. intros H. destruct (N.lt_ge_cases i (nlen l)) as [L|G]; [|exact G]. destruct (nget_lt_some l i L) as [x Hx]. congruence. Qed.
Lemma nget_ge_none l : forall i, nlen l <= i -> nget l i = None.
Proof. intros i H. destruct (nget l i) eqn:E; [|reflexivity]. apply nget_some_lt in E. lia. Qed.

Lemma nget_app_l l1 l2 i : i < nlen l1 -> nget (l1 ++ l2) i = nget l1 i.
Proof.
  revert i. induction l1 as [|h t IH]; intros i H; [rewrite nlen_nil in H; lia|]. rewrite nlen_cons in H. cbn [app nget].
  destruct (i =? 0) eqn:E; [reflexivity|]. apply N.eqb_neq in E. apply IH. lia.
Qed.
Lemma nget_app_r l1 l2 i : nlen l1 <= i -> nget (l1 ++ l2) i = nget l2 (i - nlen l1).
Proof.
  revert i. induction l1 as [|h t IH]; intros i H; [rewrite nlen_nil, N.sub_0_r; reflexivity|]. rewrite nlen_cons in *. cbn [app nget].
  replace (i =? 0) with false by (symmetry; apply N.eqb_neq; lia). rewrite IH by lia. f_equal. lia.
Qed.
Lemma nget_snoc_last l x : nget (l ++ [x]) (nlen l) = Some x.
Proof. rewrite nget_app_r by lia. now rewrite N.sub_diag. Qed.
Lemma nget_in l i x : nget l i = Some x -> In x l.
Proof.
  revert i. induction l as [|h t IH]; intros i H; [discriminate|]. cbn [nget] in H.
  destruct (i =? 0); [inversion H; now left|right; eauto].
Qed.
Lemma in_nget l x : In x l -> exists i, nget l i = Some x.
Proof.
  induction l as [|h t IH]; intros H; [destruct H|]. destruct H as [->|H]; [exists 0; reflexivity|].
  destruct (IH H) as [i Hi]. exists (i + 1). now rewrite nget_cons_succ.
Qed.

Lemma nlen_nset l : forall i x, nlen (nset l i x) = nlen l.
Proof.
  induction l as [|h t IH]; intros i x; [reflexivity|]. cbn [nset]. destruct (i =? 0); rewrite !nlen_cons; [reflexivity|now rewrite IH].
Qed.
Lemma nget_nset_eq l : forall i x, i < nlen l -> nget (nset l i x) i = Some x.
Proof.
  induction l as [|h t IH]; intros i x H; [rewrite nlen_nil in H; lia|]. rewrite nlen_cons in H. cbn [nset].
  destruct (i =? 0) eqn:E; cbn [nget]; rewrite E; try reflexivity. apply N.eqb_neq in E. apply IH. lia.
Qed.
Lemma nget_nset_neq l : forall i j x, i <> j -> nget (nset l i x) j = nget l j.
Proof.
  induction l as [|h t IH]; intros i j x H; [reflexivity|]. cbn [nset].
  destruct (i =? 0) eqn:E; cbn [nget]; destruct (j =? 0) eqn:F; try reflexivity.
  - apply N.eqb_eq in E, F. lia.
  - apply N.eqb_neq in E, F. apply IH. lia.
Qed.

Lemma removelast_snoc l x : removelast (l ++ [x]) = l. Proof. apply removelast_last. Qed.
Lemma nlen_removelast l : l <> [] -> nlen (removelast l) + 1 = nlen l.
Proof.
  intros H. destruct (exists_last H) as (l' & x & ->). rewrite removelast_snoc, nlen_app. reflexivity.
Qed.

(* swap_remove on a list written as  l ++ [last] *)
Lemma swap_remove_snoc l x i : swap_remove (l ++ [x]) i = if i =? nlen l then l else nset l i x.
Proof.
  unfold swap_remove. rewrite rev_app_distr. cbn [rev app]. rewrite removelast_snoc, nlen_app.
  replace (nlen l + nlen [x] - 1) with (nlen l) by (unfold nlen; cbn [length]; lia). reflexivity.
Qed.
Lemma swap_remove_nil i : swap_remove (@nil A) i = []. Proof. reflexivity. Qed.

Lemma nlen_swap_remove l i : i < nlen l -> nlen (swap_remove l i) + 1 = nlen l.
Proof.
  intros H. destruct l as [|h t] using rev_ind; [rewrite nlen_nil in H; lia|]. clear IHt.
  rewrite swap_remove_snoc, nlen_app. destruct (i =? nlen t) eqn:E; [reflexivity|]. now rewrite nlen_nset.
Qed.

(* what is at position j after swap_remove i *)
Lemma nget_swap_remove l x i j : i <= nlen l ->
  nget (swap_remove (l ++ [x]) i) j =
    if j =? i then (if i =? nlen l then None else Some x)
    else if j <? nlen l then nget l j else None.
Proof.
  intros Hi. rewrite swap_remove_snoc. destruct (i =? nlen l) eqn:E.
  - apply N.eqb_eq in E. subst i. destruct (j =? nlen l) eqn:F.
    + apply N.eqb_eq in F. subst j. apply nget_ge_none. lia.
    + destruct (j <? nlen l) eqn:G; [reflexivity|]. apply N.ltb_ge in G. now apply nget_ge_none.
  - apply N.eqb_neq in E. destruct (j =? i) eqn:F.
    + apply N.eqb_eq in F. subst j. apply nget_nset_eq. lia.
    + apply N.eqb_neq in F. rewrite nget_nset_neq by lia. destruct (j <? nlen l) eqn:G; [reflexivity|].
      apply N.ltb_ge in G. now apply nget_ge_none.
Qed.
End L.

(* association lists *)
Lemma alookup_in {V} k (v : V) l : alookup k l = Some v -> In (k, v) l.
Proof.
  induction l as [|[k' v'] t IH]; cbn; [discriminate|]. destruct (k =? k') eqn:E; [|auto].
  apply N.eqb_eq in E. subst. intros H. inversion H. now left.
Qed.
