(* Effects.v : the built-in effect of Insert on the world model, end to end (C02, C09, C17):
   on a world whose storage and archetype graph are consistent, applying Insert<C>(v) to a live
   entity never fails, keeps both invariants, makes the entity's C read back v, and changes no
   other component of that entity and no component of any other entity. *)
From Coq Require Import List NArith Bool Lia Sorted Permutation.
Import ListNotations.
Require Import EV.Base EV.ListN EV.Access EV.Query EV.SlotMap EV.Reserve EV.HList EV.Loop EV.World EV.SlotMapGet EV.ArchProofs EV.Store EV.Graph.
Open Scope N_scope.

(* ---------- reading a row by component ---------- *)
Lemma row_col_alookup a vals c : row_col a vals c = alookup c (combine (a_comps a) vals).
Proof.
  unfold row_col. generalize (a_comps a) as cs. intros cs. revert vals. induction cs as [|h t IH]; intros vals; cbn [col_index combine alookup].
  - reflexivity.
  - destruct vals as [|v vs]; cbn [combine alookup].
    + destruct (c =? h); [reflexivity|]. destruct (col_index t c); reflexivity.
    + destruct (c =? h) eqn:E; [reflexivity|]. specialize (IH vs). destruct (col_index t c) as [i|]; cbn [option_map] in *.
      * rewrite nget_cons_S by lia. now rewrite N.pred_succ.
      * exact IH.
Qed.

(* the column walk for an insertion computes the map update *)
Lemma merge_row_insert_spec : forall sc sv c v fuel,
  length sv = length sc -> ~ In c sc -> (length sc + length sc + 1 < fuel)%nat ->
  exists dvals, merge_row fuel sc sv (sorted_insert c sc) (Some (c, v)) = Some (dvals, []) /\
    forall c', alookup c' (combine (sorted_insert c sc) dvals) = if c' =? c then Some v else alookup c' (combine sc sv).
Proof.
  induction sc as [|s sc IH]; intros sv c v fuel Hlen Hnin Hf; (destruct fuel as [|f]; [lia|]); destruct sv as [|v0 sv]; try discriminate; cbn [sorted_insert].
  - cbn [merge_row]. rewrite N.eqb_refl. destruct f; [cbn in Hf; lia|]. cbn [merge_row]. exists [v]. split; [reflexivity|].
    intros c'. cbn. now destruct (c' =? c).
  - cbn in Hlen, Hf. assert (Hsc : s <> c) by (intros ->; apply Hnin; now left). destruct (c <? s) eqn:Ecs.
    + cbn [merge_row]. apply N.ltb_lt in Ecs.
      assert ((s <? c) = false) as -> by (apply N.ltb_ge; lia).
      assert ((s =? c) = false) as -> by (apply N.eqb_neq; lia). rewrite N.eqb_refl.
      rewrite (merge_row_same (s :: sc) (v0 :: sv)) by (cbn; lia). exists (v :: v0 :: sv). split; [reflexivity|].
      intros c'. cbn [combine alookup]. destruct (c' =? c); reflexivity.
    + cbn [merge_row]. rewrite N.ltb_irrefl, N.eqb_refl.
      assert (Hn : ~ In c sc) by (intros X; apply Hnin; now right).
      destruct (IH sv c v f ltac:(lia) Hn ltac:(lia)) as (dvals & E & Hspec). rewrite E. exists (v0 :: dvals). split; [reflexivity|].
      intros c'. cbn [combine alookup]. destruct (c' =? s) eqn:E1.
      * apply N.eqb_eq in E1. subst c'. now replace (s =? c) with false by (symmetry; now apply N.eqb_neq).
      * apply Hspec.
Qed.

(* ---------- the graph invariant only looks at components and transitions ---------- *)
Definition same_graph (a b : arch) : Prop := a_comps a = a_comps b /\ a_ins a = a_ins b /\ a_rem a = a_rem b.
Lemma GraphInv_set w i a a' : GraphInv w -> arch_at w i = Some a -> same_graph a' a ->
  GraphInv (set_archs w (slab_set (w_archs w) i a')).
Proof.
  intros (Hs & Hb1 & Hb2 & Hi & Hr & Hso) Ha (Hc & Hin & Hre).
  assert (Hat : forall j, arch_at (set_archs w (slab_set (w_archs w) i a')) j = if j =? i then Some a' else arch_at w j).
  { intros j. unfold arch_at. cbn [w_archs set_archs]. destruct (j =? i) eqn:E.
    - apply N.eqb_eq in E. subst j. eapply slab_get_set_eq; eauto.
    - apply N.eqb_neq in E. now rewrite slab_get_set_neq by auto. }
  assert (Hfw : forall j b, arch_at (set_archs w (slab_set (w_archs w) i a')) j = Some b -> exists b0, arch_at w j = Some b0 /\ same_graph b b0).
  { intros j b Hj. rewrite Hat in Hj. destruct (j =? i) eqn:E.
    - apply N.eqb_eq in E. subst j. inversion Hj; subst b. exists a. split; [exact Ha|repeat split; assumption].
    - exists b. split; [exact Hj|repeat split]. }
  assert (Hbw : forall j b0, arch_at w j = Some b0 -> exists b, arch_at (set_archs w (slab_set (w_archs w) i a')) j = Some b /\ a_comps b = a_comps b0).
  { intros j b0 Hj. rewrite Hat. destruct (j =? i) eqn:E.
    - apply N.eqb_eq in E. subst j. rewrite Ha in Hj. inversion Hj; subst. eauto.
    - eauto. }
  unfold GraphInv. split; [cbn [w_archs set_archs]; eapply slab_set_inv; eauto|]. split; [|split; [|split; [|split]]].
  - intros ai b Hb. destruct (Hfw _ _ Hb) as (b0 & Hb0 & (C & _)). rewrite C. exact (Hb1 _ _ Hb0).
  - intros cs ai Hl. destruct (Hb2 cs ai Hl) as (b0 & Hb0 & C0). destruct (Hbw _ _ Hb0) as (b & Hb & C). exists b. split; [exact Hb|congruence].
  - intros ai b c d Hb He. destruct (Hfw _ _ Hb) as (b0 & Hb0 & (C & I & R)). rewrite I in He. destruct (Hi _ _ _ _ Hb0 He) as (Hn & b1 & Hb1' & C1).
    rewrite C. split; [exact Hn|]. destruct (Hbw _ _ Hb1') as (b2 & Hb2' & C2). exists b2. split; [exact Hb2'|congruence].
  - intros ai b c d Hb He. destruct (Hfw _ _ Hb) as (b0 & Hb0 & (C & I & R)). rewrite R in He. destruct (Hr _ _ _ _ Hb0 He) as (Hn & b1 & Hb1' & C1).
    rewrite C. split; [exact Hn|]. destruct (Hbw _ _ Hb1') as (b2 & Hb2' & C2). exists b2. split; [exact Hb2'|congruence].
  - intros ai b Hb. destruct (Hfw _ _ Hb) as (b0 & Hb0 & (C & _)). rewrite C. eauto.
Qed.

(* ---------- overwriting a component the entity already has (archetype.rs:363-376) ---------- *)
Theorem overwrite_ok w sai srow sa e vals c v ci old :
  StoreInv w -> arch_at w sai = Some sa -> nget (a_rows sa) srow = Some (e, vals) ->
  col_index (a_comps sa) c = Some ci -> nget vals ci = Some old ->
  exists w', move_entity w (sai, srow) sai (Some (c, v)) = ROk tt w' /\ StoreInv w' /\
             w_aby w' = w_aby w /\ w_archs w' = slab_set (w_archs w) sai (set_rows sa (nset (a_rows sa) srow (e, nset vals ci v))) /\
             (forall k c', k <> e -> abs w' k c' = abs w k c') /\
             abs w' e c = Some v /\ (forall c', c' <> c -> abs w' e c' = abs w e c').
Proof.
  intros Hinv Ha Hrow Hci Hold. pose proof Hinv as (Hsm & Hl & Hr).
  unfold move_entity. unfold arch_at in Ha. rewrite Ha, N.eqb_refl, Hrow, Hci, Hold.
  set (w1 := drop_cval w (comp_tag w c) old).
  assert (E1 : w_ents w1 = w_ents w) by (unfold w1, drop_cval; now destruct (ctag_has_drop _)).
  assert (A1 : w_archs w1 = w_archs w) by (unfold w1, drop_cval; now destruct (ctag_has_drop _)).
  assert (B1 : w_aby w1 = w_aby w) by (unfold w1, drop_cval; now destruct (ctag_has_drop _)).
  set (sa' := set_rows sa (nset (a_rows sa) srow (e, nset vals ci v))).
  eexists. split; [reflexivity|]. rewrite A1.
  set (wf := set_archs w1 (slab_set (w_archs w) sai sa')).
  assert (Hrl : srow < nlen (a_rows sa)) by (eapply nget_some_lt; eauto).
  assert (Hcil : ci < nlen vals) by (eapply nget_some_lt; eauto).
  assert (Hat : forall j, arch_at wf j = if j =? sai then Some sa' else arch_at w j).
  { intros j. unfold arch_at, wf. cbn [w_archs set_archs]. destruct (j =? sai) eqn:E.
    - apply N.eqb_eq in E. subst j. eapply slab_get_set_eq; eauto.
    - apply N.eqb_neq in E. now rewrite slab_get_set_neq by auto. }
  assert (Hrows' : forall j, nget (a_rows sa') j = if j =? srow then Some (e, nset vals ci v) else nget (a_rows sa) j).
  { intros j. unfold sa'. cbn [a_rows set_rows]. destruct (j =? srow) eqn:E.
    - apply N.eqb_eq in E. subst j. now apply nget_nset_eq.
    - apply N.eqb_neq in E. now rewrite nget_nset_neq by auto. }
  assert (Hlenv : length (nset vals ci v) = length vals).
  { pose proof (nlen_nset vals ci v) as X. unfold nlen in X. lia. }
  assert (Hinvf : StoreInv wf).
  { unfold StoreInv. split; [unfold wf; cbn [w_ents set_archs]; now rewrite E1|]. split.
    - intros k aj rj Hk. unfold wf in Hk. cbn [w_ents set_archs] in Hk. rewrite E1 in Hk. destruct (Hl _ _ _ Hk) as (b & vb & Hb & Hnb).
      rewrite Hat. destruct (aj =? sai) eqn:E.
      + apply N.eqb_eq in E. subst aj. unfold arch_at in Hb. rewrite Ha in Hb. inversion Hb; subst b.
        destruct (rj =? srow) eqn:E2.
        * apply N.eqb_eq in E2. subst rj. rewrite Hrow in Hnb. injection Hnb as <- <-. exists sa', (nset vals ci v). split; [reflexivity|].
          now rewrite Hrows', N.eqb_refl.
        * exists sa', vb. split; [reflexivity|]. now rewrite Hrows', E2.
      + eauto.
    - intros aj b rj k vk Hb Hnk. unfold wf. cbn [w_ents set_archs]. rewrite E1. rewrite Hat in Hb. destruct (aj =? sai) eqn:E.
      + apply N.eqb_eq in E. subst aj. inversion Hb; subst b. rewrite Hrows' in Hnk. destruct (rj =? srow) eqn:E2.
        * apply N.eqb_eq in E2. subst rj. inversion Hnk; subst k vk. destruct (Hr _ _ _ _ _ Ha Hrow) as [Hg Hlen]. split; [exact Hg|].
          unfold sa'. cbn [a_comps set_rows]. congruence.
        * destruct (Hr _ _ _ _ _ Ha Hnk) as [Hg Hlen]. split; [exact Hg|exact Hlen].
      + eauto. }
  split; [exact Hinvf|]. split; [unfold wf; cbn [w_aby set_archs]; exact B1|]. split; [reflexivity|].
  assert (Hge : sm_get e (w_ents w) = Some (sai, srow)) by exact (proj1 (Hr _ _ _ _ _ Ha Hrow)).
  assert (Habs_e : forall c', abs wf e c' = row_col sa (nset vals ci v) c').
  { intros c'. rewrite (abs_of_row wf sai sa' srow e (nset vals ci v) c' Hinvf); [reflexivity|rewrite Hat, N.eqb_refl; reflexivity|rewrite Hrows', N.eqb_refl; reflexivity]. }
  split; [|split].
  - intros k c' Hke. unfold abs. unfold wf at 1. cbn [w_ents set_archs]. rewrite E1.
    destruct (sm_get k (w_ents w)) as [[aj rj]|] eqn:Hgk; [|reflexivity]. rewrite Hat. destruct (aj =? sai) eqn:E; [|reflexivity].
    apply N.eqb_eq in E. subst aj. unfold arch_at. rewrite Ha, Hrows'. destruct (rj =? srow) eqn:E2; [|reflexivity].
    apply N.eqb_eq in E2. subst rj. exfalso. destruct (Hl _ _ _ Hgk) as (b & vb & Hb & Hnb). unfold arch_at in Hb. rewrite Ha in Hb. inversion Hb; subst b.
    rewrite Hrow in Hnb. inversion Hnb. now apply Hke.
  - rewrite Habs_e. unfold row_col. rewrite Hci. now apply nget_nset_eq.
  - intros c' Hne. rewrite Habs_e. rewrite (abs_of_row w sai sa srow e vals c' Hinv Ha Hrow). unfold row_col.
    destruct (col_index (a_comps sa) c') as [i|] eqn:Ei; [|reflexivity]. apply nget_nset_neq.
    intros Heq. subst i. (* two components with the same column index are the same component *)
    clear -Hci Ei Hne. revert ci Hci Ei. induction (a_comps sa) as [|h t IH]; intros ci Hci Ei; [discriminate|]. cbn in *.
    destruct (c =? h) eqn:E1, (c' =? h) eqn:E2.
    + apply N.eqb_eq in E1, E2. congruence.
    + inversion Hci; subst. destruct (col_index t c'); [cbn in Ei; inversion Ei; lia|discriminate].
    + inversion Ei; subst. destruct (col_index t c); [cbn in Hci; inversion Hci; lia|discriminate].
    + destruct (col_index t c) as [x|] eqn:X, (col_index t c') as [y|] eqn:Y; try discriminate. cbn in *. inversion Hci; inversion Ei; subst.
      apply (IH x eq_refl). f_equal. lia.
Qed.

Lemma col_index_in cs c : In c cs -> exists i, col_index cs c = Some i /\ i < nlen cs.
Proof.
  induction cs as [|h t IH]; intros H; [destruct H|]. cbn [col_index]. destruct (c =? h) eqn:E.
  - exists 0. split; [reflexivity|]. rewrite nlen_cons. lia.
  - destruct H as [->|H]; [rewrite N.eqb_refl in E; discriminate|]. destruct (IH H) as (i & -> & Hl). exists (N.succ i). split; [reflexivity|].
    rewrite nlen_cons. lia.
Qed.

(* the two archetypes touched by a move keep their components and transitions *)
Lemma GraphInv_move w sai dst sa da sa' da' w' :
  GraphInv w -> arch_at w sai = Some sa -> arch_at w dst = Some da -> sai <> dst ->
  same_graph sa' sa -> same_graph da' da ->
  w_archs w' = slab_set (slab_set (w_archs w) sai sa') dst da' -> w_aby w' = w_aby w -> GraphInv w'.
Proof.
  intros Hg Hsa Hda Hne Gs Gd Harchs Haby.
  pose proof (GraphInv_set w sai sa sa' Hg Hsa Gs) as H1.
  assert (Hda1 : arch_at (set_archs w (slab_set (w_archs w) sai sa')) dst = Some da).
  { unfold arch_at. cbn [w_archs set_archs]. rewrite slab_get_set_neq by exact Hne. exact Hda. }
  pose proof (GraphInv_set _ dst da da' H1 Hda1 Gd) as H2. cbn [w_archs set_archs] in H2.
  eapply GraphInv_ext; [| |exact H2]; cbn [w_archs w_aby set_archs]; assumption.
Qed.

(* C02 / C09 / C17 / C01: the built-in effect of Insert on a live entity *)
Theorem insert_effect_ok w e sai srow c v :
  StoreInv w -> GraphInv w -> sm_get e (w_ents w) = Some (sai, srow) ->
  exists w', (do (d, w2) <- traverse_insert w sai c; move_entity w2 (sai, srow) d (Some (c, v))) = ROk tt w' /\
    StoreInv w' /\ GraphInv w' /\
    abs w' e c = Some v /\ (forall c', c' <> c -> abs w' e c' = abs w e c') /\
    (forall k c', k <> e -> abs w' k c' = abs w k c') /\
    (forall cs ai, aby_lookup w cs = Some ai -> aby_lookup w' cs = Some ai).
Proof.
  intros Hst Hg Hge. pose proof Hst as (_ & Hl & Hr). destruct (Hl _ _ _ Hge) as (sa & vals & Hsa & Hrow).
  destruct (Hr _ _ _ _ _ Hsa Hrow) as [_ Hvlen].
  destruct (traverse_insert_ok w sai sa c Hst Hg Hsa) as (d & w1 & Et & Hst1 & Hg1 & Habs1 & Hents1 & (sa1 & Hsa1 & Hc1 & Hr1) & Hin & Hnin & Hmono).
  rewrite Et. cbn [rbind].
  assert (Hrow1 : nget (a_rows sa1) srow = Some (e, vals)) by now rewrite Hr1.
  destruct (in_dec N.eq_dec c (a_comps sa)) as [Hc|Hc].
  - (* the entity already has the component: the value is replaced in place *)
    rewrite (Hin Hc). destruct (col_index_in _ _ Hc) as (ci & Hci & Hcil). rewrite <- Hc1 in Hci.
    assert (Hold : exists old, nget vals ci = Some old) by (apply nget_lt_some; unfold nlen in *; lia). destruct Hold as (old & Hold).
    destruct (overwrite_ok w1 sai srow sa1 e vals c v ci old Hst1 Hsa1 Hrow1 Hci Hold) as (w' & Em & Hst' & Haby' & Harchs' & Hoth & Hec & Heo).
    exists w'. split; [exact Em|]. split; [exact Hst'|]. split.
    + eapply (GraphInv_ext (set_archs w1 (slab_set (w_archs w1) sai (set_rows sa1 (nset (a_rows sa1) srow (e, nset vals ci v)))))); [exact Harchs'|exact Haby'|].
      eapply GraphInv_set; [exact Hg1|exact Hsa1|repeat split].
    + split; [exact Hec|]. split; [intros c' Hne; rewrite (Heo c' Hne); apply Habs1|]. split; [intros k c' Hk; rewrite (Hoth k c' Hk); apply Habs1|].
      intros cs ai X. unfold aby_lookup. rewrite Haby'. exact (Hmono cs ai X).
  - (* the entity moves to the archetype with the component added *)
    destruct (Hnin Hc) as (Hds & da & Hda & Hdc).
    assert (Hlen1 : length vals = length (a_comps sa1)) by congruence.
    assert (Hc' : ~ In c (a_comps sa1)) by now rewrite Hc1.
    destruct (merge_row_insert_spec (a_comps sa1) vals c v (S (length (a_comps sa1) + length (a_comps da))) Hlen1 Hc') as (dvals & Em & Hspec).
    { rewrite Hdc, sorted_insert_length, Hc1. lia. }
    rewrite <- Hc1 in Hdc. rewrite <- Hdc in Em.
    assert (Hne : sai <> d) by (intros X; apply Hds; now symmetry).
    destruct (move_entity_ok w1 sai srow d sa1 da e vals (Some (c, v)) dvals [] Hst1 Hsa1 Hda Hne Hrow1 Em) as (w' & Emv & Hst' & Hoth & He & (cap' & ep' & Harchs') & Haby').
    exists w'. split; [exact Emv|]. split; [exact Hst'|]. split.
    + eapply (GraphInv_move w1 sai d sa1 da); eauto; repeat split.
    + assert (Habs_e : forall c', abs w' e c' = if c' =? c then Some v else abs w e c').
      { intros c'. rewrite He, row_col_alookup, Hdc, Hspec. destruct (c' =? c); [reflexivity|].
        rewrite <- Habs1. rewrite (abs_of_row w1 sai sa1 srow e vals c' Hst1 Hsa1 Hrow1). now rewrite row_col_alookup. }
      split; [rewrite Habs_e, N.eqb_refl; reflexivity|].
      split; [intros c' Hne'; rewrite Habs_e; now replace (c' =? c) with false by (symmetry; now apply N.eqb_neq)|].
      split; [intros k c' Hk; rewrite (Hoth k c' Hk); apply Habs1|].
      intros cs ai X. unfold aby_lookup. rewrite Haby'. exact (Hmono cs ai X).
Qed.

(* ---------- Remove ---------- *)
Lemma merge_row_remove_spec : forall sc sv c fuel,
  length sv = length sc -> StronglySorted N.lt sc -> (length sc + length (filter (fun x => negb (x =? c)) sc) < fuel)%nat ->
  exists dvals killed, merge_row fuel sc sv (filter (fun x => negb (x =? c)) sc) None = Some (dvals, killed) /\
    forall c', alookup c' (combine (filter (fun x => negb (x =? c)) sc) dvals) = if c' =? c then None else alookup c' (combine sc sv).
Proof.
  induction sc as [|s sc IH]; intros sv c fuel Hlen Hs Hf; (destruct fuel as [|f]; [lia|]); destruct sv as [|v0 sv]; try discriminate; cbn [filter] in *.
  - cbn [merge_row]. exists [], []. split; [reflexivity|]. intros c'. cbn. now destruct (c' =? c).
  - cbn [length] in Hlen, Hf. apply StronglySorted_inv in Hs as [Hs Hall].
    destruct (s =? c) eqn:Esc; cbn [negb] in *.
    + destruct (IH sv c f ltac:(lia) Hs ltac:(lia)) as (dv & kl & E & Hspec).
      apply N.eqb_eq in Esc. subst s. cbn [merge_row]. destruct (filter (fun x => negb (x =? c)) sc) as [|d dc'] eqn:Ef.
      * rewrite E. exists dv, ((c, v0) :: kl). split; [reflexivity|]. intros c'. rewrite Hspec. cbn [combine alookup]. now destruct (c' =? c).
      * assert (Hd : c < d).
        { rewrite Forall_forall in Hall. apply Hall. assert (Hin : In d (filter (fun x => negb (x =? c)) sc)) by (rewrite Ef; now left).
          apply filter_In in Hin. tauto. }
        replace (c <? d) with true by (symmetry; apply N.ltb_lt; exact Hd). rewrite E.
        exists dv, ((c, v0) :: kl). split; [reflexivity|]. intros c'. rewrite Hspec. cbn [combine alookup]. now destruct (c' =? c).
    + cbn [length] in Hf. destruct (IH sv c f ltac:(lia) Hs ltac:(lia)) as (dv & kl & E & Hspec).
      cbn [merge_row]. rewrite N.ltb_irrefl, N.eqb_refl, E. exists (v0 :: dv), kl. split; [reflexivity|].
      intros c'. cbn [combine alookup]. destruct (c' =? s) eqn:E1.
      * apply N.eqb_eq in E1. subst c'. now rewrite Esc.
      * apply Hspec.
Qed.

(* C02 / C09 / C17 / C01: the built-in effect of Remove on a live entity: never fails, keeps
   both invariants, the entity no longer has the component, nothing else changes; removing an
   absent component changes nothing at all *)
Theorem remove_effect_ok w e sai srow c :
  StoreInv w -> GraphInv w -> sm_get e (w_ents w) = Some (sai, srow) ->
  exists w', (do (d, w2) <- traverse_remove w sai c; move_entity w2 (sai, srow) d None) = ROk tt w' /\
    StoreInv w' /\ GraphInv w' /\
    abs w' e c = None /\ (forall c', c' <> c -> abs w' e c' = abs w e c') /\
    (forall k c', k <> e -> abs w' k c' = abs w k c') /\
    (forall cs ai, aby_lookup w cs = Some ai -> aby_lookup w' cs = Some ai).
Proof.
  intros Hst Hg Hge. pose proof Hst as (_ & Hl & Hr). destruct (Hl _ _ _ Hge) as (sa & vals & Hsa & Hrow).
  destruct (Hr _ _ _ _ _ Hsa Hrow) as [_ Hvlen].
  destruct (traverse_remove_ok w sai sa c Hst Hg Hsa) as (d & w1 & Et & Hst1 & Hg1 & Habs1 & Hents1 & (sa1 & Hsa1 & Hc1 & Hr1) & Hnin & Hin & Hmono).
  rewrite Et. cbn [rbind].
  assert (Hrow1 : nget (a_rows sa1) srow = Some (e, vals)) by now rewrite Hr1.
  destruct (in_dec N.eq_dec c (a_comps sa)) as [Hc|Hc].
  - destruct (Hin Hc) as (Hds & da & Hda & Hdc).
    assert (Hlen1 : length vals = length (a_comps sa1)) by congruence.
    assert (Hsorted : StronglySorted N.lt (a_comps sa1)) by (destruct Hg1 as (_ & _ & _ & _ & _ & Hso); eapply Hso; eauto).
    rewrite <- Hc1 in Hdc.
    destruct (merge_row_remove_spec (a_comps sa1) vals c (S (length (a_comps sa1) + length (a_comps da))) Hlen1 Hsorted) as (dvals & killed & Em & Hspec).
    { rewrite Hdc. lia. }
    rewrite <- Hdc in Em.
    assert (Hne : sai <> d) by (intros X; apply Hds; now symmetry).
    destruct (move_entity_ok w1 sai srow d sa1 da e vals None dvals killed Hst1 Hsa1 Hda Hne Hrow1 Em) as (w' & Emv & Hst' & Hoth & He & (cap' & ep' & Harchs') & Haby').
    exists w'. split; [exact Emv|]. split; [exact Hst'|]. split.
    + eapply (GraphInv_move w1 sai d sa1 da); eauto; repeat split.
    + assert (Habs_e : forall c', abs w' e c' = if c' =? c then None else abs w e c').
      { intros c'. rewrite He, row_col_alookup, Hdc, Hspec. destruct (c' =? c); [reflexivity|].
        rewrite <- Habs1. rewrite (abs_of_row w1 sai sa1 srow e vals c' Hst1 Hsa1 Hrow1). now rewrite row_col_alookup. }
      split; [rewrite Habs_e, N.eqb_refl; reflexivity|].
      split; [intros c' Hne'; rewrite Habs_e; now replace (c' =? c) with false by (symmetry; now apply N.eqb_neq)|].
      split; [intros k c' Hk; rewrite (Hoth k c' Hk); apply Habs1|].
      intros cs ai X. unfold aby_lookup. rewrite Haby'. exact (Hmono cs ai X).
  - (* the entity does not have the component: move_entity to its own archetype with nothing new is the identity *)
    rewrite (Hnin Hc). unfold move_entity. unfold arch_at in Hsa1. rewrite Hsa1, N.eqb_refl.
    exists w1. split; [reflexivity|]. split; [exact Hst1|]. split; [exact Hg1|].
    split; [|split; [intros; apply Habs1|split; [intros; apply Habs1|exact Hmono]]].
    rewrite Habs1. rewrite (abs_of_row w sai sa srow e vals c Hst Hsa Hrow). unfold row_col.
    destruct (col_index (a_comps sa) c) as [i|] eqn:Ei; [|reflexivity]. exfalso. apply Hc.
    clear -Ei. revert i Ei. induction (a_comps sa) as [|h t IH]; intros i Ei; [discriminate|]. cbn in Ei.
    destruct (c =? h) eqn:E; [apply N.eqb_eq in E; subst; now left|]. destruct (col_index t c) eqn:X; [|discriminate]. right. eapply IH; eauto.
Qed.

(* ---------- Spawn / Despawn ---------- *)
Definition WInv (w : world) : Prop := StoreInv w /\ GraphInv w /\ aby_lookup w [] = Some 0.

Lemma WInv_arch0 w : WInv w -> exists a0, arch_at w 0 = Some a0 /\ a_comps a0 = [].
Proof. intros (_ & (_ & _ & Hb2 & _) & H0). exact (Hb2 _ _ H0). Qed.

Lemma insert_key_indep {V} (f g : key -> V) m k m' : insert_with f m = Some (k, m') -> exists m'', insert_with g m = Some (k, m'').
Proof.
  unfold insert_with. destruct (sget (slots m) (next_free m)) as [s|].
  - intros H. inversion H; subst. eauto.
  - destruct (_ =? U32MAX); [discriminate|]. intros H. inversion H; subst. eauto.
Qed.

(* one materialised reservation: archetypes.spawn(id) + the slot-map insertion *)
Lemma spawn_one_ok w k m0 :
  WInv w -> insert_with (fun _ => (0, 0)) (w_ents w) = Some (k, m0) ->
  exists loc w1 ents', arch_spawn w k = (loc, w1) /\ insert_with (fun _ => loc) (w_ents w1) = Some (k, ents') /\
    WInv (set_ents w1 ents') /\
    (forall c, abs (set_ents w1 ents') k c = None) /\ sm_get k (w_ents (set_ents w1 ents')) = Some loc /\
    (forall e c, e <> k -> abs (set_ents w1 ents') e c = abs w e c) /\
    (forall e, e <> k -> sm_get e (w_ents (set_ents w1 ents')) = sm_get e (w_ents w)) /\
    w_aby (set_ents w1 ents') = w_aby w.
Proof.
  intros HW Hins. pose proof HW as (Hst & Hg & H0). destruct (WInv_arch0 w HW) as (a0 & Ha0 & Hc0).
  pose proof Hst as (Hsm & Hl & Hr).
  unfold arch_spawn. unfold arch_at in Ha0. rewrite Ha0.
  assert (Hres : exists cap' ep' re, reserve_one a0 = (set_cap a0 cap' ep', re)).
  { unfold reserve_one. destruct (nlen (a_rows a0) =? a_cap a0); [eauto|]. exists (a_cap a0), (a_epoch a0), false. now rewrite set_cap_eta. }
  destruct Hres as (cap' & ep' & re & ->). cbn [a_rows set_cap set_rows].
  set (a2 := set_rows (set_cap a0 cap' ep') (a_rows a0 ++ [(k, [])])).
  set (w1 := set_archs w (slab_set (w_archs w) 0 a2)).
  set (wn := if (nlen (a_rows a0 ++ [(k, [])]) =? 1) || re then notify_refresh w1 0 else w1).
  assert (En : w_ents wn = w_ents w) by (unfold wn; destruct (_ || re); rewrite ?notify_refresh_ents; reflexivity).
  assert (An : w_archs wn = w_archs w1) by (unfold wn; destruct (_ || re); rewrite ?notify_refresh_archs; reflexivity).
  assert (Bn : w_aby wn = w_aby w) by (unfold wn; destruct (_ || re); rewrite ?notify_refresh_aby; reflexivity).
  destruct (insert_key_indep (fun _ => (0, 0)) (fun _ => (0, nlen (a_rows a0))) _ _ _ Hins) as (ents' & Hins').
  exists (0, nlen (a_rows a0)), wn, ents'. split; [reflexivity|]. rewrite En. split; [exact Hins'|].
  assert (Hknew : @sm_get eloc k ents' = Some (0, nlen (a_rows a0))) by exact (insert_get_new _ _ _ _ Hsm Hins').
  assert (Hkold : forall e, e <> k -> @sm_get eloc e ents' = sm_get e (w_ents w)) by (intros e He; exact (insert_get_other _ _ _ _ e Hsm Hins' He)).
  assert (Hkfresh : sm_get k (w_ents w) = None) by exact (insert_get_fresh _ _ _ _ Hsm Hins').
  assert (Hat : forall j, arch_at (set_ents wn ents') j = if j =? 0 then Some a2 else arch_at w j).
  { intros j. unfold arch_at. cbn [w_archs set_ents]. rewrite An. unfold w1. cbn [w_archs set_archs]. destruct (j =? 0) eqn:E.
    - apply N.eqb_eq in E. subst j. eapply slab_get_set_eq; eauto.
    - apply N.eqb_neq in E. now rewrite slab_get_set_neq by auto. }
  assert (Hrows2 : forall j x, nget (a_rows a2) j = Some x -> (j = nlen (a_rows a0) /\ x = (k, [])) \/ nget (a_rows a0) j = Some x).
  { intros j x Hj. unfold a2 in Hj. cbn [a_rows set_rows] in Hj. destruct (N.lt_ge_cases j (nlen (a_rows a0))) as [L|G].
    - right. now rewrite nget_app_l in Hj.
    - rewrite nget_app_r in Hj by exact G. left. destruct (j - nlen (a_rows a0) =? 0) eqn:Z.
      + apply N.eqb_eq in Z. cbn [nget] in Hj. rewrite Z in Hj. cbn in Hj. inversion Hj. split; [lia|reflexivity].
      + cbn [nget] in Hj. rewrite Z in Hj. discriminate. }
  assert (Hst' : StoreInv (set_ents wn ents')).
  { unfold StoreInv. cbn [w_ents set_ents]. split; [eapply insert_inv; eauto|]. split.
    - intros e ai row He. destruct (key_eq_dec e k) as [->|Hne].
      + rewrite Hknew in He. inversion He; subst ai row. rewrite Hat, N.eqb_refl. exists a2, []. split; [reflexivity|].
        unfold a2. cbn [a_rows set_rows]. apply nget_snoc_last.
      + rewrite (Hkold e Hne) in He. destruct (Hl _ _ _ He) as (b & vb & Hb & Hnb). rewrite Hat. destruct (ai =? 0) eqn:E.
        * apply N.eqb_eq in E. subst ai. unfold arch_at in Hb. rewrite Ha0 in Hb. inversion Hb; subst b. exists a2, vb. split; [reflexivity|].
          unfold a2. cbn [a_rows set_rows]. rewrite nget_app_l; [exact Hnb|eapply nget_some_lt; eauto].
        * eauto.
    - intros ai b row e vals Hb Hn. rewrite Hat in Hb. destruct (ai =? 0) eqn:E.
      + apply N.eqb_eq in E. subst ai. inversion Hb; subst b. destruct (Hrows2 _ _ Hn) as [[-> Hx]|Hold].
        * inversion Hx; subst e vals. split; [exact Hknew|]. unfold a2. cbn [a_comps set_rows set_cap]. now rewrite Hc0.
        * destruct (Hr _ _ _ _ _ Ha0 Hold) as [Hg0 Hlen]. split; [|exact Hlen].
          assert (e <> k) by (intros ->; congruence). now rewrite Hkold.
      + destruct (Hr _ _ _ _ _ Hb Hn) as [Hg0 Hlen]. split; [|exact Hlen]. assert (e <> k) by (intros ->; congruence). now rewrite Hkold. }
  assert (Hg' : GraphInv (set_ents wn ents')).
  { eapply (GraphInv_ext (set_archs w (slab_set (w_archs w) 0 a2))); [cbn [w_archs set_ents]; exact An|cbn [w_aby set_ents]; exact Bn|].
    eapply GraphInv_set; [exact Hg|exact Ha0|repeat split]. }
  split; [split; [exact Hst'|split; [exact Hg'|unfold aby_lookup; cbn [w_aby set_ents]; rewrite Bn; exact H0]]|].
  split; [|split; [exact Hknew|split; [|split; [|exact Bn]]]].
  - intros c. rewrite (abs_of_row (set_ents wn ents') 0 a2 (nlen (a_rows a0)) k [] c Hst'); [|rewrite Hat; reflexivity|unfold a2; cbn [a_rows set_rows]; apply nget_snoc_last].
    unfold row_col. destruct (col_index (a_comps a2) c) as [i|]; [|reflexivity]. now destruct (i =? 0).
  - intros e c Hne. unfold abs at 1. cbn [w_ents set_ents]. rewrite (Hkold e Hne). unfold abs.
    destruct (sm_get e (w_ents w)) as [[ai row]|] eqn:He; [|reflexivity]. rewrite Hat. destruct (ai =? 0) eqn:E; [|reflexivity].
    apply N.eqb_eq in E. subst ai. unfold arch_at. rewrite Ha0. destruct (Hl _ _ _ He) as (b & vb & Hb & Hnb). unfold arch_at in Hb. rewrite Ha0 in Hb. inversion Hb; subst b.
    unfold a2. cbn [a_rows set_rows]. rewrite nget_app_l by (eapply nget_some_lt; eauto). rewrite Hnb. apply row_col_comps. reflexivity.
  - intros e Hne. cbn [w_ents set_ents]. exact (Hkold e Hne).
Qed.

(* [w'] extends [w] by freshly spawned, component-less entities *)
Definition ext_by_spawn (w w' : world) : Prop :=
  WInv w' /\
  (forall e, sm_get e (w_ents w) <> None -> sm_get e (w_ents w') = sm_get e (w_ents w) /\ forall c, abs w' e c = abs w e c) /\
  (forall e, sm_get e (w_ents w) = None -> forall c, abs w' e c = None) /\
  w_aby w' = w_aby w.

Lemma ext_by_spawn_refl w : WInv w -> ext_by_spawn w w.
Proof. intros H. split; [exact H|]. split; [auto|]. split; [|reflexivity]. intros e He c. now apply abs_dead. Qed.

Lemma ext_by_spawn_trans w1 w2 w3 : ext_by_spawn w1 w2 -> ext_by_spawn w2 w3 -> ext_by_spawn w1 w3.
Proof.
  intros (_ & Hl1 & Hd1 & Hb1) (HW & Hl2 & Hd2 & Hb2). split; [exact HW|]. split; [|split; [|congruence]].
  - intros e He. destruct (Hl1 e He) as [Hs1 Ha1]. assert (He2 : sm_get e (w_ents w2) <> None) by (rewrite Hs1; exact He).
    destruct (Hl2 e He2) as [Hs2 Ha2]. split; [congruence|]. intros c. now rewrite Ha2.
  - intros e He c. destruct (sm_get e (w_ents w2)) as [l|] eqn:E2.
    + assert (He2 : sm_get e (w_ents w2) <> None) by congruence. destruct (Hl2 e He2) as [_ Ha2]. rewrite Ha2. now apply Hd1.
    + now apply Hd2.
Qed.

Lemma WInv_ext w w' : w_ents w' = w_ents w -> w_archs w' = w_archs w -> w_aby w' = w_aby w -> WInv w -> WInv w'.
Proof.
  intros He Ha Hb (Hs & Hg & H0). split; [eapply StoreInv_ext; eauto|]. split; [eapply GraphInv_ext; eauto|].
  unfold aby_lookup in *. now rewrite Hb.
Qed.

Lemma ext_by_spawn_ext w w1 w2 : w_ents w2 = w_ents w1 -> w_archs w2 = w_archs w1 -> w_aby w2 = w_aby w1 ->
  ext_by_spawn w w1 -> ext_by_spawn w w2.
Proof.
  intros He Ha Hb (HW & Hl & Hd & Hby). split; [eapply WInv_ext; eauto|]. split; [|split; [|congruence]].
  - intros e Hlive. destruct (Hl e Hlive) as [H1 H2]. split; [now rewrite He|]. intros c. rewrite (abs_ext w1 w2 He Ha). apply H2.
  - intros e Hdead c. rewrite (abs_ext w1 w2 He Ha). now apply Hd.
Qed.

(* ReservedEntities::spawn_all: every materialised reservation is a new component-less entity; nothing
   that existed changes; the only failure is the exhaustion of the 2^32-1 slots *)
Lemma spawn_all_n_ok n : forall w, WInv w ->
  match spawn_all_n n w with
  | ROk _ w' => ext_by_spawn w w'
  | RFail f w' => f = FPanic 5 /\ ext_by_spawn w w'
  end.
Proof.
  induction n as [|n IH]; intros w HW; cbn [spawn_all_n]; [now apply ext_by_spawn_refl|].
  destruct (insert_with (fun _ => (0, 0)) (w_ents w)) as [[k m0]|] eqn:Ei; [|split; [reflexivity|now apply ext_by_spawn_refl]].
  destruct (spawn_one_ok w k m0 HW Ei) as (loc & w1 & ents' & Esp & Eins & HW' & Hnew & Hget & Hoth & Hoth' & Hby).
  rewrite Esp, Eins.
  assert (Hfresh : sm_get k (w_ents w) = None) by (destruct HW as ((Hsm & _) & _); exact (insert_get_fresh _ _ _ _ Hsm Ei)).
  assert (Hstep : ext_by_spawn w (set_ents w1 ents')).
  { split; [exact HW'|]. split; [|split; [|exact Hby]].
    - intros e He. assert (e <> k) by (intros ->; congruence). split; [now apply Hoth'|]. intros c. now apply Hoth.
    - intros e He c. destruct (key_eq_dec e k) as [->|Hne]; [apply Hnew|]. rewrite Hoth by exact Hne. now apply abs_dead. }
  specialize (IH (set_ents w1 ents') HW'). destruct (spawn_all_n n (set_ents w1 ents')) as [[] w'|f w'].
  - eapply ext_by_spawn_trans; eauto.
  - destruct IH as [-> IH]. split; [reflexivity|]. eapply ext_by_spawn_trans; eauto.
Qed.

Theorem spawn_all_ok w : WInv w ->
  match spawn_all w with
  | ROk _ w' => ext_by_spawn w w'
  | RFail f w' => f = FPanic 5 /\ ext_by_spawn w w'
  end.
Proof.
  intros HW. unfold spawn_all. pose proof (spawn_all_n_ok (N.to_nat (w_rcnt w)) w HW) as H.
  destruct (spawn_all_n (N.to_nat (w_rcnt w)) w) as [[] w1|f w1]; cbn [rbind]; [|exact H].
  eapply ext_by_spawn_ext; [| | |exact H]; reflexivity.
Qed.

(* the Despawn effect (world.rs:1147-1169 after F2): reservations are materialised first, then the
   target's row is removed.  On a consistent world it cannot hit an unchecked failure; afterwards the
   world is consistent, the target is gone, and every other entity that existed keeps every component. *)
Theorem despawn_effect_ok w e loc :
  WInv w -> sm_get e (w_ents w) = Some loc ->
  match (do (_, w2) <- spawn_all w; do (_, w3) <- remove_entity w2 loc; ROk tt (refresh_cursor w3)) with
  | ROk _ w' => WInv w' /\ sm_get e (w_ents w') = None /\
                (forall k, k <> e -> sm_get k (w_ents w) <> None -> sm_get k (w_ents w') <> None /\ forall c, abs w' k c = abs w k c) /\
                (forall k, k <> e -> sm_get k (w_ents w) = None -> forall c, abs w' k c = None) /\
                w_aby w' = w_aby w
  | RFail f w' => f = FPanic 5 /\ ext_by_spawn w w'
  end.
Proof.
  intros HW He. pose proof (spawn_all_ok w HW) as Hsp. destruct (spawn_all w) as [[] w2|f w2]; cbn [rbind]; [|exact Hsp].
  destruct Hsp as (HW2 & Hl2 & Hd2 & Hb2). pose proof HW2 as (Hst2 & Hg2 & H02).
  assert (Hlive : sm_get e (w_ents w) <> None) by congruence. destruct (Hl2 e Hlive) as [He2 Habs2]. rewrite He in He2.
  destruct loc as [ai row]. pose proof Hst2 as (_ & Hlk & _). destruct (Hlk _ _ _ He2) as (a & vals & Ha & Hrow).
  destruct (remove_entity_ok_full w2 ai row a e vals Hst2 Ha Hrow) as (w3 & -> & Hst3 & Hgone & Hoth & Harchs & Haby & Hdead & Hstay).
  cbn [rbind]. unfold refresh_cursor.
  assert (HW3 : WInv w3).
  { split; [exact Hst3|]. split.
    - eapply (GraphInv_ext (set_archs w2 (slab_set (w_archs w2) ai (set_rows a (swap_remove (a_rows a) row))))); [exact Harchs|exact Haby|].
      eapply GraphInv_set; [exact Hg2|exact Ha|repeat split].
    - unfold aby_lookup in *. now rewrite Haby. }
  split; [eapply WInv_ext; [| | |exact HW3]; reflexivity|]. cbn [w_ents set_res].
  split; [exact Hgone|]. split; [|split].
  - intros k Hne Hk. destruct (Hl2 k Hk) as [Hk2 Hka2]. split.
    + apply Hstay; [exact Hne|]. now rewrite Hk2.
    + intros c. rewrite (abs_ext w3 (set_res w3 _ _)) by reflexivity. rewrite Hoth by exact Hne. apply Hka2.
  - intros k Hne Hk c. rewrite (abs_ext w3 (set_res w3 _ _)) by reflexivity. rewrite Hoth by exact Hne. now apply Hd2.
  - cbn [w_aby set_res]. congruence.
Qed.
