(* Base.v : N-indexed list plumbing shared by the model files.
   Every index in the model is an [N]; lookups recurse on the list and decrement the
   index, so the model runs on indices like u32::MAX without building unary numbers. *)
From Coq Require Export List NArith Bool Lia.
Export ListNotations.
Open Scope N_scope.

Definition U32MAX : N := 4294967295.
Definition TWO32 : N := 4294967296.

Definition key := (N * N)%type.                     (* (index, generation) *)
Definition key_eqb (a b : key) : bool := (fst a =? fst b) && (snd a =? snd b).
Definition KEY_NULL : key := (U32MAX, U32MAX).

Section Lists.
Context {A : Type}.

Definition nlen (l : list A) : N := N.of_nat (length l).

Fixpoint nget (l : list A) (i : N) : option A :=
  match l with
  | [] => None
  | h :: t => if i =? 0 then Some h else nget t (N.pred i)
  end.

Fixpoint nset (l : list A) (i : N) (x : A) : list A :=
  match l with
  | [] => []
  | h :: t => if i =? 0 then x :: t else h :: nset t (N.pred i) x
  end.

(* Vec::insert(i, x): requires i <= len; appends when past the end *)
Fixpoint ninsert (l : list A) (i : N) (x : A) : list A :=
  match l with
  | [] => [x]
  | h :: t => if i =? 0 then x :: l else h :: ninsert t (N.pred i) x
  end.

(* Vec::remove(i) *)
Fixpoint nremove (l : list A) (i : N) : list A :=
  match l with
  | [] => []
  | h :: t => if i =? 0 then t else h :: nremove t (N.pred i)
  end.

(* Vec::swap_remove(i): the last element takes the place of element i *)
Definition swap_remove (l : list A) (i : N) : list A :=
  match rev l with
  | [] => []
  | last :: _ => if i =? nlen l - 1 then removelast l else nset (removelast l) i last
  end.

Fixpoint nposition (p : A -> bool) (l : list A) : option N :=
  match l with
  | [] => None
  | h :: t => if p h then Some 0 else option_map N.succ (nposition p t)
  end.

Fixpoint nrepeat_to (l : list A) (n : nat) (d : A) : list A := (* resize_with up to length n *)
  match n with
  | O => l
  | S n' => match l with
            | [] => d :: nrepeat_to [] n' d
            | h :: t => h :: nrepeat_to t n' d
            end
  end.
End Lists.

(* association lists keyed by N, kept sorted by key (BTreeMap) *)
Section Assoc.
Context {V : Type}.
Fixpoint alookup (k : N) (l : list (N * V)) : option V :=
  match l with
  | [] => None
  | (k', v) :: t => if k =? k' then Some v else alookup k t
  end.
Fixpoint ainsert (k : N) (v : V) (l : list (N * V)) : list (N * V) :=
  match l with
  | [] => [(k, v)]
  | (k', v') :: t =>
      if k <? k' then (k, v) :: l
      else if k =? k' then (k, v) :: t
      else (k', v') :: ainsert k v t
  end.
Definition aremove (k : N) (l : list (N * V)) : list (N * V) :=
  filter (fun p => negb (fst p =? k)) l.
End Assoc.

(* sorted sets of N (BitSet / BTreeSet as far as the model cares) *)
Fixpoint sinsert (k : N) (l : list N) : list N :=
  match l with
  | [] => [k]
  | h :: t => if k <? h then k :: l else if k =? h then l else h :: sinsert k t
  end.
Definition smem (k : N) (l : list N) : bool := existsb (N.eqb k) l.
Definition sremove (k : N) (l : list N) : list N := filter (fun x => negb (x =? k)) l.

Fixpoint list_eqb {A} (eqb : A -> A -> bool) (a b : list A) : bool :=
  match a, b with
  | [], [] => true
  | x :: a', y :: b' => eqb x y && list_eqb eqb a' b'
  | _, _ => false
  end.

Definition opt_bind {A B} (o : option A) (f : A -> option B) : option B :=
  match o with Some a => f a | None => None end.

Lemma key_eq_dec (a b : key) : {a = b} + {a <> b}.
Proof. decide equality; apply N.eq_dec. Qed.
