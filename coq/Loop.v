(* Loop.v : the event loop of src/world.rs:958-1199 as a stack machine, generic in the
   state and in what one delivery does.
   [run e st] = run the handlers of [e] in order until one takes it, then apply the built-in
   effect; it returns the events sent (in send order), the new state, and whether a handler
   panicked (unwinding).  The mechanism: the queue is a Vec used as a stack (top at the END);
   the events pushed during one delivery are the segment [events_before..], which is reversed
   before the next pop.  On unwinding, [unwind] (EventDropper::drop) receives what is lft. *)
From Coq Require Import List Lia PeanoNat Arith Permutation.
Import ListNotations.

Section Loop.
Variables (St Ev : Type).
Variable run : Ev -> St -> list Ev * St * bool.
Variable unwind : list Ev -> St -> St.

Inductive outcome := Finished | Aborted.

Definition step (q : list Ev) (st : St) : option (Ev * list Ev * St * bool) :=
  match rev q with
  | [] => None
  | e :: _ =>
      let rest := removelast q in
      let before := length rest in
      let '(sent, st', ab) := run e st in
      let q1 := rest ++ sent in                                  (* pushes *)
      let q2 := firstn before q1 ++ rev (skipn before q1) in     (* reverse pushed segment *)
      Some (e, (if ab then q1 else q2), st', ab)
  end.

Fixpoint flush (fuel : nat) (q : list Ev) (st : St) (tr : list Ev) : option (list Ev * St * outcome) :=
  match fuel with
  | 0 => None
  | S f => match step q st with
           | None => Some (tr, st, Finished)
           | Some (e, q', st', ab) =>
               if ab then Some (tr ++ [e], unwind q' st', Aborted)
               else flush f q' st' (tr ++ [e])
           end
  end.

(* spec: depth-first, first-sent-first; only for deliveries without unwinding *)
Inductive deliver : Ev -> St -> list Ev -> St -> Prop :=
| D e st sent st1 tr st2 : run e st = (sent, st1, false) -> deliver_list sent st1 tr st2 -> deliver e st (e :: tr) st2
with deliver_list : list Ev -> St -> list Ev -> St -> Prop :=
| DN st : deliver_list [] st [] st
| DC e es st tr1 st1 tr2 st2 : deliver e st tr1 st1 -> deliver_list es st1 tr2 st2 -> deliver_list (e :: es) st (tr1 ++ tr2) st2.
Scheme deliver_ind' := Minimality for deliver Sort Prop
with deliver_list_ind' := Minimality for deliver_list Sort Prop.
Combined Scheme deliver_mutind from deliver_ind', deliver_list_ind'.

Lemma step_snoc rest e st : step (rest ++ [e]) st =
  let '(sent, st', ab) := run e st in Some (e, (if ab then rest ++ sent else rest ++ rev sent), st', ab).
Proof.
  unfold step. rewrite rev_app_distr. cbn [rev app]. rewrite removelast_last.
  destruct (run e st) as [[sent st'] ab]. destruct ab; [reflexivity|]. f_equal. f_equal. f_equal. f_equal.
  rewrite firstn_app, firstn_all, Nat.sub_diag. cbn [firstn]. rewrite app_nil_r.
  rewrite skipn_app, skipn_all, Nat.sub_diag. reflexivity.
Qed.

Lemma deliver_list_app es1 : forall es2 st tr1 st1 tr2 st2,
  deliver_list es1 st tr1 st1 -> deliver_list es2 st1 tr2 st2 -> deliver_list (es1 ++ es2) st (tr1 ++ tr2) st2.
Proof.
  induction es1 as [|e es1 IH]; intros es2 st tr1 st1 tr2 st2 H1 H2.
  - inversion H1; subst. exact H2.
  - inversion H1; subst. cbn. rewrite <- app_assoc. econstructor; eauto.
Qed.
Lemma deliver_list_split es1 : forall es2 st tr st2,
  deliver_list (es1 ++ es2) st tr st2 ->
  exists tr1 st1 tr2, deliver_list es1 st tr1 st1 /\ deliver_list es2 st1 tr2 st2 /\ tr = tr1 ++ tr2.
Proof.
  induction es1 as [|e es1 IH]; intros es2 st tr st2 H.
  - exists [], st, tr. split; [constructor|split; [exact H|reflexivity]].
  - cbn in H. inversion H; subst.
    match goal with Hd : deliver_list (es1 ++ es2) _ _ _ |- _ => destruct (IH _ _ _ _ Hd) as (ta & sa & tb & Ha & Hb & ->) end.
    exists (tr1 ++ ta), sa, tb. split; [econstructor; eauto|split; [exact Hb|now rewrite app_assoc]].
Qed.

(* completeness: a terminating depth-first delivery is what the stack machine computes *)
Lemma flush_complete_mut :
  (forall e st tr st', deliver e st tr st' -> forall rest acc, exists n,
      forall m, flush (n + m) (rest ++ [e]) st acc = flush m rest st' (acc ++ tr)) /\
  (forall es st tr st', deliver_list es st tr st' -> forall rest acc, exists n,
      forall m, flush (n + m) (rest ++ rev es) st acc = flush m rest st' (acc ++ tr)).
Proof.
  apply deliver_mutind.
  - intros e st sent st1 tr st2 Hrun _ IH rest acc.
    destruct (IH rest (acc ++ [e])) as [n Hn]. exists (S n). intros m.
    cbn [plus flush]. rewrite step_snoc, Hrun. rewrite Hn. now rewrite <- app_assoc.
  - intros st rest acc. exists 0. intros m. cbn. now rewrite !app_nil_r.
  - intros e es st tr1 st1 tr2 st2 _ IH1 _ IH2 rest acc.
    destruct (IH1 (rest ++ rev es) acc) as [n1 H1].
    destruct (IH2 rest (acc ++ tr1)) as [n2 H2].
    exists (n1 + n2). intros m. cbn [rev]. rewrite app_assoc, <- Nat.add_assoc, H1, H2.
    now rewrite app_assoc.
Qed.

Theorem flush_complete e st tr st' :
  deliver e st tr st' -> exists n, forall m, flush (n + S m) [e] st [] = Some (tr, st', Finished).
Proof.
  intros H. destruct (proj1 flush_complete_mut _ _ _ _ H [] []) as [n Hn].
  exists n. intros m. cbn [app] in Hn. rewrite Hn. reflexivity.
Qed.

(* soundness: whatever the stack machine returns normally is a depth-first delivery of the
   whole stack (top first), and the queue is empty when it returns *)
Theorem flush_sound : forall n q st acc tr st',
  flush n q st acc = Some (tr, st', Finished) ->
  exists tr0, tr = acc ++ tr0 /\ deliver_list (rev q) st tr0 st'.
Proof.
  induction n as [|n IH]; intros q st acc tr st' H; [discriminate|].
  cbn [flush] in H. destruct (rev q) as [|e r] eqn:Er.
  - assert (q = []) by (destruct q as [|x q]; [reflexivity|]; cbn in Er; destruct (rev q); discriminate).
    subst q. cbn in H. inversion H; subst. exists []. split; [now rewrite app_nil_r|constructor].
  - assert (Hq : q = rev r ++ [e]) by (rewrite <- (rev_involutive q), Er; reflexivity).
    rewrite Hq, step_snoc in H. destruct (run e st) as [[sent st1] ab] eqn:Hrun.
    destruct ab; [discriminate|].
    apply IH in H. destruct H as (tr0 & -> & Hd).
    rewrite rev_app_distr, !rev_involutive in Hd.
    apply deliver_list_split in Hd. destruct Hd as (ta & sa & tb & Ha & Hb & ->).
    exists (e :: ta ++ tb). split; [now rewrite <- app_assoc|].
    change (e :: ta ++ tb) with ((e :: ta) ++ tb). econstructor; [econstructor; eauto|exact Hb].
Qed.

(* on unwinding, the dropper receives exactly: the untouched part of the queue followed by
   what the panicking delivery had pushed, in push order *)
Theorem flush_abort_queue : forall n q st acc tr st',
  flush n q st acc = Some (tr, st', Aborted) ->
  exists rest e sent st1 st0, run e st0 = (sent, st1, true) /\ st' = unwind (rest ++ sent) st1.
Proof.
  induction n as [|n IH]; intros q st acc tr st' H; [discriminate|].
  cbn [flush] in H. destruct (rev q) as [|e r] eqn:Er.
  - unfold step in H. rewrite Er in H. discriminate.
  - assert (Hq : q = rev r ++ [e]) by (rewrite <- (rev_involutive q), Er; reflexivity).
    rewrite Hq, step_snoc in H. destruct (run e st) as [[sent st1] ab] eqn:Hrun.
    destruct ab.
    + inversion H; subst. exists (rev r), e, sent, st1, st. auto.
    + eapply IH; eauto.
Qed.

(* ---------- conservation: nothing is lost, nothing is delivered twice ---------- *)
(* ghost-instrumented machine: additionally returns everything that was sent during the run
   and what was handed to [unwind] *)
Fixpoint flushG (fuel : nat) (q : list Ev) (st : St) : option (list Ev * St * outcome * list Ev * list Ev) :=
  match fuel with
  | 0 => None
  | S f => match step q st with
           | None => Some ([], st, Finished, [], [])
           | Some (e, q', st', ab) =>
               let sent := fst (fst (run e st)) in
               if ab then Some ([e], unwind q' st', Aborted, sent, q')
               else match flushG f q' st' with
                    | Some (tr, st2, oc, allsent, lft) => Some (e :: tr, st2, oc, sent ++ allsent, lft)
                    | None => None
                    end
           end
  end.

Lemma flushG_flush : forall n q st acc,
  flush n q st acc = match flushG n q st with
                     | Some (tr, st', oc, _, _) => Some (acc ++ tr, st', oc)
                     | None => None end.
Proof.
  induction n as [|n IH]; intros q st acc; [reflexivity|]. cbn [flush flushG].
  destruct (step q st) as [[[[e q'] st'] ab]|]; [|now rewrite app_nil_r].
  destruct ab; [reflexivity|]. rewrite IH.
  destruct (flushG n q' st') as [[[[[tr st2] oc] al] lf]|]; [|reflexivity].
  now rewrite <- app_assoc.
Qed.

Theorem flush_conservation : forall n q st tr st' oc allsent lft,
  flushG n q st = Some (tr, st', oc, allsent, lft) ->
  Permutation (q ++ allsent) (tr ++ lft) /\ (oc = Finished -> lft = []).
Proof.
  induction n as [|n IH]; intros q st tr st' oc allsent lft H; [discriminate|].
  cbn [flushG] in H. destruct (rev q) as [|e r] eqn:Er.
  - assert (q = []) by (destruct q as [|x q]; [reflexivity|]; cbn in Er; destruct (rev q); discriminate).
    subst q. cbn in H. inversion H; subst. split; [constructor|reflexivity].
  - assert (Hq : q = rev r ++ [e]) by (rewrite <- (rev_involutive q), Er; reflexivity).
    rewrite Hq, step_snoc in H. destruct (run e st) as [[sent st1] ab] eqn:Hrun. rewrite ?Hrun in H. cbn [fst] in H.
    destruct ab.
    + inversion H; subst. split; [|discriminate].
      rewrite <- !app_assoc. cbn [app]. apply Permutation_sym, Permutation_middle.
    + destruct (flushG n (rev r ++ rev sent) st1) as [[[[[tr2 st2] oc2] al] lf]|] eqn:Hg; [|discriminate].
      inversion H; subst. destruct (IH _ _ _ _ _ _ _ Hg) as [HP HF]. split; [|exact HF].
      rewrite <- !app_assoc. cbn [app].
      apply Permutation_trans with (e :: rev r ++ sent ++ al); [apply Permutation_sym, Permutation_middle|].
      constructor. rewrite <- app_assoc in HP.
      apply Permutation_trans with (rev r ++ rev sent ++ al); [|exact HP].
      apply Permutation_app_head, Permutation_app_tail, Permutation_rev.
Qed.

(* with pairwise distinct event identities: each event that was queued or sent is delivered
   exactly once or handed to the dropper exactly once, never both *)
Corollary flush_exactly_once n q st tr st' oc allsent lft :
  flushG n q st = Some (tr, st', oc, allsent, lft) -> NoDup (q ++ allsent) -> NoDup (tr ++ lft).
Proof. intros H Hnd. eapply Permutation_NoDup; [apply (proj1 (flush_conservation _ _ _ _ _ _ _ _ H))|exact Hnd]. Qed.

(* an observation of the state that no delivery and no unwinding changes is unchanged by the
   whole run *)
Theorem flush_preserves {T} (pi : St -> T) :
  (forall e st, pi (snd (fst (run e st))) = pi st) -> (forall q st, pi (unwind q st) = pi st) ->
  forall n q st acc tr st' oc, flush n q st acc = Some (tr, st', oc) -> pi st' = pi st.
Proof.
  intros Hr Hu. induction n as [|n IH]; intros q st acc tr st' oc H; [discriminate|].
  cbn [flush] in H. unfold step in H. destruct (rev q) as [|e r]; [inversion H; reflexivity|].
  specialize (Hr e st). destruct (run e st) as [[sent st1] ab]. cbn [fst snd] in Hr.
  destruct ab.
  - inversion H; subst. now rewrite Hu.
  - apply IH in H. now rewrite H.
Qed.

(* a predicate on the state that every delivery and the unwinding keep is kept by the whole run *)
Theorem flush_invariant (P : St -> Prop) :
  (forall e st, P st -> P (snd (fst (run e st)))) -> (forall q st, P st -> P (unwind q st)) ->
  forall n q st acc tr st' oc, flush n q st acc = Some (tr, st', oc) -> P st -> P st'.
Proof.
  intros Hr Hu. induction n as [|n IH]; intros q st acc tr st' oc H HP; [discriminate|].
  cbn [flush] in H. unfold step in H. destruct (rev q) as [|e r]; [inversion H; subst; exact HP|].
  specialize (Hr e st HP). destruct (run e st) as [[sent st1] ab]. cbn [fst snd] in Hr.
  destruct ab.
  - inversion H; subst. now apply Hu.
  - eapply IH; eauto.
Qed.
End Loop.
