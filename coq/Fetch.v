(* Fetch.v : the fetcher caches (C10, C06 at world level).
     CI w q c : the cache c of a parameter with query q lists, once each, exactly the non-empty
                archetypes of w that q matches, each with its current identity and buffer epoch.
   FI: every cache-bearing parameter of every live handler satisfies CI; with the refresh-listener
   sets (RfInv) this is an invariant of every call, so a handler's Fetcher / Single / targeted
   receiver always sees exactly the current entities its query matches, and never a stale entry. *)
From Coq Require Import List NArith Bool Lia Sorted Permutation.
Import ListNotations.
Require Import EV.Base EV.ListN EV.Access EV.Query EV.SlotMap EV.Reserve EV.HList EV.Loop EV.World EV.SlotMapGet
  EV.AccessProofs EV.ArchProofs EV.QueryProofs EV.WorldFrame EV.Store EV.Graph EV.Effects EV.Reach EV.RemoveComp EV.Member EV.Listen EV.Order.
Open Scope N_scope.

(* ---------- caches as finite maps from archetype index ---------- *)
Lemma npos_split {A} (p : A -> bool) l : forall i, nposition p l = Some i ->
  exists l1 x l2, l = l1 ++ x :: l2 /\ p x = true /\ (forall y, In y l1 -> p y = false) /\ i = nlen l1.
Proof.
  induction l as [|h t IH]; intros i H; cbn [nposition] in H; [discriminate|]. destruct (p h) eqn:E.
  - inversion H; subst. exists [], h, t. repeat split; auto. intros y [].
  - destruct (nposition p t) as [j|] eqn:Ej; [|discriminate]. inversion H; subst. destruct (IH j eq_refl) as (l1 & x & l2 & -> & Hp & Hn & ->).
    exists (h :: l1), x, l2. split; [reflexivity|]. split; [exact Hp|]. split; [intros y [<-|Hy]; auto|]. rewrite nlen_cons. lia.
Qed.

Definition idx_nodup (c : list centry) : Prop := NoDup (map ce_idx c).

Lemma idx_nodup_in c x y : idx_nodup c -> In x c -> In y c -> ce_idx x = ce_idx y -> x = y.
Proof.
  unfold idx_nodup. induction c as [|h t IH]; cbn [map]; intros Hnd Hx Hy E; [destruct Hx|]. inversion Hnd; subst.
  destruct Hx as [<-|Hx], Hy as [<-|Hy]; auto.
  - exfalso. apply H1. rewrite E. now apply in_map.
  - exfalso. apply H1. rewrite <- E. now apply in_map.
Qed.

Lemma cache_insert_spec c e0 : idx_nodup c ->
  idx_nodup (cache_insert c e0) /\ forall x, In x (cache_insert c e0) <-> x = e0 \/ (In x c /\ ce_idx x <> ce_idx e0).
Proof.
  intros Hnd. unfold cache_insert. destruct (nposition (fun x => ce_idx x =? ce_idx e0) c) as [i|] eqn:Ep.
  - destruct (npos_split _ _ _ Ep) as (l1 & old & l2 & -> & Hp & Hn & ->). apply N.eqb_eq in Hp. rewrite nset_app_mid.
    unfold idx_nodup in *. rewrite map_app in *. cbn [map] in *. rewrite Hp in Hnd. split; [exact Hnd|].
    intros x. rewrite !in_app_iff. cbn [In]. split.
    + intros [H|[<-|H]]; [right|now left|right].
      * split; [now left|]. intros E. apply NoDup_remove_2 in Hnd. apply Hnd. apply in_or_app. left. rewrite <- E. now apply in_map.
      * split; [right; now right|]. intros E. apply NoDup_remove_2 in Hnd. apply Hnd. apply in_or_app. right. rewrite <- E. now apply in_map.
    + intros [->|[[H|[<-|H]] Hne]]; [right; now left|now left|congruence|right; now right].
  - pose proof (ArchProofs.nposition_none _ _ Ep) as Hn. split.
    + unfold idx_nodup in *. rewrite map_app. cbn [map]. apply NoDup_app_snoc; [exact Hnd|]. intros X. apply in_map_iff in X as (y & E & Hy).
      specialize (Hn y Hy). cbn in Hn. apply N.eqb_neq in Hn. congruence.
    + intros x. rewrite in_app_iff. cbn [In]. split.
      * intros [H|[<-|[]]]; [right; split; [exact H|]|now left]. specialize (Hn x H). cbn in Hn. now apply N.eqb_neq in Hn.
      * intros [->|[H _]]; [right; now left|now left].
Qed.


Lemma cache_remove_spec c ai : idx_nodup c ->
  idx_nodup (cache_remove c ai) /\ forall x, In x (cache_remove c ai) <-> In x c /\ ce_idx x <> ai.
Proof.
  intros Hnd. unfold cache_remove. destruct (nposition (fun x => ce_idx x =? ai) c) as [i|] eqn:Ep.
  - destruct (npos_split _ _ _ Ep) as (l1 & old & l2 & -> & Hp & Hn & ->). apply N.eqb_eq in Hp.
    pose proof (swap_remove_perm l1 old l2) as Hperm. unfold idx_nodup in *.
    assert (Hnd' : NoDup (map ce_idx (l1 ++ l2))) by (rewrite map_app in *; cbn [map] in Hnd; eapply NoDup_remove_1; eauto).
    assert (Hnot : forall y, In y (l1 ++ l2) -> ce_idx y <> ai).
    { intros y Hy E. rewrite map_app in Hnd. cbn [map] in Hnd. apply NoDup_remove_2 in Hnd. apply Hnd. rewrite Hp, <- E. rewrite <- map_app. now apply in_map. }
    split.
    + eapply Permutation_NoDup; [apply Permutation_map; symmetry; exact Hperm|exact Hnd'].
    + intros x. split.
      * intros H. apply (Permutation_in _ Hperm) in H. split; [|now apply Hnot]. apply in_app_or in H as [H|H]; apply in_or_app; [now left|right; now right].
      * intros [H Hne]. apply (Permutation_in _ (Permutation_sym Hperm)). apply in_app_or in H as [H|[<-|H]]; [apply in_or_app; now left|congruence|apply in_or_app; now right].
  - pose proof (ArchProofs.nposition_none _ _ Ep) as Hn. split; [exact Hnd|]. intros x. split; [|tauto]. intros H. split; [exact H|]. specialize (Hn x H). cbn in Hn. now apply N.eqb_neq in Hn.
Qed.

(* ---------- what a cache must contain ---------- *)
Definition amatch (a : arch) (q : query) : bool := match arch_state (arch_has a) q with Some _ => true | None => false end.

(* the part of an archetype a cache entry depends on *)
Definition cview (a : arch) := (a_comps a, a_uid a, a_epoch a, 0 <? nlen (a_rows a)).

Definition good (w : world) (q : query) (j : N) (c : list centry) : Prop :=
  forall u e, In (j, u, e) c <-> exists a, arch_at w j = Some a /\ 0 < nlen (a_rows a) /\ amatch a q = true /\ u = a_uid a /\ e = a_epoch a.

Definition CI (w : world) (q : query) (c : list centry) : Prop := idx_nodup c /\ forall j, good w q j c.

Lemma amatch_comps a a' q : a_comps a' = a_comps a -> amatch a' q = amatch a q.
Proof. intros E. unfold amatch, arch_has. now rewrite E. Qed.

Lemma good_ext w w' q j c : option_map cview (arch_at w' j) = option_map cview (arch_at w j) -> good w q j c -> good w' q j c.
Proof.
  intros E G u e. rewrite (G u e). destruct (arch_at w' j) as [a'|], (arch_at w j) as [a|]; cbn in E; try discriminate.
  - injection E as Ec Eu Ee En. split; intros (x & X & Y & Z & -> & ->); inversion X; subst x.
    + exists a'. split; [reflexivity|]. split; [apply N.ltb_lt; rewrite En; now apply N.ltb_lt|]. split; [now rewrite (amatch_comps a a' q Ec)|auto].
    + exists a. split; [reflexivity|]. split; [apply N.ltb_lt; rewrite <- En; now apply N.ltb_lt|]. split; [now rewrite <- (amatch_comps a a' q Ec)|auto].
  - split; intros (x & X & _); discriminate.
Qed.

Lemma good_insert_same w q ai a c : idx_nodup c -> arch_at w ai = Some a -> 0 < nlen (a_rows a) -> amatch a q = true ->
  good w q ai (cache_insert c (ai, a_uid a, a_epoch a)).
Proof.
  intros Hnd Ha Hn Hm u e. destruct (cache_insert_spec c (ai, a_uid a, a_epoch a) Hnd) as [_ Hin]. rewrite Hin. cbn. split.
  - intros [X|[_ X]]; [inversion X; subst; exists a; auto|now contradiction X].
  - intros (x & X & _ & _ & -> & ->). rewrite Ha in X. inversion X; subst x. now left.
Qed.
Lemma good_insert_other w q ai j c e0 : idx_nodup c -> j <> ai -> ce_idx e0 = ai -> good w q j c -> good w q j (cache_insert c e0).
Proof.
  intros Hnd Hne He G u e. destruct (cache_insert_spec c e0 Hnd) as [_ Hin]. rewrite Hin, <- (G u e). cbn. rewrite He. split.
  - intros [X|[X _]]; [subst e0; cbn in He; congruence|exact X].
  - intros X. right. split; [exact X|exact Hne].
Qed.
Lemma good_remove_same w q ai c : idx_nodup c -> (forall a, arch_at w ai = Some a -> 0 < nlen (a_rows a) -> amatch a q = false) -> good w q ai (cache_remove c ai).
Proof.
  intros Hnd Hno u e. destruct (cache_remove_spec c ai Hnd) as [_ Hin]. rewrite Hin. cbn. split; [intros [_ X]; now contradiction X|].
  intros (a & X & Y & Z & _). rewrite (Hno a X Y) in Z. discriminate.
Qed.
Lemma good_remove_other w q ai j c : idx_nodup c -> j <> ai -> good w q j c -> good w q j (cache_remove c ai).
Proof.
  intros Hnd Hne G u e. destruct (cache_remove_spec c ai Hnd) as [_ Hin]. rewrite Hin, <- (G u e). cbn. tauto.
Qed.
(* a cache with no entry for j is good at j as soon as j needs none *)
Lemma good_none w q j c : (forall u e, ~ In (j, u, e) c) -> (forall a, arch_at w j = Some a -> 0 < nlen (a_rows a) -> amatch a q = false) -> good w q j c.
Proof.
  intros Hn Hno u e. split; [intros X; now apply Hn in X|]. intros (a & X & Y & Z & _). rewrite (Hno a X Y) in Z. discriminate.
Qed.
Lemma good_no_entry w q j c : good w q j c -> (forall a, arch_at w j = Some a -> 0 < nlen (a_rows a) -> amatch a q = false) -> forall u e, ~ In (j, u, e) c.
Proof. intros G Hno u e X. apply G in X as (a & A & B & C & _). rewrite (Hno a A B) in C. discriminate. Qed.

(* ---------- parameters and handlers ---------- *)
Definition pquery (p : rparam) : option (query * list centry) :=
  match p with RRecvT _ q c | RFetch _ q c => Some (q, c) | _ => None end.

(* every cache-bearing parameter of every live handler is duplicate-free and good at every archetype not in S *)
Definition FIx (w : world) (S : N -> Prop) : Prop :=
  forall hk h p q c, hlive w hk h -> In p (h_params h) -> pquery p = Some (q, c) -> idx_nodup c /\ forall j, ~ S j -> good w q j c.
Definition FI (w : world) : Prop := FIx w (fun _ => False).

(* refresh listeners: exactly the live handlers whose union access matches the archetype *)
Definition RfInv (w : world) : Prop :=
  forall ai a, arch_at w ai = Some a -> forall hk, In hk (a_refresh a) <-> exists h, hlive w hk h /\ ca_matches (arch_has a) (h_archfilter h) = true.
(* static: a parameter's query can only match where the handler's union access matches *)
Definition PInv (w : world) : Prop :=
  forall hk h p q c, hlive w hk h -> In p (h_params h) -> pquery p = Some (q, c) -> forall a, amatch a q = true -> ca_matches (arch_has a) (h_archfilter h) = true.

Lemma pquery_refresh ai a p q c : pquery p = Some (q, c) ->
  pquery (param_refresh ai a p) = Some (q, if amatch a q then cache_insert c (ai, a_uid a, a_epoch a) else c).
Proof.
  destruct p; cbn [pquery param_refresh]; intros H; inversion H; subst; unfold amatch; destruct (arch_state (arch_has a) q); reflexivity.
Qed.
Lemma pquery_refresh_none ai a p : pquery p = None -> param_refresh ai a p = p.
Proof. destruct p; cbn; intros H; try discriminate; reflexivity. Qed.
Lemma pquery_remove ai p q c : pquery p = Some (q, c) -> pquery (param_remove ai p) = Some (q, cache_remove c ai).
Proof. destruct p; cbn [pquery param_remove]; intros H; inversion H; subst; reflexivity. Qed.
Lemma pquery_refresh_inv ai a p q c' : pquery (param_refresh ai a p) = Some (q, c') ->
  exists c, pquery p = Some (q, c) /\ c' = if amatch a q then cache_insert c (ai, a_uid a, a_epoch a) else c.
Proof.
  intros H. destruct (pquery p) as [[q0 c0]|] eqn:E.
  - rewrite (pquery_refresh ai a p q0 c0 E) in H. inversion H; subst. eauto.
  - rewrite (pquery_refresh_none ai a p E), E in H. discriminate.
Qed.
Lemma pquery_remove_inv ai p q c' : pquery (param_remove ai p) = Some (q, c') -> exists c, pquery p = Some (q, c) /\ c' = cache_remove c ai.
Proof. destruct p; cbn [pquery param_remove]; intros H; inversion H; subst; eauto. Qed.

(* ---------- updating a set of handlers by key ---------- *)
Lemma fold_upd_keys (f : hinfo -> hinfo) ks : NoDup ks -> forall hs x,
  sm_get x (fold_left (fun hs hk => upd_by_key hs hk f) ks hs) = if in_dec key_eq_dec x ks then option_map f (sm_get x hs) else sm_get x hs.
Proof.
  induction ks as [|k ks IH]; intros Hnd hs x; cbn [fold_left]; [reflexivity|]. inversion Hnd as [|? ? Hni Hnd']; subst. rewrite (IH Hnd').
  destruct (in_dec key_eq_dec x ks) as [Hin|Hn]; destruct (in_dec key_eq_dec x (k :: ks)) as [Hin'|Hn'].
  - assert (x <> k) by (intros ->; contradiction). now rewrite upd_key_get_other.
  - exfalso. apply Hn'. now right.
  - destruct Hin' as [<-|X]; [|contradiction]. destruct (sm_get k hs) as [v|] eqn:E; [now rewrite (upd_key_get_self hs k f v E)|].
    unfold upd_by_key. now rewrite E, E.
  - assert (x <> k) by (intros ->; apply Hn'; now left). now rewrite upd_key_get_other.
Qed.

Lemma notify_refresh_hs w ai a : arch_at w ai = Some a -> NoDup (a_refresh a) -> forall x,
  sm_get x (w_hs (notify_refresh w ai)) = if in_dec key_eq_dec x (a_refresh a) then option_map (h_refresh ai a) (sm_get x (w_hs w)) else sm_get x (w_hs w).
Proof. intros Ha Hnd x. unfold notify_refresh. unfold arch_at in Ha. rewrite Ha. cbn [w_hs set_hs]. now apply fold_upd_keys. Qed.
Lemma notify_remove_with_hs w ai a : NoDup (a_refresh a) -> forall x,
  sm_get x (w_hs (notify_remove_with w ai a)) = if in_dec key_eq_dec x (a_refresh a) then option_map (h_remove_arch ai) (sm_get x (w_hs w)) else sm_get x (w_hs w).
Proof. intros Hnd x. unfold notify_remove_with. cbn [w_hs set_hs]. now apply fold_upd_keys. Qed.

Lemma notify_refresh_arch_at w ai j : arch_at (notify_refresh w ai) j = arch_at w j.
Proof. unfold arch_at. now rewrite notify_refresh_archs. Qed.
Lemma notify_remove_with_arch_at w ai a j : arch_at (notify_remove_with w ai a) j = arch_at w j.
Proof. reflexivity. Qed.

(* ---------- the refresh notification repairs the caches at one archetype ---------- *)
Lemma notify_refresh_FIx w ai a (S : N -> Prop) :
  arch_at w ai = Some a -> 0 < nlen (a_rows a) -> NoDup (a_refresh a) ->
  (forall hk, In hk (a_refresh a) <-> exists h, hlive w hk h /\ ca_matches (arch_has a) (h_archfilter h) = true) ->
  PInv w ->
  (forall hk h p q c, hlive w hk h -> In p (h_params h) -> pquery p = Some (q, c) -> amatch a q = false -> forall u e, ~ In (ai, u, e) c) ->
  FIx w (fun j => j = ai \/ S j) -> FIx (notify_refresh w ai) S.
Proof.
  intros Ha Hn Hnd Hrf HP Hne HF hk h' p' q c' Hl Hp Hq. unfold hlive in Hl. rewrite (notify_refresh_hs w ai a Ha Hnd) in Hl.
  destruct (in_dec key_eq_dec hk (a_refresh a)) as [Hin|Hnin].
  - destruct (sm_get hk (w_hs w)) as [h|] eqn:E; [|discriminate]. cbn in Hl. inversion Hl; subst h'. clear Hl.
    unfold h_refresh in Hp. cbn [h_params set_params] in Hp. apply in_map_iff in Hp as (p & <- & Hp).
    destruct (pquery_refresh_inv ai a p q c' Hq) as (c & Hqc & ->). destruct (HF hk h p q c E Hp Hqc) as [Hnd0 Hg].
    split; [destruct (amatch a q); [exact (proj1 (cache_insert_spec c _ Hnd0))|exact Hnd0]|].
    intros j Hj. assert (Hext : forall j0, option_map cview (arch_at (notify_refresh w ai) j0) = option_map cview (arch_at w j0)) by (intros j0; now rewrite (notify_refresh_arch_at w ai j0)).
    apply (good_ext w); [apply Hext|]. destruct (N.eq_dec j ai) as [->|Hne'].
    + destruct (amatch a q) eqn:Em; [now apply good_insert_same|]. apply good_none; [exact (Hne hk h p q c E Hp Hqc Em)|]. intros a0 X _. rewrite Ha in X. now inversion X; subst.
    + assert (Hg' : good w q j c) by (apply Hg; intros [X|X]; [contradiction|contradiction]).
      destruct (amatch a q); [apply (good_insert_other w q ai j c (ai, a_uid a, a_epoch a) Hnd0 Hne' eq_refl Hg')|exact Hg'].
  - destruct (HF hk h' p' q c' Hl Hp Hq) as [Hnd0 Hg]. split; [exact Hnd0|]. intros j Hj.
    apply (good_ext w); [now rewrite (notify_refresh_arch_at w ai j)|]. destruct (N.eq_dec j ai) as [->|Hne'].
    + assert (Em : amatch a q = false).
      { destruct (amatch a q) eqn:Em; [|reflexivity]. exfalso. apply Hnin. apply Hrf. exists h'. split; [exact Hl|]. eapply HP; eauto. }
      apply good_none; [exact (Hne hk h' p' q c' Hl Hp Hq Em)|]. intros a0 X _. rewrite Ha in X. now inversion X; subst.
    + apply Hg. intros [X|X]; contradiction.
Qed.

(* ---------- the removal notification ---------- *)
Lemma notify_remove_with_FIx w ai a (S : N -> Prop) :
  (forall a', arch_at w ai = Some a' -> nlen (a_rows a') = 0) -> NoDup (a_refresh a) ->
  (forall hk h p q c u e, hlive w hk h -> In p (h_params h) -> pquery p = Some (q, c) -> In (ai, u, e) c -> In hk (a_refresh a)) ->
  FIx w (fun j => j = ai \/ S j) -> FIx (notify_remove_with w ai a) S.
Proof.
  intros Hemp Hnd Hcov HF hk h' p' q c' Hl Hp Hq. unfold hlive in Hl. rewrite (notify_remove_with_hs w ai a Hnd) in Hl.
  assert (Hno : forall a0, arch_at w ai = Some a0 -> 0 < nlen (a_rows a0) -> amatch a0 q = false) by (intros a0 X Y; rewrite (Hemp a0 X) in Y; lia).
  destruct (in_dec key_eq_dec hk (a_refresh a)) as [Hin|Hnin].
  - destruct (sm_get hk (w_hs w)) as [h|] eqn:E; [|discriminate]. cbn in Hl. inversion Hl; subst h'. clear Hl.
    unfold h_remove_arch in Hp. cbn [h_params set_params] in Hp. apply in_map_iff in Hp as (p & <- & Hp).
    destruct (pquery_remove_inv ai p q c' Hq) as (c & Hqc & ->). destruct (HF hk h p q c E Hp Hqc) as [Hnd0 Hg].
    split; [exact (proj1 (cache_remove_spec c ai Hnd0))|]. intros j Hj. change (arch_at (notify_remove_with w ai a)) with (arch_at w) in *.
    unfold good. change (arch_at (notify_remove_with w ai a) j) with (arch_at w j).
    destruct (N.eq_dec j ai) as [->|Hne']; [now apply good_remove_same|]. apply good_remove_other; [exact Hnd0|exact Hne'|]. apply Hg. intros [X|X]; contradiction.
  - destruct (HF hk h' p' q c' Hl Hp Hq) as [Hnd0 Hg]. split; [exact Hnd0|]. intros j Hj. unfold good. change (arch_at (notify_remove_with w ai a) j) with (arch_at w j).
    destruct (N.eq_dec j ai) as [->|Hne'].
    + apply good_none; [|exact Hno]. intros u e X. apply Hnin. eapply Hcov; eauto.
    + apply Hg. intros [X|X]; contradiction.
Qed.

(* ---------- RfInv and PInv only depend on static handler data, parameter queries, components and refresh sets ---------- *)
Definition pqs (h : hinfo) : list (option query) := map (fun p => option_map fst (pquery p)) (h_params h).
Definition hview2 (h : hinfo) := (hstat h, pqs h).
Definition rview (a : arch) := (a_comps a, a_refresh a).

Lemma pqs_refresh ai a h : pqs (h_refresh ai a h) = pqs h.
Proof.
  unfold pqs, h_refresh. cbn [h_params set_params]. rewrite map_map. apply map_ext. intros p.
  destruct (pquery p) as [[q c]|] eqn:E; [now rewrite (pquery_refresh ai a p q c E)|now rewrite (pquery_refresh_none ai a p E), E].
Qed.
Lemma pqs_remove ai h : pqs (h_remove_arch ai h) = pqs h.
Proof.
  unfold pqs, h_remove_arch. cbn [h_params set_params]. rewrite map_map. apply map_ext. intros p.
  destruct p; reflexivity.
Qed.

Lemma hview2_live w w' : sview hview2 (w_hs w') = sview hview2 (w_hs w) ->
  forall hk h', hlive w' hk h' -> exists h, hlive w hk h /\ hstat h' = hstat h /\ pqs h' = pqs h.
Proof.
  intros Hv hk h' Hl. unfold hlive in *. pose proof (sview_get hview2 (w_hs w) (w_hs w') hk Hv) as E. rewrite Hl in E.
  destruct (sm_get hk (w_hs w)) as [h|]; cbn in E; [|discriminate]. unfold hview2 in E. assert (E1 : hstat h' = hstat h) by congruence. assert (E2 : pqs h' = pqs h) by congruence.
  exists h. split; [reflexivity|]. split; assumption.
Qed.

Lemma pqs_param h h' p q c : pqs h' = pqs h -> In p (h_params h') -> pquery p = Some (q, c) -> exists p0 c0, In p0 (h_params h) /\ pquery p0 = Some (q, c0).
Proof.
  unfold pqs. intros E Hin Hq. assert (X : In (Some q) (map (fun p => option_map fst (pquery p)) (h_params h'))).
  { apply in_map_iff. exists p. split; [now rewrite Hq|exact Hin]. }
  rewrite E in X. apply in_map_iff in X as (p0 & Y & Hin0). destruct (pquery p0) as [[q0 c0]|] eqn:E0; cbn in Y; [|discriminate].
  inversion Y; subst q0. eauto.
Qed.

Lemma PInv_ext w w' : sview hview2 (w_hs w') = sview hview2 (w_hs w) -> PInv w -> PInv w'.
Proof.
  intros Hv HP hk h' p q c Hl Hp Hq a Hm. destruct (hview2_live w w' Hv hk h' Hl) as (h & Hl0 & Es & Ep).
  destruct (pqs_param h h' p q c Ep Hp Hq) as (p0 & c0 & Hp0 & Hq0). assert (Ea : h_archfilter h' = h_archfilter h) by exact (f_equal h_archfilter Es). rewrite Ea. eapply HP; eauto.
Qed.
Lemma RfInv_ext w w' : sview hview2 (w_hs w') = sview hview2 (w_hs w) -> (forall j, option_map rview (arch_at w' j) = option_map rview (arch_at w j)) ->
  RfInv w -> RfInv w'.
Proof.
  intros Hv Ha HR ai a' Ha' hk. specialize (Ha ai). rewrite Ha' in Ha. destruct (arch_at w ai) as [a|] eqn:E; cbn in Ha; [|discriminate]. injection Ha as Ec Er.
  rewrite Er, (HR ai a E hk). unfold arch_has. rewrite Ec.
  assert (Hv' : sview hview2 (w_hs w) = sview hview2 (w_hs w')) by now symmetry.
  split; intros (h & Hl & Hm).
  - destruct (hview2_live w' w Hv' hk h Hl) as (h' & Hl' & Es & _). exists h'. split; [exact Hl'|]. assert (Ea : h_archfilter h = h_archfilter h') by exact (f_equal h_archfilter Es). now rewrite <- Ea.
  - destruct (hview2_live w w' Hv hk h Hl) as (h0 & Hl0 & Es & _). exists h0. split; [exact Hl0|]. assert (Ea : h_archfilter h = h_archfilter h0) by exact (f_equal h_archfilter Es). now rewrite <- Ea.
Qed.

Lemma hview2_notify_refresh w ai : sview hview2 (w_hs (notify_refresh w ai)) = sview hview2 (w_hs w).
Proof.
  unfold notify_refresh. destruct (slab_get (w_archs w) ai) as [a|]; [|reflexivity]. cbn [w_hs set_hs].
  apply (sview_fold_upd_key hview2 (fun _ => h_refresh ai a)). intros k v. unfold hview2. now rewrite hstat_refresh, pqs_refresh.
Qed.
Lemma hview2_notify_remove_with w ai a : sview hview2 (w_hs (notify_remove_with w ai a)) = sview hview2 (w_hs w).
Proof.
  unfold notify_remove_with. cbn [w_hs set_hs]. apply (sview_fold_upd_key hview2 (fun _ => h_remove_arch ai)). intros k v. unfold hview2. now rewrite hstat_remove_arch, pqs_remove.
Qed.

(* entries of caches only disappear under a removal notification *)
Lemma notify_remove_with_entries w ai a hk h' p' q c' x : NoDup (a_refresh a) ->
  hlive (notify_remove_with w ai a) hk h' -> In p' (h_params h') -> pquery p' = Some (q, c') -> In x c' ->
  (forall hk0 h0 p0 q0 c0, hlive w hk0 h0 -> In p0 (h_params h0) -> pquery p0 = Some (q0, c0) -> idx_nodup c0) ->
  exists h p c, hlive w hk h /\ In p (h_params h) /\ pquery p = Some (q, c) /\ In x c.
Proof.
  intros Hnd Hl Hp Hq Hx Hnds. unfold hlive in Hl. rewrite (notify_remove_with_hs w ai a Hnd) in Hl.
  destruct (in_dec key_eq_dec hk (a_refresh a)).
  - destruct (sm_get hk (w_hs w)) as [h|] eqn:E; [|discriminate]. cbn in Hl. inversion Hl; subst h'. unfold h_remove_arch in Hp. cbn [h_params set_params] in Hp.
    apply in_map_iff in Hp as (p & <- & Hp). destruct (pquery_remove_inv ai p q c' Hq) as (c & Hqc & ->).
    exists h, p, c. split; [exact E|]. split; [exact Hp|]. split; [exact Hqc|]. apply (proj2 (cache_remove_spec c ai (Hnds hk h p q c E Hp Hqc))) in Hx. tauto.
  - exists h', p', c'. auto.
Qed.

(* ---------- the full cache invariant ---------- *)
Definition RN (w : world) : Prop := forall ai a, arch_at w ai = Some a -> NoDup (a_refresh a).
Definition XI (w : world) : Prop := FI w /\ RfInv w /\ PInv w /\ RN w.

Lemma FIx_weaken w (S S' : N -> Prop) : (forall j, S j -> S' j) -> FIx w S -> FIx w S'.
Proof. intros H HF hk h p q c A B C. destruct (HF hk h p q c A B C) as [X Y]. split; [exact X|]. intros j Hj. apply Y. intros Z. apply Hj. now apply H. Qed.

(* caches, handlers and refresh sets untouched; archetypes change only in their rows / capacity / epoch *)
Lemma FIx_arch_change w w' (D : N -> Prop) : w_hs w' = w_hs w ->
  (forall j, ~ D j -> option_map cview (arch_at w' j) = option_map cview (arch_at w j)) -> FI w -> FIx w' D.
Proof.
  intros Hhs Hv HF hk h p q c Hl Hp Hq. unfold hlive in Hl. rewrite Hhs in Hl. destruct (HF hk h p q c Hl Hp Hq) as [X Y]. split; [exact X|].
  intros j Hj. apply (good_ext w); [now apply Hv|]. apply Y. tauto.
Qed.

(* an entry for an archetype means the handler listens to its refreshes *)
Lemma entry_cov w ai a hk h p q c u e : FI w -> RfInv w -> PInv w -> arch_at w ai = Some a ->
  hlive w hk h -> In p (h_params h) -> pquery p = Some (q, c) -> In (ai, u, e) c -> In hk (a_refresh a).
Proof.
  intros HF HR HP Ha Hl Hp Hq Hin. destruct (HF hk h p q c Hl Hp Hq) as [_ Hg]. apply (Hg ai (fun X => X)) in Hin as (a0 & A & _ & Hm & _).
  rewrite Ha in A. inversion A; subst a0. apply (HR ai a Ha hk). exists h. split; [exact Hl|]. eapply HP; eauto.
Qed.
Lemma no_entry_nomatch w ai a hk h p q c : FI w -> arch_at w ai = Some a -> hlive w hk h -> In p (h_params h) -> pquery p = Some (q, c) ->
  amatch a q = false -> forall u e, ~ In (ai, u, e) c.
Proof.
  intros HF Ha Hl Hp Hq Hm. destruct (HF hk h p q c Hl Hp Hq) as [_ Hg]. apply (good_no_entry w q ai c (Hg ai (fun X => X))).
  intros a0 A _. rewrite Ha in A. now inversion A; subst.
Qed.

Lemma slab_arch_at_set2 archs sai dst sa1 da2 sa da : sai <> dst -> slab_get archs sai = Some sa -> slab_get archs dst = Some da ->
  forall j, slab_get (slab_set (slab_set archs sai sa1) dst da2) j = if j =? dst then Some da2 else if j =? sai then Some sa1 else slab_get archs j.
Proof.
  intros Hne Hsa Hda j. destruct (j =? dst) eqn:E1.
  - apply N.eqb_eq in E1. subst j. eapply slab_get_set_eq. rewrite slab_get_set_neq by exact Hne. exact Hda.
  - apply N.eqb_neq in E1. rewrite slab_get_set_neq by auto. destruct (j =? sai) eqn:E2.
    + apply N.eqb_eq in E2. subst j. eapply slab_get_set_eq; eauto.
    + apply N.eqb_neq in E2. now rewrite slab_get_set_neq by auto.
Qed.

Lemma nlen_pos_get {A} (l : list A) i x : nget l i = Some x -> 0 < nlen l.
Proof. intros H. apply nget_some_lt in H. lia. Qed.

Lemma move_entity_XI w src dst nw w' : move_entity w src dst nw = ROk tt w' -> XI w -> XI w'.
Proof.
  intros Hm (HF & HR & HP & HN). unfold move_entity in Hm. destruct src as [sai srow]. destruct (slab_get (w_archs w) sai) as [sa|] eqn:Hsa; [|discriminate].
  destruct (sai =? dst) eqn:Esd.
  - (* in place *)
    destruct nw as [[c v]|]; [|inversion Hm; subst; split; [exact HF|split; [exact HR|split; [exact HP|exact HN]]]].
    destruct (nget (a_rows sa) srow) as [[e vals]|] eqn:Hrow; [|discriminate]. destruct (col_index (a_comps sa) c) as [ci|]; [|discriminate].
    inversion Hm; subst w'; clear Hm.
    set (sa' := set_rows sa (nset (a_rows sa) srow (e, nset vals ci v))).
    match goal with |- XI (set_archs ?x _) => set (w1 := x) end.
    assert (Hhs : w_hs (set_archs w1 (slab_set (w_archs w1) sai sa')) = w_hs w) by (unfold w1, drop_cval; destruct (ctag_has_drop _); reflexivity).
    assert (Har : w_archs w1 = w_archs w) by (unfold w1, drop_cval; destruct (ctag_has_drop _); reflexivity).
    assert (Hat : forall j, arch_at (set_archs w1 (slab_set (w_archs w1) sai sa')) j = if j =? sai then Some sa' else arch_at w j).
    { intros j. unfold arch_at. cbn [w_archs set_archs]. rewrite Har. destruct (j =? sai) eqn:E; [apply N.eqb_eq in E; subst; eapply slab_get_set_eq; eauto|].
      apply N.eqb_neq in E. now rewrite slab_get_set_neq by auto. }
    assert (Hcv : forall j, option_map cview (arch_at (set_archs w1 (slab_set (w_archs w1) sai sa')) j) = option_map cview (arch_at w j)).
    { intros j. rewrite Hat. destruct (j =? sai) eqn:E; [|reflexivity]. apply N.eqb_eq in E. subst j. unfold arch_at. rewrite Hsa. cbn [option_map]. f_equal.
      unfold cview, sa'. cbn [a_comps a_uid a_epoch a_rows set_rows]. now rewrite nlen_nset. }
    assert (Hrv : forall j, option_map rview (arch_at (set_archs w1 (slab_set (w_archs w1) sai sa')) j) = option_map rview (arch_at w j)).
    { intros j. rewrite Hat. destruct (j =? sai) eqn:E; [|reflexivity]. apply N.eqb_eq in E. subst j. unfold arch_at. now rewrite Hsa. }
    assert (Hv2 : sview hview2 (w_hs (set_archs w1 (slab_set (w_archs w1) sai sa'))) = sview hview2 (w_hs w)) by now rewrite Hhs.
    split; [|split; [eapply RfInv_ext; eauto|split; [eapply PInv_ext; eauto|]]].
    + apply (FIx_weaken _ (fun _ => False)); [tauto|]. apply (FIx_arch_change w); [exact Hhs|intros j _; apply Hcv|exact HF].
    + intros j a' Hj. specialize (Hrv j). rewrite Hj in Hrv. destruct (arch_at w j) as [a0|] eqn:E0; cbn in Hrv; [|discriminate]. injection Hrv as _ Er. rewrite Er. eapply HN; eauto.
  - (* to another archetype *)
    apply N.eqb_neq in Esd. destruct (slab_get (w_archs w) dst) as [da|] eqn:Hda; [|discriminate]. destruct (nget (a_rows sa) srow) as [[e vals]|] eqn:Hrow; [|discriminate].
    destruct (reserve_one da) as [da1 re] eqn:Hres. destruct (merge_row _ _ _ _ _) as [[dvals killed]|]; [|discriminate].
    set (w1 := fold_left _ killed w) in Hm. assert (A1 : w_archs w1 = w_archs w) by apply drops_fold_archs.
    assert (H1 : w_hs w1 = w_hs w) by (apply (fold_left_pres w_hs); intros w0 [c0 v0]; unfold drop_cval; now destruct (ctag_has_drop _)).
    set (sa1 := set_rows sa (swap_remove (a_rows sa) srow)) in Hm. set (da2 := set_rows da1 (a_rows da1 ++ [(e, dvals)])) in Hm.
    set (w2 := set_archs w1 (slab_set (slab_set (w_archs w1) sai sa1) dst da2)) in Hm.
    assert (Hsl : forall w0 e0 l w0', set_loc w0 e0 l = ROk tt w0' -> w_archs w0' = w_archs w0 /\ w_hs w0' = w_hs w0).
    { intros w0 e0 l w0' X. unfold set_loc in X. destruct (sm_get e0 (w_ents w0)); inversion X; subst. split; reflexivity. }
    destruct (set_loc w2 e (dst, nlen (a_rows da1))) as [[] w3|f w3] eqn:E3; cbn [rbind] in Hm; [|discriminate]. destruct (Hsl _ _ _ _ E3) as [A3 H3].
    set (r4 := match nget _ srow with Some _ => _ | None => _ end) in Hm.
    assert (X4 : forall w4, r4 = ROk tt w4 -> w_archs w4 = w_archs w3 /\ w_hs w4 = w_hs w3).
    { intros w4 X. unfold r4 in X. destruct (nget (a_rows sa1) srow) as [[se sv]|]; [|inversion X; subst; split; reflexivity]. destruct (sm_get se (w_ents w3)); [eapply Hsl; eauto|discriminate]. }
    destruct r4 as [[] w4|f w4]; cbn [rbind] in Hm; [|discriminate]. destruct (X4 w4 eq_refl) as [A4 H4].
    assert (Ar4 : w_archs w4 = slab_set (slab_set (w_archs w) sai sa1) dst da2) by (rewrite A4, A3; unfold w2; cbn [w_archs set_archs]; now rewrite A1).
    assert (Hs4 : w_hs w4 = w_hs w) by (rewrite H4, H3; unfold w2; cbn [w_hs set_archs]; exact H1).
    assert (Hat4 : forall j, arch_at w4 j = if j =? dst then Some da2 else if j =? sai then Some sa1 else arch_at w j).
    { intros j. unfold arch_at. rewrite Ar4. now apply (slab_arch_at_set2 (w_archs w) sai dst sa1 da2 sa da). }
    assert (Hda1 : da1 = fst (reserve_one da)) by now rewrite Hres. assert (Hre : re = snd (reserve_one da)) by now rewrite Hres.
    assert (Hd1c : a_comps da1 = a_comps da /\ a_uid da1 = a_uid da /\ a_refresh da1 = a_refresh da /\ a_rows da1 = a_rows da /\ (re = false -> a_epoch da1 = a_epoch da)).
    { rewrite Hda1, Hre. unfold reserve_one. destruct (nlen (a_rows da) =? a_cap da); cbn; repeat split; auto; discriminate. }
    destruct Hd1c as (Dc & Du & Dr & Drows & De).
    assert (Hsa_pos : 0 < nlen (a_rows sa)) by (eapply nlen_pos_get; eauto).
    assert (Hda2_len : nlen (a_rows da2) = nlen (a_rows da) + 1) by (unfold da2; cbn [a_rows set_rows]; rewrite nlen_app, Drows; reflexivity).
    (* step A: before the notifications *)
    set (D := fun j => (j = sai /\ nlen (a_rows sa1) = 0) \/ (j = dst /\ (re = true \/ nlen (a_rows da2) = 1))).
    assert (HFA : FIx w4 D).
    { apply (FIx_arch_change w); [exact Hs4| |exact HF]. intros j Hj. rewrite Hat4. destruct (j =? dst) eqn:E1.
      - apply N.eqb_eq in E1. subst j. unfold arch_at. rewrite Hda. cbn [option_map]. f_equal. unfold cview, da2. cbn [a_comps a_uid a_epoch a_rows set_rows].
        assert (Hre' : re = false) by (destruct re; [exfalso; apply Hj; right; auto|reflexivity]).
        assert (Hn1 : nlen (a_rows da2) <> 1) by (intros X; apply Hj; right; auto).
        rewrite Dc, Du, (De Hre'). f_equal. rewrite nlen_app. change (nlen [(e, dvals)]) with 1. rewrite Drows.
        assert (0 < nlen (a_rows da)) by lia. transitivity true; [apply N.ltb_lt; lia|symmetry; now apply N.ltb_lt].
      - destruct (j =? sai) eqn:E2; [|reflexivity]. apply N.eqb_eq in E2. subst j. unfold arch_at. rewrite Hsa. cbn [option_map]. f_equal. unfold cview, sa1. cbn [a_comps a_uid a_epoch a_rows set_rows].
        f_equal. assert (Hn0 : nlen (swap_remove (a_rows sa) srow) <> 0) by (intros X; apply Hj; left; auto).
        transitivity true; [apply N.ltb_lt; lia|symmetry; now apply N.ltb_lt]. }
    assert (Hv24 : sview hview2 (w_hs w4) = sview hview2 (w_hs w)) by now rewrite Hs4.
    assert (Hrv4 : forall j, option_map rview (arch_at w4 j) = option_map rview (arch_at w j)).
    { intros j. rewrite Hat4. destruct (j =? dst) eqn:E1; [apply N.eqb_eq in E1; subst; unfold arch_at; rewrite Hda; cbn; unfold rview, da2; cbn [a_comps a_refresh set_rows]; now rewrite Dc, Dr|].
      destruct (j =? sai) eqn:E2; [apply N.eqb_eq in E2; subst; unfold arch_at; now rewrite Hsa|reflexivity]. }
    assert (HR4 : RfInv w4) by (eapply RfInv_ext; eauto). assert (HP4 : PInv w4) by (eapply PInv_ext; eauto).
    assert (HN4 : RN w4).
    { intros j a' Hj. specialize (Hrv4 j). rewrite Hj in Hrv4. destruct (arch_at w j) as [a0|] eqn:E0; cbn in Hrv4; [|discriminate]. injection Hrv4 as _ Er. rewrite Er. eapply HN; eauto. }
    assert (Hsa4 : arch_at w4 sai = Some sa1) by (rewrite Hat4; replace (sai =? dst) with false by (symmetry; now apply N.eqb_neq); now rewrite N.eqb_refl).
    assert (Hda4 : arch_at w4 dst = Some da2) by (rewrite Hat4; now rewrite N.eqb_refl).
    (* step B: the source became empty *)
    set (w5 := if nlen (a_rows sa1) =? 0 then notify_remove w4 sai else w4) in Hm.
    set (D5 := fun j => j = dst /\ (re = true \/ nlen (a_rows da2) = 1)).
    assert (H5 : FIx w5 D5 /\ sview hview2 (w_hs w5) = sview hview2 (w_hs w4) /\ (forall j, arch_at w5 j = arch_at w4 j) /\
                 (forall hk h' p' q c' x, hlive w5 hk h' -> In p' (h_params h') -> pquery p' = Some (q, c') -> In x c' ->
                    exists h p c, hlive w hk h /\ In p (h_params h) /\ pquery p = Some (q, c) /\ In x c)).
    { unfold w5. destruct (nlen (a_rows sa1) =? 0) eqn:E0.
      - apply N.eqb_eq in E0. unfold notify_remove. unfold arch_at in Hsa4. rewrite Hsa4.
        assert (Hnd1 : NoDup (a_refresh sa1)) by (apply (HN4 sai sa1); exact Hsa4).
        split; [|split; [apply hview2_notify_remove_with|split; [reflexivity|]]].
        + apply (notify_remove_with_FIx w4 sai sa1 D5); [intros a' X; unfold arch_at in X; rewrite Hsa4 in X; inversion X; subst; exact E0|exact Hnd1| |].
          * intros hk h p q c u e0 Hl Hp Hq Hin. unfold hlive in Hl. rewrite Hs4 in Hl. change (a_refresh sa1) with (a_refresh sa).
            eapply (entry_cov w sai sa); eauto.
          * apply (FIx_weaken _ D); [|exact HFA]. intros j [[-> _]|X]; [now left|right; exact X].
        + intros hk h' p' q c' x Hl Hp Hq Hx.
          destruct (notify_remove_with_entries w4 sai sa1 hk h' p' q c' x Hnd1 Hl Hp Hq Hx) as (h & p & c & A & B & C & E).
          { intros hk0 h0 p0 q0 c0 X Y Z. unfold hlive in X. rewrite Hs4 in X. exact (proj1 (HF hk0 h0 p0 q0 c0 X Y Z)). }
          exists h, p, c. unfold hlive in A. rewrite Hs4 in A. auto.
      - apply N.eqb_neq in E0. split; [|split; [reflexivity|split; [reflexivity|]]].
        + apply (FIx_weaken _ D); [|exact HFA]. intros j [[_ X]|X]; [contradiction|exact X].
        + intros hk h' p' q c' x Hl Hp Hq Hx. exists h', p', c'. unfold hlive in Hl. rewrite Hs4 in Hl. auto. }
    destruct H5 as (HF5 & Hv5 & Hat5 & Hent5).
    assert (Hrv5 : forall j, option_map rview (arch_at w5 j) = option_map rview (arch_at w4 j)) by (intros j; now rewrite Hat5).
    assert (HR5 : RfInv w5) by (eapply RfInv_ext; eauto). assert (HP5 : PInv w5) by (eapply PInv_ext; eauto).
    assert (HN5 : RN w5) by (intros j a' Hj; rewrite Hat5 in Hj; eapply HN4; eauto).
    (* step C: the destination became non-empty or was reallocated *)
    inversion Hm; subst w'; clear Hm. change (a_rows da1 ++ [(e, dvals)]) with (a_rows da2).
    destruct (re || (nlen (a_rows da2) =? 1)) eqn:Ec.
    + assert (Hda5 : arch_at w5 dst = Some da2) by now rewrite Hat5.
      assert (HF6 : FIx (notify_refresh w5 dst) (fun _ => False)).
      { apply (notify_refresh_FIx w5 dst da2 (fun _ => False)); [exact Hda5|lia|eapply HN5; eauto|apply (HR5 dst da2 Hda5)|exact HP5| |].
        - intros hk h' p' q c' Hl Hp Hq Hmq u e0 Hin. destruct (Hent5 hk h' p' q c' (dst, u, e0) Hl Hp Hq Hin) as (h & p & c & A & B & C & E).
          eapply (no_entry_nomatch w dst da); eauto. rewrite <- Hmq. symmetry. apply amatch_comps. unfold da2. cbn [a_comps set_rows]. exact Dc.
        - apply (FIx_weaken _ D5); [|exact HF5]. intros j [-> X]. now left. }
      split; [exact HF6|]. split; [eapply RfInv_ext; [apply hview2_notify_refresh|intros j; now rewrite notify_refresh_arch_at|exact HR5]|].
      split; [eapply PInv_ext; [apply hview2_notify_refresh|exact HP5]|]. intros j a' Hj. rewrite notify_refresh_arch_at in Hj. eapply HN5; eauto.
    + split; [|auto]. apply (FIx_weaken _ D5); [|exact HF5]. intros j [_ [X|X]]; apply orb_false_iff in Ec as [E1 E2]; [congruence|apply N.eqb_neq in E2; contradiction].
Qed.

Lemma XI_ext w w' : w_hs w' = w_hs w ->
  (forall j, option_map cview (arch_at w' j) = option_map cview (arch_at w j)) ->
  (forall j, option_map rview (arch_at w' j) = option_map rview (arch_at w j)) -> XI w -> XI w'.
Proof.
  intros Hhs Hcv Hrv (HF & HR & HP & HN). assert (Hv2 : sview hview2 (w_hs w') = sview hview2 (w_hs w)) by now rewrite Hhs.
  split; [|split; [eapply RfInv_ext; eauto|split; [eapply PInv_ext; eauto|]]].
  - apply (FIx_weaken _ (fun _ => False)); [tauto|]. apply (FIx_arch_change w); [exact Hhs|intros j _; apply Hcv|exact HF].
  - intros j a' Hj. specialize (Hrv j). rewrite Hj in Hrv. destruct (arch_at w j) as [a0|] eqn:E0; cbn in Hrv; [|discriminate]. injection Hrv as _ Er. rewrite Er. eapply HN; eauto.
Qed.

Lemma remove_entity_XI w loc w' : remove_entity w loc = ROk tt w' -> XI w -> XI w'.
Proof.
  intros Hm (HF & HR & HP & HN). unfold remove_entity in Hm. destruct loc as [ai row]. destruct (slab_get (w_archs w) ai) as [a|] eqn:Ha; [|discriminate].
  destruct (nget (a_rows a) row) as [[e vals]|] eqn:Hrow; [|discriminate].
  set (w1 := fold_left _ (combine (a_comps a) vals) w) in Hm. assert (A1 : w_archs w1 = w_archs w) by apply drops_fold_archs.
  assert (H1 : w_hs w1 = w_hs w) by (apply (fold_left_pres w_hs); intros w0 [c0 v0]; unfold drop_cval; now destruct (ctag_has_drop _)).
  set (a1 := set_rows a (swap_remove (a_rows a) row)) in Hm. set (w2 := set_archs w1 (slab_set (w_archs w1) ai a1)) in Hm.
  destruct (sm_remove e (w_ents w2)) as [[v ents']|]; [|discriminate].
  assert (Hsl : forall w0 e0 l w0', set_loc w0 e0 l = ROk tt w0' -> w_archs w0' = w_archs w0 /\ w_hs w0' = w_hs w0).
  { intros w0 e0 l w0' X. unfold set_loc in X. destruct (sm_get e0 (w_ents w0)); inversion X; subst. split; reflexivity. }
  set (w3 := set_ents w2 ents') in Hm.
  set (r4 := match nget _ row with Some _ => _ | None => _ end) in Hm.
  assert (X4 : forall w4, r4 = ROk tt w4 -> w_archs w4 = w_archs w3 /\ w_hs w4 = w_hs w3).
  { intros w4 X. unfold r4 in X. destruct (nget (a_rows a1) row) as [[de dv]|]; [|inversion X; subst; split; reflexivity]. destruct (sm_get de (w_ents w3)); [eapply Hsl; eauto|discriminate]. }
  destruct r4 as [[] w4|f w4]; cbn [rbind] in Hm; [|discriminate]. destruct (X4 w4 eq_refl) as [A4 H4].
  assert (Ar4 : w_archs w4 = slab_set (w_archs w) ai a1) by (rewrite A4; unfold w3, w2; cbn [w_archs set_ents set_archs]; now rewrite A1).
  assert (Hs4 : w_hs w4 = w_hs w) by (rewrite H4; unfold w3, w2; cbn [w_hs set_ents set_archs]; exact H1).
  assert (Hat4 : forall j, arch_at w4 j = if j =? ai then Some a1 else arch_at w j).
  { intros j. unfold arch_at. rewrite Ar4. destruct (j =? ai) eqn:E; [apply N.eqb_eq in E; subst; eapply slab_get_set_eq; eauto|apply N.eqb_neq in E; now rewrite slab_get_set_neq by auto]. }
  assert (Hrv4 : forall j, option_map rview (arch_at w4 j) = option_map rview (arch_at w j)).
  { intros j. rewrite Hat4. destruct (j =? ai) eqn:E; [apply N.eqb_eq in E; subst; unfold arch_at; now rewrite Ha|reflexivity]. }
  inversion Hm; subst w'; clear Hm. change (swap_remove (a_rows a) row) with (a_rows a1).
  destruct (nlen (a_rows a1) =? 0) eqn:E0.
  - apply N.eqb_eq in E0.
    assert (HFA : FIx w4 (fun j => j = ai \/ False)).
    { apply (FIx_arch_change w); [exact Hs4| |exact HF]. intros j Hj. rewrite Hat4. destruct (j =? ai) eqn:E; [apply N.eqb_eq in E; exfalso; apply Hj; now left|reflexivity]. }
    assert (Hv24 : sview hview2 (w_hs w4) = sview hview2 (w_hs w)) by now rewrite Hs4.
    assert (HR4 : RfInv w4) by (eapply RfInv_ext; eauto). assert (HP4 : PInv w4) by (eapply PInv_ext; eauto).
    assert (Ha4 : arch_at w4 ai = Some a1) by (rewrite Hat4; now rewrite N.eqb_refl).
    assert (Hnd1 : NoDup (a_refresh a1)) by (change (a_refresh a1) with (a_refresh a); eapply HN; eauto).
    unfold notify_remove. unfold arch_at in Ha4. rewrite Ha4.
    split; [|split; [eapply RfInv_ext; [apply hview2_notify_remove_with|reflexivity|exact HR4]|split; [eapply PInv_ext; [apply hview2_notify_remove_with|exact HP4]|]]].
    + apply (notify_remove_with_FIx w4 ai a1 (fun _ => False)); [intros a' X; unfold arch_at in X; rewrite Ha4 in X; inversion X; subst; exact E0|exact Hnd1| |exact HFA].
      intros hk h p q c u e0 Hl Hp Hq Hin. unfold hlive in Hl. rewrite Hs4 in Hl. change (a_refresh a1) with (a_refresh a). eapply (entry_cov w ai a); eauto.
    + intros j a' Hj. change (arch_at (notify_remove_with w4 ai a1) j) with (arch_at w4 j) in Hj. specialize (Hrv4 j). rewrite Hj in Hrv4.
      destruct (arch_at w j) as [a0|] eqn:E1; cbn in Hrv4; [|discriminate]. injection Hrv4 as _ Er. rewrite Er. eapply HN; eauto.
  - apply N.eqb_neq in E0. apply (XI_ext w); [exact Hs4| |exact Hrv4|split; [exact HF|split; [exact HR|split; [exact HP|exact HN]]]].
    intros j. rewrite Hat4. destruct (j =? ai) eqn:E; [|reflexivity]. apply N.eqb_eq in E. subst j. unfold arch_at. rewrite Ha. cbn [option_map]. f_equal. unfold cview, a1. cbn [a_comps a_uid a_epoch a_rows set_rows].
    f_equal. assert (0 < nlen (a_rows a)) by (eapply nlen_pos_get; eauto). transitivity true; [apply N.ltb_lt; unfold a1 in E0; cbn [a_rows set_rows] in E0; lia|symmetry; now apply N.ltb_lt].
Qed.

Lemma arch_spawn_XI w e : XI w -> XI (snd (arch_spawn w e)).
Proof.
  intros (HF & HR & HP & HN). unfold arch_spawn. destruct (slab_get (w_archs w) 0) as [a0|] eqn:Ha; [|split; [exact HF|split; [exact HR|split; [exact HP|exact HN]]]].
  destruct (reserve_one a0) as [a1 re] eqn:Hres.
  assert (Hd : a_comps a1 = a_comps a0 /\ a_uid a1 = a_uid a0 /\ a_refresh a1 = a_refresh a0 /\ a_rows a1 = a_rows a0 /\ (re = false -> a_epoch a1 = a_epoch a0)).
  { assert (X1 : a1 = fst (reserve_one a0)) by now rewrite Hres. assert (X2 : re = snd (reserve_one a0)) by now rewrite Hres. rewrite X1, X2.
    unfold reserve_one. destruct (nlen (a_rows a0) =? a_cap a0); cbn; repeat split; auto; discriminate. }
  destruct Hd as (Dc & Du & Dr & Drows & De).
  set (a2 := set_rows a1 (a_rows a1 ++ [(e, [])])). set (w1 := set_archs w (slab_set (w_archs w) 0 a2)).
  assert (Hat1 : forall j, arch_at w1 j = if j =? 0 then Some a2 else arch_at w j).
  { intros j. unfold arch_at, w1. cbn [w_archs set_archs]. destruct (j =? 0) eqn:E; [apply N.eqb_eq in E; subst; eapply slab_get_set_eq; eauto|apply N.eqb_neq in E; now rewrite slab_get_set_neq by auto]. }
  assert (Hrv1 : forall j, option_map rview (arch_at w1 j) = option_map rview (arch_at w j)).
  { intros j. rewrite Hat1. destruct (j =? 0) eqn:E; [apply N.eqb_eq in E; subst; unfold arch_at; rewrite Ha; cbn; unfold rview, a2; cbn [a_comps a_refresh set_rows]; now rewrite Dc, Dr|reflexivity]. }
  assert (Hlen2 : nlen (a_rows a2) = nlen (a_rows a0) + 1) by (unfold a2; cbn [a_rows set_rows]; rewrite nlen_app, Drows; reflexivity).
  change (a_rows a1 ++ [(e, [])]) with (a_rows a2).
  destruct ((nlen (a_rows a2) =? 1) || re) eqn:Ec; cbn [snd].
  - assert (HFA : FIx w1 (fun j => j = 0 \/ False)).
    { apply (FIx_arch_change w); [reflexivity| |exact HF]. intros j Hj. rewrite Hat1. destruct (j =? 0) eqn:E; [apply N.eqb_eq in E; exfalso; apply Hj; now left|reflexivity]. }
    assert (HR1 : RfInv w1) by (apply (RfInv_ext w w1); [reflexivity|exact Hrv1|exact HR]). assert (HP1 : PInv w1) by (apply (PInv_ext w w1); [reflexivity|exact HP]).
    assert (Ha1 : arch_at w1 0 = Some a2) by (rewrite Hat1; reflexivity).
    assert (HN1 : RN w1). { intros j a' Hj. specialize (Hrv1 j). rewrite Hj in Hrv1. destruct (arch_at w j) as [a3|] eqn:E1; cbn in Hrv1; [|discriminate]. injection Hrv1 as _ Er. rewrite Er. eapply HN; eauto. }
    split; [|split; [eapply RfInv_ext; [apply hview2_notify_refresh|intros j; now rewrite notify_refresh_arch_at|exact HR1]|split; [eapply PInv_ext; [apply hview2_notify_refresh|exact HP1]|]]].
    + apply (notify_refresh_FIx w1 0 a2 (fun _ => False)); [exact Ha1|lia|eapply HN1; eauto|apply (HR1 0 a2 Ha1)|exact HP1| |exact HFA].
      intros hk h p q c Hl Hp Hq Hmq u e0. eapply (no_entry_nomatch w 0 a0); eauto. rewrite <- Hmq. symmetry. apply amatch_comps. unfold a2. cbn [a_comps set_rows]. exact Dc.
    + intros j a' Hj. rewrite notify_refresh_arch_at in Hj. eapply HN1; eauto.
  - apply orb_false_iff in Ec as [E1 E2]. apply N.eqb_neq in E1. apply (XI_ext w); [reflexivity| |exact Hrv1|split; [exact HF|split; [exact HR|split; [exact HP|exact HN]]]].
    intros j. rewrite Hat1. destruct (j =? 0) eqn:E; [|reflexivity]. apply N.eqb_eq in E. subst j. unfold arch_at. rewrite Ha. cbn [option_map]. f_equal. unfold cview, a2. cbn [a_comps a_uid a_epoch a_rows set_rows].
    rewrite Dc, Du, (De E2). f_equal. change (a_rows a1 ++ [(e, [])]) with (a_rows a2). transitivity true; [apply N.ltb_lt; lia|symmetry; apply N.ltb_lt; lia].
Qed.

(* ---------- extensionality in the handler registry, pointwise ---------- *)
Lemma XI_ext2 w w' : (forall x, sm_get x (w_hs w') = sm_get x (w_hs w)) ->
  (forall j, option_map cview (arch_at w' j) = option_map cview (arch_at w j)) ->
  (forall j, option_map rview (arch_at w' j) = option_map rview (arch_at w j)) -> XI w -> XI w'.
Proof.
  intros Hhs Hcv Hrv (HF & HR & HP & HN).
  assert (Hl : forall hk h, hlive w' hk h <-> hlive w hk h) by (intros; unfold hlive; now rewrite Hhs).
  split; [|split; [|split]].
  - intros hk h p q c A B C. apply Hl in A. destruct (HF hk h p q c A B C) as [X Y]. split; [exact X|]. intros j _. apply (good_ext w); [apply Hcv|]. now apply Y.
  - intros ai a' Ha' hk. specialize (Hrv ai). rewrite Ha' in Hrv. destruct (arch_at w ai) as [a|] eqn:E; cbn in Hrv; [|discriminate]. injection Hrv as Ec Er.
    rewrite Er, (HR ai a E hk). unfold arch_has. rewrite Ec. split; intros (h & A & B); exists h; (split; [now apply Hl|exact B]).
  - intros hk h p q c A B C a Hm. apply Hl in A. eapply HP; eauto.
  - intros j a' Hj. specialize (Hrv j). rewrite Hj in Hrv. destruct (arch_at w j) as [a0|] eqn:E0; cbn in Hrv; [|discriminate]. injection Hrv as _ Er. rewrite Er. eapply HN; eauto.
Qed.

Lemma XI_set_ents w x : XI w -> XI (set_ents w x). Proof. intros H. exact H. Qed.

Lemma spawn_all_n_XI n : forall w, XI w -> XI (res_world (spawn_all_n n w)).
Proof.
  induction n as [|n IH]; intros w HX; cbn [spawn_all_n]; [exact HX|].
  destruct (insert_with (fun _ => (0, 0)) (w_ents w)) as [[k m]|]; [|exact HX].
  pose proof (arch_spawn_XI w k HX) as H1. destruct (arch_spawn w k) as [loc w1]. cbn [snd] in H1.
  destruct (insert_with (fun _ => loc) (w_ents w1)) as [[k' ents']|]; [|exact H1]. apply IH. exact H1.
Qed.
Lemma spawn_all_XI w : XI w -> XI (res_world (spawn_all w)).
Proof.
  intros HX. unfold spawn_all. pose proof (spawn_all_n_XI (N.to_nat (w_rcnt w)) w HX) as H.
  destruct (spawn_all_n _ w) as [[] w1|f w1]; exact H.
Qed.

Lemma upd_edges_XI w ai i r : XI w -> XI (upd_arch w ai (fun a => set_edges a (i a) (r a))).
Proof.
  intros HX. unfold upd_arch. destruct (slab_get (w_archs w) ai) as [a|] eqn:Ha; [|exact HX].
  apply (XI_ext w); [reflexivity| | |exact HX]; intros j; unfold arch_at; cbn [w_archs set_archs];
    (destruct (N.eq_dec j ai) as [->|Hne]; [erewrite slab_get_set_eq by eauto; now rewrite Ha|now rewrite slab_get_set_neq by auto]).
Qed.

(* ---------- kset ---------- *)
Lemma kset_insert_in k l x : In x (kset_insert k l) <-> x = k \/ In x l.
Proof.
  induction l as [|h t IH]; cbn [kset_insert]; [cbn; split; [intros [<-|[]]; now left|intros [->|[]]; now left]|]. destruct (key_eqb k h) eqn:E.
  - apply key_eqb_spec in E. subst h. cbn [In]. split; [now right|]. intros [->|X]; [now left|exact X].
  - destruct (key_ltb k h); cbn [In].
    + split; [intros [<-|X]; [now left|now right]|intros [->|X]; [now left|now right]].
    + rewrite IH. split; [intros [X|[X|X]]; auto|intros [X|[X|X]]; auto].
Qed.
Lemma kset_insert_nodup k l : NoDup l -> ~ In k l -> NoDup (kset_insert k l).
Proof.
  induction l as [|h t IH]; cbn [kset_insert]; intros Hnd Hn; [constructor; [intros []|constructor]|]. destruct (key_eqb k h) eqn:E.
  - apply key_eqb_spec in E. subst h. exfalso. apply Hn. now left.
  - destruct (key_ltb k h); [constructor; assumption|]. inversion Hnd; subst. constructor.
    + rewrite kset_insert_in. intros [->|X]; [apply Hn; now left|contradiction].
    + apply IH; [assumption|]. intros X. apply Hn. now right.
Qed.
Lemma kset_remove_in k l x : In x (kset_remove k l) <-> In x l /\ x <> k.
Proof.
  unfold kset_remove. rewrite filter_In. split; intros [A B]; (split; [exact A|]).
  - intros ->. assert (key_eqb k k = true) by now apply key_eqb_spec. rewrite H in B. discriminate.
  - apply negb_true_iff. now apply key_eqb_neq.
Qed.
Lemma kset_remove_nodup k l : NoDup l -> NoDup (kset_remove k l).
Proof. intros H. unfold kset_remove. now apply NoDup_filter. Qed.

(* ---------- register_handler: refresh set and caches ---------- *)
Lemma reg_refresh ai a h : a_refresh (fst (register_handler ai a h)) = if ca_matches (arch_has a) (h_archfilter h) then kset_insert (h_key h) (a_refresh a) else a_refresh a.
Proof.
  unfold register_handler. destruct (ca_matches (arch_has a) (h_archfilter h)); destruct (h_recv h); cbn [fst];
    try (destruct (ca_matches (arch_has a) (h_filter h))); reflexivity.
Qed.
Lemma reg_cview ai a h : cview (fst (register_handler ai a h)) = cview a.
Proof. destruct (register_handler_core ai a h) as (A & B & _ & _ & C). unfold cview. rewrite A, B.
  unfold register_handler. destruct (ca_matches (arch_has a) (h_archfilter h)); destruct (h_recv h); cbn [fst];
    try (destruct (ca_matches (arch_has a) (h_filter h))); reflexivity.
Qed.
Lemma reg_params ai a h : h_params (snd (register_handler ai a h)) =
  if ca_matches (arch_has a) (h_archfilter h) && (0 <? nlen (a_rows a)) then map (param_refresh ai a) (h_params h) else h_params h.
Proof.
  unfold register_handler. destruct (ca_matches (arch_has a) (h_archfilter h)); cbn [andb]; destruct (h_recv h); cbn [snd];
    try (destruct (ca_matches (arch_has a) (h_filter h))); cbn [snd]; try reflexivity; destruct (0 <? nlen (a_rows a)); reflexivity.
Qed.

(* ---------- create_arch: the new archetype is empty, so no cache changes ---------- *)
Lemma reg_empty ai a h : nlen (a_rows a) = 0 -> snd (register_handler ai a h) = h /\ a_rows (fst (register_handler ai a h)) = a_rows a.
Proof.
  intros H0. unfold register_handler. rewrite H0. cbn [N.ltb]. destruct (ca_matches (arch_has a) (h_archfilter h)); destruct (h_recv h); cbn [fst snd];
    try (destruct (ca_matches (arch_has a) (h_filter h))); cbn [fst snd a_rows set_tables]; split; reflexivity.
Qed.

Lemma upd_key_same_get {V} (m : smap V) k v x : sm_get k m = Some v -> sm_get x (upd_by_key m k (fun _ => v)) = sm_get x m.
Proof.
  intros H. destruct (key_eq_dec x k) as [->|Hne]; [now rewrite (upd_key_get_self m k (fun _ => v) v H)|now apply upd_key_get_other].
Qed.

Lemma reg_fold_empty ai (L : list (N * key)) : forall a hs, nlen (a_rows a) = 0 -> NoDup (map snd L) ->
  (forall x, In x (map snd L) -> ~ In x (a_refresh a)) -> (forall hk h, sm_get hk hs = Some h -> h_key h = hk) -> NoDup (a_refresh a) ->
  let r := fold_left (reg_step ai) L (a, hs) in
  (forall x, sm_get x (snd r) = sm_get x hs) /\ nlen (a_rows (fst r)) = 0 /\ a_comps (fst r) = a_comps a /\ NoDup (a_refresh (fst r)) /\
  forall x, In x (a_refresh (fst r)) <-> In x (a_refresh a) \/ (In x (map snd L) /\ exists h, sm_get x hs = Some h /\ ca_matches (arch_has a) (h_archfilter h) = true).
Proof.
  induction L as [|[o hk] L IH]; intros a hs H0 Hnd Hfr Hkey Hnda; cbn zeta; cbn [fold_left map snd].
  - split; [reflexivity|]. split; [exact H0|]. split; [reflexivity|]. split; [exact Hnda|]. intros x. cbn. tauto.
  - inversion Hnd as [|? ? Hni Hnd']; subst.
    change (reg_step ai (a, hs) (o, hk)) with (match sm_get hk hs with Some h => let '(a', h') := register_handler ai a h in (a', upd_by_key hs hk (fun _ => h')) | None => (a, hs) end).
    destruct (sm_get hk hs) as [h|] eqn:E.
    + pose proof (Hkey hk h E) as Hk. destruct (reg_empty ai a h H0) as [Eh Er]. pose proof (reg_refresh ai a h) as Erf. pose proof (reg_arch_has ai a h) as Eah.
      destruct (register_handler_core ai a h) as (Ec & _). destruct (register_handler ai a h) as [a1 h1]. cbn [fst snd] in *. subst h1.
      assert (Hget : forall x, sm_get x (upd_by_key hs hk (fun _ => h)) = sm_get x hs) by (intros; now apply upd_key_same_get).
      assert (Hfr1 : forall x, In x (map snd L) -> ~ In x (a_refresh a1)).
      { intros x Hx X. rewrite Erf in X. destruct (ca_matches (arch_has a) (h_archfilter h)); [apply kset_insert_in in X as [->|X]; [rewrite Hk in Hx; contradiction|]|]; apply (Hfr x); [now right|exact X|now right|exact X]. }
      assert (Hnd1 : NoDup (a_refresh a1)).
      { rewrite Erf. destruct (ca_matches (arch_has a) (h_archfilter h)); [|exact Hnda]. apply kset_insert_nodup; [exact Hnda|]. rewrite Hk. apply Hfr. now left. }
      destruct (IH a1 (upd_by_key hs hk (fun _ => h))) as (A & B & C & D & F); [congruence|exact Hnd'|exact Hfr1|intros k0 h0 X; rewrite Hget in X; now apply Hkey|exact Hnd1|].
      cbn zeta in *. split; [intros x; now rewrite A, Hget|]. split; [exact B|]. split; [congruence|]. split; [exact D|].
      intros x. rewrite F. rewrite Erf. rewrite Eah.
      assert (Hh : forall y, (exists h0, sm_get y (upd_by_key hs hk (fun _ => h)) = Some h0 /\ ca_matches (arch_has a) (h_archfilter h0) = true) <-> (exists h0, sm_get y hs = Some h0 /\ ca_matches (arch_has a) (h_archfilter h0) = true))
        by (intros y; now rewrite Hget).
      rewrite Hh. destruct (ca_matches (arch_has a) (h_archfilter h)) eqn:Em.
      * rewrite kset_insert_in, Hk. split.
        -- intros [[->|X]|[X Y]]; [right; split; [now left|eauto]|now left|right; split; [now right|exact Y]].
        -- intros [X|[[<-|X] Y]]; [left; now right|left; now left|right; auto].
      * split.
        -- intros [X|[X Y]]; [now left|right; split; [now right|exact Y]].
        -- intros [X|[[<-|X] (h0 & Y & Z)]]; [now left|rewrite E in Y; inversion Y; subst; congruence|right; eauto].
    + assert (Hfr' : forall x, In x (map snd L) -> ~ In x (a_refresh a)) by (intros x Hx; apply Hfr; now right).
      destruct (IH a hs H0 Hnd' Hfr' Hkey Hnda) as (A & B & C & D & F). cbn zeta in *. split; [exact A|]. split; [exact B|]. split; [exact C|]. split; [exact D|].
      intros x. rewrite F. split; [intros [X|[X Y]]; [now left|right; split; [now right|exact Y]]|].
      intros [X|[[<-|X] Y]]; [now left| |right; auto]. destruct Y as (h0 & Y & _). congruence.
Qed.

Lemma create_arch_XI w cs ins rem : HInv w -> SlabInv (w_archs w) -> XI w -> XI (snd (create_arch w cs ins rem)).
Proof.
  intros (S & H1 & H2 & H3 & H4) Hs (HF & HR & HP & HN). destruct (create_arch_reg w cs ins rem) as (Ehs & Harchs & _). cbn zeta in Ehs, Harchs.
  set (w1 := snd (create_arch w cs ins rem)) in *. set (a0 := mkA (w_auid w) cs [] 0 0 ins rem [] []) in *. set (vk := slab_vacant_key (w_archs w)) in *.
  set (r := fold_left (reg_step vk) (w_horder w) (a0, w_hs w)) in *.
  destruct (reg_fold_empty vk (w_horder w) a0 (w_hs w) eq_refl H3) as (A & B & C & D & F); [intros x _ []|intros hk h X; exact (proj1 (H1 hk h X))|constructor|]. cbn zeta in *. fold r in A, B, C, D, F.
  destruct (slab_insert_spec (w_archs w) (fst r) Hs) as (Hnew & Hvac & Hoth & _). fold vk in Hnew, Hvac, Hoth.
  assert (Hat : forall j, arch_at w1 j = if j =? vk then Some (fst r) else arch_at w j).
  { intros j. unfold arch_at. rewrite Harchs. destruct (j =? vk) eqn:E; [apply N.eqb_eq in E; subst; exact Hnew|apply N.eqb_neq in E; now apply Hoth]. }
  assert (Hl : forall hk h, hlive w1 hk h <-> hlive w hk h) by (intros; unfold hlive; now rewrite Ehs, A).
  split; [|split; [|split]].
  - intros hk h p q c X Y Z. apply Hl in X. destruct (HF hk h p q c X Y Z) as [Hnd Hg]. split; [exact Hnd|]. intros j _. destruct (N.eq_dec j vk) as [->|Hne].
    + apply good_none.
      * intros u e Hin. apply (Hg vk (fun X => X)) in Hin as (a & Ha & _). unfold arch_at in Ha. congruence.
      * intros a Ha Hpos. rewrite Hat, N.eqb_refl in Ha. inversion Ha; subst a. lia.
    + apply (good_ext w); [rewrite Hat; now replace (j =? vk) with false by (symmetry; now apply N.eqb_neq)|]. now apply Hg.
  - intros ai a Ha hk. rewrite Hat in Ha. destruct (ai =? vk) eqn:E.
    + inversion Ha; subst a. rewrite F. unfold arch_has. rewrite C. split.
      * intros [[]|[_ (h & X & Y)]]. exists h. split; [now apply Hl|exact Y].
      * intros (h & X & Y). apply Hl in X. right. split; [|eauto]. destruct (H1 hk h X) as (_ & Hin & _). apply in_map_iff. exists (h_order h, hk). auto.
    + rewrite (HR ai a Ha hk). split; intros (h & X & Y); exists h; (split; [now apply Hl|exact Y]).
  - intros hk h p q c X Y Z a Hm. apply Hl in X. eapply HP; eauto.
  - intros j a Ha. rewrite Hat in Ha. destruct (j =? vk); [inversion Ha; subst; exact D|eapply HN; eauto].
Qed.

(* ---------- the built-in effects ---------- *)
Lemma traverse_insert_XI w src c : HInv w -> SlabInv (w_archs w) -> XI w -> XI (res_world (traverse_insert w src c)).
Proof.
  intros HH Hs HX. unfold traverse_insert. destruct (slab_get (w_archs w) src) as [sa|]; [|exact HX].
  destruct (alookup c (a_ins sa)); [exact HX|]. destruct (arch_has sa c); [exact HX|].
  destruct (aby_lookup w (sorted_insert c (a_comps sa))); cbn [res_world].
  - apply (upd_edges_XI w src (fun a => ainsert c n (a_ins a)) a_rem HX).
  - pose proof (create_arch_XI w (sorted_insert c (a_comps sa)) [] [(c, src)] HH Hs HX) as Hc.
    destruct (create_arch w (sorted_insert c (a_comps sa)) [] [(c, src)]) as [d w1]. cbn [snd res_world] in *.
    apply (upd_edges_XI w1 src (fun a => ainsert c d (a_ins a)) a_rem Hc).
Qed.
Lemma traverse_remove_XI w src c : HInv w -> SlabInv (w_archs w) -> XI w -> XI (res_world (traverse_remove w src c)).
Proof.
  intros HH Hs HX. unfold traverse_remove. destruct (slab_get (w_archs w) src) as [sa|]; [|exact HX].
  destruct (alookup c (a_rem sa)); [exact HX|]. destruct (negb (arch_has sa c)); [exact HX|].
  destruct (aby_lookup w (filter (fun x => negb (x =? c)) (a_comps sa))); cbn [res_world].
  - apply (upd_edges_XI w src a_ins (fun a => ainsert c n (a_rem a)) HX).
  - pose proof (create_arch_XI w (filter (fun x => negb (x =? c)) (a_comps sa)) [(c, src)] [] HH Hs HX) as Hc.
    destruct (create_arch w (filter (fun x => negb (x =? c)) (a_comps sa)) [(c, src)] []) as [d w1]. cbn [snd res_world] in *.
    apply (upd_edges_XI w1 src a_ins (fun a => ainsert c d (a_rem a)) Hc).
Qed.

Lemma builtin_effect_XI kind ev loc w e :
  WInv w -> HInv w -> XI w -> (targeted_kind kind = true -> sm_get e (w_ents w) = Some loc) -> XI (res_world (builtin_effect kind ev loc w)).
Proof.
  intros HW HH HX Hloc. pose proof HW as (Hst & Hg & H0). pose proof Hg as (Hs & _).
  destruct kind as [|c|c| |]; cbn [builtin_effect].
  - exact HX.
  - destruct loc as [sai srow]. cbn [fst]. specialize (Hloc eq_refl).
    destruct (insert_effect_ok w e sai srow c (ev_ser ev, ev_val ev) Hst Hg Hloc) as (w' & E & _). unfold cval in E.
    pose proof (traverse_insert_XI w sai c HH Hs HX) as X1. destruct (traverse_insert w sai c) as [d w2|f w2]; cbn [rbind res_world] in *; [|discriminate].
    rewrite E. cbn [res_world]. eapply move_entity_XI; eauto.
  - destruct loc as [sai srow]. cbn [fst]. specialize (Hloc eq_refl).
    destruct (remove_effect_ok w e sai srow c Hst Hg Hloc) as (w' & E & _).
    pose proof (traverse_remove_XI w sai c HH Hs HX) as X1. destruct (traverse_remove w sai c) as [d w2|f w2]; cbn [rbind res_world] in *; [|discriminate].
    rewrite E. cbn [res_world]. eapply move_entity_XI; eauto.
  - now apply spawn_all_XI.
  - specialize (Hloc eq_refl). pose proof (spawn_all_XI w HX) as X1. pose proof (spawn_all_ok w HW) as Hsp.
    destruct (spawn_all w) as [[] w2|f w2]; cbn [rbind res_world] in *; [|exact X1].
    destruct Hsp as (HW2 & Hl2 & _). assert (Hlive : sm_get e (w_ents w) <> None) by congruence. destruct (Hl2 e Hlive) as [He2 _]. rewrite Hloc in He2.
    destruct loc as [ai row]. pose proof HW2 as (Hst2 & _). pose proof Hst2 as (_ & Hlk & _). destruct (Hlk _ _ _ He2) as (a & vals & Ha & Hrow).
    destruct (remove_entity_ok_full w2 ai row a e vals Hst2 Ha Hrow) as (w3 & E & _). rewrite E. cbn [rbind res_world]. change (XI w3). exact (remove_entity_XI w2 (ai, row) w3 E X1).
Qed.

(* ---------- handler bodies ---------- *)
Lemma structureL_arch w w' : structureL w' = structureL w -> w_hs w' = w_hs w /\
  (forall j, option_map cview (arch_at w' j) = option_map cview (arch_at w j)) /\ (forall j, option_map rview (arch_at w' j) = option_map rview (arch_at w j)).
Proof.
  unfold structureL. intros H. injection H as Hhs _ _ _ _ _ _ _ Hsh _ _. split; [exact Hhs|].
  assert (Hj : forall j, option_map ashapeL (nget (sl_entries (w_archs w')) j) = option_map ashapeL (nget (sl_entries (w_archs w)) j)) by (intros j; rewrite <- !nget_map; now rewrite Hsh).
  split; intros j; specialize (Hj j); unfold arch_at, slab_get;
    destruct (nget (sl_entries (w_archs w')) j) as [[a'|n']|], (nget (sl_entries (w_archs w)) j) as [[a|n]|]; cbn in Hj; try discriminate; try reflexivity;
    injection Hj as Eu Ec Ee Eco Er Ei Ere Erf El; cbn [option_map]; f_equal.
  - unfold cview. rewrite Eu, Ee, Eco. f_equal. unfold nlen. now rewrite <- (map_length rshape (a_rows a')), Er, map_length.
  - unfold rview. now rewrite Eco, Erf.
Qed.

Section WithBeh.
Variable beh : hinfo -> logent -> N -> script.

Lemma XI_ev_drop w t tag ev : XI w -> XI (ev_drop w t tag ev).
Proof. destruct (structureL_arch w (ev_drop w t tag ev) (sl_ev_drop w t tag ev)) as (A & B & C). now apply XI_ext. Qed.

Theorem deliver_one_XI it w : WInv w -> GevKinds w -> HL w -> XI w -> XI (snd (fst (deliver_one beh it w))).
Proof.
  intros HW HG HH HX. unfold deliver_one.
  assert (Hfin : forall tag kind hl loc, (targeted_kind kind = true -> sm_get (qi_target it) (w_ents w) = Some loc) ->
            XI (snd (fst (let '(w1, ev, sent, taken, fl) := run_handlers beh hl w it tag loc [] in
              match fl with
              | Some f => (sent, (if taken then w1 else ev_drop w1 (qi_targeted it) tag ev), Some f)
              | None => if taken then (sent, w1, None) else
                  match kind with
                  | KNormal => (sent, ev_drop w1 (qi_targeted it) tag ev, None)
                  | _ => let '(w3, f) := fail_of (builtin_effect kind ev loc w1) in (sent, w3, f)
                  end
              end)))).
  { intros tag kind hl loc Hloc. pose proof (handlers_preserve_structureL beh hl w it tag loc []) as Hs. pose proof (ereg_run_handlers beh hl w it tag loc []) as He.
    destruct (run_handlers beh hl w it tag loc []) as [[[[w1 ev] sent] taken] fl]. cbn [fst] in Hs, He.
    destruct (structureL_arch w w1 Hs) as (A & B & C). destruct (structureL_views w w1 Hs) as (A' & B' & C').
    assert (X1 : XI w1) by (now apply (XI_ext w)). assert (H1 : HL w1) by (eapply HL_frame; eauto). assert (HW1 : WInv w1) by (eapply WInv_structure; eauto).
    destruct fl as [f|]; [cbn [fst snd]; destruct taken; [exact X1|now apply XI_ev_drop]|]. destruct taken; [exact X1|].
    assert (Heff : XI (fst (fail_of (builtin_effect kind ev loc w1)))).
    { pose proof (builtin_effect_XI kind ev loc w1 (qi_target it) HW1 (proj1 H1) X1) as H. rewrite (structure_ents _ _ C') in H. specialize (H Hloc).
      destruct (builtin_effect kind ev loc w1); exact H. }
    destruct kind; try (destruct (fail_of _) as [w3 f]; exact Heff). cbn [fst snd]. now apply XI_ev_drop. }
  destruct (qi_targeted it).
  - destruct (get_by_index (w_tev w) (qi_idx it)) as [[k info]|]; [|exact HX].
    destruct (sm_get (qi_target it) (w_ents w)) as [loc|] eqn:Hl; [|cbn [fst snd]; now apply XI_ev_drop].
    destruct (slab_get (w_archs w) (fst loc)); [|exact HX]. apply Hfin. auto.
  - destruct (get_by_index (w_gev w) (qi_idx it)) as [[k info]|] eqn:Hg; [|exact HX].
    destruct (nget (w_glists w) (qi_idx it)); [|exact HX]. apply Hfin. intros X. rewrite (HG _ _ _ Hg) in X. discriminate.
Qed.
End WithBeh.

(* ---------- remove_handler ---------- *)
Lemma remove_handler_entry_XI w k h hs' gl hby ho :
  HInv w -> XI w -> sm_remove k (w_hs w) = Some (h, hs') -> XI (archs_remove_handler (set_hreg w hs' gl hby (w_hctr w) ho) h).
Proof.
  intros (S & H1 & _) (HF & HR & HP & HN) Er.
  set (w3 := archs_remove_handler (set_hreg w hs' gl hby (w_hctr w) ho) h).
  pose proof (remove_get_self k (w_hs w) h hs' Er) as Hk. destruct (H1 k h Hk) as (Hkk & _).
  assert (Hgone : sm_get k hs' = None) by (eapply remove_get_gone; eauto).
  assert (Hoth : forall x, x <> k -> sm_get x hs' = sm_get x (w_hs w)) by (intros; eapply remove_get_other; eauto).
  assert (Hl : forall x h0, hlive w3 x h0 <-> x <> k /\ hlive w x h0).
  { intros x h0. unfold hlive. change (w_hs w3) with hs'. split.
    - intros X. assert (x <> k) by (intros ->; congruence). split; [assumption|]. now rewrite <- Hoth.
    - intros [Hne X]. now rewrite Hoth. }
  assert (Hat : forall j, arch_at w3 j = option_map (rm_arch h) (arch_at w j)) by (intros j; unfold w3; now rewrite archs_remove_handler_at).
  split; [|split; [|split]].
  - intros hk h0 p q c X Y Z. apply Hl in X as [_ X]. destruct (HF hk h0 p q c X Y Z) as [Hnd Hg]. split; [exact Hnd|]. intros j _. apply (good_ext w); [|now apply Hg].
    rewrite Hat. destruct (arch_at w j); reflexivity.
  - intros ai a3 Ha3 hk. rewrite Hat in Ha3. destruct (arch_at w ai) as [a|] eqn:Ha; [|discriminate]. inversion Ha3; subst a3.
    change (a_refresh (rm_arch h a)) with (kset_remove (h_key h) (a_refresh a)). change (arch_has (rm_arch h a)) with (arch_has a).
    rewrite kset_remove_in, Hkk, (HR ai a Ha hk). split.
    + intros [(h0 & X & Y) Hne]. exists h0. split; [apply Hl; auto|exact Y].
    + intros (h0 & X & Y). apply Hl in X as [Hne X]. split; [eauto|exact Hne].
  - intros hk h0 p q c X Y Z a Hm. apply Hl in X as [_ X]. eapply HP; eauto.
  - intros j a3 Ha3. rewrite Hat in Ha3. destruct (arch_at w j) as [a|] eqn:Ha; [|discriminate]. inversion Ha3; subst a3.
    change (a_refresh (rm_arch h a)) with (kset_remove (h_key h) (a_refresh a)). apply kset_remove_nodup. eapply HN; eauto.
Qed.

(* ---------- Archetypes::remove_component ---------- *)
Lemma rc_step_hs cidx ctag w ai a : slab_get (w_archs w) ai = Some a ->
  w_hs (rc_step cidx ctag w ai) = w_hs (notify_remove_with (set_archs w (slab_remove (w_archs w) ai)) ai a).
Proof.
  intros Ha. unfold rc_step. rewrite Ha. cbn zeta.
  rewrite (fold_left_pres w_hs); [rewrite (fold_left_pres w_hs); [reflexivity|]|].
  - intros w' [e vals]. apply (fold_left_pres w_hs). intros w'' [c v]. unfold drop_cval. now destruct (ctag_has_drop _).
  - intros w' [e vals]. now destruct (sm_remove e (w_ents w')) as [[? ?]|].
Qed.

Lemma rc_step_XI cidx ctag w ai : SlabInv (w_archs w) -> XI w -> XI (rc_step cidx ctag w ai).
Proof.
  intros Hs HX. destruct (slab_get (w_archs w) ai) as [a|] eqn:Ha; [|unfold rc_step; now rewrite Ha].
  pose proof HX as (HF & HR & HP & HN).
  set (w1 := set_archs w (slab_remove (w_archs w) ai)). set (w2 := notify_remove_with w1 ai a).
  destruct (slab_remove_spec (w_archs w) ai a Hs Ha) as (Hgone & Hoth & _).
  assert (Hat1 : forall j, arch_at w1 j = if j =? ai then None else arch_at w j).
  { intros j. unfold arch_at, w1. cbn [w_archs set_archs]. destruct (j =? ai) eqn:E; [apply N.eqb_eq in E; subst; exact Hgone|apply N.eqb_neq in E; now apply Hoth]. }
  assert (X2 : XI w2).
  { assert (HFA : FIx w1 (fun j => j = ai \/ False)).
    { apply (FIx_arch_change w); [reflexivity| |exact HF]. intros j Hj. rewrite Hat1. destruct (j =? ai) eqn:E; [apply N.eqb_eq in E; exfalso; apply Hj; now left|reflexivity]. }
    assert (Hrv1 : forall j, j <> ai -> option_map rview (arch_at w1 j) = option_map rview (arch_at w j)).
    { intros j Hne. rewrite Hat1. now replace (j =? ai) with false by (symmetry; now apply N.eqb_neq). }
    split; [|split; [|split]].
    - apply (notify_remove_with_FIx w1 ai a (fun _ => False)); [intros a' X; rewrite Hat1, N.eqb_refl in X; discriminate|eapply HN; eauto| |exact HFA].
      intros hk h p q c u e Hl Hp Hq Hin. eapply (entry_cov w ai a); eauto.
    - intros j a' Hj hk. change (arch_at w2 j) with (arch_at w1 j) in Hj. rewrite Hat1 in Hj. destruct (j =? ai) eqn:E; [discriminate|].
      pose proof (HR j a' Hj hk) as Hiff. assert (Hv : sview hview2 (w_hs w2) = sview hview2 (w_hs w)) by exact (hview2_notify_remove_with w1 ai a).
      assert (Hv' : sview hview2 (w_hs w) = sview hview2 (w_hs w2)) by now symmetry.
      split.
      + intros X. apply Hiff in X as (h & Hl & Hm). destruct (hview2_live w2 w Hv' hk h Hl) as (h' & Hl' & Es & _). exists h'. split; [exact Hl'|]. assert (Ea : h_archfilter h = h_archfilter h') by exact (f_equal h_archfilter Es). now rewrite <- Ea.
      + intros (h & Hl & Hm). apply Hiff. destruct (hview2_live w w2 Hv hk h Hl) as (h0 & Hl0 & Es & _). exists h0. split; [exact Hl0|]. assert (Ea : h_archfilter h = h_archfilter h0) by exact (f_equal h_archfilter Es). now rewrite <- Ea.
    - eapply (PInv_ext w); [exact (hview2_notify_remove_with w1 ai a)|exact HP].
    - intros j a' Hj. change (arch_at w2 j) with (arch_at w1 j) in Hj. rewrite Hat1 in Hj. destruct (j =? ai); [discriminate|eapply HN; eauto]. }
  (* the remaining record updates touch neither the registry nor the archetypes *)
  destruct (rc_step_fields cidx ctag w ai a Ha) as (_ & Earchs & _). pose proof (rc_step_hs cidx ctag w ai a Ha) as Ehs.
  apply (XI_ext w2); [exact Ehs| | |exact X2]; intros j; unfold arch_at; rewrite Earchs; reflexivity.
Qed.

Lemma strip_XI cidx w : XI w -> XI (strip cidx w).
Proof.
  apply XI_ext; [reflexivity| |]; intros j; rewrite strip_arch_at; destruct (arch_at w j); reflexivity.
Qed.

(* ---------- add_handler: the new handler's caches are filled archetype by archetype ---------- *)
Lemma good_same_entries w q j c1 c2 : (forall u e, In (j, u, e) c2 <-> In (j, u, e) c1) -> good w q j c1 -> good w q j c2.
Proof. intros H G u e. rewrite H. apply G. Qed.

Definition pstate (w : world) (done : N -> Prop) (todo : N -> Prop) (ps0 ps : list rparam) : Prop :=
  forall p' q c', In p' ps -> pquery p' = Some (q, c') ->
    exists p c, In p ps0 /\ pquery p = Some (q, c) /\ idx_nodup c' /\
      (forall j, done j -> good w q j c') /\ (forall j u e, ~ done j -> (In (j, u, e) c' <-> In (j, u, e) c)).

Lemma arh_fold_params hk (L : list (N * arch)) : NoDup (map fst L) -> forall w' h0 ps0,
  sm_get hk (w_hs w') = Some h0 ->
  (forall p q c, In p ps0 -> pquery p = Some (q, c) -> idx_nodup c /\ forall j u e, In j (map fst L) -> ~ In (j, u, e) c) ->
  (forall p q c, In p ps0 -> pquery p = Some (q, c) -> forall a, amatch a q = true -> ca_matches (arch_has a) (h_archfilter h0) = true) ->
  forall done0 : N -> Prop, (forall j, done0 j -> ~ In j (map fst L)) -> pstate w' done0 (fun _ => True) ps0 (h_params h0) ->
  let wf := fold_left (arh_step hk) L w' in
  exists hf, sm_get hk (w_hs wf) = Some hf /\ hstat hf = hstat h0 /\
    pstate w' (fun j => done0 j \/ In j (map fst L)) (fun _ => True) ps0 (h_params hf).
Proof.
  induction L as [|[ai x] L IH]; intros Hnd w' h0 ps0 Hg H0 Hpi done0 Hd0 Hps; cbn zeta; cbn [fold_left map fst].
  - exists h0. split; [exact Hg|]. split; [reflexivity|]. intros p' q c' A B. destruct (Hps p' q c' A B) as (p & c & P1 & P2 & P3 & P4 & P5).
    exists p, c. split; [exact P1|]. split; [exact P2|]. split; [exact P3|]. split; [intros j [X|[]]; now apply P4|]. intros j u e X. apply P5. intros Y. apply X. now left.
  - inversion Hnd as [|? ? Hni Hnd']; subst.
    change (arh_step hk w' (ai, x)) with (match slab_get (w_archs w') ai, sm_get hk (w_hs w') with
      | Some a, Some h => let '(a', h') := register_handler ai a h in set_hs (set_archs w' (slab_set (w_archs w') ai a')) (upd_by_key (w_hs w') hk (fun _ => h'))
      | _, _ => w' end).
    rewrite Hg. destruct (slab_get (w_archs w') ai) as [a|] eqn:Ha.
    + pose proof (hstat_register ai a h0) as Hst. pose proof (reg_params ai a h0) as Hpar. pose proof (reg_cview ai a h0) as Hcv.
      destruct (register_handler ai a h0) as [a' h'] eqn:Er. cbn [fst snd] in *.
      set (w1 := set_hs (set_archs w' (slab_set (w_archs w') ai a')) (upd_by_key (w_hs w') hk (fun _ => h'))).
      assert (Hg1 : sm_get hk (w_hs w1) = Some h') by (unfold w1; cbn [w_hs set_hs]; exact (upd_key_get_self (w_hs w') hk (fun _ => h') h0 Hg)).
      assert (Hat1 : forall j, arch_at w1 j = if j =? ai then Some a' else arch_at w' j).
      { intros j. unfold arch_at, w1. cbn [w_archs set_hs set_archs]. destruct (j =? ai) eqn:E; [apply N.eqb_eq in E; subst; eapply slab_get_set_eq; eauto|].
        apply N.eqb_neq in E. now rewrite slab_get_set_neq by auto. }
      assert (Hcv1 : forall j, option_map cview (arch_at w1 j) = option_map cview (arch_at w' j)).
      { intros j. rewrite Hat1. destruct (j =? ai) eqn:E; [|reflexivity]. apply N.eqb_eq in E. subst j. unfold arch_at. rewrite Ha. cbn. now rewrite Hcv. }
      assert (Hcv1' : forall j, option_map cview (arch_at w' j) = option_map cview (arch_at w1 j)) by (intros; now rewrite Hcv1).
      assert (Ea : h_archfilter h' = h_archfilter h0) by exact (f_equal h_archfilter Hst).
      (* the state of the parameters after this archetype *)
      assert (Hps1 : pstate w' (fun j => done0 j \/ j = ai) (fun _ => True) ps0 (h_params h')).
      { intros p' q c' A B. rewrite Hpar in A.
        destruct (ca_matches (arch_has a) (h_archfilter h0) && (0 <? nlen (a_rows a))) eqn:Ecase.
        - apply andb_true_iff in Ecase as [Em En]. apply N.ltb_lt in En. apply in_map_iff in A as (p1 & <- & A).
          destruct (pquery_refresh_inv ai a p1 q c' B) as (c1 & Hq1 & ->). destruct (Hps p1 q c1 A Hq1) as (p & c & P1 & P2 & P3 & P4 & P5).
          exists p, c. split; [exact P1|]. split; [exact P2|].
          assert (Hno1 : forall u e, ~ In (ai, u, e) c1). { intros u e X. apply (P5 ai u e) in X; [|intros Y; apply (Hd0 ai Y); now left]. exact (proj2 (H0 p q c P1 P2) ai u e (or_introl eq_refl) X). }
          destruct (amatch a q) eqn:Emq.
          + split; [exact (proj1 (cache_insert_spec c1 _ P3))|]. split.
            * intros j [X | ->]; [apply (good_insert_other w' q ai j c1 (ai, a_uid a, a_epoch a) P3); [intros ->; apply (Hd0 ai X); now left|reflexivity|now apply P4]|].
              apply good_insert_same; [exact P3|exact Ha|exact En|exact Emq].
            * intros j u e X. rewrite (proj2 (cache_insert_spec c1 (ai, a_uid a, a_epoch a) P3)). cbn [ce_idx fst]. rewrite <- (P5 j u e) by (intros Y; apply X; now left). split.
              -- intros [Y|[Y _]]; [inversion Y; subst; exfalso; apply X; now right|exact Y].
              -- intros Y. right. split; [exact Y|]. intros ->. apply X. now right.
          + split; [exact P3|]. split.
            * intros j [X | ->]; [now apply P4|]. apply good_none; [exact Hno1|]. intros a0 A0 _. unfold arch_at in A0. rewrite Ha in A0. now inversion A0; subst.
            * intros j u e X. apply P5. intros Y. apply X. now left.
        - destruct (Hps p' q c' A B) as (p & c & P1 & P2 & P3 & P4 & P5). exists p, c. split; [exact P1|]. split; [exact P2|]. split; [exact P3|]. split.
          + intros j [X | ->]; [now apply P4|]. assert (Hno1 : forall u e, ~ In (ai, u, e) c').
            { intros u e X. apply (P5 ai u e) in X; [|intros Y; apply (Hd0 ai Y); now left]. exact (proj2 (H0 p q c P1 P2) ai u e (or_introl eq_refl) X). }
            apply good_none; [exact Hno1|]. intros a0 A0 Hpos. unfold arch_at in A0. rewrite Ha in A0. inversion A0; subst a0.
            destruct (amatch a q) eqn:Emq; [|reflexivity]. exfalso. rewrite (Hpi p q c P1 P2 a Emq) in Ecase. cbn [andb] in Ecase. apply N.ltb_ge in Ecase. lia.
          + intros j u e X. apply P5. intros Y. apply X. now left. }
      destruct (IH Hnd' w1 h' ps0 Hg1) with (done0 := fun j => done0 j \/ j = ai) as (hf & F1 & F2 & F3).
      * intros p q c A B. destruct (H0 p q c A B) as [X Y]. split; [exact X|]. intros j u e Hj. apply Y. now right.
      * intros p q c A B a0 Hm. rewrite Ea. eapply Hpi; eauto.
      * intros j [X | ->]; [intros Y; apply (Hd0 j X); now right|exact Hni].
      * intros p' q c' A B. destruct (Hps1 p' q c' A B) as (p & c & P1 & P2 & P3 & P4 & P5). exists p, c. split; [exact P1|]. split; [exact P2|]. split; [exact P3|].
        split; [intros j X; apply (good_ext w'); [apply Hcv1|now apply P4]|exact P5].
      * cbn zeta in *. exists hf. split; [exact F1|]. split; [congruence|]. intros p' q c' A B. destruct (F3 p' q c' A B) as (p & c & P1 & P2 & P3 & P4 & P5).
        exists p, c. split; [exact P1|]. split; [exact P2|]. split; [exact P3|]. split.
        -- intros j X. apply (good_ext w1); [apply Hcv1'|]. apply P4. destruct X as [X|[<-|X]]; [left; now left|left; now right|now right].
        -- intros j u e X. apply P5. intros [[Y | ->] | Y]; apply X; [now left|right; now left|right; now right].
    + destruct (IH Hnd' w' h0 ps0 Hg) with (done0 := fun j => done0 j \/ j = ai) as (hf & F1 & F2 & F3).
      * intros p q c A B. destruct (H0 p q c A B) as [X Y]. split; [exact X|]. intros j u e Hj. apply Y. now right.
      * exact Hpi.
      * intros j [X | ->]; [intros Y; apply (Hd0 j X); now right|exact Hni].
      * intros p' q c' A B. destruct (Hps p' q c' A B) as (p & c & P1 & P2 & P3 & P4 & P5). exists p, c. split; [exact P1|]. split; [exact P2|]. split; [exact P3|]. split.
        -- intros j [X | ->]; [now apply P4|]. apply good_none.
           ++ intros u e X. apply (P5 ai u e) in X; [|intros Y; apply (Hd0 ai Y); now left]. exact (proj2 (H0 p q c P1 P2) ai u e (or_introl eq_refl) X).
           ++ intros a0 A0 _. unfold arch_at in A0. congruence.
        -- intros j u e X. apply P5. intros Y. apply X. now left.
      * cbn zeta in *. exists hf. split; [exact F1|]. split; [exact F2|]. intros p' q c' A B. destruct (F3 p' q c' A B) as (p & c & P1 & P2 & P3 & P4 & P5).
        exists p, c. split; [exact P1|]. split; [exact P2|]. split; [exact P3|]. split.
        -- intros j X. apply P4. destruct X as [X|[<-|X]]; [left; now left|left; now right|now right].
        -- intros j u e X. apply P5. intros [[Y | ->] | Y]; apply X; [now left|right; now left|right; now right].
Qed.

Lemma add_handler_entry_XI w1 (f : key -> hinfo) k hs gl hby hc ho :
  HInv w1 -> XI w1 -> insert_with f (w_hs w1) = Some (k, hs) -> h_key (f k) = k ->
  (forall p q c, In p (h_params (f k)) -> pquery p = Some (q, c) -> c = [] /\ forall a, amatch a q = true -> ca_matches (arch_has a) (h_archfilter (f k)) = true) ->
  XI (archs_register_handler (set_hreg w1 hs gl hby hc ho) k).
Proof.
  intros (S & H1 & _) (HF & HR & HP & HN) Ei Fk Hnewp.
  set (w2 := set_hreg w1 hs gl hby hc ho). set (hnew := f k) in *.
  assert (Hgn : sm_get k hs = Some hnew) by exact (insert_get_new f (w_hs w1) k hs S Ei). clearbody hnew.
  assert (Hgo : forall k0, k0 <> k -> sm_get k0 hs = sm_get k0 (w_hs w1)) by (intros; eapply insert_get_other; eauto).
  assert (Hfr : sm_get k (w_hs w1) = None) by (eapply insert_get_fresh; eauto).
  rewrite archs_register_handler_unfold. set (L := slab_iter (w_archs w2)).
  destruct (arh_fold k L (slab_iter_nodup _) w2 hnew Hgn) as (_ & (hf & B1 & B2) & C & D & E). cbn zeta in *.
  destruct (arh_fold_params k L (slab_iter_nodup _) w2 hnew (h_params hnew) Hgn) with (done0 := fun _ : N => False) as (hf' & F1 & _ & F3).
  { intros p q c A B. destruct (Hnewp p q c A B) as [-> _]. split; [constructor|intros j u e _ []]. }
  { intros p q c A B a Hm. exact (proj2 (Hnewp p q c A B) a Hm). }
  { intros j []. }
  { intros p' q c' A B. exists p', c'. split; [exact A|]. split; [exact B|]. destruct (Hnewp p' q c' A B) as [-> _]. split; [constructor|]. split; [intros j []|reflexivity]. }
  cbn zeta in *. set (w3 := fold_left (arh_step k) L w2) in *. rewrite B1 in F1. inversion F1; subst hf'. clear F1.
  assert (Ea : h_archfilter hf = h_archfilter hnew) by exact (f_equal h_archfilter B2). assert (Ek : h_key hf = k) by (rewrite <- Fk; exact (f_equal h_key B2)).
  assert (HinL : forall j, In j (map fst L) <-> exists a, arch_at w1 j = Some a).
  { intros j. unfold L. split.
    - intros X. apply in_map_iff in X as ([j' a] & <- & X). apply slab_iter_spec in X. exists a. exact X.
    - intros (a & X). apply in_map_iff. exists (j, a). split; [reflexivity|]. apply slab_iter_spec. exact X. }
  assert (Harch : forall j, match arch_at w1 j with
                            | Some a => exists a3, arch_at w3 j = Some a3 /\ cview a3 = cview a /\ a_comps a3 = a_comps a /\
                                                   a_refresh a3 = (if ca_matches (arch_has a) (h_archfilter hnew) then kset_insert k (a_refresh a) else a_refresh a)
                            | None => arch_at w3 j = None end).
  { intros j. destruct (arch_at w1 j) as [a|] eqn:Ha.
    - assert (Hj : In j (map fst L)) by (apply HinL; eauto). specialize (E j Hj). change (arch_at w2 j) with (arch_at w1 j) in E. rewrite Ha in E.
      destruct E as (hc0 & E1 & E2). exists (fst (register_handler j a hc0)). split; [exact E2|]. split; [apply reg_cview|]. split; [exact (proj1 (register_handler_core j a hc0))|].
      rewrite reg_refresh. rewrite (f_equal h_archfilter E1 : h_archfilter hc0 = h_archfilter hnew). rewrite (f_equal h_key E1 : h_key hc0 = h_key hnew), Fk. reflexivity.
    - assert (Hj : ~ In j (map fst L)) by (intros X; apply HinL in X as (a & X); congruence). rewrite (D j Hj). exact Ha. }
  assert (Hcv : forall j, option_map cview (arch_at w3 j) = option_map cview (arch_at w1 j)).
  { intros j. specialize (Harch j). destruct (arch_at w1 j) as [a|]; [destruct Harch as (a3 & -> & X & _); cbn; now rewrite X|now rewrite Harch]. }
  assert (Hl3 : forall x h, hlive w3 x h <-> (x = k /\ h = hf) \/ (x <> k /\ hlive w1 x h)).
  { intros x h. unfold hlive. destruct (key_eq_dec x k) as [->|Hne].
    - rewrite B1. split; [intros X; left; split; [reflexivity|congruence]|intros [[_ ->]|[X _]]; [reflexivity|contradiction]].
    - rewrite (C x Hne). unfold w2. cbn [w_hs set_hreg]. rewrite (Hgo x Hne). split; [intros X; right; auto|intros [[X _]|[_ X]]; [contradiction|exact X]]. }
  split; [|split; [|split]].
  - intros x h p q c X Y Z. apply Hl3 in X as [[-> ->]|[Hne X]].
    + destruct (F3 p q c Y Z) as (p0 & c0 & P1 & P2 & P3 & P4 & P5). split; [exact P3|]. intros j _. apply (good_ext w2); [rewrite Hcv; reflexivity|].
      destruct (in_dec N.eq_dec j (map fst L)) as [Hj|Hj]; [apply P4; now right|].
      apply good_none.
      * intros u e X. apply (P5 j u e) in X; [|intros [[]|Y']; contradiction]. destruct (Hnewp p0 q c0 P1 P2) as [-> _]. destruct X.
      * intros a0 A0 _. exfalso. apply Hj. apply HinL. eauto.
    + destruct (HF x h p q c X Y Z) as [Hnd Hg]. split; [exact Hnd|]. intros j _. apply (good_ext w1); [apply Hcv|]. now apply Hg.
  - intros ai a3 Ha3 x. specialize (Harch ai). destruct (arch_at w1 ai) as [a|] eqn:Ha; [|congruence]. destruct Harch as (a3' & A1 & _ & A3 & A4). rewrite Ha3 in A1. inversion A1; subst a3'.
    rewrite A4. unfold arch_has. rewrite A3. fold (arch_has a).
    assert (Hold : In x (a_refresh a) <-> exists h, hlive w1 x h /\ ca_matches (arch_has a) (h_archfilter h) = true) by exact (HR ai a Ha x).
    assert (Hkn : ~ In k (a_refresh a)). { intros X. apply (HR ai a Ha k) in X as (h & X & _). unfold hlive in X. congruence. }
    destruct (ca_matches (arch_has a) (h_archfilter hnew)) eqn:Em.
    + rewrite kset_insert_in, Hold. split.
      * intros [->|(h & X & Y)]; [exists hf; split; [apply Hl3; left; auto|now rewrite Ea]|].
        exists h. split; [|exact Y]. apply Hl3. right. split; [intros ->; unfold hlive in X; congruence|exact X].
      * intros (h & X & Y). apply Hl3 in X as [[-> ->]|[Hne X]]; [now left|right; eauto].
    + rewrite Hold. split.
      * intros (h & X & Y). exists h. split; [|exact Y]. apply Hl3. right. split; [intros ->; unfold hlive in X; congruence|exact X].
      * intros (h & X & Y). apply Hl3 in X as [[-> ->]|[Hne X]]; [rewrite Ea in Y; congruence|eauto].
  - intros x h p q c X Y Z a Hm. apply Hl3 in X as [[-> ->]|[Hne X]]; [|eapply HP; eauto].
    destruct (F3 p q c Y Z) as (p0 & c0 & P1 & P2 & _). rewrite Ea. exact (proj2 (Hnewp p0 q c0 P1 P2) a Hm).
  - intros j a3 Ha3. specialize (Harch j). destruct (arch_at w1 j) as [a|] eqn:Ha; [|congruence]. destruct Harch as (a3' & A1 & _ & _ & A4). rewrite Ha3 in A1. inversion A1; subst a3'.
    rewrite A4. destruct (ca_matches (arch_has a) (h_archfilter hnew)); [|eapply HN; eauto]. apply kset_insert_nodup; [eapply HN; eauto|].
    intros X. apply (HR j a Ha k) in X as (h & X & _). unfold hlive in X. congruence.
Qed.

(* ---------- the parameters collected by init_params carry empty caches, and their access is recorded ---------- *)
Definition CfInv (c : hconfig) : Prop :=
  forall p q cache, In p (cf_params c) -> pquery p = Some (q, cache) -> cache = [] /\ In (access_of q) (cf_cas c).

Lemma amatch_access a q : amatch a q = true -> ca_matches (arch_has a) (access_of q) = true.
Proof. unfold amatch. rewrite access_matches_qmatch, <- arch_state_iff_qmatch. destruct (arch_state (arch_has a) q); auto. Qed.

Section Init.
Variable beh : hinfo -> logent -> N -> script.

Lemma init_param_CfInv p c w : CfInv c -> match init_param beh p c w with ROk c' _ => CfInv c' | RFail _ _ => True end.
Proof.
  intros HC. destruct p as [tag m|tag m q|k q|evs]; cbn [init_param].
  - destruct (add_global_event beh RFUEL tag w) as [k w1|f w1]; cbn [rbind]; [|exact I]. intros p q cache Hin Hq. cbn [cf_params cf_cas] in *.
    apply in_app_or in Hin as [Hin|[<-|[]]]; [exact (HC p q cache Hin Hq)|discriminate].
  - destruct (add_targeted_event beh tag w) as [k w1|f w1]; cbn [rbind]; [|exact I]. destruct (resolve_query beh q w1) as [q' w2|f w2]; cbn [rbind]; [|exact I].
    intros p q0 cache Hin Hq. cbn [cf_params cf_cas] in *. apply in_app_or in Hin as [Hin|[<-|[]]].
    + destruct (HC p q0 cache Hin Hq) as [A B]. split; [exact A|apply in_or_app; now left].
    + cbn in Hq. inversion Hq; subst. split; [reflexivity|apply in_or_app; right; now left].
  - destruct (resolve_query beh q w) as [q' w1|f w1]; cbn [rbind]; [|exact I].
    intros p q0 cache Hin Hq. cbn [cf_params cf_cas] in *. apply in_app_or in Hin as [Hin|[<-|[]]].
    + destruct (HC p q0 cache Hin Hq) as [A B]. split; [exact A|apply in_or_app; now left].
    + cbn in Hq. inversion Hq; subst. split; [reflexivity|apply in_or_app; right; now left].
  - destruct (register_set beh evs w) as [r w1|f w1]; cbn [rbind]; [|exact I]. intros p q cache Hin Hq. cbn [cf_params cf_cas] in *.
    apply in_app_or in Hin as [Hin|[<-|[]]]; [exact (HC p q cache Hin Hq)|discriminate].
Qed.
Lemma init_params_CfInv ps : forall c w, CfInv c -> match init_params beh ps c w with ROk c' _ => CfInv c' | RFail _ _ => True end.
Proof.
  induction ps as [|p t IH]; intros c w HC; cbn [init_params]; [exact HC|].
  pose proof (init_param_CfInv p c w HC) as H. destruct (init_param beh p c w) as [c1 w1|f w1]; cbn [rbind]; [|exact I]. now apply IH.
Qed.
Lemma CfInv_cfg0 : CfInv cfg0. Proof. intros p q cache []. Qed.
End Init.

Lemma CfInv_pinv c a q p cache : CfInv c -> In p (cf_params c) -> pquery p = Some (q, cache) ->
  cache = [] /\ (amatch a q = true -> ca_matches (arch_has a) (fold_left ca_or (cf_cas c) ca_false) = true).
Proof.
  intros HC Hin Hq. destruct (HC p q cache Hin Hq) as [A B]. split; [exact A|]. intros Hm. rewrite fold_or_matches. apply orb_true_iff. right.
  apply existsb_exists. exists (access_of q). split; [exact B|now apply amatch_access].
Qed.

(* ---------- all invariants together ---------- *)
Definition DI (w : world) : Prop := BI w /\ XI w.
Definition AO (w : world) : Prop := AInv w /\ OInv w.

Section Steps.
Variable beh : hinfo -> logent -> N -> script.

Lemma deliver_one_AO e w : AO w -> AO (snd (fst (deliver_one beh e w))).
Proof.
  intros [[HF HH] HOs]. destruct (FInv_parts _ HF) as (H1 & H2 & H3).
  pose proof (deliver_one_WInv beh e w H1 H2) as Hd. pose proof (deliver_one_K beh e w H1 H2 H3) as Hk.
  pose proof (deliver_one_keeps_registries beh e w) as Hr. pose proof (deliver_one_HL beh e w H1 HH) as Hl. pose proof (deliver_one_O beh e w H1 HH HOs) as Ho.
  destruct (deliver_one beh e w) as [[sent w2] fl2]. cbn [fst snd] in *.
  split; [split; [split; [split; [exact Hd|eapply GevKinds_registries; eauto]|exact Hk]|exact Hl]|exact Ho].
Qed.

Lemma unwind_AO q0 (st : wst) : AO (fst st) -> AO (fst (unwind_w q0 st)).
Proof.
  intros [[HF HH] HOs]. unfold unwind_w. destruct (snd st) as [[k|s]|] eqn:Es; try (split; [split|]; assumption). cbn [fst].
  destruct (FInv_parts _ HF) as (H1 & H2 & H3).
  assert (Hsu : structure (unwind_queue q0 (fst st)) = structure (fst st)) by (unfold unwind_queue; apply (fold_left_pres structure); intros; apply s_ev_drop).
  assert (Htu : w_tev (unwind_queue q0 (fst st)) = w_tev (fst st)) by (apply (r_unwind_queue w_tev); fr).
  assert (HWu : WInv (unwind_queue q0 (fst st))) by (eapply WInv_structure; eauto).
  assert (HKu : GevKinds (unwind_queue q0 (fst st))) by (eapply GevKinds_registries; [apply unwind_queue_keeps_registries|exact H2]).
  assert (HKK : KInv (unwind_queue q0 (fst st))) by (eapply KInv_structure; eauto).
  pose proof (spawn_all_ok _ HWu) as Hs. pose proof (spawn_all_keeps_registries (unwind_queue q0 (fst st))) as Hr.
  assert (HK2 : KInv (res_world (spawn_all (unwind_queue q0 (fst st))))) by (eapply KInv_kreg; [apply kreg_spawn_all|apply cshape_spawn_all|exact HKK]).
  assert (HHu : HL (unwind_queue q0 (fst st))) by (unfold unwind_queue; apply (fold_left_invariant HL); [exact HH|]; intros acc y Hacc; now apply HL_ev_drop).
  assert (HOu : OInv (unwind_queue q0 (fst st))) by (unfold unwind_queue; apply (fold_left_invariant OInv); [exact HOs|]; intros acc y Hacc; now apply O_ev_drop).
  pose proof (HL_spawn_all _ HHu) as X. pose proof (O_spawn_all _ HOu) as Y.
  destruct (spawn_all (unwind_queue q0 (fst st))) as [[] w3|f w3]; cbn [res_world] in *.
  - split; [split; [split; [split; [exact (proj1 Hs)|eapply GevKinds_registries; eauto]|exact HK2]|exact X]|exact Y].
  - split; [split; [split; [split; [exact (proj1 (proj2 Hs))|eapply GevKinds_registries; eauto]|exact HK2]|exact X]|exact Y].
Qed.

Lemma AO_XI_flush n q w tr s' oc :
  Loop.flush wst qitem (run_w beh) unwind_w n q (w, None) [] = Some (tr, s', oc) -> AO w -> XI w -> AO (fst s') /\ XI (fst s').
Proof.
  intros H HA HX.
  apply (flush_invariant wst qitem (run_w beh) unwind_w (fun s : wst => AO (fst s) /\ XI (fst s))) with (n := n) (q := q) (st := (w, None)) (acc := []) (tr := tr) (oc := oc); [| |exact H|split; assumption].
  - intros e st [HAs HXs]. unfold run_w. pose proof (deliver_one_AO e (fst st) HAs) as A.
    destruct HAs as [[HF HH] _]. destruct (FInv_parts _ HF) as (H1 & H2 & _). pose proof (deliver_one_XI beh e (fst st) H1 H2 HH HXs) as B.
    destruct (deliver_one beh e (fst st)) as [[sent w2] fl2]. cbn [fst snd] in *. split; assumption.
  - intros q0 st [HAs HXs]. split; [now apply unwind_AO|]. unfold unwind_w. destruct (snd st) as [[k|s]|]; try exact HXs. cbn [fst].
    assert (HXu : XI (unwind_queue q0 (fst st))) by (unfold unwind_queue; apply (fold_left_invariant XI); [exact HXs|]; intros acc y Hacc; now apply XI_ev_drop).
    pose proof (spawn_all_XI _ HXu) as X. destruct (spawn_all (unwind_queue q0 (fst st))); exact X.
Qed.

Lemma flush_DI q w : DI w -> DI (res_world (flush beh q w)).
Proof.
  intros [HB HX]. split; [now apply flush_BI|]. unfold flush, flush_loop.
  destruct (Loop.flush wst qitem (run_w beh) unwind_w FUEL q (w, None) []) as [[[tr [w1 fl]] oc]|] eqn:E; [|exact HX].
  destruct HB as [[HA _] HO]. destruct (AO_XI_flush _ _ _ _ _ _ E (conj HA HO) HX) as [_ X1]. cbn [fst] in X1.
  destruct oc; [exact X1|destruct fl; exact X1].
Qed.
End Steps.

(* ---------- registration, sending and the top-level calls ---------- *)
Lemma DI_parts w : DI w -> FInv w /\ HL w /\ OInv w /\ XI w.
Proof. intros [HB HX]. destruct (BI_parts _ HB) as (A & B & C). auto. Qed.

Section Ops.
Variable beh : hinfo -> logent -> N -> script.

Lemma rbind_DI {A B} (r : res A) (f : A -> world -> res B) :
  DI (res_world r) -> (forall a w, DI w -> DI (res_world (f a w))) -> DI (res_world (rbind r f)).
Proof. apply rbind_K. Qed.

Lemma DI_ev_drop w t tag ev : DI w -> DI (ev_drop w t tag ev).
Proof. intros [A B]. split; [now apply BI_ev_drop|now apply XI_ev_drop]. Qed.

Lemma gev_DI fuel : forall tag w, DI w ->
  DI (res_world (add_global_event beh fuel tag w)) /\ forall ev, DI (res_world (send_global beh fuel tag ev w)).
Proof.
  induction fuel as [|f IH]; intros tag w HD; [split; [exact HD|intros; exact HD]|].
  assert (Hadd : DI (res_world (add_global_event beh (S f) tag w))).
  { rewrite add_global_event_S in *. destruct (alookup tag (w_gby w)); [exact HD|].
    destruct (insert_with (fun _ => mkE tag (gkind tag)) (w_gev w)) as [[k m]|] eqn:Ei; [|exact HD]. cbn zeta in *.
    set (w2 := set_glists _ _) in *.
    assert (HD2 : DI w2).
    { destruct HD as [HB HX]. split; [|exact HX]. split.
      - destruct (AI_parts _ (proj1 HB)) as ([[HW HK] HKK] & HH & HG). split; [split; [split; [split; [eapply WInv_ext; [| | |exact HW]; reflexivity|]|exact HKK]|]|].
        + intros i k' info Hg. unfold w2 in Hg. cbn [w_gev set_glists set_hreg set_gev] in Hg.
          destruct (gbi_insert _ _ _ _ _ _ _ Ei Hg) as [->|Hold]; [|eauto]. cbn [e_kind]. unfold gkind. now destruct (tag =? G_SPAWN).
        + apply (HL_conv_gl w w2); try reflexivity; [|exact HH].
          intros idx. unfold glist_of, w2. cbn [w_glists set_glists set_hreg set_gev]. apply (glist_nrepeat w (w_glists w) _ eq_refl).
        + unfold GInv, w2. cbn [w_gev set_glists set_hreg set_gev]. eapply SlotMap.insert_inv; eauto.
      - destruct HB as [_ (O1 & O2 & O3)]. split; [exact O1|]. split; [|exact O3].
        intros idx l Hl. unfold w2 in Hl. cbn [w_glists set_glists set_hreg set_gev] in Hl. rewrite nget_nrepeat_to in Hl.
        change (HlW w2 l) with (HlW w l). destruct (nget (w_glists w) idx) as [l0|] eqn:E0; [inversion Hl; subst; eauto|].
        destruct (idx <? _); inversion Hl; subst. apply HListProofs.hl_new_inv. }
    destruct (IH G_ADDGE w2 HD2) as [_ Hs]. specialize (Hs (mkEv 0 0 k)).
    destruct (send_global beh f G_ADDGE (mkEv 0 0 k) w2); exact Hs. }
  split; [exact Hadd|]. intros ev. rewrite send_global_S.
  destruct (IH tag w HD) as [Ha _]. destruct (add_global_event beh f tag w) as [k w1|e w1]; cbn [res_world] in *.
  - apply flush_DI. destruct (10 <? tag); exact Ha.
  - now apply DI_ev_drop.
Qed.
Lemma send_global_DI tag ev w : DI w -> DI (res_world (send_global beh RFUEL tag ev w)).
Proof. intros H. exact (proj2 (gev_DI RFUEL tag w H) ev). Qed.
Lemma add_global_event_DI tag w : DI w -> DI (res_world (add_global_event beh RFUEL tag w)).
Proof. intros H. exact (proj1 (gev_DI RFUEL tag w H)). Qed.

Lemma add_component_DI tag w : DI w -> DI (res_world (add_component beh tag w)).
Proof.
  intros HD. unfold add_component in *.
  destruct (alookup tag (w_cby w)) as [k0|] eqn:El; [exact HD|].
  destruct (insert_with (fun _ => mkC tag [] [] []) (w_comps w)) as [[k m]|] eqn:Ei; [|exact HD].
  set (w1 := set_comps w m (ainsert tag k (w_cby w))) in *.
  assert (HD1 : DI w1).
  { destruct HD as [HB HX]. split; [|exact HX]. destruct (AI_parts _ (proj1 HB)) as (HF & HH & HG). destruct (add_component_entry_FInv tag w k m HF El Ei) as [HF1 _].
    split; [|apply (OInv_conv w w1); try reflexivity; exact (proj2 HB)].
    destruct (HL_GInv_conv w w1) as [X Y]; try reflexivity; [auto|auto|]. split; [split|]; assumption. }
  apply rbind_DI; [now apply send_global_DI|intros; assumption].
Qed.

Lemma tev_stage1_DI tag w : DI w -> DI (res_world (tev_stage1 beh tag w)).
Proof.
  intros HD. unfold tev_stage1. destruct ((20 <=? tag) && (tag <? 40)); [apply rbind_DI; [now apply add_component_DI|intros; assumption]|].
  destruct ((40 <=? tag) && (tag <? 60)); [apply rbind_DI; [now apply add_component_DI|intros; assumption]|].
  destruct (tag =? T_DESPAWN); exact HD.
Qed.

Lemma add_targeted_event_DI tag w : DI w -> DI (res_world (add_targeted_event beh tag w)).
Proof.
  intros HD. rewrite add_targeted_event_unfold. pose proof (tev_stage1_DI tag w HD) as HD0.
  destruct (tev_stage1_FInv beh tag w (proj1 (DI_parts _ HD))) as [_ Hl].
  destruct (tev_stage1 beh tag w) as [kind w0|f w0]; cbn [rbind res_world] in *; [|exact HD0].
  destruct (alookup tag (w_tby w0)); [exact HD0|].
  destruct (insert_with (fun _ => mkE tag kind) (w_tev w0)) as [[k m]|] eqn:Ei; [|exact HD0].
  apply rbind_DI; [|intros; assumption]. apply send_global_DI. destruct HD0 as [HB0 HX0]. destruct (AI_parts _ (proj1 HB0)) as (HF0 & HH0 & HG0).
  pose proof (tev_entry_FInv w0 tag kind k m HF0 Hl Ei) as HF1.
  split; [split|].
  - destruct (HL_GInv_conv w0 (tev_entry_world w0 tag kind k m)) as [X Y]; try (unfold tev_entry_world; destruct kind; reflexivity); [|auto|split; [split|]; assumption].
    assert (S2 : SmInv (w_tev w0)) by (destruct HF0 as [_ (_ & X & _)]; exact X).
    intros k0 Hlv. assert (Et : w_tev (tev_entry_world w0 tag kind k m) = m) by (unfold tev_entry_world; destruct kind; reflexivity). rewrite Et.
    rewrite (insert_get_other _ _ _ _ k0 S2 Ei); [exact Hlv|]. intros ->. apply Hlv. eapply insert_get_fresh; eauto.
  - apply (OInv_conv w0); try (unfold tev_entry_world; destruct kind; reflexivity). exact (proj2 HB0).
  - apply (XI_ext w0); try (intros; unfold tev_entry_world; destruct kind; reflexivity); exact HX0.
Qed.

Lemma send_to_DI tag target ev w : DI w -> DI (res_world (send_to beh tag target ev w)).
Proof.
  intros HD. unfold send_to. pose proof (add_targeted_event_DI tag w HD) as H.
  destruct (add_targeted_event beh tag w) as [k w1|e w1]; cbn [res_world] in *; [now apply flush_DI|now apply DI_ev_drop].
Qed.

Theorem op_spawn_DI w : DI w -> DI (res_world (op_spawn beh w)).
Proof.
  intros HD. unfold op_spawn. apply rbind_DI.
  - unfold reserve. repeat break_match; cbn [res_world]; exact HD.
  - intros id w1 HD1. apply rbind_DI; [now apply send_global_DI|]. intros [] w2 HD2. exact HD2.
Qed.
Theorem op_insert_DI e ktag w : DI w -> DI (res_world (op_insert beh e ktag w)).
Proof.
  intros HD. unfold op_insert. destruct (new_cval w ktag) as [v w1] eqn:E. apply send_to_DI.
  assert (w1 = snd (new_cval w ktag)) by now rewrite E. subst w1. unfold new_cval. destruct (ctag_zst ktag); exact HD.
Qed.
Theorem op_remove_DI e ktag w : DI w -> DI (res_world (op_remove beh e ktag w)).
Proof. intros HD. unfold op_remove. now apply send_to_DI. Qed.
Theorem op_despawn_DI e w : DI w -> DI (res_world (op_despawn beh e w)).
Proof. intros HD. unfold op_despawn. now apply send_to_DI. Qed.
Theorem op_send_DI gtag w : DI w -> DI (res_world (op_send beh gtag w)).
Proof. intros HD. unfold op_send. cbn [fresh_serial]. apply send_global_DI. exact HD. Qed.
Theorem op_send_to_DI e ttag w : DI w -> DI (res_world (op_send_to beh e ttag w)).
Proof. intros HD. unfold op_send_to. cbn [fresh_serial]. apply send_to_DI. exact HD. Qed.

Lemma resolve_query_DI q : forall w, DI w -> DI (res_world (resolve_query beh q w)).
Proof.
  induction q as [c|c|qs IH|q IH|l r IHl IHr|l r IHl IHr|q IH|q IH|q IH|] using query_ind'; intros w HD; cbn [resolve_query];
    try (apply rbind_DI; [now apply add_component_DI|intros; assumption]);
    try (apply rbind_DI; [now apply IH|intros; assumption]);
    try (apply rbind_DI; [now apply IHl|intros ? w1 HD1; apply rbind_DI; [now apply IHr|intros; assumption]]);
    try exact HD.
  apply rbind_DI; [|intros; assumption].
  revert w HD. induction IH as [|x t Hx _ IHt]; intros w HD; [exact HD|].
  apply rbind_DI; [now apply Hx|]. intros x' w1 HD1. apply rbind_DI; [now apply IHt|intros; assumption].
Qed.
Lemma register_set_DI evs : forall w, DI w -> DI (res_world (register_set beh evs w)).
Proof.
  induction evs as [|[t tag] rest IH]; intros w HD; cbn [register_set]; [exact HD|].
  apply rbind_DI.
  - destruct t; [now apply add_targeted_event_DI|now apply add_global_event_DI].
  - intros k w1 HD1. apply rbind_DI; [now apply IH|intros; assumption].
Qed.
Lemma init_param_DI p c w : DI w -> DI (res_world (init_param beh p c w)).
Proof.
  intros HD. destruct p; cbn [init_param].
  - apply rbind_DI; [now apply add_global_event_DI|intros; assumption].
  - apply rbind_DI; [now apply add_targeted_event_DI|]. intros k w1 HD1. apply rbind_DI; [now apply resolve_query_DI|intros; assumption].
  - apply rbind_DI; [now apply resolve_query_DI|intros; assumption].
  - apply rbind_DI; [now apply register_set_DI|intros; assumption].
Qed.
Lemma init_params_DI ps : forall c w, DI w -> DI (res_world (init_params beh ps c w)).
Proof.
  induction ps as [|p t IH]; intros c w HD; cbn [init_params]; [exact HD|].
  apply rbind_DI; [now apply init_param_DI|]. intros c1 w1 HD1. now apply IH.
Qed.
End Ops.

Section Ops2.
Variable beh : hinfo -> logent -> N -> script.

Theorem add_handler_DI sh w : DI w -> DI (res_world (add_handler beh sh w)).
Proof.
  intros HD. unfold add_handler in *.
  destruct (match sh_tid sh with Some t => alookup t (w_hby w) | None => None end); [exact HD|].
  pose proof (init_params_DI beh (sh_params sh) cfg0 w HD) as HD1. pose proof (init_params_CfInv beh (sh_params sh) cfg0 w CfInv_cfg0) as HC.
  destruct (init_params beh (sh_params sh) cfg0 w) as [c w1|f w1]; cbn [rbind res_world] in *; [|exact HD1].
  destruct (cf_recv c) as [|rv|]; try exact HD1. destruct (cf_access c) as [acc|]; [|exact HD1].
  destruct (handler_conflicts (cf_cas c)); [|exact HD1].
  destruct (insert_with _ (w_hs w1)) as [[k hs]|] eqn:Ei; [|exact HD1].
  destruct (DI_parts _ HD1) as (HF1 & HH1 & HO1 & HX1). destruct HD1 as [HB1 _].
  match goal with |- context [archs_register_handler ?w2 k] =>
    assert (HD3 : DI (archs_register_handler w2 k)) end.
  { split; [split|].
    - destruct (AI_parts _ (proj1 HB1)) as ([HR1 HK1] & _ & HG1).
      match goal with |- AI (archs_register_handler ?w2 k) => destruct (archs_register_handler_structure w2 k) as [Hs Hg]; split; [split; [split|]|] end.
      + match goal with |- RInv (archs_register_handler ?w2 k) => apply (RInv_structure w2); [exact Hs|exact Hg|exact HR1] end.
      + match goal with |- KInv (archs_register_handler ?w2 k) => apply (KInv_kreg w2); [apply kreg_archs_register_handler|exact (proj1 (structure_cshape _ _ Hs))|exact HK1] end.
      + eapply (add_handler_entry_HL w1 _ k hs rv (sh_prio sh) (cf_filter c)); [exact HH1|exact Ei|]. intros k0. repeat split.
      + unfold GInv in *. rewrite Hg. exact HG1.
    - eapply (add_handler_entry_O w1 _ k hs rv (sh_prio sh) (cf_filter c)); [exact HH1|exact HO1|exact Ei|]. intros k0. repeat split.
    - eapply (add_handler_entry_XI w1 _ k hs); [exact (proj1 HH1)|exact HX1|exact Ei|reflexivity|]. cbn [h_params h_archfilter].
      intros p q cache Hin Hq. destruct (CfInv_pinv c (mkA 0 [] [] 0 0 [] [] [] []) q p cache HC Hin Hq) as [A _]. split; [exact A|].
      intros a Hm. exact (proj2 (CfInv_pinv c a q p cache HC Hin Hq) Hm). }
  apply rbind_DI; [now apply send_global_DI|intros; assumption].
Qed.

Theorem remove_handler_DI k w : DI w -> DI (res_world (remove_handler beh k w)).
Proof.
  intros HD. unfold remove_handler. destruct (sm_get k (w_hs w)) as [h0|]; [|exact HD]. clear h0.
  apply rbind_DI; [now apply send_global_DI|]. intros [] w1 HD1. destruct (DI_parts _ HD1) as (HF1 & HH1 & HO1 & HX1). destruct HD1 as [HB1 _].
  unfold handlers_remove. destruct (sm_remove k (w_hs w1)) as [[h1 hs]|] eqn:Er; [|split; [exact HB1|exact HX1]]. cbn [res_world].
  split; [split|].
  - destruct (AI_parts _ (proj1 HB1)) as ([HR1 HK1] & _ & HG1).
    match goal with |- AI (archs_remove_handler ?w2 h1) => destruct (archs_remove_handler_structure w2 h1) as [Hs Hg]; split; [split; [split|]|] end.
    + match goal with |- RInv (archs_remove_handler ?w2 h1) => apply (RInv_structure w2); [exact Hs|exact Hg|exact HR1] end.
    + match goal with |- KInv (archs_remove_handler ?w2 h1) => apply (KInv_kreg w2); [reflexivity|exact (proj1 (structure_cshape _ _ Hs))|exact HK1] end.
    + exact (remove_handler_entry_HL w1 k h1 hs _ HH1 Er).
    + unfold GInv in *. rewrite Hg. exact HG1.
  - exact (remove_handler_entry_O w1 k h1 hs _ HH1 HO1 Er).
  - exact (remove_handler_entry_XI w1 k h1 hs _ _ _ (proj1 HH1) HX1 Er).
Qed.
Lemma remove_handlers_DI ks : forall w, DI w -> DI (res_world (remove_handlers beh ks w)).
Proof.
  induction ks as [|k t IH]; intros w HD; cbn [remove_handlers]; [exact HD|].
  apply rbind_DI; [now apply remove_handler_DI|]. intros b w1 HD1. now apply IH.
Qed.

Theorem remove_global_event_DI k w : DI w -> DI (res_world (remove_global_event beh k w)).
Proof.
  intros HD. pose proof (remove_global_event_BI beh k w (proj1 HD)) as HB. unfold remove_global_event in *.
  destruct (sm_get k (w_gev w)); [|exact HD].
  pose proof (send_global_DI beh G_RMGE (mkEv 0 0 k) w HD) as X.
  destruct (send_global beh RFUEL G_RMGE (mkEv 0 0 k) w) as [[] w1|f w1]; cbn [rbind res_world] in *; [|exact X].
  match goal with |- context [remove_handlers beh ?ks w1] => pose proof (remove_handlers_DI ks w1 X) as Y; destruct (remove_handlers beh ks w1) as [[] w2|f w2] end; cbn [rbind res_world] in *; [|exact Y].
  destruct (sm_remove k (w_gev w2)) as [[info m]|]; [|exact Y]. cbn [res_world] in *. split; [exact HB|exact (proj2 Y)].
Qed.
Theorem remove_targeted_event_DI k w : DI w -> DI (res_world (remove_targeted_event beh k w)).
Proof.
  intros HD. pose proof (remove_targeted_event_BI beh k w (proj1 HD)) as HB. unfold remove_targeted_event in *.
  destruct (sm_get k (w_tev w)); [|exact HD].
  pose proof (send_global_DI beh G_RMTE (mkEv 0 0 k) w HD) as X.
  destruct (send_global beh RFUEL G_RMTE (mkEv 0 0 k) w) as [[] w1|f w1]; cbn [rbind res_world] in *; [|exact X].
  match goal with |- context [remove_handlers beh ?ks w1] => pose proof (remove_handlers_DI ks w1 X) as Y; destruct (remove_handlers beh ks w1) as [[] w2|f w2] end; cbn [rbind res_world] in *; [|exact Y].
  destruct (sm_remove k (w_tev w2)) as [[info m]|]; [|exact Y]. cbn [res_world] in *. split; [exact HB|]. destruct (e_kind info); exact (proj2 Y).
Qed.
Lemma remove_tevents_DI ks : forall w, DI w -> DI (res_world (remove_tevents beh ks w)).
Proof.
  induction ks as [|k t IH]; intros w HD; cbn [remove_tevents]; [exact HD|].
  apply rbind_DI; [now apply remove_targeted_event_DI|]. intros b w1 HD1. now apply IH.
Qed.

Lemma archs_remove_component_XI cidx ctag w l : WInv w -> NoDup l -> (forall ai a, arch_at w ai = Some a -> (In ai l <-> In cidx (a_comps a))) ->
  XI w -> XI (archs_remove_component w cidx ctag l).
Proof.
  intros HW Hnd Hmem HX. rewrite archs_remove_component_unfold. apply strip_XI.
  (* the slab stays well formed along the loop: J carries SlabInv *)
  assert (Hin : forall ai a, In ai l -> arch_at w ai = Some a -> has_c cidx a) by (intros ai a Hi Ha; now apply (Hmem ai a Ha)).
  clear Hmem. revert w HW HX Hnd Hin. generalize (WInv_J cidx). intros WJ.
  assert (G : forall l w, J cidx w -> XI w -> NoDup l -> (forall ai a, In ai l -> arch_at w ai = Some a -> has_c cidx a) -> XI (fold_left (rc_step cidx ctag) l w)).
  { clear l. induction l as [|ai l IH]; intros w HJ HX Hnd Hin; cbn [fold_left]; [exact HX|]. inversion Hnd as [|? ? Hni Hnd']; subst.
    assert (Hs : SlabInv (w_archs w)) by (destruct HJ as (_ & X & _); exact X).
    destruct (arch_at w ai) as [a|] eqn:Ha.
    - destruct (J_step cidx ctag w ai a HJ Ha (Hin ai a (or_introl eq_refl) Ha)) as (HJ' & Hat & _).
      apply IH; [exact HJ'|now apply rc_step_XI|exact Hnd'|]. intros aj b Hj Hb. rewrite Hat in Hb. destruct (aj =? ai); [discriminate|]. eapply Hin; [right; exact Hj|exact Hb].
    - rewrite (rc_step_dead cidx ctag w ai Ha). apply IH; auto. intros aj b Hj Hb. eapply Hin; [right; exact Hj|exact Hb]. }
  intros w HW HX Hnd Hin. apply G; auto.
Qed.

Theorem remove_component_DI k w : DI w -> DI (res_world (remove_component beh k w)).
Proof.
  intros HD. pose proof (remove_component_BI beh k w (proj1 HD)) as HB. unfold remove_component in *.
  destruct (sm_get k (w_comps w)) as [ci0|]; [|exact HD]. clear ci0.
  pose proof (send_global_DI beh G_RMC (mkEv 0 0 k) w HD) as X1.
  destruct (send_global beh RFUEL G_RMC (mkEv 0 0 k) w) as [[] w1|f w1]; cbn [rbind res_world] in *; [|exact X1].
  pose proof (add_targeted_event_DI beh T_DESPAWN w1 X1) as X2.
  destruct (add_targeted_event beh T_DESPAWN w1) as [dk w2|f w2]; cbn [rbind res_world] in *; [|exact X2].
  match goal with |- context [flush beh ?q w2] => pose proof (flush_DI beh q w2 X2) as X3; destruct (flush beh q w2) as [[] w3|f w3] end; cbn [rbind res_world] in *; [|exact X3].
  match goal with |- context [remove_handlers beh ?ks w3] => pose proof (remove_handlers_DI ks w3 X3) as X4; destruct (remove_handlers beh ks w3) as [[] w4|f w4] end; cbn [rbind res_world] in *; [|exact X4].
  destruct (sm_get k (w_comps w4)) as [ci|]; [|exact X4].
  pose proof (remove_tevents_DI (c_ins ci ++ c_rem ci) w4 X4) as X5.
  destruct (remove_tevents beh (c_ins ci ++ c_rem ci) w4) as [[] w5|f w5]; cbn [rbind res_world] in *; [|exact X5].
  destruct (sm_remove k (w_comps w5)) as [[ci' m]|] eqn:Er; [|exact X5]. cbn [res_world] in *.
  split; [exact HB|].
  change (XI (archs_remove_component (set_comps w5 m (aremove (c_tag ci') (w_cby w5))) (fst k) (c_tag ci') (c_member_of ci'))).
  destruct (DI_parts _ X5) as ([[HW5 _] (S1 & _ & K1 & _)] & _ & _ & HX5).
  pose proof (remove_get_self k (w_comps w5) ci' m Er) as Hk5. pose proof (gbi_of_get _ _ _ Hk5) as Hgk5.
  apply archs_remove_component_XI; [eapply WInv_ext; [| | |exact HW5]; reflexivity|exact (proj1 (K1 (fst k) k ci' Hgk5))| |exact HX5].
  intros ai a Ha. destruct (K1 (fst k) k ci' Hgk5) as [_ Hm]. rewrite Hm. change (arch_at (set_comps w5 m (aremove (c_tag ci') (w_cby w5))) ai) with (arch_at w5 ai) in Ha. split.
  - intros (b & Hb & Hin). congruence.
  - intros Hin. eauto.
Qed.
End Ops2.

Lemma DI_world0 fuel p : DI (world0 fuel p).
Proof.
  split; [apply BI_world0|]. unfold XI, FI, FIx, RfInv, PInv, RN, hlive, world0, arch_at. cbn [w_hs w_archs].
  split; [intros hk h p0 q c H; discriminate|]. split; [|split; [intros hk h p0 q c H; discriminate|]].
  - intros ai a Ha hk. unfold slab_get in Ha. cbn [sl_entries nget] in Ha. destruct (ai =? 0); [|discriminate]. inversion Ha; subst. cbn. split; [intros []|intros (h & H & _); discriminate].
  - intros ai a Ha. unfold slab_get in Ha. cbn [sl_entries nget] in Ha. destruct (ai =? 0); [|discriminate]. inversion Ha; subst. constructor.
Qed.

Lemma run_top_all_DI beh w o : DI w -> DI (run_top_all beh w o).
Proof.
  intros HD. destruct o as [o|k]; cbn [run_top_all]; [|now apply remove_component_DI]. destruct o; cbn [run_top].
  - now apply op_spawn_DI. - now apply op_insert_DI. - now apply op_remove_DI. - now apply op_despawn_DI.
  - now apply op_send_DI. - now apply op_send_to_DI. - now apply add_handler_DI. - now apply remove_handler_DI.
  - now apply add_component_DI. - now apply add_global_event_DI. - now apply add_targeted_event_DI.
  - now apply remove_global_event_DI. - now apply remove_targeted_event_DI.
Qed.

Theorem reachable_DI beh fuel p ops : DI (fold_left (run_top_all beh) ops (world0 fuel p)).
Proof. apply fold_left_invariant; [apply DI_world0|]. intros w o. apply run_top_all_DI. Qed.

(* ---------- C10 / C06 at world level: what a cache-backed view yields ---------- *)
Lemma cache_entry_ok w q first ai u e a : arch_at w ai = Some a -> u = a_uid a -> e = a_epoch a -> 0 < nlen (a_rows a) -> amatch a q = true ->
  exists st, arch_state (arch_has a) q = Some st /\ cache_entry_items w q first (ai, u, e) = inr (map (fun '(k, vals) => (k, aitem (row_col a vals) k st)) (a_rows a)).
Proof.
  intros Ha -> -> Hn Hm. unfold cache_entry_items. unfold arch_at in Ha. rewrite Ha, !N.eqb_refl. cbn [negb].
  replace (nlen (a_rows a) =? 0) with false by (symmetry; apply N.eqb_neq; lia). cbn [andb].
  unfold amatch in Hm. unfold has_of. destruct (arch_state (arch_has a) q) as [st|]; [|discriminate]. eauto.
Qed.

Theorem cache_items_ok w q c : CI w q c ->
  exists its, cache_items w q true c = inr its /\
    forall k, In k (map fst its) <-> exists ai a row vals, arch_at w ai = Some a /\ amatch a q = true /\ nget (a_rows a) row = Some (k, vals).
Proof.
  intros [Hnd Hg].
  assert (Hent : forall x, In x c -> exists a, arch_at w (ce_idx x) = Some a /\ snd (fst x) = a_uid a /\ snd x = a_epoch a /\ 0 < nlen (a_rows a) /\ amatch a q = true).
  { intros [[ai u] e] Hin. apply (Hg ai) in Hin as (a & A & B & C & D & E). exists a. cbn. auto. }
  assert (G : forall first l, (forall x, In x l -> In x c) -> exists its, cache_items w q first l = inr its /\
             forall k, In k (map fst its) <-> exists x a row vals, In x l /\ arch_at w (ce_idx x) = Some a /\ nget (a_rows a) row = Some (k, vals)).
  { intros first l. revert first. induction l as [|[[ai u] e] l IH]; intros first Hsub; cbn [cache_items].
    - exists []. split; [reflexivity|]. intros k. cbn. split; [intros []|intros (x & _ & _ & _ & [] & _)].
    - destruct (Hent (ai, u, e) (Hsub _ (or_introl eq_refl))) as (a & A & B & C & D & E). cbn [ce_idx fst snd] in *.
      destruct (cache_entry_ok w q first ai u e a A B C D E) as (st & Hst & ->). destruct (IH false (fun x Hx => Hsub x (or_intror Hx))) as (r & -> & Hr).
      eexists. split; [reflexivity|]. intros k. rewrite map_app, in_app_iff, Hr. rewrite map_map. split.
      + intros [X|(x & a0 & row & vals & X1 & X2 & X3)].
        * apply in_map_iff in X as ([k0 vals] & Ek & Hin). cbn in Ek. subst k0. destruct (in_nget _ _ Hin) as (row & Hrow). exists (ai, u, e), a, row, vals. split; [now left|auto].
        * exists x, a0, row, vals. split; [now right|auto].
      + intros (x & a0 & row & vals & [<-|X1] & X2 & X3).
        * left. cbn [ce_idx fst] in X2. rewrite A in X2. inversion X2; subst a0. apply in_map_iff. exists (k, vals). split; [reflexivity|eapply nget_in; eauto].
        * right. exists x, a0, row, vals. auto. }
  destruct (G true c (fun x H => H)) as (its & Hits & Hk). exists its. split; [exact Hits|]. intros k. rewrite Hk. split.
  - intros (x & a & row & vals & X1 & X2 & X3). destruct (Hent x X1) as (a0 & A & _ & _ & _ & E). rewrite X2 in A. inversion A; subst a0. exists (ce_idx x), a, row, vals. auto.
  - intros (ai & a & row & vals & X1 & X2 & X3). assert (Hpos : 0 < nlen (a_rows a)) by (eapply nlen_pos_get; eauto).
    assert (Hin : In (ai, a_uid a, a_epoch a) c) by (apply (Hg ai); exists a; auto). exists (ai, a_uid a, a_epoch a), a, row, vals. auto.
Qed.

Theorem recv_item_ok w q c loc a k vals : CI w q c -> arch_at w (fst loc) = Some a -> amatch a q = true -> nget (a_rows a) (snd loc) = Some (k, vals) ->
  exists st, arch_state (arch_has a) q = Some st /\ recv_item w q c loc = inr (aitem (row_col a vals) k st).
Proof.
  intros [Hnd Hg] Ha Hm Hrow. assert (Hpos : 0 < nlen (a_rows a)) by (eapply nlen_pos_get; eauto).
  assert (Hin : In (fst loc, a_uid a, a_epoch a) c) by (apply (Hg (fst loc)); exists a; auto).
  unfold recv_item. destruct (find (fun ce => ce_idx ce =? fst loc) c) as [[[ai u] e]|] eqn:Ef.
  - apply find_some in Ef as [Hx Ei]. cbn [ce_idx fst] in Ei. apply N.eqb_eq in Ei. subst ai.
    assert (E : (fst loc, u, e) = (fst loc, a_uid a, a_epoch a)) by (apply (idx_nodup_in c _ _ Hnd Hx Hin); reflexivity). inversion E; subst u e.
    unfold arch_at in Ha. rewrite Ha, !N.eqb_refl. cbn [negb]. unfold amatch in Hm. unfold has_of. destruct (arch_state (arch_has a) q) as [st|]; [|discriminate].
    rewrite Hrow. eauto.
  - exfalso. pose proof (find_none _ _ Ef _ Hin) as X. cbn [ce_idx fst] in X. rewrite N.eqb_refl in X. discriminate.
Qed.

(* for every live handler of a world satisfying the invariants, every Fetcher / Single parameter sees exactly the
   entities stored in archetypes its query matches, and a targeted receiver finds its target *)
Corollary handler_view_exact w hk h p q c : XI w -> hlive w hk h -> In p (h_params h) -> pquery p = Some (q, c) ->
  exists its, cache_items w q true c = inr its /\
    forall k, In k (map fst its) <-> exists ai a row vals, arch_at w ai = Some a /\ amatch a q = true /\ nget (a_rows a) row = Some (k, vals).
Proof.
  intros (HF & _) Hl Hp Hq. apply cache_items_ok. destruct (HF hk h p q c Hl Hp Hq) as [A B]. split; [exact A|]. intros j. apply B. tauto.
Qed.
