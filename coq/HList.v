(* HList.v : HandlerList of src/handler.rs:449-508 — executable definitions only.
   Entries are handler keys; the three priority segments are delimited by the two
   cursors [before] and [after].  Theorems are in HListProofs.v. *)
From Coq Require Import List NArith Bool.
Import ListNotations.
Require Import EV.Base.

Inductive prio := High | Medium | Low.
Definition prio_eqb (a b : prio) := match a, b with High, High | Medium, Medium | Low, Low => true | _, _ => false end.

Section HL.
Context {H : Type}.
Variable heqb : H -> H -> bool.

Record hlist := mkHl { hl_before : N; hl_after : N; hl_entries : list H }.
Definition hl_new : hlist := mkHl 0 0 [].

(* handler.rs:465-485 *)
Definition hl_insert (l : hlist) (h : H) (p : prio) : hlist :=
  match p with
  | High => mkHl (hl_before l + 1) (hl_after l + 1) (ninsert (hl_entries l) (hl_before l) h)
  | Medium => mkHl (hl_before l) (hl_after l + 1) (ninsert (hl_entries l) (hl_after l) h)
  | Low => mkHl (hl_before l) (hl_after l) (hl_entries l ++ [h])
  end.

(* handler.rs:487-506 *)
Definition hl_remove (l : hlist) (h : H) : hlist :=
  match nposition (heqb h) (hl_entries l) with
  | Some idx =>
      let e := nremove (hl_entries l) idx in
      if idx <? hl_after l
      then mkHl (if idx <? hl_before l then hl_before l - 1 else hl_before l) (hl_after l - 1) e
      else mkHl (hl_before l) (hl_after l) e
  | None => l
  end.
End HL.
Arguments hlist : clear implicits.
